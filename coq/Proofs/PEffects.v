(* Proofs/PEffects.v — lemmas about Model/MEffects.v (property C16). *)
From Coq Require Import List Bool String Ascii Arith Lia.
From KV Require Import Eqb Str AL.
From KV.Model Require Import MEffects.
Import ListNotations.
Local Open Scope string_scope.
Local Open Scope list_scope.

(* ------------------------------------------------------------------------------------ effect equality *)
Lemma effect_eqb_spec a b : reflect (a = b) (effect_eqb a b).
Proof.
  destruct a as [p|p|p| | | | ], b as [q|q|q| | | | ]; cbn; try (constructor; congruence);
    destruct (eqb_spec p q); constructor; congruence.
Qed.

Lemma eff_list_eqb_eq l m : eff_list_eqb l m = true <-> l = m.
Proof.
  revert m; induction l as [|x l IH]; intros [|y m]; cbn; try (split; congruence).
  rewrite andb_true_iff, IH. destruct (effect_eqb_spec x y) as [->|N]; split.
  - intros [_ ->]; reflexivity.
  - intros [= ->]; auto.
  - intros [H _]; discriminate.
  - intros [= E _]; contradiction.
Qed.

Lemma eff_memb_In e l : eff_memb e l = true <-> In e l.
Proof.
  induction l as [|x l IH]; cbn; [split; [discriminate|tauto]|].
  rewrite orb_true_iff, IH. destruct (effect_eqb_spec e x); split; intros [H|H]; auto; try discriminate; congruence.
Qed.

Lemma eff_set_eqb_spec l m : eff_set_eqb l m = true <-> (forall e, In e l <-> In e m).
Proof.
  unfold eff_set_eqb. rewrite andb_true_iff, !forallb_forall. split.
  - intros [A B] e; split; intros I; apply eff_memb_In; auto.
  - intros H; split; intros e I; apply eff_memb_In, H, I.
Qed.

(* --------------------------------------------------------------------------------------- element types *)
Lemma show_dtype_inj d d' : show_dtype d = show_dtype d' -> d = d'.
Proof. destruct d, d'; cbn; intros E; try reflexivity; discriminate. Qed.

Lemma lookup_dtype_all s d : lookup_dtype s all_dtypes = Some d <-> s = show_dtype d.
Proof.
  split.
  - unfold all_dtypes; cbn.
    repeat (match goal with |- context [eqb s ?x] => destruct (eqb_spec s x) as [->|] end;
            [intros [= <-]; reflexivity|]).
    discriminate.
  - intros ->. destruct d; reflexivity.
Qed.

Lemma lookup_dtype_none s : lookup_dtype s all_dtypes = None <-> forall d, s <> show_dtype d.
Proof.
  split.
  - intros N d E. apply lookup_dtype_all in E. congruence.
  - intros N. destruct (lookup_dtype s all_dtypes) as [d|] eqn:E; [|reflexivity].
    apply lookup_dtype_all in E. exfalso; exact (N d E).
Qed.

Lemma parse_dtype_show d : parse_dtype (show_dtype d) = Some d.
Proof. destruct d; reflexivity. Qed.
Lemma parse_dtype_np d : parse_dtype ("np." ++ show_dtype d)%string = Some d.
Proof. destruct d; reflexivity. Qed.
Lemma parse_dtype_numpy d : parse_dtype ("numpy." ++ show_dtype d)%string = Some d.
Proof. destruct d; reflexivity. Qed.

(* exactly the whitelist: the bare name, or the name behind one np. / numpy. prefix *)
Lemma parse_dtype_whitelist s d :
  parse_dtype s = Some d <->
  s = show_dtype d \/ s = ("np." ++ show_dtype d)%string \/ s = ("numpy." ++ show_dtype d)%string.
Proof.
  split.
  - unfold parse_dtype, strip_prefix.
    destruct (prefixb "numpy." s) eqn:P1.
    + apply prefixb_spec in P1. destruct P1 as [t ->]. cbn [drop String.append].
      intros E. apply lookup_dtype_all in E. subst t. right; right; reflexivity.
    + destruct (prefixb "np." s) eqn:P2.
      * apply prefixb_spec in P2. destruct P2 as [t ->]. cbn [drop String.append].
        intros E. apply lookup_dtype_all in E. subst t. right; left; reflexivity.
      * intros E. apply lookup_dtype_all in E. left; exact E.
  - intros [->|[->| ->]]; [apply parse_dtype_show | apply parse_dtype_np | apply parse_dtype_numpy].
Qed.

Definition accepted_names : list string :=
  flat_map (fun d => [show_dtype d; ("np." ++ show_dtype d)%string; ("numpy." ++ show_dtype d)%string]) all_dtypes.

Lemma all_dtypes_complete d : In d all_dtypes.
Proof. destruct d; cbn; tauto. Qed.

Lemma parse_dtype_accepts s : (exists d, parse_dtype s = Some d) <-> In s accepted_names.
Proof.
  unfold accepted_names. rewrite in_flat_map. split.
  - intros [d E]. exists d. split; [apply all_dtypes_complete|].
    apply parse_dtype_whitelist in E. cbn. intuition.
  - intros [d [_ I]]. exists d. apply parse_dtype_whitelist. cbn in I. intuition.
Qed.

Lemma parse_dtype_rejects s : parse_dtype s = None <-> ~ In s accepted_names.
Proof.
  rewrite <- parse_dtype_accepts. destruct (parse_dtype s) as [d0|]; split.
  - discriminate.
  - intros N; exfalso; apply N; exists d0; reflexivity.
  - intros _ [d1 E]; discriminate.
  - reflexivity.
Qed.

(* ------------------------------------------------------------------------------------------ safe paths *)
Lemma inside_app p q : p <> [] -> inside (p ++ q) = forallb safe_name p && forallb safe_name q.
Proof. destruct p as [|x p]; [congruence|]. intros _. cbn. rewrite forallb_app, andb_assoc. reflexivity. Qed.

Lemma inside_forallb p : p <> [] -> inside p = forallb safe_name p.
Proof. destruct p; [congruence|reflexivity]. Qed.

(* -------------------------------------------------------------------------------------------- the load *)
Section LoadProofs.
  Variable L : leaves.

  (* every effect of a run is the Read of the path of one of its stages *)
  Lemma run_effects stages t c e :
    In e (snd (run stages t c)) -> exists s, In s stages /\ e = Read (st_path s).
  Proof.
    revert c; induction stages as [|s rest IH]; intros c; cbn; [tauto|].
    destruct (st_run s t c) as [|er|[c'|er]]; cbn.
    - intros I. destruct (IH _ I) as [s' [I' E]]. exists s'; auto.
    - tauto.
    - destruct (run rest t c') as [o es] eqn:R. cbn. intros [<-|I]; [exists s; auto|].
      specialize (IH c'). rewrite R in IH. destruct (IH I) as [s' [I' E]]. exists s'; auto.
    - intros [<-|[]]. exists s; auto.
  Qed.

  (* the paths of the stages depend on the SHAPE of the directory only: which files and folders exist and what the
     feature folders list — not on any file's contents, nor on the leaf converters *)
  Definition shape := (list path * list (path * list string))%type.
  Definition shape_of (t : tree) : shape := (map fst (t_files t), t_dirs t).

  Definition feat_paths (sh : shape) (k : string) : list path :=
    d_feat k ::
    match find_dir (snd sh) (d_feat k) with
    | None => []
    | Some names => map (p_cfg k) (List.filter (fun n => memb (p_cfg k n) (fst sh)) names)
    end.
  Definition candidate_paths (sh : shape) : list path :=
    [p_sensors; p_rigs; p_traj; p_rec "camera"; p_rec "depth"; p_rec "lidar"; p_rec "wifi"; p_rec "bluetooth";
     p_rec "gnss"; p_rec "accelerometer"; p_rec "gyroscope"; p_rec "magnetic"]
    ++ feat_paths sh "keypoints" ++ feat_paths sh "descriptors" ++ feat_paths sh "global_features"
    ++ [d_feat "matches"; p_p3d; p_obs].

  Lemma find_file_memb fs p :
    (match find_file fs p with Some _ => true | None => false end) = memb p (map fst fs).
  Proof.
    induction fs as [|[q f] fs IH]; cbn; [reflexivity|].
    destruct (eqb_spec p q); cbn; [reflexivity|exact IH].
  Qed.

  Lemma feat_stages_paths t k : map st_path (feat_stages L t k) = feat_paths (shape_of t) k.
  Proof.
    unfold feat_stages, feat_paths, shape_of; cbn [fst snd map st_path st_guard]. f_equal.
    destruct (find_dir (t_dirs t) (d_feat k)) as [names|]; [|reflexivity].
    rewrite map_map.
    rewrite (filter_ext _ (fun n => memb (p_cfg k n) (map fst (t_files t)))) by (intros n; apply find_file_memb).
    reflexivity.
  Qed.

  Lemma stages_paths t : map st_path (stages_of L t) = candidate_paths (shape_of t).
  Proof.
    unfold stages_of, candidate_paths. rewrite !map_app, !feat_stages_paths. reflexivity.
  Qed.

  Lemma load_reads_candidates t e :
    In e (snd (load_e L t)) -> exists p, e = Read p /\ In p (candidate_paths (shape_of t)).
  Proof.
    intros I. apply run_effects in I. destruct I as [s [I ->]].
    exists (st_path s); split; [reflexivity|]. rewrite <- stages_paths. apply in_map; exact I.
  Qed.

  (* what the operating system guarantees about a listing: plain entry names *)
  Definition wf_listing (ds : list (path * list string)) : Prop :=
    forall d names n, In (d, names) ds -> In n names -> safe_name n = true.

  Lemma find_dir_In {A} (ds : list (path * A)) d (x : A) : find_dir ds d = Some x -> In (d, x) ds.
  Proof.
    induction ds as [|[q l] ds IH]; cbn; [discriminate|].
    destruct (eqb_spec d q) as [->|]; [intros [= ->]; auto | auto].
  Qed.

  Lemma feat_paths_inside sh k p :
    wf_listing (snd sh) -> In k ["keypoints"; "descriptors"; "global_features"] ->
    In p (feat_paths sh k) -> inside p = true.
  Proof.
    intros WF K. unfold feat_paths. intros [<-|I].
    - cbn in K. destruct K as [<-|[<-|[<-|[]]]]; reflexivity.
    - destruct (find_dir (snd sh) (d_feat k)) as [names|] eqn:F; [|contradiction].
      apply in_map_iff in I. destruct I as [n [<- I]]. apply filter_In in I. destruct I as [I _].
      pose proof (WF _ _ _ (find_dir_In _ _ _ F) I) as S.
      cbn in K. destruct K as [<-|[<-|[<-|[]]]]; cbn; rewrite S; reflexivity.
  Qed.

  Lemma candidate_paths_inside sh p : wf_listing (snd sh) -> In p (candidate_paths sh) -> inside p = true.
  Proof.
    intros WF. unfold candidate_paths. rewrite !in_app_iff. intros [I|[I|[I|[I|I]]]].
    - cbn in I. repeat (destruct I as [<-|I]; [reflexivity|]). contradiction.
    - eapply feat_paths_inside; eauto. cbn; auto.
    - eapply feat_paths_inside; eauto. cbn; auto.
    - eapply feat_paths_inside; eauto. cbn; auto.
    - cbn in I. repeat (destruct I as [<-|I]; [reflexivity|]). contradiction.
  Qed.

  Lemma load_reads_only t e :
    wf_listing (t_dirs t) -> In e (snd (load_e L t)) -> exists p, e = Read p /\ inside p = true.
  Proof.
    intros WF I. destruct (load_reads_candidates _ _ I) as [p [-> C]].
    exists p; split; [reflexivity|]. eapply candidate_paths_inside; [|exact C]. exact WF.
  Qed.

  (* ---- an invalid element type is never swallowed *)
  (* if a run completes, every stage either skipped or opened its file and went on, in a context that keeps
     every invariant the stages preserve *)
  Lemma run_value_stages (P : ctx -> Prop) stages t c es :
    (forall s c c', In s stages -> P c -> st_run s t c = Opened (Ok c') -> P c') ->
    P c -> run stages t c = (Value, es) ->
    forall s, In s stages ->
      exists c', P c' /\ (st_run s t c' = Skip \/ exists c'', st_run s t c' = Opened (Ok c'')).
  Proof.
    revert c es; induction stages as [|s0 rest IH]; intros c es Pres Pc R s I; [contradiction|].
    cbn in R. destruct (st_run s0 t c) as [|er|[c1|er]] eqn:S0; try discriminate.
    - destruct I as [<-|I].
      + exists c; split; [exact Pc|left; exact S0].
      + eapply IH; eauto. intros; eapply Pres; eauto. right; assumption.
    - destruct (run rest t c1) as [o es1] eqn:R1. injection R as -> <-.
      destruct I as [<-|I].
      + exists c; split; [exact Pc|right; exists c1; exact S0].
      + eapply (IH c1 es1); eauto.
        * intros; eapply Pres; eauto. right; assumption.
        * eapply Pres; eauto. left; reflexivity.
  Qed.

  Definition ver_is (v : vclass) (c : ctx) : Prop := c_ver c = v.

  Lemma csv_stage_keeps_ver p gate row_ok upd v :
    (forall c rows, c_ver (upd c rows) = c_ver c) ->
    forall t c c', ver_is v c -> st_run (csv_stage p gate row_ok upd) t c = Opened (Ok c') -> ver_is v c'.
  Proof.
    intros U t c c' V. unfold csv_stage; cbn.
    destruct (find_file (t_files t) p); [|discriminate].
    destruct (gate c); [|discriminate]. destruct (forallb (row_ok c) (f_rows f)); [|discriminate].
    intros [= <-]. unfold ver_is. rewrite U. exact V.
  Qed.

  Lemma guard_never_opens k t c r : st_run (st_guard k) t c <> Opened r.
  Proof.
    unfold st_guard; cbn [st_run]. destruct (is_cur c); [|discriminate].
    destruct (find_dir (t_dirs t) (d_feat k)); [|discriminate]. destruct (c_cam c); discriminate.
  Qed.

  Lemma cfg_keeps_ver k n t v c c' : ver_is v c -> st_run (st_cfg L k n) t c = Opened (Ok c') -> ver_is v c'.
  Proof.
    intros V. unfold st_cfg; cbn [st_run]. destruct (is_cur c); [|discriminate].
    destruct (find_file (t_files t) (p_cfg k n)) as [f|]; [|discriminate].
    destruct (cfg_check L k (p_cfg k n) (f_rows f)); [discriminate|].
    destruct (eqb k "keypoints"); intros [= <-]; exact V.
  Qed.

  Lemma p3d_keeps_ver t v c c' : ver_is v c -> st_run st_p3d t c = Opened (Ok c') -> ver_is v c'.
  Proof.
    intros V. unfold st_p3d; cbn [st_run]. destruct (is_cur c); [|discriminate].
    destruct (find_file (t_files t) p_p3d); [|discriminate].
    destruct (t_p3d_ok t); [|discriminate]. intros [= <-]; exact V.
  Qed.

  Lemma obs_keeps_ver t v c c' : ver_is v c -> st_run (st_obs L) t c = Opened (Ok c') -> ver_is v c'.
  Proof.
    intros V. unfold st_obs; cbn [st_run]. destruct (is_cur c); [|discriminate].
    destruct (find_file (t_files t) p_obs) as [f|]; [|discriminate].
    destruct (c_kp c) as [kp|]; [|discriminate]. destruct (c_p3d c); [|discriminate].
    destruct (forallb (obs_row_ok L kp) (f_rows f)); [|discriminate]. intros [= <-]; exact V.
  Qed.

  Lemma feat_stages_keep_ver t k v s c c' :
    In s (feat_stages L t k) -> ver_is v c -> st_run s t c = Opened (Ok c') -> ver_is v c'.
  Proof.
    unfold feat_stages. intros [<-|I] V R.
    - exfalso; eapply guard_never_opens; exact R.
    - destruct (find_dir (t_dirs t) (d_feat k)) as [names|]; [|contradiction].
      apply in_map_iff in I. destruct I as [n [<- _]]. eapply cfg_keeps_ver; eassumption.
  Qed.

  Lemma tail_stages_keep_ver t v s c c' :
    In s (tl (stages_of L t)) -> ver_is v c -> st_run s t c = Opened (Ok c') -> ver_is v c'.
  Proof.
    unfold stages_of. cbn [tl app]. intros I V.
    repeat (destruct I as [<-|I]; [apply csv_stage_keeps_ver; [intros; reflexivity | exact V]|]).
    rewrite !in_app_iff in I.
    destruct I as [I|[I|[I|I]]]; try (eapply feat_stages_keep_ver; eassumption).
    destruct I as [<-|[<-|[<-|[]]]]; intros R.
    - exfalso; eapply guard_never_opens; exact R.
    - eapply p3d_keeps_ver; eassumption.
    - eapply obs_keeps_ver; eassumption.
  Qed.

  (* the descriptor files a completed load of a current-version dataset has gone through *)
  Definition listed_config (t : tree) (k name : string) (f : file) : Prop :=
    In k ["keypoints"; "descriptors"; "global_features"] /\
    (exists names, find_dir (t_dirs t) (d_feat k) = Some names /\ In name names) /\
    find_file (t_files t) (p_cfg k name) = Some f.

  Lemma listed_config_stage t k name f :
    listed_config t k name f -> In (st_cfg L k name) (tl (stages_of L t)).
  Proof.
    intros [K [[names [D I]] F]]. unfold stages_of. cbn [tl app].
    do 11 right. rewrite !in_app_iff.
    assert (FS : In (st_cfg L k name) (feat_stages L t k)).
    { unfold feat_stages. right. rewrite D. apply in_map. apply filter_In. split; [exact I|]. rewrite F. reflexivity. }
    cbn in K. destruct K as [<-|[<-|[<-|[]]]]; auto.
  Qed.

  Lemma sensors_stage_cur t fs :
    find_file (t_files t) p_sensors = Some fs -> f_ver fs = VCur ->
    (exists e, st_run (st_sensors L) t ctx0 = Opened (Fail e)) \/
    (exists c1, st_run (st_sensors L) t ctx0 = Opened (Ok c1) /\ ver_is VCur c1).
  Proof.
    intros FS VC. unfold st_sensors; cbn [st_run]. rewrite FS, VC.
    destruct (forallb (sensor_row_ok L) (f_rows fs)).
    - right. eexists; split; [reflexivity|]. reflexivity.
    - left. eexists; reflexivity.
  Qed.

  Lemma load_value_tail t fs :
    find_file (t_files t) p_sensors = Some fs -> f_ver fs = VCur -> fst (load_e L t) = Value ->
    exists c1 es, ver_is VCur c1 /\ run (tl (stages_of L t)) t c1 = (Value, es).
  Proof.
    intros FS VC V. unfold load_e in V.
    change (stages_of L t) with (st_sensors L :: tl (stages_of L t)) in V. cbn [run] in V.
    destruct (sensors_stage_cur t fs FS VC) as [[e S]|[c1 [S V1]]]; rewrite S in V; [discriminate V|].
    destruct (run (tl (stages_of L t)) t c1) as [o es] eqn:R. cbn in V. subst o.
    exists c1, es; split; [exact V1|exact R].
  Qed.

  Lemma load_value_dtypes_ok t fs :
    fst (load_e L t) = Value ->
    find_file (t_files t) p_sensors = Some fs -> f_ver fs = VCur ->
    forall k name f, listed_config t k name f ->
      exists r rest d, f_rows f = r :: rest /\ parse_dtype (nth_s 1 r) = Some d.
  Proof.
    intros V FS VC k name f LC.
    destruct (load_value_tail t fs FS VC V) as [c1 [es [V1 R]]].
    pose proof (listed_config_stage _ _ _ _ LC) as IS.
    destruct (run_value_stages (ver_is VCur) _ t c1 es
                (fun s c c' I => tail_stages_keep_ver t VCur s c c' I) V1 R _ IS) as [c' [VC' H]].
    destruct LC as [_ [_ F]].
    assert (CUR : is_cur c' = true) by (unfold is_cur; rewrite VC'; reflexivity).
    unfold st_cfg in H; cbn [st_run] in H. rewrite CUR, F in H.
    destruct (cfg_check L k (p_cfg k name) (f_rows f)) as [er|] eqn:CC.
    - destruct H as [H|[c'' H]]; discriminate.
    - unfold cfg_check in CC. destruct (f_rows f) as [|r rest]; [discriminate|].
      destruct (Nat.eqb (List.length r) (ncols k) && is_int L (nth_s 2 r)); [|discriminate].
      destruct (parse_dtype (nth_s 1 r)) as [d|] eqn:PD; [|discriminate].
      exists r, rest, d; auto.
  Qed.

  (* ... and it is reported with the file and the offending field *)
  Lemma cfg_check_bad_dtype k p r rest :
    List.length r = ncols k -> is_int L (nth_s 2 r) = true -> parse_dtype (nth_s 1 r) = None ->
    cfg_check L k p (r :: rest) = Some (EBadDtype p (nth_s 1 r)).
  Proof. intros LN I P. unfold cfg_check. rewrite LN, Nat.eqb_refl, I, P. reflexivity. Qed.

  (* ---------------------------------------------------------------------------------------- the upgrade *)
  Definition wf_moves (ms : list (path * list path)) : Prop :=
    forall d rels rel, In (d, rels) ms -> In rel rels -> forallb safe_name rel = true.
  Definition safe_opt (o : option string) : Prop := match o with Some ty => safe_name ty = true | None => True end.

  Definition all_inside (es : list effect) : Prop := forall e, In e es -> effect_inside e = true.

  Lemma all_inside_app a b : all_inside (a ++ b) <-> all_inside a /\ all_inside b.
  Proof.
    unfold all_inside; split.
    - intros H; split; intros e I; apply H, in_app_iff; auto.
    - intros [A B] e I; apply in_app_iff in I; destruct I; auto.
  Qed.
  Lemma all_inside_nil : all_inside [].
  Proof. intros e []. Qed.
  Lemma all_inside_cons e es : all_inside (e :: es) <-> effect_inside e = true /\ all_inside es.
  Proof. change (e :: es) with ([e] ++ es). rewrite all_inside_app. unfold all_inside at 1; cbn. intuition; subst; auto. Qed.

  Lemma then_inside a b : all_inside (snd a) -> all_inside (snd b) -> all_inside (snd (then_ a b)).
  Proof.
    destruct a as [[e|] es]; cbn; [auto|]. intros A B. apply all_inside_app; auto.
  Qed.

  Ltac ai := repeat (apply all_inside_cons; split; [cbn [effect_inside]; try assumption; try reflexivity|]);
             try apply all_inside_nil.

  Lemma csv_1_0_inside : forallb inside csv_1_0 = true.
  Proof. reflexivity. Qed.

  Lemma up_header_inside t p : inside p = true -> all_inside (snd (up_header t p)).
  Proof.
    intros I. unfold up_header. destruct (find_file (t_files t) p) as [f|]; [|apply all_inside_nil].
    destruct (old_version_ok (f_ver f)); cbn [snd]; ai.
  Qed.

  Lemma up_headers_inside t ps : forallb inside ps = true -> all_inside (snd (up_headers t ps)).
  Proof.
    induction ps as [|p ps IH]; cbn; [intros; apply all_inside_nil|].
    rewrite andb_true_iff. intros [I1 I2].
    pose proof (up_header_inside t p I1) as H.
    destruct (up_header t p) as [[e|] es]; cbn in *; [exact H|].
    destruct (up_headers t ps) as [o es'] eqn:U. cbn. apply all_inside_app; split; [exact H|].
    specialize (IH I2). exact IH.
  Qed.

  Definition kind3 (k : string) : Prop := In k ["keypoints"; "descriptors"; "global_features"].
  Definition kind4 (k : string) : Prop := In k ["keypoints"; "descriptors"; "global_features"; "matches"].

  Lemma d_feat_safe k : kind4 k -> forallb safe_name (d_feat k) = true.
  Proof. intros K; cbn in K. destruct K as [<-|[<-|[<-|[<-|[]]]]]; reflexivity. Qed.
  Lemma json_name_safe k : safe_name (json_name k) = true.
  Proof. unfold json_name. destruct (eqb k "keypoints"); [reflexivity|]. destruct (eqb k "matches"); reflexivity. Qed.
  Lemma cfg_name_safe k : kind3 k -> safe_name (cfg_name k) = true.
  Proof. intros K; cbn in K. destruct K as [<-|[<-|[<-|[]]]]; reflexivity. Qed.
  Lemma kind3_4 k : kind3 k -> kind4 k.
  Proof. unfold kind3, kind4; cbn; tauto. Qed.

  Lemma inside_feat k q : kind4 k -> inside (d_feat k ++ q) = forallb safe_name q.
  Proof. intros K. rewrite inside_app by (unfold d_feat; congruence). rewrite d_feat_safe by exact K. reflexivity. Qed.

  Lemma json_effects_inside t k ty : kind4 k -> safe_name ty = true -> all_inside (json_effects t k ty).
  Proof.
    intros K S. unfold json_effects. destruct (eqb k "descriptors"); [apply all_inside_nil|].
    destruct (memb (d_feat k ++ [json_name k]) (t_json t)); [|apply all_inside_nil].
    unfold move_effects.
    apply all_inside_cons; split.
    { cbn [effect_inside]. rewrite inside_feat by exact K. cbn. rewrite json_name_safe. reflexivity. }
    apply all_inside_cons; split; [|apply all_inside_nil].
    cbn [effect_inside]. rewrite inside_feat by exact K. cbn. rewrite S, json_name_safe. reflexivity.
  Qed.

  Lemma files_effects_inside t k ty :
    kind4 k -> wf_moves (t_moves t) -> safe_name ty = true -> all_inside (files_effects t k ty).
  Proof.
    intros K WF S e I. unfold files_effects in I. apply in_flat_map in I. destruct I as [rel [IR IE]].
    assert (SR : forallb safe_name rel = true).
    { unfold moves_of in IR. destruct (find_dir (t_moves t) (d_feat k)) as [l|] eqn:F; [|contradiction].
      eapply WF; [apply find_dir_In; exact F | exact IR]. }
    unfold move_effects in IE. destruct IE as [<-|[<-|[]]]; cbn [effect_inside]; rewrite inside_feat by exact K.
    - exact SR.
    - cbn. rewrite S. exact SR.
  Qed.

  Lemma choose_type_safe p given name ty :
    safe_opt given -> choose_type true p given name = inl ty -> safe_name ty = true.
  Proof.
    unfold choose_type. destruct given as [g|]; cbn.
    - intros S [= <-]; exact S.
    - intros _. destruct (eqb name ""); [discriminate|].
      destruct (safe_name name) eqn:S; cbn; [intros [= <-]; exact S | discriminate].
  Qed.

  Lemma p_old_cfg_inside k : kind3 k -> inside (p_old_cfg k) = true.
  Proof. intros K; cbn in K. destruct K as [<-|[<-|[<-|[]]]]; reflexivity. Qed.

  Lemma up_feature_inside t k needs kp given :
    kind3 k -> wf_moves (t_moves t) -> safe_opt given ->
    all_inside (snd (snd (up_feature L true t k needs kp given))) /\
    (forall ty, fst (up_feature L true t k needs kp given) = Some ty -> safe_opt kp -> safe_name ty = true).
  Proof.
    intros K WF SG. unfold up_feature.
    pose proof (p_old_cfg_inside k K) as PI.
    destruct (find_dir (t_dirs t) (d_feat k)) as [names|]; [|split; [apply all_inside_nil | cbn; intros ty -> S; exact S]].
    destruct (find_file (t_files t) (p_old_cfg k)) as [f|]; [|split; [apply all_inside_nil | cbn; intros ty -> S; exact S]].
    destruct (negb (old_version_ok (f_ver f))).
    { cbn [fst snd]. split; [ai|discriminate]. }
    destruct (needs && match kp with None => true | Some _ => false end).
    { cbn [fst snd]. split; [ai|discriminate]. }
    assert (EV : (match f_rows f with
                  | r :: _ => if Nat.eqb (List.length r) 3 && is_int L (nth_s 2 r) && negb true then [Eval] else []
                  | [] => [] end) = []).
    { destruct (f_rows f); [reflexivity|]. rewrite andb_false_r. reflexivity. }
    rewrite EV. cbn [app].
    destruct (cfg_check L "keypoints" (p_old_cfg k) (f_rows f)).
    { cbn [fst snd]. split; [ai|discriminate]. }
    destruct (choose_type true (p_old_cfg k) given (nth_s 0 (hd [] (f_rows f)))) as [ty|er] eqn:CT.
    - pose proof (choose_type_safe _ _ _ _ SG CT) as ST.
      cbn [fst snd]. split; [|intros ty' [= <-] _; exact ST].
      apply all_inside_cons; split; [exact PI|].
      apply all_inside_cons; split; [exact PI|].
      apply all_inside_cons; split.
      { cbn [effect_inside]. unfold p_cfg. rewrite inside_feat by (apply kind3_4; exact K). cbn.
        rewrite ST, cfg_name_safe by exact K. reflexivity. }
      apply all_inside_app; split; [apply json_effects_inside | apply files_effects_inside]; auto using kind3_4.
    - cbn [fst snd app]. split; [ai|discriminate].
  Qed.

  Lemma up_matches_inside t kp : wf_moves (t_moves t) -> safe_opt kp -> all_inside (snd (up_matches t kp)).
  Proof.
    intros WF S. unfold up_matches. destruct (find_dir (t_dirs t) (d_feat "matches")); [|apply all_inside_nil].
    destruct kp as [ty|]; [|apply all_inside_nil]. cbn in S. cbn [snd].
    apply all_inside_app; split; [apply json_effects_inside | apply files_effects_inside]; auto;
      unfold kind4; cbn; tauto.
  Qed.

  Lemma up_obs_inside t kp : all_inside (snd (up_obs L t kp)).
  Proof.
    unfold up_obs. destruct (find_file (t_files t) p_obs) as [f|]; [|apply all_inside_nil].
    destruct (negb (old_version_ok (f_ver f))); [cbn [snd]; ai|].
    destruct kp; [|cbn [snd]; ai].
    destruct (forallb (obs10_row_ok L) (f_rows f)); cbn [snd]; ai.
  Qed.

  Lemma upgrade_all_inside t kt dt gt :
    wf_moves (t_moves t) -> safe_opt kt -> safe_opt dt -> safe_opt gt ->
    all_inside (snd (upgrade_e L t kt dt gt)).
  Proof.
    intros WF SK SD SG. unfold upgrade_e, upgrade_gen. cbn [snd].
    pose proof (up_headers_inside t csv_1_0 csv_1_0_inside) as H0.
    destruct (up_headers t csv_1_0) as [[e0|] es0]; cbn [snd] in *; [exact H0|].
    destruct (up_feature_inside t "keypoints" false kt kt) as [I1 T1]; [unfold kind3; cbn; tauto | exact WF | exact SK |].
    destruct (up_feature L true t "keypoints" false kt kt) as [kp1 r1]. cbn [fst snd] in *.
    set (kp := match kp1 with Some ty => Some ty | None => kt end).
    assert (SKP : safe_opt kp).
    { unfold kp. destruct kp1 as [ty|]; [cbn; apply T1; auto | exact SK]. }
    destruct (up_feature_inside t "descriptors" true kp dt) as [I2 _]; [unfold kind3; cbn; tauto | exact WF | exact SD |].
    destruct (up_feature L true t "descriptors" true kp dt) as [x2 r2]. cbn [fst snd] in *.
    destruct (up_feature_inside t "global_features" false kp gt) as [I3 _]; [unfold kind3; cbn; tauto | exact WF | exact SG |].
    destruct (up_feature L true t "global_features" false kp gt) as [x3 r3]. cbn [fst snd] in *.
    apply (then_inside (None, es0)); [exact H0|].
    apply then_inside; [exact I1|]. apply then_inside; [exact I2|].
    apply then_inside; [apply up_matches_inside; assumption|].
    apply then_inside; [exact I3|]. apply up_obs_inside.
  Qed.
End LoadProofs.

(* ------------------------------------------------------------------------- no partial match of the whitelist *)
(* An accepted element type is made of lower-case letters, digits and dots only: a field containing any other
   character (a quote, a bracket, a space, a parenthesis, an upper-case letter, a byte of a multi-byte UTF-8
   character: every unicode look-alike) is rejected, wherever an accepted name may occur inside it. *)
Definition dtype_char (c : ascii) : bool :=
  let n := nat_of_ascii c in
  (Nat.leb 97 n && Nat.leb n 122) || (Nat.leb 48 n && Nat.leb n 57) || Nat.eqb n 46.
Definition is_digit (c : ascii) : bool :=
  let n := nat_of_ascii c in Nat.leb 48 n && Nat.leb n 57.
Fixpoint all_chars (P : ascii -> bool) (s : string) : bool :=
  match s with EmptyString => true | String c s' => P c && all_chars P s' end.

Lemma accepted_names_chars : forallb (all_chars dtype_char) accepted_names = true.
Proof. vm_compute. reflexivity. Qed.

Lemma parse_dtype_charset s d : parse_dtype s = Some d -> all_chars dtype_char s = true.
Proof.
  intros E. assert (I : In s accepted_names) by (apply parse_dtype_accepts; exists d; exact E).
  pose proof accepted_names_chars as H. rewrite forallb_forall in H. apply H; exact I.
Qed.

Lemma all_chars_has P s c : all_chars P s = true -> has_char c s = true -> P c = true.
Proof.
  induction s as [|a s IH]; cbn; [discriminate|].
  rewrite andb_true_iff, orb_true_iff. intros [A B] [E|H].
  - apply Ascii.eqb_eq in E; subst; exact A.
  - apply IH; assumption.
Qed.

Lemma parse_dtype_foreign_char s c : has_char c s = true -> dtype_char c = false -> parse_dtype s = None.
Proof.
  intros H N. destruct (parse_dtype s) as [d|] eqn:E; [|reflexivity].
  apply parse_dtype_charset in E. rewrite (all_chars_has _ _ _ E H) in N. discriminate N.
Qed.

Lemma has_char_app c s t : has_char c (s ++ t)%string = has_char c s || has_char c t.
Proof. induction s as [|a s IH]; cbn; [reflexivity|]. rewrite IH, orb_assoc. reflexivity. Qed.

(* the text that str(type) / repr(dtype) produce around a name, with anything after it *)
Lemma parse_dtype_class_repr n tail : parse_dtype ("<class '" ++ n ++ "'>" ++ tail)%string = None.
Proof. apply parse_dtype_foreign_char with (c := "<"%char); reflexivity. Qed.
Lemma parse_dtype_dtype_repr n tail : parse_dtype ("dtype('" ++ n ++ "')" ++ tail)%string = None.
Proof.
  apply parse_dtype_foreign_char with (c := "("%char); [|reflexivity].
  change ("dtype('" ++ n ++ "')" ++ tail)%string with ("dtype" ++ String "("%char ("'" ++ n ++ "')" ++ tail))%string.
  rewrite has_char_app. cbn. reflexivity.
Qed.

(* text AFTER an accepted name: the result is accepted only when the text is the (at most two) digits that make
   another whitelisted name out of it (int -> int8, float -> float16, ...) *)
Lemma drop_append s t : drop (String.length s) (s ++ t)%string = t.
Proof. induction s as [|a s IH]; cbn; [reflexivity|exact IH]. Qed.

Definition ext_ok (s u : string) : bool :=
  if prefixb s u
  then all_chars is_digit (drop (String.length s) u) && Nat.leb (String.length (drop (String.length s) u)) 2
  else true.
Lemma accepted_ext_table : forallb (fun s => forallb (ext_ok s) accepted_names) accepted_names = true.
Proof. vm_compute. reflexivity. Qed.

Lemma parse_dtype_extension s t d d' :
  parse_dtype s = Some d -> parse_dtype (s ++ t)%string = Some d' ->
  all_chars is_digit t = true /\ String.length t <= 2.
Proof.
  intros E E'.
  assert (I : In s accepted_names) by (apply parse_dtype_accepts; exists d; exact E).
  assert (I' : In (s ++ t)%string accepted_names) by (apply parse_dtype_accepts; exists d'; exact E').
  pose proof accepted_ext_table as H. rewrite forallb_forall in H. specialize (H _ I).
  rewrite forallb_forall in H. specialize (H _ I'). unfold ext_ok in H.
  assert (P : prefixb s (s ++ t)%string = true) by (apply prefixb_spec; exists t; reflexivity).
  rewrite P, drop_append, andb_true_iff in H. destruct H as [A B]. split; [exact A|].
  apply Nat.leb_le; exact B.
Qed.

Lemma parse_dtype_tail_rejected s t d c :
  parse_dtype s = Some d -> has_char c t = true -> is_digit c = false -> parse_dtype (s ++ t)%string = None.
Proof.
  intros E H N. destruct (parse_dtype (s ++ t)%string) as [d'|] eqn:E'; [|reflexivity].
  destruct (parse_dtype_extension _ _ _ _ E E') as [A _].
  rewrite (all_chars_has _ _ _ A H) in N. discriminate N.
Qed.

(* text BEFORE an accepted name: only the prefixes np. / numpy. and the letter u (int8 -> uint8) *)
Fixpoint take (n : nat) (s : string) : string :=
  match n, s with
  | S n', String a s' => String a (take n' s')
  | _, _ => EmptyString
  end.
Lemma take_append h s : take (String.length h) (h ++ s)%string = h.
Proof. induction h as [|a h IH]; cbn; [destruct s; reflexivity|]. rewrite IH. reflexivity. Qed.
Lemma length_app h s : String.length (h ++ s)%string = String.length h + String.length s.
Proof. induction h as [|a h IH]; cbn; [reflexivity|]. rewrite IH. reflexivity. Qed.

Definition accepted_heads : list string := [""; "u"; "np."; "numpy."; "np.u"; "numpy.u"]%string.
Definition head_ok (s u : string) : bool :=
  let h := take (String.length u - String.length s) u in
  if eqb (h ++ s)%string u then memb h accepted_heads else true.
Lemma accepted_head_table : forallb (fun s => forallb (head_ok s) accepted_names) accepted_names = true.
Proof. vm_compute. reflexivity. Qed.

Lemma parse_dtype_head h s d d' :
  parse_dtype s = Some d -> parse_dtype (h ++ s)%string = Some d' -> In h accepted_heads.
Proof.
  intros E E'.
  assert (I : In s accepted_names) by (apply parse_dtype_accepts; exists d; exact E).
  assert (I' : In (h ++ s)%string accepted_names) by (apply parse_dtype_accepts; exists d'; exact E').
  pose proof accepted_head_table as H. rewrite forallb_forall in H. specialize (H _ I).
  rewrite forallb_forall in H. specialize (H _ I'). unfold head_ok in H.
  rewrite length_app in H. replace (String.length h + String.length s - String.length s) with (String.length h) in H
    by (rewrite Nat.add_sub; reflexivity).
  rewrite take_append, eqb_refl in H. apply memb_In; exact H.
Qed.

Lemma and4_true (a b c d : bool) : a && b && c && d = true -> a = true /\ b = true /\ c = true /\ d = true.
Proof. destruct a, b, c, d; cbn; intros H; try discriminate H; auto. Qed.

(* ------------------------------------------------------------------ the upgrade never swallows an element type *)
Section UpgradeDtype.
  Variable L : leaves.

  Lemma then_none a b : fst (then_ a b) = None -> fst a = None /\ fst b = None.
  Proof. destruct a as [[e|] es]; cbn; [discriminate|]. auto. Qed.

  (* one 1.0 feature folder that is converted without error had a well-formed first row with a whitelisted type *)
  Lemma up_feature_none_dtype checked t k needs kp given names f :
    find_dir (t_dirs t) (d_feat k) = Some names -> find_file (t_files t) (p_old_cfg k) = Some f ->
    fst (snd (up_feature L checked t k needs kp given)) = None ->
    exists r rest d, f_rows f = r :: rest /\ List.length r = 3 /\ is_int L (nth_s 2 r) = true /\
                     parse_dtype (nth_s 1 r) = Some d.
  Proof.
    intros D F. unfold up_feature. rewrite D, F.
    destruct (negb (old_version_ok (f_ver f))); [discriminate|].
    destruct (needs && match kp with None => true | Some _ => false end); [discriminate|].
    destruct (cfg_check L "keypoints" (p_old_cfg k) (f_rows f)) as [er|] eqn:CC; [discriminate|].
    intros _. unfold cfg_check in CC. destruct (f_rows f) as [|r rest]; [discriminate|].
    destruct (Nat.eqb (List.length r) (ncols "keypoints")) eqn:LN; cbn [andb] in CC; [|discriminate].
    destruct (is_int L (nth_s 2 r)) eqn:II; [|discriminate].
    destruct (parse_dtype (nth_s 1 r)) as [d|] eqn:PD; [|discriminate].
    exists r, rest, d. repeat split; auto. apply Nat.eqb_eq in LN. exact LN.
  Qed.

  Lemma upgrade_value_dtypes_ok checked t kt dt gt :
    fst (upgrade_gen L checked t kt dt gt) = Value ->
    forall k names f, In k ["keypoints"; "descriptors"; "global_features"]%string ->
      find_dir (t_dirs t) (d_feat k) = Some names -> find_file (t_files t) (p_old_cfg k) = Some f ->
      exists r rest d, f_rows f = r :: rest /\ List.length r = 3 /\ is_int L (nth_s 2 r) = true /\
                       parse_dtype (nth_s 1 r) = Some d.
  Proof.
    unfold upgrade_gen. cbn [fst].
    destruct (up_headers t csv_1_0) as [[e0|] es0]; [discriminate|].
    destruct (up_feature L checked t "keypoints" false kt kt) as [kp1 r1] eqn:U1.
    set (kp := match kp1 with Some ty => Some ty | None => kt end).
    destruct (up_feature L checked t "descriptors" true kp dt) as [x2 r2] eqn:U2.
    destruct (up_feature L checked t "global_features" false kp gt) as [x3 r3] eqn:U3.
    intros V.
    assert (N : fst (then_ (None, es0) (then_ r1 (then_ r2 (then_ (up_matches t kp) (then_ r3 (up_obs L t kp)))))) = None).
    { destruct (fst (then_ (None, es0) (then_ r1 (then_ r2 (then_ (up_matches t kp) (then_ r3 (up_obs L t kp))))))); [discriminate V|reflexivity]. }
    apply then_none in N. destruct N as [_ N].
    apply then_none in N. destruct N as [N1 N].
    apply then_none in N. destruct N as [N2 N].
    apply then_none in N. destruct N as [_ N].
    apply then_none in N. destruct N as [N3 _].
    intros k names f K D F. cbn in K. destruct K as [<-|[<-|[<-|[]]]].
    - eapply (up_feature_none_dtype checked t "keypoints" false kt kt); eauto. rewrite U1. exact N1.
    - eapply (up_feature_none_dtype checked t "descriptors" true kp dt); eauto. rewrite U2. exact N2.
    - eapply (up_feature_none_dtype checked t "global_features" false kp gt); eauto. rewrite U3. exact N3.
  Qed.

  (* ... and the error names the file and the field (same cfg_check as the load path, 3 columns) *)
  Lemma up_feature_bad_dtype checked t k needs kp given names f r rest :
    find_dir (t_dirs t) (d_feat k) = Some names -> find_file (t_files t) (p_old_cfg k) = Some f ->
    old_version_ok (f_ver f) = true -> (needs = true -> kp <> None) ->
    f_rows f = r :: rest -> List.length r = 3 -> is_int L (nth_s 2 r) = true -> parse_dtype (nth_s 1 r) = None ->
    fst (snd (up_feature L checked t k needs kp given)) = Some (EBadDtype (p_old_cfg k) (nth_s 1 r)) /\
    forall e, In e (snd (snd (up_feature L checked t k needs kp given))) ->
      e = Read (p_old_cfg k) \/ (checked = false /\ e = Eval).
  Proof.
    intros D F OV NK R LN II PD. unfold up_feature. rewrite D, F, OV. cbn [negb].
    assert (G : needs && match kp with None => true | Some _ => false end = false).
    { destruct needs; [|reflexivity]. destruct kp; [reflexivity|]. exfalso; apply NK; reflexivity. }
    rewrite G, R. unfold cfg_check. rewrite LN. cbn [ncols]. 
    change (Nat.eqb 3 (ncols "keypoints")) with true. rewrite II, PD. cbn [andb fst snd].
    split; [reflexivity|]. intros e [<-|I]; [left; reflexivity|].
    destruct checked; cbn in I; [contradiction | destruct I as [<-|[]]; right; split; reflexivity].
  Qed.
End UpgradeDtype.

(* -------------------------------------------------- the upgrade has file accesses only: no hypothesis at all *)
Section UpgradeAccess.
  Variable L : leaves.
  Definition all_access (es : list effect) : Prop := forall e, In e es -> is_access e = true.

  Lemma all_access_app a b : all_access (a ++ b) <-> all_access a /\ all_access b.
  Proof.
    unfold all_access; split.
    - intros H; split; intros e I; apply H, in_app_iff; auto.
    - intros [A B] e I; apply in_app_iff in I; destruct I; auto.
  Qed.
  Lemma all_access_nil : all_access [].
  Proof. intros e []. Qed.
  Lemma all_access_cons e es : is_access e = true -> all_access es -> all_access (e :: es).
  Proof. intros A B x [<-|I]; auto. Qed.
  Lemma then_access a b : all_access (snd a) -> all_access (snd b) -> all_access (snd (then_ a b)).
  Proof. destruct a as [[e|] es]; cbn; [auto|]. intros A B. apply all_access_app; auto. Qed.

  Ltac aa := repeat (apply all_access_cons; [reflexivity|]); try apply all_access_nil.

  Lemma up_header_access t p : all_access (snd (up_header t p)).
  Proof.
    unfold up_header. destruct (find_file (t_files t) p) as [f|]; [|apply all_access_nil].
    destruct (old_version_ok (f_ver f)); cbn [snd]; aa.
  Qed.
  Lemma up_headers_access t ps : all_access (snd (up_headers t ps)).
  Proof.
    induction ps as [|p ps IH]; cbn; [apply all_access_nil|].
    pose proof (up_header_access t p) as H.
    destruct (up_header t p) as [[e|] es]; cbn in *; [exact H|].
    destruct (up_headers t ps) as [o es']. cbn in *. apply all_access_app; split; assumption.
  Qed.
  Lemma json_effects_access t k ty : all_access (json_effects t k ty).
  Proof.
    unfold json_effects. destruct (eqb k "descriptors"); [apply all_access_nil|].
    destruct (memb (d_feat k ++ [json_name k]) (t_json t)); [unfold move_effects; aa | apply all_access_nil].
  Qed.
  Lemma files_effects_access t k ty : all_access (files_effects t k ty).
  Proof.
    intros e I. unfold files_effects in I. apply in_flat_map in I. destruct I as [rel [_ IE]].
    destruct IE as [<-|[<-|[]]]; reflexivity.
  Qed.
  Lemma up_feature_access t k needs kp given : all_access (snd (snd (up_feature L true t k needs kp given))).
  Proof.
    unfold up_feature.
    destruct (find_dir (t_dirs t) (d_feat k)) as [names|]; [|apply all_access_nil].
    destruct (find_file (t_files t) (p_old_cfg k)) as [f|]; [|apply all_access_nil].
    destruct (negb (old_version_ok (f_ver f))); [cbn [fst snd]; aa|].
    destruct (needs && match kp with None => true | Some _ => false end); [cbn [fst snd]; aa|].
    assert (EV : (match f_rows f with
                  | r :: _ => if Nat.eqb (List.length r) 3 && is_int L (nth_s 2 r) && negb true then [Eval] else []
                  | [] => [] end) = []).
    { destruct (f_rows f); [reflexivity|]. rewrite andb_false_r. reflexivity. }
    rewrite EV. cbn [app].
    destruct (cfg_check L "keypoints" (p_old_cfg k) (f_rows f)); [cbn [fst snd]; aa|].
    destruct (choose_type true (p_old_cfg k) given (nth_s 0 (hd [] (f_rows f)))) as [ty|er]; cbn [fst snd app]; [|aa].
    apply all_access_cons; [reflexivity|]. apply all_access_cons; [reflexivity|]. apply all_access_cons; [reflexivity|].
    apply all_access_app; split; [apply json_effects_access | apply files_effects_access].
  Qed.
  Lemma up_matches_access t kp : all_access (snd (up_matches t kp)).
  Proof.
    unfold up_matches. destruct (find_dir (t_dirs t) (d_feat "matches")); [|apply all_access_nil].
    destruct kp as [ty|]; [|apply all_access_nil]. cbn [snd].
    apply all_access_app; split; [apply json_effects_access | apply files_effects_access].
  Qed.
  Lemma up_obs_access t kp : all_access (snd (up_obs L t kp)).
  Proof.
    unfold up_obs. destruct (find_file (t_files t) p_obs) as [f|]; [|apply all_access_nil].
    destruct (negb (old_version_ok (f_ver f))); [cbn [snd]; aa|].
    destruct kp; [|cbn [snd]; aa].
    destruct (forallb (obs10_row_ok L) (f_rows f)); cbn [snd]; aa.
  Qed.

  Lemma upgrade_all_access t kt dt gt : all_access (snd (upgrade_e L t kt dt gt)).
  Proof.
    unfold upgrade_e, upgrade_gen. cbn [snd].
    pose proof (up_headers_access t csv_1_0) as H0.
    destruct (up_headers t csv_1_0) as [[e0|] es0]; cbn [snd] in *; [exact H0|].
    pose proof (up_feature_access t "keypoints" false kt kt) as I1.
    destruct (up_feature L true t "keypoints" false kt kt) as [kp1 r1]. cbn [fst snd] in *.
    set (kp := match kp1 with Some ty => Some ty | None => kt end).
    pose proof (up_feature_access t "descriptors" true kp dt) as I2.
    destruct (up_feature L true t "descriptors" true kp dt) as [x2 r2]. cbn [fst snd] in *.
    pose proof (up_feature_access t "global_features" false kp gt) as I3.
    destruct (up_feature L true t "global_features" false kp gt) as [x3 r3]. cbn [fst snd] in *.
    apply (then_access (None, es0)); [exact H0|].
    apply then_access; [exact I1|]. apply then_access; [exact I2|].
    apply then_access; [apply up_matches_access|].
    apply then_access; [exact I3|]. apply up_obs_access.
  Qed.
End UpgradeAccess.
