(* Proofs/PLoad.v — lemmas about Model/MLoad.v (property C04). *)
From Coq Require Import List Bool String Ascii ZArith NArith QArith Lia.
From KV Require Import Eqb AL Str.
From KV.Gen Require Import Tload.
From KV.Model Require Import MLoad.
Import ListNotations.
Local Open Scope string_scope.
Local Open Scope list_scope.

(* ------------------------------------------------------------------ dict semantics: [live] *)
Section Live.
  Context {A K : Type} `{EqDec K}.
  Variable key : A -> K.

  Lemma existsb_key_spec (x : A) (l : list A) :
    existsb (fun y => eqb (key y) (key x)) l = true <-> exists y, In y l /\ key y = key x.
  Proof.
    rewrite existsb_exists. split; intros [y [I E]]; exists y; split; auto.
    - apply eqb_true in E; exact E.
    - apply eqb_eq; exact E.
  Qed.

  Lemma live_In (x : A) (l : list A) : In x (live key l) -> In x l.
  Proof.
    induction l as [|a l IH]; cbn; [tauto|].
    destruct (existsb _ l); cbn; intuition.
  Qed.

  Lemma live_incl_tail (a x : A) (l : list A) : In x (live key l) -> In x (live key (a :: l)).
  Proof. cbn. destruct (existsb _ l); cbn; auto. Qed.

  Lemma live_key_complete (x : A) (l : list A) :
    In x l -> exists y, In y (live key l) /\ key y = key x.
  Proof.
    revert x. induction l as [|a l IH]; intros x; [intros []|].
    intros [->|I].
    - cbn. destruct (existsb (fun y => eqb (key y) (key x)) l) eqn:E.
      + apply existsb_key_spec in E. destruct E as [z [Iz Ez]].
        destruct (IH z Iz) as [y [Iy Ey]]. exists y; split; [exact Iy | congruence].
      + exists x; split; [left; reflexivity | reflexivity].
    - destruct (IH x I) as [y [Iy Ey]]. exists y; split; [apply live_incl_tail; exact Iy | exact Ey].
  Qed.

  Lemma live_NoDup (l : list A) : NoDup (map key (live key l)).
  Proof.
    induction l as [|a l IH]; cbn; [constructor|].
    destruct (existsb (fun y => eqb (key y) (key a)) l) eqn:E; [exact IH|].
    cbn. constructor; [|exact IH].
    intros I. apply in_map_iff in I. destruct I as [y [Ey Iy]].
    apply live_In in Iy.
    assert (T : existsb (fun y => eqb (key y) (key a)) l = true)
      by (apply existsb_key_spec; exists y; split; assumption).
    congruence.
  Qed.

  (* a row that no other row of the file can override is kept *)
  Lemma live_unique (x : A) (l : list A) :
    In x l -> (forall y, In y l -> key y = key x -> y = x) -> In x (live key l).
  Proof.
    induction l as [|a l IH]; [intros []|].
    intros I U. cbn.
    destruct (existsb (fun y => eqb (key y) (key a)) l) eqn:E.
    - apply IH; [|intros y Iy; apply U; right; exact Iy].
      destruct I as [->|I]; [|exact I].
      apply existsb_key_spec in E. destruct E as [z [Iz Ez]].
      rewrite <- (U z (or_intror Iz) Ez). exact Iz.
    - destruct I as [->|I]; [left; reflexivity|].
      right. apply IH; [exact I | intros y Iy; apply U; right; exact Iy].
  Qed.

  (* the last row of a key is the one that is kept *)
  Lemma live_last (l1 : list A) (x : A) (l2 : list A) :
    (forall y, In y l2 -> key y <> key x) -> In x (live key (l1 ++ x :: l2)).
  Proof.
    intros L. induction l1 as [|a l1 IH]; cbn.
    - destruct (existsb (fun y => eqb (key y) (key x)) l2) eqn:E; [|left; reflexivity].
      apply existsb_key_spec in E. destruct E as [y [Iy Ey]]. exfalso; exact (L y Iy Ey).
    - destruct (existsb _ (l1 ++ x :: l2)); cbn; auto.
  Qed.

  Lemma live_id (l : list A) : NoDup (map key l) -> live key l = l.
  Proof.
    induction l as [|a l IH]; cbn; [reflexivity|].
    intros N. inversion N as [|? ? NI N']; subst.
    destruct (existsb (fun y => eqb (key y) (key a)) l) eqn:E.
    - apply existsb_key_spec in E. destruct E as [y [Iy Ey]].
      exfalso; apply NI. rewrite <- Ey. apply in_map; exact Iy.
    - rewrite IH by assumption. reflexivity.
  Qed.
End Live.

(* ------------------------------------------------------------------ small facts *)
Lemma lookup_Some_In {V} (k : string) (v : V) (m : list (string * V)) : lookup k m = Some v -> In (k, v) m.
Proof.
  induction m as [|[k' v'] m IH]; cbn; [discriminate|].
  destruct (eqb_spec k k') as [->|N]; [intros [= ->]; left; reflexivity | intros E; right; auto].
Qed.

Lemma In_lookup_NoDup {V} (k : string) (v : V) (m : list (string * V)) :
  NoDup (map fst m) -> In (k, v) m -> lookup k m = Some v.
Proof.
  intros N I. apply (proj2 (lookup_In k v m N)). exact I.
Qed.

Lemma is_some_true {A} (o : option A) : is_some o = true <-> o <> None.
Proof. destruct o; cbn; split; congruence. Qed.

Lemma dedup_map_fst_In {A B} `{EqDec A} (x : A) (l : list (A * B)) :
  In x (dedup (map fst l)) <-> exists p, In p l /\ fst p = x.
Proof.
  rewrite dedup_In, in_map_iff. split; intros [p [P Q]]; exists p; auto.
Qed.

(* ------------------------------------------------------------------ each helper characterised by membership *)
Lemma load_rigs_Some sids rows g :
  load_rigs sids rows = Some g ->
  (forall p, In p rows -> ~ In (fst p) sids) /\
  (forall x, In x (fst g) <-> In x (map fst rows)) /\
  (forall p, In p (snd g) <-> In p rows /\ (In (snd p) sids \/ In (snd p) (fst g))) /\
  NoDup (fst g).
Proof.
  unfold load_rigs. destruct (existsb (fun p => memb (fst p) sids) rows) eqn:E; [discriminate|].
  intros [= <-]. cbn [fst snd]. split; [|split; [|split]].
  - intros p I M. assert (T : existsb (fun p => memb (fst p) sids) rows = true).
    { apply existsb_exists. exists p; split; [exact I | apply memb_In; exact M]. }
    congruence.
  - intros x. apply dedup_In.
  - intros p. rewrite filter_In, orb_true_iff, !memb_In. tauto.
  - apply dedup_NoDup.
Qed.

Lemma load_rigs_None sids rows :
  load_rigs sids rows = None <-> exists p, In p rows /\ In (fst p) sids.
Proof.
  unfold load_rigs. destruct (existsb (fun p => memb (fst p) sids) rows) eqn:E.
  - split; [intros _|reflexivity]. apply existsb_exists in E. destruct E as [p [I M]].
    exists p; split; [exact I | apply memb_In; exact M].
  - split; [discriminate|]. intros [p [I M]]. exfalso.
    assert (T : existsb (fun p => memb (fst p) sids) rows = true).
    { apply existsb_exists. exists p; split; [exact I | apply memb_In; exact M]. }
    congruence.
Qed.

Lemma load_traj_In devs rows p : In p (load_traj devs rows) <-> In p rows /\ In (snd p) devs.
Proof. unfold load_traj. rewrite filter_In, memb_In. tauto. Qed.

Definition resolves (sensors : list (string * string)) (k : rkind) (row : MLoad.row) : Prop :=
  In (rsensor row, sensor_kind_of k) sensors.

Lemma load_records_Some sensors k raw rows :
  load_records sensors k (Some raw) = Some rows ->
  (forall row, In row rows -> In row raw /\ resolves sensors k row) /\
  (forall row, In row raw -> resolves sensors k row ->
     exists row', In row' rows /\ rkey k row' = rkey k row /\ resolves sensors k row') /\
  (forall l1 row l2, raw = l1 ++ row :: l2 -> resolves sensors k row ->
     (forall y, In y l2 -> resolves sensors k y -> rkey k y <> rkey k row) -> In row rows) /\
  NoDup (map (rkey k) rows).
Proof.
  unfold load_records.
  intros [= <-].
  set (ok := fun r : row => memb (rsensor r, sensor_kind_of k) sensors).
  assert (OK : forall r, ok r = true <-> resolves sensors k r) by (intros r; unfold ok, resolves; apply memb_In).
  repeat split.
  - apply live_In in H. apply filter_In in H. exact (proj1 H).
  - apply live_In in H. apply filter_In in H. apply OK. exact (proj2 H).
  - intros row I R.
    assert (F : In row (List.filter ok raw)) by (apply filter_In; split; [exact I | apply OK; exact R]).
    destruct (live_key_complete (rkey k) row _ F) as [y [Iy Ey]].
    exists y; repeat split; [exact Iy | exact Ey|].
    apply live_In in Iy. apply filter_In in Iy. apply OK. exact (proj2 Iy).
  - intros l1 row l2 -> R L.
    rewrite filter_app. cbn. apply OK in R. rewrite R.
    apply live_last. intros y Iy. apply filter_In in Iy. destruct Iy as [Iy Oy]. apply L; [exact Iy | apply OK; exact Oy].
  - apply live_NoDup.
Qed.

Lemma load_feat_In images raw l t imgs :
  load_feat images raw = Some l -> In (t, imgs) l ->
  exists l0 files, raw = Some l0 /\ In (t, files) l0 /\ imgs = List.filter (fun i => memb i images) files.
Proof.
  unfold load_feat. destruct raw as [[|a l0]|]; try discriminate.
  intros [= <-] I.
  change (In (t, imgs) (map (fun tf : string * list string =>
            (fst tf, List.filter (fun i => memb i images) (snd tf))) (a :: l0))) in I.
  apply in_map_iff in I. destruct I as [[t' files] [[= <- <-] I]].
  exists (a :: l0), files. cbn [fst snd]. auto.
Qed.

Lemma load_feat_complete images raw l0 t files :
  raw = Some l0 -> In (t, files) l0 ->
  exists l, load_feat images raw = Some l /\ In (t, List.filter (fun i => memb i images) files) l.
Proof.
  intros -> I. destruct l0 as [|a l0]; [destruct I|].
  eexists; split; [reflexivity|].
  apply in_map_iff. exists (t, files); split; [reflexivity | exact I].
Qed.

Lemma load_feat_None images raw : load_feat images raw = None <-> raw = None \/ raw = Some [].
Proof. unfold load_feat. destruct raw as [[|a l0]|]; split; intros; try tauto; try discriminate; intuition congruence. Qed.

Definition pair_ok (images : list string) (pairs : option (list (string * string))) (p : string * string) : bool :=
  memb (fst p) images && memb (snd p) images && pair_allowed pairs p.

Lemma load_matches_In images pairs raw l t ps :
  load_matches images pairs raw = Some l -> In (t, ps) l ->
  exists l0 files, raw = Some l0 /\ In (t, files) l0 /\ ps = List.filter (pair_ok images pairs) files.
Proof.
  unfold load_matches. destruct raw as [[|a l0]|]; try discriminate.
  intros [= <-] I.
  change (In (t, ps) (map (fun tf : string * list (string * string) =>
            (fst tf, List.filter (pair_ok images pairs) (snd tf))) (a :: l0))) in I.
  apply in_map_iff in I. destruct I as [[t' files] [[= <- <-] I]].
  exists (a :: l0), files. cbn [fst snd]. auto.
Qed.

Lemma load_matches_complete images pairs raw l0 t files :
  raw = Some l0 -> In (t, files) l0 ->
  exists l, load_matches images pairs raw = Some l /\ In (t, List.filter (pair_ok images pairs) files) l.
Proof.
  intros -> I. destruct l0 as [|a l0]; [destruct I|].
  eexists; split; [reflexivity|].
  apply in_map_iff. exists (t, files); split; [reflexivity | exact I].
Qed.

(* ------------------------------------------------------------------ inversion of a successful load *)
Record sensors_side (r : rawdir) (d : dataset) : Prop := {
  ss_sensors : d_sensors d = live fst (r_sensors r);
  ss_rigs : d_rigs d = match r_rigs r with None => None | Some rows => load_rigs (sensor_ids d) rows end;
  ss_nocoll : forall rows, r_rigs r = Some rows -> load_rigs (sensor_ids d) rows <> None;
  ss_traj : d_traj d = option_map (load_traj (sensor_ids d ++ rig_ids d)) (r_traj r);
  ss_records : forall k, d_records d k = load_records (d_sensors d) k (r_records r k);
}.

Record recon_side (r : rawdir) (d : dataset) : Prop := {
  rs_feat : forall fk, d_feat d fk = load_feat (images_of d) (r_feat r fk);
  rs_matches : d_matches d = load_matches (images_of d) (r_pairs r) (r_matches r);
  rs_points : d_points d = r_points r;
  rs_obs : d_obs d = match r_obs r, d_feat d FKeypoints with
                     | Some rows, Some kps => Some (List.filter (obs_ok kps) rows)
                     | _, _ => None
                     end;
  rs_obs_guard : r_obs r <> None -> d_feat d FKeypoints <> None /\ r_points r <> None;
  rs_cam_guard : (exists fk, r_feat r fk <> None) \/ r_matches r <> None -> d_records d RCamera <> None;
}.

Definition no_recon (d : dataset) : Prop :=
  (forall fk, d_feat d fk = None) /\ d_matches d = None /\ d_points d = None /\ d_obs d = None.

Definition version_ok (r : rawdir) (d : dataset) : Prop :=
  r_has_sensors r = true /\ r_version r = Some (d_version d) /\
  exists q, ver_q (d_version d) = Some q /\ newer q = false.

Lemma load_ok_inv r d :
  load_dir r = Ok d ->
  version_ok r d /\ sensors_side r d /\
  ((d_version d = Tload.current_version /\ recon_side r d) \/
   (d_version d <> Tload.current_version /\ no_recon d)).
Proof.
  unfold load_dir.
  destruct (r_has_sensors r) eqn:HS; cbn [negb]; [|discriminate].
  destruct (r_version r) as [v|] eqn:HV; [|discriminate].
  destruct (ver_q v) as [q|] eqn:HQ; [|discriminate].
  destruct (newer q) eqn:HN; [discriminate|].
  set (sensors := live fst (r_sensors r)).
  destruct (match r_rigs r with
            | None => Some None
            | Some rows => match load_rigs (map fst sensors) rows with None => None | Some g => Some (Some g) end
            end) as [rigs|] eqn:HR; [|discriminate].
  assert (RG : rigs = match r_rigs r with None => None | Some rows => load_rigs (map fst sensors) rows end
               /\ forall rows, r_rigs r = Some rows -> load_rigs (map fst sensors) rows <> None).
  { destruct (r_rigs r) as [rows|].
    - destruct (load_rigs (map fst sensors) rows) as [g|] eqn:G; [|discriminate].
      injection HR as <-. split; [reflexivity|]. intros rows' [= <-]. congruence.
    - injection HR as <-. split; [reflexivity|]. intros rows' [=]. }
  destruct RG as [RG1 RG2].
  destruct (eqb_spec v Tload.current_version) as [EV|NV].
  - (* current version *)
    set (cam := load_records sensors RCamera (r_records r RCamera)).
    destruct ((is_some (r_feat r FKeypoints) || is_some (r_feat r FDescriptors) || is_some (r_feat r FGlobal)
               || is_some (r_matches r)) && negb (is_some cam)) eqn:HA; [discriminate|].
    assert (CG : (exists fk, r_feat r fk <> None) \/ r_matches r <> None -> cam <> None).
    { intros G. apply andb_false_iff in HA. destruct HA as [HA|HA].
      - exfalso. repeat (apply orb_false_iff in HA; destruct HA as [HA ?]).
        destruct G as [[fk G]|G].
        + destruct fk; [destruct (r_feat r FKeypoints) | destruct (r_feat r FDescriptors) | destruct (r_feat r FGlobal)];
            cbn in *; congruence.
        + destruct (r_matches r); cbn in *; congruence.
      - destruct cam; cbn in HA; congruence. }
    destruct (r_obs r) as [orows|] eqn:HO.
    + destruct (load_feat (match cam with Some rows => map rextra rows | None => [] end) (r_feat r FKeypoints))
        as [kps|] eqn:HK; [|discriminate].
      destruct (r_points r) as [np|] eqn:HP; [|discriminate].
      intros [= <-].
      split; [repeat split; cbn; auto; exists q; auto|].
      split; [constructor; cbn; auto|].
      left. split; [exact EV|]. constructor; cbn; auto.
      * fold cam. rewrite HK, HO. reflexivity.
      * intros _. fold cam. rewrite HK, HP. split; congruence.
    + intros [= <-].
      split; [repeat split; cbn; auto; exists q; auto|].
      split; [constructor; cbn; auto|].
      left. split; [exact EV|]. constructor; cbn; auto; try (rewrite HO; reflexivity); try (intros C; congruence).
  - intros [= <-].
    split; [repeat split; cbn; auto; exists q; auto|].
    split; [constructor; cbn; auto|].
    right. split; [exact NV|]. repeat split.
Qed.

(* ------------------------------------------------------------------ sensors side: closure *)
Section SensorsSide.
  Variables (r : rawdir) (d : dataset).
  Hypothesis S : sensors_side r d.

  Lemma sensors_sound p : In p (d_sensors d) -> In p (r_sensors r).
  Proof. rewrite (ss_sensors _ _ S). apply live_In. Qed.

  Lemma sensors_ids_complete id : In id (map fst (r_sensors r)) -> In id (sensor_ids d).
  Proof.
    intros I. apply in_map_iff in I. destruct I as [p [E I]].
    unfold sensor_ids. rewrite (ss_sensors _ _ S).
    destruct (live_key_complete fst p _ I) as [y [Iy Ey]].
    apply in_map_iff. exists y; split; [congruence | exact Iy].
  Qed.

  Lemma sensors_NoDup : NoDup (sensor_ids d).
  Proof. unfold sensor_ids. rewrite (ss_sensors _ _ S). apply live_NoDup. Qed.

  (* the last declaration of an id is the one that counts *)
  Lemma sensors_last l1 p l2 :
    r_sensors r = l1 ++ p :: l2 -> (forall y, In y l2 -> fst y <> fst p) -> In p (d_sensors d).
  Proof. intros E L. rewrite (ss_sensors _ _ S), E. apply live_last; exact L. Qed.

  Lemma sensors_exact : NoDup (map fst (r_sensors r)) -> d_sensors d = r_sensors r.
  Proof. intros N. rewrite (ss_sensors _ _ S). apply live_id; exact N. Qed.

  Lemma sensor_kind_unique id k1 k2 : In (id, k1) (d_sensors d) -> In (id, k2) (d_sensors d) -> k1 = k2.
  Proof.
    intros I1 I2. pose proof sensors_NoDup as N. unfold sensor_ids in N.
    apply (proj2 (lookup_In id k1 (d_sensors d) N)) in I1.
    apply (proj2 (lookup_In id k2 (d_sensors d) N)) in I2. congruence.
  Qed.

  Lemma rigs_shape :
    match r_rigs r with
    | None => d_rigs d = None
    | Some rows => exists g, d_rigs d = Some g /\ load_rigs (sensor_ids d) rows = Some g
    end.
  Proof.
    pose proof (ss_rigs _ _ S) as E. pose proof (ss_nocoll _ _ S) as N.
    destruct (r_rigs r) as [rows|]; [|exact E].
    destruct (load_rigs (sensor_ids d) rows) as [g|] eqn:G; [|exfalso; exact (N rows eq_refl G)].
    exists g; split; [exact E | reflexivity].
  Qed.

  Lemma closed_records k rows row :
    d_records d k = Some rows -> In row rows -> In (rsensor row, sensor_kind_of k) (d_sensors d).
  Proof.
    rewrite (ss_records _ _ S). destruct (r_records r k) as [raw|]; [|discriminate].
    intros E I. destruct (load_records_Some _ _ _ _ E) as [A _]. exact (proj2 (A row I)).
  Qed.

  Lemma closed_traj rows p :
    d_traj d = Some rows -> In p rows -> In (snd p) (sensor_ids d) \/ In (snd p) (rig_ids d).
  Proof.
    rewrite (ss_traj _ _ S). destruct (r_traj r) as [raw|]; [|discriminate]. cbn.
    intros [= <-] I. apply load_traj_In in I. apply in_app_iff. exact (proj2 I).
  Qed.

  Lemma closed_rigs p :
    In p (rig_pairs d) -> In (fst p) (rig_ids d) /\ (In (snd p) (sensor_ids d) \/ In (snd p) (rig_ids d)).
  Proof.
    pose proof rigs_shape as R. unfold rig_pairs, rig_ids.
    destruct (r_rigs r) as [rows|].
    - destruct R as [g [-> G]]. destruct (load_rigs_Some _ _ _ G) as [_ [B [C _]]].
      intros I. apply C in I. destruct I as [I O]. split; [|exact O].
      apply B. apply in_map; exact I.
    - rewrite R. intros [].
  Qed.

  Lemma closed_nocollision x : In x (rig_ids d) -> ~ In x (sensor_ids d).
  Proof.
    pose proof rigs_shape as R. unfold rig_ids.
    destruct (r_rigs r) as [rows|].
    - destruct R as [g [-> G]]. destruct (load_rigs_Some _ _ _ G) as [A [B _]].
      intros I. apply B in I. apply in_map_iff in I. destruct I as [p [<- I]]. exact (A p I).
    - rewrite R. intros [].
  Qed.

  (* ---------------------------------------------------------------- sensors side: completeness *)
  Lemma complete_rigs rows :
    r_rigs r = Some rows ->
    exists g, d_rigs d = Some g /\
      (forall x, In x (fst g) <-> In x (map fst rows)) /\
      (forall p, In p (snd g) <-> In p rows /\ (In (snd p) (sensor_ids d) \/ In (snd p) (map fst rows))) /\
      NoDup (fst g).
  Proof.
    intros E. pose proof rigs_shape as R. rewrite E in R. destruct R as [g [D G]].
    destruct (load_rigs_Some _ _ _ G) as [_ [B [C N]]].
    exists g. split; [exact D|]. split; [exact B|]. split; [|exact N].
    intros p. rewrite C. split; intros [I O]; (split; [exact I|]);
      (destruct O as [O|O]; [left; exact O | right; apply B; exact O]).
  Qed.

  Lemma complete_traj raw :
    r_traj r = Some raw ->
    exists rows, d_traj d = Some rows /\
      forall p, In p rows <-> In p raw /\ (In (snd p) (sensor_ids d) \/ In (snd p) (rig_ids d)).
  Proof.
    intros E. rewrite (ss_traj _ _ S), E. cbn. eexists; split; [reflexivity|].
    intros p. rewrite load_traj_In, in_app_iff. tauto.
  Qed.

  Lemma absent_parts_stay_absent :
    (r_rigs r = None -> d_rigs d = None) /\ (r_traj r = None -> d_traj d = None) /\
    (forall k, r_records r k = None -> d_records d k = None).
  Proof.
    repeat split.
    - intros E. rewrite (ss_rigs _ _ S), E. reflexivity.
    - intros E. rewrite (ss_traj _ _ S), E. reflexivity.
    - intros k E. rewrite (ss_records _ _ S), E. reflexivity.
  Qed.

  Lemma complete_records k raw :
    r_records r k = Some raw ->
    exists rows, d_records d k = Some rows /\
       (forall row, In row rows -> In row raw /\ resolves (d_sensors d) k row) /\
       (forall row, In row raw -> resolves (d_sensors d) k row ->
          exists row', In row' rows /\ rkey k row' = rkey k row /\ resolves (d_sensors d) k row') /\
       (forall l1 row l2, raw = l1 ++ row :: l2 -> resolves (d_sensors d) k row ->
          (forall y, In y l2 -> resolves (d_sensors d) k y -> rkey k y <> rkey k row) -> In row rows) /\
       NoDup (map (rkey k) rows).
  Proof.
    intros E. pose proof (ss_records _ _ S k) as D. rewrite E in D.
    eexists; split; [exact D|]. exact (load_records_Some _ _ _ _ eq_refl).
  Qed.

  (* with unique keys in the file, a records part is exactly the rows whose sensor resolves *)
  Lemma complete_records_exact k raw rows :
    r_records r k = Some raw -> d_records d k = Some rows -> NoDup (map (rkey k) raw) ->
    forall row, In row rows <-> In row raw /\ resolves (d_sensors d) k row.
  Proof.
    intros E D N row. destruct (complete_records k raw E) as [rows' [D' [A [_ [C _]]]]].
    assert (rows' = rows) by congruence. subst rows'.
    split; [apply A|]. intros [I R].
    apply in_split in I. destruct I as [l1 [l2 ->]].
    apply (C l1 row l2 eq_refl R). intros y Iy _ Ey.
    rewrite map_app in N. cbn in N. apply NoDup_remove_2 in N. apply N.
    apply in_app_iff. right. rewrite <- Ey. apply in_map; exact Iy.
  Qed.
End SensorsSide.

(* ------------------------------------------------------------------ reconstruction side *)
Section ReconSide.
  Variables (r : rawdir) (d : dataset).
  Hypothesis R : recon_side r d.

  (* iff: loaded feature entry  <->  image of a loaded camera record  /\  data file visible *)
  Lemma feat_iff fk t i :
    feat_loaded d fk t i <-> In i (images_of d) /\ file_exists r fk t i.
  Proof.
    unfold feat_loaded, file_exists. rewrite (rs_feat _ _ R). split.
    - intros [l [imgs [E [I J]]]].
      destruct (load_feat_In _ _ _ _ _ E I) as [l0 [files [E0 [I0 ->]]]].
      apply filter_In in J. destruct J as [J M]. apply memb_In in M.
      split; [exact M|]. exists l0, files; auto.
    - intros [M [l0 [files [E0 [I0 J]]]]].
      destruct (load_feat_complete (images_of d) _ _ _ _ E0 I0) as [l [E I]].
      exists l, (List.filter (fun i => memb i (images_of d)) files). repeat split; auto.
      apply filter_In; split; [exact J | apply memb_In; exact M].
  Qed.

  Lemma feat_types fk l0 t files :
    r_feat r fk = Some l0 -> In (t, files) l0 ->
    exists l, d_feat d fk = Some l /\ In (t, List.filter (fun i => memb i (images_of d)) files) l.
  Proof. intros E I. rewrite (rs_feat _ _ R). exact (load_feat_complete _ _ _ _ _ E I). Qed.

  Lemma feat_types_sound fk l t imgs :
    d_feat d fk = Some l -> In (t, imgs) l -> exists l0 files, r_feat r fk = Some l0 /\ In (t, files) l0.
  Proof.
    rewrite (rs_feat _ _ R). intros E I. destruct (load_feat_In _ _ _ _ _ E I) as [l0 [files [A [B _]]]].
    exists l0, files; auto.
  Qed.

  Definition match_loaded (t : string) (p : string * string) : Prop :=
    exists l ps, d_matches d = Some l /\ In (t, ps) l /\ In p ps.

  Lemma matches_iff t p :
    match_loaded t p <->
    match_file_exists r t p /\ In (fst p) (images_of d) /\ In (snd p) (images_of d)
    /\ pair_allowed (r_pairs r) p = true.
  Proof.
    unfold match_loaded, match_file_exists. rewrite (rs_matches _ _ R). split.
    - intros [l [ps [E [I J]]]].
      destruct (load_matches_In _ _ _ _ _ _ E I) as [l0 [files [E0 [I0 ->]]]].
      apply filter_In in J. destruct J as [J M]. unfold pair_ok in M.
      apply andb_true_iff in M. destruct M as [M M3]. apply andb_true_iff in M. destruct M as [M1 M2].
      apply memb_In in M1. apply memb_In in M2.
      split; [exists l0, files; auto | auto].
    - intros [[l0 [files [E0 [I0 J]]]] [M1 [M2 M3]]].
      destruct (load_matches_complete (images_of d) (r_pairs r) _ _ _ _ E0 I0) as [l [E I]].
      exists l, (List.filter (pair_ok (images_of d) (r_pairs r)) files). repeat split; auto.
      apply filter_In; split; [exact J|]. unfold pair_ok.
      apply memb_In in M1. apply memb_In in M2. rewrite M1, M2, M3. reflexivity.
  Qed.

  Lemma obs_shape :
    match r_obs r with
    | None => d_obs d = None
    | Some raw => exists kps, d_feat d FKeypoints = Some kps /\ d_obs d = Some (List.filter (obs_ok kps) raw)
                              /\ r_points r <> None
    end.
  Proof.
    pose proof (rs_obs _ _ R) as E. pose proof (rs_obs_guard _ _ R) as G.
    destruct (r_obs r) as [raw|]; [|exact E].
    destruct G as [G1 G2]; [congruence|].
    destruct (d_feat d FKeypoints) as [kps|]; [|congruence].
    exists kps; auto.
  Qed.

  Lemma obs_ok_loaded kps o :
    d_feat d FKeypoints = Some kps -> obs_ok kps o = true -> feat_loaded d FKeypoints (otype o) (oimage o).
  Proof.
    unfold obs_ok. intros E. destruct (lookup (otype o) kps) as [imgs|] eqn:L; [|discriminate].
    intros M. apply memb_In in M. apply lookup_Some_In in L. exists kps, imgs; auto.
  Qed.

  Lemma loaded_obs_ok kps o :
    d_feat d FKeypoints = Some kps -> NoDup (map fst kps) ->
    feat_loaded d FKeypoints (otype o) (oimage o) -> obs_ok kps o = true.
  Proof.
    intros E N [l [imgs [E' [I J]]]]. assert (l = kps) by congruence. subst l.
    unfold obs_ok. rewrite (In_lookup_NoDup _ _ _ N I). apply memb_In; exact J.
  Qed.

  Lemma closed_obs rows o :
    d_obs d = Some rows -> In o rows -> feat_loaded d FKeypoints (otype o) (oimage o).
  Proof.
    pose proof obs_shape as O. destruct (r_obs r) as [raw|]; [|congruence].
    destruct O as [kps [K [-> _]]]. intros [= <-] I. apply filter_In in I.
    exact (obs_ok_loaded kps o K (proj2 I)).
  Qed.

  (* type names are folder names: unique *)
  Lemma feat_types_NoDup fk l0 l :
    r_feat r fk = Some l0 -> NoDup (map fst l0) -> d_feat d fk = Some l -> NoDup (map fst l).
  Proof.
    rewrite (rs_feat _ _ R). intros -> N. unfold load_feat. destruct l0 as [|a l0]; [discriminate|].
    intros [= <-].
    change (NoDup (map fst (map (fun tf : string * list string =>
              (fst tf, List.filter (fun i => memb i (images_of d)) (snd tf))) (a :: l0)))).
    rewrite map_map. cbn [fst]. exact N.
  Qed.
End ReconSide.

(* ------------------------------------------------------------------ version gate on exact rationals *)
Lemma newer_spec q :
  newer q = true <-> (if Tload.ver_thr_incl then Tload.ver_thr <= q else Tload.ver_thr < q)%Q.
Proof.
  unfold newer. destruct Tload.ver_thr_incl.
  - apply Qle_bool_iff.
  - rewrite negb_true_iff. split.
    + intros E. apply Qnot_le_lt. intros L. apply Qle_bool_iff in L. congruence.
    + intros L. destruct (Qle_bool q Tload.ver_thr) eqn:E; [|reflexivity].
      apply Qle_bool_iff in E. exfalso. exact (Qlt_not_le _ _ L E).
Qed.

(* ------------------------------------------------------------------ exact error conditions *)
Definition collides (r : rawdir) : Prop :=
  exists rows p, r_rigs r = Some rows /\ In p rows /\ In (fst p) (map fst (r_sensors r)).

Lemma live_fst_ids (l : list (string * string)) x : In x (map fst (live fst l)) <-> In x (map fst l).
Proof.
  split; intros I; apply in_map_iff in I; destruct I as [p [<- I]].
  - apply in_map. apply live_In in I. exact I.
  - destruct (live_key_complete fst p l I) as [y [Iy Ey]]. rewrite <- Ey. apply in_map; exact Iy.
Qed.

Definition asserts_ok (r : rawdir) : Prop :=
  (((exists fk, r_feat r fk <> None) \/ r_matches r <> None) ->
     load_records (live fst (r_sensors r)) RCamera (r_records r RCamera) <> None) /\
  (r_obs r <> None ->
     r_points r <> None /\
     load_feat (match load_records (live fst (r_sensors r)) RCamera (r_records r RCamera) with
                | Some rows => map rextra rows | None => [] end) (r_feat r FKeypoints) <> None).

Lemma load_outcome r :
  match load_dir r with
  | Err EAssert =>
      r_has_sensors r = false \/
      (exists v q, r_version r = Some v /\ ver_q v = Some q /\ newer q = false /\ ~ collides r
                   /\ v = Tload.current_version /\ ~ asserts_ok r)
  | Err ENoVersion => r_has_sensors r = true /\ r_version r = None
  | Err ENewer =>
      r_has_sensors r = true /\ exists v, r_version r = Some v /\
        (ver_q v = None \/ exists q, ver_q v = Some q /\ newer q = true)
  | Err ECollision =>
      r_has_sensors r = true /\ (exists v q, r_version r = Some v /\ ver_q v = Some q /\ newer q = false) /\ collides r
  | Ok d =>
      r_has_sensors r = true /\ (exists q, r_version r = Some (d_version d) /\ ver_q (d_version d) = Some q /\ newer q = false)
      /\ ~ collides r /\ (d_version d = Tload.current_version -> asserts_ok r)
  end.
Proof.
  unfold load_dir.
  destruct (r_has_sensors r) eqn:HS; cbn [negb]; [|left; reflexivity].
  destruct (r_version r) as [v|] eqn:HV; [|split; reflexivity].
  destruct (ver_q v) as [q|] eqn:HQ; [|split; [reflexivity|exists v; split; [reflexivity|left; exact HQ]]].
  destruct (newer q) eqn:HN; [split; [reflexivity|exists v; split; [reflexivity|right; exists q; auto]]|].
  set (sensors := live fst (r_sensors r)).
  assert (COL : forall rows, r_rigs r = Some rows ->
                  (load_rigs (map fst sensors) rows = None <-> collides r)).
  { intros rows E. rewrite load_rigs_None. unfold collides. split.
    - intros [p [I M]]. exists rows, p. repeat split; auto. apply live_fst_ids; exact M.
    - intros [rows' [p [E' [I M]]]]. assert (rows' = rows) by congruence. subst rows'.
      exists p; split; [exact I | apply live_fst_ids; exact M]. }
  assert (NCOL : r_rigs r = None -> ~ collides r).
  { intros E [rows [p [E' _]]]. congruence. }
  (* what happens once the rigs are through *)
  assert (REST : ~ collides r -> forall rigs,
    match
      (let rids := match rigs with Some g => fst g | None => [] end in
       let traj := option_map (load_traj (map fst sensors ++ rids)) (r_traj r) in
       let recs := fun k => load_records sensors k (r_records r k) in
       if eqb v Tload.current_version then
         let cam := recs RCamera in
         let images := match cam with Some rows => map rextra rows | None => [] end in
         if (is_some (r_feat r FKeypoints) || is_some (r_feat r FDescriptors) || is_some (r_feat r FGlobal)
             || is_some (r_matches r)) && negb (is_some cam) then Err EAssert else
         let feats := fun fk => load_feat images (r_feat r fk) in
         let matches := load_matches images (r_pairs r) (r_matches r) in
         match r_obs r with
         | None =>
             Ok {| d_version := v; d_sensors := sensors; d_rigs := rigs; d_traj := traj; d_records := recs;
                   d_feat := feats; d_matches := matches; d_points := r_points r; d_obs := None |}
         | Some orows =>
             match feats FKeypoints, r_points r with
             | Some kps, Some _ =>
                 Ok {| d_version := v; d_sensors := sensors; d_rigs := rigs; d_traj := traj; d_records := recs;
                       d_feat := feats; d_matches := matches; d_points := r_points r;
                       d_obs := Some (List.filter (obs_ok kps) orows) |}
             | _, _ => Err EAssert
             end
         end
       else
         Ok {| d_version := v; d_sensors := sensors; d_rigs := rigs; d_traj := traj; d_records := recs;
               d_feat := no_feat; d_matches := None; d_points := None; d_obs := None |})
    with
    | Err EAssert =>
        False \/
        (exists v0 q0, Some v = Some v0 /\ ver_q v0 = Some q0 /\ newer q0 = false /\ ~ collides r
                       /\ v0 = Tload.current_version /\ ~ asserts_ok r)
    | Err ENoVersion | Err ENewer | Err ECollision => False
    | Ok d =>
        (exists q0, Some v = Some (d_version d) /\ ver_q (d_version d) = Some q0 /\ newer q0 = false)
        /\ ~ collides r /\ (d_version d = Tload.current_version -> asserts_ok r)
    end).
  { intros NC rigs. cbv zeta.
    destruct (eqb_spec v Tload.current_version) as [EV|NV].
    2:{ cbn. split; [exists q; auto|]. split; [exact NC|]. intros; contradiction. }
    set (cam := load_records sensors RCamera (r_records r RCamera)).
    destruct ((is_some (r_feat r FKeypoints) || is_some (r_feat r FDescriptors) || is_some (r_feat r FGlobal)
               || is_some (r_matches r)) && negb (is_some cam)) eqn:HA.
    - right. exists v, q. repeat split; auto. intros [A _].
      apply andb_true_iff in HA. destruct HA as [HA HC].
      assert (C : cam = None) by (destruct cam; cbn in HC; [discriminate|reflexivity]).
      apply A; [|exact C].
      repeat (apply orb_true_iff in HA; destruct HA as [HA|HA]);
        try (left; eexists; apply is_some_true; exact HA). right. apply is_some_true; exact HA.
    - assert (A1 : ((exists fk, r_feat r fk <> None) \/ r_matches r <> None) -> cam <> None).
      { intros GG. apply andb_false_iff in HA. destruct HA as [HA|HA].
        - exfalso. repeat (apply orb_false_iff in HA; destruct HA as [HA ?]).
          destruct GG as [[fk GG]|GG].
          + destruct fk; [destruct (r_feat r FKeypoints) | destruct (r_feat r FDescriptors) | destruct (r_feat r FGlobal)];
              cbn in *; congruence.
          + destruct (r_matches r); cbn in *; congruence.
        - destruct cam; cbn in HA; congruence. }
      destruct (r_obs r) as [orows|] eqn:HO.
      + destruct (load_feat (match cam with Some rows0 => map rextra rows0 | None => [] end) (r_feat r FKeypoints))
          as [kps|] eqn:HK.
        * destruct (r_points r) as [np|] eqn:HP.
          -- cbn. split; [exists q; auto|]. split; [exact NC|]. intros _. split; [exact A1|].
             intros _. fold sensors. fold cam. rewrite HP, HK. split; congruence.
          -- right. exists v, q. repeat split; auto. intros [_ B].
             destruct B as [B _]; [rewrite HO; congruence|]. rewrite HP in B. congruence.
        * right. exists v, q. repeat split; auto. intros [_ B].
          destruct B as [_ B]; [rewrite HO; congruence|]. apply B. exact HK.
      + cbn. split; [exists q; auto|]. split; [exact NC|]. intros _. split; [exact A1|].
        rewrite HO. intros C; congruence. }
  destruct (r_rigs r) as [rows|] eqn:HR.
  - destruct (load_rigs (map fst sensors) rows) as [g|] eqn:G.
    2:{ split; [reflexivity|]. split; [exists v, q; auto|]. apply (COL rows eq_refl). exact G. }
    assert (NC : ~ collides r) by (intros C; apply (COL rows eq_refl) in C; congruence).
    specialize (REST NC (Some g)). cbv zeta in REST. cbv zeta.
    destruct (if eqb v current_version then _ else _) as [d|[]]; try contradiction.
    + destruct REST as [A [B C]]. split; [reflexivity|]. split; [|split]; auto.
    + right. destruct REST as [[]|REST]. exact REST.
  - specialize (REST (NCOL eq_refl) None). cbv zeta in REST. cbv zeta.
    destruct (if eqb v current_version then _ else _) as [d|[]]; try contradiction.
    + destruct REST as [A [B C]]. split; [reflexivity|]. split; [|split]; auto.
    + right. destruct REST as [[]|REST]. exact REST.
Qed.

(* ------------------------------------------------------------------ skip_list *)
Lemma skip_raw_none r : skip_raw skip_none r = r.
Proof. destruct r; reflexivity. Qed.

Lemma load_dir_skip_none r : load_dir_skip skip_none r = load_dir r.
Proof. unfold load_dir_skip. rewrite skip_raw_none. reflexivity. Qed.

Lemma opt_skip_Some {A} b (o : option A) x : opt_skip b o = Some x -> b = false /\ o = Some x.
Proof. destruct b; cbn; [discriminate | auto]. Qed.

(* what the skipping loader sees exists in the directory *)
Lemma file_exists_skip s r fk t i : file_exists (skip_raw s r) fk t i -> file_exists r fk t i.
Proof.
  intros [l [files [E I]]]. cbn in E. apply opt_skip_Some in E. destruct E as [_ E]. exists l, files. auto.
Qed.

Lemma match_file_exists_skip s r t p : match_file_exists (skip_raw s r) t p -> match_file_exists r t p.
Proof.
  intros [l [files [E I]]]. cbn in E. apply opt_skip_Some in E. destruct E as [_ E]. exists l, files. auto.
Qed.

Lemma collides_skip s r : collides (skip_raw s r) -> collides r.
Proof.
  intros [rows [p [E I]]]. cbn in E. apply opt_skip_Some in E. destruct E as [_ E]. exists rows, p. auto.
Qed.

(* a skipped part is absent from the loaded dataset *)
Record skipped_absent (s : skipset) (d : dataset) : Prop := {
  sa_rigs : sk_rigs s = true -> d_rigs d = None;
  sa_traj : sk_traj s = true -> d_traj d = None;
  sa_rec : forall k, sk_rec s k = true -> d_records d k = None;
  sa_feat : forall fk, sk_feat s fk = true -> d_feat d fk = None;
  sa_matches : sk_matches s = true -> d_matches d = None;
  sa_points : sk_points s = true -> d_points d = None;
  sa_obs : sk_obs s = true -> d_obs d = None;
}.

Lemma skip_absent s r d : load_dir_skip s r = Ok d -> skipped_absent s d.
Proof.
  intros H. destruct (load_ok_inv _ _ H) as [_ [S V]]. constructor.
  - intros E. rewrite (ss_rigs _ _ S). cbn. rewrite E. reflexivity.
  - intros E. rewrite (ss_traj _ _ S). cbn. rewrite E. reflexivity.
  - intros k E. rewrite (ss_records _ _ S). cbn. rewrite E. reflexivity.
  - intros fk E. destruct V as [[_ R]|[_ N]]; [|apply N]. rewrite (rs_feat _ _ R). cbn. rewrite E. reflexivity.
  - intros E. destruct V as [[_ R]|[_ N]]; [|apply N]. rewrite (rs_matches _ _ R). cbn. rewrite E. reflexivity.
  - intros E. destruct V as [[_ R]|[_ N]]; [|apply N]. rewrite (rs_points _ _ R). cbn. rewrite E. reflexivity.
  - intros E. destruct V as [[_ R]|[_ N]]; [|apply N]. rewrite (rs_obs _ _ R). cbn. rewrite E. reflexivity.
Qed.

Lemma load_traj_norigs sids rids rows :
  load_traj (sids ++ []) rows = List.filter (fun p => memb (snd p) sids) (load_traj (sids ++ rids) rows).
Proof.
  rewrite app_nil_r. unfold load_traj. induction rows as [|a l IH]; [reflexivity|].
  cbn. rewrite memb_app. destruct (memb (snd a) sids) eqn:E; cbn.
  - rewrite E. f_equal. exact IH.
  - destruct (memb (snd a) rids); cbn; [rewrite E|]; exact IH.
Qed.

(* WHAT SKIPPING DOES NOT CHANGE: every part that is not skipped is loaded exactly as without a skip list, with one
   dependency — when the rigs are skipped, the trajectory entries of rigs go (rig ids are no devices any more) *)
Record skip_frame (s : skipset) (r : rawdir) (d d0 : dataset) : Prop := {
  sf_version : d_version d = d_version d0;
  sf_sensors : d_sensors d = d_sensors d0;
  sf_rigs : sk_rigs s = false -> d_rigs d = d_rigs d0;
  sf_records : forall k, sk_rec s k = false -> d_records d k = d_records d0 k;
  sf_traj : sk_traj s = false -> sk_rigs s = false \/ r_rigs r = None -> d_traj d = d_traj d0;
  sf_traj_norigs : sk_traj s = false -> sk_rigs s = true ->
    d_traj d = option_map (List.filter (fun p => memb (snd p) (sensor_ids d0))) (d_traj d0);
  sf_feat : sk_rec s RCamera = false -> forall fk, sk_feat s fk = false -> d_feat d fk = d_feat d0 fk;
  sf_matches : sk_rec s RCamera = false -> sk_matches s = false -> d_matches d = d_matches d0;
  sf_points : sk_points s = false -> d_points d = d_points d0;
  sf_obs : sk_rec s RCamera = false -> sk_feat s FKeypoints = false -> sk_obs s = false -> d_obs d = d_obs d0;
}.

Lemma skip_frame_holds s r d d0 : load_dir_skip s r = Ok d -> load_dir r = Ok d0 -> skip_frame s r d d0.
Proof.
  intros H H0.
  destruct (load_ok_inv _ _ H) as [[_ [V _]] [S X]]. destruct (load_ok_inv _ _ H0) as [[_ [V0 _]] [S0 X0]].
  cbn in V.
  assert (EV : d_version d = d_version d0) by congruence.
  assert (ES : d_sensors d = d_sensors d0) by (rewrite (ss_sensors _ _ S), (ss_sensors _ _ S0); reflexivity).
  assert (EI : sensor_ids d = sensor_ids d0) by (unfold sensor_ids; rewrite ES; reflexivity).
  assert (ER : sk_rigs s = false -> d_rigs d = d_rigs d0).
  { intros E. rewrite (ss_rigs _ _ S), (ss_rigs _ _ S0). cbn. rewrite E, EI. reflexivity. }
  assert (ERec : forall k, sk_rec s k = false -> d_records d k = d_records d0 k).
  { intros k E. rewrite (ss_records _ _ S), (ss_records _ _ S0). cbn. rewrite E, ES. reflexivity. }
  assert (EIm : sk_rec s RCamera = false -> images_of d = images_of d0).
  { intros E. unfold images_of. rewrite (ERec RCamera E). reflexivity. }
  assert (EF : sk_rec s RCamera = false -> forall fk, sk_feat s fk = false -> d_feat d fk = d_feat d0 fk).
  { intros EC fk E. destruct X as [[C R]|[NC N]], X0 as [[C0 R0]|[NC0 N0]]; try congruence.
    - rewrite (rs_feat _ _ R), (rs_feat _ _ R0). cbn. rewrite E, (EIm EC). reflexivity.
    - rewrite (proj1 N), (proj1 N0). reflexivity. }
  constructor; auto.
  - (* trajectories, rigs loaded alike *)
    intros E G. rewrite (ss_traj _ _ S), (ss_traj _ _ S0). cbn. rewrite E. cbn [opt_skip].
    assert (EG : rig_ids d = rig_ids d0).
    { unfold rig_ids. destruct G as [G|G]; [rewrite (ER G); reflexivity|].
      rewrite (ss_rigs _ _ S), (ss_rigs _ _ S0). cbn. rewrite G. destruct (sk_rigs s); reflexivity. }
    rewrite EI, EG. reflexivity.
  - (* trajectories, rigs skipped *)
    intros E G. rewrite (ss_traj _ _ S), (ss_traj _ _ S0). cbn. rewrite E. cbn [opt_skip].
    assert (EG : rig_ids d = []).
    { unfold rig_ids. rewrite (ss_rigs _ _ S). cbn. rewrite G. reflexivity. }
    rewrite EG, EI. destruct (r_traj r) as [rows|]; [|reflexivity]. cbn. f_equal. apply load_traj_norigs.
  - intros EC E. destruct X as [[C R]|[NC N]], X0 as [[C0 R0]|[NC0 N0]]; try congruence.
    + rewrite (rs_matches _ _ R), (rs_matches _ _ R0). cbn. rewrite E, (EIm EC). reflexivity.
    + destruct N as [_ [N _]], N0 as [_ [N0 _]]. congruence.
  - intros E. destruct X as [[C R]|[NC N]], X0 as [[C0 R0]|[NC0 N0]]; try congruence.
    + rewrite (rs_points _ _ R), (rs_points _ _ R0). cbn. rewrite E. reflexivity.
    + destruct N as [_ [_ [N _]]], N0 as [_ [_ [N0 _]]]. congruence.
  - intros EC EK E. destruct X as [[C R]|[NC N]], X0 as [[C0 R0]|[NC0 N0]]; try congruence.
    + rewrite (rs_obs _ _ R), (rs_obs _ _ R0). cbn. rewrite E, (EF EC FKeypoints EK). reflexivity.
    + destruct N as [_ [_ [_ N]]], N0 as [_ [_ [_ N0]]]. congruence.
Qed.

(* skipping introduces no refusal except through the loader's own assertions; a collision or a version refusal
   can only disappear *)
Lemma skip_ok s r d0 :
  load_dir r = Ok d0 -> (d_version d0 = Tload.current_version -> asserts_ok (skip_raw s r)) ->
  exists d, load_dir_skip s r = Ok d.
Proof.
  intros H0 A. pose proof (load_outcome r) as O0. rewrite H0 in O0.
  destruct O0 as [HS [[q [HV [HQ HN]]] [NC _]]].
  unfold load_dir_skip. pose proof (load_outcome (skip_raw s r)) as O.
  destruct (load_dir (skip_raw s r)) as [d|[]]; [eauto| | | |]; exfalso; cbn [skip_raw r_version r_has_sensors] in O.
  - destruct O as [O|[v [q' [E [_ [_ [_ [EC NA]]]]]]]]; [congruence|]. apply NA, A. congruence.
  - destruct O as [_ O]. congruence.
  - destruct O as [_ [v [E [O|[q' [O1 O2]]]]]]; congruence.
  - destruct O as [_ [_ C]]. exact (NC (collides_skip s r C)).
Qed.
