(* Proofs/PMergeKeep.v — lemmas about Model/MMergeKeep.v (property C09).
   Everything is proved for arbitrary lists of inputs by induction; no bound on sizes. *)
From Coq Require Import List Bool String ZArith Lia.
From KV Require Import Eqb AL Str.
From KV.Model Require Import MMergeKeep.
Import ListNotations.
Local Open Scope string_scope.
Local Open Scope list_scope.

(* ------------------------------------------------------------------ first_some / somes *)
Lemma first_some_app {A} (l m : list (option A)) :
  first_some (l ++ m) = match first_some l with Some a => Some a | None => first_some m end.
Proof. induction l as [|[a|] l IH]; cbn; auto. Qed.

Lemma first_some_None {A} (l : list (option A)) : first_some l = None <-> forall x, In x l -> x = None.
Proof.
  induction l as [|[a|] l IH]; cbn.
  - split; [intros _ x []|reflexivity].
  - split; [discriminate|]. intros E. specialize (E (Some a) (or_introl eq_refl)). discriminate.
  - rewrite IH. split; [intros E x [<-|I]; auto | intros E x I; apply E; auto].
Qed.

Lemma first_some_In {A} (l : list (option A)) a : first_some l = Some a -> In (Some a) l.
Proof. induction l as [|[b|] l IH]; cbn; [discriminate|intros [= ->]; auto|auto]. Qed.

Lemma first_some_somes {A B} (f : A -> option B) (ps : list (option A)) :
  first_some (map f (somes ps)) = first_some (map (fun o => match o with Some a => f a | None => None end) ps).
Proof. induction ps as [|[a|] ps IH]; cbn; [reflexivity| |assumption]. destruct (f a); auto. Qed.

Lemma In_somes {A} (a : A) (l : list (option A)) : In a (somes l) <-> In (Some a) l.
Proof.
  induction l as [|[b|] l IH]; cbn; [tauto| |].
  - rewrite IH. split; intros [E|E]; auto; [left; congruence | left; congruence].
  - rewrite IH. split; [auto|intros [E|E]; [discriminate|auto]].
Qed.

Lemma al_nil_iff {K V} `{EqDec K} (m : al K V) : m = [] <-> forall k, lookup k m = None.
Proof.
  split; [intros ->; reflexivity|]. destruct m as [|[k v] m]; [reflexivity|].
  intros E. specialize (E k). cbn in E. rewrite eqb_refl in E. discriminate.
Qed.

Lemma lookup_nonempty_opt {K V} `{EqDec K} (k : K) (m : al K V) : lookup_o k (nonempty_opt m) = lookup k m.
Proof. destruct m; reflexivity. Qed.

Lemma nonempty_opt_None {A} (l : list A) : nonempty_opt l = None <-> l = [].
Proof. destruct l; cbn; split; congruence. Qed.

(* ------------------------------------------------------------------ merge_tab: first wins *)
Section TabP.
  Context {K V : Type} `{EqDec K}.
  Implicit Types (m acc t : al K V) (ts : list (al K V)).

  Definition pick (a b : option V) : option V := match a with Some v => Some v | None => b end.

  Lemma lookup_add_table k acc t : lookup k (add_table acc t) = pick (lookup k acc) (lookup k t).
  Proof.
    unfold add_table. revert acc; induction t as [|[k' v'] t IH]; intros acc; cbn.
    - destruct (lookup k acc); reflexivity.
    - rewrite IH, lookup_insert_new. cbn. destruct (lookup k acc); cbn; [reflexivity|].
      destruct (eqb k k'); reflexivity.
  Qed.

  Lemma lookup_fold_add_table k ts acc :
    lookup k (fold_left add_table ts acc) = pick (lookup k acc) (first_some (map (lookup k) ts)).
  Proof.
    revert acc; induction ts as [|t ts IH]; intros acc; cbn.
    - destruct (lookup k acc); reflexivity.
    - rewrite IH, lookup_add_table. destruct (lookup k acc); cbn; [reflexivity|].
      destruct (lookup k t); reflexivity.
  Qed.

  (* THE first-wins law: a key maps to the entry of the earliest table that defines it *)
  Lemma lookup_merge_tab k ts : lookup k (merge_tab ts) = first_some (map (lookup k) ts).
  Proof. unfold merge_tab. rewrite lookup_fold_add_table. reflexivity. Qed.

  Lemma wf_add_table acc t : wf acc -> wf (add_table acc t).
  Proof.
    unfold add_table. revert acc; induction t as [|[k v] t IH]; intros acc W; cbn; [assumption|].
    apply IH. apply wf_insert_new. assumption.
  Qed.

  Lemma wf_merge_tab ts : wf (merge_tab ts).
  Proof.
    unfold merge_tab. assert (G : forall acc, wf acc -> wf (fold_left add_table ts acc)).
    { induction ts as [|t ts IH]; intros acc W; cbn; [assumption|]. apply IH, wf_add_table, W. }
    apply G, wf_nil.
  Qed.

  Lemma merge_part_lookup k (ps : list (option (al K V))) :
    lookup_o k (merge_part false ps) = first_some (map (lookup_o k) ps).
  Proof.
    change (merge_part false ps) with (nonempty_opt (merge_tab (somes ps))).
    rewrite lookup_nonempty_opt, lookup_merge_tab, first_some_somes. reflexivity.
  Qed.

  Lemma merge_part_skipped (ps : list (option (al K V))) : merge_part true ps = None.
  Proof. reflexivity. Qed.

  (* absent (or empty) in every input <-> absent in the merge *)
  Lemma merge_part_None (ps : list (option (al K V))) :
    merge_part false ps = None <-> forall p k, In p ps -> lookup_o k p = None.
  Proof.
    change (merge_part false ps) with (nonempty_opt (merge_tab (somes ps))).
    transitivity (merge_tab (somes ps) = []); [apply nonempty_opt_None|]. rewrite al_nil_iff. split.
    - intros E p k I. specialize (E k). rewrite lookup_merge_tab, first_some_somes, first_some_None in E.
      destruct p as [m|]; [|reflexivity]. apply (E (lookup k m)). apply in_map_iff. exists (Some m); auto.
    - intros E k. rewrite lookup_merge_tab, first_some_somes, first_some_None. intros x I.
      apply in_map_iff in I. destruct I as [[m|] [<- I]]; [|reflexivity]. apply (E (Some m) k I).
  Qed.

  Lemma merge_part_absent_everywhere (ps : list (option (al K V))) :
    (forall p, In p ps -> p = None) -> merge_part false ps = None.
  Proof. intros E. apply merge_part_None. intros p k I. rewrite (E p I). reflexivity. Qed.

  Definition keys_o (o : option (al K V)) : list K := match o with Some m => keys m | None => [] end.

  Lemma lookup_o_In_keys k (o : option (al K V)) : lookup_o k o <> None <-> In k (keys_o o).
  Proof. destruct o as [m|]; cbn; [apply lookup_In_keys | tauto]. Qed.

  (* key set of the merge = union of the key sets *)
  Lemma merge_part_keys k (ps : list (option (al K V))) :
    In k (keys_o (merge_part false ps)) <-> exists p, In p ps /\ In k (keys_o p).
  Proof.
    rewrite <- lookup_o_In_keys, merge_part_lookup. split.
    - intros NE. destruct (first_some (map (lookup_o k) ps)) as [v|] eqn:E; [|congruence].
      apply first_some_In in E. apply in_map_iff in E. destruct E as [p [E I]].
      exists p. split; [assumption|]. apply lookup_o_In_keys. congruence.
    - intros [p [I IK]] E. rewrite first_some_None in E. apply lookup_o_In_keys in IK. apply IK.
      apply E. apply in_map. assumption.
  Qed.

  Lemma merge_part_wf (ps : list (option (al K V))) : NoDup (keys_o (merge_part false ps)).
  Proof.
    change (merge_part false ps) with (nonempty_opt (merge_tab (somes ps))). pose proof (wf_merge_tab (somes ps)) as W.
    destruct (merge_tab (somes ps)); cbn; [constructor | exact W].
  Qed.

  (* put_all: overwrite [out] with the entries of a table with unique keys *)
  Lemma lookup_put_all k m (out : al K V) : wf m -> lookup k (put_all m out) = pick (lookup k m) (lookup k out).
  Proof.
    unfold put_all, wf. revert out; induction m as [|[k' v'] m IH]; intros out W; cbn; [reflexivity|].
    inversion W as [|? ? NI W']; subst. rewrite IH by assumption. rewrite lookup_insert.
    destruct (eqb_spec k k') as [->|N].
    - assert (E : lookup k' m = None) by (apply lookup_None_keys; assumption). rewrite E. reflexivity.
    - reflexivity.
  Qed.
End TabP.

(* ------------------------------------------------------------------ sets *)
Section SetP.
  Context {K : Type} `{EqDec K}.

  Lemma memb_snoc (k x : K) l : memb k (l ++ [x]) = memb k l || eqb k x.
  Proof. rewrite memb_app. cbn. rewrite orb_false_r. reflexivity. Qed.

  Lemma memb_add_set (k : K) acc s : memb k (add_set acc s) = memb k acc || memb k s.
  Proof.
    unfold add_set. revert acc; induction s as [|x s IH]; intros acc; cbn; [rewrite orb_false_r; reflexivity|].
    rewrite IH. destruct (memb x acc) eqn:E.
    - destruct (eqb_spec k x) as [->|N]; cbn; [rewrite E; reflexivity | reflexivity].
    - rewrite memb_snoc, <- orb_assoc. reflexivity.
  Qed.

  Lemma NoDup_add_set acc (s : list K) : NoDup acc -> NoDup (add_set acc s).
  Proof.
    unfold add_set. revert acc; induction s as [|x s IH]; intros acc W; cbn; [assumption|].
    apply IH. destruct (memb x acc) eqn:E; [assumption|].
    apply NoDup_snoc; [assumption | apply memb_not_In; assumption].
  Qed.

  Lemma memb_merge_set_acc (k : K) ss acc :
    memb k (fold_left add_set ss acc) = memb k acc || existsb (memb k) ss.
  Proof.
    revert acc; induction ss as [|s ss IH]; intros acc; cbn; [rewrite orb_false_r; reflexivity|].
    rewrite IH, memb_add_set, orb_assoc. reflexivity.
  Qed.

  Lemma memb_merge_set (k : K) ss : memb k (merge_set ss) = existsb (memb k) ss.
  Proof. unfold merge_set. rewrite memb_merge_set_acc. reflexivity. Qed.

  Lemma In_merge_set (k : K) ss : In k (merge_set ss) <-> exists s, In s ss /\ In k s.
  Proof.
    rewrite <- memb_In, memb_merge_set, existsb_exists. split; intros [s [I M]]; exists s; split; auto; apply memb_In; auto.
  Qed.

  Lemma NoDup_merge_set (ss : list (list K)) : NoDup (merge_set ss).
  Proof.
    unfold merge_set. assert (G : forall acc, NoDup acc -> NoDup (fold_left add_set ss acc)).
    { induction ss as [|s ss IH]; intros acc W; cbn; [assumption|]. apply IH, NoDup_add_set, W. }
    apply G. constructor.
  Qed.

  Lemma memb_filter (k : K) (f : K -> bool) l : memb k (List.filter f l) = memb k l && f k.
  Proof.
    induction l as [|x l IH]; cbn; [reflexivity|]. destruct (f x) eqn:E; cbn; rewrite IH.
    - destruct (eqb_spec k x) as [->|N]; cbn; [rewrite E; reflexivity | reflexivity].
    - destruct (eqb_spec k x) as [->|N]; cbn; [rewrite E, andb_false_r; reflexivity | reflexivity].
  Qed.
End SetP.

(* ------------------------------------------------------------------ merge_tab3: nested first wins *)
Section Tab3P.
  Context {K1 K2 V : Type} `{EqDec K1} `{EqDec K2}.
  Implicit Types (m acc t : @nested K1 K2 V).

  Definition pick3 (a b : option V) : option V := match a with Some v => Some v | None => b end.

  Lemma lookup3_setdefault3 a b v m a' b' :
    lookup3 a' b' (setdefault3 a b v m)
    = pick3 (lookup3 a' b' m) (if eqb a' a && eqb b' b then Some v else None).
  Proof.
    unfold lookup3, setdefault3. rewrite lookup_insert.
    destruct (eqb_spec a' a) as [->|N]; cbn.
    - rewrite lookup_insert_new. destruct (lookup a m) as [s|]; cbn; [|reflexivity].
      destruct (lookup b' s); reflexivity.
    - destruct (lookup a' m) as [s|]; cbn; [destruct (lookup b' s)|]; reflexivity.
  Qed.

  Fixpoint look_flat (a : K1) (b : K2) (l : list (K1 * K2 * V)) : option V :=
    match l with
    | [] => None
    | e :: l' => if eqb a (fst (fst e)) && eqb b (snd (fst e)) then Some (snd e) else look_flat a b l'
    end.

  Lemma lookup3_fold a b l acc :
    lookup3 a b (fold_left (fun m e => setdefault3 (fst (fst e)) (snd (fst e)) (snd e) m) l acc)
    = pick3 (lookup3 a b acc) (look_flat a b l).
  Proof.
    revert acc; induction l as [|e l IH]; intros acc; cbn.
    - destruct (lookup3 a b acc); reflexivity.
    - rewrite IH, lookup3_setdefault3. destruct (lookup3 a b acc); cbn; [reflexivity|].
      destruct (eqb a (fst (fst e)) && eqb b (snd (fst e))); reflexivity.
  Qed.

  Lemma look_flat_app a b l1 l2 : look_flat a b (l1 ++ l2) = pick3 (look_flat a b l1) (look_flat a b l2).
  Proof.
    induction l1 as [|e l1 IH]; cbn; [reflexivity|].
    destruct (eqb a (fst (fst e)) && eqb b (snd (fst e))); [reflexivity | assumption].
  Qed.

  Lemma look_flat_sub a b a' (sub : al K2 V) :
    look_flat a b (map (fun kv => (a', fst kv, snd kv)) sub) = if eqb a a' then lookup b sub else None.
  Proof.
    induction sub as [|[b' v] sub IH]; cbn; [destruct (eqb a a'); reflexivity|].
    destruct (eqb a a') eqn:E; cbn; [|assumption].
    destruct (eqb b b'); [reflexivity | assumption].
  Qed.

  Lemma look_flat_notin a b t : ~ In a (keys t) -> look_flat a b (flatten3 t) = None.
  Proof.
    induction t as [|[a' sub] t IH]; cbn; [reflexivity|]. intros NI.
    rewrite look_flat_app. cbn [fst snd]. rewrite look_flat_sub.
    destruct (eqb_spec a a') as [->|N]; [exfalso; apply NI; auto|]. cbn. apply IH. tauto.
  Qed.

  Lemma look_flat_flatten3 a b t : NoDup (keys t) -> look_flat a b (flatten3 t) = lookup3 a b t.
  Proof.
    induction t as [|[a' sub] t IH]; cbn; [reflexivity|]. intros W. inversion W as [|? ? NI W']; subst.
    rewrite look_flat_app. cbn [fst snd]. rewrite look_flat_sub. unfold lookup3; cbn [lookup].
    destruct (eqb_spec a a') as [->|N].
    - destruct (lookup b sub); cbn; [reflexivity|]. apply look_flat_notin. assumption.
    - cbn. apply IH. assumption.
  Qed.

  Lemma lookup3_add_table3 a b acc t :
    NoDup (keys t) -> lookup3 a b (add_table3 acc t) = pick3 (lookup3 a b acc) (lookup3 a b t).
  Proof. intros W. unfold add_table3. rewrite lookup3_fold, look_flat_flatten3 by assumption. reflexivity. Qed.

  Lemma lookup3_fold_add_table3 a b ts acc :
    Forall (fun t => NoDup (keys t)) ts ->
    lookup3 a b (fold_left add_table3 ts acc) = pick3 (lookup3 a b acc) (first_some (map (lookup3 a b) ts)).
  Proof.
    revert acc; induction ts as [|t ts IH]; intros acc W; cbn.
    - destruct (lookup3 a b acc); reflexivity.
    - inversion W; subst. rewrite IH, lookup3_add_table3 by assumption.
      destruct (lookup3 a b acc); cbn; [reflexivity|]. destruct (lookup3 a b t); reflexivity.
  Qed.

  (* first wins at the level of (timestamp, device, signal) *)
  Lemma lookup3_merge_tab3 a b ts :
    Forall (fun t => NoDup (keys t)) ts -> lookup3 a b (merge_tab3 ts) = first_some (map (lookup3 a b) ts).
  Proof. intros W. unfold merge_tab3. rewrite lookup3_fold_add_table3 by assumption. reflexivity. Qed.

  Definition wf3_o (o : option (@nested K1 K2 V)) : Prop := match o with Some t => NoDup (keys t) | None => True end.

  Lemma Forall_somes_wf3 (ps : list (option (@nested K1 K2 V))) :
    Forall wf3_o ps -> Forall (fun t => NoDup (keys t)) (somes ps).
  Proof.
    induction ps as [|[t|] ps IH]; intros W; inversion W; subst; cbn; [constructor|constructor; auto|auto].
  Qed.

  Lemma lookup3_nonempty_opt a b m : lookup3_o a b (nonempty_opt m) = lookup3 a b m.
  Proof. destruct m; reflexivity. Qed.

  Lemma merge_part3_lookup a b (ps : list (option (@nested K1 K2 V))) :
    Forall wf3_o ps ->
    lookup3_o a b (merge_part3 false ps) = first_some (map (lookup3_o a b) ps).
  Proof.
    intros W. change (merge_part3 false ps) with (nonempty_opt (merge_tab3 (somes ps))).
    rewrite lookup3_nonempty_opt, lookup3_merge_tab3 by (apply Forall_somes_wf3; assumption).
    rewrite first_some_somes. reflexivity.
  Qed.

  Lemma merge_part3_skipped (ps : list (option (@nested K1 K2 V))) : merge_part3 true ps = None.
  Proof. reflexivity. Qed.

  (* emptiness: a table contributes nothing iff it has no (t, d, signal) entry *)
  Lemma setdefault3_nonempty a b v m : setdefault3 a b v m <> [].
  Proof.
    unfold setdefault3. destruct m as [|[a' s] m]; cbn; [discriminate|]. destruct (eqb a a'); discriminate.
  Qed.

  Lemma fold_setdefault3_nil l acc :
    fold_left (fun m e => setdefault3 (fst (fst e)) (snd (fst e)) (snd e) m) l acc = [] <-> l = [] /\ acc = [].
  Proof.
    revert acc; induction l as [|e l IH]; intros acc; cbn; [tauto|]. rewrite IH. split.
    - intros [_ E]. exfalso. exact (setdefault3_nonempty _ _ _ _ E).
    - intros [E _]. discriminate.
  Qed.

  Lemma merge_tab3_nil_acc ts acc :
    fold_left add_table3 ts acc = [] <-> acc = [] /\ forall t, In t ts -> flatten3 t = [].
  Proof.
    revert acc; induction ts as [|t ts IH]; intros acc; cbn; [intuition|].
    rewrite IH. unfold add_table3 at 1. rewrite fold_setdefault3_nil. split.
    - intros [[E1 E2] E3]. split; [assumption|]. intros t' [<-|I]; auto.
    - intros [E1 E2]. split; [split; auto|]. intros t' I. apply E2. auto.
  Qed.

  Lemma flatten3_nil t : NoDup (keys t) -> (flatten3 t = [] <-> forall a b, lookup3 a b t = None).
  Proof.
    intros W. split.
    - intros E a b. rewrite <- look_flat_flatten3 by assumption. rewrite E. reflexivity.
    - induction t as [|[a' sub] t IH]; cbn; [reflexivity|]. intros E. inversion W as [|? ? NI W']; subst.
      assert (S : sub = []).
      { apply al_nil_iff. intros b. specialize (E a' b). unfold lookup3 in E. cbn in E. rewrite eqb_refl in E. exact E. }
      subst sub. cbn. apply IH; [assumption|]. intros a b. specialize (E a b). unfold lookup3 in *. cbn in E.
      destruct (eqb_spec a a') as [->|N]; [|exact E].
      assert (L : lookup a' t = None) by (apply lookup_None_keys; assumption). rewrite L. reflexivity.
  Qed.

  Lemma merge_part3_None (ps : list (option (@nested K1 K2 V))) :
    Forall wf3_o ps ->
    (merge_part3 false ps = None <-> forall p a b, In p ps -> lookup3_o a b p = None).
  Proof.
    intros W. change (merge_part3 false ps) with (nonempty_opt (merge_tab3 (somes ps))).
    transitivity (merge_tab3 (somes ps) = []); [apply nonempty_opt_None|].
    unfold merge_tab3. rewrite merge_tab3_nil_acc. rewrite Forall_forall in W. split.
    - intros [_ E] p a b I. destruct p as [t|]; [|reflexivity]. cbn.
      apply (flatten3_nil t (W _ I)). apply E. apply In_somes. assumption.
    - intros E. split; [reflexivity|]. intros t I. apply In_somes in I.
      apply (flatten3_nil t (W _ I)). intros a b. apply (E (Some t) a b I).
  Qed.
End Tab3P.

(* ------------------------------------------------------------------ record files: merge_records_data *)
Lemma lookup_Some_In {K V} `{EqDec K} (k : K) (v : V) (m : al K V) : lookup k m = Some v -> In (k, v) m.
Proof.
  induction m as [|[k' v'] m IH]; cbn; [discriminate|]. destruct (eqb_spec k k') as [->|N]; [intros [= ->]; auto | auto].
Qed.

Lemma lookup_rec_entries n names src :
  lookup n (rec_entries names src) = if memb n names then Some (lookup n src) else None.
Proof.
  unfold rec_entries. induction names as [|x names IH]; cbn; [reflexivity|].
  destruct (eqb_spec n x) as [->|N]; cbn; [reflexivity | assumption].
Qed.

(* the content found under name [n] in the folder of the earliest input that lists [n]
   (Some None: that input lists it but does not have the file) *)
Definition lister_content (n : string) (per : list (list string * al string tok)) : option (option tok) :=
  first_some (map (fun e => if memb n (fst e) then Some (lookup n (snd e)) else None) per).

Lemma lookup_firsts n per :
  lookup n (merge_tab (map (fun e => rec_entries (fst e) (snd e)) per)) = lister_content n per.
Proof.
  rewrite lookup_merge_tab, map_map. unfold lister_content. f_equal. apply map_ext. intros e. apply lookup_rec_entries.
Qed.

Definition transfers (st : strategy) : bool :=
  match st with SCopy | SMove | SLinkAbs | SLinkRel => true | SSkip | SRootLink => false end.

Lemma transfer_lookup st per out out' n :
  transfer st per out = Ok out' -> transfers st = true ->
  lookup n out' = pick (lister_content n per) (lookup n out).
Proof.
  intros T S. rewrite <- lookup_firsts. unfold transfer in T.
  destruct st; cbn in S; try discriminate.
  1,2: destruct (forallb _ _); [|discriminate].
  3,4: destruct (existsb _ _); [discriminate|].
  all: injection T as <-; apply lookup_put_all, wf_merge_tab.
Qed.

Lemma transfer_copy_has_content st per out out' n c :
  transfer st per out = Ok out' -> (st = SCopy \/ st = SMove) -> lister_content n per = Some c -> c <> None.
Proof.
  intros T S L. rewrite <- lookup_firsts in L. apply lookup_Some_In in L. unfold transfer in T.
  assert (F : forallb (fun kv : string * option tok => is_some (snd kv))
                      (merge_tab (map (fun e => rec_entries (fst e) (snd e)) per)) = true).
  { destruct S as [-> | ->]; destruct (forallb _ _); congruence. }
  rewrite forallb_forall in F. specialize (F _ L). cbn in F. destruct c; [discriminate | discriminate].
Qed.

Lemma transfer_skip per out : transfer SSkip per out = Ok out.
Proof. reflexivity. Qed.

Definition listers (r : rpart) (ins : list input) : list (list string * al string tok) :=
  map (fun i => (rec_names (k_rec (fst i) r), s_rec (snd i))) ins.
Definition kind_content (skip : list part) (ins : list input) (r : rpart) (n : string) : option (option tok) :=
  if skipped skip (part_of_r r) then None else lister_content n (listers r ins).

Lemma transfer_kind_lookup skip st ins r out out' n :
  transfer_kind true skip st ins r out = Ok out' -> transfers st = true ->
  lookup n out' = pick (kind_content skip ins r n) (lookup n out).
Proof.
  unfold transfer_kind, kind_content. destruct (skipped skip (part_of_r r)).
  - intros [= <-] _. reflexivity.
  - intros T S. destruct r; exact (transfer_lookup _ _ _ _ n T S).
Qed.

Lemma transfer_kind_no_transfer lid skip st ins r out out' :
  transfer_kind lid skip st ins r out = Ok out' -> transfers st = false -> out' = out.
Proof.
  unfold transfer_kind. destruct (skipped skip (part_of_r r)); [congruence|].
  intros T S. destruct st; cbn in S; try discriminate.
  - destruct r, lid; cbn in T; congruence.
  - destruct r, lid; cbn in T; try congruence; destruct ins; cbn in T; congruence.
Qed.

(* ------------------------------------------------------------------ inversion of a successful merge *)
Lemma merge_keep_gen_inv rm lid skip st ho ins d f :
  merge_keep_gen rm lid skip st ho ins = Ok (d, f) ->
  ins <> [] /\
  exists f1 f2 f3 ckp fkp cde fde cgf fgf cm fm,
    transfer_kind true skip st ins RCam [] = Ok f1 /\
    transfer_kind true skip st ins RDepth f1 = Ok f2 /\
    transfer_kind lid skip st ins RLidar f2 = Ok f3 /\
    merge_gcoll (skipped skip PKp) ho (map (fun i => (k_feat (fst i) IKp, s_feat (snd i) IKp)) ins) = Ok (ckp, fkp) /\
    merge_gcoll (skipped skip PDesc) ho (map (fun i => (k_feat (fst i) IDesc, s_feat (snd i) IDesc)) ins) = Ok (cde, fde) /\
    merge_gcoll (skipped skip PGf) ho (map (fun i => (k_feat (fst i) IGf, s_feat (snd i) IGf)) ins) = Ok (cgf, fgf) /\
    merge_gcoll (skipped skip PMatches) ho (map (fun i => (option_map mc_to_g (k_matches (fst i)), s_match (snd i))) ins) = Ok (cm, fm) /\
    d = {| k_sensors := merge_part false (map k_sensors (map fst ins));
           k_rigs := nonempty_opt (rm (somes (map k_rigs (map fst ins))));
           k_tab := fun p => merge_part (skipped skip (part_of_t p)) (map (fun d => k_tab d p) (map fst ins));
           k_rec := fun p => merge_part (skipped skip (part_of_r p)) (map (fun d => k_rec d p) (map fst ins));
           k_sig := fun p => merge_part3 (skipped skip (part_of_n p)) (map (fun d => k_sig d p) (map fst ins));
           k_feat := fun p => match p with IKp => ckp | IDesc => cde | IGf => cgf end;
           k_matches := option_map g_to_mc cm |} /\
    f = {| o_rec := f3;
           o_feat := fun p => match p with IKp => fkp | IDesc => fde | IGf => fgf end;
           o_match := fm |}.
Proof.
  unfold merge_keep_gen. destruct ins as [|i0 ins0]; [discriminate|]. set (ins := i0 :: ins0).
  intros E. split; [discriminate|].
  destruct (transfer_kind true skip st ins RCam []) as [f1|] eqn:E1; [|discriminate].
  destruct (transfer_kind true skip st ins RDepth f1) as [f2|] eqn:E2; [|discriminate].
  destruct (transfer_kind lid skip st ins RLidar f2) as [f3|] eqn:E3; [|discriminate].
  cbn [part_of_i] in E.
  destruct (merge_gcoll (skipped skip PKp) ho _) as [[ckp fkp]|] eqn:E4; [|discriminate].
  destruct (merge_gcoll (skipped skip PDesc) ho _) as [[cde fde]|] eqn:E5; [|discriminate].
  destruct (merge_gcoll (skipped skip PGf) ho _) as [[cgf fgf]|] eqn:E6; [|discriminate].
  destruct (merge_gcoll (skipped skip PMatches) ho _) as [[cm fm]|] eqn:E7; [|discriminate].
  injection E as <- <-.
  exists f1, f2, f3, ckp, fkp, cde, fde, cgf, fgf, cm, fm. repeat split; assumption || reflexivity.
Qed.

(* ------------------------------------------------------------------ feature sets and matches *)
Lemma NoDup_app_intro {A} (l m : list A) :
  NoDup l -> NoDup m -> (forall x, In x l -> ~ In x m) -> NoDup (l ++ m).
Proof.
  induction l as [|a l IH]; cbn; intros Wl Wm D; [assumption|]. inversion Wl as [|? ? NI Wl']; subst.
  constructor.
  - rewrite in_app_iff. intros [I|I]; [contradiction | exact (D a (or_introl eq_refl) I)].
  - apply IH; auto.
Qed.

Lemma lookup_app {K V} `{EqDec K} (k : K) (a b : al K V) :
  lookup k (a ++ b) = match lookup k a with Some v => Some v | None => lookup k b end.
Proof. induction a as [|[k' v'] a IH]; cbn; [reflexivity|]. destruct (eqb k k'); auto. Qed.

Section FeatP.
  Context {N : Type} `{EqDec N}.
  Notation holder := (tok * list N * @gstore N)%type.
  Definition hmeta (h : holder) : tok := fst (fst h).
  Definition hmem (h : holder) : list N := snd (fst h).
  Definition hsrc (h : holder) : @gstore N := snd h.

  (* the file of member [n] (type [ty]) in the earliest holder that has [n]; Some None = no such file there *)
  Definition owner (ty : string) (n : N) (l : list holder) : option (option tok) :=
    first_some (map (fun h => if memb n (hmem h) then Some (lookup (ty, n) (hsrc h)) else None) l).

  Definition got (o : option (option tok)) (dflt : option tok) : option tok :=
    match o with Some (Some c) => Some c | _ => dflt end.

  Lemma lookup_copy_files ty (src : @gstore N) fr out ty' n :
    lookup (ty', n) (fold_left (fun o kv => match snd kv with Some c => insert (ty, fst kv) c o | None => o end)
                               (map (fun x => (x, lookup (ty, x) src)) fr) out)
    = if eqb ty' ty && memb n fr
      then match lookup (ty, n) src with Some c => Some c | None => lookup (ty', n) out end
      else lookup (ty', n) out.
  Proof.
    revert out; induction fr as [|x fr IH]; intros out; cbn [map fold_left memb fst snd].
    - rewrite andb_false_r. reflexivity.
    - rewrite IH. clear IH.
      destruct (eqb_spec ty' ty) as [->|NT]; cbn [andb].
      + destruct (eqb_spec n x) as [->|NN]; cbn [orb].
        * destruct (lookup (ty, x) src) as [c|] eqn:L.
          -- rewrite lookup_insert_eq. destruct (memb x fr); reflexivity.
          -- destruct (memb x fr); reflexivity.
        * destruct (lookup (ty, x) src) as [c|] eqn:L; [|reflexivity].
          rewrite lookup_insert_neq by congruence. reflexivity.
      + destruct (lookup (ty, x) src) as [c|]; [|reflexivity].
        rewrite lookup_insert_neq by congruence. reflexivity.
  Qed.

  Lemma memb_fresh (n : N) acc mem :
    memb n (add_set [] (List.filter (fun x => negb (memb x acc)) mem)) = memb n mem && negb (memb n acc).
  Proof. rewrite memb_add_set, memb_filter. reflexivity. Qed.

  Lemma merge_feat1_spec copy ty m0 (l : list holder) : forall acc out names out',
    merge_feat1 copy ty m0 acc out l = Ok (names, out') ->
    Forall (fun h => hmeta h = m0) l /\
    (forall n, memb n names = memb n acc || existsb (fun h => memb n (hmem h)) l) /\
    (NoDup acc -> NoDup names) /\
    (forall ty' n, lookup (ty', n) out' =
       if copy && eqb ty' ty && negb (memb n acc) then got (owner ty n l) (lookup (ty', n) out)
       else lookup (ty', n) out) /\
    (copy = true -> forall n, memb n acc = false -> owner ty n l <> Some None).
  Proof.
    induction l as [|[[m mem] src] l IH]; intros acc out names out' E; cbn [merge_feat1] in E.
    - injection E as <- <-. repeat split.
      + constructor.
      + intros n. cbn. rewrite orb_false_r. reflexivity.
      + auto.
      + intros ty' n. cbn. destruct (copy && eqb ty' ty && negb (memb n acc)); reflexivity.
      + intros _ n _. cbn. discriminate.
    - destruct (eqb_spec m m0) as [->|NM]; cbn [negb] in E; [|discriminate].
      set (fresh := add_set [] (List.filter (fun x => negb (memb x acc)) mem)) in *.
      destruct (copy && negb (forallb (fun kv : N * option tok => is_some (snd kv))
                                     (map (fun x => (x, lookup (ty, x) src)) fresh))) eqn:CK; [discriminate|].
      apply IH in E. destruct E as (F & M & W & L & P).
      assert (MF : forall n, memb n fresh = memb n mem && negb (memb n acc)) by (intros n; apply memb_fresh).
      repeat split.
      + constructor; [reflexivity | assumption].
      + intros n. rewrite M, memb_app, MF. cbn [existsb hmem fst snd].
        destruct (memb n acc), (memb n mem); reflexivity.
      + intros WA. apply W. apply NoDup_app_intro; [assumption | apply NoDup_add_set; constructor|].
        intros x IA IF. apply memb_In in IF. rewrite MF in IF. apply memb_In in IA. rewrite IA in IF.
        rewrite andb_false_r in IF. discriminate.
      + intros ty' n. rewrite L. rewrite memb_app, MF. unfold owner; cbn [map first_some hmem hsrc fst snd].
        destruct copy; cbn [andb].
        * rewrite lookup_copy_files, MF.
          destruct (eqb ty' ty) eqn:ET; cbn [andb]; [|reflexivity].
          destruct (memb n acc); cbn [negb orb andb]; [rewrite andb_false_r; reflexivity|].
          destruct (memb n mem); cbn [andb orb negb]; [|reflexivity].
          apply eqb_true in ET. subst ty'. destruct (lookup (ty, n) src); reflexivity.
        * reflexivity.
      + intros -> n NA. unfold owner; cbn [map first_some hmem hsrc fst snd].
        destruct (memb n mem) eqn:MM.
        * cbn [andb] in CK. apply negb_false_iff in CK. rewrite forallb_forall in CK.
          specialize (CK (n, lookup (ty, n) src)). cbn in CK.
          destruct (lookup (ty, n) src) eqn:LS; [discriminate|]. exfalso.
          assert (I : In n fresh) by (apply memb_In; rewrite MF, MM, NA; reflexivity).
          assert (T : false = true); [|discriminate]. apply CK. apply in_map_iff. exists n.
          split; [rewrite LS; reflexivity | exact I].
        * apply P; [reflexivity|]. rewrite memb_app, MF, MM, NA. reflexivity.
  Qed.

  Definition In_holders (ty : string) (cs : list (option (@gcoll N) * @gstore N)) (h : holder) : Prop :=
    exists e, In e cs /\ lookup_gc ty (fst e) = Some (hmeta h, hmem h) /\ hsrc h = snd e.

  Lemma In_holders_iff ty cs h : In h (holders ty cs) <-> In_holders ty cs h.
  Proof.
    unfold holders, In_holders. rewrite In_somes, in_map_iff. split.
    - intros [e [E I]]. exists e. split; [assumption|]. destruct (lookup_gc ty (fst e)) as [[m mem]|]; [|discriminate].
      injection E as <-. cbn. auto.
    - intros [e (I & L & S)]. exists e. split; [|assumption]. rewrite L. destruct h as [[m mem] src]. cbn in *. subst. reflexivity.
  Qed.

  (* what one type of the merged collection must look like, in terms of its holders *)
  Definition type_spec (ty : string) (cs : list (option (@gcoll N) * @gstore N)) (v : option (tok * list N)) : Prop :=
    match holders ty cs with
    | [] => v = None
    | h :: _ => exists names, v = Some (hmeta h, names) /\ NoDup names /\
                              Forall (fun h' => hmeta h' = hmeta h) (holders ty cs) /\
                              forall n, In n names <-> exists h', In h' (holders ty cs) /\ In n (hmem h')
    end.

  Lemma merge_types_spec copy cs : forall tys accc out c out',
    merge_types copy cs tys accc out = Ok (c, out') -> NoDup tys ->
    (forall ty, In ty tys -> ~ In ty (keys accc)) ->
    (forall ty, ~ In ty tys -> lookup ty c = lookup ty accc) /\
    (forall ty, In ty tys -> holders ty cs <> [] /\ type_spec ty cs (lookup ty c)) /\
    (forall ty n, lookup (ty, n) out' =
       if copy && memb ty tys then got (owner ty n (holders ty cs)) (lookup (ty, n) out) else lookup (ty, n) out) /\
    (copy = true -> forall ty n, In ty tys -> owner ty n (holders ty cs) <> Some None).
  Proof.
    induction tys as [|ty tys IH]; intros accc out c out' E W D; cbn [merge_types] in E.
    - injection E as <- <-. split; [intros; reflexivity|]. split; [intros ty []|].
      split; [|intros _ ty n []]. intros ty n. cbn [memb]. rewrite andb_false_r. reflexivity.
    - destruct (holders ty cs) as [|[[m0 mem0] src0] hs] eqn:HO; [discriminate|].
      destruct (merge_feat1 copy ty m0 [] out _) as [[names out1]|] eqn:F1; [|discriminate].
      inversion W as [|? ? NI W']; subst.
      apply IH in E; [|assumption|].
      2:{ intros t I. unfold keys. rewrite map_app, in_app_iff. cbn. intros [J|[J|[]]].
          - apply (D t); [right; assumption | exact J].
          - subst t. contradiction. }
      destruct E as (A1 & A2 & A3 & A4).
      apply merge_feat1_spec in F1. destruct F1 as (FM & FN & FW & FL & FP).
      assert (LT : lookup ty c = Some (m0, names)).
      { rewrite (A1 ty NI), lookup_app.
        assert (Z : lookup ty accc = None) by (apply lookup_None_keys; apply D; left; reflexivity).
        rewrite Z. cbn. rewrite eqb_refl. reflexivity. }
      repeat split.
      + intros t NT. rewrite A1 by (intro; apply NT; right; assumption). rewrite lookup_app.
        destruct (lookup t accc); [reflexivity|]. cbn.
        destruct (eqb_spec t ty) as [->|]; [exfalso; apply NT; left; reflexivity | reflexivity].
      + destruct H0 as [<-|I]; [rewrite HO; discriminate | apply A2; assumption].
      + destruct H0 as [<-|I]; [|apply A2; assumption].
        unfold type_spec. rewrite HO. exists names. split; [exact LT|]. split; [apply FW; constructor|].
        split; [exact FM|]. intros n. rewrite <- memb_In, FN. cbn [memb orb]. rewrite existsb_exists.
        split; intros [h [I M]]; exists h; (split; [assumption|]); apply memb_In; assumption.
      + intros t n. rewrite A3, FL. cbn [memb negb]. rewrite andb_true_r.
        destruct copy; cbn [andb]; [|reflexivity].
        destruct (eqb_spec t ty) as [->|NE]; cbn [orb].
        * assert (Z : memb ty tys = false) by (apply memb_not_In; assumption). rewrite Z, HO. reflexivity.
        * reflexivity.
      + intros -> t n [<-|I]; [|apply A4; auto]. rewrite HO. apply FP; reflexivity.
  Qed.

  Lemma holders_nil_iff ty (cs : list (option (@gcoll N) * @gstore N)) : holders ty cs = [] <-> forall e, In e cs -> lookup_gc ty (fst e) = None.
  Proof.
    split.
    - intros E e I. destruct (lookup_gc ty (fst e)) as [[m mem]|] eqn:L; [|reflexivity]. exfalso.
      assert (J : In (m, mem, snd e) (holders ty cs)) by (apply In_holders_iff; exists e; cbn; auto).
      rewrite E in J. exact J.
    - intros E. destruct (holders ty cs) as [|h hs] eqn:HO; [reflexivity|]. exfalso.
      assert (J : In h (holders ty cs)) by (rewrite HO; left; reflexivity).
      apply In_holders_iff in J. destruct J as [e (I & L & _)]. rewrite (E e I) in L. discriminate.
  Qed.

  Lemma In_union_types ty (cs : list (option (@gcoll N) * @gstore N)) :
    In ty (merge_set (map keys (somes (map fst cs)))) <-> holders ty cs <> [].
  Proof.
    rewrite In_merge_set, holders_nil_iff. split.
    - intros [s [I K]] E. apply in_map_iff in I. destruct I as [coll [<- I]]. apply In_somes in I.
      apply in_map_iff in I. destruct I as [e [F I]]. specialize (E e I). rewrite F in E. cbn in E.
      apply lookup_None_keys in E. contradiction.
    - intros NE. destruct (existsb (fun e => match lookup_gc ty (fst e) with Some _ => true | None => false end) cs) eqn:X.
      + apply existsb_exists in X. destruct X as [e [I L]]. destruct (fst e) as [coll|] eqn:F; [|discriminate].
        exists (keys coll). split.
        * apply in_map. apply In_somes. apply in_map_iff. exists e. auto.
        * cbn in L. apply lookup_In_keys. destruct (lookup ty coll); congruence.
      + exfalso. apply NE. intros e I. destruct (lookup_gc ty (fst e)) eqn:L; [|reflexivity].
        assert (T : existsb (fun e => match lookup_gc ty (fst e) with Some _ => true | None => false end) cs = true).
        { apply existsb_exists. exists e. rewrite L. auto. }
        congruence.
  Qed.

  (* the merged collection and the copied files of one feature kind *)
  Theorem merge_gcoll_spec copy (cs : list (option (@gcoll N) * @gstore N)) oc out :
    merge_gcoll false copy cs = Ok (oc, out) ->
    (forall ty, type_spec ty cs (lookup_gc ty oc)) /\
    (oc = None <-> forall ty, holders ty cs = []) /\
    (forall ty n, lookup (ty, n) out = if copy then got (owner ty n (holders ty cs)) None else None) /\
    (copy = true -> forall ty n, owner ty n (holders ty cs) <> Some None).
  Proof.
    unfold merge_gcoll. destruct (somes (map fst cs)) as [|c0 colls] eqn:SO.
    - intros [= <- <-].
      assert (HN : forall ty, holders ty cs = []).
      { intros ty. apply holders_nil_iff. intros e I. destruct (fst e) as [coll|] eqn:F; [|reflexivity]. exfalso.
        assert (J : In coll (somes (map fst cs))) by (apply In_somes, in_map_iff; exists e; auto).
        rewrite SO in J. exact J. }
      repeat split.
      + intros ty. unfold type_spec. rewrite HN. reflexivity.
      + intros _. exact HN.
      + intros ty n. destruct copy; [rewrite HN|]; reflexivity.
      + intros _ ty n. rewrite HN. cbn. discriminate.
    - rewrite <- SO. clear c0 colls SO.
      destruct (merge_types copy cs _ [] []) as [[c o]|] eqn:MT; [|discriminate].
      intros [= <- <-]. apply merge_types_spec in MT; [|apply NoDup_merge_set | intros ty _ []].
      destruct MT as (A1 & A2 & A3 & A4).
      assert (LG : forall ty, lookup_gc ty (nonempty_opt c) = lookup ty c) by (intros; destruct c; reflexivity).
      assert (TS : forall ty, type_spec ty cs (lookup ty c)).
      { intros ty. destruct (holders ty cs) as [|h hs] eqn:HO.
        - unfold type_spec. rewrite HO. rewrite A1; [reflexivity|]. rewrite In_union_types, HO. tauto.
        - apply A2. apply In_union_types. rewrite HO. discriminate. }
      repeat split.
      + intros ty. rewrite LG. apply TS.
      + intros E ty. apply nonempty_opt_None in E. specialize (TS ty). rewrite E in TS. unfold type_spec in TS.
        destruct (holders ty cs) as [|h hs]; [reflexivity|]. destruct TS as [names [X _]]. discriminate.
      + intros HN. apply nonempty_opt_None. apply al_nil_iff. intros ty.
        specialize (TS ty). unfold type_spec in TS. rewrite HN in TS. exact TS.
      + intros ty n. rewrite A3. cbn [lookup]. destruct copy; cbn [andb]; [|reflexivity].
        destruct (memb ty _) eqn:M; [reflexivity|]. apply memb_not_In in M. rewrite In_union_types in M.
        destruct (holders ty cs); [reflexivity | exfalso; apply M; discriminate].
      + intros -> ty n. destruct (holders ty cs) as [|h hs] eqn:HO; [cbn; discriminate|]. rewrite <- HO.
        apply A4; [reflexivity|]. apply In_union_types. rewrite HO. discriminate.
  Qed.

  Lemma merge_gcoll_skipped copy cs : @merge_gcoll N _ true copy cs = Ok (None, []).
  Proof. reflexivity. Qed.
End FeatP.

(* ------------------------------------------------------------------ the merged dataset in terms of the inputs *)
Definition in_sig_ok (ins : list input) : Prop :=
  forall i p, In i ins -> wf3_o (k_sig (fst i) p).

Section Top.
  Variables (skip : list part) (st : strategy) (ho : bool) (ins : list input) (d : kdata) (f : ostore).
  Hypothesis OK : merge_keep skip st ho ins = Ok (d, f).

  Lemma ok_inputs_nonempty : ins <> [].
  Proof. exact (proj1 (merge_keep_gen_inv _ _ _ _ _ _ _ _ OK)). Qed.

  Ltac inv :=
    destruct (proj2 (merge_keep_gen_inv _ _ _ _ _ _ _ _ OK))
      as (f1 & f2 & f3 & ckp & fkp & cde & fde & cgf & fgf & cm & fm & T1 & T2 & T3 & G1 & G2 & G3 & G4 & ED & EF).

  (* 1 key *)
  Lemma sensors_first_wins k :
    lookup_o k (k_sensors d) = first_some (map (fun i => lookup_o k (k_sensors (fst i))) ins).
  Proof. inv. subst d. cbn [k_sensors k_tab k_rec k_sig]. rewrite merge_part_lookup, !map_map. reflexivity. Qed.

  Lemma sensors_none : k_sensors d = None <-> forall i k, In i ins -> lookup_o k (k_sensors (fst i)) = None.
  Proof.
    inv. subst d. cbn [k_sensors k_tab k_rec k_sig]. rewrite merge_part_None, map_map. split.
    - intros E i k I. apply E. apply in_map_iff. exists i. auto.
    - intros E p k I. apply in_map_iff in I. destruct I as [i [<- I]]. apply E. assumption.
  Qed.

  (* 2 keys: rigs *)
  Lemma rigs_first_wins k :
    lookup_o k (k_rigs d) = first_some (map (fun i => lookup_o k (k_rigs (fst i))) ins).
  Proof.
    inv. subst d. cbn [k_rigs].
    change (nonempty_opt (merge_tab (somes (map k_rigs (map fst ins))))) with (merge_part false (map k_rigs (map fst ins))).
    rewrite merge_part_lookup, !map_map. reflexivity.
  Qed.

  Lemma rigs_none : k_rigs d = None <-> forall i k, In i ins -> lookup_o k (k_rigs (fst i)) = None.
  Proof.
    inv. subst d. cbn [k_rigs].
    change (nonempty_opt (merge_tab (somes (map k_rigs (map fst ins))))) with (merge_part false (map k_rigs (map fst ins))).
    rewrite merge_part_None, map_map. split.
    - intros E i k I. apply E. apply in_map_iff. exists i. auto.
    - intros E p k I. apply in_map_iff in I. destruct I as [i [<- I]]. apply E. assumption.
  Qed.

  (* 2 keys: trajectories, gnss, accelerometer, gyroscope, magnetic *)
  Lemma tab_skipped p : skipped skip (part_of_t p) = true -> k_tab d p = None.
  Proof. inv. subst d. cbn [k_sensors k_tab k_rec k_sig]. intros ->. reflexivity. Qed.

  Lemma tab_first_wins p k : skipped skip (part_of_t p) = false ->
    lookup_o k (k_tab d p) = first_some (map (fun i => lookup_o k (k_tab (fst i) p)) ins).
  Proof. inv. subst d. cbn [k_sensors k_tab k_rec k_sig]. intros ->. rewrite merge_part_lookup, !map_map. reflexivity. Qed.

  Lemma tab_none p : skipped skip (part_of_t p) = false ->
    (k_tab d p = None <-> forall i k, In i ins -> lookup_o k (k_tab (fst i) p) = None).
  Proof.
    inv. subst d. cbn [k_sensors k_tab k_rec k_sig]. intros ->. rewrite merge_part_None, map_map. split.
    - intros E i k I. apply E. apply in_map_iff. exists i. auto.
    - intros E q k I. apply in_map_iff in I. destruct I as [i [<- I]]. apply E. assumption.
  Qed.

  (* 2 keys: camera, depth, lidar records *)
  Lemma rec_skipped p : skipped skip (part_of_r p) = true -> k_rec d p = None.
  Proof. inv. subst d. cbn [k_sensors k_tab k_rec k_sig]. intros ->. reflexivity. Qed.

  Lemma rec_first_wins p k : skipped skip (part_of_r p) = false ->
    lookup_o k (k_rec d p) = first_some (map (fun i => lookup_o k (k_rec (fst i) p)) ins).
  Proof. inv. subst d. cbn [k_sensors k_tab k_rec k_sig]. intros ->. rewrite merge_part_lookup, !map_map. reflexivity. Qed.

  Lemma rec_none p : skipped skip (part_of_r p) = false ->
    (k_rec d p = None <-> forall i k, In i ins -> lookup_o k (k_rec (fst i) p) = None).
  Proof.
    inv. subst d. cbn [k_sensors k_tab k_rec k_sig]. intros ->. rewrite merge_part_None, map_map. split.
    - intros E i k I. apply E. apply in_map_iff. exists i. auto.
    - intros E q k I. apply in_map_iff in I. destruct I as [i [<- I]]. apply E. assumption.
  Qed.

  (* 3 keys: wifi, bluetooth *)
  Lemma sig_skipped p : skipped skip (part_of_n p) = true -> k_sig d p = None.
  Proof. inv. subst d. cbn [k_sensors k_tab k_rec k_sig]. intros ->. reflexivity. Qed.

  Lemma sig_wf p : in_sig_ok ins -> Forall wf3_o (map (fun d0 => k_sig d0 p) (map fst ins)).
  Proof.
    intros W. rewrite map_map. apply Forall_forall. intros x I. apply in_map_iff in I.
    destruct I as [i [<- I]]. apply W. assumption.
  Qed.

  Lemma sig_first_wins p a b : in_sig_ok ins -> skipped skip (part_of_n p) = false ->
    lookup3_o a b (k_sig d p) = first_some (map (fun i => lookup3_o a b (k_sig (fst i) p)) ins).
  Proof.
    intros W. inv. subst d. cbn [k_sensors k_tab k_rec k_sig]. intros ->. rewrite merge_part3_lookup by (apply sig_wf; assumption).
    rewrite !map_map. reflexivity.
  Qed.

  Lemma sig_none p : in_sig_ok ins -> skipped skip (part_of_n p) = false ->
    (k_sig d p = None <-> forall i a b, In i ins -> lookup3_o a b (k_sig (fst i) p) = None).
  Proof.
    intros W. inv. subst d. cbn [k_sensors k_tab k_rec k_sig]. intros ->.
    destruct (merge_part3_None _ (sig_wf p W)) as [Z1 Z2]. split.
    - intros E i a b I. apply (Z1 E). apply in_map_iff. exists (fst i). split; [reflexivity | apply in_map; assumption].
    - intros E. apply Z2. intros q a b I. apply in_map_iff in I. destruct I as [d0 [<- I]].
      apply in_map_iff in I. destruct I as [i [<- I]]. apply E. assumption.
  Qed.

  (* record files *)
  Lemma rec_files_exact n : transfers st = true ->
    lookup n (o_rec f) =
    pick (kind_content skip ins RLidar n) (pick (kind_content skip ins RDepth n) (pick (kind_content skip ins RCam n) None)).
  Proof.
    intros S. inv. subst f. cbn [o_rec].
    rewrite (transfer_kind_lookup _ _ _ _ _ _ n T3 S), (transfer_kind_lookup _ _ _ _ _ _ n T2 S),
            (transfer_kind_lookup _ _ _ _ _ _ n T1 S). reflexivity.
  Qed.

  Lemma rec_files_none : transfers st = false -> o_rec f = [].
  Proof.
    intros S. inv. subst f. cbn [o_rec].
    rewrite (transfer_kind_no_transfer _ _ _ _ _ _ _ T3 S), (transfer_kind_no_transfer _ _ _ _ _ _ _ T2 S).
    exact (transfer_kind_no_transfer _ _ _ _ _ _ _ T1 S).
  Qed.

  Lemma rec_copy_has_content r n c : (st = SCopy \/ st = SMove) ->
    kind_content skip ins r n = Some c -> c <> None.
  Proof.
    intros S. inv. unfold kind_content. destruct (skipped skip (part_of_r r)) eqn:SK; [discriminate|].
    assert (G : forall out out', transfer_kind true skip st ins r out = Ok out' ->
                lister_content n (listers r ins) = Some c -> c <> None).
    { intros out out' T. unfold transfer_kind in T. rewrite SK in T.
      destruct r; exact (transfer_copy_has_content _ _ _ _ n c T S). }
    destruct r; eauto.
  Qed.
End Top.

(* ------------------------------------------------------------------ feature kinds in terms of the inputs *)
Section FeatIn.
  Context {N : Type} `{EqDec N}.
  Implicit Types (cs : list (option (@gcoll N) * @gstore N)).

  (* content of the file of member [n] in the earliest input whose set of type [ty] contains [n] *)
  Definition cs_owner (ty : string) (n : N) cs : option (option tok) :=
    first_some (map (fun e : option (@gcoll N) * @gstore N => match lookup_gc ty (fst e) with
                              | Some v => if memb n (snd v) then Some (lookup (ty, n) (snd e)) else None
                              | None => None end) cs).

  Lemma owner_holders ty n cs : owner ty n (holders ty cs) = cs_owner ty n cs.
  Proof.
    unfold owner, holders, cs_owner. induction cs as [|e cs IH]; [reflexivity|]. cbn [map].
    destruct (lookup_gc ty (fst e)) as [[m mem]|]; cbn [somes map first_some]; [|exact IH].
    unfold hmem at 1, hsrc at 1. cbn [fst snd]. destruct (memb n mem); cbn [first_some]; [reflexivity | exact IH].
  Qed.

  Lemma holders_first_meta ty cs :
    first_some (map (fun e => option_map fst (lookup_gc ty (fst e))) cs)
    = match holders ty cs with [] => None | h :: _ => Some (hmeta h) end.
  Proof.
    unfold holders. induction cs as [|e cs IH]; [reflexivity|]. cbn [map].
    destruct (lookup_gc ty (fst e)) as [[m mem]|]; cbn [somes map first_some option_map]; [reflexivity | exact IH].
  Qed.

  Section Spec.
    Variables (copy : bool) (cs : list (option (@gcoll N) * @gstore N)) (oc : option (@gcoll N)) (out : @gstore N).
    Hypothesis OKG : merge_gcoll false copy cs = Ok (oc, out).

    Lemma gc_type_absent ty : lookup_gc ty oc = None <-> forall e, In e cs -> lookup_gc ty (fst e) = None.
    Proof.
      destruct (merge_gcoll_spec _ _ _ _ OKG) as (TS & _). specialize (TS ty). unfold type_spec in TS.
      rewrite <- holders_nil_iff. destruct (holders ty cs) as [|h hs].
      - split; auto.
      - destruct TS as [names [E _]]. rewrite E. split; discriminate.
    Qed.

    Lemma gc_none : oc = None <-> forall ty e, In e cs -> lookup_gc ty (fst e) = None.
    Proof.
      destruct (merge_gcoll_spec _ _ _ _ OKG) as (_ & NO & _). rewrite NO. split.
      - intros E ty. apply holders_nil_iff, E.
      - intros E ty. apply holders_nil_iff, E.
    Qed.

    Lemma gc_meta ty m names : lookup_gc ty oc = Some (m, names) ->
      first_some (map (fun e => option_map fst (lookup_gc ty (fst e))) cs) = Some m /\ NoDup names /\
      forall e v, In e cs -> lookup_gc ty (fst e) = Some v -> fst v = m.
    Proof.
      destruct (merge_gcoll_spec _ _ _ _ OKG) as (TS & _). specialize (TS ty). unfold type_spec in TS.
      rewrite holders_first_meta. intros L. destruct (holders ty cs) as [|h hs] eqn:HO; [congruence|].
      destruct TS as [names' (E & W & FM & _)]. rewrite L in E. injection E as -> ->.
      split; [reflexivity|]. split; [assumption|]. intros e [m' mem'] I LE.
      rewrite Forall_forall in FM. apply (FM (m', mem', snd e)). rewrite <- HO. apply In_holders_iff.
      exists e. cbn. auto.
    Qed.

    Lemma gc_members ty n :
      (exists m names, lookup_gc ty oc = Some (m, names) /\ In n names) <->
      (exists e m names, In e cs /\ lookup_gc ty (fst e) = Some (m, names) /\ In n names).
    Proof.
      destruct (merge_gcoll_spec _ _ _ _ OKG) as (TS & _). specialize (TS ty). unfold type_spec in TS. split.
      - intros [m [names [L I]]]. destruct (holders ty cs) as [|h hs] eqn:HO; [congruence|].
        destruct TS as [names' (E & _ & _ & MB)]. rewrite L in E. injection E as -> ->.
        apply MB in I. destruct I as [h' [IH' IN]]. rewrite <- HO in IH'. apply In_holders_iff in IH'.
        destruct IH' as [e (IE & LE & _)]. exists e, (hmeta h'), (hmem h'). auto.
      - intros [e [m [names (IE & LE & IN)]]].
        assert (J : In (m, names, snd e) (holders ty cs)) by (apply In_holders_iff; exists e; cbn; auto).
        destruct (holders ty cs) as [|h hs] eqn:HO; [contradiction|].
        destruct TS as [names' (E & _ & _ & MB)]. exists (hmeta h), names'. split; [assumption|].
        apply MB. exists (m, names, snd e). split; [assumption | exact IN].
    Qed.

    Lemma gc_files_copy ty n : copy = true ->
      cs_owner ty n cs <> Some None /\
      lookup (ty, n) out = match cs_owner ty n cs with Some c => c | None => None end.
    Proof.
      intros ->. destruct (merge_gcoll_spec _ _ _ _ OKG) as (_ & _ & FL & FP).
      specialize (FL ty n). specialize (FP eq_refl ty n). rewrite owner_holders in *. split; [assumption|].
      rewrite FL. destruct (cs_owner ty n cs) as [[c|]|]; reflexivity || congruence.
    Qed.

    Lemma gc_files_nocopy : copy = false -> out = [].
    Proof.
      intros ->. destruct (merge_gcoll_spec _ _ _ _ OKG) as (_ & _ & FL & _).
      apply al_nil_iff. intros [ty n]. apply FL.
    Qed.
  End Spec.
End FeatIn.

(* matches travel through the generic definition with a constant metadata token *)
Lemma lookup_mc_to_g ty (m : option mcoll) :
  lookup_gc ty (option_map mc_to_g m) = option_map (fun prs => (""%string, prs)) (lookup_o ty m).
Proof.
  destruct m as [m|]; [|reflexivity]. cbn. induction m as [|[t prs] m IH]; cbn; [reflexivity|].
  destruct (eqb ty t); [reflexivity | assumption].
Qed.

Lemma lookup_g_to_mc ty (g : option (@gcoll (string * string))) :
  lookup_o ty (option_map g_to_mc g) = option_map snd (lookup_gc ty g).
Proof.
  destruct g as [g|]; [|reflexivity]. cbn. induction g as [|[t v] g IH]; cbn; [reflexivity|].
  destruct (eqb ty t); [reflexivity | assumption].
Qed.

Section TopFeat.
  Variables (skip : list part) (st : strategy) (ho : bool) (ins : list input) (d : kdata) (f : ostore).
  Hypothesis OK : merge_keep skip st ho ins = Ok (d, f).

  Definition fcs (p : ipart) : list (option fcoll * @gstore string) :=
    map (fun i : input => (k_feat (fst i) p, s_feat (snd i) p)) ins.
  Definition mcs : list (option (@gcoll (string * string)) * @gstore (string * string)) :=
    map (fun i : input => (option_map mc_to_g (k_matches (fst i)), s_match (snd i))) ins.

  Lemma feat_inv p : merge_gcoll (skipped skip (part_of_i p)) ho (fcs p) = Ok (k_feat d p, o_feat f p).
  Proof.
    destruct (proj2 (merge_keep_gen_inv _ _ _ _ _ _ _ _ OK))
      as (f1 & f2 & f3 & ckp & fkp & cde & fde & cgf & fgf & cm & fm & T1 & T2 & T3 & G1 & G2 & G3 & G4 & ED & EF).
    subst d f. destruct p; cbn; assumption.
  Qed.

  Lemma match_inv : exists cm, merge_gcoll (skipped skip PMatches) ho mcs = Ok (cm, o_match f) /\
                               k_matches d = option_map g_to_mc cm.
  Proof.
    destruct (proj2 (merge_keep_gen_inv _ _ _ _ _ _ _ _ OK))
      as (f1 & f2 & f3 & ckp & fkp & cde & fde & cgf & fgf & cm & fm & T1 & T2 & T3 & G1 & G2 & G3 & G4 & ED & EF).
    subst d f. exists cm. cbn. auto.
  Qed.

  (* ---- image features *)
  Lemma feat_skipped p : skipped skip (part_of_i p) = true -> k_feat d p = None /\ o_feat f p = [].
  Proof. intros S. pose proof (feat_inv p) as E. rewrite S in E. cbn in E. injection E as <- <-. auto. Qed.

  Lemma feat_members p ty n : skipped skip (part_of_i p) = false ->
    ((exists m names, lookup_gc ty (k_feat d p) = Some (m, names) /\ In n names) <->
     (exists i m names, In i ins /\ lookup_gc ty (k_feat (fst i) p) = Some (m, names) /\ In n names)).
  Proof.
    intros S. pose proof (feat_inv p) as E. rewrite S in E. rewrite (gc_members _ _ _ _ E). split.
    - intros [e [m [names (IE & LE & IN)]]]. apply in_map_iff in IE. destruct IE as [i [<- II]]. exists i, m, names. auto.
    - intros [i [m [names (II & LE & IN)]]]. exists (k_feat (fst i) p, s_feat (snd i) p), m, names.
      split; [apply in_map_iff; exists i; auto | auto].
  Qed.

  Lemma feat_meta p ty m names : skipped skip (part_of_i p) = false ->
    lookup_gc ty (k_feat d p) = Some (m, names) ->
    first_some (map (fun i => option_map fst (lookup_gc ty (k_feat (fst i) p))) ins) = Some m /\ NoDup names /\
    forall i v, In i ins -> lookup_gc ty (k_feat (fst i) p) = Some v -> fst v = m.
  Proof.
    intros S L. pose proof (feat_inv p) as E. rewrite S in E.
    destruct (gc_meta _ _ _ _ E ty m names L) as (A & B & C). unfold fcs in A. rewrite map_map in A. cbn in A.
    split; [exact A|]. split; [exact B|]. intros i v II LE. apply (C (k_feat (fst i) p, s_feat (snd i) p) v); [|exact LE].
    apply in_map_iff. exists i. auto.
  Qed.

  Lemma feat_type_absent p ty : skipped skip (part_of_i p) = false ->
    (lookup_gc ty (k_feat d p) = None <-> forall i, In i ins -> lookup_gc ty (k_feat (fst i) p) = None).
  Proof.
    intros S. pose proof (feat_inv p) as E. rewrite S in E. rewrite (gc_type_absent _ _ _ _ E). split.
    - intros A i II. apply (A (k_feat (fst i) p, s_feat (snd i) p)). apply in_map_iff. exists i. auto.
    - intros A e IE. apply in_map_iff in IE. destruct IE as [i [<- II]]. apply A. assumption.
  Qed.

  Lemma feat_none p : skipped skip (part_of_i p) = false ->
    (k_feat d p = None <-> forall ty i, In i ins -> lookup_gc ty (k_feat (fst i) p) = None).
  Proof.
    intros S. pose proof (feat_inv p) as E. rewrite S in E. rewrite (gc_none _ _ _ _ E). split.
    - intros A ty i II. apply (A ty (k_feat (fst i) p, s_feat (snd i) p)). apply in_map_iff. exists i. auto.
    - intros A ty e IE. apply in_map_iff in IE. destruct IE as [i [<- II]]. apply A. assumption.
  Qed.

  Definition feat_owner (p : ipart) (ty n : string) : option (option tok) := cs_owner ty n (fcs p).

  Lemma feat_files p ty n : skipped skip (part_of_i p) = false -> ho = true ->
    feat_owner p ty n <> Some None /\
    lookup (ty, n) (o_feat f p) = match feat_owner p ty n with Some c => c | None => None end.
  Proof. intros S HO. pose proof (feat_inv p) as E. rewrite S, HO in E. exact (gc_files_copy _ _ _ _ E ty n eq_refl). Qed.

  Lemma feat_files_nocopy p : ho = false -> o_feat f p = [].
  Proof.
    intros HO. pose proof (feat_inv p) as E. rewrite HO in E. destruct (skipped skip (part_of_i p)).
    - cbn in E. congruence.
    - exact (gc_files_nocopy _ _ _ _ E eq_refl).
  Qed.

  (* ---- matches *)
  Lemma matches_skipped : skipped skip PMatches = true -> k_matches d = None /\ o_match f = [].
  Proof.
    intros S. destruct match_inv as [cm [E K]]. rewrite S in E. cbn in E. injection E as <- <-. rewrite K. auto.
  Qed.

  Lemma matches_members ty pr : skipped skip PMatches = false ->
    ((exists prs, lookup_o ty (k_matches d) = Some prs /\ In pr prs) <->
     (exists i prs, In i ins /\ lookup_o ty (k_matches (fst i)) = Some prs /\ In pr prs)).
  Proof.
    intros S. destruct match_inv as [cm [E K]]. rewrite S in E. rewrite K, lookup_g_to_mc.
    pose proof (gc_members _ _ _ _ E ty pr) as G. split.
    - intros [prs [L I]]. destruct (lookup_gc ty cm) as [[m prs']|] eqn:LC; [|discriminate]. cbn in L. injection L as ->.
      destruct (proj1 G) as [e [m' [prs' (IE & LE & IN)]]]; [exists m, prs; auto|].
      apply in_map_iff in IE. destruct IE as [i [<- II]]. cbn in LE. rewrite lookup_mc_to_g in LE.
      destruct (lookup_o ty (k_matches (fst i))) as [q|] eqn:LQ; [|discriminate]. cbn in LE. injection LE as <- <-.
      exists i, q. auto.
    - intros [i [prs (II & LE & IN)]].
      destruct (proj2 G) as [m [names [L I]]].
      { exists (option_map mc_to_g (k_matches (fst i)), s_match (snd i)), ""%string, prs.
        split; [apply in_map_iff; exists i; auto|]. cbn. rewrite lookup_mc_to_g, LE. auto. }
      exists names. rewrite L. auto.
  Qed.

  Lemma matches_type_absent ty : skipped skip PMatches = false ->
    (lookup_o ty (k_matches d) = None <-> forall i, In i ins -> lookup_o ty (k_matches (fst i)) = None).
  Proof.
    intros S. destruct match_inv as [cm [E K]]. rewrite S in E. rewrite K, lookup_g_to_mc.
    pose proof (gc_type_absent _ _ _ _ E ty) as G. split.
    - intros L i II. assert (LC : lookup_gc ty cm = None) by (destruct (lookup_gc ty cm); [discriminate | reflexivity]).
      pose proof (proj1 G LC (option_map mc_to_g (k_matches (fst i)), s_match (snd i))) as A. cbn in A.
      rewrite lookup_mc_to_g in A. destruct (lookup_o ty (k_matches (fst i))); [|reflexivity].
      exfalso. assert (T : Some (""%string, l) = None); [|discriminate]. apply A. apply in_map_iff. exists i. auto.
    - intros A. rewrite (proj2 G); [reflexivity|]. intros e IE. apply in_map_iff in IE. destruct IE as [i [<- II]].
      cbn. rewrite lookup_mc_to_g, (A i II). reflexivity.
  Qed.

  Lemma matches_none : skipped skip PMatches = false ->
    (k_matches d = None <-> forall ty i, In i ins -> lookup_o ty (k_matches (fst i)) = None).
  Proof.
    intros S. destruct match_inv as [cm [E K]]. rewrite S in E. rewrite K.
    pose proof (gc_none _ _ _ _ E) as G. split.
    - intros L ty i II. assert (LC : cm = None) by (destruct cm; [discriminate | reflexivity]).
      pose proof (proj1 G LC ty (option_map mc_to_g (k_matches (fst i)), s_match (snd i))) as A. cbn in A.
      rewrite lookup_mc_to_g in A. destruct (lookup_o ty (k_matches (fst i))); [|reflexivity].
      exfalso. assert (T : Some (""%string, l) = None); [|discriminate]. apply A. apply in_map_iff. exists i. auto.
    - intros A. rewrite (proj2 G); [reflexivity|]. intros ty e IE. apply in_map_iff in IE. destruct IE as [i [<- II]].
      cbn. rewrite lookup_mc_to_g, (A ty i II). reflexivity.
  Qed.

  (* content of the matches file of pair [pr] in the earliest input whose matches of type [ty] contain [pr] *)
  Definition match_owner (ty : string) (pr : string * string) : option (option tok) :=
    first_some (map (fun i : input => match lookup_o ty (k_matches (fst i)) with
                                      | Some prs => if memb pr prs then Some (lookup (ty, pr) (s_match (snd i))) else None
                                      | None => None end) ins).

  Lemma match_owner_cs ty pr : cs_owner ty pr mcs = match_owner ty pr.
  Proof.
    unfold cs_owner, match_owner, mcs. rewrite map_map. f_equal. apply map_ext. intros i. cbn [fst snd].
    rewrite lookup_mc_to_g. destruct (lookup_o ty (k_matches (fst i))); reflexivity.
  Qed.

  Lemma matches_files ty pr : skipped skip PMatches = false -> ho = true ->
    match_owner ty pr <> Some None /\
    lookup (ty, pr) (o_match f) = match match_owner ty pr with Some c => c | None => None end.
  Proof.
    intros S HO. destruct match_inv as [cm [E K]]. rewrite S, HO in E. rewrite <- match_owner_cs.
    exact (gc_files_copy _ _ _ _ E ty pr eq_refl).
  Qed.

  Lemma matches_files_nocopy : ho = false -> o_match f = [].
  Proof.
    intros HO. destruct match_inv as [cm [E K]]. rewrite HO in E. destruct (skipped skip PMatches).
    - cbn in E. congruence.
    - exact (gc_files_nocopy _ _ _ _ E eq_refl).
  Qed.
End TopFeat.

(* ------------------------------------------------------------------ when the merge succeeds *)
Section OkP.
  Context {N : Type} `{EqDec N}.
  Notation holder := (tok * list N * @gstore N)%type.
  Implicit Types (cs : list (option (@gcoll N) * @gstore N)).

  Lemma merge_feat1_ok copy ty m0 (l : list holder) : forall acc out,
    Forall (fun h => hmeta h = m0) l ->
    (copy = true -> forall n, memb n acc = false -> owner ty n l <> Some None) ->
    exists r, merge_feat1 copy ty m0 acc out l = Ok r.
  Proof.
    induction l as [|[[m mem] src] l IH]; intros acc out F P; cbn [merge_feat1]; [eexists; reflexivity|].
    pose proof (Forall_inv F) as HM. pose proof (Forall_inv_tail F) as F'. cbn in HM. subst m. rewrite eqb_refl. cbn [negb].
    set (fresh := add_set [] (List.filter (fun x => negb (memb x acc)) mem)).
    assert (MF : forall n, memb n fresh = memb n mem && negb (memb n acc)) by (intros n; apply memb_fresh).
    assert (FB : copy = true ->
                 forallb (fun kv : N * option tok => is_some (snd kv)) (map (fun x => (x, lookup (ty, x) src)) fresh) = true).
    { intros C. apply forallb_forall. intros [x c] I. apply in_map_iff in I. destruct I as [x' [[= -> <-] I]].
      apply memb_In in I. rewrite MF in I. apply andb_true_iff in I. destruct I as [IM IA]. apply negb_true_iff in IA.
      specialize (P C x IA). unfold owner in P. cbn [map first_some hmem hsrc fst snd] in P. rewrite IM in P.
      cbn. destruct (lookup (ty, x) src); [reflexivity | congruence]. }
    destruct copy.
    - rewrite (FB eq_refl). cbn [andb negb]. apply IH; [assumption|]. intros _ n NA.
      rewrite memb_app, MF in NA. apply orb_false_iff in NA. destruct NA as [NA NM]. rewrite NA in NM.
      cbn in NM. rewrite andb_true_r in NM. specialize (P eq_refl n NA). unfold owner in P.
      cbn [map first_some hmem hsrc fst snd] in P. rewrite NM in P. exact P.
    - cbn [andb]. apply IH; [assumption | discriminate].
  Qed.

  Definition meta_agree (ty : string) cs : Prop :=
    forall e1 e2 v1 v2, In e1 cs -> In e2 cs -> lookup_gc ty (fst e1) = Some v1 -> lookup_gc ty (fst e2) = Some v2 ->
                        fst v1 = fst v2.

  Lemma meta_agree_holders ty cs h hs : meta_agree ty cs -> holders ty cs = h :: hs ->
    Forall (fun h' => hmeta h' = hmeta h) (h :: hs).
  Proof.
    intros MA HO. apply Forall_forall. intros h' I. rewrite <- HO in I.
    assert (I0 : In h (holders ty cs)) by (rewrite HO; left; reflexivity).
    apply In_holders_iff in I. apply In_holders_iff in I0.
    destruct I as [e (IE & LE & _)]. destruct I0 as [e0 (IE0 & LE0 & _)].
    exact (MA e e0 _ _ IE IE0 LE LE0).
  Qed.

  Lemma merge_types_ok copy cs : forall tys accc out,
    (forall ty, In ty tys -> holders ty cs <> []) ->
    (forall ty, meta_agree ty cs) ->
    (copy = true -> forall ty n, cs_owner ty n cs <> Some None) ->
    exists r, merge_types copy cs tys accc out = Ok r.
  Proof.
    induction tys as [|ty tys IH]; intros accc out NE MA FP; cbn [merge_types]; [eexists; reflexivity|].
    destruct (holders ty cs) as [|[[m0 mem0] src0] hs] eqn:HO; [exfalso; apply (NE ty); [left; reflexivity | exact HO]|].
    destruct (merge_feat1_ok copy ty m0 ((m0, mem0, src0) :: hs) [] out) as [[names out1] E].
    - exact (meta_agree_holders ty cs _ _ (MA ty) HO).
    - intros C n _. rewrite <- HO, owner_holders. apply FP. assumption.
    - rewrite E. apply IH; auto. intros t I. apply NE. right. assumption.
  Qed.

  Lemma merge_gcoll_ok skp copy cs :
    (forall ty, meta_agree ty cs) ->
    (copy = true -> forall ty n, cs_owner ty n cs <> Some None) ->
    exists r, merge_gcoll skp copy cs = Ok r.
  Proof.
    intros MA FP. unfold merge_gcoll. destruct skp; [eexists; reflexivity|].
    destruct (somes (map fst cs)) as [|c0 colls] eqn:SO; [eexists; reflexivity|]. rewrite <- SO.
    destruct (merge_types_ok copy cs (merge_set (map keys (somes (map fst cs)))) [] []) as [[c o] E]; auto.
    - intros ty I. apply In_union_types. assumption.
    - rewrite E. eexists; reflexivity.
  Qed.

  (* and only then: a successful merge implies agreement and presence (see gc_meta, gc_files_copy) *)
  Lemma merge_gcoll_ok_only copy cs r :
    merge_gcoll false copy cs = Ok r ->
    (forall ty, meta_agree ty cs) /\ (copy = true -> forall ty n, cs_owner ty n cs <> Some None).
  Proof.
    destruct r as [oc out]. intros E. split.
    - intros ty e1 e2 v1 v2 I1 I2 L1 L2.
      destruct (lookup_gc ty oc) as [[m names]|] eqn:L.
      + destruct (gc_meta _ _ _ _ E ty m names L) as (_ & _ & A). rewrite (A e1 v1 I1 L1), (A e2 v2 I2 L2). reflexivity.
      + rewrite (proj1 (gc_type_absent _ _ _ _ E ty) L e1 I1) in L1. discriminate.
    - intros C ty n. exact (proj1 (gc_files_copy _ _ _ _ E ty n C)).
  Qed.
End OkP.

Lemma transfer_ok st per out :
  st = SSkip \/ ((st = SCopy \/ st = SMove) /\ forall n, lister_content n per <> Some None) ->
  exists out', transfer st per out = Ok out'.
Proof.
  intros [->|[S P]]; [eexists; reflexivity|]. unfold transfer.
  assert (F : forallb (fun kv : string * option tok => is_some (snd kv))
                      (merge_tab (map (fun e => rec_entries (fst e) (snd e)) per)) = true).
  { apply forallb_forall. intros [n c] I. cbn. apply (lookup_In n c _ (wf_merge_tab _)) in I.
    rewrite lookup_firsts in I. destruct c; [reflexivity|]. exfalso. exact (P n I). }
  destruct S as [-> | ->]; rewrite F; eexists; reflexivity.
Qed.

Lemma mcs_meta_agree ins ty : meta_agree ty (mcs ins).
Proof.
  intros e1 e2 v1 v2 I1 I2 L1 L2. unfold mcs in *. apply in_map_iff in I1, I2.
  destruct I1 as [i1 [<- _]]. destruct I2 as [i2 [<- _]]. cbn in L1, L2. rewrite lookup_mc_to_g in L1, L2.
  destruct (lookup_o ty (k_matches (fst i1))); [|discriminate]. destruct (lookup_o ty (k_matches (fst i2))); [|discriminate].
  cbn in *. injection L1 as <-. injection L2 as <-. reflexivity.
Qed.

(* The merge returns normally for every non-empty list of inputs as soon as
   - the strategy is skip, or copy / move with every listed record file present in the folder of the earliest
     input that lists it,
   - inputs that hold the same feature type agree on its metadata (kinds that are not skipped),
   - when an output directory is given, the feature / matches file of every member exists in its earliest holder. *)
Theorem merge_keep_ok skip st ho ins :
  ins <> [] ->
  (st = SSkip \/ ((st = SCopy \/ st = SMove) /\ forall r n, kind_content skip ins r n <> Some None)) ->
  (forall p ty, skipped skip (part_of_i p) = false -> meta_agree ty (fcs ins p)) ->
  (ho = true -> forall p ty n, skipped skip (part_of_i p) = false -> cs_owner ty n (fcs ins p) <> Some None) ->
  (ho = true -> skipped skip PMatches = false -> forall ty pr, match_owner ins ty pr <> Some None) ->
  exists r, merge_keep skip st ho ins = Ok r.
Proof.
  intros NE ST MA FP MP. unfold merge_keep, merge_keep_gen. destruct ins as [|i0 ins0]; [congruence|]. set (ins := i0 :: ins0) in *.
  assert (TK : forall r out, exists out', transfer_kind true skip st ins r out = Ok out').
  { intros r out. unfold transfer_kind. destruct (skipped skip (part_of_r r)) eqn:SK; [eexists; reflexivity|].
    assert (X : exists out', transfer st (listers r ins) out = Ok out').
    { apply transfer_ok. destruct ST as [->|[S P]]; [left; reflexivity|]. right. split; [assumption|].
      intros n. specialize (P r n). unfold kind_content in P. rewrite SK in P. exact P. }
    destruct r; exact X. }
  destruct (TK RCam []) as [f1 ->]. destruct (TK RDepth f1) as [f2 ->]. destruct (TK RLidar f2) as [f3 ->].
  assert (FK : forall p, exists r, merge_gcoll (skipped skip (part_of_i p)) ho (fcs ins p) = Ok r).
  { intros p. destruct (skipped skip (part_of_i p)) eqn:SK; [eexists; reflexivity|].
    apply merge_gcoll_ok; [intros ty; apply MA; assumption|]. intros HO ty n. apply FP; assumption. }
  destruct (FK IKp) as [[ckp fkp] E1]. destruct (FK IDesc) as [[cde fde] E2]. destruct (FK IGf) as [[cgf fgf] E3].
  unfold fcs, input in E1, E2, E3. cbv beta zeta. cbn [part_of_i] in *. rewrite E1, E2, E3.
  assert (MK : exists r, merge_gcoll (skipped skip PMatches) ho (mcs ins) = Ok r).
  { destruct (skipped skip PMatches) eqn:SK; [eexists; reflexivity|].
    apply merge_gcoll_ok; [intros ty; apply mcs_meta_agree|]. intros HO ty pr. rewrite match_owner_cs. apply MP; auto. }
  destruct MK as [[cm fm] E4]. unfold mcs, input in E4. rewrite E4. eexists; reflexivity.
Qed.

(* ------------------------------------------------------------------ every merged record has its file *)
Section RecFiles.
  Variables (skip : list part) (st : strategy) (ho : bool) (ins : list input) (d : kdata) (f : ostore).
  Hypothesis OK : merge_keep skip st ho ins = Ok (d, f).

  Lemma rec_name_listed r k name : skipped skip (part_of_r r) = false ->
    lookup_o k (k_rec d r) = Some name -> exists i, In i ins /\ In name (rec_names (k_rec (fst i) r)).
  Proof.
    intros S L. rewrite (rec_first_wins _ _ _ _ _ _ OK r k S) in L. apply first_some_In in L.
    apply in_map_iff in L. destruct L as [i [L I]]. exists i. split; [assumption|].
    destruct (k_rec (fst i) r) as [m|]; [|discriminate]. cbn in *. apply lookup_Some_In in L.
    apply in_map_iff. exists (k, name). auto.
  Qed.

  Lemma lister_content_listed r i n : In i ins -> In n (rec_names (k_rec (fst i) r)) ->
    lister_content n (listers r ins) <> None.
  Proof.
    intros I IN E. unfold lister_content in E. rewrite first_some_None in E.
    specialize (E (Some (lookup n (s_rec (snd i))))). assert (X : Some (lookup n (s_rec (snd i))) = None); [|discriminate].
    apply E. apply in_map_iff. exists (rec_names (k_rec (fst i) r), s_rec (snd i)). cbn [fst snd].
    apply memb_In in IN. rewrite IN. split; [reflexivity|]. unfold listers. apply in_map_iff. exists i. auto.
  Qed.

  Theorem merged_record_has_file r k name :
    transfers st = true -> skipped skip (part_of_r r) = false ->
    lookup_o k (k_rec d r) = Some name ->
    (forall r', r' <> r -> kind_content skip ins r' name = None) ->
    exists c, lister_content name (listers r ins) = Some c /\ lookup name (o_rec f) = Some c /\
              ((st = SCopy \/ st = SMove) -> c <> None).
  Proof.
    intros T S L D. destruct (rec_name_listed r k name S L) as [i [I IN]].
    pose proof (lister_content_listed r i name I IN) as NE.
    destruct (lister_content name (listers r ins)) as [c|] eqn:LC; [|congruence]. exists c.
    assert (KC : kind_content skip ins r name = Some c) by (unfold kind_content; rewrite S; exact LC).
    split; [reflexivity|]. split.
    - rewrite (rec_files_exact _ _ _ _ _ _ OK name T).
      destruct r.
      + rewrite (D RLidar), (D RDepth), KC by discriminate. reflexivity.
      + rewrite (D RLidar), KC by discriminate. reflexivity.
      + rewrite KC. reflexivity.
    - intros SC. exact (rec_copy_has_content _ _ _ _ _ _ OK r name c SC KC).
  Qed.

  Theorem no_foreign_record_file n c : lookup n (o_rec f) = Some c ->
    exists r, skipped skip (part_of_r r) = false /\ lister_content n (listers r ins) = Some c.
  Proof.
    intros L. destruct (transfers st) eqn:T.
    - rewrite (rec_files_exact _ _ _ _ _ _ OK n T) in L.
      assert (P : forall (a b : option (option tok)), pick a b = Some c -> a = Some c \/ b = Some c)
        by (intros [x|] b E; cbn in E; auto).
      assert (K : forall r, kind_content skip ins r n = Some c ->
                  exists r, skipped skip (part_of_r r) = false /\ lister_content n (listers r ins) = Some c).
      { intros r E. unfold kind_content in E. exists r. destruct (skipped skip (part_of_r r)); [discriminate | auto]. }
      apply P in L. destruct L as [L|L]; [exact (K _ L)|].
      apply P in L. destruct L as [L|L]; [exact (K _ L)|].
      apply P in L. destruct L as [L|L]; [exact (K _ L) | discriminate].
    - rewrite (rec_files_none _ _ _ _ _ _ OK T) in L. discriminate.
  Qed.
End RecFiles.

(* ------------------------------------------------------------------ key sets *)
Lemma first_wins_keys {I K V} `{EqDec K} (ins : list I) (g : I -> option (al K V)) (out : option (al K V)) :
  (forall k, lookup_o k out = first_some (map (fun i => lookup_o k (g i)) ins)) ->
  forall k, In k (keys_o out) <-> exists i, In i ins /\ In k (keys_o (g i)).
Proof.
  intros FW k. rewrite <- lookup_o_In_keys, FW. split.
  - intros NE. destruct (first_some (map (fun i => lookup_o k (g i)) ins)) as [v|] eqn:E; [|congruence].
    apply first_some_In in E. apply in_map_iff in E. destruct E as [i [E II]]. exists i. split; [assumption|].
    apply lookup_o_In_keys. congruence.
  - intros [i [II IK]] E. rewrite first_some_None in E. apply lookup_o_In_keys in IK. apply IK.
    apply E. apply in_map_iff. exists i. auto.
Qed.

Lemma merged_tables_wf skip st ho ins d f : merge_keep skip st ho ins = Ok (d, f) ->
  NoDup (keys_o (k_sensors d)) /\ NoDup (keys_o (k_rigs d)) /\
  (forall p, NoDup (keys_o (k_tab d p))) /\ (forall p, NoDup (keys_o (k_rec d p))).
Proof.
  intros OK. destruct (proj2 (merge_keep_gen_inv _ _ _ _ _ _ _ _ OK))
    as (f1 & f2 & f3 & ckp & fkp & cde & fde & cgf & fgf & cm & fm & _ & _ & _ & _ & _ & _ & _ & ED & _).
  subst d. cbn [k_sensors k_rigs k_tab k_rec]. repeat split.
  - apply merge_part_wf.
  - exact (merge_part_wf (map k_rigs (map fst ins))).
  - intros p. destruct (skipped skip (part_of_t p)); [constructor | apply merge_part_wf].
  - intros p. destruct (skipped skip (part_of_r p)); [constructor | apply merge_part_wf].
Qed.

(* ------------------------------------------------------------------ nested rigs: only the pair matters *)
Lemma rigs_entry_absent_iff skip st ho ins d f : merge_keep skip st ho ins = Ok (d, f) ->
  forall r m, lookup_o (r, m) (k_rigs d) = None <-> forall i, In i ins -> lookup_o (r, m) (k_rigs (fst i)) = None.
Proof.
  intros OK r m. rewrite (rigs_first_wins _ _ _ _ _ _ OK), first_some_None. split.
  - intros E i I. apply E. apply in_map_iff. exists i. auto.
  - intros E x I. apply in_map_iff in I. destruct I as [i [<- I]]. apply E. assumption.
Qed.
