(* Proofs/PMergeKeepPts.v — lemmas about Model/MMergeKeepPts.v (property C09: 3-D points and observations in
   merge_keep_ids).  Main result: [pdriver_spec], the block equals a closed-form specification. *)
From Coq Require Import List Bool String ZArith Lia.
From KV Require Import Eqb AL Str.
From KV.Model Require Import MMergeKeep MMergeKeepPts.
Import ListNotations.
Local Open Scope Z_scope.

Lemma isnil_true {A} (l : list A) : isnil l = true <-> l = [].
Proof. destruct l; cbn; split; congruence. Qed.
Lemma isnil_false {A} (l : list A) : isnil l = false <-> l <> [].
Proof. destruct l; cbn; split; congruence. Qed.

Definition wd (acc : option cloud) : Z := width (finish acc).

(* ------------------------------------------------------------------ one step *)
Lemma append_rows acc c m : append_points acc c = POk m -> rows m = rows_of acc ++ rows c.
Proof.
  unfold append_points. destruct acc as [a|]; cbn [rows_of].
  - destruct (isnil (rows a)) eqn:Ea, (isnil (rows c)) eqn:Ec; cbn.
    + intros H; inversion H; subst. apply isnil_true in Ec. rewrite Ec, app_nil_r. reflexivity.
    + intros H; inversion H; subst. apply isnil_true in Ea. rewrite Ea. reflexivity.
    + intros H; inversion H; subst. apply isnil_true in Ec. rewrite Ec, app_nil_r. reflexivity.
    + destruct (width a =? width c); cbn; intros H; inversion H; subst; reflexivity.
  - intros H; inversion H; subst. reflexivity.
Qed.

Lemma append_width acc c m : append_points acc c = POk m ->
  (rows c <> [] -> width m = width c) /\ (rows_of acc <> [] -> width m = wd acc).
Proof.
  unfold append_points, wd. destruct acc as [a|]; cbn [rows_of finish].
  - destruct (isnil (rows a)) eqn:Ea, (isnil (rows c)) eqn:Ec; cbn.
    + intros H; inversion H; subst. apply isnil_true in Ec. split; intros; congruence.
    + intros H; inversion H; subst. apply isnil_true in Ea. split; intros; congruence.
    + intros H; inversion H; subst. apply isnil_true in Ec. split; intros; congruence.
    + destruct (width a =? width c) eqn:Ew; cbn; intros H; inversion H; subst; cbn.
      apply Z.eqb_eq in Ew. split; intros; congruence.
  - intros H; inversion H; subst. split; intros; congruence.
Qed.

Lemma append_ok acc c w :
  (rows c <> [] -> width c = w) -> (rows_of acc <> [] -> wd acc = w) -> exists m, append_points acc c = POk m.
Proof.
  unfold append_points, wd. destruct acc as [a|]; cbn [rows_of finish]; [|eauto].
  intros Hc Ha.
  destruct (isnil (rows a)) eqn:Ea, (isnil (rows c)) eqn:Ec; cbn; eauto.
  apply isnil_false in Ea, Ec. rewrite (Ha Ea), (Hc Ec), Z.eqb_refl. cbn. eauto.
Qed.

(* ------------------------------------------------------------------ points alone *)
Lemma all_rows_cons x rest :
  all_rows (x :: rest) = (match fst x with Some c => rows c | None => [] end) ++ all_rows rest.
Proof. reflexivity. Qed.
Lemma nonempty_cons x rest :
  nonempty_clouds (x :: rest)
  = (match fst x with Some c => if isnil (rows c) then [] else [c] | None => [] end) ++ nonempty_clouds rest.
Proof. reflexivity. Qed.

Lemma p_rows ins : forall acc a,
  merge_p_from append_points acc (map fst ins) = POk a -> rows_of a = rows_of acc ++ all_rows ins.
Proof.
  induction ins as [|[[c|] oo] rest IH]; intros acc a H; cbn [map fst merge_p_from] in H.
  - inversion H; subst. cbn. rewrite app_nil_r. reflexivity.
  - destruct (append_points acc c) eqn:E; [|discriminate].
    apply IH in H. rewrite H. cbn [rows_of]. rewrite (append_rows _ _ _ E), all_rows_cons. cbn [fst].
    rewrite app_assoc. reflexivity.
  - rewrite all_rows_cons. cbn [fst app]. apply IH; exact H.
Qed.

Lemma p_width ins : forall acc a,
  merge_p_from append_points acc (map fst ins) = POk a ->
  (forall c, In c (nonempty_clouds ins) -> width c = wd a) /\ (rows_of acc <> [] -> wd acc = wd a).
Proof.
  induction ins as [|[[c|] oo] rest IH]; intros acc a H; cbn [map fst merge_p_from] in H.
  - inversion H; subst. split; [intros c []|reflexivity].
  - destruct (append_points acc c) as [m|] eqn:E; [|discriminate].
    destruct (IH _ _ H) as [I1 I2]. cbn [rows_of] in I2. unfold wd at 1 in I2. cbn [finish] in I2.
    destruct (append_width _ _ _ E) as [W1 W2]. pose proof (append_rows _ _ _ E) as R.
    split.
    + intros c'. rewrite nonempty_cons. cbn [fst]. intros Hin. apply in_app_or in Hin. destruct Hin as [Hin|Hin]; [|auto].
      destruct (isnil (rows c)) eqn:Ec; [destruct Hin|]. destruct Hin as [<-|[]].
      apply isnil_false in Ec. rewrite <- (W1 Ec). apply I2. rewrite R. intros Hn. apply app_eq_nil in Hn. tauto.
    + intros Ha. rewrite <- (W2 Ha). apply I2. rewrite R. intros Hn. apply app_eq_nil in Hn. tauto.
  - rewrite nonempty_cons. cbn [fst app]. apply IH; exact H.
Qed.

Lemma p_ok ins w : forall acc,
  (forall c, In c (nonempty_clouds ins) -> width c = w) -> (rows_of acc <> [] -> wd acc = w) ->
  exists a, merge_p_from append_points acc (map fst ins) = POk a.
Proof.
  induction ins as [|[[c|] oo] rest IH]; intros acc Hall Hacc; cbn [map fst merge_p_from].
  - eauto.
  - rewrite nonempty_cons in Hall. cbn [fst] in Hall.
    assert (Hc : rows c <> [] -> width c = w).
    { intros Hn. apply Hall. apply in_or_app. left. apply isnil_false in Hn. rewrite Hn. left. reflexivity. }
    destruct (append_ok acc c w Hc Hacc) as [m E]. rewrite E.
    apply IH.
    + intros c' Hin. apply Hall. apply in_or_app. right. exact Hin.
    + cbn [rows_of]. unfold wd. cbn [finish]. intros Hm.
      destruct (append_width _ _ _ E) as [W1 W2]. rewrite (append_rows _ _ _ E) in Hm.
      destruct (rows c) eqn:Rc.
      * rewrite app_nil_r in Hm. rewrite (W2 Hm). auto.
      * rewrite W1 by congruence. apply Hc. congruence.
  - rewrite nonempty_cons in Hall. cbn [fst app] in Hall. apply IH; assumption.
Qed.

(* ------------------------------------------------------------------ points with observations *)
Lemma npoints_append acc c m : append_points acc c = POk m ->
  npoints (Some m) = npoints acc + Z.of_nat (List.length (rows c)).
Proof.
  intros E. unfold npoints. cbn [rows_of]. rewrite (append_rows _ _ _ E), app_length. lia.
Qed.

Lemma po_split ins : forall acc mo,
  merge_po_from append_points acc mo ins
  = match merge_p_from append_points acc (map fst ins) with
    | POk a => POk (a, mo ++ spec_obs (npoints acc) ins)
    | PErrShape => PErrShape
    end.
Proof.
  induction ins as [|[[c|] oo] rest IH]; intros acc mo; cbn [map fst merge_p_from merge_po_from spec_obs].
  - rewrite app_nil_r. reflexivity.
  - destruct (append_points acc c) as [m|] eqn:E; [|reflexivity].
    rewrite IH. destruct (merge_p_from append_points (Some m) (map fst rest)); [|reflexivity].
    rewrite (npoints_append _ _ _ E). unfold count_in. cbn [fst].
    destruct oo; rewrite <- ?app_assoc; reflexivity.
  - rewrite IH. unfold count_in. cbn [fst]. rewrite Z.add_0_r. reflexivity.
Qed.

(* ------------------------------------------------------------------ closed form of the whole block *)
Definition spec_points (ins : list pinput) : presult (option cloud) :=
  match nonempty_clouds ins with
  | [] => POk None
  | c0 :: cs => if forallb (fun c => width c =? width c0) cs
                then POk (Some (mkCloud (width c0) (all_rows ins))) else PErrShape
  end.
Definition spec_driver (skip_points skip_obs : bool) (ins : list pinput) : presult (option cloud * option olist) :=
  if skip_points then POk (None, None) else
  match spec_points ins with
  | POk pc => POk (pc, if skip_obs then None else some_if_obs (spec_obs 0 ins))
  | PErrShape => PErrShape
  end.

Lemma nonempty_rows ins c : In c (nonempty_clouds ins) -> rows c <> [].
Proof.
  induction ins as [|[[c'|] oo] rest IH]; cbn [nonempty_clouds flat_map fst]; [intros []| |auto].
  intros Hin. apply in_app_or in Hin. destruct Hin as [Hin|Hin]; [|auto].
  destruct (isnil (rows c')) eqn:E; [destruct Hin|]. destruct Hin as [<-|[]]. apply isnil_false; exact E.
Qed.

Lemma all_rows_nonempty ins : all_rows ins = flat_map rows (nonempty_clouds ins).
Proof.
  induction ins as [|[[c|] oo] rest IH]; [reflexivity| |exact IH].
  rewrite all_rows_cons, nonempty_cons, flat_map_app, IH. cbn [fst]. f_equal.
  destruct (isnil (rows c)) eqn:E; cbn; [apply isnil_true in E; exact E|rewrite app_nil_r; reflexivity].
Qed.

Lemma points_spec ins :
  match merge_p_from append_points None (map fst ins) with
  | POk a => POk (some_if_rows (finish a))
  | PErrShape => PErrShape
  end = spec_points ins.
Proof.
  unfold spec_points.
  destruct (merge_p_from append_points None (map fst ins)) as [a|] eqn:P.
  - pose proof (p_rows _ _ _ P) as R. cbn [rows_of app] in R.
    destruct (p_width _ _ _ P) as [W _].
    destruct (nonempty_clouds ins) as [|c0 cs] eqn:N.
    + rewrite all_rows_nonempty, N in R. cbn in R.
      destruct a as [m|]; cbn [finish rows_of] in *; unfold some_if_rows; [rewrite R|]; reflexivity.
    + assert (F : forallb (fun c => width c =? width c0) cs = true).
      { apply forallb_forall. intros c Hc. apply Z.eqb_eq. rewrite (W c), (W c0); [reflexivity|left; reflexivity|right; exact Hc]. }
      rewrite F.
      assert (Hne : all_rows ins <> []).
      { rewrite all_rows_nonempty, N. cbn. intros Hn. apply app_eq_nil in Hn.
        apply (nonempty_rows ins c0); [rewrite N; left; reflexivity|tauto]. }
      destruct a as [m|]; cbn [rows_of] in R; [|congruence].
      cbn [finish]. unfold some_if_rows. rewrite R.
      destruct (isnil (all_rows ins)) eqn:E; [apply isnil_true in E; congruence|].
      f_equal. f_equal. destruct m as [wm rm]. cbn in *. subst rm. f_equal.
      symmetry. apply (W c0). left. reflexivity.
  - destruct (nonempty_clouds ins) as [|c0 cs] eqn:N.
    + destruct (p_ok ins 0 None) as [a Ha]; [rewrite N; intros c []|cbn; congruence|congruence].
    + destruct (forallb (fun c => width c =? width c0) cs) eqn:F; [|reflexivity].
      destruct (p_ok ins (width c0) None) as [a Ha]; [|cbn; congruence|congruence].
      rewrite N. intros c [<-|Hc]; [reflexivity|].
      rewrite forallb_forall in F. apply Z.eqb_eq. apply F. exact Hc.
Qed.

Lemma pdriver_spec sp so ins : pdriver sp so ins = spec_driver sp so ins.
Proof.
  unfold pdriver, pdriver_gen, spec_driver. destruct sp; cbn [negb andb]; [reflexivity|].
  rewrite <- points_spec. destruct so; cbn [negb].
  - destruct (merge_p_from append_points None (map fst ins)); reflexivity.
  - rewrite po_split. destruct (merge_p_from append_points None (map fst ins)); reflexivity.
Qed.

(* ------------------------------------------------------------------ consequences *)
Lemma spec_inv_empty w l1 l2 :
  nonempty_clouds (l1 ++ empty_input w :: l2) = nonempty_clouds (l1 ++ l2)
  /\ all_rows (l1 ++ empty_input w :: l2) = all_rows (l1 ++ l2)
  /\ forall off, spec_obs off (l1 ++ empty_input w :: l2) = spec_obs off (l1 ++ l2).
Proof.
  unfold nonempty_clouds, all_rows. rewrite !flat_map_app. cbn. repeat split.
  induction l1 as [|x l1 IH]; intros off; cbn [app spec_obs].
  - unfold count_in, empty_input. cbn. rewrite Z.add_0_r. reflexivity.
  - rewrite IH. reflexivity.
Qed.

Lemma empty_contributes_nothing sp so w l1 l2 :
  pdriver sp so (l1 ++ empty_input w :: l2) = pdriver sp so (l1 ++ l2).
Proof.
  rewrite !pdriver_spec. unfold spec_driver, spec_points.
  destruct (spec_inv_empty w l1 l2) as (-> & -> & ->). reflexivity.
Qed.

(* the shortcut matters: without it an empty cloud of the other column count makes the merge raise *)
Lemma strict_refuted :
  pdriver_strict false false [(Some (mkCloud 3 ["a"%string]), None); empty_input 6] = PErrShape
  /\ pdriver false false [(Some (mkCloud 3 ["a"%string]), None); empty_input 6]
     = POk (Some (mkCloud 3 ["a"%string]), None).
Proof. vm_compute. split; reflexivity. Qed.

Lemma ok_iff so ins :
  (exists r, pdriver false so ins = POk r) <-> exists w, forall c, In c (nonempty_clouds ins) -> width c = w.
Proof.
  rewrite pdriver_spec. unfold spec_driver, spec_points. split.
  - intros [r H]. destruct (nonempty_clouds ins) as [|c0 cs]; [exists 0; intros c []|].
    destruct (forallb (fun c => width c =? width c0) cs) eqn:F; [|discriminate].
    exists (width c0). intros c [<-|Hc]; [reflexivity|]. rewrite forallb_forall in F. apply Z.eqb_eq, F, Hc.
  - intros [w H]. destruct (nonempty_clouds ins) as [|c0 cs]; [eauto|].
    assert (F : forallb (fun c => width c =? width c0) cs = true).
    { apply forallb_forall. intros c Hc. apply Z.eqb_eq. rewrite (H c), (H c0); [reflexivity|left; reflexivity|right; exact Hc]. }
    rewrite F. eauto.
Qed.

Lemma x_refines skip st ho ins pins d f pc po :
  merge_keep_x skip st ho ins pins = XOk d f pc po ->
  merge_keep skip st ho ins = Ok (d, f)
  /\ spec_driver (skipped skip PPoints) (skipped skip PObs) pins = POk (pc, po).
Proof.
  unfold merge_keep_x. destruct (merge_keep skip st ho ins) as [[d' f']|e]; [|discriminate].
  rewrite pdriver_spec. destruct (spec_driver _ _ pins) as [[pc' po']|]; [|discriminate].
  intros H; inversion H; subst. split; reflexivity.
Qed.

Lemma x_shape_iff skip st ho ins pins :
  merge_keep_x skip st ho ins pins = XErr XShape <->
  (exists d f, merge_keep skip st ho ins = Ok (d, f)) /\ skipped skip PPoints = false
  /\ ~ exists w, forall c, In c (nonempty_clouds pins) -> width c = w.
Proof.
  unfold merge_keep_x. destruct (merge_keep skip st ho ins) as [[d f]|e].
  - destruct (skipped skip PPoints) eqn:Sp.
    + unfold pdriver, pdriver_gen. cbn. split; [discriminate|]. intros (_ & H & _); discriminate.
    + pose proof (ok_iff (skipped skip PObs) pins) as I.
      destruct (pdriver false (skipped skip PObs) pins) as [[pc po]|] eqn:E.
      * split; [discriminate|]. intros (_ & _ & H). exfalso. apply H. apply I. eauto.
      * split; [|reflexivity]. intros _. split; [eauto|]. split; [reflexivity|].
        intros H. apply I in H. destruct H as [r H]. discriminate.
  - split; [discriminate|]. intros ((d & f & H) & _); discriminate.
Qed.
