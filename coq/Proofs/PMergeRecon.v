(* Proofs/PMergeRecon.v — lemmas about Model/MMergeRecon.v (property C11). *)
From Coq Require Import List Bool String ZArith Lia Permutation Arith.
From KV Require Import Eqb AL Str.
From KV.Model Require Import MMergeRecon.
Import ListNotations.
Local Open Scope Z_scope.

(* ------------------------------------------------------------------ association lists *)
Section Split.
  Context {K V : Type} `{EqDec K}.

  Lemma insert_split (k : K) (v : V) (m : al K V) :
    (lookup k m = None /\ insert k v m = m ++ [(k, v)]) \/
    (exists m1 v0 m2, m = m1 ++ (k, v0) :: m2 /\ lookup k m = Some v0 /\ insert k v m = m1 ++ (k, v) :: m2).
  Proof.
    induction m as [|[k' v'] m IH]; cbn.
    - left; auto.
    - destruct (eqb_spec k k') as [->|N].
      + right. exists [], v', m. auto.
      + destruct IH as [[E1 E2]|(m1 & v0 & m2 & E1 & E2 & E3)].
        * left. rewrite E2. auto.
        * right. exists ((k', v') :: m1), v0, m2. rewrite E3. repeat split; auto. cbn. f_equal. exact E1.
  Qed.
End Split.

(* ------------------------------------------------------------------ observations: multiset view *)
Lemma flat_inner_insert k t e (inn : inner) :
  Permutation (flat_inner k (insert t (get_or t inn [] ++ [e]) inn)) (flat_inner k inn ++ [(k, t, fst e, snd e)]).
Proof.
  unfold get_or.
  destruct (insert_split t (match lookup t inn with Some v => v | None => [] end ++ [e]) inn)
    as [[E1 E2]|(i1 & l0 & i2 & E1 & E2 & E3)].
  - rewrite E2, E1. unfold flat_inner. rewrite flat_map_app. cbn. reflexivity.
  - rewrite E3, E2. rewrite E1. unfold flat_inner. rewrite !flat_map_app. cbn. rewrite map_app. cbn.
    rewrite <- !app_assoc. apply Permutation_app_head. apply Permutation_app_head. cbn.
    apply Permutation_cons_append.
Qed.

Lemma flatten_obs_add k t e m :
  Permutation (flatten (obs_add k t e m)) (flatten m ++ [(k, t, fst e, snd e)]).
Proof.
  unfold obs_add. set (inn := get_or k m []).
  destruct (insert_split k (insert t (get_or t inn [] ++ [e]) inn) m)
    as [[E1 E2]|(m1 & v0 & m2 & E1 & E2 & E3)].
  - rewrite E2. unfold flatten. rewrite flat_map_app. cbn. rewrite app_nil_r.
    apply Permutation_app_head.
    assert (I : inn = []) by (unfold inn, get_or; unfold inner in *; rewrite E1; reflexivity).
    rewrite I. cbn. reflexivity.
  - rewrite E3.
    assert (I : inn = v0) by (unfold inn, get_or; unfold inner in *; rewrite E2; reflexivity).
    rewrite I. rewrite E1. unfold flatten. rewrite !flat_map_app. cbn.
    rewrite (flat_inner_insert k t e v0).
    rewrite <- !app_assoc. apply Permutation_app_head. apply Permutation_app_head. cbn.
    apply Permutation_cons_append.
Qed.

Lemma flatten_add_all off l : forall acc,
  Permutation (flatten (add_all off l acc)) (flatten acc ++ map (shift off) l).
Proof.
  induction l as [|[[[k t] img] f] l IH]; intros acc.
  - cbn. rewrite app_nil_r. reflexivity.
  - unfold add_all in *. cbn [fold_left]. rewrite IH. rewrite flatten_obs_add. cbn.
    rewrite <- app_assoc. reflexivity.
Qed.

(* ------------------------------------------------------------------ observations: per point and type *)
Definition get (k : Z) (t : string) (m : obs) : list (string * Z) := get_or t (get_or k m []) [].

Lemma get_obs_add k t e k' t' m :
  get k' t' (obs_add k t e m) = if eqb k' k && eqb t' t then get k t m ++ [e] else get k' t' m.
Proof.
  unfold get, obs_add, get_or. rewrite lookup_insert.
  destruct (eqb_spec k' k) as [->|N]; cbn [andb]; [|reflexivity].
  rewrite lookup_insert. destruct (eqb_spec t' t) as [->|N]; reflexivity.
Qed.

Lemma obs_at_app k t l1 l2 : obs_at k t (l1 ++ l2) = obs_at k t l1 ++ obs_at k t l2.
Proof. unfold obs_at. rewrite filter_app, map_app. reflexivity. Qed.

Lemma obs_at_cons k t k0 t0 img f l :
  obs_at k t ((k0, t0, img, f) :: l) =
  if eqb k0 k && eqb t0 t then (img, f) :: obs_at k t l else obs_at k t l.
Proof. unfold obs_at. cbn. destruct (eqb k0 k && eqb t0 t); reflexivity. Qed.

Lemma get_add_all off l : forall acc k t,
  get k t (add_all off l acc) = get k t acc ++ obs_at (k - off) t l.
Proof.
  induction l as [|[[[k0 t0] img] f] l IH]; intros acc k t.
  - cbn. rewrite app_nil_r. reflexivity.
  - unfold add_all in *. cbn [fold_left]. rewrite IH, get_obs_add, obs_at_cons.
    destruct (eqb_spec k (k0 + off)) as [E|N], (eqb_spec k0 (k - off)) as [E'|N']; try lia; cbn [andb].
    + rewrite (eqb_sym t0 t). destruct (eqb_spec t t0) as [->|Nt].
      * subst k. rewrite <- app_assoc. reflexivity.
      * reflexivity.
    + reflexivity.
Qed.

Lemma obs_at_shift off k t l : obs_at k t (map (shift off) l) = obs_at (k - off) t l.
Proof.
  induction l as [|[[[k0 t0] img] f] l IH]; [reflexivity|].
  cbn [map shift]. rewrite !obs_at_cons, IH.
  destruct (eqb_spec (k0 + off) k), (eqb_spec k0 (k - off)); try lia; reflexivity.
Qed.

(* ------------------------------------------------------------------ points *)
Lemma append_points_rows acc c m : append_points acc c = Ok m -> rows m = rows_of acc ++ rows c.
Proof.
  destruct acc as [m0|]; cbn; [|intros [= ->]; reflexivity].
  destruct (rows m0) as [|r0 l0] eqn:R0; destruct (rows c) as [|rc lc] eqn:Rc; cbn.
  - intros [= <-]. rewrite R0. reflexivity.
  - intros [= <-]. rewrite Rc. reflexivity.
  - intros [= <-]. rewrite R0, app_nil_r. reflexivity.
  - destruct (width m0 =? width c); cbn; [|discriminate]. intros [= <-]. reflexivity.
Qed.

Lemma merge_po_from_spec ins : forall acc mo acc' mo',
  merge_po_from acc mo ins = Ok (acc', mo') ->
  rows_of acc' = rows_of acc ++ all_rows ins /\
  Permutation (flatten mo') (flatten mo ++ spec_obs (List.length (rows_of acc)) ins) /\
  (forall k t, get k t mo' = get k t mo ++ obs_at k t (spec_obs (List.length (rows_of acc)) ins)).
Proof.
  induction ins as [|[[c|] oo] ins IH]; intros acc mo acc' mo'; cbn [merge_po_from].
  - intros [= <- <-]. cbn. rewrite !app_nil_r. repeat split; auto. intros; cbn. rewrite app_nil_r; reflexivity.
  - destruct (append_points acc c) as [m|] eqn:A; [|discriminate].
    intros E. apply IH in E. destruct E as (R & P & G).
    apply append_points_rows in A. cbn [rows_of] in R, P, G. rewrite A in R, P, G.
    rewrite app_length in P, G.
    cbn [spec_obs]. change (count_in (Some c, oo)) with (List.length (rows c)).
    split; [|split].
    + rewrite R. cbn [all_rows flat_map fst]. rewrite app_assoc. reflexivity.
    + rewrite P. destruct oo as [o|].
      * unfold shift_add, npoints. rewrite flatten_add_all. rewrite <- app_assoc. reflexivity.
      * reflexivity.
    + intros k t. rewrite G. destruct oo as [o|].
      * unfold shift_add, npoints. rewrite get_add_all, obs_at_app, obs_at_shift, <- app_assoc. reflexivity.
      * reflexivity.
  - intros E. apply IH in E. destruct E as (R & P & G). cbn [spec_obs all_rows flat_map fst app].
    change (count_in (None, oo)) with 0%nat. rewrite Nat.add_0_r. auto.
Qed.

Lemma rows_of_finish acc : rows (finish acc) = rows_of acc.
Proof. destruct acc; reflexivity. Qed.

Lemma merge_points_concat ins c o : merge_po ins = Ok (c, o) -> rows c = all_rows ins.
Proof.
  unfold merge_po. destruct (merge_po_from None [] ins) as [[acc mo]|] eqn:E; [|discriminate].
  intros [= <- <-]. apply merge_po_from_spec in E. rewrite rows_of_finish. apply E.
Qed.

Lemma merge_obs_perm ins c o : merge_po ins = Ok (c, o) -> Permutation (flatten o) (spec_obs 0 ins).
Proof.
  unfold merge_po. destruct (merge_po_from None [] ins) as [[acc mo]|] eqn:E; [|discriminate].
  intros [= <- <-]. apply merge_po_from_spec in E. apply E.
Qed.

Lemma merge_obs_get ins c o k t : merge_po ins = Ok (c, o) -> get k t o = obs_at k t (spec_obs 0 ins).
Proof.
  unfold merge_po. destruct (merge_po_from None [] ins) as [[acc mo]|] eqn:E; [|discriminate].
  intros [= <- <-]. apply merge_po_from_spec in E. destruct E as (_ & _ & G). rewrite G. reflexivity.
Qed.

(* offsets *)
Lemma offset_0 ins : offset ins 0 = 0%nat.
Proof. reflexivity. Qed.
Lemma offset_S x ins i : offset (x :: ins) (S i) = (count_in x + offset ins i)%nat.
Proof. reflexivity. Qed.

Lemma nth_all_rows ins : forall i c oo j,
  nth_error ins i = Some (Some c, oo) -> (j < List.length (rows c))%nat ->
  nth_error (all_rows ins) (offset ins i + j) = nth_error (rows c) j.
Proof.
  induction ins as [|x ins IH]; intros [|i] c oo j E L; cbn in E; try discriminate.
  - injection E as ->. cbn [all_rows flat_map fst]. rewrite offset_0. cbn. apply nth_error_app1. exact L.
  - rewrite offset_S. cbn [all_rows flat_map]. fold (all_rows ins).
    rewrite nth_error_app2.
    + replace (count_in x + offset ins i + j - _)%nat with (offset ins i + j)%nat.
      * apply (IH i c oo j E L).
      * unfold count_in. destruct (fst x); cbn; lia.
    + unfold count_in. destruct (fst x); cbn; lia.
Qed.

Lemma all_rows_length ins : List.length (all_rows ins) = offset ins (List.length ins).
Proof.
  induction ins as [|x ins IH]; [reflexivity|]. cbn [List.length]. rewrite offset_S.
  cbn [all_rows flat_map]. fold (all_rows ins). rewrite app_length, IH. unfold count_in. destruct (fst x); reflexivity.
Qed.

Lemma In_spec_obs ins : forall off x,
  In x (spec_obs off ins) <->
  exists i c o y, nth_error ins i = Some (Some c, Some o) /\ In y (flatten o) /\
                  x = shift (Z.of_nat (off + offset ins i)) y.
Proof.
  induction ins as [|a ins IH]; intros off x; cbn [spec_obs].
  - split; [intros []|]. intros (i & c & o & y & E & _). destruct i; discriminate.
  - rewrite in_app_iff, IH. split.
    + intros [I|(i & c & o & y & E & I & ->)].
      * destruct a as [[c|] [o|]]; try (destruct I; fail).
        apply in_map_iff in I. destruct I as (y & <- & I). exists 0%nat, c, o, y. rewrite offset_0, Nat.add_0_r. cbn. auto.
      * exists (S i), c, o, y. cbn [nth_error]. rewrite offset_S, Nat.add_assoc. auto.
    + intros (i & c & o & y & E & I & ->). destruct i as [|i].
      * cbn in E. injection E as ->. left. rewrite offset_0, Nat.add_0_r. apply in_map. exact I.
      * right. exists i, c, o, y. cbn in E. rewrite offset_S, Nat.add_assoc. auto.
Qed.

(* validity: every observation of an input designates one of that input's points *)
Definition okey (x : otuple) : Z := fst (fst (fst x)).
Definition valid_input (x : input) : Prop :=
  match x with
  | (Some c, Some o) => Forall (fun y => 0 <= okey y < Z.of_nat (List.length (rows c))) (flatten o)
  | _ => True
  end.

Lemma obs_at_out_of_range k t l :
  Forall (fun y => okey y <> k) l -> obs_at k t l = [].
Proof.
  induction 1 as [|[[[k0 t0] img] f] l N _ IH]; [reflexivity|].
  rewrite obs_at_cons. cbn in N. destruct (eqb_spec k0 k); [contradiction|]. exact IH.
Qed.

Lemma spec_obs_keys_ge ins : forall off,
  Forall valid_input ins -> Forall (fun y => Z.of_nat off <= okey y) (spec_obs off ins).
Proof.
  induction ins as [|a ins IH]; intros off V; cbn [spec_obs]; [constructor|].
  inversion V as [|? ? Va V']; subst. apply Forall_app. split.
  - destruct a as [[c|] [o|]]; try constructor. cbn in Va.
    rewrite Forall_map. eapply Forall_impl; [|exact Va]. intros [[[k t] img] f]; cbn. lia.
  - eapply Forall_impl; [|apply (IH (off + count_in a)%nat V')]. cbn. intros; lia.
Qed.

Lemma obs_at_spec_valid ins : forall off i c o j t,
  Forall valid_input ins -> nth_error ins i = Some (Some c, Some o) -> (j < List.length (rows c))%nat ->
  obs_at (Z.of_nat (off + offset ins i + j)) t (spec_obs off ins) = obs_at (Z.of_nat j) t (flatten o).
Proof.
  induction ins as [|a ins IH]; intros off [|i] c o j t V E L; cbn in E; try discriminate.
  - injection E as ->. inversion V as [|? ? Va V']; subst. cbn [spec_obs]. rewrite obs_at_app, obs_at_shift.
    rewrite offset_0, Nat.add_0_r.
    replace (Z.of_nat (off + j) - Z.of_nat off) with (Z.of_nat j) by lia.
    rewrite (obs_at_out_of_range _ t (spec_obs _ ins)); [apply app_nil_r|].
    eapply Forall_impl; [|apply (spec_obs_keys_ge ins _ V')]. cbn. unfold count_in; cbn. intros; lia.
  - inversion V as [|? ? Va V']; subst. cbn [spec_obs]. rewrite obs_at_app, offset_S.
    rewrite (obs_at_out_of_range _ t (match a with (Some _, Some o0) => _ | _ => [] end)).
    + cbn [app]. replace (off + (count_in a + offset ins i) + j)%nat with (off + count_in a + offset ins i + j)%nat by lia.
      apply (IH _ i c o j t V' E L).
    + destruct a as [[c0|] [o0|]]; try constructor. cbn in Va. rewrite Forall_map.
      eapply Forall_impl; [|exact Va]. intros [[[k0 t0] img] f]; cbn. unfold count_in; cbn. intros; lia.
Qed.

(* ------------------------------------------------------------------ column counts *)
Definition uniform (ws : list Z) : Prop := forall a b, In a ws -> In b ws -> a = b.
Definition ne_widths (acc : option cloud) : list Z :=
  match acc with Some m => if isnil (rows m) then [] else [width m] | None => [] end.
Definition in_widths (ins : list input) : list Z := map width (nonempty_clouds ins).

Lemma in_widths_cons x ins : in_widths (x :: ins) = ne_widths (fst x) ++ in_widths ins.
Proof.
  unfold in_widths, nonempty_clouds. cbn [flat_map]. rewrite map_app. f_equal.
  destruct (fst x) as [c|]; cbn; [|reflexivity]. destruct (isnil (rows c)); reflexivity.
Qed.

Lemma append_points_widths acc c :
  match append_points acc c with
  | Ok m => (forall w, In w (ne_widths acc ++ ne_widths (Some c)) <-> In w (ne_widths (Some m)))
            /\ uniform (ne_widths acc ++ ne_widths (Some c))
  | ErrShape => ~ uniform (ne_widths acc ++ ne_widths (Some c))
  end.
Proof.
  destruct acc as [m0|]; cbn.
  - destruct (rows m0) eqn:R0; cbn.
    + destruct (rows c) eqn:Rc; cbn; rewrite ?R0, ?Rc; cbn; split; try tauto; intros a b; cbn; intuition congruence.
    + destruct (rows c) eqn:Rc; cbn.
      * rewrite R0; cbn. split; [tauto|]. intros a b; cbn; intuition congruence.
      * destruct (Z.eqb_spec (width m0) (width c)) as [E|N]; cbn.
        -- rewrite E. split; [tauto|]. intros a b; cbn; intuition congruence.
        -- intros U. apply N. apply U; cbn; auto.
  - destruct (isnil (rows c)); cbn; split; try tauto; intros a b; cbn; intuition congruence.
Qed.

Lemma uniform_equiv l1 l2 : (forall w, In w l1 <-> In w l2) -> uniform l1 <-> uniform l2.
Proof. intros E; unfold uniform; split; intros U a b Ia Ib; apply U; apply E; assumption. Qed.

Lemma merge_po_from_ok ins : forall acc mo,
  (exists r, merge_po_from acc mo ins = Ok r) <-> uniform (ne_widths acc ++ in_widths ins).
Proof.
  induction ins as [|[[c|] oo] ins IH]; intros acc mo; cbn [merge_po_from].
  - unfold in_widths; cbn. rewrite app_nil_r. split; [|eauto]. intros _ a b.
    destruct acc as [m|]; cbn; [destruct (isnil (rows m)); cbn|]; intuition congruence.
  - rewrite in_widths_cons. cbn [fst]. pose proof (append_points_widths acc c) as W.
    destruct (append_points acc c) as [m|].
    + destruct W as [W U]. rewrite IH. rewrite app_assoc. apply uniform_equiv.
      intros w. rewrite !in_app_iff, <- W, in_app_iff. tauto.
    + split; [intros [r E]; discriminate|]. intros U. exfalso. apply W.
      intros a b Ia Ib. apply U; rewrite app_assoc; apply in_app_iff; left; assumption.
  - rewrite in_widths_cons. cbn. apply IH.
Qed.

Lemma merge_po_ok_iff ins : (exists r, merge_po ins = Ok r) <-> uniform (in_widths ins).
Proof.
  rewrite <- (merge_po_from_ok ins None []). unfold merge_po.
  destruct (merge_po_from None [] ins) as [[a m]|]; split; intros [r E]; eauto; discriminate.
Qed.

Lemma merge_po_from_widths ins : forall acc mo acc' mo',
  merge_po_from acc mo ins = Ok (acc', mo') ->
  forall w, In w (ne_widths acc ++ in_widths ins) -> In w (ne_widths acc').
Proof.
  induction ins as [|[[c|] oo] ins IH]; intros acc mo acc' mo'; cbn [merge_po_from].
  - intros [= <- <-] w. unfold in_widths; cbn. rewrite app_nil_r. auto.
  - pose proof (append_points_widths acc c) as W. destruct (append_points acc c) as [m|]; [|discriminate].
    intros E w. rewrite in_widths_cons. cbn [fst]. rewrite app_assoc. intros I.
    apply (IH _ _ _ _ E). apply in_app_iff. apply in_app_iff in I. destruct I as [I|I]; [left; apply W; exact I|right; exact I].
  - intros E w. rewrite in_widths_cons. cbn. apply (IH _ _ _ _ E).
Qed.

Lemma merge_width ins c o m :
  merge_po ins = Ok (c, o) -> In m (nonempty_clouds ins) -> width m = width c /\ rows c <> [].
Proof.
  unfold merge_po. destruct (merge_po_from None [] ins) as [[acc mo]|] eqn:E; [|discriminate].
  intros [= <- <-] I.
  assert (J : In (width m) (ne_widths acc)).
  { apply (merge_po_from_widths _ _ _ _ _ E). cbn. unfold in_widths. apply in_map. exact I. }
  destruct acc as [a|]; cbn in J; [|contradiction]. cbn.
  destruct (rows a) eqn:R; cbn in J; [contradiction|]. destruct J as [<-|[]]. split; [reflexivity|discriminate].
Qed.

(* every row has as many entries as the cloud has columns *)
Definition wf_cloud (c : cloud) : Prop := Forall (fun r => Z.of_nat (List.length r) = width c) (rows c).
Definition wf_acc (acc : option cloud) : Prop := match acc with Some m => wf_cloud m | None => True end.

Lemma append_points_wf acc c m : wf_acc acc -> wf_cloud c -> append_points acc c = Ok m -> wf_cloud m.
Proof.
  destruct acc as [m0|]; cbn; [|intros _ W [= <-]; exact W].
  intros W0 Wc. destruct (isnil (rows m0) && negb (isnil (rows c))); [intros [= <-]; exact Wc|].
  destruct (isnil (rows c)); [intros [= <-]; exact W0|].
  destruct (Z.eqb_spec (width m0) (width c)) as [E|N]; cbn; [|discriminate].
  intros [= <-]. unfold wf_cloud in *. cbn. apply Forall_app. split; [exact W0|]. rewrite E. exact Wc.
Qed.

Lemma merge_po_from_wf ins : forall acc mo acc' mo',
  wf_acc acc -> Forall (fun x => match fst x with Some c => wf_cloud c | None => True end) ins ->
  merge_po_from acc mo ins = Ok (acc', mo') -> wf_acc acc'.
Proof.
  induction ins as [|[[c|] oo] ins IH]; intros acc mo acc' mo' Wa Wi; cbn [merge_po_from].
  - intros [= <- <-]. exact Wa.
  - inversion Wi as [|? ? Wc Wi']; subst. cbn in Wc.
    destruct (append_points acc c) as [m|] eqn:A; [|discriminate]. intros E.
    apply (IH (Some m) _ _ _ (append_points_wf _ _ _ Wa Wc A) Wi' E).
  - inversion Wi as [|? ? Wc Wi']; subst. intros E. apply (IH _ _ _ _ Wa Wi' E).
Qed.

Lemma merge_po_wf ins c o :
  Forall (fun x => match fst x with Some c => wf_cloud c | None => True end) ins ->
  merge_po ins = Ok (c, o) -> wf_cloud c.
Proof.
  unfold merge_po. intros W. destruct (merge_po_from None [] ins) as [[acc mo]|] eqn:E; [|discriminate].
  intros [= <- <-]. apply (merge_po_from_wf ins None [] acc mo I W) in E. destruct acc; [exact E|constructor].
Qed.

(* ------------------------------------------------------------------ points-only merge = projection *)
Lemma merge_p_from_proj ins : forall acc mo,
  merge_p_from acc (map fst ins) =
  match merge_po_from acc mo ins with Ok (a, _) => Ok a | ErrShape => ErrShape end.
Proof.
  induction ins as [|[[c|] oo] ins IH]; intros acc mo; cbn; [reflexivity| |apply IH].
  destruct (append_points acc c); [apply IH|reflexivity].
Qed.

Lemma merge_p_proj ins :
  merge_p (map fst ins) = match merge_po ins with Ok (c, _) => Ok c | ErrShape => ErrShape end.
Proof.
  unfold merge_p, merge_po. rewrite (merge_p_from_proj ins None []).
  destruct (merge_po_from None [] ins) as [[a m]|]; reflexivity.
Qed.

(* ------------------------------------------------------------------ files *)
Definition find_entry (p : string) (es : list fentry) : option fentry :=
  find (fun e => eqb (f_path e) p) es.
Fixpoint first_in (p : string) (ins : list (list fentry)) : option string :=
  match ins with
  | [] => None
  | es :: rest => match find_entry p es with Some e => Some (f_data e) | None => first_in p rest end
  end.
Definition whole_rows (e : fentry) : Prop :=
  f_tar e = true -> 0 < f_unit e /\ Z.of_nat (String.length (f_data e)) mod f_unit e = 0.

Lemma transfer_data e b : transfer e = Some b -> b = f_data e.
Proof.
  unfold transfer. destruct (f_tar e); [|congruence].
  destruct ((0 <? f_unit e) && _); congruence.
Qed.

Lemma transfer_total e : whole_rows e -> transfer e = Some (f_data e).
Proof.
  unfold transfer, whole_rows. destruct (f_tar e); [|reflexivity]. intros W. destruct (W eq_refl) as [P M].
  apply Z.ltb_lt in P. apply Z.eqb_eq in M. rewrite P, M. reflexivity.
Qed.

Lemma transfer_fails e : transfer e = None -> ~ whole_rows e.
Proof. intros T W. rewrite (transfer_total e W) in T. discriminate. Qed.

Lemma merge_input_files_spec es : forall out out',
  merge_input_files out es = Some out' ->
  forall p, lookup p out' =
            match lookup p out with
            | Some b => Some b
            | None => match find_entry p es with Some e => Some (f_data e) | None => None end
            end.
Proof.
  induction es as [|e es IH]; intros out out'; cbn [merge_input_files].
  - intros [= <-] p. cbn. destruct (lookup p out); reflexivity.
  - unfold mem. destruct (lookup (f_path e) out) as [b0|] eqn:L.
    + intros E p. rewrite (IH _ _ E p). destruct (lookup p out) eqn:Lp; [reflexivity|].
      unfold find_entry; cbn. destruct (eqb_spec (f_path e) p) as [X|X]; [congruence|reflexivity].
    + destruct (transfer e) as [b|] eqn:T; [|discriminate]. apply transfer_data in T. subst b.
      intros E p. rewrite (IH _ _ E p). rewrite lookup_insert.
      unfold find_entry; cbn. rewrite (eqb_sym (f_path e) p).
      destruct (eqb_spec p (f_path e)) as [->|N]; [rewrite L; reflexivity|reflexivity].
Qed.

Lemma merge_files_from_spec ins : forall out out',
  merge_files_from out ins = Some out' ->
  forall p, lookup p out' = match lookup p out with Some b => Some b | None => first_in p ins end.
Proof.
  induction ins as [|es ins IH]; intros out out'; cbn [merge_files_from].
  - intros [= <-] p. cbn. destruct (lookup p out); reflexivity.
  - destruct (merge_input_files out es) as [o1|] eqn:M; [|discriminate]. intros E p.
    rewrite (IH _ _ E p), (merge_input_files_spec _ _ _ M p). cbn [first_in].
    destruct (lookup p out); [reflexivity|]. destruct (find_entry p es); reflexivity.
Qed.

Lemma merge_files_lookup ins out p : merge_files ins = Some out -> lookup p out = first_in p ins.
Proof. intros E. apply (merge_files_from_spec _ _ _ E p). Qed.

Lemma merge_input_files_total es : forall out,
  Forall whole_rows es -> exists out', merge_input_files out es = Some out'.
Proof.
  induction es as [|e es IH]; intros out W; cbn; [eauto|]. inversion W as [|? ? We W']; subst.
  destruct (mem (f_path e) out); [apply IH; assumption|]. rewrite (transfer_total e We). apply IH; assumption.
Qed.

Lemma merge_files_from_total ins : forall out,
  Forall (Forall whole_rows) ins -> exists out', merge_files_from out ins = Some out'.
Proof.
  induction ins as [|es ins IH]; intros out W; cbn; [eauto|]. inversion W as [|? ? We W']; subst.
  destruct (merge_input_files_total es out We) as [o1 ->]. apply IH; assumption.
Qed.

Lemma first_in_char p ins b :
  first_in p ins = Some b <->
  exists i es e, nth_error ins i = Some es /\ find_entry p es = Some e /\ f_data e = b /\
                 forall i' es', (i' < i)%nat -> nth_error ins i' = Some es' -> find_entry p es' = None.
Proof.
  induction ins as [|es ins IH]; cbn [first_in].
  - split; [discriminate|]. intros (i & es & e & E & _). destruct i; discriminate.
  - destruct (find_entry p es) as [e|] eqn:F.
    + split.
      * intros [= <-]. exists 0%nat, es, e. cbn. repeat split; auto. intros i' es' L; lia.
      * intros (i & es1 & e1 & E & F1 & D & Min). destruct i as [|i].
        -- cbn in E. injection E as <-. congruence.
        -- specialize (Min 0%nat es (Nat.lt_0_succ i) eq_refl). congruence.
    + rewrite IH. split.
      * intros (i & es1 & e1 & E & F1 & D & Min). exists (S i), es1, e1. cbn. repeat split; auto.
        intros [|i'] es' L E'; cbn in E'; [congruence|]. apply (Min i' es'); [lia|assumption].
      * intros (i & es1 & e1 & E & F1 & D & Min). destruct i as [|i]; cbn in E; [congruence|].
        exists i, es1, e1. repeat split; auto. intros i' es' L E'. apply (Min (S i') es'); [lia|assumption].
Qed.

Lemma find_entry_Some p es e : find_entry p es = Some e -> In e es /\ f_path e = p.
Proof. unfold find_entry. intros F. apply find_some in F. destruct F as [I E]. apply eqb_true in E. auto. Qed.

Lemma find_entry_None p es : find_entry p es = None <-> ~ In p (map f_path es).
Proof.
  unfold find_entry. split.
  - intros F I. apply in_map_iff in I. destruct I as (e & <- & I).
    pose proof (find_none _ _ F e I) as X. cbn in X. rewrite eqb_refl in X. discriminate.
  - intros N. destruct (find _ es) as [e|] eqn:F; [|reflexivity]. exfalso. apply N.
    apply find_some in F. destruct F as [I E]. apply eqb_true in E. subst p. apply in_map. exact I.
Qed.

(* ------------------------------------------------------------------ inputs without points *)
Lemma merge_po_from_skip_none l1 : forall acc mo oo l2,
  merge_po_from acc mo (l1 ++ (None, oo) :: l2) = merge_po_from acc mo (l1 ++ l2).
Proof.
  induction l1 as [|[[c|] o1] l1 IH]; intros acc mo oo l2; cbn; [reflexivity| |apply IH].
  destruct (append_points acc c); [apply IH|reflexivity].
Qed.

Lemma merge_po_skip_none l1 oo l2 : merge_po (l1 ++ (None, oo) :: l2) = merge_po (l1 ++ l2).
Proof. unfold merge_po. rewrite merge_po_from_skip_none. reflexivity. Qed.

(* the merged observations contain a given tuple iff it is a shifted observation of an input with points *)
Lemma merge_obs_In ins c o x :
  merge_po ins = Ok (c, o) ->
  (In x (flatten o) <->
   exists i ci oi y, nth_error ins i = Some (Some ci, Some oi) /\ In y (flatten oi) /\
                     x = shift (Z.of_nat (offset ins i)) y).
Proof.
  intros E. pose proof (merge_obs_perm _ _ _ E) as P. rewrite <- (In_spec_obs ins 0 x). split; intros I.
  - eapply Permutation_in; [exact P|exact I].
  - eapply Permutation_in; [apply Permutation_sym; exact P|exact I].
Qed.

(* ------------------------------------------------------------------ files: the destination's previous content *)
Definition overlay (out dest : al string string) (p : string) : option string :=
  match lookup p out with Some b => Some b | None => lookup p dest end.
Definition onto_rel (dest out : al string string) (seen : list string) (fs : al string string) : Prop :=
  (forall p, memb p seen = mem p out) /\ (forall p, lookup p fs = overlay out dest p).

Lemma merge_input_onto_sim dest es : forall out seen fs, onto_rel dest out seen fs ->
  match merge_input_files out es, merge_input_onto seen fs es with
  | Some out', Some (seen', fs') => onto_rel dest out' seen' fs'
  | None, None => True
  | _, _ => False
  end.
Proof.
  induction es as [|e es IH]; intros out seen fs R; cbn; [exact R|].
  destruct R as [R1 R2]. rewrite R1. destruct (mem (f_path e) out) eqn:M.
  - apply IH. split; assumption.
  - destruct (transfer e) as [b|]; [|exact I]. apply IH. split; intros p.
    + cbn. unfold mem. rewrite lookup_insert. destruct (eqb_spec p (f_path e)); cbn; [reflexivity|apply R1].
    + unfold overlay. rewrite !lookup_insert. destruct (eqb_spec p (f_path e)); [reflexivity|apply R2].
Qed.

Lemma merge_onto_from_sim dest ins : forall out seen fs, onto_rel dest out seen fs ->
  match merge_files_from out ins, merge_onto_from seen fs ins with
  | Some out', Some (seen', fs') => onto_rel dest out' seen' fs'
  | None, None => True
  | _, _ => False
  end.
Proof.
  induction ins as [|es ins IH]; intros out seen fs R; cbn; [exact R|].
  pose proof (merge_input_onto_sim dest es out seen fs R) as S.
  destruct (merge_input_files out es) as [out1|], (merge_input_onto seen fs es) as [[seen1 fs1]|]; try contradiction; [|exact I].
  apply IH. exact S.
Qed.

Lemma merge_files_onto_spec dest ins :
  match merge_files ins, merge_files_onto dest ins with
  | Some out, Some fs => forall p, lookup p fs = overlay out dest p
  | None, None => True
  | _, _ => False
  end.
Proof.
  unfold merge_files, merge_files_onto.
  assert (R : onto_rel dest [] [] dest) by (split; intros p; reflexivity).
  pose proof (merge_onto_from_sim dest ins [] [] dest R) as S.
  destruct (merge_files_from [] ins) as [out|], (merge_onto_from [] dest ins) as [[seen fs]|]; try contradiction; [|exact I].
  apply S.
Qed.

(* ------------------------------------------------------------------ tar archives: the last member of a name is the current one *)
Fixpoint last_of (n : string) (a : archive) : option (option string) :=
  match a with
  | [] => None
  | (n', d) :: a' => match last_of n a' with Some x => Some x | None => if eqb n n' then Some d else None end
  end.

Lemma last_of_None n a : last_of n a = None <-> ~ In n (map fst a).
Proof.
  induction a as [|[n' d] a IH]; cbn; [tauto|]. destruct (last_of n a) as [x|].
  - split; [discriminate|]. intros N. exfalso. assert (X : Some x = None) by (apply IH; tauto). discriminate.
  - destruct (eqb_spec n n') as [->|N]; [split; [discriminate|tauto]|].
    split; [|reflexivity]. intros _ [E|I]; [congruence|]. apply (proj1 IH eq_refl I).
Qed.

Lemma last_of_char n a x :
  last_of n a = Some x <-> exists l1 l2, a = l1 ++ (n, x) :: l2 /\ ~ In n (map fst l2).
Proof.
  induction a as [|[n' d] a IH]; cbn [last_of].
  - split; [discriminate|]. intros (l1 & l2 & E & _). destruct l1; discriminate.
  - destruct (last_of n a) as [y|] eqn:L.
    + split.
      * intros [= <-]. destruct (proj1 IH eq_refl) as (l1 & l2 & E & N). exists ((n', d) :: l1), l2. subst a. auto.
      * intros (l1 & l2 & E & N). destruct l1 as [|e l1]; cbn in E.
        -- injection E as -> -> ->. apply last_of_None in N. congruence.
        -- injection E as <- ->. apply IH. eauto.
    + pose proof (proj1 (last_of_None n a) L) as NI. destruct (eqb_spec n n') as [<-|NE].
      * split.
        -- intros [= <-]. exists [], a. auto.
        -- intros (l1 & l2 & E & N). destruct l1 as [|e l1]; cbn in E; [congruence|].
           injection E as <- ->. exfalso. apply NI. rewrite map_app, in_app_iff. right. left. reflexivity.
      * split; [discriminate|]. intros (l1 & l2 & E & N). destruct l1 as [|e l1]; cbn in E; [congruence|].
        injection E as <- ->. exfalso. apply NI. rewrite map_app, in_app_iff. right. left. reflexivity.
Qed.

Lemma last_of_app n a b :
  last_of n (a ++ b) = match last_of n b with Some x => Some x | None => last_of n a end.
Proof.
  induction a as [|[n' d] a IH]; cbn; [destruct (last_of n b); reflexivity|].
  rewrite IH. destruct (last_of n b); reflexivity.
Qed.

Lemma index_from_lookup a : forall m n,
  lookup n (fold_left (fun m (e : tmember) => insert (fst e) (snd e) m) a m) =
  match last_of n a with Some x => Some x | None => lookup n m end.
Proof.
  induction a as [|[n' d] a IH]; intros m n; cbn [fold_left last_of]; [reflexivity|].
  rewrite IH. destruct (last_of n a); [reflexivity|]. cbn [fst snd]. rewrite lookup_insert.
  destruct (eqb_spec n n'); reflexivity.
Qed.

Lemma tar_index_lookup a n : lookup n (tar_index a) = last_of n a.
Proof. unfold tar_index. rewrite index_from_lookup. destruct (last_of n a); reflexivity. Qed.

Lemma tar_read_char a n b :
  tar_read a n = Some b <-> exists l1 l2, a = l1 ++ (n, Some b) :: l2 /\ ~ In n (map fst l2).
Proof.
  unfold tar_read. rewrite tar_index_lookup, <- last_of_char.
  destruct (last_of n a) as [[d|]|]; split; congruence.
Qed.

Lemma tar_read_append a n d n' :
  tar_read (tar_append a n d) n' = if eqb n' n then Some d else tar_read a n'.
Proof.
  unfold tar_read, tar_append. rewrite !tar_index_lookup, last_of_app. cbn [last_of].
  destruct (eqb_spec n' n); reflexivity.
Qed.

Lemma tar_names_In a n : In n (tar_names a) <-> In n (map fst a).
Proof.
  unfold tar_names. rewrite <- lookup_In_keys, tar_index_lookup.
  pose proof (last_of_None n a) as X. destruct (last_of n a).
  - split; [|discriminate]. intros _. destruct (in_dec string_dec n (map fst a)) as [I|I]; [exact I|].
    apply X in I. discriminate.
  - split; [congruence|]. intros I. exfalso. apply (proj1 X eq_refl I).
Qed.

Lemma fold_insert_wf (a : archive) : forall m : al string (option string), wf m ->
  wf (fold_left (fun m (e : tmember) => insert (fst e) (snd e) m) a m).
Proof. induction a as [|e a IH]; intros m W; cbn; [exact W|]. apply IH. apply wf_insert. exact W. Qed.

Lemma tar_names_NoDup a : NoDup (tar_names a).
Proof. apply (fold_insert_wf a []). apply wf_nil. Qed.

(* ------------------------------------------------------------------ sources: directories and archive members *)
Definition find_src (p : string) (ss : list fsource) : option fsource := find (fun s => eqb (src_path s) p) ss.

(* [b] is the current content of source [s]: the content of the file, or the bytes of the LAST member named m *)
Definition src_current (ar : list archive) (s : fsource) (b : string) : Prop :=
  match s with
  | InDir _ _ d => b = d
  | InTar _ _ k m => exists a l1 l2, nth_error ar k = Some a /\ a = l1 ++ (m, Some b) :: l2 /\ ~ In m (map fst l2)
  end.

Lemma resolve_path ar s e : resolve ar s = Some e -> f_path e = src_path s.
Proof.
  destruct s as [p u d|p u k m]; cbn; [intros [= <-]; reflexivity|].
  destruct (nth_error ar k) as [a|]; [|discriminate]. destruct (tar_read a m); [|discriminate].
  intros [= <-]; reflexivity.
Qed.

Lemma resolve_current ar s b : (exists e, resolve ar s = Some e /\ f_data e = b) <-> src_current ar s b.
Proof.
  destruct s as [p u d|p u k m]; cbn [resolve src_current].
  - split; [intros (e & [= <-] & D); cbn in D; auto|]. intros ->. eexists; split; reflexivity.
  - split.
    + intros (e & R & D). destruct (nth_error ar k) as [a|]; [|discriminate].
      destruct (tar_read a m) as [d|] eqn:T; [|discriminate]. injection R as <-. cbn in D. subst d.
      apply tar_read_char in T. destruct T as (l1 & l2 & E & N). exists a, l1, l2. auto.
    + intros (a & l1 & l2 & Na & E & N). rewrite Na.
      assert (T : tar_read a m = Some b) by (apply tar_read_char; eauto).
      rewrite T. eexists; split; reflexivity.
Qed.

Lemma resolve_list_find ar p : forall ss es, resolve_list ar ss = Some es ->
  match find_src p ss with
  | Some s => exists e, resolve ar s = Some e /\ find_entry p es = Some e
  | None => find_entry p es = None
  end.
Proof.
  induction ss as [|s ss IH]; intros es; cbn [resolve_list]; [intros [= <-]; reflexivity|].
  destruct (resolve ar s) as [e|] eqn:R; [|discriminate].
  destruct (resolve_list ar ss) as [es'|]; [|discriminate]. intros [= <-].
  specialize (IH es' eq_refl). unfold find_src, find_entry in *. cbn [find].
  rewrite (resolve_path _ _ _ R). destruct (eqb_spec (src_path s) p); [eauto|exact IH].
Qed.

Lemma resolve_inputs_first p : forall archs srcs fs, resolve_inputs archs srcs = Some fs ->
  forall b, first_in p fs = Some b <->
    exists i ar ss s, nth_error archs i = Some ar /\ nth_error srcs i = Some ss /\ find_src p ss = Some s /\
      (forall i' ss', (i' < i)%nat -> nth_error srcs i' = Some ss' -> find_src p ss' = None) /\
      exists e, resolve ar s = Some e /\ f_data e = b.
Proof.
  induction archs as [|ar archs IH]; intros [|ss srcs] fs; cbn [resolve_inputs]; try discriminate.
  - intros [= <-] b. cbn. split; [discriminate|]. intros (i & ar & ss & s & N & _). destruct i; discriminate.
  - destruct (resolve_list ar ss) as [es|] eqn:RL; [|discriminate].
    destruct (resolve_inputs archs srcs) as [r|] eqn:RI; [|discriminate]. intros [= <-] b. cbn [first_in].
    pose proof (resolve_list_find ar p ss es RL) as F. destruct (find_src p ss) as [s|] eqn:FS.
    + destruct F as (e & R & FE). rewrite FE. split.
      * intros [= <-]. exists 0%nat, ar, ss, s. cbn. repeat split; auto; [intros; lia|eauto].
      * intros (i & ar1 & ss1 & s1 & Na & Ns & F1 & Min & e1 & R1 & D). destruct i as [|i].
        -- cbn in Na, Ns. injection Na as <-. injection Ns as <-. congruence.
        -- specialize (Min 0%nat ss (Nat.lt_0_succ i) eq_refl). congruence.
    + rewrite F, (IH srcs r RI b). split.
      * intros (i & ar1 & ss1 & s1 & Na & Ns & F1 & Min & X). exists (S i), ar1, ss1, s1. cbn. repeat split; auto.
        intros [|i'] ss' L E'; cbn in E'; [congruence|]. apply (Min i' ss'); [lia|assumption].
      * intros (i & ar1 & ss1 & s1 & Na & Ns & F1 & Min & X). destruct i as [|i]; cbn in Na, Ns; [congruence|].
        exists i, ar1, ss1, s1. repeat split; auto. intros i' ss' L E'. apply (Min (S i') ss'); [lia|assumption].
Qed.

Lemma merge_sources_lookup archs srcs out p b :
  merge_sources archs srcs = Some out ->
  (lookup p out = Some b <->
   exists i ar ss s, nth_error archs i = Some ar /\ nth_error srcs i = Some ss /\ find_src p ss = Some s /\
     (forall i' ss', (i' < i)%nat -> nth_error srcs i' = Some ss' -> find_src p ss' = None) /\
     src_current ar s b).
Proof.
  unfold merge_sources. destruct (resolve_inputs archs srcs) as [fs|] eqn:R; [|discriminate]. intros E.
  rewrite (merge_files_lookup _ _ p E), (resolve_inputs_first p _ _ _ R b).
  split; intros (i & ar & ss & s & Na & Ns & F & Min & X); exists i, ar, ss, s; repeat split; auto;
    apply resolve_current; exact X.
Qed.

(* merging into a destination that is not empty reads the archives in the same way *)
Lemma merge_sources_onto_spec dest archs srcs :
  match merge_sources archs srcs, merge_sources_onto dest archs srcs with
  | Some out, Some fs => forall p, lookup p fs = overlay out dest p
  | None, None => True
  | _, _ => False
  end.
Proof.
  unfold merge_sources, merge_sources_onto. destruct (resolve_inputs archs srcs) as [fs|]; [|exact I].
  apply merge_files_onto_spec.
Qed.

(* ------------------------------------------------------------------ histories of appends *)
Fixpoint last_write (n : string) (ws : list (string * string)) : option string :=
  match ws with
  | [] => None
  | (n', d) :: ws' => match last_write n ws' with Some x => Some x | None => if eqb n n' then Some d else None end
  end.
Definition tar_history (a : archive) (ws : list (string * string)) : archive :=
  fold_left (fun a w => tar_append a (fst w) (snd w)) ws a.

Lemma tar_history_app ws : forall a, tar_history a ws = a ++ map (fun w => (fst w, Some (snd w))) ws.
Proof.
  induction ws as [|w ws IH]; intros a; cbn; [rewrite app_nil_r; reflexivity|].
  unfold tar_history in IH. rewrite IH. unfold tar_append. rewrite <- app_assoc. reflexivity.
Qed.

Lemma last_of_writes n ws :
  last_of n (map (fun w : string * string => (fst w, Some (snd w))) ws) =
  match last_write n ws with Some d => Some (Some d) | None => None end.
Proof.
  induction ws as [|[n' d] ws IH]; cbn; [reflexivity|]. rewrite IH.
  destruct (last_write n ws); [reflexivity|]. destruct (eqb_spec n n'); reflexivity.
Qed.

Lemma tar_read_history a ws n :
  tar_read (tar_history a ws) n = match last_write n ws with Some d => Some d | None => tar_read a n end.
Proof.
  unfold tar_read. rewrite !tar_index_lookup, tar_history_app, last_of_app, last_of_writes.
  destruct (last_write n ws); reflexivity.
Qed.

(* ------------------------------------------------------------------ the transfer from sources cannot fail on well-formed inputs *)
Definition src_ok (ar : list archive) (s : fsource) : Prop :=
  match s with
  | InDir _ _ _ => True
  | InTar _ u k m => exists a b, nth_error ar k = Some a /\ tar_read a m = Some b /\
                                 0 < u /\ Z.of_nat (String.length b) mod u = 0
  end.

Lemma resolve_list_ok ar ss : Forall (src_ok ar) ss ->
  exists es, resolve_list ar ss = Some es /\ Forall whole_rows es.
Proof.
  induction 1 as [|s ss Hs _ IH]; cbn [resolve_list]; [eauto|]. destruct IH as (es & -> & W).
  destruct s as [p u d|p u k m]; cbn [resolve src_ok] in *.
  - eexists; split; [reflexivity|]. constructor; [|exact W]. intros T; discriminate.
  - destruct Hs as (a & b & -> & -> & P & M). eexists; split; [reflexivity|]. constructor; [|exact W].
    intros _. cbn. auto.
Qed.

Lemma resolve_inputs_ok archs srcs : Forall2 (fun ar ss => Forall (src_ok ar) ss) archs srcs ->
  exists fs, resolve_inputs archs srcs = Some fs /\ Forall (Forall whole_rows) fs.
Proof.
  induction 1 as [|ar ss archs srcs H _ IH]; cbn [resolve_inputs]; [eauto|].
  destruct (resolve_list_ok ar ss H) as (es & -> & W). destruct IH as (fs & -> & Wf). eauto.
Qed.

Lemma merge_sources_total archs srcs : Forall2 (fun ar ss => Forall (src_ok ar) ss) archs srcs ->
  exists out, merge_sources archs srcs = Some out.
Proof.
  intros H. destruct (resolve_inputs_ok archs srcs H) as (fs & R & W). unfold merge_sources. rewrite R.
  exact (merge_files_from_total fs [] W).
Qed.

(* ------------------------------------------------------------------ what a reader lists for an archive *)
Lemma regular_In (m : al string (option string)) n d : In (n, d) (regular m) <-> In (n, Some d) m.
Proof.
  unfold regular. rewrite in_flat_map. split.
  - intros ([n' [d'|]] & I & H); cbn in H; [|destruct H]. destruct H as [E|[]]. injection E as -> ->. exact I.
  - intros I. exists (n, Some d). split; [exact I|left; reflexivity].
Qed.

Lemma tar_listing_char a n d : In (n, d) (regular (tar_index a)) <-> tar_read a n = Some d.
Proof.
  rewrite regular_In. rewrite <- (lookup_In n (Some d) (tar_index a) (tar_names_NoDup a)). unfold tar_read.
  destruct (lookup n (tar_index a)) as [[x|]|]; split; congruence.
Qed.
