(* Proofs/PMergeRemap.v — lemmas about Model/MMergeRemap.v (property C10). *)
From Coq Require Import List Bool String ZArith NArith Lia DecimalString DecimalN Decimal.
From KV Require Import Eqb AL Str.
From KV.Model Require Import MMergeRemap.
Import ListNotations.
Local Open Scope string_scope.
Local Open Scope list_scope.

(* ------------------------------------------------------------------ fresh names *)
Lemma dec_inj a b : dec a = dec b -> a = b.
Proof.
  unfold dec. intros E.
  assert (X : NilEmpty.uint_of_string (NilEmpty.string_of_uint (N.to_uint a)) =
              NilEmpty.uint_of_string (NilEmpty.string_of_uint (N.to_uint b))) by (rewrite E; reflexivity).
  rewrite !NilEmpty.usu in X. injection X as X.
  rewrite <- (DecimalN.Unsigned.of_to a), <- (DecimalN.Unsigned.of_to b), X. reflexivity.
Qed.

Lemma append_inj_l p a b : (p ++ a = p ++ b)%string -> a = b.
Proof. induction p as [|c p IH]; cbn; [auto|]. intros [= E]. auto. Qed.

Lemma fresh_inj p a b : fresh p a = fresh p b -> a = b.
Proof. unfold fresh. intros E. apply append_inj_l in E. apply dec_inj. exact E. Qed.

Lemma fresh_sensor_rig a b : fresh "sensor" a <> fresh "rig" b.
Proof. unfold fresh. cbn. discriminate. Qed.

(* ------------------------------------------------------------------ one mapping *)
Definition in_range (x : string) (m : smap) : Prop := exists k, lookup k m = Some x.
Definition inj (m : smap) : Prop := forall a b x, lookup a m = Some x -> lookup b m = Some x -> a = b.

Lemma mk_mapping_keys p ks off : keys (mk_mapping p ks off) = ks.
Proof. revert off; induction ks as [|k ks IH]; intros off; cbn; [reflexivity|]. unfold keys in IH. rewrite IH. reflexivity. Qed.

Lemma mk_mapping_length p ks off : List.length (mk_mapping p ks off) = List.length ks.
Proof. revert off; induction ks as [|k ks IH]; intros off; cbn; [reflexivity|]. rewrite IH. reflexivity. Qed.

(* the j-th key gets number off + j *)
Lemma mk_mapping_lookup p ks : forall off k x,
  lookup k (mk_mapping p ks off) = Some x ->
  exists j, nth_error ks j = Some k /\ x = fresh p (off + N.of_nat j).
Proof.
  induction ks as [|k0 ks IH]; intros off k x; cbn; [discriminate|].
  destruct (eqb_spec k k0) as [->|N].
  - intros [= <-]. exists 0%nat. cbn. rewrite N.add_0_r. auto.
  - intros L. destruct (IH _ _ _ L) as (j & E & ->). exists (S j). cbn. split; [exact E|]. f_equal. lia.
Qed.

Lemma mk_mapping_lookup_nth p ks : forall off j k,
  NoDup ks -> nth_error ks j = Some k -> lookup k (mk_mapping p ks off) = Some (fresh p (off + N.of_nat j)).
Proof.
  induction ks as [|k0 ks IH]; intros off [|j] k ND E; cbn in E; try discriminate.
  - injection E as ->. cbn. rewrite eqb_refl, N.add_0_r. reflexivity.
  - inversion ND as [|? ? NI ND']; subst. cbn. destruct (eqb_spec k k0) as [->|N].
    + exfalso. apply NI. eapply nth_error_In; eauto.
    + rewrite (IH _ j k ND' E). f_equal. f_equal. lia.
Qed.

Lemma mk_mapping_range p ks off x :
  in_range x (mk_mapping p ks off) ->
  exists n, (off <= n < off + N.of_nat (List.length ks))%N /\ x = fresh p n.
Proof.
  intros [k L]. destruct (mk_mapping_lookup _ _ _ _ _ L) as (j & E & ->).
  exists (off + N.of_nat j)%N. split; [|reflexivity].
  assert (j < List.length ks)%nat by (apply nth_error_Some; congruence). lia.
Qed.

Lemma mk_mapping_inj p ks off : NoDup ks -> inj (mk_mapping p ks off).
Proof.
  intros ND a b x La Lb.
  destruct (mk_mapping_lookup _ _ _ _ _ La) as (ja & Ea & Xa).
  destruct (mk_mapping_lookup _ _ _ _ _ Lb) as (jb & Eb & Xb).
  subst x. apply fresh_inj in Xb. assert (ja = jb) by lia. subst jb. congruence.
Qed.

Lemma mk_mapping_total p ks off k : In k ks -> exists x, lookup k (mk_mapping p ks off) = Some x.
Proof.
  intros I. assert (X : lookup k (mk_mapping p ks off) <> None).
  { apply lookup_In_keys. rewrite mk_mapping_keys. exact I. }
  destruct (lookup k (mk_mapping p ks off)); [eauto|congruence].
Qed.

(* ------------------------------------------------------------------ the family of mappings *)
Definition in_rng (x : string) (m : smap * smap) : Prop := in_range x (fst m) \/ in_range x (snd m).
Definition good_pair (m : smap * smap) : Prop :=
  inj (fst m) /\ inj (snd m) /\ (forall x, in_range x (fst m) -> ~ in_range x (snd m)).
Definition disjoint_rng (m m' : smap * smap) : Prop := forall x, in_rng x m -> ~ in_rng x m'.
Fixpoint good (maps : list (smap * smap)) : Prop :=
  match maps with
  | [] => True
  | m :: rest => good_pair m /\ (forall m', In m' rest -> disjoint_rng m m') /\ good rest
  end.

Definition skeys (d : dataset) : list string := match d_sensors d with Some s => keys s | None => [] end.
Definition rkeys (d : dataset) : list string := match d_rigs d with Some r => rig_ids r | None => [] end.
Definition wf_sensors (ds : list dataset) : Prop := forall d, In d ds -> NoDup (skeys d).

Lemma rkeys_NoDup d : NoDup (rkeys d).
Proof. unfold rkeys, rig_ids. destruct (d_rigs d); [apply dedup_NoDup|constructor]. Qed.

Lemma new_ids_cons d ds soff roff :
  new_ids (d :: ds) soff roff =
  (mk_mapping "rig" (rkeys d) roff, mk_mapping "sensor" (skeys d) soff)
    :: new_ids ds (soff + N.of_nat (List.length (skeys d))) (roff + N.of_nat (List.length (rkeys d))).
Proof. reflexivity. Qed.

Lemma new_ids_ranges ds : forall soff roff m x,
  In m (new_ids ds soff roff) ->
  (in_range x (snd m) -> exists n, (soff <= n)%N /\ x = fresh "sensor" n) /\
  (in_range x (fst m) -> exists n, (roff <= n)%N /\ x = fresh "rig" n).
Proof.
  induction ds as [|d ds IH]; intros soff roff m x I; [destruct I|].
  rewrite new_ids_cons in I. destruct I as [<-|I]; cbn [fst snd].
  - split; intros R; apply mk_mapping_range in R; destruct R as (n & B & ->); exists n; split; auto; lia.
  - destruct (IH _ _ m x I) as [A B]. split; intros R.
    + destruct (A R) as (n & L & ->). exists n. split; [lia|reflexivity].
    + destruct (B R) as (n & L & ->). exists n. split; [lia|reflexivity].
Qed.

Lemma good_new_ids ds : forall soff roff, wf_sensors ds -> good (new_ids ds soff roff).
Proof.
  induction ds as [|d ds IH]; intros soff roff W; [exact I|].
  rewrite new_ids_cons. cbn [good]. split; [|split].
  - unfold good_pair; cbn [fst snd]. split; [|split].
    + apply mk_mapping_inj. apply rkeys_NoDup.
    + apply mk_mapping_inj. apply W. left; reflexivity.
    + intros x R S. apply mk_mapping_range in R. apply mk_mapping_range in S.
      destruct R as (n & _ & ->), S as (n' & _ & E). symmetry in E. apply (fresh_sensor_rig _ _ E).
  - intros m' I x [R|S] [R'|S']; cbn [fst snd] in *.
    + apply mk_mapping_range in R. destruct R as (n & B & ->).
      destruct (proj2 (new_ids_ranges _ _ _ _ _ I) R') as (n' & B' & E). apply fresh_inj in E. lia.
    + apply mk_mapping_range in R. destruct R as (n & B & ->).
      destruct (proj1 (new_ids_ranges _ _ _ _ _ I) S') as (n' & B' & E). symmetry in E. apply (fresh_sensor_rig _ _ E).
    + apply mk_mapping_range in S. destruct S as (n & B & ->).
      destruct (proj2 (new_ids_ranges _ _ _ _ _ I) R') as (n' & B' & E). apply (fresh_sensor_rig _ _ E).
    + apply mk_mapping_range in S. destruct S as (n & B & ->).
      destruct (proj1 (new_ids_ranges _ _ _ _ _ I) S') as (n' & B' & E). apply fresh_inj in E. lia.
  - apply IH. intros d' I'. apply W. right; exact I'.
Qed.

Lemma good_nth maps : forall i j mi mj,
  good maps -> (i < j)%nat -> nth_error maps i = Some mi -> nth_error maps j = Some mj -> disjoint_rng mi mj.
Proof.
  induction maps as [|m maps IH]; intros [|i] [|j] mi mj G L Ei Ej; cbn in *; try discriminate; try lia.
  - injection Ei as <-. destruct G as (_ & D & _). apply D. eapply nth_error_In; eauto.
  - destruct G as (_ & _ & G). apply (IH i j mi mj G); auto; lia.
Qed.

Lemma good_nth_pair maps : forall i m, good maps -> nth_error maps i = Some m -> good_pair m.
Proof.
  induction maps as [|m0 maps IH]; intros [|i] m G E; cbn in *; try discriminate.
  - injection E as <-. apply G.
  - apply (IH i m); [apply G|exact E].
Qed.

Lemma disjoint_rng_sym m m' : disjoint_rng m m' -> disjoint_rng m' m.
Proof. intros D x I I'. apply (D x I' I). Qed.

(* offsets: the concrete numbering *)
Definition soffset (ds : list dataset) (i : nat) : N :=
  fold_right N.add 0%N (map (fun d => N.of_nat (List.length (skeys d))) (firstn i ds)).
Definition roffset (ds : list dataset) (i : nat) : N :=
  fold_right N.add 0%N (map (fun d => N.of_nat (List.length (rkeys d))) (firstn i ds)).

Lemma new_ids_nth ds : forall soff roff i d,
  nth_error ds i = Some d ->
  nth_error (new_ids ds soff roff) i =
  Some (mk_mapping "rig" (rkeys d) (roff + roffset ds i), mk_mapping "sensor" (skeys d) (soff + soffset ds i)).
Proof.
  induction ds as [|d0 ds IH]; intros soff roff [|i] d E; cbn in E; try discriminate.
  - injection E as ->. rewrite new_ids_cons. cbn. unfold soffset, roffset. cbn. rewrite !N.add_0_r. reflexivity.
  - rewrite new_ids_cons. cbn [nth_error]. rewrite (IH _ _ i d E).
    unfold soffset, roffset. cbn [firstn map fold_right]. rewrite !N.add_assoc. reflexivity.
Qed.

Lemma new_ids_length ds : forall soff roff, List.length (new_ids ds soff roff) = List.length ds.
Proof. induction ds as [|d ds IH]; intros; [reflexivity|]. rewrite new_ids_cons. cbn. rewrite IH. reflexivity. Qed.

(* ------------------------------------------------------------------ table merges *)
Section Tab.
  Context {K : Type} `{EqDec K}.
  Variable rn : smap * smap -> K -> option K.
  Variable put : K -> Z -> al K Z -> al K Z.
  Hypothesis put_absent : forall k v m, ~ In k (keys m) -> put k v m = m ++ [(k, v)].

  (* the entries of one input under their new keys: all or nothing *)
  Fixpoint ren_all (m : smap * smap) (es : al K Z) : option (al K Z) :=
    match es with
    | [] => Some []
    | (k, v) :: es' =>
        match rn m k, ren_all m es' with
        | Some k', Some r => Some ((k', v) :: r)
        | _, _ => None
        end
    end.
  (* the disjoint union over the inputs: concatenation, each table renamed by the mapping at ITS position *)
  Fixpoint ren_tabs (tabs : list (option (al K Z))) (maps : list (smap * smap)) : option (al K Z) :=
    match tabs, maps with
    | ot :: tabs', m :: maps' =>
        match ot with
        | None => ren_tabs tabs' maps'
        | Some t => match ren_all m t, ren_tabs tabs' maps' with
                    | Some r, Some r' => Some (r ++ r')
                    | _, _ => None
                    end
        end
    | _, _ => Some []
    end.

  Lemma keys_app (a b : al K Z) : keys (a ++ b) = keys a ++ keys b.
  Proof. unfold keys. apply map_app. Qed.

  Lemma NoDup_app_l (a b : list K) : NoDup (a ++ b) -> NoDup a.
  Proof. induction a as [|x a IH]; cbn; intros N; [constructor|]. inversion N; subst. constructor; [|auto]. rewrite in_app_iff in *. tauto. Qed.

  Lemma add_entries_spec m es : forall acc,
    match add_entries rn put m es acc with
    | Ok acc' => exists r, ren_all m es = Some r /\ (NoDup (keys acc ++ keys r) -> acc' = acc ++ r)
    | ErrKey => ren_all m es = None
    end.
  Proof.
    induction es as [|[k v] es IH]; intros acc; cbn.
    - exists []. split; [reflexivity|]. intros _. rewrite app_nil_r. reflexivity.
    - destruct (rn m k) as [k'|]; [|reflexivity].
      specialize (IH (put k' v acc)). destruct (add_entries rn put m es (put k' v acc)) as [acc'|].
      + destruct IH as (r & E & X). rewrite E. exists ((k', v) :: r). split; [reflexivity|].
        intros ND. cbn in ND.
        assert (A : ~ In k' (keys acc)).
        { intros I. apply NoDup_remove_2 in ND. apply ND. apply in_app_iff. left. exact I. }
        rewrite (put_absent _ _ _ A) in X. rewrite X.
        * rewrite <- app_assoc. reflexivity.
        * rewrite keys_app. cbn. rewrite <- app_assoc. cbn.
          (* NoDup (keys acc ++ k' :: keys r) from ND *) exact ND.
      + rewrite IH. reflexivity.
  Qed.

  Lemma merge_tab_spec tabs : forall maps acc,
    match merge_tab rn put tabs maps acc with
    | Ok out => exists r, ren_tabs tabs maps = Some r /\ (NoDup (keys acc ++ keys r) -> out = acc ++ r)
    | ErrKey => ren_tabs tabs maps = None
    end.
  Proof.
    induction tabs as [|ot tabs IH]; intros maps acc; cbn.
    - exists []. split; [reflexivity|]. intros _. rewrite app_nil_r. reflexivity.
    - destruct maps as [|m maps]; [exists []; split; [reflexivity|]; intros _; rewrite app_nil_r; reflexivity|].
      destruct ot as [t|]; [|apply IH].
      pose proof (add_entries_spec m t acc) as A. destruct (add_entries rn put m t acc) as [acc'|].
      + destruct A as (r & E & X). rewrite E. specialize (IH maps acc').
        destruct (merge_tab rn put tabs maps acc') as [out|].
        * destruct IH as (r' & E' & X'). rewrite E'. exists (r ++ r'). split; [reflexivity|].
          intros ND. rewrite keys_app, app_assoc in ND.
          rewrite X in X' by (apply NoDup_app_l in ND; exact ND).
          rewrite X'; [rewrite app_assoc; reflexivity|]. rewrite keys_app. exact ND.
        * rewrite IH. reflexivity.
      + rewrite A. reflexivity.
  Qed.

  Lemma ren_all_length m es r : ren_all m es = Some r -> List.length r = List.length es.
  Proof.
    revert r; induction es as [|[k v] es IH]; intros r; cbn; [intros [= <-]; reflexivity|].
    destruct (rn m k); [|discriminate]. destruct (ren_all m es) as [r0|]; [|discriminate].
    intros [= <-]. cbn. rewrite (IH r0); reflexivity.
  Qed.

  Lemma ren_all_In m es r : ren_all m es = Some r ->
    forall k' v, In (k', v) r <-> exists k, In (k, v) es /\ rn m k = Some k'.
  Proof.
    revert r; induction es as [|[k0 v0] es IH]; intros r; cbn.
    - intros [= <-] k' v. split; [intros []|]. intros (k & [] & _).
    - destruct (rn m k0) as [k0'|] eqn:R; [|discriminate]. destruct (ren_all m es) as [r0|]; [|discriminate].
      intros [= <-] k' v. cbn. rewrite (IH r0 eq_refl). split.
      + intros [[= <- <-]|(k & I & E)]; [exists k0; auto|exists k; auto].
      + intros (k & [[= <- <-]|I] & E); [left; congruence|right; exists k; auto].
  Qed.

  Lemma ren_all_None m es : ren_all m es = None <-> exists k v, In (k, v) es /\ rn m k = None.
  Proof.
    induction es as [|[k0 v0] es IH]; cbn.
    - split; [discriminate|]. intros (k & v & [] & _).
    - destruct (rn m k0) as [k0'|] eqn:R.
      + destruct (ren_all m es) as [r0|].
        * split; [discriminate|]. intros (k & v & [[= <- <-]|I] & E); [congruence|].
          assert (X : @None (al K Z) = None) by reflexivity. apply IH in X || idtac.
          destruct IH as [_ IH]. discriminate IH. exists k, v. auto.
        * split; [|reflexivity]. intros _. destruct IH as [IH _]. destruct (IH eq_refl) as (k & v & I & E).
          exists k, v. auto.
      + split; [|reflexivity]. intros _. exists k0, v0. auto.
  Qed.

  (* membership in the disjoint union, by position *)
  Lemma ren_tabs_In tabs : forall maps r, ren_tabs tabs maps = Some r ->
    forall k' v, In (k', v) r <->
      exists i t m k, nth_error tabs i = Some (Some t) /\ nth_error maps i = Some m /\ In (k, v) t /\ rn m k = Some k'.
  Proof.
    induction tabs as [|ot tabs IH]; intros maps r; cbn.
    - intros [= <-] k' v. split; [intros []|]. intros (i & t & m & k & E & _). destruct i; discriminate.
    - destruct maps as [|m0 maps].
      + intros [= <-] k' v. split; [intros []|]. intros (i & t & m & k & _ & E & _). destruct i; discriminate.
      + destruct ot as [t0|].
        * destruct (ren_all m0 t0) as [r0|] eqn:R0; [|discriminate].
          destruct (ren_tabs tabs maps) as [r1|] eqn:R1; [|discriminate].
          intros [= <-] k' v. rewrite in_app_iff, (ren_all_In _ _ _ R0), (IH maps r1 R1). split.
          -- intros [(k & I & E)|(i & t & m & k & E1 & E2 & I & E)].
             ++ exists 0%nat, t0, m0, k. cbn. auto.
             ++ exists (S i), t, m, k. cbn. auto.
          -- intros (i & t & m & k & E1 & E2 & I & E). destruct i as [|i]; cbn in E1, E2.
             ++ injection E1 as <-. injection E2 as <-. left. exists k. auto.
             ++ right. exists i, t, m, k. auto.
        * intros R k' v. rewrite (IH maps r R). split.
          -- intros (i & t & m & k & E1 & E2 & I & E). exists (S i), t, m, k. cbn. auto.
          -- intros (i & t & m & k & E1 & E2 & I & E). destruct i as [|i]; cbn in E1, E2; [discriminate|].
             exists i, t, m, k. auto.
  Qed.

  Lemma ren_tabs_None tabs : forall maps, ren_tabs tabs maps = None <->
    exists i t m k v, nth_error tabs i = Some (Some t) /\ nth_error maps i = Some m /\ In (k, v) t /\ rn m k = None.
  Proof.
    induction tabs as [|ot tabs IH]; intros maps; cbn.
    - split; [discriminate|]. intros (i & t & m & k & v & E & _). destruct i; discriminate.
    - destruct maps as [|m0 maps].
      + split; [discriminate|]. intros (i & t & m & k & v & _ & E & _). destruct i; discriminate.
      + destruct ot as [t0|].
        * destruct (ren_all m0 t0) as [r0|] eqn:R0.
          -- destruct (ren_tabs tabs maps) as [r1|] eqn:R1.
             ++ split; [discriminate|]. intros (i & t & m & k & v & E1 & E2 & I & E). destruct i as [|i]; cbn in E1, E2.
                ** injection E1 as <-. injection E2 as <-.
                   assert (X : ren_all m0 t0 = None) by (apply ren_all_None; exists k, v; auto). congruence.
                ** assert (X : ren_tabs tabs maps = None) by (apply IH; exists i, t, m, k, v; auto). congruence.
             ++ split; [|reflexivity]. intros _. destruct (proj1 (IH maps) R1) as (i & t & m & k & v & E1 & E2 & I & E).
                exists (S i), t, m, k, v. cbn. auto.
          -- split; [|reflexivity]. intros _. destruct (proj1 (ren_all_None m0 t0) R0) as (k & v & I & E).
             exists 0%nat, t0, m0, k, v. cbn. auto.
        * rewrite IH. split.
          -- intros (i & t & m & k & v & E1 & E2 & I & E). exists (S i), t, m, k, v. cbn. auto.
          -- intros (i & t & m & k & v & E1 & E2 & I & E). destruct i as [|i]; cbn in E1, E2; [discriminate|].
             exists i, t, m, k, v. auto.
  Qed.

  (* counts add up *)
  Fixpoint total_entries (tabs : list (option (al K Z))) (maps : list (smap * smap)) : nat :=
    match tabs, maps with
    | ot :: tabs', _ :: maps' => (match ot with Some t => List.length t | None => 0 end + total_entries tabs' maps')%nat
    | _, _ => 0%nat
    end.
  Lemma ren_tabs_length tabs : forall maps r, ren_tabs tabs maps = Some r -> List.length r = total_entries tabs maps.
  Proof.
    induction tabs as [|ot tabs IH]; intros maps r; cbn; [intros [= <-]; reflexivity|].
    destruct maps as [|m0 maps]; [intros [= <-]; reflexivity|]. destruct ot as [t0|]; [|apply IH].
    destruct (ren_all m0 t0) as [r0|] eqn:R0; [|discriminate].
    destruct (ren_tabs tabs maps) as [r1|] eqn:R1; [|discriminate]. intros [= <-].
    rewrite app_length, (ren_all_length _ _ _ R0), (IH maps r1 R1). reflexivity.
  Qed.

  (* ---- no two renamed keys collide, given: a "device" component of the new key lies in the range of the
          mapping pair used, and renaming with a good pair is injective *)
  Variable dev : K -> string.
  Hypothesis rn_dev : forall m k k', rn m k = Some k' -> in_rng (dev k') m.
  Hypothesis rn_inj : forall m k1 k2 k', good_pair m -> rn m k1 = Some k' -> rn m k2 = Some k' -> k1 = k2.

  Lemma ren_all_keys_dev m es r : ren_all m es = Some r -> forall k', In k' (keys r) -> in_rng (dev k') m.
  Proof.
    intros R k' I. apply in_map_iff in I. destruct I as ([k v] & <- & I). cbn.
    apply (ren_all_In _ _ _ R) in I. destruct I as (k0 & _ & E). eapply rn_dev; eauto.
  Qed.

  Lemma ren_all_NoDup m es : good_pair m -> NoDup (keys es) -> forall r, ren_all m es = Some r -> NoDup (keys r).
  Proof.
    intros G. induction es as [|[k v] es IH]; cbn; intros ND r.
    - intros [= <-]. constructor.
    - destruct (rn m k) as [k'|] eqn:R; [|discriminate]. destruct (ren_all m es) as [r0|] eqn:R0; [|discriminate].
      intros [= <-]. inversion ND as [|? ? NI ND']; subst. cbn. constructor; [|apply IH; auto].
      intros I. apply in_map_iff in I. destruct I as ([k1 v1] & E & I). cbn in E. subst k1.
      apply (ren_all_In _ _ _ R0) in I. destruct I as (k2 & I2 & E2).
      assert (k = k2) by (eapply rn_inj; eauto). subst k2. apply NI. apply in_map_iff. exists (k, v1). auto.
  Qed.

  Lemma ren_tabs_keys_dev tabs : forall maps r, ren_tabs tabs maps = Some r ->
    forall k', In k' (keys r) -> exists m, In m maps /\ in_rng (dev k') m.
  Proof.
    intros maps r R k' I. apply in_map_iff in I. destruct I as ([k v] & <- & I). cbn.
    apply (ren_tabs_In _ _ _ R) in I. destruct I as (i & t & m & k0 & _ & E2 & _ & E).
    exists m. split; [eapply nth_error_In; eauto|eapply rn_dev; eauto].
  Qed.

  Lemma NoDup_app_intro (a b : list K) : NoDup a -> NoDup b -> (forall x, In x a -> ~ In x b) -> NoDup (a ++ b).
  Proof.
    induction a as [|x a IH]; cbn; intros Na Nb D; [exact Nb|]. inversion Na; subst.
    constructor; [rewrite in_app_iff; intros [I|I]; [auto|apply (D x); auto]|]. apply IH; auto.
  Qed.

  Lemma ren_tabs_NoDup tabs : forall maps r,
    good maps -> (forall t, In (Some t) tabs -> NoDup (keys t)) ->
    ren_tabs tabs maps = Some r -> NoDup (keys r).
  Proof.
    induction tabs as [|ot tabs IH]; intros maps r G W; cbn; [intros [= <-]; constructor|].
    destruct maps as [|m0 maps]; [intros [= <-]; constructor|]. destruct G as (G0 & D & G).
    assert (W' : forall t, In (Some t) tabs -> NoDup (keys t)) by (intros t I; apply W; right; exact I).
    destruct ot as [t0|]; [|apply IH; auto].
    destruct (ren_all m0 t0) as [r0|] eqn:R0; [|discriminate].
    destruct (ren_tabs tabs maps) as [r1|] eqn:R1; [|discriminate]. intros [= <-]. rewrite keys_app.
    apply NoDup_app_intro.
    - apply (ren_all_NoDup m0 t0 G0); [apply W; left; reflexivity|exact R0].
    - apply (IH maps r1 G W' R1).
    - intros k' I0 I1. pose proof (ren_all_keys_dev _ _ _ R0 _ I0) as X0.
      destruct (ren_tabs_keys_dev _ _ _ R1 _ I1) as (m & Im & X1). apply (D m Im (dev k') X0 X1).
  Qed.

  (* the exactness theorem for one kind of table *)
  Theorem merge_tab_exact tabs maps out :
    good maps -> (forall t, In (Some t) tabs -> NoDup (keys t)) ->
    merge_tab rn put tabs maps [] = Ok out -> ren_tabs tabs maps = Some out.
  Proof.
    intros G W E. pose proof (merge_tab_spec tabs maps []) as S. rewrite E in S.
    destruct S as (r & R & X). rewrite R. f_equal. symmetry. apply X. cbn.
    apply (ren_tabs_NoDup tabs maps r G W R).
  Qed.

  Theorem merge_tab_err_iff tabs maps : merge_tab rn put tabs maps [] = ErrKey <-> ren_tabs tabs maps = None.
  Proof.
    pose proof (merge_tab_spec tabs maps []) as S. destruct (merge_tab rn put tabs maps []) as [out|].
    - destruct S as (r & R & _). rewrite R. split; discriminate.
    - tauto.
  Qed.
End Tab.

(* ------------------------------------------------------------------ the two ways of storing a key *)
Lemma insert_absent {K V} `{EqDec K} (k : K) (v : V) (m : al K V) : ~ In k (keys m) -> insert k v m = m ++ [(k, v)].
Proof.
  induction m as [|[k0 v0] m IH]; cbn; intros N; [reflexivity|].
  destruct (eqb_spec k k0) as [->|D]; [exfalso; apply N; auto|]. rewrite IH; auto.
Qed.

Lemma insert_new_absent {K V} `{EqDec K} (k : K) (v : V) (m : al K V) : ~ In k (keys m) -> insert_new k v m = m ++ [(k, v)].
Proof.
  intros N. unfold insert_new. assert (X : mem k m = false).
  { destruct (mem k m) eqn:E; [|reflexivity]. apply mem_In_keys in E. contradiction. }
  rewrite X. apply insert_absent. exact N.
Qed.

(* ------------------------------------------------------------------ the five key shapes *)
Definition dev1 (k : string) : string := k.
Definition dev2 (k : Z * string) : string := snd k.
Definition dev3 (k : Z * string * string) : string := snd (fst k).
Definition dev_rig (k : string * string) : string := fst k.

Lemma rn1_dev m k k' : rn1 m k = Some k' -> in_rng (dev1 k') m.
Proof. unfold rn1. intros E. right. exists k. exact E. Qed.
Lemma rn1_inj m k1 k2 k' : good_pair m -> rn1 m k1 = Some k' -> rn1 m k2 = Some k' -> k1 = k2.
Proof. intros (_ & I & _). unfold rn1. apply I. Qed.

Lemma rn2_dev m k k' : rn2 m k = Some k' -> in_rng (dev2 k') m.
Proof. unfold rn2. destruct (lookup (snd k) (snd m)) eqn:E; [|discriminate]. intros [= <-]. right. exists (snd k). exact E. Qed.
Lemma rn2_inj m k1 k2 k' : good_pair m -> rn2 m k1 = Some k' -> rn2 m k2 = Some k' -> k1 = k2.
Proof.
  intros (_ & I & _). unfold rn2. destruct k1 as [t1 s1], k2 as [t2 s2]; cbn.
  destruct (lookup s1 (snd m)) eqn:E1; [|discriminate]. destruct (lookup s2 (snd m)) eqn:E2; [|discriminate].
  intros [= <-] [= -> ->]. f_equal. eapply I; eauto.
Qed.

Lemma rn3_dev m k k' : rn3 m k = Some k' -> in_rng (dev3 k') m.
Proof.
  unfold rn3. destruct k as [[t s] a]. destruct (lookup s (snd m)) eqn:E; [|discriminate]. intros [= <-].
  right. exists s. exact E.
Qed.
Lemma rn3_inj m k1 k2 k' : good_pair m -> rn3 m k1 = Some k' -> rn3 m k2 = Some k' -> k1 = k2.
Proof.
  intros (_ & I & _). unfold rn3. destruct k1 as [[t1 s1] a1], k2 as [[t2 s2] a2].
  destruct (lookup s1 (snd m)) eqn:E1; [|discriminate]. destruct (lookup s2 (snd m)) eqn:E2; [|discriminate].
  intros [= <-] [= -> -> ->]. f_equal. f_equal. eapply I; eauto.
Qed.

Lemma rn_rig_dev m k k' : rn_rig m k = Some k' -> in_rng (dev_rig k') m.
Proof.
  unfold rn_rig. destruct (lookup (fst k) (fst m)) eqn:E; [|discriminate].
  destruct (lookup (snd k) (snd m)); [|discriminate]. intros [= <-]. left. exists (fst k). exact E.
Qed.
Lemma rn_rig_inj m k1 k2 k' : good_pair m -> rn_rig m k1 = Some k' -> rn_rig m k2 = Some k' -> k1 = k2.
Proof.
  intros (I1 & I2 & _). unfold rn_rig. destruct k1 as [r1 s1], k2 as [r2 s2]; cbn.
  destruct (lookup r1 (fst m)) eqn:A1; [|discriminate]. destruct (lookup s1 (snd m)) eqn:B1; [|discriminate].
  destruct (lookup r2 (fst m)) eqn:A2; [|discriminate]. destruct (lookup s2 (snd m)) eqn:B2; [|discriminate].
  intros [= <-] [= -> ->]. f_equal; [eapply I1|eapply I2]; eauto.
Qed.

Lemma rn_traj_dev m k k' : rn_traj m k = Some k' -> in_rng (dev2 k') m.
Proof.
  unfold rn_traj. destruct (lookup (snd k) (fst m)) eqn:E.
  - intros [= <-]. left. exists (snd k). exact E.
  - destruct (lookup (snd k) (snd m)) eqn:E'; [|discriminate]. intros [= <-]. right. exists (snd k). exact E'.
Qed.
Lemma rn_traj_inj m k1 k2 k' : good_pair m -> rn_traj m k1 = Some k' -> rn_traj m k2 = Some k' -> k1 = k2.
Proof.
  intros (I1 & I2 & D). unfold rn_traj. destruct k1 as [t1 s1], k2 as [t2 s2]; cbn.
  destruct (lookup s1 (fst m)) as [x1|] eqn:A1.
  - intros [= <-]. destruct (lookup s2 (fst m)) as [x2|] eqn:A2.
    + intros [= -> ->]. f_equal. eapply I1; eauto.
    + destruct (lookup s2 (snd m)) as [y2|] eqn:B2; [|discriminate]. intros [= -> ->]. exfalso.
      apply (D x1); [exists s1; exact A1|exists s2; exact B2].
  - destruct (lookup s1 (snd m)) as [y1|] eqn:B1; [|discriminate]. intros [= <-].
    destruct (lookup s2 (fst m)) as [x2|] eqn:A2.
    + intros [= -> ->]. exfalso. apply (D y1); [exists s2; exact A2|exists s1; exact B1].
    + destruct (lookup s2 (snd m)) as [y2|] eqn:B2; [|discriminate]. intros [= -> ->]. f_equal. eapply I2; eauto.
Qed.

(* ------------------------------------------------------------------ well-formed inputs (Python dicts: unique keys) *)
Definition wf_dataset (d : dataset) : Prop :=
  NoDup (skeys d) /\
  (forall r, d_rigs d = Some r -> NoDup (keys r)) /\
  (forall t, d_traj d = Some t -> NoDup (keys t)) /\
  (forall k t, d_rec2 d k = Some t -> NoDup (keys t)) /\
  (forall k t, d_rec3 d k = Some t -> NoDup (keys t)).
Definition wf_inputs (ds : list dataset) : Prop := forall d, In d ds -> wf_dataset d.

Lemma wf_inputs_sensors ds : wf_inputs ds -> wf_sensors ds.
Proof. intros W d I. apply (W d I). Qed.

Lemma wf_tabs {T} (f : dataset -> option (al T Z)) ds :
  (forall d t, In d ds -> f d = Some t -> NoDup (keys t)) -> forall t, In (Some t) (map f ds) -> NoDup (keys t).
Proof. intros W t I. apply in_map_iff in I. destruct I as (d & E & I). apply (W d t I E). Qed.

Lemma wf_sensor_tabs ds : wf_inputs ds -> forall t, In (Some t) (map d_sensors ds) -> NoDup (keys t).
Proof.
  intros W. apply wf_tabs. intros d t I E. destruct (W d I) as (S & _). unfold skeys in S. rewrite E in S. exact S.
Qed.

(* ------------------------------------------------------------------ exactness, part by part *)
Lemma merge_sensors_exact ds out : wf_inputs ds ->
  merge_sensors ds = Ok out -> ren_tabs rn1 (map d_sensors ds) (ids_of ds) = Some out.
Proof.
  intros W. apply (merge_tab_exact rn1 insert insert_absent dev1 rn1_dev rn1_inj).
  - apply good_new_ids, wf_inputs_sensors, W.
  - apply wf_sensor_tabs, W.
Qed.

Lemma merge_rigs_exact ds out : wf_inputs ds ->
  merge_rigs ds = Ok out -> ren_tabs rn_rig (map d_rigs ds) (ids_of ds) = Some out.
Proof.
  intros W. apply (merge_tab_exact rn_rig insert insert_absent dev_rig rn_rig_dev rn_rig_inj).
  - apply good_new_ids, wf_inputs_sensors, W.
  - apply wf_tabs. intros d t I E. apply (W d I). exact E.
Qed.

Lemma merge_traj_exact ds out : wf_inputs ds ->
  merge_traj ds = Ok out -> ren_tabs rn_traj (map d_traj ds) (ids_of ds) = Some out.
Proof.
  intros W. apply (merge_tab_exact rn_traj insert insert_absent dev2 rn_traj_dev rn_traj_inj).
  - apply good_new_ids, wf_inputs_sensors, W.
  - apply wf_tabs. intros d t I E. apply (W d I). exact E.
Qed.

Lemma merge_rec2_exact k ds out : wf_inputs ds ->
  merge_rec2 k ds = Ok out -> ren_tabs rn2 (map (fun d => d_rec2 d k) ds) (ids_of ds) = Some out.
Proof.
  intros W. apply (merge_tab_exact rn2 insert insert_absent dev2 rn2_dev rn2_inj).
  - apply good_new_ids, wf_inputs_sensors, W.
  - apply wf_tabs. intros d t I E. destruct (W d I) as (_ & _ & _ & X & _). apply (X k t E).
Qed.

Lemma merge_rec3_exact k ds out : wf_inputs ds ->
  merge_rec3 k ds = Ok out -> ren_tabs rn3 (map (fun d => d_rec3 d k) ds) (ids_of ds) = Some out.
Proof.
  intros W. apply (merge_tab_exact rn3 insert_new insert_new_absent dev3 rn3_dev rn3_inj).
  - apply good_new_ids, wf_inputs_sensors, W.
  - apply wf_tabs. intros d t I E. destruct (W d I) as (_ & _ & _ & _ & X). apply (X k t E).
Qed.

(* every sensor of every input gets an identifier (the sensors merge cannot raise) *)
Lemma ids_of_nth ds i d : nth_error ds i = Some d ->
  nth_error (ids_of ds) i = Some (mk_mapping "rig" (rkeys d) (roffset ds i), mk_mapping "sensor" (skeys d) (soffset ds i)).
Proof. intros E. unfold ids_of. rewrite (new_ids_nth ds 0 0 i d E). reflexivity. Qed.

Lemma merge_sensors_total ds : exists out, merge_sensors ds = Ok out.
Proof.
  destruct (merge_sensors ds) as [out|] eqn:E; [eauto|]. exfalso.
  apply (merge_tab_err_iff rn1 insert insert_absent) in E. apply ren_tabs_None in E.
  destruct E as (i & t & m & k & v & E1 & E2 & I & R).
  rewrite nth_error_map in E1. destruct (nth_error ds i) as [d|] eqn:Ed; [|discriminate]. cbn in E1. injection E1 as E1.
  rewrite (ids_of_nth _ _ _ Ed) in E2. injection E2 as <-. unfold rn1 in R. cbn in R.
  destruct (mk_mapping_total "sensor" (skeys d) (soffset ds i) k) as [x X]; [|congruence].
  unfold skeys. rewrite E1. apply in_map_iff. exists (k, v). auto.
Qed.

(* ------------------------------------------------------------------ the driver *)
Lemma all_kind2_complete k : In k all_kind2.
Proof. destruct k; cbn; tauto. Qed.
Lemma all_kind3_complete k : In k all_kind3.
Proof. destruct k; cbn; tauto. Qed.

Lemma merge_remap_inv skip ds m : merge_remap skip ds = Ok m ->
  is_ok (merge_sensors ds) = true /\ is_ok (merge_rigs ds) = true /\
  (sk_traj skip = false -> is_ok (merge_traj ds) = true) /\
  (forall k, sk_rec2 skip k = false -> is_ok (merge_rec2 k ds) = true) /\
  (forall k, sk_rec3 skip k = false -> is_ok (merge_rec3 k ds) = true) /\
  m = mkM (part false (merge_sensors ds)) (part false (merge_rigs ds)) (part (sk_traj skip) (merge_traj ds))
          (fun k => part (sk_rec2 skip k) (merge_rec2 k ds)) (fun k => part (sk_rec3 skip k) (merge_rec3 k ds)).
Proof.
  unfold merge_remap.
  destruct (is_ok (merge_sensors ds) && is_ok (merge_rigs ds) && (sk_traj skip || is_ok (merge_traj ds))
            && forallb (fun k => sk_rec2 skip k || is_ok (merge_rec2 k ds)) all_kind2
            && forallb (fun k => sk_rec3 skip k || is_ok (merge_rec3 k ds)) all_kind3) eqn:E; [|discriminate].
  intros [= <-]. rewrite !andb_true_iff in E. destruct E as ((((A & B) & C) & D) & F).
  rewrite forallb_forall in D, F. repeat split; auto.
  - intros S. rewrite S in C. exact C.
  - intros k S. specialize (D k (all_kind2_complete k)). rewrite S in D. exact D.
  - intros k S. specialize (F k (all_kind3_complete k)). rewrite S in F. exact F.
Qed.

Lemma is_ok_true {A} (r : result A) : is_ok r = true -> exists a, r = Ok a.
Proof. destruct r; [eauto|discriminate]. Qed.

(* a KeyError in a part that is merged aborts the whole merge, and only that does *)
Lemma merge_remap_err_iff skip ds : merge_remap skip ds = ErrKey <->
  merge_sensors ds = ErrKey \/ merge_rigs ds = ErrKey \/ (sk_traj skip = false /\ merge_traj ds = ErrKey) \/
  (exists k, sk_rec2 skip k = false /\ merge_rec2 k ds = ErrKey) \/
  (exists k, sk_rec3 skip k = false /\ merge_rec3 k ds = ErrKey).
Proof.
  unfold merge_remap.
  destruct (is_ok (merge_sensors ds) && is_ok (merge_rigs ds) && (sk_traj skip || is_ok (merge_traj ds))
            && forallb (fun k => sk_rec2 skip k || is_ok (merge_rec2 k ds)) all_kind2
            && forallb (fun k => sk_rec3 skip k || is_ok (merge_rec3 k ds)) all_kind3) eqn:E.
  - split; [discriminate|]. rewrite !andb_true_iff in E. destruct E as ((((A & B) & C) & D) & F).
    rewrite forallb_forall in D, F.
    intros [X|[X|[[S X]|[[k [S X]]|[k [S X]]]]]].
    + rewrite X in A; discriminate.
    + rewrite X in B; discriminate.
    + rewrite S, X in C; discriminate.
    + specialize (D k (all_kind2_complete k)). rewrite S, X in D; discriminate.
    + specialize (F k (all_kind3_complete k)). rewrite S, X in F; discriminate.
  - split; [intros _|reflexivity]. rewrite !andb_false_iff in E.
    destruct E as [[[[A|B]|C]|D]|F].
    + left. destruct (merge_sensors ds); [discriminate|reflexivity].
    + right; left. destruct (merge_rigs ds); [discriminate|reflexivity].
    + right; right; left. apply orb_false_iff in C. destruct C as [S C]. split; [exact S|].
      destruct (merge_traj ds); [discriminate|reflexivity].
    + right; right; right; left.
      assert (X : exists k, (sk_rec2 skip k || is_ok (merge_rec2 k ds)) = false).
      { clear -D. induction all_kind2 as [|k l IH]; cbn in D; [discriminate|].
        apply andb_false_iff in D. destruct D as [D|D]; [eauto|auto]. }
      destruct X as [k X]. apply orb_false_iff in X. destruct X as [S X]. exists k. split; [exact S|].
      destruct (merge_rec2 k ds); [discriminate|reflexivity].
    + right; right; right; right.
      assert (X : exists k, (sk_rec3 skip k || is_ok (merge_rec3 k ds)) = false).
      { clear -F. induction all_kind3 as [|k l IH]; cbn in F; [discriminate|].
        apply andb_false_iff in F. destruct F as [F|F]; [eauto|auto]. }
      destruct X as [k X]. apply orb_false_iff in X. destruct X as [S X]. exists k. split; [exact S|].
      destruct (merge_rec3 k ds); [discriminate|reflexivity].
Qed.
