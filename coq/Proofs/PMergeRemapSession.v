(* Proofs/PMergeRemapSession.v — property C10, the time dimension: successive merges that are handed the same
   skip list object (Model/MMergeRemap.v: skipname, skipset_of, merge_remap_call, session), and why a single
   call cannot tell a merge that marks absent parts as skipped from one that does not. *)
From Coq Require Import List Bool String ZArith NArith Lia.
From KV Require Import Eqb AL Str.
From KV.Model Require Import MMergeRemap.
From KV.Proofs Require Import PMergeRemap.
Import ListNotations.
Local Open Scope string_scope.
Local Open Scope list_scope.

(* ---- sessions *)
Lemma session_exact sl steps :
  session sl steps = map (fun ds => (merge_remap (skipset_of sl) ds, sl)) steps.
Proof. induction steps as [|ds rest IH]; cbn; [reflexivity|]. rewrite IH. reflexivity. Qed.

Lemma session_length sl steps : List.length (session sl steps) = List.length steps.
Proof. rewrite session_exact. apply map_length. Qed.

Lemma session_nth sl pre ds post :
  nth_error (session sl (pre ++ ds :: post)) (List.length pre) = Some (merge_remap (skipset_of sl) ds, sl).
Proof.
  rewrite session_exact, map_app. cbn.
  rewrite nth_error_app2; rewrite map_length; [|lia]. rewrite Nat.sub_diag. reflexivity.
Qed.

Lemma session_skip_unchanged sl steps r : In r (session sl steps) -> snd r = sl.
Proof. rewrite session_exact. intros I. apply in_map_iff in I. destruct I as (ds & <- & _). reflexivity. Qed.

(* ---- membership in the skip list *)
Lemma skipname_eqb_code x y : skipname_eqb x y = true -> skipname_code x = skipname_code y.
Proof.
  unfold skipname_eqb. intros E. apply andb_true_iff in E. destruct E as [A B].
  apply N.eqb_eq in A. apply String.eqb_eq in B.
  destruct (skipname_code x), (skipname_code y); cbn in *; subst; reflexivity.
Qed.

Lemma skipname_code_inj x y : skipname_code x = skipname_code y -> x = y.
Proof.
  destruct x as [|k|k|s], y as [|k'|k'|s']; try destruct k; try destruct k'; cbn; intros E;
    try discriminate E; try reflexivity.
  injection E as ->. reflexivity.
Qed.

Lemma skipname_eqb_spec x y : reflect (x = y) (skipname_eqb x y).
Proof.
  destruct (skipname_eqb x y) eqn:E; constructor.
  - apply skipname_code_inj, skipname_eqb_code, E.
  - intros ->. unfold skipname_eqb in E. rewrite N.eqb_refl, String.eqb_refl in E. discriminate.
Qed.

Lemma sl_has_In x sl : sl_has x sl = true <-> In x sl.
Proof.
  unfold sl_has. rewrite existsb_exists. split.
  - intros (y & I & E). destruct (skipname_eqb_spec x y); [subst; exact I|discriminate].
  - intros I. exists x. split; [exact I|]. destruct (skipname_eqb_spec x x); [reflexivity|contradiction].
Qed.

Lemma sl_eqb_eq a b : sl_eqb a b = true <-> a = b.
Proof.
  revert b. induction a as [|x a IH]; destruct b as [|y b]; cbn; try (split; [discriminate|discriminate]); [tauto|].
  rewrite andb_true_iff, IH. destruct (skipname_eqb_spec x y); split.
  - intros [_ ->]. subst. reflexivity.
  - intros E. injection E as _ ->. auto.
  - intros [E _]. discriminate.
  - intros E. injection E as -> _. contradiction.
Qed.

Lemma sl_has_app x a b : sl_has x (a ++ b) = sl_has x a || sl_has x b.
Proof. apply existsb_app. Qed.

Lemma sl_has_if x (c : bool) y : sl_has x (if c then [y] else []) = c && skipname_eqb x y.
Proof. destruct c; cbn; [apply orb_false_r|reflexivity]. Qed.

Lemma sl_has_congr x y sl : skipname_eqb x y = true -> sl_has x sl = sl_has y sl.
Proof. intros E. destruct (skipname_eqb_spec x y); [subst; reflexivity|discriminate]. Qed.

Lemma append_new_has x extra : forall sl, sl_has x (append_new sl extra) = sl_has x sl || sl_has x extra.
Proof.
  induction extra as [|y e IH]; intros sl; cbn [append_new].
  - cbn. rewrite orb_false_r. reflexivity.
  - rewrite IH. change (sl_has x (y :: e)) with (skipname_eqb x y || sl_has x e).
    destruct (sl_has y sl) eqn:Hy.
    + destruct (skipname_eqb x y) eqn:E.
      * rewrite (sl_has_congr x y sl E), Hy. reflexivity.
      * reflexivity.
    + rewrite sl_has_app. cbn. rewrite orb_false_r. rewrite orb_assoc. reflexivity.
Qed.

Lemma parts_list_traj ct c2 c3 : sl_has SkTraj (parts_list ct c2 c3) = ct.
Proof.
  unfold parts_list, all_kind2, all_kind3. cbn [flat_map]. rewrite !sl_has_app, !sl_has_if. cbn.
  rewrite ?andb_false_r, ?andb_true_r, ?orb_false_r. reflexivity.
Qed.

Lemma parts_list_rec2 ct c2 c3 k : sl_has (SkRec2 k) (parts_list ct c2 c3) = c2 k.
Proof.
  unfold parts_list, all_kind2, all_kind3. cbn [flat_map]. rewrite !sl_has_app, !sl_has_if.
  destruct k; cbn; rewrite ?andb_false_r, ?andb_true_r, ?orb_false_r, ?orb_false_l; reflexivity.
Qed.

Lemma parts_list_rec3 ct c2 c3 k : sl_has (SkRec3 k) (parts_list ct c2 c3) = c3 k.
Proof.
  unfold parts_list, all_kind2, all_kind3. cbn [flat_map]. rewrite !sl_has_app, !sl_has_if.
  destruct k; cbn; rewrite ?andb_false_r, ?andb_true_r, ?orb_false_r, ?orb_false_l; reflexivity.
Qed.

(* ---- a part that no input has merges to the empty table, whatever the mappings *)
Lemma merge_tab_all_none {K} `{EqDec K} (rn : smap * smap -> K -> option K) put tabs :
  forall maps acc, (forall ot, In ot tabs -> ot = None) -> merge_tab rn put tabs maps acc = Ok acc.
Proof.
  induction tabs as [|ot tabs IH]; intros maps acc A; cbn; [reflexivity|].
  destruct maps as [|m maps]; [reflexivity|].
  rewrite (A ot (or_introl eq_refl)). apply IH. intros o I. apply A. right. exact I.
Qed.

Lemma all_none_map {A} (f : dataset -> option A) ds : all_none f ds = true -> forall ot, In ot (map f ds) -> ot = None.
Proof.
  unfold all_none. rewrite forallb_forall. intros F ot I. apply in_map_iff in I. destruct I as (d & <- & I).
  specialize (F d I). destruct (f d); [discriminate|reflexivity].
Qed.

Lemma forallb_ext' {A} (f g : A -> bool) l : (forall x, f x = g x) -> forallb f l = forallb g l.
Proof. intros E. induction l; cbn; [reflexivity|]. rewrite E, IHl. reflexivity. Qed.

Lemma skip_or_absent {A} (b a : bool) (r : result (list A)) : (a = true -> r = Ok []) ->
  ((b || a) || is_ok r = b || is_ok r) /\ part (b || a) r = part b r.
Proof.
  intros E. destruct a; [|rewrite orb_false_r; auto]. rewrite (E eq_refl). destruct b; cbn; auto.
Qed.

(* the two results agree on every part (a merged dataset holds functions: equality is stated part by part) *)
Definition merged_ext (a b : merged) : Prop :=
  m_sensors a = m_sensors b /\ m_rigs a = m_rigs b /\ m_traj a = m_traj b /\
  (forall k, m_rec2 a k = m_rec2 b k) /\ (forall k, m_rec3 a k = m_rec3 b k).
Definition result_ext (r1 r2 : result merged) : Prop :=
  match r1, r2 with
  | Ok a, Ok b => merged_ext a b
  | ErrKey, ErrKey => True
  | _, _ => False
  end.

Lemma mark_absent_one_call sl ds :
  result_ext (merge_remap (skipset_of (mark_absent sl ds)) ds) (merge_remap (skipset_of sl) ds).
Proof.
  assert (T : let a := all_none d_traj ds in a = true -> merge_traj ds = Ok []).
  { intros a E. unfold merge_traj. apply merge_tab_all_none. apply all_none_map. exact E. }
  assert (R2 : forall k, all_none (fun d => d_rec2 d k) ds = true -> merge_rec2 k ds = Ok []).
  { intros k E. unfold merge_rec2. apply merge_tab_all_none. apply (all_none_map (fun d => d_rec2 d k)). exact E. }
  assert (R3 : forall k, all_none (fun d => d_rec3 d k) ds = true -> merge_rec3 k ds = Ok []).
  { intros k E. unfold merge_rec3. apply merge_tab_all_none. apply (all_none_map (fun d => d_rec3 d k)). exact E. }
  cbn in T.
  unfold merge_remap. cbn [sk_traj sk_rec2 sk_rec3 skipset_of]. unfold mark_absent, absent_parts.
  rewrite !append_new_has, parts_list_traj. unfold tab2, tab3, al in *.
  destruct (skip_or_absent (sl_has SkTraj sl) _ _ T) as [T1 T2]. rewrite T1.
  rewrite (forallb_ext' _ (fun k => sl_has (SkRec2 k) sl || is_ok (merge_rec2 k ds)) all_kind2).
  2:{ intros k. rewrite append_new_has, parts_list_rec2. apply (skip_or_absent _ _ _ (R2 k)). }
  rewrite (forallb_ext' _ (fun k => sl_has (SkRec3 k) sl || is_ok (merge_rec3 k ds)) all_kind3).
  2:{ intros k. rewrite append_new_has, parts_list_rec3. apply (skip_or_absent _ _ _ (R3 k)). }
  match goal with |- result_ext (if ?c1 then _ else _) (if ?c2 then _ else _) => change c1 with c2; destruct c2 end;
    cbn [result_ext]; [|exact I]. unfold merged_ext. cbn [m_sensors m_rigs m_traj m_rec2 m_rec3].
  repeat split.
  - exact T2.
  - intros k. rewrite append_new_has, parts_list_rec2. apply (skip_or_absent _ _ _ (R2 k)).
  - intros k. rewrite append_new_has, parts_list_rec3. apply (skip_or_absent _ _ _ (R3 k)).
Qed.

(* ---- naming one more part in the skip list removes that part from the result and touches nothing else *)
Lemma sl_has_cons y x sl : sl_has y (x :: sl) = skipname_eqb y x || sl_has y sl.
Proof. reflexivity. Qed.

Lemma is_ok_err {A} (r : result A) : is_ok r = true -> r = ErrKey -> False.
Proof. intros H ->. discriminate. Qed.

Lemma skip_one_more sl x ds m : merge_remap (skipset_of sl) ds = Ok m ->
  exists m', merge_remap (skipset_of (x :: sl)) ds = Ok m' /\
    m_sensors m' = m_sensors m /\ m_rigs m' = m_rigs m /\
    m_traj m' = (if skipname_eqb SkTraj x then None else m_traj m) /\
    (forall k, m_rec2 m' k = if skipname_eqb (SkRec2 k) x then None else m_rec2 m k) /\
    (forall k, m_rec3 m' k = if skipname_eqb (SkRec3 k) x then None else m_rec3 m k).
Proof.
  intros E. apply merge_remap_inv in E. destruct E as (A & B & C & D & F & ->).
  cbn [sk_traj sk_rec2 sk_rec3 skipset_of] in C, D, F.
  destruct (merge_remap (skipset_of (x :: sl)) ds) as [m'|] eqn:E'.
  - exists m'. split; [reflexivity|]. apply merge_remap_inv in E'. destruct E' as (_ & _ & _ & _ & _ & ->).
    cbn [m_sensors m_rigs m_traj m_rec2 m_rec3 sk_traj sk_rec2 sk_rec3 skipset_of].
    repeat split; try (intros k); rewrite sl_has_cons;
      match goal with |- context [skipname_eqb ?a x] => destruct (skipname_eqb a x) end; reflexivity.
  - exfalso. apply merge_remap_err_iff in E'. cbn [sk_traj sk_rec2 sk_rec3 skipset_of] in E'.
    destruct E' as [E'|[E'|[[S E']|[(k & S & E')|(k & S & E')]]]].
    + exact (is_ok_err _ A E').
    + exact (is_ok_err _ B E').
    + rewrite sl_has_cons in S. apply orb_false_iff in S. exact (is_ok_err _ (C (proj2 S)) E').
    + rewrite sl_has_cons in S. apply orb_false_iff in S. exact (is_ok_err _ (D k (proj2 S)) E').
    + rewrite sl_has_cons in S. apply orb_false_iff in S. exact (is_ok_err _ (F k (proj2 S)) E').
Qed.

(* ---- only membership matters: order and repetitions in the caller's list are irrelevant *)
Lemma skip_list_as_set sl sl' ds : (forall y, In y sl <-> In y sl') ->
  result_ext (merge_remap (skipset_of sl) ds) (merge_remap (skipset_of sl') ds).
Proof.
  intros H. assert (Hb : forall y, sl_has y sl = sl_has y sl').
  { intros y. destruct (sl_has y sl) eqn:A, (sl_has y sl') eqn:B; try reflexivity.
    - apply sl_has_In, H, sl_has_In in A. congruence.
    - apply sl_has_In, H, sl_has_In in B. congruence. }
  unfold merge_remap. cbn [sk_traj sk_rec2 sk_rec3 skipset_of]. rewrite (Hb SkTraj).
  rewrite (forallb_ext' (fun k => sl_has (SkRec2 k) sl || is_ok (merge_rec2 k ds))
                        (fun k => sl_has (SkRec2 k) sl' || is_ok (merge_rec2 k ds)) all_kind2) by (intros k; rewrite Hb; reflexivity).
  rewrite (forallb_ext' (fun k => sl_has (SkRec3 k) sl || is_ok (merge_rec3 k ds))
                        (fun k => sl_has (SkRec3 k) sl' || is_ok (merge_rec3 k ds)) all_kind3) by (intros k; rewrite Hb; reflexivity).
  match goal with |- result_ext (if ?c1 then _ else _) (if ?c2 then _ else _) => change c1 with c2; destruct c2 end;
    cbn [result_ext]; [|exact I]. unfold merged_ext. cbn [m_sensors m_rigs m_traj m_rec2 m_rec3].
  repeat split; try (intros k); rewrite ?Hb; reflexivity.
Qed.
