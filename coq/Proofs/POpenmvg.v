(* Proofs/POpenmvg.v — lemmas about Model/MOpenmvg.v (property C14).
   Contents: generic list / association-list facts; intrinsics round trip; pose round trip (Section Pose, with
   the contract of from_rotation_matrix as hypothesis); explicit form of export and of import∘export for
   in-range datasets; the by-image-name statements used by Props/C14.v. *)
From Coq Require Import QArith Qabs Qminmax ZArith Bool List String Ascii Lia Setoid Morphisms.
From KV Require Import Eqb Str AL.
From KV.Model Require Import MQV MPose MOpenmvg.
From KV.Proofs Require Import PQV.
Import ListNotations.
Local Open Scope string_scope.
Local Open Scope list_scope.

(* ------------------------------------------------------------------ generic *)
Lemma nodupb_NoDup {A} `{EqDec A} (l : list A) : nodupb l = true <-> NoDup l.
Proof.
  induction l as [|x l IH]; cbn; [split; [constructor|reflexivity]|].
  rewrite andb_true_iff, negb_true_iff, memb_not_In, IH. split.
  - intros [N R]; constructor; assumption.
  - intros N; inversion N; subst; split; assumption.
Qed.

Lemma mapM_Some {A B} (f : A -> option B) (g : A -> B) (l : list A) :
  (forall x, In x l -> f x = Some (g x)) -> mapM f l = Some (map g l).
Proof.
  induction l as [|x l IH]; intros Hf; cbn; [reflexivity|].
  rewrite (Hf x (or_introl eq_refl)), IH; [reflexivity|]. intros y Hy; apply Hf; right; exact Hy.
Qed.

Lemma filter_map_Some {A B} (f : A -> option B) (g : A -> B) (l : list A) :
  (forall x, In x l -> f x = Some (g x)) -> filter_map f l = map g l.
Proof.
  induction l as [|x l IH]; intros Hf; cbn; [reflexivity|].
  rewrite (Hf x (or_introl eq_refl)), IH; [reflexivity|]. intros y Hy; apply Hf; right; exact Hy.
Qed.

Lemma filter_all {A} (p : A -> bool) (l : list A) : (forall x, In x l -> p x = true) -> List.filter p l = l.
Proof.
  induction l as [|x l IH]; intros Hp; cbn; [reflexivity|].
  rewrite (Hp x (or_introl eq_refl)), IH; [reflexivity|]. intros y Hy; apply Hp; right; exact Hy.
Qed.

(* dedup of a duplicate-free list *)
Lemma dedup_acc_NoDup_id {A} `{EqDec A} (l seen : list A) :
  NoDup l -> (forall x, In x l -> ~ In x seen) -> dedup_acc seen l = l.
Proof.
  revert seen; induction l as [|x l IH]; intros seen ND Hs; cbn; [reflexivity|].
  inversion ND as [|? ? Nx ND']; subst.
  replace (memb x seen) with false by (symmetry; apply memb_not_In, Hs; left; reflexivity).
  f_equal. apply IH; [assumption|]. intros y Hy [<-|Hin]; [contradiction|]. apply (Hs y); [right; assumption|assumption].
Qed.
Lemma dedup_NoDup_id {A} `{EqDec A} (l : list A) : NoDup l -> dedup l = l.
Proof. intros ND; apply dedup_acc_NoDup_id; [assumption|intros x _ []]. Qed.

(* idx is injective on members *)
Lemma idxn_inj {A} `{EqDec A} (l : list A) (x y : A) : In x l -> In y l -> idxn x l = idxn y l -> x = y.
Proof.
  induction l as [|z l IH]; cbn; [tauto|]. intros Hx Hy.
  destruct (eqb_spec x z) as [->|Nx], (eqb_spec y z) as [->|Ny]; try congruence; try discriminate.
  intros E; injection E as E. apply IH; [destruct Hx; congruence|destruct Hy; congruence|assumption].
Qed.
Lemma idx_inj {A} `{EqDec A} (l : list A) (x y : A) : In x l -> In y l -> idx x l = idx y l -> x = y.
Proof. unfold idx; intros Hx Hy E; apply Nat2Z.inj in E; eapply idxn_inj; eassumption. Qed.

Lemma NoDup_map_inj {A B} (f : A -> B) (l : list A) :
  NoDup l -> (forall x y, In x l -> In y l -> f x = f y -> x = y) -> NoDup (map f l).
Proof.
  induction l as [|x l IH]; intros ND Hf; cbn; [constructor|].
  inversion ND as [|? ? Nx ND']; subst. constructor.
  - rewrite in_map_iff. intros [y [E Hy]]. apply Nx. rewrite (Hf x y); auto; [left; reflexivity|right; assumption].
  - apply IH; [assumption|]. intros a b Ha Hb; apply Hf; right; assumption.
Qed.
Lemma NoDup_map_inv {A B} (f : A -> B) (l : list A) : NoDup (map f l) -> NoDup l.
Proof.
  induction l as [|x l IH]; cbn; intros ND; [constructor|]. inversion ND as [|? ? Nx ND']; subst.
  constructor; [|apply IH; assumption]. intros Hin; apply Nx, in_map; assumption.
Qed.
Lemma NoDup_map_filter {A B} (f : A -> B) (p : A -> bool) (l : list A) : NoDup (map f l) -> NoDup (map f (List.filter p l)).
Proof.
  induction l as [|x l IH]; cbn; intros ND; [constructor|]. inversion ND as [|? ? Nx ND']; subst.
  destruct (p x); cbn; [|apply IH; assumption]. constructor; [|apply IH; assumption].
  intros Hin. apply Nx. apply in_map_iff in Hin. destruct Hin as [y [E Hy]]. apply filter_In in Hy.
  rewrite <- E. apply in_map. apply Hy.
Qed.
Lemma NoDup_map_inj_on {A B} (f : A -> B) (l : list A) (x y : A) :
  NoDup (map f l) -> In x l -> In y l -> f x = f y -> x = y.
Proof.
  induction l as [|z l IH]; cbn; [tauto|]. intros ND Hx Hy E. inversion ND as [|? ? Nz ND']; subst.
  destruct Hx as [<-|Hx], Hy as [<-|Hy]; auto.
  - exfalso; apply Nz; rewrite E; apply in_map; assumption.
  - exfalso; apply Nz; rewrite <- E; apply in_map; assumption.
Qed.

(* a dict filled from a list with distinct keys is that list *)
Lemma insert_fresh {K V} `{EqDec K} (k : K) (v : V) (m : list (K * V)) :
  ~ In k (map fst m) -> AL.insert k v m = m ++ [(k, v)].
Proof.
  induction m as [|[k' v'] m IH]; cbn; intros N; [reflexivity|].
  destruct (eqb_spec k k') as [->|Ne]; [exfalso; apply N; left; reflexivity|].
  rewrite IH; [reflexivity|]. intros Hin; apply N; right; assumption.
Qed.
Lemma al_of_list_nodup_aux {K V} `{EqDec K} (l acc : list (K * V)) :
  NoDup (map fst (acc ++ l)) -> fold_left (fun m e => AL.insert (fst e) (snd e) m) l acc = acc ++ l.
Proof.
  revert acc; induction l as [|[k v] l IH]; intros acc ND; cbn; [rewrite app_nil_r; reflexivity|].
  rewrite insert_fresh.
  - rewrite IH; rewrite <- app_assoc; [reflexivity|exact ND].
  - rewrite map_app in ND. cbn in ND. apply NoDup_remove_2 in ND. intros Hin; apply ND, in_or_app; left; assumption.
Qed.
Lemma al_of_list_nodup {K V} `{EqDec K} (l : list (K * V)) : NoDup (map fst l) -> al_of_list l = l.
Proof. intros ND; unfold al_of_list; rewrite al_of_list_nodup_aux; [reflexivity|exact ND]. Qed.

(* lookups in a list built by map, through an injective key *)
Lemma lookup_map_key {A K V} `{EqDec K} (key : A -> K) (val : A -> V) (l : list A) (x : A) :
  NoDup (map key l) -> In x l -> AL.lookup (key x) (map (fun y => (key y, val y)) l) = Some (val x).
Proof.
  induction l as [|z l IH]; cbn; [tauto|]. intros ND Hx. inversion ND as [|? ? Nz ND']; subst.
  destruct (eqb_spec (key x) (key z)) as [E|Ne].
  - destruct Hx as [->|Hx]; [reflexivity|]. exfalso; apply Nz; rewrite <- E; apply in_map; assumption.
  - destruct Hx as [->|Hx]; [congruence|]. apply IH; assumption.
Qed.
Lemma lookup_map_notin {A K V} `{EqDec K} (key : A -> K) (val : A -> V) (l : list A) (k : K) :
  ~ In k (map key l) -> AL.lookup k (map (fun y => (key y, val y)) l) = None.
Proof.
  induction l as [|z l IH]; cbn; [reflexivity|]. intros N.
  destruct (eqb_spec k (key z)) as [E|Ne]; [exfalso; apply N; left; congruence|]. apply IH; intros Hin; apply N; right; assumption.
Qed.
Lemma find_map_key {A K} `{EqDec K} (key : A -> K) (l : list A) (x : A) :
  NoDup (map key l) -> In x l -> find (fun y => eqb (key y) (key x)) l = Some x.
Proof.
  induction l as [|z l IH]; cbn; [tauto|]. intros ND Hx. inversion ND as [|? ? Nz ND']; subst.
  destruct (eqb_spec (key z) (key x)) as [E|Ne].
  - destruct Hx as [->|Hx]; [reflexivity|]. exfalso; apply Nz; rewrite E; apply in_map; assumption.
  - destruct Hx as [->|Hx]; [congruence|]. apply IH; assumption.
Qed.
Lemma find_map {A B} (p : B -> bool) (g : A -> B) (l : list A) :
  find p (map g l) = option_map g (find (fun x => p (g x)) l).
Proof. induction l as [|x l IH]; cbn; [reflexivity|]. destruct (p (g x)); [reflexivity|exact IH]. Qed.
Lemma find_ext_in {A} (p q : A -> bool) (l : list A) : (forall x, In x l -> p x = q x) -> find p l = find q l.
Proof.
  induction l as [|x l IH]; intros E; cbn; [reflexivity|]. rewrite (E x (or_introl eq_refl)).
  destruct (q x); [reflexivity|]. apply IH; intros y Hy; apply E; right; assumption.
Qed.

(* ------------------------------------------------------------------ intrinsics *)
Lemma qlist_eqb_refl l : qlist_eqb l l = true.
Proof. induction l as [|x l IH]; cbn; [reflexivity|]. rewrite IH, andb_true_r. apply Qeq_bool_iff; reflexivity. Qed.

Ltac qb := repeat (apply andb_true_intro; split); try reflexivity;
  try (apply Qeq_bool_iff; first [reflexivity | assumption | symmetry; assumption]).

(* the two mapping functions invert each other on the representable set, whichever JSON layout is written:
   what comes back is the same projection function (possibly under another kapture model name:
   PINHOLE -> SIMPLE_PINHOLE, FULL_OPENCV with k3 = 0 -> OPENCV) *)
Lemma intrinsics_roundtrip (layout_v2 : bool) (c : camera) :
  representable c = true ->
  exists i c', export_cam layout_v2 c = Some i /\ import_cam i = Some c' /\ cam_equiv c' c = true.
Proof.
  destruct c as [t ps]. unfold representable, cam_equiv, canon. cbn [c_type c_params].
  destruct (Nat.eqb (List.length ps) (param_count t)) eqn:L; cbn [negb]; [|discriminate].
  destruct t; cbn in L;
    do 15 (try (destruct ps as [|? ps]; cbn in L; try discriminate L)); cbn [negb];
    try discriminate; unfold qnth; cbn [nth];
    rewrite !andb_true_iff; intros (((((F & K4) & K5) & K6) & W) & Hh);
    apply Qeq_bool_iff in F, K4, K5, K6, W, Hh.
  - (* SIMPLE_PINHOLE *) eexists _, _; split; [reflexivity|]; split; [reflexivity|]. cbn. qb.
  - (* PINHOLE *) eexists _, _; split; [reflexivity|]; split; [reflexivity|]. cbn. qb;
      apply Qeq_bool_iff; rewrite <- F; field.
  - (* SIMPLE_RADIAL *) eexists _, _; split; [reflexivity|]; split; [reflexivity|]. cbn. qb.
  - (* RADIAL *) eexists _, _; split; [reflexivity|]; split; [reflexivity|]. cbn. qb.
  - (* OPENCV *) eexists _, _; split; [reflexivity|]; split; [destruct layout_v2; reflexivity|]. cbn. qb;
      apply Qeq_bool_iff; rewrite <- F; field.
  - (* FULL_OPENCV *)
    match goal with |- context [mkCam FULL_OPENCV [_; _; _; _; _; _; _; _; _; _; ?k3; _; _; _]] =>
      destruct (Qeq_bool k3 0) eqn:K3 end.
    + eexists _, _; split; [reflexivity|]; split; [destruct layout_v2; cbn; unfold qnth; cbn [nth]; rewrite K3; reflexivity|].
      apply Qeq_bool_iff in K3. cbn. qb; apply Qeq_bool_iff; rewrite <- F; field.
    + eexists _, _; split; [reflexivity|]; split; [destruct layout_v2; cbn; unfold qnth; cbn [nth]; rewrite K3; reflexivity|].
      cbn. qb; apply Qeq_bool_iff; rewrite <- F; field.
Qed.

(* what OpenMVG cannot express is outside the range: the exporter maps it to something else or refuses *)
Lemma fisheye_not_representable ps : representable (mkCam OPENCV_FISHEYE ps) = false
  /\ representable (mkCam RADIAL_FISHEYE ps) = false /\ representable (mkCam SIMPLE_RADIAL_FISHEYE ps) = false
  /\ representable (mkCam FOV ps) = false /\ representable (mkCam THIN_PRISM_FISHEYE ps) = false
  /\ representable (mkCam UNKNOWN_CAMERA ps) = false.
Proof. unfold representable, canon; cbn. repeat split; destruct (negb _); reflexivity. Qed.

(* ------------------------------------------------------------------ poses *)
Lemma centre_inverse (p : pose) : centre p =v= pt (MPose.inverse p).
Proof. unfold centre, MPose.inverse; cbn [pt]. rewrite mvmul_r_eq, rot_r_eq, qinv_r_eq. reflexivity. Qed.
Lemma rotation_rot (p : pose) : rotation p =m= rot (pr p).
Proof. apply rot_r_eq. Qed.

Section Pose.
  (* numpy-quaternion's from_rotation_matrix, by contract: on a rotation matrix it returns a non-zero
     quaternion whose rotation is that matrix (sign and scale are free) *)
  Variable from_matrix : mat -> quat.
  Hypothesis from_matrix_rot : forall M, mmul M (mtrans M) =m= mid -> mdet M == 1 ->
    rot (from_matrix M) =m= M /\ ~ n2 (from_matrix M) == 0.

  Definition reimport_pose (p : pose) : pose :=
    let mt := import_pose (centre p, rotation p) in mkP (from_matrix (fst mt)) (snd mt).

  (* t' = -R (-R^T t) = t  and  rot r' = rot r *)
  Lemma pose_roundtrip (p : pose) : ~ n2 (pr p) == 0 ->
    rot (pr (reimport_pose p)) =m= rot (pr p) /\ pt (reimport_pose p) =v= pt p /\ ~ n2 (pr (reimport_pose p)) == 0.
  Proof.
    intros NZ. unfold reimport_pose, import_pose. cbn [fst snd pr pt].
    assert (O : mmul (rotation p) (mtrans (rotation p)) =m= mid) by (rewrite rotation_rot; apply rot_orth_r; exact NZ).
    assert (D : mdet (rotation p) == 1) by (rewrite rotation_rot; apply rot_det; exact NZ).
    destruct (from_matrix_rot (rotation p) O D) as [R N]. split; [|split]; [|  |exact N].
    - rewrite R. apply rotation_rot.
    - unfold centre, rotation. rewrite !mvmul_r_eq, !rot_r_eq, qinv_r_eq.
      rewrite (rot_inv_cancel_r (pr p) (vneg (pt p)) NZ). apply vneg_involutive.
  Qed.
End Pose.

(* ------------------------------------------------------------------ more generic facts *)
Lemma lookup_Some_In {K V} `{EqDec K} (k : K) (v : V) (m : list (K * V)) : AL.lookup k m = Some v -> In (k, v) m.
Proof.
  induction m as [|[k' v'] m IH]; cbn; [discriminate|].
  destruct (eqb_spec k k') as [->|Ne]; [intros [= ->]; left; reflexivity|intros E; right; apply IH; exact E].
Qed.
Lemma lookup_In_nodup {K V} `{EqDec K} (k : K) (v : V) (m : list (K * V)) :
  NoDup (map fst m) -> In (k, v) m -> AL.lookup k m = Some v.
Proof. intros ND Hin. apply AL.lookup_In; assumption. Qed.

Lemma filter_map_map {A B C} (f : B -> option C) (g : A -> B) (l : list A) :
  filter_map f (map g l) = filter_map (fun x => f (g x)) l.
Proof. induction l as [|x l IH]; cbn; [reflexivity|]. rewrite IH; reflexivity. Qed.

Lemma last_snoc {A} (l : list A) (x d : A) : last (l ++ [x]) d = x.
Proof. induction l as [|y l IH]; cbn; [reflexivity|]. destruct (l ++ [x]) eqn:E; [destruct l; discriminate|exact IH]. Qed.
Lemma last_cons_snoc {A} (b : A) (l : list A) (x d : A) : last (b :: l ++ [x]) d = x.
Proof. change (b :: l ++ [x]) with ((b :: l) ++ [x]). apply last_snoc. Qed.

(* lookup through an injective renaming of the keys *)
Lemma lookup_map_fst_inj {K K' V} `{EqDec K} `{EqDec K'} (f : K -> K') (m : list (K * V)) (k : K) :
  (forall k', In k' (map fst m) -> f k' = f k -> k' = k) ->
  AL.lookup (f k) (map (fun e => (f (fst e), snd e)) m) = AL.lookup k m.
Proof.
  induction m as [|[k' v] m IH]; cbn; intros Inj; [reflexivity|].
  destruct (eqb_spec (f k) (f k')) as [E|Ne], (eqb_spec k k') as [E'|Ne']; try reflexivity.
  - exfalso; apply Ne'; symmetry; apply Inj; [left; reflexivity|congruence].
  - congruence.
  - apply IH. intros k'' Hin; apply Inj; right; assumption.
Qed.

(* a filter_map whose results carry the key of their source *)
Lemma lookup_filter_map_key {A K V} `{EqDec K} (key : A -> K) (h : A -> option V) (l : list A) (x : A) :
  NoDup (map key l) -> In x l ->
  AL.lookup (key x) (filter_map (fun y => option_map (pair (key y)) (h y)) l) = h x.
Proof.
  induction l as [|z l IH]; cbn; [tauto|]. intros ND Hx. inversion ND as [|? ? Nz ND']; subst.
  assert (Hz : forall y, In y l -> key y <> key z) by (intros y Hy E; apply Nz; rewrite <- E; apply in_map; assumption).
  destruct Hx as [->|Hx].
  - destruct (h x) eqn:Hh; cbn.
    + destruct (eqb_spec (key x) (key x)); [reflexivity|congruence].
    + clear IH ND ND'. induction l as [|y l IHl]; cbn; [reflexivity|].
      assert (key y <> key x) by (apply Hz; left; reflexivity).
      destruct (h y); cbn.
      * destruct (eqb_spec (key x) (key y)); [congruence|]. apply IHl; [|intros y' Hy'; apply Hz; right; assumption].
        intros Hin; apply Nz; right; assumption.
      * apply IHl; [|intros y' Hy'; apply Hz; right; assumption]. intros Hin; apply Nz; right; assumption.
  - destruct (h z); cbn; [|apply IH; assumption].
    destruct (eqb_spec (key x) (key z)) as [E|Ne]; [exfalso; eapply Hz; eassumption|]. apply IH; assumption.
Qed.
Lemma filter_map_ext_in {A B} (f g : A -> option B) (l : list A) :
  (forall x, In x l -> f x = g x) -> filter_map f l = filter_map g l.
Proof.
  induction l as [|x l IH]; intros E; cbn; [reflexivity|]. rewrite (E x (or_introl eq_refl)), IH; [reflexivity|].
  intros y Hy; apply E; right; assumption.
Qed.
Lemma keys_filter_map_key {A K V} (key : A -> K) (h : A -> option V) (l : list A) :
  NoDup (map key l) -> NoDup (map fst (filter_map (fun y => option_map (pair (key y)) (h y)) l)).
Proof.
  induction l as [|z l IH]; cbn; intros ND; [constructor|]. inversion ND as [|? ? Nz ND']; subst.
  destruct (h z); cbn; [|apply IH; assumption]. constructor; [|apply IH; assumption].
  intros Hin. apply Nz. clear -Hin. induction l as [|y l IHl]; cbn in *; [contradiction|].
  destruct (h y); cbn in *; [destruct Hin as [<-|Hin]; [left; reflexivity|right; apply IHl; exact Hin]|right; apply IHl; exact Hin].
Qed.

Lemma mapM_map {A B C} (f : B -> option C) (h : A -> B) (l : list A) : mapM f (map h l) = mapM (fun x => f (h x)) l.
Proof. induction l as [|x l IH]; cbn; [reflexivity|]. rewrite IH; reflexivity. Qed.

(* Observations.add over the landmarks, read back per point *)
Lemma add_obs_fold (l m : list (Z * list (path * Z))) :
  exists m', fold_left add_obs (map (fun x => (fst x, Some (snd x))) l) (Some m) = Some m' /\
  forall k, obs_at m' k = obs_at m k ++ List.concat (map (fun x => if Z.eqb (fst x) k then snd x else []) l).
Proof.
  revert m; induction l as [|[kx ox] l IH]; intros m; cbn [map fold_left].
  - exists m. split; [reflexivity|]. intros k. cbn. rewrite app_nil_r. reflexivity.
  - unfold add_obs at 2. cbn [fst snd]. destruct ox as [|o ox].
    + destruct (IH m) as [m' [F Hm]]. exists m'. split; [exact F|]. intros k. rewrite Hm. cbn [List.concat map fst snd].
      destruct (Z.eqb kx k); reflexivity.
    + destruct (IH (AL.insert kx (obs_at m kx ++ o :: ox) m)) as [m' [F Hm]]. exists m'. split; [exact F|].
      intros k. rewrite Hm. cbn [List.concat map fst snd]. unfold obs_at at 1.
      destruct (Z.eqb_spec kx k) as [->|Ne].
      * rewrite AL.lookup_insert_eq. rewrite <- app_assoc. reflexivity.
      * rewrite AL.lookup_insert_neq by congruence. reflexivity.
Qed.

(* ------------------------------------------------------------------ in-range datasets *)
Section InRange.
  Variable cfg : config.
  Variable d : dataset.
  Hypothesis IR : in_range cfg d = true.

  Let rn := rename cfg d.

  Lemma ir_facts :
    NoDup (map fst (d_cams d)) /\ (forall n, In n (names d) -> n <> []) /\ NoDup (names d) /\
    NoDup (map rn (names d)) /\ NoDup (map (region_name cfg d) (names d)) /\
    (forall i, In i (d_images d) -> image_ok d i = true) /\
    (forall e, In e (d_obs d) -> obs_ok d e = true) /\
    (forall e, In e (d_kp d) -> In (fst e) (names d)) /\
    (forall e, In e (d_matches d) -> match_ok d e = true) /\ pairs_distinct (map fst (d_matches d)) = true.
  Proof.
    unfold in_range in IR. rewrite !andb_true_iff in IR.
    destruct IR as (((((((((A & B) & C) & D) & E) & F) & G) & H) & I) & J).
    apply nodupb_NoDup in A. apply nodupb_NoDup in C. apply nodupb_NoDup in D. apply nodupb_NoDup in E.
    rewrite forallb_forall in B, F, G, H, I.
    repeat split; try assumption.
    - intros n Hn. specialize (B n Hn). apply negb_true_iff, eqb_false in B. exact B.
    - intros e He. apply memb_In, H, He.
  Qed.

  Lemma ND_cams : NoDup (map fst (d_cams d)). Proof. apply ir_facts. Qed.
  Lemma ND_names : NoDup (names d). Proof. apply ir_facts. Qed.
  Lemma ND_rn : NoDup (map rn (names d)). Proof. apply ir_facts. Qed.
  Lemma ND_reg : NoDup (map (region_name cfg d) (names d)). Proof. apply ir_facts. Qed.

  Lemma rn_inj a b : In a (names d) -> In b (names d) -> rn a = rn b -> a = b.
  Proof. apply NoDup_map_inj_on, ND_rn. Qed.

  Lemma vid_names n : vid d n = idx n (names d).
  Proof. unfold vid. rewrite (dedup_NoDup_id _ ND_names). reflexivity. Qed.
  Lemma vid_inj a b : In a (names d) -> In b (names d) -> vid d a = vid d b -> a = b.
  Proof. rewrite !vid_names. apply idx_inj. Qed.
  Lemma ND_vid : NoDup (map (vid d) (names d)).
  Proof. apply NoDup_map_inj; [apply ND_names|apply vid_inj]. Qed.
  Lemma cid_inj a b : In a (map i_cam (d_images d)) -> In b (map i_cam (d_images d)) -> cid d a = cid d b -> a = b.
  Proof. unfold cid. intros Ha Hb. apply idx_inj; apply dedup_In; assumption. Qed.

  Lemma ND_images_name : NoDup (map i_name (d_images d)). Proof. apply ND_names. Qed.
  Lemma In_names i : In i (d_images d) -> In (i_name i) (names d).
  Proof. intros H; unfold names; apply in_map; exact H. Qed.

  (* camera and pose of an image *)
  Definition cam_of_img (i : image) : camera :=
    match AL.lookup (i_cam i) (d_cams d) with Some c => c | None => mkCam UNKNOWN_CAMERA [] end.
  Definition pose_of_img (i : image) : pose :=
    match AL.lookup (i_ts i, i_cam i) (d_poses d) with Some p => p | None => pid end.

  Lemma image_facts i : In i (d_images d) ->
    AL.lookup (i_cam i) (d_cams d) = Some (cam_of_img i) /\
    AL.lookup (i_ts i, i_cam i) (d_poses d) = Some (pose_of_img i) /\
    representable (cam_of_img i) = true /\ ~ n2 (pr (pose_of_img i)) == 0.
  Proof.
    intros Hi. destruct ir_facts as (_ & _ & _ & _ & _ & F & _). specialize (F i Hi).
    unfold image_ok in F. unfold cam_of_img, pose_of_img.
    destruct (AL.lookup (i_cam i) (d_cams d)); [|discriminate].
    destruct (AL.lookup (i_ts i, i_cam i) (d_poses d)); [|discriminate].
    apply andb_true_iff in F. destruct F as [R N]. repeat split; try assumption.
    apply negb_true_iff in N. intros E. apply Qeq_bool_iff in E. congruence.
  Qed.

  Lemma ts_in_lookup ts c p (ps : list ((Z * string) * pose)) : AL.lookup (ts, c) ps = Some p -> ts_in ts ps = true.
  Proof.
    intros L. apply lookup_Some_In in L. unfold ts_in. apply existsb_exists. exists ((ts, c), p). split; [exact L|apply Z.eqb_refl].
  Qed.

  (* ---------------- export, explicitly *)
  Definition xview (i : image) : view :=
    let op := mvg_path (flatten cfg) (sub_root d) (i_name i) in
    mkView (vid d (i_name i)) (vid d (i_name i)) (cid d (i_cam i)) (vid d (i_name i)) (removelast op) (last op "")
           (Qtrunc (qnth (c_params (cam_of_img i)) 0)) (Qtrunc (qnth (c_params (cam_of_img i)) 1))
           (Some (centre (pose_of_img i), rotation (pose_of_img i))).

  Lemma export_view_x i : In i (d_images d) -> export_view cfg d i = Some (xview i).
  Proof.
    intros Hi. destruct (image_facts i Hi) as (C & P & _ & _). unfold export_view, prior_of.
    rewrite C, (ts_in_lookup _ _ _ _ P), P. reflexivity.
  Qed.

  Lemma view_name_x i : view_name (images_dir cfg d) (xview i) = rn (i_name i).
  Proof. reflexivity. Qed.

  Definition xcam (c : camera) : intrinsic :=
    match export_cam (v2 cfg) c with Some i => i | None => mkIntr Mpinhole Flat 0 0 0 0 0 [] end.
  Definition ycam (c : camera) : camera :=
    match import_cam (xcam c) with Some c' => c' | None => c end.
  Definition used_cams := List.filter (used d) (d_cams d).

  Lemma used_cam_facts e : In e used_cams ->
    In (fst e) (map i_cam (d_images d)) /\ AL.lookup (fst e) (d_cams d) = Some (snd e) /\
    export_cam (v2 cfg) (snd e) = Some (xcam (snd e)) /\ import_cam (xcam (snd e)) = Some (ycam (snd e)) /\
    cam_equiv (ycam (snd e)) (snd e) = true.
  Proof.
    unfold used_cams. rewrite filter_In. intros [He U]. unfold used in U. apply memb_In in U.
    assert (L : AL.lookup (fst e) (d_cams d) = Some (snd e)).
    { apply lookup_In_nodup; [apply ND_cams|]. destruct e; exact He. }
    split; [exact U|]. split; [exact L|].
    apply in_map_iff in U. destruct U as [i [Ei Hi]]. destruct (image_facts i Hi) as (C & _ & R & _).
    rewrite Ei, L in C. injection C as C. rewrite <- C in R.
    destruct (intrinsics_roundtrip (v2 cfg) (snd e) R) as (x & c' & X & Y & Q).
    unfold ycam, xcam. rewrite X, Y. repeat split; assumption.
  Qed.

  Lemma export_intrinsics_x :
    export_intrinsics cfg d = Some (map (fun e => (cid d (fst e), xcam (snd e))) used_cams).
  Proof.
    unfold export_intrinsics. apply mapM_Some. intros e He.
    destruct (used_cam_facts e He) as (_ & _ & X & _). rewrite X. reflexivity.
  Qed.

  Definition xobs (l : list (path * Z)) : list (Z * Z) := map (fun o => (vid d (fst o), snd o)) l.
  Lemma obs_at_members k o : In o (obs_at (d_obs d) k) -> In (fst o) (names d) /\ In (fst o) (map fst (d_kp d)).
  Proof.
    unfold obs_at. destruct (AL.lookup k (d_obs d)) as [l|] eqn:L; [|intros []].
    apply lookup_Some_In in L. destruct ir_facts as (_ & _ & _ & _ & _ & _ & G & _).
    specialize (G _ L). unfold obs_ok in G. cbn in G. rewrite forallb_forall in G. intros Ho.
    specialize (G o Ho). apply andb_true_iff in G. destruct G as [A B]. split; apply memb_In; assumption.
  Qed.
  Lemma export_obs_x k : export_obs d (obs_at (d_obs d) k) = Some (xobs (obs_at (d_obs d) k)).
  Proof.
    apply mapM_Some. intros o Ho. destruct (obs_at_members k o Ho) as [A _]. apply memb_In in A. rewrite A. reflexivity.
  Qed.
  Fixpoint xstructure (k : Z) (pts : list vec) : list landmark :=
    match pts with [] => [] | x :: pts' => mkLm k x (xobs (obs_at (d_obs d) k)) :: xstructure (k + 1) pts' end.
  Lemma structure_from_x k pts : structure_from d k pts = Some (xstructure k pts).
  Proof. revert k; induction pts as [|x pts IH]; intros k; cbn; [reflexivity|]. rewrite export_obs_x, IH. reflexivity. Qed.

  Lemma match_members e : In e (d_matches d) ->
    In (fst (fst e)) (names d) /\ In (snd (fst e)) (names d) /\ fst (fst e) <> snd (fst e).
  Proof.
    intros He. destruct ir_facts as (_ & _ & _ & _ & _ & _ & _ & _ & I & _). specialize (I e He).
    unfold match_ok in I. rewrite !andb_true_iff in I. destruct I as [[A B] C].
    apply memb_In in A, B. apply negb_true_iff, eqb_false in C. auto.
  Qed.
  Definition xmatch (e : (path * path) * list (Z * Z)) := ((vid d (fst (fst e)), vid d (snd (fst e))), snd e).
  Lemma export_matches_x : export_matches d = Some (map xmatch (d_matches d)).
  Proof.
    apply mapM_Some. intros e He. destruct (match_members e He) as (A & B & _).
    apply memb_In in A, B. cbv zeta. rewrite A, B. reflexivity.
  Qed.

  Definition xsfm : sfm :=
    mkSfm (images_dir cfg d) (map (fun e => (cid d (fst e), xcam (snd e))) used_cams) (map xview (d_images d))
          (map (fun i => (vid d (i_name i), (centre (pose_of_img i), rotation (pose_of_img i)))) (d_images d))
          (match d_points d with None => None | Some pts => Some (xstructure 0 pts) end)
          (map (fun e => (region_name cfg d (fst e), snd e)) (d_kp d)) (map xmatch (d_matches d)).

  Lemma export_x : export cfg d = Some xsfm.
  Proof.
    unfold export, export_with. rewrite (mapM_Some _ xview _ export_view_x), export_intrinsics_x, export_matches_x.
    unfold export_structure, xsfm. rewrite filter_map_map.
    rewrite (filter_map_Some _ (fun i => (vid d (i_name i), (centre (pose_of_img i), rotation (pose_of_img i)))))
      by (intros; reflexivity).
    destruct (d_points d) as [pts|]; [rewrite structure_from_x|]; reflexivity.
  Qed.

  (* ---------------- import of what was exported, explicitly *)
  Definition key_of (i : image) : Z * Z := (vid d (i_name i), cid d (i_cam i)).
  Definition ximgs : list ((Z * Z) * path) := map (fun i => (key_of i, rn (i_name i))) (d_images d).

  Lemma ND_vid_images : NoDup (map (fun i => vid d (i_name i)) (d_images d)).
  Proof. rewrite <- (map_map i_name (vid d)). apply ND_vid. Qed.
  Lemma ND_key_of : NoDup (map key_of (d_images d)).
  Proof.
    apply (NoDup_map_inv fst). rewrite map_map. apply ND_vid_images.
  Qed.
  Lemma ND_rn_images : NoDup (map (fun i => rn (i_name i)) (d_images d)).
  Proof. rewrite <- (map_map i_name rn). apply ND_rn. Qed.

  Lemma import_images_x : import_images (images_dir cfg d) (map xview (d_images d)) = ximgs.
  Proof.
    unfold import_images. rewrite map_map. cbn [v_id_view v_id_intrinsic xview].
    rewrite al_of_list_nodup; [reflexivity|]. rewrite map_map. apply ND_key_of.
  Qed.

  Definition xnames_of : list (Z * path) := map (fun i => (vid d (i_name i), rn (i_name i))) (d_images d).
  Lemma names_of_x :
    al_of_list (map (fun v => (v_id_view v, view_name (images_dir cfg d) v)) (map xview (d_images d))) = xnames_of.
  Proof.
    rewrite map_map. rewrite al_of_list_nodup; [reflexivity|]. rewrite map_map. apply ND_vid_images.
  Qed.
  Lemma In_names_image n : In n (names d) -> exists i, In i (d_images d) /\ i_name i = n.
  Proof. unfold names. rewrite in_map_iff. intros [i [E Hi]]; exists i; auto. Qed.
  Lemma names_of_lookup n : In n (names d) -> AL.lookup (vid d n) xnames_of = Some (rn n).
  Proof.
    intros Hn. destruct (In_names_image n Hn) as [i [Hi <-]].
    apply (lookup_map_key (fun i => vid d (i_name i)) (fun i => rn (i_name i))); [apply ND_vid_images|exact Hi].
  Qed.

  (* keypoints *)
  Definition xkp : list (path * Z) :=
    filter_map (fun i => option_map (pair (rn (i_name i))) (AL.lookup (i_name i) (d_kp d))) (d_images d).
  Lemma stem_rn n : stem (last (rn n) "") = region_name cfg d n.
  Proof. unfold rn, rename, region_name. rewrite last_cons_snoc. reflexivity. Qed.
  Lemma region_lookup n : In n (names d) ->
    AL.lookup (region_name cfg d n) (map (fun e => (region_name cfg d (fst e), snd e)) (d_kp d)) = AL.lookup n (d_kp d).
  Proof.
    intros Hn. apply lookup_map_fst_inj. intros k Hk E.
    apply in_map_iff in Hk. destruct Hk as [e [<- He]].
    destruct ir_facts as (_ & _ & _ & _ & _ & _ & _ & H & _).
    eapply NoDup_map_inj_on; [apply ND_reg|apply H; exact He|exact Hn|exact E].
  Qed.
  Lemma import_kp_x : import_kp ximgs (map (fun e => (region_name cfg d (fst e), snd e)) (d_kp d)) = xkp.
  Proof.
    unfold import_kp, ximgs. rewrite filter_map_map. cbn [snd].
    rewrite (filter_map_ext_in _ (fun i => option_map (pair (rn (i_name i))) (AL.lookup (i_name i) (d_kp d)))).
    - apply al_of_list_nodup. apply (keys_filter_map_key (fun i => rn (i_name i))). apply ND_rn_images.
    - intros i Hi. rewrite stem_rn, (region_lookup _ (In_names i Hi)). destruct (AL.lookup (i_name i) (d_kp d)); reflexivity.
  Qed.
  Lemma xkp_lookup n : In n (names d) -> AL.lookup (rn n) xkp = AL.lookup n (d_kp d).
  Proof.
    intros Hn. destruct (In_names_image n Hn) as [i [Hi <-]].
    apply (lookup_filter_map_key (fun i => rn (i_name i)) (fun i => AL.lookup (i_name i) (d_kp d))); [apply ND_rn_images|exact Hi].
  Qed.

  (* cameras *)
  Definition xcams : list (Z * camera) := map (fun e => (cid d (fst e), ycam (snd e))) used_cams.
  Lemma ND_used_cid : NoDup (map (fun e => cid d (fst e)) used_cams).
  Proof.
    rewrite <- (map_map fst (cid d)). apply NoDup_map_inj.
    - unfold used_cams. apply NoDup_map_filter, ND_cams.
    - intros a b Ha Hb. apply in_map_iff in Ha, Hb. destruct Ha as [ea [<- Ha]], Hb as [eb [<- Hb]].
      apply cid_inj; [apply (used_cam_facts ea Ha)|apply (used_cam_facts eb Hb)].
  Qed.
  Lemma import_cams_x : import_cams (map (fun e => (cid d (fst e), xcam (snd e))) used_cams) = Some xcams.
  Proof.
    unfold import_cams.
    rewrite (mapM_Some _ (fun e' => (fst e', match import_cam (snd e') with Some c => c | None => mkCam UNKNOWN_CAMERA [] end))).
    - cbn [option_map]. f_equal. rewrite map_map. cbn [fst snd].
      rewrite al_of_list_nodup.
      + unfold xcams. apply map_ext_in. intros e He. destruct (used_cam_facts e He) as (_ & _ & _ & Y & _). rewrite Y. reflexivity.
      + rewrite map_map. cbn [fst]. apply ND_used_cid.
    - intros e' He'. apply in_map_iff in He'. destruct He' as [e [<- He]]. cbn [fst snd].
      destruct (used_cam_facts e He) as (_ & _ & _ & Y & _). rewrite Y. reflexivity.
  Qed.
  Lemma xcams_lookup i : In i (d_images d) ->
    AL.lookup (cid d (i_cam i)) xcams = Some (ycam (cam_of_img i)) /\ cam_equiv (ycam (cam_of_img i)) (cam_of_img i) = true.
  Proof.
    intros Hi. destruct (image_facts i Hi) as (C & _).
    assert (He : In (i_cam i, cam_of_img i) used_cams).
    { unfold used_cams. apply filter_In. split; [apply lookup_Some_In; exact C|].
      unfold used. cbn [fst]. apply memb_In, in_map; exact Hi. }
    split; [|apply (used_cam_facts _ He)].
    apply (lookup_map_key (fun e => cid d (fst e)) (fun e => ycam (snd e)) used_cams (i_cam i, cam_of_img i)); [apply ND_used_cid|exact He].
  Qed.

  (* poses *)
  Definition xposes : list ((Z * Z) * (mat * vec)) :=
    map (fun i => (key_of i, import_pose (centre (pose_of_img i), rotation (pose_of_img i)))) (d_images d).
  Lemma import_poses_x :
    import_poses (map xview (d_images d))
      (map (fun i => (vid d (i_name i), (centre (pose_of_img i), rotation (pose_of_img i)))) (d_images d)) = xposes.
  Proof.
    unfold import_poses. rewrite !map_map. cbn [v_id_pose v_id_view v_id_intrinsic xview].
    rewrite (al_of_list_nodup (map (fun x => (vid d (i_name x), vid d (i_name x))) (d_images d)))
      by (rewrite map_map; apply ND_vid_images).
    rewrite (al_of_list_nodup (map (fun x => (vid d (i_name x), cid d (i_cam x))) (d_images d)))
      by (rewrite map_map; apply ND_vid_images).
    rewrite filter_map_map. cbn [fst snd].
    rewrite (filter_map_Some _ (fun i => (key_of i, import_pose (centre (pose_of_img i), rotation (pose_of_img i))))).
    - apply al_of_list_nodup. unfold xposes. rewrite map_map. apply ND_key_of.
    - intros i Hi.
      rewrite (lookup_map_key (fun i => vid d (i_name i)) (fun i => vid d (i_name i)) _ i ND_vid_images Hi).
      rewrite (lookup_map_key (fun i => vid d (i_name i)) (fun i => cid d (i_cam i)) _ i ND_vid_images Hi).
      reflexivity.
  Qed.

  (* matches *)
  Definition normf (e : (path * path) * list (Z * Z)) : (path * path) * list (Z * Z) :=
    if sltb (pstr (rn (snd (fst e)))) (pstr (rn (fst (fst e))))
    then ((rn (snd (fst e)), rn (fst (fst e))), map swap (snd e))
    else ((rn (fst (fst e)), rn (snd (fst e))), snd e).

  Lemma name_of_ts_x n : In n (names d) -> name_of_ts ximgs (vid d n) = Some (rn n).
  Proof.
    intros Hn. destruct (In_names_image n Hn) as [i [Hi <-]].
    unfold name_of_ts, ximgs. rewrite find_map. cbn [fst snd key_of].
    rewrite (find_ext_in _ (fun y => eqb (vid d (i_name y)) (vid d (i_name i)))) by (intros; reflexivity).
    rewrite (find_map_key (fun i => vid d (i_name i)) _ i ND_vid_images Hi). reflexivity.
  Qed.
  Lemma import_match_x e : In e (d_matches d) -> import_match ximgs (xmatch e) = Some (normf e).
  Proof.
    intros He. destruct (match_members e He) as (A & B & _). unfold import_match, xmatch. cbn [fst snd].
    rewrite (name_of_ts_x _ A), (name_of_ts_x _ B). unfold normf.
    destruct (sltb _ _); reflexivity.
  Qed.

  Lemma eqb_rn a b : In a (names d) -> In b (names d) -> eqb (rn a) (rn b) = eqb a b.
  Proof.
    intros Ha Hb. destruct (eqb_spec a b) as [->|N]; [apply eqb_refl|].
    apply neq_eqb. intros E. apply N, rn_inj; assumption.
  Qed.
  Lemma same_pair_normf e x y : In (fst (fst e)) (names d) -> In (snd (fst e)) (names d) -> In x (names d) -> In y (names d) ->
    same_pair (fst (normf e)) (rn x, rn y) = same_pair (fst e) (x, y).
  Proof.
    intros A B X Y. unfold normf, same_pair. destruct (sltb _ _); cbn [fst snd]; rewrite !eqb_rn by assumption.
    - destruct (eqb (snd (fst e)) x), (eqb (fst (fst e)) y), (eqb (snd (fst e)) y), (eqb (fst (fst e)) x); reflexivity.
    - reflexivity.
  Qed.
  Lemma same_pair_normf2 e e' : In (fst (fst e)) (names d) -> In (snd (fst e)) (names d) ->
    In (fst (fst e')) (names d) -> In (snd (fst e')) (names d) ->
    fst (normf e) = fst (normf e') -> same_pair (fst e) (fst e') = true.
  Proof.
    intros A B A' B' E.
    assert (S : same_pair (fst (normf e)) (fst (normf e')) = true).
    { rewrite E. unfold same_pair. rewrite !eqb_refl. reflexivity. }
    revert S. clear E. unfold normf at 2. destruct (sltb _ _); cbn [fst].
    - rewrite same_pair_normf by assumption. unfold same_pair. cbn [fst snd]. rewrite orb_comm. tauto.
    - rewrite same_pair_normf by assumption. destruct (fst e'); tauto.
  Qed.
  Lemma ND_normf_aux (l : list ((path * path) * list (Z * Z))) :
    (forall e, In e l -> In (fst (fst e)) (names d) /\ In (snd (fst e)) (names d)) ->
    pairs_distinct (map fst l) = true -> NoDup (map (fun e => fst (normf e)) l).
  Proof.
    induction l as [|e l IH]; intros M PD; cbn; [constructor|].
    cbn in PD. apply andb_true_iff in PD. destruct PD as [N PD]. apply negb_true_iff in N.
    constructor.
    - intros Hin. apply in_map_iff in Hin. destruct Hin as [e' [E He']].
      assert (S : same_pair (fst e) (fst e') = true).
      { apply same_pair_normf2; try (apply M; left; reflexivity); try (apply M; right; exact He'). symmetry; exact E. }
      assert (X : existsb (same_pair (fst e)) (map fst l) = true).
      { apply existsb_exists. exists (fst e'). split; [apply in_map; exact He'|exact S]. }
      congruence.
    - apply IH; [intros e' He'; apply M; right; exact He'|exact PD].
  Qed.
  Lemma ND_normf : NoDup (map (fun e => fst (normf e)) (d_matches d)).
  Proof.
    apply ND_normf_aux; [|apply ir_facts]. intros e He. destruct (match_members e He) as (A & B & _). auto.
  Qed.
  Definition xmatches := map normf (d_matches d).
  Lemma import_matches_x : import_matches ximgs (map xmatch (d_matches d)) = Some xmatches.
  Proof.
    unfold import_matches. rewrite (mapM_Some _ (fun x => match import_match ximgs x with Some y => y | None => (([], []), []) end)).
    - cbn [option_map]. f_equal. rewrite map_map.
      rewrite (map_ext_in _ normf) by (intros e He; rewrite (import_match_x e He); reflexivity).
      unfold xmatches. apply al_of_list_nodup. rewrite map_map. apply ND_normf.
    - intros x Hx. apply in_map_iff in Hx. destruct Hx as [e [<- He]]. rewrite (import_match_x e He). reflexivity.
  Qed.

  Lemma swap_swap ps : map swap (map swap ps) = ps.
  Proof. rewrite map_map. rewrite <- (map_id ps) at 2. apply map_ext. intros [a b]; reflexivity. Qed.

  (* the matching relation between two images is the same, whatever the orientation either side stores *)
  Lemma match_rel_x x y : In x (names d) -> In y (names d) ->
    match_rel xmatches (rn x) (rn y) = match_rel (d_matches d) x y.
  Proof.
    intros X Y. unfold match_rel, xmatches. rewrite find_map.
    rewrite (find_ext_in _ (fun e => same_pair (fst e) (x, y))).
    2:{ intros e He. destruct (match_members e He) as (A & B & _). apply same_pair_normf; assumption. }
    destruct (find (fun e => same_pair (fst e) (x, y)) (d_matches d)) as [e|] eqn:F; [|reflexivity].
    apply find_some in F. destruct F as [He S]. destruct (match_members e He) as (A & B & NE).
    cbn [option_map]. f_equal. unfold normf. unfold same_pair in S. cbn [fst snd] in S.
    destruct (sltb _ _); cbn [fst snd]; rewrite eqb_rn by assumption; [|reflexivity].
    destruct (eqb_spec (snd (fst e)) x) as [E1|N1], (eqb_spec (fst (fst e)) x) as [E2|N2];
      try reflexivity; try (apply swap_swap); try congruence.
    exfalso. rewrite ?(neq_eqb _ _ N1), ?(neq_eqb _ _ N2), ?andb_false_r in S. cbn in S. discriminate.
  Qed.

  (* structure: points *)
  Lemma xstructure_fill (k : nat) pts :
    map (fun j => match AL.lookup (Z.of_nat j) (map (fun l => (l_key l, l_X l)) (xstructure (Z.of_nat k) pts)) with
                  | Some x => x | None => vzero end) (seq k (List.length pts)) = pts.
  Proof.
    revert k; induction pts as [|x pts IH]; intros k; cbn [List.length seq map xstructure]; [reflexivity|].
    cbn [l_key l_X AL.lookup]. rewrite eqb_refl. f_equal.
    rewrite <- (IH (S k)) at 2. apply map_ext_in. intros j Hj. apply in_seq in Hj.
    destruct (eqb_spec (Z.of_nat j) (Z.of_nat k)) as [E|_]; [apply Nat2Z.inj in E; lia|].
    replace (Z.of_nat k + 1)%Z with (Z.of_nat (S k)) by lia. reflexivity.
  Qed.
  Lemma xstructure_key_ge k pts l : In l (xstructure k pts) -> (k <= l_key l)%Z.
  Proof.
    revert k; induction pts as [|x pts IH]; intros k; cbn; [tauto|]. intros [<-|H]; [cbn; lia|]. apply IH in H. lia.
  Qed.
  Lemma xstructure_keys_nodup k pts : NoDup (map l_key (xstructure k pts)).
  Proof.
    revert k; induction pts as [|x pts IH]; intros k; cbn; [constructor|]. constructor; [|apply IH].
    intros Hin. apply in_map_iff in Hin. destruct Hin as [l [E Hl]]. apply xstructure_key_ge in Hl. lia.
  Qed.
  Lemma xstructure_max k pts acc :
    fold_left Z.max (map l_key (xstructure k pts)) acc =
    match pts with [] => acc | _ => Z.max acc (k + Z.of_nat (List.length pts) - 1) end.
  Proof.
    revert k acc; induction pts as [|x pts IH]; intros k acc; [reflexivity|].
    cbn [xstructure map fold_left l_key]. rewrite IH. destruct pts; cbn [List.length]; lia.
  Qed.
  Lemma import_points_x x pts : import_points (xstructure 0 (x :: pts)) = x :: pts.
  Proof.
    unfold import_points. rewrite al_of_list_nodup by (rewrite map_map; apply xstructure_keys_nodup).
    rewrite xstructure_max. unfold zrange. rewrite map_map.
    replace (Z.to_nat (Z.max 0 (0 + Z.of_nat (List.length (x :: pts)) - 1) + 1)) with (List.length (x :: pts)) by (cbn [List.length]; lia).
    apply (xstructure_fill 0).
  Qed.

  (* structure: observations *)
  Definition robs (k : Z) : list (path * Z) := map (fun o => (rn (fst o), snd o)) (obs_at (d_obs d) k).
  Fixpoint ystruct (k : Z) (pts : list vec) : list (Z * list (path * Z)) :=
    match pts with [] => [] | _ :: pts' => (k, robs k) :: ystruct (k + 1) pts' end.

  Lemma import_lm_obs_x k x : import_lm_obs xnames_of xkp (mkLm k x (xobs (obs_at (d_obs d) k))) = Some (robs k).
  Proof.
    unfold import_lm_obs, xobs. cbn [l_obs]. rewrite mapM_map. cbn [fst snd].
    rewrite (mapM_Some _ (fun o => (rn (fst o), snd o))).
    - cbn [option_map]. f_equal. apply filter_all. intros o Ho. apply in_map_iff in Ho. destruct Ho as [o' [<- Ho']].
      destruct (obs_at_members k o' Ho') as [A B]. cbn [fst]. apply memb_In. apply AL.lookup_In_keys.
      rewrite (xkp_lookup _ A). apply AL.lookup_In_keys. exact B.
    - intros o Ho. destruct (obs_at_members k o Ho) as [A _]. rewrite (names_of_lookup _ A). reflexivity.
  Qed.
  Lemma import_lm_struct k pts :
    map (fun l => (l_key l, import_lm_obs xnames_of xkp l)) (xstructure k pts) = map (fun x => (fst x, Some (snd x))) (ystruct k pts).
  Proof.
    revert k; induction pts as [|x pts IH]; intros k; cbn [xstructure ystruct map]; [reflexivity|].
    rewrite import_lm_obs_x, IH. reflexivity.
  Qed.
  Lemma concat_ystruct k pts j :
    List.concat (map (fun x => if Z.eqb (fst x) j then snd x else []) (ystruct k pts)) =
    if (k <=? j)%Z && (j <? k + Z.of_nat (List.length pts))%Z then robs j else [].
  Proof.
    revert k; induction pts as [|x pts IH]; intros k; cbn [ystruct map List.concat List.length fst snd].
    - destruct (Z.leb_spec k j), (Z.ltb_spec j (k + Z.of_nat 0)); cbn; try reflexivity; lia.
    - rewrite IH. destruct (Z.eqb_spec k j) as [->|Ne].
      + destruct (Z.leb_spec (j + 1) j); [lia|]. cbn [andb]. rewrite app_nil_r.
        destruct (Z.leb_spec j j), (Z.ltb_spec j (j + Z.of_nat (S (List.length pts)))); cbn; try reflexivity; lia.
      + cbn [app].
        destruct (Z.leb_spec (k + 1) j), (Z.ltb_spec j (k + 1 + Z.of_nat (List.length pts))), (Z.leb_spec k j),
          (Z.ltb_spec j (k + Z.of_nat (S (List.length pts)))); cbn; try reflexivity; lia.
  Qed.

  Definition in_bounds (j : Z) : bool := (0 <=? j)%Z && (j <? Z.of_nat (List.length (points_list (d_points d))))%Z.

  (* the whole re-imported dataset, before from_rotation_matrix is applied *)
  Lemma import_core_x : exists k, import_core xsfm = Some k /\
    r_cams k = xcams /\ r_images k = ximgs /\ r_poses k = xposes /\
    points_list (r_points k) = points_list (d_points d) /\
    (forall j, obs_at (r_obs k) j = if in_bounds j then robs j else []) /\
    r_kp k = xkp /\ r_matches k = xmatches.
  Proof.
    unfold import_core, xsfm. cbn [s_root_base s_views s_regions s_intrinsics s_matches s_extrinsics s_structure].
    rewrite import_images_x, import_kp_x, names_of_x, import_cams_x, import_matches_x, import_poses_x.
    unfold in_bounds. destruct (d_points d) as [[|x pts]|]; cbn [points_list].
    - eexists; split; [reflexivity|]. cbn. repeat split; try reflexivity.
      intros j. destruct (Z.leb_spec 0 j), (Z.ltb_spec j 0); cbn; try reflexivity; lia.
    - cbn [xstructure]. change (mkLm 0 x (xobs (obs_at (d_obs d) 0)) :: xstructure (0 + 1) pts) with (xstructure 0 (x :: pts)).
      unfold import_obs. rewrite import_lm_struct.
      destruct (add_obs_fold (ystruct 0 (x :: pts)) []) as [m' [F Hm]]. rewrite F.
      eexists; split; [reflexivity|]. cbn [r_cams r_images r_poses r_points r_obs r_kp r_matches points_list].
      repeat split; try reflexivity; [apply import_points_x|].
      intros j. rewrite Hm, concat_ystruct. reflexivity.
    - eexists; split; [reflexivity|]. cbn. repeat split; try reflexivity.
      intros j. destruct (Z.leb_spec 0 j), (Z.ltb_spec j 0); cbn; try reflexivity; lia.
  Qed.
End InRange.

(* ------------------------------------------------------------------ "up to the common image-root prefix" *)
Definition is_prefix (p l : path) : Prop := exists r, l = p ++ r.
Lemma is_prefix_trans a b c : is_prefix a b -> is_prefix b c -> is_prefix a c.
Proof. intros [r ->] [r' ->]. exists (r ++ r'). rewrite app_assoc. reflexivity. Qed.
Lemma lcp2_prefix a b : is_prefix (lcp2 a b) a /\ is_prefix (lcp2 a b) b.
Proof.
  revert b; induction a as [|x a IH]; intros b; cbn.
  - split; [exists []|exists b]; reflexivity.
  - destruct b as [|y b]; [split; [exists (x :: a)|exists []]; reflexivity|].
    destruct (eqb_spec x y) as [->|Ne]; [|split; [exists (x :: a)|exists (y :: b)]; reflexivity].
    destruct (IH b) as [[r1 E1] [r2 E2]]. split; [exists r1|exists r2]; cbn; congruence.
Qed.
Lemma fold_lcp2_prefix ds acc :
  is_prefix (fold_left lcp2 ds acc) acc /\ forall x, In x ds -> is_prefix (fold_left lcp2 ds acc) x.
Proof.
  revert acc; induction ds as [|y ds IH]; intros acc; cbn [fold_left].
  - split; [exists []; rewrite app_nil_r; reflexivity|intros x []].
  - destruct (IH (lcp2 acc y)) as [P Q]. destruct (lcp2_prefix acc y) as [Pa Py]. split.
    + eapply is_prefix_trans; eassumption.
    + intros x [<-|Hx]; [eapply is_prefix_trans; eassumption|apply Q; exact Hx].
Qed.
Lemma lcp_all_prefix ds x : In x ds -> is_prefix (lcp_all ds) x.
Proof.
  destruct ds as [|d0 ds]; [intros []|]. cbn [lcp_all]. destruct (fold_lcp2_prefix ds d0) as [P Q].
  intros [<-|Hx]; [exact P|apply Q; exact Hx].
Qed.

(* the new name of an image: the directory shared by all images is replaced by the name of the image root;
   the rest is kept (or joined with '_' when flattening) *)
Lemma rename_spec cfg d n : In n (names d) -> n <> [] ->
  exists rel, n = sub_root d ++ rel /\ rel <> [] /\
              rename cfg d n = images_dir cfg d :: (if flatten cfg then [sjoin "_" rel] else rel).
Proof.
  intros Hn NE. assert (Hd : In (dirname n) (map dirname (names d))) by (apply in_map; exact Hn).
  destruct (lcp_all_prefix _ _ Hd) as [rest E]. fold (sub_root d) in E.
  exists (rest ++ [last n ""]). assert (En : n = sub_root d ++ rest ++ [last n ""]).
  { rewrite app_assoc, <- E. apply app_removelast_last; exact NE. }
  split; [exact En|]. split; [destruct rest; discriminate|].
  remember (last n "") as l eqn:Hl. clear Hl E Hd Hn NE. subst n.
  unfold rename, mvg_path.
  rewrite skipn_app, skipn_all, Nat.sub_diag. cbn [skipn app]. f_equal.
  destruct (flatten cfg); [reflexivity|]. symmetry. apply app_removelast_last. destruct rest; discriminate.
Qed.

(* ------------------------------------------------------------------ the round trip, by image name *)
Section Roundtrip.
  Variable from_matrix : mat -> quat.
  Hypothesis from_matrix_rot : forall M, mmul M (mtrans M) =m= mid -> mdet M == 1 ->
    rot (from_matrix M) =m= M /\ ~ n2 (from_matrix M) == 0.
  Variable cfg : config.
  Variable d : dataset.
  Hypothesis IR : in_range cfg d = true.
  Let rn := rename cfg d.

  Definition reimported : kdata pose :=
    match import from_matrix (xsfm cfg d) with Some r => r | None => mkK [] [] [] None [] [] [] end.

  Lemma reimported_ok : export cfg d = Some (xsfm cfg d) /\ import from_matrix (xsfm cfg d) = Some reimported.
  Proof.
    split; [apply export_x; exact IR|]. unfold reimported, import.
    destruct (import_core_x cfg d IR) as [k [E _]]. rewrite E. reflexivity.
  Qed.

  Lemma reimported_fields :
    r_cams reimported = xcams cfg d /\ r_images reimported = ximgs cfg d /\
    r_poses reimported = map (fun i => (key_of d i, reimport_pose from_matrix (pose_of_img d i))) (d_images d) /\
    points_list (r_points reimported) = points_list (d_points d) /\
    (forall j, obs_at (r_obs reimported) j = if in_bounds d j then robs cfg d j else []) /\
    r_kp reimported = xkp cfg d /\ r_matches reimported = xmatches cfg d.
  Proof.
    unfold reimported, import. destruct (import_core_x cfg d IR) as [k (E & C & I & P & Pt & O & K & M)].
    rewrite E. cbn [option_map finish r_cams r_images r_poses r_points r_obs r_kp r_matches].
    repeat split; try assumption. rewrite P. unfold xposes. rewrite map_map. reflexivity.
  Qed.

  (* 1. the same images, renamed, in the same order; the renaming merges no two images *)
  Lemma rt_images : map snd (r_images reimported) = map rn (names d).
  Proof.
    destruct reimported_fields as (_ & I & _). rewrite I. unfold ximgs, names. rewrite !map_map. reflexivity.
  Qed.

  Lemma d_image_of_x i : In i (d_images d) -> d_image_of d (i_name i) = Some i.
  Proof. intros Hi. apply (find_map_key i_name); [exact (ND_names cfg d IR)|exact Hi]. Qed.
  Lemma r_key_of_x i : In i (d_images d) -> r_key_of reimported (rn (i_name i)) = Some (key_of d i).
  Proof.
    intros Hi. unfold r_key_of. destruct reimported_fields as (_ & I & _). rewrite I. unfold ximgs.
    rewrite find_map. cbn [snd].
    rewrite (find_map_key (fun i => rename cfg d (i_name i)) _ i (ND_rn_images cfg d IR) Hi). reflexivity.
  Qed.

  (* 2. every image keeps its world-to-camera pose: same rotation (sign and scale of the quaternion are free),
        same translation *)
  Lemma rt_pose n p : In n (names d) -> d_pose_of d n = Some p ->
    exists p', r_pose_of reimported (rn n) = Some p' /\
               rot (pr p') =m= rot (pr p) /\ pt p' =v= pt p /\ ~ n2 (pr p') == 0.
  Proof.
    intros Hn Hp. destruct (In_names_image d n Hn) as [i [Hi <-]].
    unfold d_pose_of in Hp. rewrite (d_image_of_x i Hi) in Hp.
    destruct (image_facts cfg d IR i Hi) as (_ & P & _ & NZ). rewrite P in Hp. injection Hp as <-.
    exists (reimport_pose from_matrix (pose_of_img d i)). split.
    - unfold r_pose_of. rewrite (r_key_of_x i Hi). destruct reimported_fields as (_ & _ & Po & _). rewrite Po.
      apply (lookup_map_key (key_of d) (fun i => reimport_pose from_matrix (pose_of_img d i))); [exact (ND_key_of cfg d IR)|exact Hi].
    - apply pose_roundtrip; assumption.
  Qed.

  (* 3. every image keeps its intrinsics, as a projection function *)
  Lemma rt_camera n c : In n (names d) -> d_cam_of d n = Some c ->
    exists c', r_cam_of reimported (rn n) = Some c' /\ cam_equiv c' c = true.
  Proof.
    intros Hn Hc. destruct (In_names_image d n Hn) as [i [Hi <-]].
    unfold d_cam_of in Hc. rewrite (d_image_of_x i Hi) in Hc.
    destruct (image_facts cfg d IR i Hi) as (C & _). rewrite C in Hc. injection Hc as <-.
    destruct (xcams_lookup cfg d IR i Hi) as [L Q]. exists (ycam cfg (cam_of_img d i)). split; [|exact Q].
    unfold r_cam_of. rewrite (r_key_of_x i Hi). destruct reimported_fields as (Cm & _). rewrite Cm. exact L.
  Qed.

  (* 4. the same points, in the same order *)
  Lemma rt_points : points_list (r_points reimported) = points_list (d_points d).
  Proof. apply reimported_fields. Qed.

  (* 5. every point keeps its observations (image renamed, same feature); nothing is observed elsewhere *)
  Lemma rt_observations j :
    obs_at (r_obs reimported) j =
    if in_bounds d j then map (fun o => (rn (fst o), snd o)) (obs_at (d_obs d) j) else [].
  Proof. destruct reimported_fields as (_ & _ & _ & _ & O & _). apply O. Qed.

  (* 6. keypoints / descriptors of an image are those of the original image *)
  Lemma rt_keypoints n : In n (names d) -> AL.lookup (rn n) (r_kp reimported) = AL.lookup n (d_kp d).
  Proof. intros Hn. destruct reimported_fields as (_ & _ & _ & _ & _ & K & _). rewrite K. apply xkp_lookup; assumption. Qed.

  (* 7. the matching relation between any two images is the same; every stored pair comes from an original one *)
  Lemma rt_matches x y : In x (names d) -> In y (names d) ->
    match_rel (r_matches reimported) (rn x) (rn y) = match_rel (d_matches d) x y.
  Proof.
    intros X Y. destruct reimported_fields as (_ & _ & _ & _ & _ & _ & M). rewrite M. apply match_rel_x; assumption.
  Qed.
  Lemma rt_matches_only e' : In e' (r_matches reimported) ->
    exists e, In e (d_matches d) /\ same_pair (fst e') (rn (fst (fst e)), rn (snd (fst e))) = true /\
              sltb (pstr (snd (fst e'))) (pstr (fst (fst e'))) = false.
  Proof.
    destruct reimported_fields as (_ & _ & _ & _ & _ & _ & M). rewrite M. unfold xmatches. rewrite in_map_iff.
    intros [e [<- He]]. exists e. split; [exact He|]. unfold normf. fold rn.
    destruct (sltb (pstr (rn (snd (fst e)))) (pstr (rn (fst (fst e))))) eqn:S; cbn [fst snd].
    - split; [unfold same_pair; cbn [fst snd]; rewrite !eqb_refl; apply orb_true_r|].
      unfold sltb in *. apply negb_true_iff in S. apply negb_false_iff. unfold sleb in *.
      destruct (lleb_total (bytes_of (pstr (rn (snd (fst e))))) (bytes_of (pstr (rn (fst (fst e)))))) as [T|T]; [exact T|congruence].
    - split; [unfold same_pair; cbn [fst snd]; rewrite !eqb_refl; reflexivity|exact S].
  Qed.
End Roundtrip.
