(* Proofs/POpenmvgKp.v — lemmas about the keypoint rows of Model/MOpenmvg.v (property C14): the regions text
   files keep the first four columns of every keypoint, in order, to half a unit of the fifth decimal, and the
   (repaired) reader accepts any number of rows. *)
From Coq Require Import QArith Qabs Qround ZArith Bool List String Lia Lqa.
From KV Require Import Eqb Str AL.
From KV.Model Require Import MQV MPose MOpenmvg.
Import ListNotations.
Local Open Scope list_scope.

Lemma Qround_half_even_close (q : Q) : Qabs (inject_Z (Qround_half_even q) - q) <= 1 # 2.
Proof.
  unfold Qround_half_even.
  pose proof (Qfloor_le q) as L. pose proof (Qlt_floor q) as U.
  rewrite inject_Z_plus in U. change (inject_Z 1) with 1%Q in U.
  set (f := Qfloor q) in *. apply Qabs_Qle_condition.
  destruct (Qle_bool (q - inject_Z f) (1 # 2)) eqn:A.
  - apply Qle_bool_iff in A.
    destruct (Qle_bool (1 # 2) (q - inject_Z f)) eqn:B.
    + apply Qle_bool_iff in B. destruct (Z.even f).
      * split; lra.
      * rewrite inject_Z_plus. change (inject_Z 1) with 1%Q. split; lra.
    + split; lra.
  - assert (~ q - inject_Z f <= 1 # 2) as N by (intro H; apply Qle_bool_iff in H; congruence).
    apply Qnot_le_lt in N. rewrite inject_Z_plus. change (inject_Z 1) with 1%Q. split; lra.
Qed.

Lemma round5_close (q : Q) : Qabs (round5 q - q) <= half_1e5.
Proof.
  unfold round5, half_1e5. pose proof (Qround_half_even_close (q * 100000)) as H.
  set (z := inject_Z (Qround_half_even (q * 100000))) in *.
  apply Qabs_Qle_condition in H. apply Qabs_Qle_condition.
  unfold Qdiv. change (/ 100000)%Q with (1 # 100000). split; lra.
Qed.

Definition close5 (x' x : Q) : Prop := Qabs (x' - x) <= half_1e5.

Lemma map_round5_close (r : list Q) : Forall2 close5 (map round5 r) r.
Proof. induction r; cbn; constructor; [apply round5_close|assumption]. Qed.

Lemma export_feat_close (rows : kprows) :
  Forall2 (fun r' r => Forall2 close5 r' (firstn 4 r)) (export_feat rows) rows.
Proof. induction rows; cbn; constructor; [apply map_round5_close|assumption]. Qed.

Lemma export_row_length (r : list Q) : (4 <= List.length r)%nat -> List.length (map round5 (firstn 4 r)) = 4%nat.
Proof. intro H. rewrite map_length, firstn_length. lia. Qed.

Lemma import_export_feat (rows : kprows) : feat_ok rows = true -> import_feat (export_feat rows) = Some (export_feat rows).
Proof.
  unfold import_feat, feat_ok. intro H.
  replace (forallb (fun r => Nat.eqb (List.length r) 4) (export_feat rows)) with true; [reflexivity|].
  symmetry. unfold export_feat. induction rows as [|r rows IH]; [reflexivity|].
  cbn [map forallb] in *. apply andb_true_iff in H. destruct H as [H1 H2].
  apply Nat.leb_le in H1. rewrite (export_row_length r H1), (IH H2). reflexivity.
Qed.

(* all rows, 0 and 1 included *)
Lemma feat_roundtrip (rows : kprows) : feat_ok rows = true ->
  exists rows', import_feat (export_feat rows) = Some rows' /\
                Forall2 (fun r' r => Forall2 close5 r' (firstn 4 r)) rows' rows.
Proof. intro H. exists (export_feat rows). split; [apply import_export_feat; exact H|apply export_feat_close]. Qed.

(* the error branch: a keypoint with fewer than four columns makes the reader refuse the file *)
Lemma feat_narrow_refused (rows : kprows) :
  (exists r, In r rows /\ (List.length r < 4)%nat) -> import_feat (export_feat rows) = None.
Proof.
  intros (r & Hin & Hl). unfold import_feat.
  replace (forallb (fun r => Nat.eqb (List.length r) 4) (export_feat rows)) with false; [reflexivity|].
  symmetry. unfold export_feat. induction rows as [|a rows IH]; [destruct Hin|].
  cbn [map forallb]. destruct Hin as [->|Hin].
  - replace (Nat.eqb (List.length (map round5 (firstn 4 r))) 4) with false; [reflexivity|].
    symmetry. apply Nat.eqb_neq. rewrite map_length, firstn_length. lia.
  - rewrite (IH Hin). apply andb_false_r.
Qed.

(* values that have at most five decimals are kept exactly *)
Lemma Qround_half_even_Z (k : Z) : Qround_half_even (inject_Z k) = k.
Proof.
  unfold Qround_half_even. rewrite Qfloor_Z.
  replace (Qle_bool (inject_Z k - inject_Z k) (1 # 2)) with true
    by (symmetry; apply Qle_bool_iff; lra).
  replace (Qle_bool (1 # 2) (inject_Z k - inject_Z k)) with false; [reflexivity|].
  symmetry. destruct (Qle_bool (1 # 2) (inject_Z k - inject_Z k)) eqn:E; [|reflexivity].
  apply Qle_bool_iff in E. lra.
Qed.

Lemma Qround_half_even_comp (q q' : Q) : q == q' -> Qround_half_even q = Qround_half_even q'.
Proof.
  intro E. unfold Qround_half_even. rewrite (Qfloor_comp _ _ E).
  assert (q - inject_Z (Qfloor q') == q' - inject_Z (Qfloor q')) as E2 by (unfold Qminus; apply Qplus_comp; [exact E|reflexivity]).
  rewrite (Qleb_comp _ _ E2 (1 # 2) (1 # 2) (Qeq_refl _)), (Qleb_comp (1 # 2) (1 # 2) (Qeq_refl _) _ _ E2). reflexivity.
Qed.

Lemma round5_exact (k : Z) : round5 (inject_Z k / 100000) == inject_Z k / 100000.
Proof.
  unfold round5. rewrite (Qround_half_even_comp (inject_Z k / 100000 * 100000) (inject_Z k)) by field.
  rewrite Qround_half_even_Z. reflexivity.
Qed.

(* ------------------------------------------------------------------ the two intrinsics layouts (v1: value0, v2: flat)
   what the importer makes of an export does not depend on the layout the exporter was asked to write, for
   EVERY dataset (in range or not) *)
Definition opt_rel {A} (R : A -> A -> Prop) (a b : option A) : Prop :=
  match a, b with Some x, Some y => R x y | None, None => True | _, _ => False end.

Lemma export_cam_layout (c : camera) :
  opt_rel (fun i2 i1 => import_cam i2 = import_cam i1) (export_cam true c) (export_cam false c).
Proof. unfold export_cam. destruct (c_type c); cbn; try reflexivity; exact I. Qed.

Lemma mapM_rel {A B C} (f g : A -> option B) (h : B -> option C) (l : list A) :
  (forall x, opt_rel (fun y z => h y = h z) (f x) (g x)) ->
  opt_rel (fun a b => mapM h a = mapM h b) (mapM f l) (mapM g l).
Proof.
  intro H. induction l as [|x l IH]; cbn; [reflexivity|].
  specialize (H x). destruct (f x) as [y|], (g x) as [z|]; cbn in *; try contradiction; try exact I.
  destruct (mapM f l) as [a|], (mapM g l) as [b|]; cbn in *; try contradiction; try exact I.
  rewrite H, IH. reflexivity.
Qed.

Lemma export_intrinsics_layout fl rb d :
  opt_rel (fun a b => import_cams a = import_cams b)
          (export_intrinsics (mkCfg fl true rb) d) (export_intrinsics (mkCfg fl false rb) d).
Proof.
  unfold export_intrinsics, import_cams. cbn [v2].
  set (h := fun e : Z * intrinsic => match import_cam (snd e) with Some c => Some (fst e, c) | None => None end).
  pose proof (mapM_rel
    (fun e : string * camera => match export_cam true (snd e) with Some i => Some (cid d (fst e), i) | None => None end)
    (fun e : string * camera => match export_cam false (snd e) with Some i => Some (cid d (fst e), i) | None => None end)
    h (List.filter (used d) (d_cams d))) as M.
  match type of M with ?P -> _ => assert P as HP end.
  { intro x. pose proof (export_cam_layout (snd x)) as E.
    destruct (export_cam true (snd x)), (export_cam false (snd x)); cbn in *; try contradiction; try exact I.
    unfold h. cbn [fst snd]. rewrite E. reflexivity. }
  specialize (M HP).
  destruct (mapM _ _), (mapM _ _); cbn in *; try contradiction; try exact I. rewrite M. reflexivity.
Qed.

Lemma import_core_layout fl rb d :
  opt_rel (fun s2 s1 => import_core s2 = import_core s1) (export (mkCfg fl true rb) d) (export (mkCfg fl false rb) d).
Proof.
  unfold export, export_with. pose proof (export_intrinsics_layout fl rb d) as L.
  change (mapM (export_view (mkCfg fl true rb) d) (d_images d)) with (mapM (export_view (mkCfg fl false rb) d) (d_images d)).
  destruct (mapM (export_view (mkCfg fl false rb) d) (d_images d)) as [vs|]; [|exact I].
  destruct (export_intrinsics (mkCfg fl true rb) d) as [i2|], (export_intrinsics (mkCfg fl false rb) d) as [i1|];
    cbn in L; try contradiction; try exact I.
  destruct (export_structure d) as [st|]; [|exact I].
  destruct (export_matches d) as [ms|]; [|exact I].
  cbn [opt_rel]. unfold import_core. cbn [s_intrinsics s_root_base s_views s_regions s_matches s_extrinsics s_structure].
  rewrite L. reflexivity.
Qed.
