(* Proofs/POpensfm.v — lemmas about Model/MOpensfm.v (property C15).
   Everything is proved for all datasets satisfying the boolean predicate [in_range]; the library
   conversions are Section variables constrained by one Hypothesis ([rotvec_contract]). *)
From Coq Require Import List Bool String Ascii ZArith NArith QArith Qabs Qreduction Arith Lia Sorting.Sorted.
From Coq Require Import Decimal DecimalString DecimalNat.
From KV Require Import Eqb AL Str.
From KV.Model Require Import MQV MOpensfm.
From KV.Proofs Require Import PQV.
Import ListNotations.
Local Open Scope string_scope.
Local Open Scope Q_scope.
Local Open Scope list_scope.

(* ------------------------------------------------------------------ generic list / map lemmas *)
Lemma mapM_ok {A B} (f : A -> result B) (g : A -> B) (l : list A) :
  (forall x, In x l -> f x = Ok (g x)) -> mapM f l = Ok (map g l).
Proof.
  induction l as [|x l IH]; cbn; intros Hf; [reflexivity|].
  rewrite (Hf x (or_introl eq_refl)); cbn. rewrite IH by (intros; apply Hf; right; assumption). reflexivity.
Qed.

Lemma lookup_app {K V} `{EqDec K} (k : K) (l1 l2 : list (K * V)) :
  lookup k (l1 ++ l2) = match lookup k l1 with Some v => Some v | None => lookup k l2 end.
Proof.
  induction l1 as [|[k' v'] l1 IH]; cbn; [reflexivity|]. destruct (eqb k k'); [reflexivity|apply IH].
Qed.

Lemma insert_notin {K V} `{EqDec K} (k : K) (v : V) (m : list (K * V)) :
  ~ In k (keys m) -> insert k v m = m ++ [(k, v)].
Proof.
  induction m as [|[k' v'] m IH]; cbn; intros N; [reflexivity|].
  destruct (eqb_spec k k') as [->|_]; [exfalso; apply N; left; reflexivity|].
  rewrite IH; [reflexivity|]. intro I; apply N; right; exact I.
Qed.

(* a dict filled in a loop over items with pairwise distinct keys is the list of the items *)
Lemma fold_insert_opt {X K V} `{EqDec K} (k : X -> K) (f : X -> option V) (l : list X) :
  forall acc, NoDup (map k l) -> (forall x, In x l -> ~ In (k x) (keys acc)) ->
  fold_left (fun m x => match f x with Some e => insert (k x) e m | None => m end) l acc
  = acc ++ flat_map (fun x => match f x with Some e => [(k x, e)] | None => [] end) l.
Proof.
  induction l as [|x l IH]; intros acc ND Fr; cbn; [rewrite app_nil_r; reflexivity|].
  inversion ND as [|? ? Nx ND']; subst.
  destruct (f x) as [e|] eqn:Fx.
  - rewrite insert_notin by (apply Fr; left; reflexivity).
    rewrite IH; [rewrite <- app_assoc; reflexivity | assumption |].
    intros y Iy. unfold keys. rewrite map_app, in_app_iff. cbn. intros [I|[E|[]]].
    + apply (Fr y (or_intror Iy)). exact I.
    + apply Nx. rewrite E. apply in_map. exact Iy.
  - apply IH; [assumption|]. intros y Iy. apply Fr. right; exact Iy.
Qed.

Lemma fold_insert_all {X K V} `{EqDec K} (k : X -> K) (v : X -> V) (l : list X) :
  NoDup (map k l) ->
  fold_left (fun m x => insert (k x) (v x) m) l [] = map (fun x => (k x, v x)) l.
Proof.
  intros ND.
  pose proof (fold_insert_opt k (fun x => Some (v x)) l [] ND (fun _ _ I => I)) as E. cbn in E.
  rewrite E. clear. induction l as [|x l IH]; cbn; [reflexivity|]. rewrite IH; reflexivity.
Qed.

Lemma nodupb_NoDup {A} `{EqDec A} (l : list A) : nodupb l = true -> NoDup l.
Proof.
  induction l as [|x l IH]; cbn; [constructor|]. rewrite andb_true_iff, negb_true_iff, memb_not_In.
  intros [N R]. constructor; auto.
Qed.

(* ------------------------------------------------------------------ decimal keys *)
Lemma to_uint_not_nil n : Nat.to_uint n <> Nil.
Proof.
  intro E. pose proof (Unsigned.of_to n) as R. rewrite E in R. cbn in R. subst n. discriminate E.
Qed.

Lemma parse_show_nat n : parse_nat (show_nat n) = Some n.
Proof.
  unfold parse_nat, show_nat. rewrite NilZero.usu by apply to_uint_not_nil. cbn.
  rewrite Unsigned.of_to. reflexivity.
Qed.

Lemma show_nat_inj a b : show_nat a = show_nat b -> a = b.
Proof.
  intros E. pose proof (parse_show_nat a) as A. rewrite E, parse_show_nat in A. congruence.
Qed.

(* ------------------------------------------------------------------ numeric order of the point ids *)
Section Sorting.
  Context {V : Type}.

  (* keys strictly ascending from a lower bound *)
  Fixpoint ascending (lo : nat) (l : list (nat * V)) : Prop :=
    match l with
    | [] => True
    | x :: l' => (lo <= fst x)%nat /\ ascending (S (fst x)) l'
    end.

  Lemma nsort_ascending l lo : ascending lo l -> nsort l = l.
  Proof.
    revert lo; induction l as [|x l IH]; intros lo A; cbn; [reflexivity|].
    destruct A as [_ A]. rewrite (IH _ A).
    destruct l as [|y l]; cbn; [reflexivity|].
    destruct A as [L _]. replace (Nat.leb (fst x) (fst y)) with true; [reflexivity|].
    symmetry; apply Nat.leb_le; lia.
  Qed.

  Fixpoint keyed (i : nat) (vs : list V) : list (nat * V) :=
    match vs with [] => [] | v :: vs' => (i, v) :: keyed (S i) vs' end.

  Lemma keyed_ascending i vs : ascending i (keyed i vs).
  Proof. revert i; induction vs as [|v vs IH]; intros i; cbn; [exact I|]. split; [lia|apply IH]. Qed.

  Lemma nsort_keyed i vs : nsort (keyed i vs) = keyed i vs.
  Proof. apply (nsort_ascending _ i), keyed_ascending. Qed.

  Lemma map_snd_keyed i vs : map snd (keyed i vs) = vs.
  Proof. revert i; induction vs as [|v vs IH]; intros i; cbn; [reflexivity|]. rewrite IH; reflexivity. Qed.

  (* sorted() is a permutation whatever the keys: nothing is lost or invented *)
  Lemma ninsert_In x y (l : list (nat * V)) : In y (ninsert x l) <-> y = x \/ In y l.
  Proof.
    induction l as [|z l IH]; cbn; [intuition congruence|].
    destruct (Nat.leb (fst x) (fst z)); cbn; [intuition congruence|]. rewrite IH. intuition congruence.
  Qed.
  Lemma nsort_In y (l : list (nat * V)) : In y (nsort l) <-> In y l.
  Proof. induction l as [|x l IH]; cbn; [tauto|]. rewrite ninsert_In, IH. intuition congruence. Qed.

  (* ---- the string order, for the legacy behaviour *)
  Definition kle (a b : string * V) : Prop := sleb (fst a) (fst b) = true.

  Lemma sleb_total a b : sleb a b = true \/ sleb b a = true.
  Proof. apply lleb_total. Qed.
  Lemma sleb_trans a b c : sleb a b = true -> sleb b c = true -> sleb a c = true.
  Proof. apply lleb_trans. Qed.

  Lemma kinsert_In x y (l : list (string * V)) : In y (kinsert x l) <-> y = x \/ In y l.
  Proof.
    induction l as [|z l IH]; cbn; [intuition congruence|].
    destruct (sleb (fst x) (fst z)); cbn; [intuition congruence|]. rewrite IH. intuition congruence.
  Qed.

  Lemma kinsert_sorted x l : StronglySorted kle l -> StronglySorted kle (kinsert x l).
  Proof.
    induction l as [|z l IH]; cbn; intros S.
    - constructor; constructor.
    - inversion S as [|? ? S' F]; subst.
      destruct (sleb (fst x) (fst z)) eqn:E.
      + constructor; [exact S|]. constructor; [exact E|].
        rewrite Forall_forall in *. intros y Iy. unfold kle. eapply sleb_trans; [exact E|apply F; exact Iy].
      + constructor; [apply IH; exact S'|].
        rewrite Forall_forall in *. intros y Iy. apply kinsert_In in Iy. destruct Iy as [->|Iy]; [|apply F; exact Iy].
        unfold kle. destruct (sleb_total (fst z) (fst x)) as [T|T]; [exact T|congruence].
  Qed.

  Lemma ksort_sorted l : StronglySorted kle (ksort l).
  Proof. induction l as [|x l IH]; cbn; [constructor|apply kinsert_sorted; exact IH]. Qed.
End Sorting.

Definition skeyed {V} (i : nat) (vs : list V) : list (string * V) :=
  map (fun kv => (show_nat (fst kv), snd kv)) (keyed i vs).

(* Sorting the decimal strings "0", "1", ..., "n-1" by number leaves them in place, for every n ... *)
Lemma map_fst_keyed_seq i n : map fst (keyed i (seq i n)) = seq i n.
Proof. revert i; induction n as [|n IH]; intros i; cbn; [reflexivity|]. rewrite IH; reflexivity. Qed.

Lemma sort_numeric_ids n : map show_nat (map fst (nsort (keyed 0 (seq 0 n)))) = map show_nat (seq 0 n).
Proof. rewrite nsort_keyed, map_fst_keyed_seq. reflexivity. Qed.

(* ... whereas sorting them as strings moves "10" before "2" as soon as there are more than ten *)
Lemma sleb_9_10 : sleb (show_nat 9) (show_nat 10) = false.
Proof. vm_compute. reflexivity. Qed.

Lemma skeyed_split {V} (vs : list V) :
  (10 < List.length vs)%nat ->
  exists pre a b post, skeyed 0 vs = pre ++ (show_nat 9, a) :: (show_nat 10, b) :: post.
Proof.
  intros L.
  do 11 (destruct vs as [|? vs]; [cbn in L; lia|]).
  eexists (skeyed 0 [v; v0; v1; v2; v3; v4; v5; v6; v7]), v8, v9, _. cbn. reflexivity.
Qed.

Lemma sort_string_breaks {V} (vs : list V) :
  (10 < List.length vs)%nat -> ksort (skeyed 0 vs) <> skeyed 0 vs.
Proof.
  intros L E. destruct (skeyed_split vs L) as (pre & a & b & post & S).
  pose proof (ksort_sorted (skeyed 0 vs)) as SS. rewrite E, S in SS.
  assert (G : forall (l1 : list (string * V)) x y l2, StronglySorted kle (l1 ++ x :: y :: l2) -> kle x y).
  { induction l1 as [|z l1 IH]; cbn; intros x y l2 H; inversion H as [|? ? H1 H2]; subst.
    - inversion H2; assumption.
    - eapply IH; exact H1. }
  apply G in SS. unfold kle in SS. cbn [fst] in SS. rewrite sleb_9_10 in SS. discriminate.
Qed.

(* ------------------------------------------------------------------ rationals *)
Lemma Qle_bool_false a b : Qle_bool a b = false -> b < a.
Proof.
  intros E. apply Qnot_le_lt. intro L. apply Qle_bool_iff in L. congruence.
Qed.

Lemma pos_lt q : pos q = true -> 0 < q.
Proof. unfold pos. rewrite negb_true_iff. apply Qle_bool_false. Qed.

Lemma is_int_eq q : is_int q = true -> inject_Z (qtrunc q) == q.
Proof. unfold is_int. apply Qeq_bool_eq. Qed.

Lemma qmax_pos a b : 0 < a -> 0 < b -> 0 < qmax a b.
Proof. unfold qmax; destruct (Qle_bool a b); auto. Qed.

Lemma qmax_ints (a b : Z) : inject_Z (Z.max a b) == qmax (inject_Z a) (inject_Z b).
Proof.
  unfold qmax. destruct (Qle_bool (inject_Z a) (inject_Z b)) eqn:E.
  - apply Qle_bool_iff in E. rewrite <- Zle_Qle in E. rewrite Z.max_r by exact E. reflexivity.
  - apply Qle_bool_false in E. rewrite <- Zlt_Qlt in E. rewrite Z.max_l by lia. reflexivity.
Qed.

#[export] Instance qmax_proper : Proper (Qeq ==> Qeq ==> Qeq) qmax.
Proof.
  intros a a' Ea b b' Eb. unfold qmax.
  destruct (Qle_bool a b) eqn:E, (Qle_bool a' b') eqn:E'; try assumption.
  - apply Qle_bool_iff in E. rewrite Ea, Eb in E. apply Qle_bool_iff in E. congruence.
  - apply Qle_bool_iff in E'. rewrite <- Ea, <- Eb in E'. apply Qle_bool_iff in E'. congruence.
Qed.

(* the focal length survives the normalisation by the largest image side exactly *)
Lemma focal_roundtrip f w h :
  is_int w = true -> is_int h = true -> pos w = true -> pos h = true ->
  f / qmax w h * inject_Z (Z.max (qtrunc w) (qtrunc h)) == f.
Proof.
  intros Iw Ih Pw Ph. rewrite qmax_ints, (is_int_eq w Iw), (is_int_eq h Ih).
  pose proof (qmax_pos w h (pos_lt w Pw) (pos_lt h Ph)) as P.
  field. intro Z. rewrite Z in P. exact (Qlt_irrefl 0 P).
Qed.

(* ------------------------------------------------------------------ cameras *)
Definition ecam (c : camera) : ocamera :=
  let p := c_params c in
  mkOC "perspective" (qtrunc (nthq p 0)) (qtrunc (nthq p 1)) (nthq p 2 / qmax (nthq p 0) (nthq p 1))
       (match c_type c with SimpleRadial | Radial => nthq p 5 | _ => 0 end)
       (match c_type c with Radial => nthq p 6 | _ => 0 end).

Definition icam (oc : ocamera) : camera :=
  mkCam Radial [inject_Z (oc_w oc); inject_Z (oc_h oc); oc_focal oc * inject_Z (Z.max (oc_w oc) (oc_h oc));
                inject_Z (oc_w oc) / 2; inject_Z (oc_h oc) / 2; oc_k1 oc; oc_k2 oc].

Lemma cam_in_range_facts c : cam_in_range c = true ->
  (exists n, c_type c <> OtherCam n) /\ (forall n, c_type c <> OtherCam n) /\
  is_int (nthq (c_params c) 0) = true /\ is_int (nthq (c_params c) 1) = true /\
  pos (nthq (c_params c) 0) = true /\ pos (nthq (c_params c) 1) = true /\
  nthq (c_params c) 3 == nthq (c_params c) 0 / 2 /\ nthq (c_params c) 4 == nthq (c_params c) 1 / 2.
Proof.
  unfold cam_in_range. rewrite !andb_true_iff. intros [[[[[[T I0] I1] P0] P1] C3] C4].
  repeat split; auto; try (apply Qeq_bool_eq; assumption).
  - exists "". destruct (c_type c); discriminate.
  - intros n. destruct (c_type c); discriminate.
Qed.

Lemma export_camera_in_range c : cam_in_range c = true -> export_camera c = Ok (ecam c).
Proof.
  intros R. destruct (cam_in_range_facts c R) as (_ & NT & I0 & I1 & P0 & P1 & _).
  unfold export_camera, ecam.
  assert (Z : is_zero (qmax (nthq (c_params c) 0) (nthq (c_params c) 1)) = false).
  { pose proof (qmax_pos _ _ (pos_lt _ P0) (pos_lt _ P1)) as P. unfold is_zero.
    destruct (Qeq_bool _ 0) eqn:E; [|reflexivity]. apply Qeq_bool_eq in E. rewrite E in P.
    exfalso; exact (Qlt_irrefl 0 P). }
  destruct (c_type c) eqn:T; try (rewrite Z; reflexivity). exfalso; exact (NT _ eq_refl).
Qed.

Lemma import_camera_ecam c : import_camera (ecam c) = Ok (icam (ecam c)).
Proof. reflexivity. Qed.

(* the imported camera is RADIAL with the same perspective parameters and the centred principal point *)
Lemma camera_roundtrip c : cam_in_range c = true ->
  c_type (icam (ecam c)) = Radial /\
  qlist_eq (persp (icam (ecam c))) (persp c) /\
  nthq (c_params (icam (ecam c))) 3 == nthq (c_params c) 3 /\
  nthq (c_params (icam (ecam c))) 4 == nthq (c_params c) 4.
Proof.
  intros R. destruct (cam_in_range_facts c R) as (_ & _ & I0 & I1 & P0 & P1 & C3 & C4).
  split; [reflexivity|].
  unfold persp, icam, ecam, nthq; cbn [c_type c_params nth oc_w oc_h oc_focal oc_k1 oc_k2 qlist_eq].
  fold (nthq (c_params c) 0) (nthq (c_params c) 1) (nthq (c_params c) 2) (nthq (c_params c) 3)
       (nthq (c_params c) 4) (nthq (c_params c) 5) (nthq (c_params c) 6).
  repeat split.
  - apply is_int_eq; exact I0.
  - apply is_int_eq; exact I1.
  - apply focal_roundtrip; assumption.
  - rewrite C3, (is_int_eq _ I0). reflexivity.
  - rewrite C4, (is_int_eq _ I1). reflexivity.
Qed.

(* ------------------------------------------------------------------ points *)
Definition opoint_of (r : list Q) : opoint := mkOP (firstn 3 r) (skipn 3 r).

Lemma export_points_from_spec i rows :
  forallb (fun r => Nat.eqb (List.length r) 6) rows = true ->
  export_points_from i rows = Ok (skeyed i (map opoint_of rows)).
Proof.
  revert i; induction rows as [|r rows IH]; intros i; cbn; [reflexivity|].
  rewrite andb_true_iff. intros [L R].
  destruct r as [|x [|y [|z [|r0 [|g [|b [|? ?]]]]]]]; try discriminate L.
  rewrite (IH (S i) R). reflexivity.
Qed.

Lemma parse_keys_skeyed {V} i (vs : list V) : parse_keys (skeyed i vs) = Ok (keyed i vs).
Proof.
  revert i; induction vs as [|v vs IH]; intros i; [reflexivity|].
  unfold parse_keys, skeyed in *. cbn [keyed map mapM fst snd]. rewrite parse_show_nat. cbn [bind].
  rewrite IH. reflexivity.
Qed.

Lemma map_snd_keyed_gen {V W} (g : V -> W) i (vs : list V) :
  map (fun kp : nat * V => g (snd kp)) (keyed i vs) = map g vs.
Proof. revert i; induction vs as [|v vs IH]; intros i; cbn; [reflexivity|]. rewrite IH; reflexivity. Qed.

Lemma row_of_opoint_of r : List.length r = 6%nat -> row_of (opoint_of r) = r.
Proof. intros _. unfold row_of, opoint_of; cbn [op_coord op_color]. apply firstn_skipn. Qed.

Lemma import_export_points_repaired pts :
  match pts with Some rows => forallb (fun r => Nat.eqb (List.length r) 6) rows = true | None => True end ->
  bind (export_points pts) import_points_repaired = Ok pts.
Proof.
  destruct pts as [rows|]; cbn; [|reflexivity]. intros R.
  rewrite (export_points_from_spec 0 rows R). cbn.
  rewrite parse_keys_skeyed. cbn. rewrite nsort_keyed.
  assert (E : map (fun kp : nat * opoint => row_of (snd kp)) (keyed 0 (map opoint_of rows)) = rows).
  { rewrite (map_snd_keyed_gen row_of), map_map.
    clear -R. induction rows as [|r rows IH]; cbn [map forallb] in *; [reflexivity|].
    apply andb_true_iff in R. destruct R as [L R]. rewrite IH by exact R.
    rewrite row_of_opoint_of; [reflexivity|apply Nat.eqb_eq; exact L]. }
  rewrite E. destruct rows as [|r rows]; [reflexivity|].
  unfold shape_ok. replace (forallb (has_len 6) (r :: rows)) with true by (symmetry; exact R).
  reflexivity.
Qed.

(* ------------------------------------------------------------------ features and matches *)
Lemma lookup_flat_opt {X V} (k : X -> string) (f : string -> option V) (l : list X) (n : string) :
  lookup n (flat_map (fun x => match f (k x) with Some a => [(k x, a)] | None => [] end) l)
  = if memb n (map k l) then f n else None.
Proof.
  induction l as [|x l IH]; cbn; [reflexivity|].
  destruct (f (k x)) as [a|] eqn:F; cbn.
  - destruct (eqb_spec n (k x)) as [->|N]; cbn; [symmetry; exact F|exact IH].
  - destruct (eqb_spec n (k x)) as [->|N]; cbn; [|exact IH].
    rewrite IH, F. destruct (memb (k x) (map k l)); reflexivity.
Qed.

Lemma import_keypoints_flat {X} (k : X -> string) (f : X -> option (option arr * option arr)) (l : list X) :
  import_keypoints (flat_map (fun x => match f x with Some e => [(k x, e)] | None => [] end) l)
  = flat_map (fun x => match f x with Some (Some a, _) => [(k x, a)] | _ => [] end) l.
Proof.
  induction l as [|x l IH]; cbn; [reflexivity|].
  destruct (f x) as [[[a|] ds]|]; cbn; rewrite <- IH; reflexivity.
Qed.

Lemma import_descriptors_flat {X} (k : X -> string) (f : X -> option (option arr * option arr)) (l : list X) :
  import_descriptors (flat_map (fun x => match f x with Some e => [(k x, e)] | None => [] end) l)
  = flat_map (fun x => match f x with Some (_, Some a) => [(k x, a)] | _ => [] end) l.
Proof.
  induction l as [|x l IH]; cbn; [reflexivity|].
  destruct (f x) as [[ks [a|]]|]; cbn; rewrite <- IH; reflexivity.
Qed.

Lemma lookup_not_key {K V} `{EqDec K} (k : K) (m : list (K * V)) : ~ In k (map fst m) -> lookup k m = None.
Proof. intros N. apply lookup_None_keys. exact N. Qed.

Lemma keys_subset_lookup {V} (m : list (string * V)) (ns : list string) n :
  forallb (fun e => memb (fst e) ns) m = true -> memb n ns = false -> lookup n m = None.
Proof.
  intros S N. apply lookup_not_key. intro I. apply in_map_iff in I. destruct I as (e & E & I).
  rewrite forallb_forall in S. specialize (S e I). rewrite E in S. congruence.
Qed.

(* matches: the dict of file a holds exactly the pairs (a, _) *)
Lemma lookup_matches_file (ms : list ((string * string) * list mrow)) a b :
  lookup (a, b) (map (fun e => ((a, fst e), map one_score (snd e)))
                     (flat_map (fun e => if eqb (fst (fst e)) a then [(snd (fst e), map mrow_idx (snd e))] else []) ms))
  = option_map (fun rows => map one_score (map mrow_idx rows)) (lookup (a, b) ms).
Proof.
  induction ms as [|[[a' b'] rows] ms IH]; cbn; [reflexivity|].
  destruct (eqb_spec a' a) as [->|N]; cbn.
  - change (eqb (a, b) (a, b')) with (pair_eqb (a, b) (a, b')). unfold pair_eqb; cbn [fst snd].
    rewrite eqb_refl; cbn. destruct (eqb b b'); [reflexivity|exact IH].
  - change (eqb (a, b) (a', b')) with (pair_eqb (a, b) (a', b')). unfold pair_eqb; cbn [fst snd].
    rewrite (neq_eqb a a') by congruence. cbn. exact IH.
Qed.

Lemma lookup_other_file {V W} (a a' : string) b (l : list (string * W)) (g : W -> V) :
  a <> a' -> lookup (a, b) (map (fun e => ((a', fst e), g (snd e))) l) = None.
Proof.
  intros N. induction l as [|[b' w] l IH]; cbn; [reflexivity|].
  change (eqb (a, b) (a', b')) with (pair_eqb (a, b) (a', b')). unfold pair_eqb; cbn [fst snd].
  rewrite (neq_eqb a a') by exact N. cbn. exact IH.
Qed.

Lemma lookup_import_matches (F : string -> list (string * list (Z * Z))) (ns : list string) a b :
  lookup (a, b) (import_matches (map (fun n => (n, F n)) ns))
  = if memb a ns then lookup (a, b) (map (fun e => ((a, fst e), map one_score (snd e))) (F a)) else None.
Proof.
  unfold import_matches. induction ns as [|n ns IH]; [reflexivity|].
  cbn [map flat_map memb fst snd]. rewrite lookup_app.
  destruct (eqb_spec a n) as [->|N]; cbn [orb].
  - match goal with |- match ?X with _ => _ end = _ => destruct X eqn:EX end; [reflexivity|].
    rewrite IH. destruct (memb n ns); reflexivity.
  - rewrite lookup_other_file by exact N. exact IH.
Qed.

(* ------------------------------------------------------------------ the round trip *)
Section RoundTrip.
  Variable to_rotvec : quat -> vec.
  Variable of_rotvec : vec -> quat.

  Notation export := (export to_rotvec).

  Variable d : dataset.
  Hypothesis R : in_range d = true.
  (* numpy-quaternion: from_rotation_vector(as_rotation_vector(q)) is the rotation of q.  Only needed
     (and only assumed) for the quaternions stored in the trajectories of the dataset at hand. *)
  Definition rotvec_contract_on : Prop :=
    forall k p, In (k, p) (d_traj d) -> ~ n2 (p_r p) == 0 ->
                rot (of_rotvec (to_rotvec (p_r p))) =m= rot (p_r p).

  Lemma range_facts :
    (forall ic, In ic (d_cameras d) -> cam_in_range (snd ic) = true) /\
    NoDup (map fst (d_cameras d)) /\ NoDup (names d) /\
    (forall im, In im (d_images d) -> posed d im = true) /\
    match d_points d with Some rows => forallb (fun r => Nat.eqb (List.length r) 6) rows = true | None => True end /\
    forallb (fun e => memb (fst e) (names d)) (d_keypoints d) = true /\
    forallb (fun e => memb (fst e) (names d)) (d_descriptors d) = true /\
    forallb (fun e => memb (fst (fst e)) (names d)) (d_matches d) = true.
  Proof.
    pose proof R as R'. unfold in_range in R'. rewrite !andb_true_iff in R'.
    destruct R' as [[[[[[[[[[C NC] NI] P] PT] NK] SK] ND] SD] NM] SM].
    repeat split; auto.
    - rewrite forallb_forall in C. exact C.
    - apply nodupb_NoDup; exact NC.
    - apply nodupb_NoDup; exact NI.
    - rewrite forallb_forall in P. exact P.
    - destruct (d_points d); [exact PT|exact I].
  Qed.

  (* the pose an image comes back with *)
  Definition pose_back (im : image) : pose :=
    match lookup (i_ts im, i_cam im) (d_traj d) with
    | Some p => mkPose (of_rotvec (to_rotvec (p_r p))) (p_t p)
    | None => mkPose qone vzero
    end.

  Fixpoint imgs_from (ts : Z) (ims : list image) : list image :=
    match ims with [] => [] | im :: r => mkImg ts (i_cam im) (i_name im) :: imgs_from (ts + 1) r end.
  Fixpoint traj_from (ts : Z) (ims : list image) : list ((Z * string) * pose) :=
    match ims with [] => [] | im :: r => ((ts, i_cam im), pose_back im) :: traj_from (ts + 1) r end.

  Lemma import_shots_spec ims ts :
    (forall im, In im ims -> posed d im = true) ->
    import_shots of_rotvec ts (map (fun im => (i_name im, export_shot to_rotvec d im)) ims)
    = Ok (imgs_from ts ims, traj_from ts ims).
  Proof.
    revert ts; induction ims as [|im ims IH]; intros ts P; cbn; [reflexivity|].
    pose proof (P im (or_introl eq_refl)) as Pim. unfold posed in Pim. unfold pose_back.
    destruct (lookup (i_ts im, i_cam im) (d_traj d)) as [p|]; [|discriminate].
    rewrite IH by (intros; apply P; right; assumption). reflexivity.
  Qed.

  (* what the round trip yields, explicitly *)
  Definition kp_back : list (string * arr) :=
    flat_map (fun im => match feature_entry d (i_name im) with Some (Some a, _) => [(i_name im, a)] | _ => [] end)
             (d_images d).
  Definition ds_back : list (string * arr) :=
    flat_map (fun im => match feature_entry d (i_name im) with Some (_, Some a) => [(i_name im, a)] | _ => [] end)
             (d_images d).

  (* the re-imported point cloud depends on how the importer orders the ids: a parameter here *)
  Variable pts' : option (list (list Q)).

  Definition back : dataset :=
    {| d_cameras := map (fun ic => (fst ic, icam (ecam (snd ic)))) (d_cameras d);
       d_images := imgs_from 0 (d_images d);
       d_traj := traj_from 0 (d_images d);
       d_points := pts';
       d_keypoints := kp_back;
       d_descriptors := ds_back;
       d_matches := import_matches (export_matches d) |}.

  Lemma export_features_flat :
    export_features d
    = flat_map (fun im => match feature_entry d (i_name im) with Some e => [(i_name im, e)] | None => [] end) (d_images d).
  Proof.
    destruct range_facts as (_ & _ & NI & _).
    unfold export_features.
    rewrite (fold_insert_opt i_name (fun im => feature_entry d (i_name im)) (d_images d) [] NI (fun _ _ I => I)).
    reflexivity.
  Qed.

  Theorem roundtrip_gen_total ipts :
    bind (export_points (d_points d)) ipts = Ok pts' ->
    bind (export d) (import_gen of_rotvec ipts) = Ok back.
  Proof.
    intros IP. destruct range_facts as (C & _ & NI & P & PT & _).
    unfold MOpensfm.export, export_cameras.
    rewrite (mapM_ok _ (fun ic => (fst ic, ecam (snd ic)))).
    2:{ intros ic I. rewrite (export_camera_in_range _ (C ic I)). reflexivity. }
    cbn [bind].
    destruct (export_points (d_points d)) as [pts|e] eqn:EP; [|discriminate IP]. cbn [bind] in IP |- *.
    unfold MOpensfm.import_gen, import_cameras; cbn [o_cameras o_shots o_points o_features o_matches].
    rewrite (mapM_ok _ (fun ic => (fst ic, icam (snd ic))))
      by (intros x Ix; apply in_map_iff in Ix; destruct Ix as (ic & <- & _); reflexivity).
    cbn [bind]. unfold export_shots. rewrite (fold_insert_all i_name (export_shot to_rotvec d) (d_images d) NI).
    rewrite (import_shots_spec (d_images d) 0 P). cbn [bind]. rewrite IP. cbn [bind fst snd].
    unfold back. f_equal. f_equal.
    - rewrite map_map. reflexivity.
    - rewrite export_features_flat. apply import_keypoints_flat.
    - rewrite export_features_flat. apply import_descriptors_flat.
  Qed.

  (* ---- 1. images: same names bound to the same camera ids (and in the same order) *)
  Lemma imgs_from_names ts ims :
    map (fun i => (i_name i, i_cam i)) (imgs_from ts ims) = map (fun i => (i_name i, i_cam i)) ims.
  Proof. revert ts; induction ims as [|im ims IH]; intros ts; cbn; [reflexivity|]. rewrite IH; reflexivity. Qed.

  Theorem images_preserved :
    map (fun i => (i_name i, i_cam i)) (d_images back) = map (fun i => (i_name i, i_cam i)) (d_images d).
  Proof. apply imgs_from_names. Qed.

  (* ---- 2. poses *)
  Lemma traj_from_keys ts ims k : In k (map fst (traj_from ts ims)) -> (ts <= fst k)%Z.
  Proof.
    revert ts; induction ims as [|im ims IH]; intros ts; cbn; [tauto|].
    intros [<-|I]; cbn; [lia|]. specialize (IH _ I). lia.
  Qed.

  Lemma pose_found ims ts im :
    In im ims -> exists ts', In (mkImg ts' (i_cam im) (i_name im)) (imgs_from ts ims) /\
                            lookup (ts', i_cam im) (traj_from ts ims) = Some (pose_back im).
  Proof.
    revert ts; induction ims as [|im0 ims IH]; intros ts; cbn; [tauto|].
    intros [->|I].
    - exists ts. split; [left; reflexivity|]. rewrite eqb_refl. reflexivity.
    - destruct (IH (ts + 1)%Z I) as (ts' & I1 & L). exists ts'. split; [right; exact I1|].
      destruct (eqb_spec (ts', i_cam im) (ts, i_cam im0)) as [E|_]; [|exact L].
      exfalso. assert (In (ts', i_cam im) (map fst (traj_from (ts + 1) ims))) as K.
      { apply lookup_In_keys. rewrite L. discriminate. }
      apply traj_from_keys in K. cbn in K. inversion E. lia.
  Qed.

  Lemma lookup_Some_In {K V} `{EqDec K} (k : K) (v : V) m : lookup k m = Some v -> In (k, v) m.
  Proof.
    induction m as [|[k' v'] m IH]; cbn; [discriminate|].
    destruct (eqb_spec k k') as [->|_]; [intros [= ->]; left; reflexivity | intros L; right; exact (IH L)].
  Qed.

  Theorem poses_preserved im p :
    rotvec_contract_on ->
    In im (d_images d) -> lookup (i_ts im, i_cam im) (d_traj d) = Some p ->
    exists ts' p', In (mkImg ts' (i_cam im) (i_name im)) (d_images back) /\
                   lookup (ts', i_cam im) (d_traj back) = Some p' /\
                   rot (p_r p') =m= rot (p_r p) /\ p_t p' = p_t p.
  Proof.
    intros rotvec_contract I L. destruct range_facts as (_ & _ & _ & P & _).
    destruct (pose_found (d_images d) 0 im I) as (ts' & I1 & L1).
    exists ts', (pose_back im). split; [exact I1|]. split; [exact L1|].
    specialize (P im I). unfold posed in P. unfold pose_back. rewrite L in *. cbn. split; [|reflexivity].
    apply (rotvec_contract _ _ (lookup_Some_In _ _ _ L)). intro Z. unfold is_zero in P. apply negb_true_iff in P.
    assert (Qeq_bool (n2 (p_r p)) 0 = true) by (apply Qeq_eq_bool; exact Z). congruence.
  Qed.

  (* nothing else appears: one trajectory entry per image *)
  Lemma traj_from_length ts ims : List.length (traj_from ts ims) = List.length ims.
  Proof. revert ts; induction ims as [|im ims IH]; intros ts; cbn; [reflexivity|]. rewrite IH; reflexivity. Qed.
  Theorem one_pose_per_image : List.length (d_traj back) = List.length (d_images d).
  Proof. apply traj_from_length. Qed.

  (* ---- 3. cameras *)
  Theorem camera_ids_preserved : map fst (d_cameras back) = map fst (d_cameras d).
  Proof. cbn. rewrite map_map. reflexivity. Qed.

  Lemma lookup_map_snd {V W} (g : V -> W) (m : list (string * V)) k :
    lookup k (map (fun e => (fst e, g (snd e))) m) = option_map g (lookup k m).
  Proof. induction m as [|[k' v] m IH]; cbn; [reflexivity|]. destruct (eqb k k'); [reflexivity|exact IH]. Qed.

  Theorem cameras_preserved id c :
    lookup id (d_cameras d) = Some c ->
    exists c', lookup id (d_cameras back) = Some c' /\ c_type c' = Radial /\
               qlist_eq (persp c') (persp c) /\
               nthq (c_params c') 3 == nthq (c_params c) 3 /\ nthq (c_params c') 4 == nthq (c_params c) 4.
  Proof.
    intros L. destruct range_facts as (C & NC & _).
    exists (icam (ecam c)). split.
    - cbn. rewrite (lookup_map_snd (fun c => icam (ecam c))), L. reflexivity.
    - apply camera_roundtrip. apply (C (id, c)). apply lookup_In; assumption.
  Qed.

  (* ---- 4. points: the same sequence, whatever its length *)
  Theorem points_back : d_points back = pts'.
  Proof. reflexivity. Qed.

  (* ---- 5. keypoints and descriptors, by image name *)
  Theorem keypoints_preserved n : lookup n (d_keypoints back) = lookup n (d_keypoints d).
  Proof.
    destruct range_facts as (_ & _ & _ & _ & _ & SK & _).
    cbn. unfold kp_back, feature_entry.
    rewrite (flat_map_ext _ (fun im => match lookup (i_name im) (d_keypoints d) with
                                       | Some a => [(i_name im, a)] | None => [] end)).
    2:{ intros im. destruct (lookup (i_name im) (d_keypoints d)), (lookup (i_name im) (d_descriptors d)); reflexivity. }
    rewrite (lookup_flat_opt i_name (fun n => lookup n (d_keypoints d))).
    fold (names d). destruct (memb n (names d)) eqn:M; [reflexivity|].
    symmetry. eapply keys_subset_lookup; eassumption.
  Qed.

  Theorem descriptors_preserved n : lookup n (d_descriptors back) = lookup n (d_descriptors d).
  Proof.
    destruct range_facts as (_ & _ & _ & _ & _ & _ & SD & _).
    cbn. unfold ds_back, feature_entry.
    rewrite (flat_map_ext _ (fun im => match lookup (i_name im) (d_descriptors d) with
                                       | Some a => [(i_name im, a)] | None => [] end)).
    2:{ intros im. destruct (lookup (i_name im) (d_keypoints d)), (lookup (i_name im) (d_descriptors d)); reflexivity. }
    rewrite (lookup_flat_opt i_name (fun n => lookup n (d_descriptors d))).
    fold (names d). destruct (memb n (names d)) eqn:M; [reflexivity|].
    symmetry. eapply keys_subset_lookup; eassumption.
  Qed.

  (* ---- 6. matches: the same image pairs (orientation kept) with the same index pairs, score 1 *)
  Theorem matches_preserved a b :
    lookup (a, b) (d_matches back)
    = option_map (fun rows => map one_score (map mrow_idx rows)) (lookup (a, b) (d_matches d)).
  Proof.
    destruct range_facts as (_ & _ & NI & _ & _ & _ & _ & SM).
    cbn. unfold export_matches.
    destruct (d_matches d) as [|m0 ms] eqn:EM; [reflexivity|]. rewrite <- EM in *.
    rewrite (fold_insert_all i_name (fun im => matches_of d (i_name im)) (d_images d) NI).
    rewrite <- (map_map i_name (fun n => (n, matches_of d n))). fold (names d).
    rewrite lookup_import_matches. unfold matches_of. rewrite lookup_matches_file.
    destruct (memb a (names d)) eqn:M; [reflexivity|].
    replace (lookup (a, b) (d_matches d)) with (@None (list mrow)); [reflexivity|].
    symmetry. apply lookup_not_key. intro I. apply in_map_iff in I. destruct I as (e & E & I).
    rewrite forallb_forall in SM. specialize (SM e I). rewrite E in SM. cbn in SM. congruence.
  Qed.
End RoundTrip.

(* ------------------------------------------------------------------ the string order of the ids (the code as it is) *)
From Coq Require Import Sorting.Permutation.

(* what `sorted(ids as strings)` does to a sequence keyed "0", "1", ...: a fixed permutation of it *)
Definition string_order_perm {V} (vs : list V) : list V := map snd (ksort (skeyed 0 vs)).

Lemma kinsert_map_vals {V W} (g : V -> W) (x : string * V) (l : list (string * V)) :
  kinsert (fst x, g (snd x)) (map (fun kv => (fst kv, g (snd kv))) l)
  = map (fun kv => (fst kv, g (snd kv))) (kinsert x l).
Proof.
  induction l as [|y l IH]; cbn [kinsert map fst snd]; [reflexivity|].
  destruct (sleb (fst x) (fst y)); cbn [map fst snd]; [reflexivity|]. rewrite IH. reflexivity.
Qed.

Lemma ksort_map_vals {V W} (g : V -> W) (l : list (string * V)) :
  ksort (map (fun kv => (fst kv, g (snd kv))) l) = map (fun kv => (fst kv, g (snd kv))) (ksort l).
Proof.
  induction l as [|x l IH]; cbn [ksort map]; [reflexivity|]. rewrite IH. apply (kinsert_map_vals g x).
Qed.

Lemma skeyed_map_vals {V W} (g : V -> W) i (vs : list V) :
  skeyed i (map g vs) = map (fun kv => (fst kv, g (snd kv))) (skeyed i vs).
Proof.
  unfold skeyed. revert i; induction vs as [|v vs IH]; intros i; cbn; [reflexivity|]. rewrite IH. reflexivity.
Qed.

Lemma string_order_perm_map {V W} (g : V -> W) (vs : list V) :
  string_order_perm (map g vs) = map g (string_order_perm vs).
Proof.
  unfold string_order_perm. rewrite skeyed_map_vals, ksort_map_vals, !map_map. reflexivity.
Qed.

Lemma kinsert_perm {V} (x : string * V) l : Permutation (kinsert x l) (x :: l).
Proof.
  induction l as [|y l IH]; cbn [kinsert]; [apply Permutation_refl|].
  destruct (sleb (fst x) (fst y)); [apply Permutation_refl|].
  eapply perm_trans; [apply perm_skip; exact IH|apply perm_swap].
Qed.

Lemma ksort_perm {V} (l : list (string * V)) : Permutation (ksort l) l.
Proof.
  induction l as [|x l IH]; cbn [ksort]; [constructor|].
  eapply perm_trans; [apply kinsert_perm|apply perm_skip; exact IH].
Qed.

Lemma map_snd_skeyed {V} i (vs : list V) : map snd (skeyed i vs) = vs.
Proof. unfold skeyed. rewrite map_map. cbn. apply map_snd_keyed. Qed.

(* the multiset of elements is preserved, whatever the length *)
Lemma string_order_perm_Permutation {V} (vs : list V) : Permutation (string_order_perm vs) vs.
Proof.
  unfold string_order_perm. rewrite <- (map_snd_skeyed 0 vs) at 2.
  apply Permutation_map, ksort_perm.
Qed.

(* up to ten elements nothing moves ("0" < "1" < ... < "9" as strings too) *)
Lemma string_order_perm_upto_ten {V} (vs : list V) : (List.length vs <= 10)%nat -> string_order_perm vs = vs.
Proof.
  intros L. do 11 (destruct vs as [|? vs]; [vm_compute; reflexivity|]). cbn in L. lia.
Qed.

(* beyond ten the ids do move (the values may of course coincide) *)
Lemma string_order_ids_beyond_ten n : (10 < n)%nat -> string_order_perm (seq 0 n) <> seq 0 n.
Proof.
  intros L E. apply (sort_string_breaks (seq 0 n)); [rewrite seq_length; exact L|].
  (* the sorted keyed list is determined by its values, because key i carries value i *)
  assert (K : forall l : list (string * nat), (forall kv, In kv l -> fst kv = show_nat (snd kv)) ->
              l = map (fun v => (show_nat v, v)) (map snd l)).
  { induction l as [|[k v] l IH]; cbn; intros H; [reflexivity|].
    pose proof (H (k, v) (or_introl eq_refl)) as Ek. cbn in Ek. subst k. f_equal.
    apply IH. intros; apply H; right; assumption. }
  assert (S : forall i m kv, In kv (skeyed i (seq i m)) -> fst kv = show_nat (snd kv)).
  { intros i m; revert i; induction m as [|m IH]; intros i kv; cbn; [tauto|].
    intros [<-|I]; [reflexivity|]. apply (IH (S i)). exact I. }
  rewrite (K (ksort (skeyed 0 (seq 0 n)))).
  2:{ intros kv I. apply (S 0%nat n). eapply Permutation_in; [apply ksort_perm|exact I]. }
  unfold string_order_perm in E. rewrite E.
  symmetry. rewrite (K (skeyed 0 (seq 0 n)) (S 0%nat n)) at 1. rewrite map_snd_skeyed. reflexivity.
Qed.

Lemma ksort_In {V} (y : string * V) l : In y (ksort l) <-> In y l.
Proof.
  split; intro I; (eapply Permutation_in; [|exact I]); [apply ksort_perm|apply Permutation_sym, ksort_perm].
Qed.

(* export then the as-is import of the points: the rows in the string order of their ids *)
Lemma import_export_points pts :
  match pts with Some rows => forallb (fun r => Nat.eqb (List.length r) 6) rows = true | None => True end ->
  bind (export_points pts) import_points = Ok (option_map string_order_perm pts).
Proof.
  destruct pts as [rows|]; cbn; [|reflexivity]. intros R.
  rewrite (export_points_from_spec 0 rows R). cbn [bind import_points].
  assert (E : map (fun kp : string * opoint => row_of (snd kp)) (ksort (skeyed 0 (map opoint_of rows)))
              = string_order_perm rows).
  { rewrite <- (map_map snd row_of). change (map snd (ksort (skeyed 0 (map opoint_of rows))))
      with (string_order_perm (map opoint_of rows)).
    rewrite string_order_perm_map, map_map.
    assert (F : forall r, In r (string_order_perm rows) -> List.length r = 6%nat).
    { intros r I. apply (Permutation_in _ (string_order_perm_Permutation rows)) in I.
      rewrite forallb_forall in R. apply Nat.eqb_eq. apply R. exact I. }
    induction (string_order_perm rows) as [|r l IH]; cbn [map]; [reflexivity|].
    rewrite row_of_opoint_of by (apply F; left; reflexivity).
    rewrite IH by (intros; apply F; right; assumption). reflexivity. }
  rewrite E. cbn [option_map].
  destruct (string_order_perm rows) as [|r l] eqn:SP; [reflexivity|].
  unfold shape_ok. replace (forallb (has_len 6) (r :: l)) with true; [reflexivity|].
  symmetry. apply forallb_forall. intros x I. unfold has_len.
  rewrite forallb_forall in R. apply R.
  apply (Permutation_in _ (string_order_perm_Permutation rows)). rewrite SP. exact I.
Qed.

Section Instances.
  Variable to_rotvec : quat -> vec.
  Variable of_rotvec : vec -> quat.
  Variable d : dataset.
  Hypothesis R : in_range d = true.

  Lemma points_in_range :
    match d_points d with Some rows => forallb (fun r => Nat.eqb (List.length r) 6) rows = true | None => True end.
  Proof. destruct (range_facts d R) as (_ & _ & _ & _ & PT & _). exact PT. Qed.

  (* the code as it is *)
  Theorem roundtrip_total :
    roundtrip to_rotvec of_rotvec d = Ok (back to_rotvec of_rotvec d (option_map string_order_perm (d_points d))).
  Proof. apply roundtrip_gen_total; [exact R|]. apply import_export_points, points_in_range. Qed.

  (* with the numeric-order repair *)
  Theorem roundtrip_repaired_total :
    roundtrip_repaired to_rotvec of_rotvec d = Ok (back to_rotvec of_rotvec d (d_points d)).
  Proof. apply roundtrip_gen_total; [exact R|]. apply import_export_points_repaired, points_in_range. Qed.
End Instances.
(* ------------------------------------------------------------------ a re-used export target (histories) *)
(* a dict updated in a loop whose value depends on the key only: what a key maps to afterwards *)
Lemma lookup_fold_insert_opt {X V} (k : X -> string) (f : string -> option V) (l : list X) :
  forall acc n,
  lookup n (fold_left (fun m x => match f (k x) with Some e => insert (k x) e m | None => m end) l acc)
  = if memb n (map k l) then match f n with Some e => Some e | None => lookup n acc end else lookup n acc.
Proof.
  induction l as [|x l IH]; intros acc n; cbn; [reflexivity|].
  rewrite IH. destruct (eqb_spec n (k x)) as [->|N]; cbn.
  - destruct (f (k x)) as [e|] eqn:F.
    + destruct (memb (k x) (map k l)); [reflexivity|apply lookup_insert_eq].
    + destruct (memb (k x) (map k l)); reflexivity.
  - destruct (f (k x)) as [e|]; [rewrite lookup_insert_neq by exact N|]; reflexivity.
Qed.

Lemma wf_fold_insert_opt {X V} (k : X -> string) (f : string -> option V) (l : list X) :
  forall acc, NoDup (keys acc) ->
  NoDup (keys (fold_left (fun m x => match f (k x) with Some e => insert (k x) e m | None => m end) l acc)).
Proof.
  induction l as [|x l IH]; intros acc W; cbn; [exact W|].
  apply IH. destruct (f (k x)); [apply wf_insert|]; exact W.
Qed.

(* what the features folder holds after an export into a directory that held [prev] *)
Theorem reexport_features_lookup prev d n :
  lookup n (export_features_onto prev d)
  = if memb n (names d)
    then match feature_entry d n with Some e => Some e | None => lookup n prev end
    else lookup n prev.
Proof. exact (lookup_fold_insert_opt i_name (feature_entry d) (d_images d) prev n). Qed.

Theorem reexport_matches_lookup prev d a :
  lookup a (export_matches_onto prev d)
  = match d_matches d with
    | [] => lookup a prev
    | _ => if memb a (names d) then Some (matches_of d a) else lookup a prev
    end.
Proof.
  unfold export_matches_onto. destruct (d_matches d) as [|m0 ms]; [reflexivity|].
  exact (lookup_fold_insert_opt i_name (fun n => Some (matches_of d n)) (d_images d) prev a).
Qed.

Lemma export_features_fresh d : export_features d = export_features_onto [] d.
Proof. reflexivity. Qed.
Lemma export_matches_fresh d : export_matches d = export_matches_onto [] d.
Proof. unfold export_matches, export_matches_onto. destruct (d_matches d); reflexivity. Qed.

Lemma wf_export_features_onto prev d : NoDup (keys prev) -> NoDup (keys (export_features_onto prev d)).
Proof. exact (wf_fold_insert_opt i_name (feature_entry d) (d_images d) prev). Qed.
Lemma wf_export_matches_onto prev d : NoDup (keys prev) -> NoDup (keys (export_matches_onto prev d)).
Proof.
  intros W. unfold export_matches_onto. destruct (d_matches d); [exact W|].
  exact (wf_fold_insert_opt i_name (fun n => Some (matches_of d n)) (d_images d) prev W).
Qed.

(* covered history: the folders end up holding what a fresh export writes *)
Theorem reexport_covered_features prev d : covered_by prev d ->
  forall n, lookup n (export_features_onto (o_features prev) d) = lookup n (export_features d).
Proof.
  intros [CF _] n. rewrite export_features_fresh, !reexport_features_lookup. cbn [lookup].
  destruct (lookup n (o_features prev)) as [e|] eqn:L.
  - destruct (CF n) as [M FE]; [rewrite L; discriminate|]. fold (names d) in M. rewrite M.
    destruct (feature_entry d n); [reflexivity|congruence].
  - destruct (memb n (names d)); reflexivity.
Qed.

Theorem reexport_covered_matches prev d : covered_by prev d ->
  forall a, lookup a (export_matches_onto (o_matches prev) d) = lookup a (export_matches d).
Proof.
  intros [_ CM] a. rewrite export_matches_fresh, !reexport_matches_lookup. cbn [lookup].
  destruct (lookup a (o_matches prev)) as [e|] eqn:L.
  - destruct (CM a) as [NE M]; [rewrite L; discriminate|]. fold (names d) in M. rewrite M.
    destruct (d_matches d); [congruence|reflexivity].
  - destruct (d_matches d); [reflexivity|]. destruct (memb a (names d)); reflexivity.
Qed.

(* leftovers, AS THE CODE IS: a features file of the earlier export that the dataset does not write again stays *)
Theorem reexport_leftover_features prev d n e :
  lookup n prev = Some e -> feature_entry d n = None -> lookup n (export_features_onto prev d) = Some e.
Proof. intros L F. rewrite reexport_features_lookup, F, L. destruct (memb n (names d)); reflexivity. Qed.
Theorem reexport_leftover_matches prev d a f :
  lookup a prev = Some f -> d_matches d = [] -> lookup a (export_matches_onto prev d) = Some f.
Proof. intros L E. rewrite reexport_matches_lookup, E. exact L. Qed.

(* ---- the importer on arbitrary (well-formed: one file per name) folders *)
Lemma import_keypoints_keys fs k : In k (keys (import_keypoints fs)) -> In k (keys fs).
Proof.
  induction fs as [|[k' [[a|] ds]] fs IH]; cbn; [tauto| |]; intros I.
  - destruct I as [<-|I]; [left; reflexivity|right; exact (IH I)].
  - right; exact (IH I).
Qed.
Lemma import_descriptors_keys fs k : In k (keys (import_descriptors fs)) -> In k (keys fs).
Proof.
  induction fs as [|[k' [kp [a|]]] fs IH]; cbn; [tauto| |]; intros I.
  - destruct I as [<-|I]; [left; reflexivity|right; exact (IH I)].
  - right; exact (IH I).
Qed.

Lemma lookup_import_keypoints fs n : NoDup (keys fs) ->
  lookup n (import_keypoints fs) = match lookup n fs with Some (Some a, _) => Some a | _ => None end.
Proof.
  induction fs as [|[k [kp ds]] fs IH]; cbn; [reflexivity|]. intros ND. inversion ND as [|? ? Nk ND']; subst.
  destruct kp as [a|]; cbn; destruct (eqb_spec n k) as [->|N]; try reflexivity; try (apply IH; exact ND').
  apply lookup_not_key. intro I. apply Nk. apply import_keypoints_keys. exact I.
Qed.
Lemma lookup_import_descriptors fs n : NoDup (keys fs) ->
  lookup n (import_descriptors fs) = match lookup n fs with Some (_, Some a) => Some a | _ => None end.
Proof.
  induction fs as [|[k [kp ds]] fs IH]; cbn; [reflexivity|]. intros ND. inversion ND as [|? ? Nk ND']; subst.
  destruct ds as [a|]; cbn; destruct (eqb_spec n k) as [->|N]; try reflexivity; try (apply IH; exact ND').
  all: apply lookup_not_key; intro I; apply Nk; apply import_descriptors_keys; exact I.
Qed.

Lemma lookup_one_file (a : string) b (f : list (string * list (Z * Z))) :
  lookup (a, b) (map (fun e => ((a, fst e), map one_score (snd e))) f) = option_map (map one_score) (lookup b f).
Proof.
  induction f as [|[b' r] f IH]; cbn; [reflexivity|].
  change (eqb (a, b) (a, b')) with (pair_eqb (a, b) (a, b')). unfold pair_eqb; cbn [fst snd].
  rewrite eqb_refl; cbn. destruct (eqb b b'); [reflexivity|exact IH].
Qed.

Lemma import_matches_keys ms a b : In (a, b) (keys (import_matches ms)) -> In a (keys ms).
Proof.
  unfold import_matches, keys. induction ms as [|[a' f] ms IH]; cbn; [tauto|].
  rewrite map_app, in_app_iff. intros [I|I].
  - rewrite map_map in I. cbn in I. apply in_map_iff in I. destruct I as (e & E & _). inversion E. left; reflexivity.
  - right. exact (IH I).
Qed.

Lemma lookup_import_matches_wf ms a b : NoDup (keys ms) ->
  lookup (a, b) (import_matches ms)
  = match lookup a ms with Some f => option_map (map one_score) (lookup b f) | None => None end.
Proof.
  induction ms as [|[a' f] ms IH]; [reflexivity|]. intros ND. inversion ND as [|? ? Na ND']; subst.
  unfold import_matches in *. cbn [flat_map fst snd lookup]. rewrite lookup_app.
  destruct (eqb_spec a a') as [->|N].
  - rewrite lookup_one_file. destruct (lookup b f) as [r|]; cbn; [reflexivity|].
    apply lookup_not_key. intro I. apply Na. exact (import_matches_keys ms a' b I).
  - rewrite lookup_other_file by exact N. apply IH. exact ND'.
Qed.

(* ---- export_onto / import on a project with other folders *)
Lemma export_onto_spec to_rv prev d :
  export_onto to_rv prev d
  = bind (export to_rv d) (fun p => Ok (with_fm p (export_features_onto (o_features prev) d)
                                                 (export_matches_onto (o_matches prev) d))).
Proof.
  unfold export_onto, export. destruct (export_cameras (d_cameras d)); cbn [bind]; [|reflexivity].
  destruct (export_points (d_points d)); reflexivity.
Qed.

Lemma export_onto_empty to_rv d : export_onto to_rv empty_project d = export to_rv d.
Proof.
  unfold export_onto, export. cbn [empty_project o_features o_matches].
  rewrite <- export_features_fresh, <- export_matches_fresh. reflexivity.
Qed.

Lemma import_gen_with_fm of_rv ipts p f m :
  import_gen of_rv ipts (with_fm p f m)
  = bind (import_gen of_rv ipts p)
         (fun d0 => Ok (set_fm d0 (import_keypoints f) (import_descriptors f) (import_matches m))).
Proof.
  unfold import_gen, with_fm; cbn [o_cameras o_shots o_points o_features o_matches].
  destruct (import_cameras (o_cameras p)); cbn [bind]; [|reflexivity].
  destruct (import_shots of_rv 0 (o_shots p)); cbn [bind]; [|reflexivity].
  destruct (ipts (o_points p)); reflexivity.
Qed.

(* the round trip through a re-used directory differs from the fresh one in the features and matches only,
   and those are what the importer reads from the folders as they are after the export: ANY earlier project *)
Theorem roundtrip_onto_spec to_rv of_rv prev d d0 :
  roundtrip to_rv of_rv d = Ok d0 ->
  roundtrip_onto to_rv of_rv prev d
  = Ok (set_fm d0 (import_keypoints (export_features_onto (o_features prev) d))
                  (import_descriptors (export_features_onto (o_features prev) d))
                  (import_matches (export_matches_onto (o_matches prev) d))).
Proof.
  unfold roundtrip, roundtrip_onto. rewrite export_onto_spec.
  destruct (export to_rv d) as [p|e]; cbn [bind]; [|discriminate].
  unfold import_. rewrite import_gen_with_fm. intros ->. reflexivity.
Qed.

Section ReExport.
  Variable to_rv : quat -> vec.
  Variable of_rv : vec -> quat.
  Variable d : dataset.
  Hypothesis R : in_range d = true.
  Variable prev : project.
  Hypothesis WF : NoDup (keys (o_features prev)).
  Hypothesis WM : NoDup (keys (o_matches prev)).
  Hypothesis COV : covered_by prev d.

  Lemma fresh_keypoints n : lookup n (import_keypoints (export_features d)) = lookup n (d_keypoints d).
  Proof.
    rewrite <- (keypoints_preserved to_rv of_rv d R None n). cbn [back d_keypoints]. unfold kp_back.
    rewrite (export_features_flat d R). rewrite import_keypoints_flat. reflexivity.
  Qed.
  Lemma fresh_descriptors n : lookup n (import_descriptors (export_features d)) = lookup n (d_descriptors d).
  Proof.
    rewrite <- (descriptors_preserved to_rv of_rv d R None n). cbn [back d_descriptors]. unfold ds_back.
    rewrite (export_features_flat d R). rewrite import_descriptors_flat. reflexivity.
  Qed.

  Theorem reexport_keypoints n :
    lookup n (import_keypoints (export_features_onto (o_features prev) d)) = lookup n (d_keypoints d).
  Proof.
    rewrite lookup_import_keypoints by (apply wf_export_features_onto; exact WF).
    rewrite (reexport_covered_features prev d COV).
    rewrite <- fresh_keypoints. symmetry. apply lookup_import_keypoints.
    rewrite export_features_fresh. apply wf_export_features_onto. constructor.
  Qed.

  Theorem reexport_descriptors n :
    lookup n (import_descriptors (export_features_onto (o_features prev) d)) = lookup n (d_descriptors d).
  Proof.
    rewrite lookup_import_descriptors by (apply wf_export_features_onto; exact WF).
    rewrite (reexport_covered_features prev d COV).
    rewrite <- fresh_descriptors. symmetry. apply lookup_import_descriptors.
    rewrite export_features_fresh. apply wf_export_features_onto. constructor.
  Qed.

  Theorem reexport_matches a b :
    lookup (a, b) (import_matches (export_matches_onto (o_matches prev) d))
    = option_map (fun rows => map one_score (map mrow_idx rows)) (lookup (a, b) (d_matches d)).
  Proof.
    rewrite <- (matches_preserved to_rv of_rv d R None a b). cbn [back d_matches].
    rewrite !lookup_import_matches_wf.
    - rewrite (reexport_covered_matches prev d COV). reflexivity.
    - rewrite export_matches_fresh. apply wf_export_matches_onto. constructor.
    - apply wf_export_matches_onto. exact WM.
  Qed.
End ReExport.

(* ---- timestamps after the round trip are the ranks of the shots, whatever the timestamps of the dataset *)
Lemma imgs_from_ts ts ims :
  map i_ts (imgs_from ts ims) = map (fun k => (ts + Z.of_nat k)%Z) (seq 0 (List.length ims)).
Proof.
  revert ts; induction ims as [|im ims IH]; intros ts; [reflexivity|].
  cbn [imgs_from map List.length seq i_ts]. rewrite IH, <- seq_shift, map_map. f_equal; [lia|].
  apply map_ext. intros k. lia.
Qed.
