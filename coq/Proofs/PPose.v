(* Proofs/PPose.v — lemmas about Model/MPose.v (poses, composition chains, inverse, point transform).

   CONTENTS
   setoid      peq_equiv, same_motion_equiv; Proper instances for pr pt mkP compose2 inverse transform
               compose_from (in its first argument) and their _impl versions; valid_proper
   validity    valid_pid valid_compose2 valid_inverse valid_compose_from (closure: chains never leave the domain)
   group laws  compose2_assoc compose2_id_l compose2_id_r compose2_inverse_r compose2_inverse_l
               inverse_involutive inverse_compose2 inverse_pid
   chains      compose_from_app (any bracketing of a chain gives the same pose), compose_from_snoc,
               compose_all_cons, inverse_compose_from (inverse of a chain = reversed chain of inverses)
   action      transform_compose2 transform_compose_from (composition acts right-most first, any length)
               transform_points_compose_from transform_pid transform_inverse_l/r transform_isometry
               transform_same_motion same_motion_scale same_motion_neg compose2_same_motion
   code layer  compose2_impl_exact inverse_impl_exact transform_impl_exact compose_from_impl_exact,
               mvmul_dist / compose2_impl_close / transform_impl_close (deviation < 6e-14 |t|_inf in the band)
   rescale     inverse_rescale compose2_rescale compose_from_rescale transform_rescale rescale_keeps_laws rescale_api_lift
   histories   hstep_inverse hstep_compose hstep_compose_fresh hstep_rescale hstep_keeps_objects wf_store_hstep
               rescale_result_keeps_operands (results of inverse / compose(>=2) are fresh objects) history_inverse_current
   API layer   compose_api_refines inverse_api_refines transform_api_refines (on complete poses with non-zero
               norm the call returns, and returns the code-layer value); compose_api_snoc (justifies CChain) *)
From Coq Require Import QArith Qabs Qminmax Qreduction Qfield Bool List Setoid Morphisms Lia Lqa Arith.
From KV.Model Require Import MQV MPose.
From KV.Proofs Require Import PQV.
Import ListNotations.
Local Open Scope Q_scope.

(* ------------------------------------------------------------------ setoid structure *)
#[export] Instance peq_equiv : Equivalence peq.
Proof.
  split.
  - intros a; split; reflexivity.
  - intros a b [H1 H2]; split; symmetry; assumption.
  - intros a b c [H1 H2] [G1 G2]; split; etransitivity; eassumption.
Qed.
#[export] Instance same_motion_equiv : Equivalence same_motion.
Proof.
  split.
  - intros a; split; reflexivity.
  - intros a b [H1 H2]; split; symmetry; assumption.
  - intros a b c [H1 H2] [G1 G2]; split; etransitivity; eassumption.
Qed.
#[export] Instance mkP_proper : Proper (qeq ==> veq ==> peq) mkP.
Proof. intros a b H c d G; split; assumption. Qed.
#[export] Instance pr_proper : Proper (peq ==> qeq) pr. Proof. intros a b H; apply H. Qed.
#[export] Instance pt_proper : Proper (peq ==> veq) pt. Proof. intros a b H; apply H. Qed.
#[export] Instance valid_proper : Proper (peq ==> iff) valid.
Proof. intros a b [H _]. unfold valid. rewrite H. reflexivity. Qed.
Lemma peq_same_motion a b : a =p= b -> same_motion a b.
Proof. intros [H1 H2]; split; [rewrite H1; reflexivity | assumption]. Qed.

#[export] Instance compose2_proper : Proper (peq ==> peq ==> peq) compose2.
Proof. intros a a' [A1 A2] b b' [B1 B2]. unfold compose2. rewrite A1, A2, B1, B2. reflexivity. Qed.
#[export] Instance compose2_impl_proper : Proper (peq ==> peq ==> peq) compose2_impl.
Proof. intros a a' [A1 A2] b b' [B1 B2]. unfold compose2_impl. rewrite A1, A2, B1, B2. reflexivity. Qed.
#[export] Instance inverse_proper : Proper (peq ==> peq) inverse.
Proof. intros a a' [A1 A2]. unfold inverse. cbv zeta. rewrite A1, A2. reflexivity. Qed.
#[export] Instance inverse_impl_proper : Proper (peq ==> peq) inverse_impl.
Proof. intros a a' [A1 A2]. unfold inverse_impl. cbv zeta. rewrite A1, A2. reflexivity. Qed.
#[export] Instance transform_proper : Proper (peq ==> veq ==> veq) transform.
Proof. intros a a' [A1 A2] x x' X. unfold transform. rewrite A1, A2, X. reflexivity. Qed.
#[export] Instance transform_impl_proper : Proper (peq ==> veq ==> veq) transform_impl.
Proof. intros a a' [A1 A2] x x' X. unfold transform_impl. rewrite A1, A2, X. reflexivity. Qed.

Lemma compose_from_proper_l ps : forall p p', p =p= p' -> compose_from p ps =p= compose_from p' ps.
Proof.
  unfold compose_from. induction ps as [|q ps IH]; intros p p' H; cbn; [assumption|].
  apply IH. rewrite H. reflexivity.
Qed.
#[export] Instance compose_from_proper : Proper (peq ==> Forall2 peq ==> peq) compose_from.
Proof.
  intros p p' H ps ps' F. revert p p' H. unfold compose_from.
  induction F as [|q q' ps ps' Q F IH]; intros p p' H; cbn; [assumption|].
  apply IH. rewrite H, Q. reflexivity.
Qed.

(* ------------------------------------------------------------------ the domain is closed *)
Lemma valid_pid : valid pid.
Proof. apply n2_one_nonzero. Qed.
Lemma valid_compose2 a b : valid a -> valid b -> valid (compose2 a b).
Proof. apply n2_mul_nonzero. Qed.
Lemma valid_compose2_impl a b : valid a -> valid b -> valid (compose2_impl a b).
Proof. apply n2_mul_nonzero. Qed.
Lemma valid_inverse p : valid p -> valid (inverse p).
Proof. apply n2_inv_nonzero. Qed.
Lemma valid_inverse_impl p : valid p -> valid (inverse_impl p).
Proof. apply n2_inv_nonzero. Qed.
Lemma valid_compose_from ps : forall p, valid p -> Forall valid ps -> valid (compose_from p ps).
Proof.
  unfold compose_from. induction ps as [|q ps IH]; intros p Hp F; cbn; [assumption|].
  inversion F; subst. apply IH; [apply valid_compose2|]; assumption.
Qed.

(* ------------------------------------------------------------------ group laws *)
Theorem compose2_assoc a b c : valid a -> valid b ->
  compose2 (compose2 a b) c =p= compose2 a (compose2 b c).
Proof.
  intros Ha Hb. unfold compose2. cbn [pr pt]. split; cbn [pr pt].
  - apply qmul_assoc.
  - rewrite (rot_mul _ _ Ha Hb), mvmul_mmul, mvmul_vadd, vadd_assoc. reflexivity.
Qed.

Lemma compose2_id_l p : compose2 pid p =p= p.
Proof.
  unfold compose2, pid. cbn [pr pt]. split; cbn [pr pt].
  - apply qmul_one_l.
  - rewrite rot_one, mvmul_id, vadd_zero_r. reflexivity.
Qed.
Lemma compose2_id_r p : compose2 p pid =p= p.
Proof.
  unfold compose2, pid. cbn [pr pt]. split; cbn [pr pt].
  - apply qmul_one_r.
  - rewrite mvmul_vzero, vadd_zero_l. reflexivity.
Qed.

Theorem compose2_inverse_r p : valid p -> compose2 p (inverse p) =p= pid.
Proof.
  intros Hp. unfold compose2, inverse, pid. cbv zeta. cbn [pr pt]. split; cbn [pr pt].
  - apply qmul_inv_r; assumption.
  - rewrite (rot_inv_cancel_r _ _ Hp). apply vadd_vneg_l.
Qed.
Theorem compose2_inverse_l p : valid p -> compose2 (inverse p) p =p= pid.
Proof.
  intros Hp. unfold compose2, inverse, pid. cbv zeta. cbn [pr pt]. split; cbn [pr pt].
  - apply qmul_inv_l; assumption.
  - rewrite <- mvmul_vadd, vadd_vneg_r, mvmul_vzero. reflexivity.
Qed.

Theorem inverse_involutive p : valid p -> inverse (inverse p) =p= p.
Proof.
  intros Hp. unfold inverse. cbv zeta. cbn [pr pt]. split; cbn [pr pt].
  - apply qinv_involutive; assumption.
  - rewrite (qinv_involutive _ Hp), mvmul_vneg, (rot_inv_cancel_r _ _ Hp), vneg_involutive. reflexivity.
Qed.

Lemma inverse_pid : inverse pid =p= pid.
Proof.
  unfold inverse, pid. cbv zeta. cbn [pr pt]. split; cbn [pr pt].
  - apply qinv_one.
  - rewrite qinv_one, rot_one, mvmul_id. apply vneg_zero.
Qed.

Theorem inverse_compose2 a b : valid a -> valid b ->
  inverse (compose2 a b) =p= compose2 (inverse b) (inverse a).
Proof.
  intros Ha Hb. unfold inverse, compose2. cbv zeta. cbn [pr pt]. split; cbn [pr pt].
  - apply qinv_mul; assumption.
  - rewrite (qinv_mul _ _ Ha Hb).
    rewrite (rot_mul _ _ (n2_inv_nonzero _ Hb) (n2_inv_nonzero _ Ha)).
    rewrite vneg_vadd, mvmul_vadd, !mvmul_mmul, <- mvmul_vneg.
    rewrite (rot_inv_cancel_l _ _ Ha). rewrite vadd_comm. reflexivity.
Qed.

(* ------------------------------------------------------------------ chains of any length *)
Lemma compose_from_snoc p ps q : compose_from p (ps ++ [q]) = compose2 (compose_from p ps) q.
Proof. unfold compose_from. rewrite fold_left_app. reflexivity. Qed.

Lemma compose_from_cons p q ps : compose_from p (q :: ps) = compose_from (compose2 p q) ps.
Proof. reflexivity. Qed.

(* pushing a left factor through the fold *)
Lemma compose_from_factor qs : forall a q, valid a -> valid q -> Forall valid qs ->
  compose_from (compose2 a q) qs =p= compose2 a (compose_from q qs).
Proof.
  induction qs as [|r qs IH]; intros a q Ha Hq F; [reflexivity|].
  inversion F; subst. rewrite !compose_from_cons.
  rewrite (compose_from_proper_l qs _ _ (compose2_assoc a q r Ha Hq)).
  apply IH; [assumption | apply valid_compose2; assumption | assumption].
Qed.

(* general associativity: cutting a chain anywhere and composing the two halves gives the same pose *)
Theorem compose_from_app p ps q qs : Forall valid (p :: ps) -> Forall valid (q :: qs) ->
  compose_from p (ps ++ q :: qs) =p= compose2 (compose_from p ps) (compose_from q qs).
Proof.
  intros F G. inversion F; subst. inversion G; subst.
  unfold compose_from at 1. rewrite fold_left_app. cbn [fold_left].
  change (compose_from (compose2 (compose_from p ps) q) qs =p= compose2 (compose_from p ps) (compose_from q qs)).
  apply compose_from_factor; [apply valid_compose_from| |]; assumption.
Qed.

Lemma compose_all_cons p ps : compose_all (p :: ps) =p= compose_from p ps.
Proof. unfold compose_all. cbn [fold_left]. apply compose_from_proper_l. apply compose2_id_l. Qed.

(* the inverse of a chain is the reversed chain of inverses *)
Theorem inverse_compose_from ps : forall p, valid p -> Forall valid ps ->
  inverse (compose_from p ps) =p= compose_all (rev (map inverse (p :: ps))).
Proof.
  induction ps as [|q ps IH]; intros p Hp F.
  - cbn. unfold compose_all. cbn. rewrite compose2_id_l. reflexivity.
  - inversion F; subst. rewrite compose_from_cons, (IH _ (valid_compose2 _ _ Hp H1) H2).
    cbn [map rev]. unfold compose_all. rewrite !fold_left_app. cbn [fold_left].
    rewrite (inverse_compose2 _ _ Hp H1).
    set (A := fold_left compose2 (rev (map inverse ps)) pid).
    assert (VA : valid A).
    { apply (valid_compose_from _ pid valid_pid). apply Forall_rev. apply Forall_map.
      eapply Forall_impl; [|exact H2]. intros; apply valid_inverse; assumption. }
    symmetry. apply compose2_assoc; [assumption | apply valid_inverse; assumption].
Qed.

(* ------------------------------------------------------------------ action on points *)
Theorem transform_compose2 a b x : valid a -> valid b ->
  transform (compose2 a b) x =v= transform a (transform b x).
Proof.
  intros Ha Hb. unfold transform, compose2. cbn [pr pt].
  rewrite (rot_mul _ _ Ha Hb), mvmul_mmul, mvmul_vadd, vadd_assoc. reflexivity.
Qed.

Lemma transform_pid x : transform pid x =v= x.
Proof. unfold transform, pid. cbn [pr pt]. rewrite rot_one, mvmul_id, vadd_zero_r. reflexivity. Qed.

(* transforming by a composed chain = transforming successively, right-most pose first *)
Theorem transform_compose_from ps : forall p x, valid p -> Forall valid ps ->
  transform (compose_from p ps) x =v= fold_right transform x (p :: ps).
Proof.
  induction ps as [|q ps IH]; intros p x Hp F; [reflexivity|].
  inversion F; subst. rewrite compose_from_cons, (IH _ _ (valid_compose2 _ _ Hp H1) H2).
  cbn [fold_right]. apply transform_compose2; assumption.
Qed.

Lemma fold_transform_points l : forall xs,
  fold_right transform_points xs l = map (fun x => fold_right transform x l) xs.
Proof.
  unfold transform_points. induction l as [|q l IH]; intros xs; cbn; [rewrite map_id; reflexivity|].
  rewrite IH, map_map. reflexivity.
Qed.
Lemma transform_points_compose_from ps p xs : valid p -> Forall valid ps ->
  Forall2 veq (transform_points (compose_from p ps) xs)
              (fold_right transform_points xs (p :: ps)).
Proof.
  intros Hp F. rewrite fold_transform_points. unfold transform_points.
  induction xs as [|x xs IH]; cbn [map]; constructor; [|assumption].
  apply transform_compose_from; assumption.
Qed.

Theorem transform_inverse_l p x : valid p -> transform (inverse p) (transform p x) =v= x.
Proof.
  intros Hp. rewrite <- (transform_compose2 _ _ _ (valid_inverse _ Hp) Hp).
  rewrite (compose2_inverse_l _ Hp). apply transform_pid.
Qed.
Theorem transform_inverse_r p x : valid p -> transform p (transform (inverse p) x) =v= x.
Proof.
  intros Hp. rewrite <- (transform_compose2 _ _ _ Hp (valid_inverse _ Hp)).
  rewrite (compose2_inverse_r _ Hp). apply transform_pid.
Qed.

(* rigid: squared distances (hence distances) between points are preserved *)
Theorem transform_isometry p x y : valid p ->
  vn2 (vsub (transform p x) (transform p y)) == vn2 (vsub x y).
Proof.
  intros Hp. unfold transform. rewrite vsub_vadd_cancel, <- mvmul_vsub. apply rot_isometry; assumption.
Qed.

(* ------------------------------------------------------------------ non-unit quaternions *)
Lemma transform_same_motion a b x : same_motion a b -> transform a x =v= transform b x.
Proof. intros [H1 H2]. unfold transform. rewrite H1, H2. reflexivity. Qed.

(* scaling the quaternion by any k <> 0 (in particular normalising it, or negating it) does not change the pose *)
Theorem same_motion_scale k q t : ~ k == 0 -> same_motion (mkP (qscale k q) t) (mkP q t).
Proof. intros Hk. split; cbn [pr pt]; [apply rot_scale; assumption | reflexivity]. Qed.
Lemma same_motion_neg q t : same_motion (mkP (qneg q) t) (mkP q t).
Proof. split; cbn [pr pt]; [apply rot_neg | reflexivity]. Qed.

Lemma compose2_same_motion a a' b b' : valid a -> valid a' -> valid b -> valid b' ->
  same_motion a a' -> same_motion b b' -> same_motion (compose2 a b) (compose2 a' b').
Proof.
  intros Va Va' Vb Vb' [A1 A2] [B1 B2]. unfold compose2. split; cbn [pr pt].
  - rewrite (rot_mul _ _ Va Vb), (rot_mul _ _ Va' Vb'), A1, B1. reflexivity.
  - rewrite A1, A2, B2. reflexivity.
Qed.
Lemma inverse_same_motion a a' : valid a -> valid a' -> same_motion a a' -> same_motion (inverse a) (inverse a').
Proof.
  intros Va Va' [A1 A2]. unfold inverse. cbv zeta. split; cbn [pr pt].
  - rewrite (rot_inv _ Va), (rot_inv _ Va'), A1. reflexivity.
  - rewrite (rot_inv _ Va), (rot_inv _ Va'), A1, A2. reflexivity.
Qed.

(* ------------------------------------------------------------------ the code layer (rot_impl) *)
#[export] Instance exact_branch_proper : Proper (qeq ==> iff) exact_branch.
Proof. intros a b H. unfold exact_branch. rewrite H. reflexivity. Qed.

Lemma compose2_impl_exact a b : exact_branch (pr a) -> compose2_impl a b =p= compose2 a b.
Proof. intros E. unfold compose2_impl, compose2. rewrite (rot_impl_exact _ E). reflexivity. Qed.
Lemma inverse_impl_exact p : exact_branch (qinv (pr p)) -> inverse_impl p =p= inverse p.
Proof. intros E. unfold inverse_impl, inverse. cbv zeta. rewrite (rot_impl_exact _ E). reflexivity. Qed.
Lemma transform_impl_exact p x : exact_branch (pr p) -> transform_impl p x =v= transform p x.
Proof. intros E. unfold transform_impl, transform. rewrite (rot_impl_exact _ E). reflexivity. Qed.

(* every matrix taken along the fold is exact *)
Fixpoint chain_exact (p : pose) (ps : list pose) : Prop :=
  match ps with
  | [] => True
  | q :: ps' => exact_branch (pr p) /\ chain_exact (compose2 p q) ps'
  end.
Lemma chain_exact_proper ps : forall p p', p =p= p' -> chain_exact p ps -> chain_exact p' ps.
Proof.
  induction ps as [|q ps IH]; intros p p' H C; [exact I|]. destruct C as [E C]. split.
  - rewrite <- (pr_proper _ _ H). assumption.
  - eapply IH; [|exact C]. rewrite H. reflexivity.
Qed.
Lemma compose_from_impl_proper_l ps : forall p p', p =p= p' -> compose_from_impl p ps =p= compose_from_impl p' ps.
Proof.
  unfold compose_from_impl. induction ps as [|q ps IH]; intros p p' H; cbn; [assumption|].
  apply IH. rewrite H. reflexivity.
Qed.
Theorem compose_from_impl_exact ps : forall p, chain_exact p ps -> compose_from_impl p ps =p= compose_from p ps.
Proof.
  induction ps as [|q ps IH]; intros p C; [reflexivity|]. destruct C as [E C].
  change (compose_from_impl (compose2_impl p q) ps =p= compose_from (compose2 p q) ps).
  rewrite <- (IH _ C). apply compose_from_impl_proper_l. apply compose2_impl_exact; assumption.
Qed.
(* in particular for chains of exactly-unit quaternions, of any length *)
Lemma chain_exact_unit ps : forall p, n2 (pr p) == 1 -> Forall (fun q => n2 (pr q) == 1) ps -> chain_exact p ps.
Proof.
  induction ps as [|q ps IH]; intros p Hp F; [exact I|]. inversion F; subst. split; [left; assumption|].
  apply IH; [|assumption]. unfold compose2; cbn [pr]. rewrite n2_mul, Hp, H1. reflexivity.
Qed.

(* deviation in the band: at most 2*band per matrix entry, hence 6*band*|t|_inf per coordinate *)
Definition vdist_le (e : Q) (a b : vec) : Prop :=
  Qabs (vx a - vx b) <= e /\ Qabs (vy a - vy b) <= e /\ Qabs (vz a - vz b) <= e.

Lemma rot_impl_error_band q : ~ n2 q == 0 -> mdist_le (2 * band) (rot_impl q) (rot q).
Proof.
  intros NZ. destruct (unit_band q) eqn:B.
  - pose proof (rot_impl_error q NZ) as H. apply unit_band_true in B.
    unfold mdist_le in *. repeat match goal with H : _ /\ _ |- _ => destruct H end.
    conj; match goal with H : Qabs ?x <= _ |- Qabs ?x <= _ => eapply Qle_trans; [exact H|lra] end.
  - assert (E : rot_impl q =m= rot q) by (apply rot_impl_exact; right; assumption).
    assert (Z : forall x y, x == y -> Qabs (x - y) <= 2 * band).
    { intros x y H. assert (x - y == 0) as -> by (rewrite H; ring). vm_compute. discriminate. }
    unfold mdist_le. unfold meq in E. repeat match goal with H : _ /\ _ |- _ => destruct H end.
    conj; apply Z; assumption.
Qed.

Lemma abs_prod_le d v e m : Qabs d <= e -> Qabs v <= m -> Qabs (d * v) <= e * m.
Proof.
  intros Hd Hv. rewrite Qabs_Qmult. pose proof (Qabs_nonneg d). pose proof (Qabs_nonneg v). nra.
Qed.
Lemma vmaxabs_bounds v : Qabs (vx v) <= vmaxabs v /\ Qabs (vy v) <= vmaxabs v /\ Qabs (vz v) <= vmaxabs v.
Proof.
  unfold vmaxabs. repeat split.
  - apply Q.le_max_l.
  - eapply Qle_trans; [|apply Q.le_max_r]. apply Q.le_max_l.
  - eapply Qle_trans; [|apply Q.le_max_r]. apply Q.le_max_r.
Qed.
Lemma lin3 e m d0 d1 d2 v0 v1 v2 :
  Qabs d0 <= e -> Qabs d1 <= e -> Qabs d2 <= e -> Qabs v0 <= m -> Qabs v1 <= m -> Qabs v2 <= m ->
  Qabs (d0 * v0 + d1 * v1 + d2 * v2) <= 3 * e * m.
Proof.
  intros. eapply Qle_trans; [apply Qabs_triangle|]. eapply Qle_trans; [apply Qplus_le_compat; [apply Qabs_triangle|apply Qle_refl]|].
  pose proof (abs_prod_le d0 v0 e m). pose proof (abs_prod_le d1 v1 e m). pose proof (abs_prod_le d2 v2 e m).
  intuition. lra.
Qed.
Lemma mvmul_dist e A B v : mdist_le e A B -> vdist_le (3 * e * vmaxabs v) (mvmul A v) (mvmul B v).
Proof.
  intros D. destruct (vmaxabs_bounds v) as (V0 & V1 & V2). unfold mdist_le in D.
  repeat match goal with H : _ /\ _ |- _ => destruct H end.
  unfold vdist_le, mvmul. cbn [vx vy vz].
  repeat split.
  - assert (E : m00 A * vx v + m01 A * vy v + m02 A * vz v - (m00 B * vx v + m01 B * vy v + m02 B * vz v)
               == (m00 A - m00 B) * vx v + (m01 A - m01 B) * vy v + (m02 A - m02 B) * vz v) by ring.
    rewrite E. apply lin3; assumption.
  - assert (E : m10 A * vx v + m11 A * vy v + m12 A * vz v - (m10 B * vx v + m11 B * vy v + m12 B * vz v)
               == (m10 A - m10 B) * vx v + (m11 A - m11 B) * vy v + (m12 A - m12 B) * vz v) by ring.
    rewrite E. apply lin3; assumption.
  - assert (E : m20 A * vx v + m21 A * vy v + m22 A * vz v - (m20 B * vx v + m21 B * vy v + m22 B * vz v)
               == (m20 A - m20 B) * vx v + (m21 A - m21 B) * vy v + (m22 A - m22 B) * vz v) by ring.
    rewrite E. apply lin3; assumption.
Qed.
Lemma vdist_vadd e a b t : vdist_le e a b -> vdist_le e (vadd a t) (vadd b t).
Proof.
  intros (H0 & H1 & H2). unfold vdist_le, vadd. cbn [vx vy vz].
  assert (E : forall x y z, x + z - (y + z) == x - y) by (intros; ring).
  rewrite !E. auto.
Qed.

(* 6 * band = 6e-14 *)
Theorem compose2_impl_close a b : valid a ->
  pr (compose2_impl a b) = pr (compose2 a b) /\
  vdist_le (6 * band * vmaxabs (pt b)) (pt (compose2_impl a b)) (pt (compose2 a b)).
Proof.
  intros Va. split; [reflexivity|]. unfold compose2_impl, compose2. cbn [pt]. apply vdist_vadd.
  pose proof (mvmul_dist _ _ _ (pt b) (rot_impl_error_band _ Va)) as H.
  assert (E : 3 * (2 * band) * vmaxabs (pt b) == 6 * band * vmaxabs (pt b)) by ring.
  unfold vdist_le in *. rewrite <- E. exact H.
Qed.
Theorem transform_impl_close p x : valid p ->
  vdist_le (6 * band * vmaxabs x) (transform_impl p x) (transform p x).
Proof.
  intros Vp. unfold transform_impl, transform. apply vdist_vadd.
  pose proof (mvmul_dist _ _ _ x (rot_impl_error_band _ Vp)) as H.
  assert (E : 3 * (2 * band) * vmaxabs x == 6 * band * vmaxabs x) by ring.
  unfold vdist_le in *. rewrite <- E. exact H.
Qed.
Theorem inverse_impl_close p : valid p ->
  pr (inverse_impl p) = pr (inverse p) /\
  vdist_le (6 * band * vmaxabs (pt p)) (pt (inverse_impl p)) (pt (inverse p)).
Proof.
  intros Vp. split; [reflexivity|]. unfold inverse_impl, inverse. cbv zeta. cbn [pt].
  pose proof (mvmul_dist _ _ _ (vneg (pt p)) (rot_impl_error_band _ (n2_inv_nonzero _ Vp))) as H.
  assert (M : vmaxabs (vneg (pt p)) == vmaxabs (pt p)).
  { unfold vmaxabs, vneg. cbn [vx vy vz]. rewrite !Qabs_opp. reflexivity. }
  assert (E : 3 * (2 * band) * vmaxabs (vneg (pt p)) == 6 * band * vmaxabs (pt p)) by (rewrite M; ring).
  unfold vdist_le in *. rewrite <- E. exact H.
Qed.

(* ------------------------------------------------------------------ the API layer refines the code layer *)
Definition opt_rel {A} (R : A -> A -> Prop) (a b : option A) : Prop :=
  match a, b with Some x, Some y => R x y | None, None => True | _, _ => False end.
Definition oeq (a b : opose) : Prop := opt_rel qeq (o_r a) (o_r b) /\ opt_rel veq (o_t a) (o_t b).

Lemma oeq_refl a : oeq a a.
Proof. destruct a as [[r|] [t|]]; split; cbn; try exact I; reflexivity. Qed.

Lemma is_zero_false q : ~ n2 q == 0 -> is_zero q = false.
Proof.
  intros NZ. unfold is_zero. destruct (Qeq_bool (n2_r q) 0) eqn:E; [|reflexivity].
  apply Qeq_bool_iff in E. rewrite n2_r_eq in E. contradiction.
Qed.
Lemma is_zero_true q : n2 q == 0 -> is_zero q = true.
Proof. intros Z. unfold is_zero. apply Qeq_bool_iff. rewrite n2_r_eq. assumption. Qed.

Lemma compose_step_refines acc a b : oeq acc (lift a) -> valid a ->
  exists m, compose_step (Ok acc) (lift b) = Ok m /\ oeq m (lift (compose2_impl a b)).
Proof.
  intros [Hr Ht] Va. destruct acc as [[ra|] [ta|]]; cbn in Hr, Ht; try contradiction.
  assert (NZ : ~ n2 ra == 0) by (rewrite Hr; exact Va).
  unfold compose_step, lift. cbn [o_r o_t]. rewrite (is_zero_false _ NZ).
  eexists. split; [reflexivity|]. split; cbn [o_r o_t lift compose2_impl pr pt opt_rel].
  - rewrite qmul_r_eq, Hr. reflexivity.
  - rewrite (apply_parts_r_eq _ _ NZ), Hr, Ht. reflexivity.
Qed.

Lemma compose_fold_refines ps : forall acc a, oeq acc (lift a) -> valid a -> Forall valid ps ->
  exists m, fold_left compose_step (map lift ps) (Ok acc) = Ok m /\ oeq m (lift (compose_from_impl a ps)).
Proof.
  induction ps as [|b ps IH]; intros acc a H Va F.
  - exists acc. split; [reflexivity | assumption].
  - inversion F; subst. cbn [map fold_left].
    destruct (compose_step_refines acc a b H Va) as (m & E & Hm). rewrite E.
    apply (IH m (compose2_impl a b) Hm); [apply valid_compose2_impl|]; assumption.
Qed.

(* compose on complete poses with non-zero quaternions returns, and returns the left fold of the code layer *)
Theorem compose_api_refines p ps : Forall valid (p :: ps) ->
  exists m, compose_api (map lift (p :: ps)) = Ok m /\ oeq m (lift (compose_from_impl p ps)).
Proof.
  intros F. inversion F; subst. cbn [map compose_api].
  apply compose_fold_refines; [apply oeq_refl | assumption | assumption].
Qed.

Theorem inverse_api_refines p : valid p ->
  exists m, inverse_api (lift p) = Ok m /\ oeq m (lift (inverse_impl p)).
Proof.
  intros Vp. unfold inverse_api, lift. cbn [o_r o_t]. rewrite (is_zero_false _ Vp).
  eexists. split; [reflexivity|]. split; cbn [o_r o_t lift inverse_impl pr pt opt_rel]; cbv zeta; cbn [pr pt].
  - apply qinv_n_eq.
  - apply apply_parts_inv_r_eq; assumption.
Qed.

Definition row3 (v : vec) : list Q := [vx v; vy v; vz v].
Definition row6 (vc : vec * vec) : list Q := [vx (fst vc); vy (fst vc); vz (fst vc); vx (snd vc); vy (snd vc); vz (snd vc)].
Lemma rows_xyz_row3 xs : rows_xyz (map row3 xs) = Some xs.
Proof. induction xs as [|[a b c] xs IH]; cbn; [reflexivity|]. cbn in IH. rewrite IH. reflexivity. Qed.
(* Nx6 arrays: the colour columns are dropped *)
Lemma rows_xyz_row6 xcs : rows_xyz (map row6 xcs) = Some (map fst xcs).
Proof. induction xcs as [|[[a b c] col] xs IH]; cbn; [reflexivity|]. cbn in IH. rewrite IH. reflexivity. Qed.

Theorem transform_api_refines p rows xs : valid p -> rows_xyz rows = Some xs ->
  exists ms, transform_api (lift p) rows = Ok ms /\ Forall2 veq ms (map (transform_impl p) xs).
Proof.
  intros Vp R. unfold transform_api, lift. cbn [o_r o_t]. rewrite R, (is_zero_false _ Vp). cbv zeta.
  eexists. split; [reflexivity|]. clear R. induction xs as [|x xs IH]; cbn [map]; constructor; [|assumption].
  unfold transform_impl. rewrite (apply_parts_r_eq _ _ Vp). reflexivity.
Qed.

(* the fold structure that MPose.CChain relies on *)
Lemma compose_api_snoc ps p : ps <> [] -> compose_api (ps ++ [p]) = compose_step (compose_api ps) p.
Proof.
  destruct ps as [|a ps]; [congruence|]. intros _. cbn [app compose_api]. rewrite fold_left_app. reflexivity.
Qed.
Lemma compose_api_single p : compose_api [p] = Ok p.
Proof. reflexivity. Qed.
Lemma compose_api_empty : compose_api [] = Raises.
Proof. reflexivity. Qed.
(* outside the property's quantifier: what the model says *)
Lemma inverse_api_none_r t : inverse_api (mkO None t) = Raises.
Proof. reflexivity. Qed.
Lemma inverse_api_none_t r : inverse_api (mkO r None) = Raises.
Proof. destruct r; reflexivity. Qed.
Lemma inverse_api_zero r t : n2 r == 0 -> inverse_api (mkO (Some r) (Some t)) = NonFinite.
Proof. intros Z. unfold inverse_api. cbn [o_r o_t]. rewrite (is_zero_true _ Z). reflexivity. Qed.
Lemma transform_api_zero r t rows : n2 r == 0 -> transform_api (mkO (Some r) (Some t)) rows = Raises.
Proof. intros Z. unfold transform_api. cbn [o_r o_t]. rewrite (is_zero_true _ Z). destruct (rows_xyz rows); reflexivity. Qed.
Lemma compose_step_zero ra ta c : n2 ra == 0 -> compose_step (Ok (mkO (Some ra) (Some ta))) c = Raises.
Proof.
  intros Z. unfold compose_step. cbn [o_r o_t]. rewrite (is_zero_true _ Z).
  destruct (o_r c), (o_t c); reflexivity.
Qed.

(* the shortcut taken by check_call for CInverse *)
Lemma close_rot_inverse r o : ~ n2 r == 0 -> ~ n2 o == 0 ->
  close_rot tol (qconj r) o = close_rot tol (qinv_n r) o.
Proof.
  intros Hr Ho.
  assert (Hi : ~ n2 (qinv_n r) == 0) by (rewrite qinv_n_eq; apply n2_inv_nonzero; assumption).
  rewrite (close_rot_spec _ _ _ (n2_conj_nonzero _ Hr) Ho), (close_rot_spec _ _ _ Hi Ho).
  apply close_mat_proper; try reflexivity.
  rewrite qinv_n_eq, rot_conj, (rot_inv _ Hr). reflexivity.
Qed.

(* ------------------------------------------------------------------ rescale (t := s * t) *)
Lemma vscale_vadd k a b : vscale k (vadd a b) =v= vadd (vscale k a) (vscale k b). Proof. qring. Qed.
Lemma vscale_vneg k a : vscale k (vneg a) =v= vneg (vscale k a). Proof. qring. Qed.
Lemma vscale_vscale k l a : vscale k (vscale l a) =v= vscale (k * l) a. Proof. qring. Qed.
Lemma vscale_one a : vscale 1 a =v= a. Proof. qring. Qed.
Lemma vscale_vzero k : vscale k vzero =v= vzero. Proof. qring. Qed.
Lemma vn2_vscale k a : vn2 (vscale k a) == k * k * vn2 a. Proof. qring. Qed.

#[export] Instance rescale_proper : Proper (Qeq ==> peq ==> peq) rescale.
Proof. intros s s' Hs a a' [A1 A2]. unfold rescale. rewrite Hs, A1, A2. reflexivity. Qed.

Lemma rescale_valid s p : valid p -> valid (rescale s p).
Proof. exact (fun H => H). Qed.
Lemma rescale_one p : rescale 1 p =p= p.
Proof. split; cbn [rescale pr pt]; [reflexivity | apply vscale_one]. Qed.
Lemma rescale_rescale k l p : rescale k (rescale l p) =p= rescale (k * l) p.
Proof. split; cbn [rescale pr pt]; [reflexivity | apply vscale_vscale]. Qed.
Lemma rescale_pid s : rescale s pid =p= pid.
Proof. split; cbn [rescale pid pr pt]; [reflexivity | apply vscale_vzero]. Qed.

(* rescaling commutes with every operation: the inverse of the rescaled pose is the rescaled inverse, ... *)
Theorem inverse_rescale s p : inverse (rescale s p) =p= rescale s (inverse p).
Proof.
  unfold inverse, rescale. cbv zeta. cbn [pr pt]. split; cbn [pr pt]; [reflexivity|].
  rewrite <- vscale_vneg, mvmul_vscale. reflexivity.
Qed.
Theorem compose2_rescale s a b : compose2 (rescale s a) (rescale s b) =p= rescale s (compose2 a b).
Proof.
  unfold compose2, rescale. cbn [pr pt]. split; cbn [pr pt]; [reflexivity|].
  rewrite mvmul_vscale, vscale_vadd. reflexivity.
Qed.
Theorem compose_from_rescale s ps : forall p,
  compose_from (rescale s p) (map (rescale s) ps) =p= rescale s (compose_from p ps).
Proof.
  induction ps as [|q ps IH]; intros p; [reflexivity|]. cbn [map]. rewrite !compose_from_cons.
  rewrite (compose_from_proper_l _ _ _ (compose2_rescale s p q)). apply IH.
Qed.
Theorem transform_rescale s p x : transform (rescale s p) (vscale s x) =v= vscale s (transform p x).
Proof. unfold transform, rescale. cbn [pr pt]. rewrite mvmul_vscale, vscale_vadd. reflexivity. Qed.

(* hence every group law holds for the pose as it is after any number of rescalings *)
Corollary rescale_keeps_laws s p : valid p ->
  compose2 (rescale s p) (inverse (rescale s p)) =p= pid /\
  compose2 (inverse (rescale s p)) (rescale s p) =p= pid /\
  inverse (inverse (rescale s p)) =p= rescale s p.
Proof.
  intros V. pose proof (rescale_valid s p V) as V'.
  split; [|split]; [apply compose2_inverse_r | apply compose2_inverse_l | apply inverse_involutive]; assumption.
Qed.

(* the API version is the same function of the current value *)
Lemma rescale_api_lift s p : oeq (rescale_api s (lift p)) (lift (rescale s p)).
Proof. split; cbn; [reflexivity | apply vred_eq]. Qed.
Lemma rescale_api_none s r : rescale_api s (mkO r None) = mkO r None.
Proof. reflexivity. Qed.

(* ------------------------------------------------------------------ histories: objects hold only (r, t) *)
(* inverse(): a new handle on a FRESH object, equal to inverse_api of the CURRENT value of handle i; nothing else changes *)
Theorem hstep_inverse st i st' : hstep st (HInverse i) = Some st' ->
  exists c p m, nth_error st i = Some (c, p) /\ inverse_api p = Ok m /\ st' = st ++ [(length st, m)].
Proof.
  cbn. destruct (nth_error st i) as [[c p]|]; [|discriminate]. destruct (inverse_api p) as [m| |] eqn:E; try discriminate.
  intros H; inversion H; subst. exists c, p, m. auto.
Qed.
(* compose(): one pose -> that very object; two or more -> a FRESH object holding compose_api of the current values *)
Theorem hstep_compose st ids st' : hstep st (HCompose ids) = Some st' ->
  exists es, nths st ids = Some es /\
    ((exists c p, es = [(c, p)] /\ st' = st ++ [(c, p)]) \/
     ((length es <> 1)%nat /\ exists m, compose_api (map snd es) = Ok m /\ st' = st ++ [(length st, m)])).
Proof.
  cbn. destruct (nths st ids) as [es|]; [|discriminate]. intros H. exists es. split; [reflexivity|].
  destruct es as [|[c p] [|e es]].
  - right. split; [cbn; lia|]. cbn in H. discriminate.
  - left. inversion H; subst. exists c, p. auto.
  - right. split; [cbn; lia|]. destruct (compose_api (map snd ((c, p) :: e :: es))) as [m| |]; try discriminate.
    inversion H; subst. exists m. auto.
Qed.
Lemma nths_length {A} (l : list A) ids es : nths l ids = Some es -> length es = length ids.
Proof.
  revert es; induction ids as [|i ids IH]; intros es H; cbn in H; [inversion H; reflexivity|].
  destruct (nth_error l i); [|discriminate]. destruct (nths l ids) as [xs|]; [|discriminate].
  inversion H; subst. cbn. f_equal. apply IH. reflexivity.
Qed.
Theorem hstep_compose_fresh st ids st' : (2 <= length ids)%nat -> hstep st (HCompose ids) = Some st' ->
  exists es m, nths st ids = Some es /\ compose_api (map snd es) = Ok m /\ st' = st ++ [(length st, m)].
Proof.
  intros L H. destruct (hstep_compose _ _ _ H) as (es & N & [(c & p & -> & _)|(_ & m & E & ->)]).
  - apply nths_length in N. cbn in N. lia.
  - exists es, m. auto.
Qed.
(* rescale(): exactly the handles that denote the target's object change, to rescale_api of their value *)
Theorem hstep_rescale st i s st' : hstep st (HRescale i s) = Some st' ->
  exists c p, nth_error st i = Some (c, p) /\ length st' = length st /\
    forall j cj pj, nth_error st j = Some (cj, pj) ->
      nth_error st' j = Some (cj, if Nat.eqb cj c then rescale_api s pj else pj).
Proof.
  cbn. destruct (nth_error st i) as [[c p]|] eqn:E; [|discriminate]. intros H; inversion H; subst. exists c, p.
  split; [reflexivity|]. split; [apply map_length|].
  intros j cj pj N. rewrite nth_error_map, N. cbn. destruct (Nat.eqb cj c); reflexivity.
Qed.
(* existing handles are never changed by inverse / compose *)
Corollary hstep_keeps_objects st op st' j x : (forall i s, op <> HRescale i s) ->
  hstep st op = Some st' -> nth_error st j = Some x -> nth_error st' j = Some x.
Proof.
  intros NR H N. assert (L : (j < length st)%nat) by (apply nth_error_Some; congruence).
  destruct op as [i|ids|i s].
  - destruct (hstep_inverse _ _ _ H) as (c & p & m & _ & _ & ->). rewrite nth_error_app1; assumption.
  - destruct (hstep_compose _ _ _ H) as (es & _ & [(c & p & _ & ->)|(_ & m & _ & ->)]); rewrite nth_error_app1; assumption.
  - exfalso. eapply NR. reflexivity.
Qed.
(* well-formedness (canonical handles never point forward) is preserved *)
Lemma wf_store_app st c p : wf_store st -> (c <= length st)%nat -> wf_store (st ++ [(c, p)]).
Proof.
  intros W L k c' p' N. destruct (Nat.lt_ge_cases k (length st)) as [Hk|Hk].
  - rewrite nth_error_app1 in N by assumption. eapply W; eassumption.
  - rewrite nth_error_app2 in N by assumption. destruct (k - length st)%nat as [|d] eqn:D; cbn in N.
    + inversion N; subst. lia.
    + destruct d; discriminate.
Qed.
Lemma nths_in {A} (l : list A) ids es x : nths l ids = Some es -> In x es -> exists k, nth_error l k = Some x.
Proof.
  revert es; induction ids as [|i ids IH]; intros es H I; cbn in H; [inversion H; subst; destruct I|].
  destruct (nth_error l i) eqn:E; [|discriminate]. destruct (nths l ids) as [xs|]; [|discriminate].
  inversion H; subst. destruct I as [->|I]; [exists i; assumption | eapply IH; [reflexivity | assumption]].
Qed.
Theorem wf_store_hstep st op st' : wf_store st -> hstep st op = Some st' -> wf_store st'.
Proof.
  intros W H. destruct op as [i|ids|i s].
  - destruct (hstep_inverse _ _ _ H) as (c & p & m & _ & _ & ->). apply wf_store_app; [assumption | lia].
  - destruct (hstep_compose _ _ _ H) as (es & N & [(c & p & -> & ->)|(_ & m & _ & ->)]).
    + destruct (nths_in _ _ _ (c, p) N (or_introl eq_refl)) as (k & Nk).
      apply wf_store_app; [assumption|]. pose proof (W _ _ _ Nk). assert (k < length st)%nat by (apply nth_error_Some; congruence). lia.
    + apply wf_store_app; [assumption | lia].
  - destruct (hstep_rescale _ _ _ _ H) as (c & p & _ & L & R). intros k c' p' N.
    destruct (nth_error st k) as [[ck pk]|] eqn:E.
    + rewrite (R _ _ _ E) in N. inversion N; subst. eapply W; eassumption.
    + apply nth_error_None in E. assert (k < length st')%nat by (apply nth_error_Some; congruence). lia.
Qed.
(* THE identity law: the result of inverse() or of compose() on two or more poses is a fresh object, so rescaling
   it (or doing anything to it) leaves every earlier handle — in particular every operand — as it was *)
Theorem rescale_result_keeps_operands st op st1 s st2 : wf_store st ->
  (exists i, op = HInverse i) \/ (exists ids, op = HCompose ids /\ (2 <= length ids)%nat) ->
  hstep st op = Some st1 -> hstep st1 (HRescale (length st) s) = Some st2 ->
  forall k x, nth_error st k = Some x -> nth_error st2 k = Some x.
Proof.
  intros W Hop H1 H2 k [ck pk] N.
  assert (exists m, st1 = st ++ [(length st, m)]) as (m & ->).
  { destruct Hop as [(i & ->)|(ids & -> & L)].
    - destruct (hstep_inverse _ _ _ H1) as (c & p & m & _ & _ & ->). eauto.
    - destruct (hstep_compose_fresh _ _ _ L H1) as (es & m & _ & _ & ->). eauto. }
  destruct (hstep_rescale _ _ _ _ H2) as (c & p & Nc & _ & R).
  rewrite nth_error_app2, Nat.sub_diag in Nc by lia. cbn in Nc. inversion Nc; subst c p.
  assert (Lk : (k < length st)%nat) by (apply nth_error_Some; congruence).
  assert (N' : nth_error (st ++ [(length st, m)]) k = Some (ck, pk)) by (rewrite nth_error_app1; assumption).
  rewrite (R _ _ _ N'). pose proof (W _ _ _ N) as Hc.
  destruct (Nat.eqb_spec ck (length st)); [lia | reflexivity].
Qed.
(* history independence, the form used against a memoised inverse: whatever program ran before, inverting
   handle i gives inverse_api of what it holds NOW, and on a valid pose that is the group inverse of it *)
Theorem history_inverse_current st ops st1 i c p st2 :
  hrun st ops = Some st1 -> nth_error st1 i = Some (c, lift p) -> valid p ->
  hstep st1 (HInverse i) = Some st2 ->
  exists m, st2 = st1 ++ [(length st1, m)] /\ oeq m (lift (inverse_impl p)).
Proof.
  intros _ N V H. destruct (hstep_inverse _ _ _ H) as (c' & p' & m & N' & E & ->).
  rewrite N in N'. inversion N'; subst c' p'. destruct (inverse_api_refines p V) as (m' & E' & O).
  rewrite E in E'. inversion E'; subst m'. exists m. auto.
Qed.
