(* Proofs/PPose.v — lemmas about Model/MPose.v (poses, composition chains, inverse, point transform).

   CONTENTS
   setoid      peq_equiv, same_motion_equiv; Proper instances for pr pt mkP compose2 inverse transform
               compose_from (in its first argument) and their _impl versions; valid_proper
   validity    valid_pid valid_compose2 valid_inverse valid_compose_from (closure: chains never leave the domain)
   group laws  compose2_assoc compose2_id_l compose2_id_r compose2_inverse_r compose2_inverse_l
               inverse_involutive inverse_compose2 inverse_pid
   chains      compose_from_app (any bracketing of a chain gives the same pose), compose_from_snoc,
               compose_all_cons, inverse_compose_from (inverse of a chain = reversed chain of inverses)
   action      transform_compose2 transform_compose_from (composition acts right-most first, any length)
               transform_points_compose_from transform_pid transform_inverse_l/r transform_isometry
               transform_same_motion same_motion_scale same_motion_neg compose2_same_motion
   code layer  compose2_impl_exact inverse_impl_exact transform_impl_exact compose_from_impl_exact,
               mvmul_dist / compose2_impl_close / transform_impl_close (deviation < 6e-14 |t|_inf in the band)
   API layer   compose_api_refines inverse_api_refines transform_api_refines (on complete poses with non-zero
               norm the call returns, and returns the code-layer value); compose_api_snoc (justifies CChain) *)
From Coq Require Import QArith Qabs Qminmax Qreduction Qfield Bool List Setoid Morphisms Lia Lqa.
From KV.Model Require Import MQV MPose.
From KV.Proofs Require Import PQV.
Import ListNotations.
Local Open Scope Q_scope.

(* ------------------------------------------------------------------ setoid structure *)
#[export] Instance peq_equiv : Equivalence peq.
Proof.
  split.
  - intros a; split; reflexivity.
  - intros a b [H1 H2]; split; symmetry; assumption.
  - intros a b c [H1 H2] [G1 G2]; split; etransitivity; eassumption.
Qed.
#[export] Instance same_motion_equiv : Equivalence same_motion.
Proof.
  split.
  - intros a; split; reflexivity.
  - intros a b [H1 H2]; split; symmetry; assumption.
  - intros a b c [H1 H2] [G1 G2]; split; etransitivity; eassumption.
Qed.
#[export] Instance mkP_proper : Proper (qeq ==> veq ==> peq) mkP.
Proof. intros a b H c d G; split; assumption. Qed.
#[export] Instance pr_proper : Proper (peq ==> qeq) pr. Proof. intros a b H; apply H. Qed.
#[export] Instance pt_proper : Proper (peq ==> veq) pt. Proof. intros a b H; apply H. Qed.
#[export] Instance valid_proper : Proper (peq ==> iff) valid.
Proof. intros a b [H _]. unfold valid. rewrite H. reflexivity. Qed.
Lemma peq_same_motion a b : a =p= b -> same_motion a b.
Proof. intros [H1 H2]; split; [rewrite H1; reflexivity | assumption]. Qed.

#[export] Instance compose2_proper : Proper (peq ==> peq ==> peq) compose2.
Proof. intros a a' [A1 A2] b b' [B1 B2]. unfold compose2. rewrite A1, A2, B1, B2. reflexivity. Qed.
#[export] Instance compose2_impl_proper : Proper (peq ==> peq ==> peq) compose2_impl.
Proof. intros a a' [A1 A2] b b' [B1 B2]. unfold compose2_impl. rewrite A1, A2, B1, B2. reflexivity. Qed.
#[export] Instance inverse_proper : Proper (peq ==> peq) inverse.
Proof. intros a a' [A1 A2]. unfold inverse. cbv zeta. rewrite A1, A2. reflexivity. Qed.
#[export] Instance inverse_impl_proper : Proper (peq ==> peq) inverse_impl.
Proof. intros a a' [A1 A2]. unfold inverse_impl. cbv zeta. rewrite A1, A2. reflexivity. Qed.
#[export] Instance transform_proper : Proper (peq ==> veq ==> veq) transform.
Proof. intros a a' [A1 A2] x x' X. unfold transform. rewrite A1, A2, X. reflexivity. Qed.
#[export] Instance transform_impl_proper : Proper (peq ==> veq ==> veq) transform_impl.
Proof. intros a a' [A1 A2] x x' X. unfold transform_impl. rewrite A1, A2, X. reflexivity. Qed.

Lemma compose_from_proper_l ps : forall p p', p =p= p' -> compose_from p ps =p= compose_from p' ps.
Proof.
  unfold compose_from. induction ps as [|q ps IH]; intros p p' H; cbn; [assumption|].
  apply IH. rewrite H. reflexivity.
Qed.
#[export] Instance compose_from_proper : Proper (peq ==> Forall2 peq ==> peq) compose_from.
Proof.
  intros p p' H ps ps' F. revert p p' H. unfold compose_from.
  induction F as [|q q' ps ps' Q F IH]; intros p p' H; cbn; [assumption|].
  apply IH. rewrite H, Q. reflexivity.
Qed.

(* ------------------------------------------------------------------ the domain is closed *)
Lemma valid_pid : valid pid.
Proof. apply n2_one_nonzero. Qed.
Lemma valid_compose2 a b : valid a -> valid b -> valid (compose2 a b).
Proof. apply n2_mul_nonzero. Qed.
Lemma valid_compose2_impl a b : valid a -> valid b -> valid (compose2_impl a b).
Proof. apply n2_mul_nonzero. Qed.
Lemma valid_inverse p : valid p -> valid (inverse p).
Proof. apply n2_inv_nonzero. Qed.
Lemma valid_inverse_impl p : valid p -> valid (inverse_impl p).
Proof. apply n2_inv_nonzero. Qed.
Lemma valid_compose_from ps : forall p, valid p -> Forall valid ps -> valid (compose_from p ps).
Proof.
  unfold compose_from. induction ps as [|q ps IH]; intros p Hp F; cbn; [assumption|].
  inversion F; subst. apply IH; [apply valid_compose2|]; assumption.
Qed.

(* ------------------------------------------------------------------ group laws *)
Theorem compose2_assoc a b c : valid a -> valid b ->
  compose2 (compose2 a b) c =p= compose2 a (compose2 b c).
Proof.
  intros Ha Hb. unfold compose2. cbn [pr pt]. split; cbn [pr pt].
  - apply qmul_assoc.
  - rewrite (rot_mul _ _ Ha Hb), mvmul_mmul, mvmul_vadd, vadd_assoc. reflexivity.
Qed.

Lemma compose2_id_l p : compose2 pid p =p= p.
Proof.
  unfold compose2, pid. cbn [pr pt]. split; cbn [pr pt].
  - apply qmul_one_l.
  - rewrite rot_one, mvmul_id, vadd_zero_r. reflexivity.
Qed.
Lemma compose2_id_r p : compose2 p pid =p= p.
Proof.
  unfold compose2, pid. cbn [pr pt]. split; cbn [pr pt].
  - apply qmul_one_r.
  - rewrite mvmul_vzero, vadd_zero_l. reflexivity.
Qed.

Theorem compose2_inverse_r p : valid p -> compose2 p (inverse p) =p= pid.
Proof.
  intros Hp. unfold compose2, inverse, pid. cbv zeta. cbn [pr pt]. split; cbn [pr pt].
  - apply qmul_inv_r; assumption.
  - rewrite (rot_inv_cancel_r _ _ Hp). apply vadd_vneg_l.
Qed.
Theorem compose2_inverse_l p : valid p -> compose2 (inverse p) p =p= pid.
Proof.
  intros Hp. unfold compose2, inverse, pid. cbv zeta. cbn [pr pt]. split; cbn [pr pt].
  - apply qmul_inv_l; assumption.
  - rewrite <- mvmul_vadd, vadd_vneg_r, mvmul_vzero. reflexivity.
Qed.

Theorem inverse_involutive p : valid p -> inverse (inverse p) =p= p.
Proof.
  intros Hp. unfold inverse. cbv zeta. cbn [pr pt]. split; cbn [pr pt].
  - apply qinv_involutive; assumption.
  - rewrite (qinv_involutive _ Hp), mvmul_vneg, (rot_inv_cancel_r _ _ Hp), vneg_involutive. reflexivity.
Qed.

Lemma inverse_pid : inverse pid =p= pid.
Proof.
  unfold inverse, pid. cbv zeta. cbn [pr pt]. split; cbn [pr pt].
  - apply qinv_one.
  - rewrite qinv_one, rot_one, mvmul_id. apply vneg_zero.
Qed.

Theorem inverse_compose2 a b : valid a -> valid b ->
  inverse (compose2 a b) =p= compose2 (inverse b) (inverse a).
Proof.
  intros Ha Hb. unfold inverse, compose2. cbv zeta. cbn [pr pt]. split; cbn [pr pt].
  - apply qinv_mul; assumption.
  - rewrite (qinv_mul _ _ Ha Hb).
    rewrite (rot_mul _ _ (n2_inv_nonzero _ Hb) (n2_inv_nonzero _ Ha)).
    rewrite vneg_vadd, mvmul_vadd, !mvmul_mmul, <- mvmul_vneg.
    rewrite (rot_inv_cancel_l _ _ Ha). rewrite vadd_comm. reflexivity.
Qed.

(* ------------------------------------------------------------------ chains of any length *)
Lemma compose_from_snoc p ps q : compose_from p (ps ++ [q]) = compose2 (compose_from p ps) q.
Proof. unfold compose_from. rewrite fold_left_app. reflexivity. Qed.

Lemma compose_from_cons p q ps : compose_from p (q :: ps) = compose_from (compose2 p q) ps.
Proof. reflexivity. Qed.

(* pushing a left factor through the fold *)
Lemma compose_from_factor qs : forall a q, valid a -> valid q -> Forall valid qs ->
  compose_from (compose2 a q) qs =p= compose2 a (compose_from q qs).
Proof.
  induction qs as [|r qs IH]; intros a q Ha Hq F; [reflexivity|].
  inversion F; subst. rewrite !compose_from_cons.
  rewrite (compose_from_proper_l qs _ _ (compose2_assoc a q r Ha Hq)).
  apply IH; [assumption | apply valid_compose2; assumption | assumption].
Qed.

(* general associativity: cutting a chain anywhere and composing the two halves gives the same pose *)
Theorem compose_from_app p ps q qs : Forall valid (p :: ps) -> Forall valid (q :: qs) ->
  compose_from p (ps ++ q :: qs) =p= compose2 (compose_from p ps) (compose_from q qs).
Proof.
  intros F G. inversion F; subst. inversion G; subst.
  unfold compose_from at 1. rewrite fold_left_app. cbn [fold_left].
  change (compose_from (compose2 (compose_from p ps) q) qs =p= compose2 (compose_from p ps) (compose_from q qs)).
  apply compose_from_factor; [apply valid_compose_from| |]; assumption.
Qed.

Lemma compose_all_cons p ps : compose_all (p :: ps) =p= compose_from p ps.
Proof. unfold compose_all. cbn [fold_left]. apply compose_from_proper_l. apply compose2_id_l. Qed.

(* the inverse of a chain is the reversed chain of inverses *)
Theorem inverse_compose_from ps : forall p, valid p -> Forall valid ps ->
  inverse (compose_from p ps) =p= compose_all (rev (map inverse (p :: ps))).
Proof.
  induction ps as [|q ps IH]; intros p Hp F.
  - cbn. unfold compose_all. cbn. rewrite compose2_id_l. reflexivity.
  - inversion F; subst. rewrite compose_from_cons, (IH _ (valid_compose2 _ _ Hp H1) H2).
    cbn [map rev]. unfold compose_all. rewrite !fold_left_app. cbn [fold_left].
    rewrite (inverse_compose2 _ _ Hp H1).
    set (A := fold_left compose2 (rev (map inverse ps)) pid).
    assert (VA : valid A).
    { apply (valid_compose_from _ pid valid_pid). apply Forall_rev. apply Forall_map.
      eapply Forall_impl; [|exact H2]. intros; apply valid_inverse; assumption. }
    symmetry. apply compose2_assoc; [assumption | apply valid_inverse; assumption].
Qed.

(* ------------------------------------------------------------------ action on points *)
Theorem transform_compose2 a b x : valid a -> valid b ->
  transform (compose2 a b) x =v= transform a (transform b x).
Proof.
  intros Ha Hb. unfold transform, compose2. cbn [pr pt].
  rewrite (rot_mul _ _ Ha Hb), mvmul_mmul, mvmul_vadd, vadd_assoc. reflexivity.
Qed.

Lemma transform_pid x : transform pid x =v= x.
Proof. unfold transform, pid. cbn [pr pt]. rewrite rot_one, mvmul_id, vadd_zero_r. reflexivity. Qed.

(* transforming by a composed chain = transforming successively, right-most pose first *)
Theorem transform_compose_from ps : forall p x, valid p -> Forall valid ps ->
  transform (compose_from p ps) x =v= fold_right transform x (p :: ps).
Proof.
  induction ps as [|q ps IH]; intros p x Hp F; [reflexivity|].
  inversion F; subst. rewrite compose_from_cons, (IH _ _ (valid_compose2 _ _ Hp H1) H2).
  cbn [fold_right]. apply transform_compose2; assumption.
Qed.

Lemma fold_transform_points l : forall xs,
  fold_right transform_points xs l = map (fun x => fold_right transform x l) xs.
Proof.
  unfold transform_points. induction l as [|q l IH]; intros xs; cbn; [rewrite map_id; reflexivity|].
  rewrite IH, map_map. reflexivity.
Qed.
Lemma transform_points_compose_from ps p xs : valid p -> Forall valid ps ->
  Forall2 veq (transform_points (compose_from p ps) xs)
              (fold_right transform_points xs (p :: ps)).
Proof.
  intros Hp F. rewrite fold_transform_points. unfold transform_points.
  induction xs as [|x xs IH]; cbn [map]; constructor; [|assumption].
  apply transform_compose_from; assumption.
Qed.

Theorem transform_inverse_l p x : valid p -> transform (inverse p) (transform p x) =v= x.
Proof.
  intros Hp. rewrite <- (transform_compose2 _ _ _ (valid_inverse _ Hp) Hp).
  rewrite (compose2_inverse_l _ Hp). apply transform_pid.
Qed.
Theorem transform_inverse_r p x : valid p -> transform p (transform (inverse p) x) =v= x.
Proof.
  intros Hp. rewrite <- (transform_compose2 _ _ _ Hp (valid_inverse _ Hp)).
  rewrite (compose2_inverse_r _ Hp). apply transform_pid.
Qed.

(* rigid: squared distances (hence distances) between points are preserved *)
Theorem transform_isometry p x y : valid p ->
  vn2 (vsub (transform p x) (transform p y)) == vn2 (vsub x y).
Proof.
  intros Hp. unfold transform. rewrite vsub_vadd_cancel, <- mvmul_vsub. apply rot_isometry; assumption.
Qed.

(* ------------------------------------------------------------------ non-unit quaternions *)
Lemma transform_same_motion a b x : same_motion a b -> transform a x =v= transform b x.
Proof. intros [H1 H2]. unfold transform. rewrite H1, H2. reflexivity. Qed.

(* scaling the quaternion by any k <> 0 (in particular normalising it, or negating it) does not change the pose *)
Theorem same_motion_scale k q t : ~ k == 0 -> same_motion (mkP (qscale k q) t) (mkP q t).
Proof. intros Hk. split; cbn [pr pt]; [apply rot_scale; assumption | reflexivity]. Qed.
Lemma same_motion_neg q t : same_motion (mkP (qneg q) t) (mkP q t).
Proof. split; cbn [pr pt]; [apply rot_neg | reflexivity]. Qed.

Lemma compose2_same_motion a a' b b' : valid a -> valid a' -> valid b -> valid b' ->
  same_motion a a' -> same_motion b b' -> same_motion (compose2 a b) (compose2 a' b').
Proof.
  intros Va Va' Vb Vb' [A1 A2] [B1 B2]. unfold compose2. split; cbn [pr pt].
  - rewrite (rot_mul _ _ Va Vb), (rot_mul _ _ Va' Vb'), A1, B1. reflexivity.
  - rewrite A1, A2, B2. reflexivity.
Qed.
Lemma inverse_same_motion a a' : valid a -> valid a' -> same_motion a a' -> same_motion (inverse a) (inverse a').
Proof.
  intros Va Va' [A1 A2]. unfold inverse. cbv zeta. split; cbn [pr pt].
  - rewrite (rot_inv _ Va), (rot_inv _ Va'), A1. reflexivity.
  - rewrite (rot_inv _ Va), (rot_inv _ Va'), A1, A2. reflexivity.
Qed.
