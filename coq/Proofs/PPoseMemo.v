(* Proofs/PPoseMemo.v — lemmas about Model/MPoseMemo.v: a remembered quaternion->matrix conversion is invisible
   on every history of compose / inverse / transform_points calls iff its reuse criterion only identifies
   quaternions with the same matrix.
     memo_conv_ok, inverse_m_ok, compose_from_m_ok, transform_m_ok   one call keeps memo_ok and returns the stateless value
     memo_sound          criterion implies equal matrices  ->  transparent (all histories, all consistent start states)
     memo_complete       criterion identifies two quaternions with different matrices -> some history shows it
     transparent_iff     both directions
     hit_never_transparent, hit_same_transparent, hit_allclose_refuted *)
From Coq Require Import QArith Qabs Qminmax Qreduction Qfield Bool List Setoid Morphisms Lia Lqa.
From KV.Model Require Import MQV MPose MPoseMemo.
From KV.Proofs Require Import PQV PPose.
Import ListNotations.
Local Open Scope Q_scope.

Lemma meq_dec (A B : mat) : {A =m= B} + {~ A =m= B}.
Proof.
  unfold meq.
  destruct (Qeq_dec (m00 A) (m00 B)); [ | right; tauto ].
  destruct (Qeq_dec (m01 A) (m01 B)); [ | right; tauto ].
  destruct (Qeq_dec (m02 A) (m02 B)); [ | right; tauto ].
  destruct (Qeq_dec (m10 A) (m10 B)); [ | right; tauto ].
  destruct (Qeq_dec (m11 A) (m11 B)); [ | right; tauto ].
  destruct (Qeq_dec (m12 A) (m12 B)); [ | right; tauto ].
  destruct (Qeq_dec (m20 A) (m20 B)); [ | right; tauto ].
  destruct (Qeq_dec (m21 A) (m21 B)); [ | right; tauto ].
  destruct (Qeq_dec (m22 A) (m22 B)); [ left; tauto | right; tauto ].
Qed.

Definition sound_criterion (hit : quat -> quat -> bool) : Prop :=
  forall a b, hit a b = true -> rot_impl a =m= rot_impl b.

Section Sound.
  Variable hit : quat -> quat -> bool.
  Hypothesis Hhit : sound_criterion hit.

  Lemma memo_conv_ok m q : memo_ok m ->
    fst (memo_conv hit m q) =m= rot_impl q /\ memo_ok (snd (memo_conv hit m q)).
  Proof.
    intros Hm. unfold memo_conv. destruct m as [[q0 M0]|]; simpl in *.
    - destruct (hit q0 q) eqn:E; simpl.
      + split; [ rewrite Hm; apply Hhit; exact E | exact Hm ].
      + split; reflexivity.
    - split; reflexivity.
  Qed.

  Lemma inverse_m_ok m p : memo_ok m ->
    fst (inverse_m hit m p) =p= inverse_impl p /\ memo_ok (snd (inverse_m hit m p)).
  Proof.
    intros Hm. unfold inverse_m, inverse_impl. cbv zeta. simpl.
    destruct (memo_conv_ok m (qinv (pr p)) Hm) as [H1 H2].
    split; [ | exact H2 ]. split; simpl; [ reflexivity | rewrite H1; reflexivity ].
  Qed.

  Lemma compose2_m_ok m a a' b : memo_ok m -> a =p= a' ->
    fst (compose2_m hit m a b) =p= compose2_impl a' b /\ memo_ok (snd (compose2_m hit m a b)).
  Proof.
    intros Hm Ha. unfold compose2_m. cbv zeta. simpl.
    destruct (memo_conv_ok m (pr a) Hm) as [H1 H2].
    split; [ | exact H2 ]. rewrite <- Ha. unfold compose2_impl.
    split; simpl; [ reflexivity | rewrite H1; reflexivity ].
  Qed.

  Lemma compose_from_m_ok ps : forall m p p', memo_ok m -> p =p= p' ->
    fst (compose_from_m hit m p ps) =p= compose_from_impl p' ps /\ memo_ok (snd (compose_from_m hit m p ps)).
  Proof.
    induction ps as [|b ps IH]; intros m p p' Hm Hp; simpl.
    - split; assumption.
    - destruct (compose2_m_ok m p p' b Hm Hp) as [H1 H2].
      unfold compose_from_impl. simpl. apply IH; assumption.
  Qed.

  Lemma transform_m_ok m p xs : memo_ok m ->
    Forall2 veq (fst (transform_m hit m p xs)) (map (transform_impl p) xs) /\ memo_ok (snd (transform_m hit m p xs)).
  Proof.
    intros Hm. unfold transform_m. cbv zeta. simpl.
    destruct (memo_conv_ok m (pr p) Hm) as [H1 H2].
    split; [ | exact H2 ].
    induction xs as [|x xs IH]; simpl; constructor; [ | exact IH ].
    unfold transform_impl. rewrite H1. reflexivity.
  Qed.

  Lemma call_m_ok m c : memo_ok m ->
    res_eq (fst (call_m hit m c)) (call_pure c) /\ memo_ok (snd (call_m hit m c)).
  Proof.
    intros Hm. destruct c as [p | p ps | p xs]; simpl.
    - apply inverse_m_ok; exact Hm.
    - apply compose_from_m_ok; [ exact Hm | reflexivity ].
    - apply transform_m_ok; exact Hm.
  Qed.

  Theorem memo_sound : transparent hit.
  Proof.
    intros m cs. revert m. induction cs as [|c cs IH]; intros m Hm; simpl.
    - constructor.
    - destruct (call_m_ok m c Hm) as [H1 H2]. constructor; [ exact H1 | apply IH; exact H2 ].
  Qed.
End Sound.

(* the three columns of a matrix, read off by applying it to the basis *)
Definition basis : list vec := [mkV 1 0 0; mkV 0 1 0; mkV 0 0 1].
Definition probe (a b : quat) : list mcall := [MTransform (mkP a vzero) basis; MTransform (mkP b vzero) basis].

Theorem memo_complete hit a b : hit a b = true -> ~ rot_impl a =m= rot_impl b ->
  ~ Forall2 res_eq (run_m hit None (probe a b)) (run_pure (probe a b)).
Proof.
  intros E Hne H. apply Hne. clear Hne.
  unfold probe, run_m, run_pure, call_m, transform_m, memo_conv in H. simpl in H. rewrite E in H. simpl in H.
  inversion H as [|r1 r1' l1 l1' _ H2]; subst. clear H.
  inversion H2 as [|r2 r2' l2 l2' H3 _]; subst. clear H2.
  simpl in H3.
  inversion H3 as [|x1 y1 k1 k1' C1 H4]; subst. clear H3.
  inversion H4 as [|x2 y2 k2 k2' C2 H5]; subst. clear H4.
  inversion H5 as [|x3 y3 k3 k3' C3 _]; subst. clear H5.
  unfold transform_impl, veq, vadd, mvmul, vzero in C1, C2, C3. simpl in C1, C2, C3.
  destruct C1 as (A1 & A2 & A3), C2 as (B1 & B2 & B3), C3 as (D1 & D2 & D3).
  set (A := rot_impl a) in *. set (B := rot_impl b) in *.
  unfold meq. repeat split; lra.
Qed.

Theorem transparent_iff hit : transparent hit <-> sound_criterion hit.
Proof.
  split.
  - intros T a b E.
    destruct (meq_dec (rot_impl a) (rot_impl b)) as [Y|N]; [ exact Y | ].
    exfalso. exact (memo_complete hit a b E N (T None (probe a b) I)).
  - apply memo_sound.
Qed.

Lemma hit_never_sound : sound_criterion hit_never.
Proof. intros a b E. discriminate E. Qed.
Theorem hit_never_transparent : transparent hit_never.
Proof. exact (memo_sound _ hit_never_sound). Qed.
(* HEAD: with no reuse the history semantics IS the stateless one, whatever the start state *)
Lemma qeqb_qeq a b : qeqb a b = true -> a =q= b.
Proof.
  unfold qeqb. rewrite !andb_true_iff. intros [[[H1 H2] H3] H4].
  apply Qeq_bool_iff in H1, H2, H3, H4. repeat split; assumption.
Qed.
Lemma hit_same_sound : sound_criterion hit_same.
Proof. intros a b E. apply qeqb_qeq in E. rewrite E. reflexivity. Qed.
Theorem hit_same_transparent : transparent hit_same.
Proof. exact (memo_sound _ hit_same_sound). Qed.

Theorem hit_allclose_refuted :
  ~ Forall2 res_eq (run_m hit_allclose None witness_history) (run_pure witness_history).
Proof.
  intro H.
  inversion H as [|r1 r1' l1 l1' _ H2]; subst. clear H.
  inversion H2 as [|r2 r2' l2 l2' H3 _]; subst. clear H2.
  vm_compute in H3.
  inversion H3 as [|x1 y1 k1 k1' C1 _]; subst.
  destruct C1 as (A1 & _). vm_compute in A1. discriminate A1.
Qed.
Corollary hit_allclose_not_transparent : ~ transparent hit_allclose.
Proof. intro T. exact (hit_allclose_refuted (T None witness_history I)). Qed.
Corollary hit_allclose_unsound : ~ sound_criterion hit_allclose.
Proof. intro S. exact (hit_allclose_not_transparent (memo_sound _ S)). Qed.
