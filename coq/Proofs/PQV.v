(* Proofs/PQV.v — lemmas about Model/MQV.v (quaternions, vectors, matrices over Q).

   CONTENTS (the interface other developments should use)
   setoids     qeq_equiv veq_equiv meq_equiv;  Proper instances for every constructor, projection and
               operation of MQV (so `rewrite H` with H : a =q= b works under qmul, rot, mvmul, ...)
   quaternions qmul_assoc qmul_one_l qmul_one_r qmul_inv_r qmul_inv_l qinv_involutive qinv_mul
               qinv_conj (qinv q = conj q / n2 q)
               n2_mul n2_conj n2_neg n2_scale n2_inv n2_one n2_nonneg n2_zero_iff
               n2_mul_nonzero n2_inv_nonzero n2_scale_nonzero
   matrices    mmul_assoc mmul_id_l mmul_id_r mtrans_mmul mtrans_involutive mtrans_id
               mvmul_mmul mvmul_id mvmul_vadd mvmul_vsub mvmul_vneg mvmul_vscale mvmul_vzero
   vectors     vadd_assoc vadd_comm vadd_zero_l vadd_zero_r vadd_vneg_r vsub_vadd_cancel ...
   rotations   rot_mul        n2 a<>0 -> n2 b<>0 -> rot (qmul a b) =m= mmul (rot a) (rot b)
               rot_orth_r/l   n2 q<>0 -> rot q * (rot q)^T =m= I   and   (rot q)^T * rot q =m= I
               rot_det        n2 q<>0 -> mdet (rot q) == 1                (proper, not a reflection)
               rot_scale      k<>0 -> rot (qscale k q) =m= rot q          (no condition on q)
               rot_neg        rot (qneg q) =m= rot q
               rot_conj       rot (qconj q) =m= mtrans (rot q)
               rot_inv        n2 q<>0 -> rot (qinv q) =m= mtrans (rot q)
               rot_one        rot qone =m= mid
               rot_isometry   n2 q<>0 -> vn2 (mvmul (rot q) v) == vn2 v
               rot_dot        n2 q<>0 -> vdot (R u) (R v) == vdot u v
   code branch rot_unit_exact   n2 q == 1 -> rot_unit q =m= rot q
               rot_impl_exact   n2 q == 1 \/ unit_band q = false -> rot_impl q =m= rot q
               rot_impl_error   n2 q<>0 -> every entry of rot_impl q is within 2*|n2 q - 1| (< 2e-14)
                                of the entry of rot q  (mdist_le)
   reduced     n2_r_eq qmul_r_eq qinv_r_eq rot_r_eq rot_unit_r_eq unit_band_r_eq rot_impl_r_eq
               vadd_r_eq mvmul_r_eq qred_eq vred_eq rotNd_r_eq qinv_n_eq
               apply_parts_r_eq      n2 q<>0 -> apply_parts_r (rot_parts_r q) v =v= mvmul (rot_impl q) v
               apply_parts_inv_r_eq  n2 q<>0 -> apply_parts_r (rot_parts_inv_r q) v =v= mvmul (rot_impl (qinv q)) v
               qint_scale qint_rot qint_nonzero (integer representative, same rotation)
               rot_n_eq, close_rot_spec (close_rot compares the rotation matrices rot a, rot b)
   tolerance   close_abs_proper etc.: the boolean comparisons respect ==                      *)
From Coq Require Import QArith Qabs Qminmax Qreduction Qfield Bool List Setoid Morphisms Lia Lqa.
From KV.Model Require Import MQV.
Import ListNotations.
Local Open Scope Q_scope.

(* ------------------------------------------------------------------ setoids *)
#[export] Instance qeq_equiv : Equivalence qeq.
Proof.
  split.
  - intros a; repeat split; reflexivity.
  - intros a b (H1 & H2 & H3 & H4); repeat split; symmetry; assumption.
  - intros a b c (H1 & H2 & H3 & H4) (G1 & G2 & G3 & G4); repeat split; etransitivity; eassumption.
Qed.
#[export] Instance veq_equiv : Equivalence veq.
Proof.
  split.
  - intros a; repeat split; reflexivity.
  - intros a b (H1 & H2 & H3); repeat split; symmetry; assumption.
  - intros a b c (H1 & H2 & H3) (G1 & G2 & G3); repeat split; etransitivity; eassumption.
Qed.
#[export] Instance meq_equiv : Equivalence meq.
Proof.
  split.
  - intros a; repeat split; reflexivity.
  - intros a b H; unfold meq in *; intuition (symmetry; assumption).
  - intros a b c H G; unfold meq in *; intuition (etransitivity; eassumption).
Qed.

Ltac dq := repeat match goal with
  | q : quat |- _ => destruct q
  | v : vec |- _ => destruct v
  | m : mat |- _ => destruct m end.
Ltac unf := unfold vn2, rot, rot_unit, qinv in *; cbv zeta in *;
  unfold qeq, veq, meq, qmul, qconj, qneg, qscale, n2, qone, qzero,
  vzero, vadd, vsub, vneg, vscale, vdot, mid, mtrans, mmul, mvmul, mdet in *;
  cbn [qw qx qy qz vx vy vz m00 m01 m02 m10 m11 m12 m20 m21 m22] in *.
(* split a conjunction of Q-equations and close each with the given tactic *)
Ltac each tac := repeat split; tac.

#[export] Instance mkQ_proper : Proper (Qeq ==> Qeq ==> Qeq ==> Qeq ==> qeq) mkQ.
Proof. repeat intro; unf; auto. Qed.
#[export] Instance mkV_proper : Proper (Qeq ==> Qeq ==> Qeq ==> veq) mkV.
Proof. repeat intro; unf; auto. Qed.
#[export] Instance mkM_proper :
  Proper (Qeq ==> Qeq ==> Qeq ==> Qeq ==> Qeq ==> Qeq ==> Qeq ==> Qeq ==> Qeq ==> meq) mkM.
Proof. repeat intro; unf; tauto. Qed.
#[export] Instance qw_proper : Proper (qeq ==> Qeq) qw. Proof. intros a b H; apply H. Qed.
#[export] Instance qx_proper : Proper (qeq ==> Qeq) qx. Proof. intros a b H; apply H. Qed.
#[export] Instance qy_proper : Proper (qeq ==> Qeq) qy. Proof. intros a b H; apply H. Qed.
#[export] Instance qz_proper : Proper (qeq ==> Qeq) qz. Proof. intros a b H; apply H. Qed.
#[export] Instance vx_proper : Proper (veq ==> Qeq) vx. Proof. intros a b H; apply H. Qed.
#[export] Instance vy_proper : Proper (veq ==> Qeq) vy. Proof. intros a b H; apply H. Qed.
#[export] Instance vz_proper : Proper (veq ==> Qeq) vz. Proof. intros a b H; apply H. Qed.
#[export] Instance m00_proper : Proper (meq ==> Qeq) m00. Proof. intros a b H; apply H. Qed.
#[export] Instance m01_proper : Proper (meq ==> Qeq) m01. Proof. intros a b H; apply H. Qed.
#[export] Instance m02_proper : Proper (meq ==> Qeq) m02. Proof. intros a b H; apply H. Qed.
#[export] Instance m10_proper : Proper (meq ==> Qeq) m10. Proof. intros a b H; apply H. Qed.
#[export] Instance m11_proper : Proper (meq ==> Qeq) m11. Proof. intros a b H; apply H. Qed.
#[export] Instance m12_proper : Proper (meq ==> Qeq) m12. Proof. intros a b H; apply H. Qed.
#[export] Instance m20_proper : Proper (meq ==> Qeq) m20. Proof. intros a b H; apply H. Qed.
#[export] Instance m21_proper : Proper (meq ==> Qeq) m21. Proof. intros a b H; apply H. Qed.
#[export] Instance m22_proper : Proper (meq ==> Qeq) m22. Proof. intros a b H; apply H. Qed.

(* a function built from the projections and Q-operations respects the component-wise equality:
   destruct, name the hypotheses, rewrite them all, close by reflexivity *)
Ltac rew_all := repeat match goal with H : _ == _ |- _ => rewrite H; clear H end.
Ltac proper_tac :=
  repeat intro; dq; unf;
  repeat match goal with H : _ /\ _ |- _ => destruct H end;
  rew_all; repeat split; reflexivity.

#[export] Instance n2_proper : Proper (qeq ==> Qeq) n2. Proof. proper_tac. Qed.
#[export] Instance qmul_proper : Proper (qeq ==> qeq ==> qeq) qmul. Proof. proper_tac. Qed.
#[export] Instance qconj_proper : Proper (qeq ==> qeq) qconj. Proof. proper_tac. Qed.
#[export] Instance qneg_proper : Proper (qeq ==> qeq) qneg. Proof. proper_tac. Qed.
#[export] Instance qscale_proper : Proper (Qeq ==> qeq ==> qeq) qscale. Proof. proper_tac. Qed.
#[export] Instance qinv_proper : Proper (qeq ==> qeq) qinv. Proof. proper_tac. Qed.
#[export] Instance vadd_proper : Proper (veq ==> veq ==> veq) vadd. Proof. proper_tac. Qed.
#[export] Instance vsub_proper : Proper (veq ==> veq ==> veq) vsub. Proof. proper_tac. Qed.
#[export] Instance vneg_proper : Proper (veq ==> veq) vneg. Proof. proper_tac. Qed.
#[export] Instance vscale_proper : Proper (Qeq ==> veq ==> veq) vscale. Proof. proper_tac. Qed.
#[export] Instance vdot_proper : Proper (veq ==> veq ==> Qeq) vdot. Proof. proper_tac. Qed.
#[export] Instance vn2_proper : Proper (veq ==> Qeq) vn2. Proof. proper_tac. Qed.
#[export] Instance mtrans_proper : Proper (meq ==> meq) mtrans. Proof. proper_tac. Qed.
#[export] Instance mmul_proper : Proper (meq ==> meq ==> meq) mmul. Proof. proper_tac. Qed.
#[export] Instance mvmul_proper : Proper (meq ==> veq ==> veq) mvmul. Proof. proper_tac. Qed.
#[export] Instance mdet_proper : Proper (meq ==> Qeq) mdet. Proof. proper_tac. Qed.
#[export] Instance rot_proper : Proper (qeq ==> meq) rot. Proof. proper_tac. Qed.
#[export] Instance rot_unit_proper : Proper (qeq ==> meq) rot_unit. Proof. proper_tac. Qed.

(* ------------------------------------------------------------------ algebra: rings and fields *)
Ltac conj := repeat match goal with |- _ /\ _ => split end.
Ltac qring := intros; dq; unf; conj; ring.
Ltac qfield := intros; dq; unf; conj; field; conj; assumption.

(* --- vectors *)
Lemma vadd_assoc a b c : vadd (vadd a b) c =v= vadd a (vadd b c). Proof. qring. Qed.
Lemma vadd_comm a b : vadd a b =v= vadd b a. Proof. qring. Qed.
Lemma vadd_zero_l a : vadd vzero a =v= a. Proof. qring. Qed.
Lemma vadd_zero_r a : vadd a vzero =v= a. Proof. qring. Qed.
Lemma vadd_vneg_r a : vadd a (vneg a) =v= vzero. Proof. qring. Qed.
Lemma vadd_vneg_l a : vadd (vneg a) a =v= vzero. Proof. qring. Qed.
Lemma vneg_involutive a : vneg (vneg a) =v= a. Proof. qring. Qed.
Lemma vneg_vadd a b : vneg (vadd a b) =v= vadd (vneg a) (vneg b). Proof. qring. Qed.
Lemma vneg_zero : vneg vzero =v= vzero. Proof. qring. Qed.
Lemma vsub_vadd_neg a b : vsub a b =v= vadd a (vneg b). Proof. qring. Qed.
Lemma vsub_vadd_cancel a b t : vsub (vadd a t) (vadd b t) =v= vsub a b. Proof. qring. Qed.
Lemma vsub_self a : vsub a a =v= vzero. Proof. qring. Qed.
Lemma vn2_neg a : vn2 (vneg a) == vn2 a. Proof. qring. Qed.

(* --- matrices *)
Lemma mmul_assoc a b c : mmul (mmul a b) c =m= mmul a (mmul b c). Proof. qring. Qed.
Lemma mmul_id_l a : mmul mid a =m= a. Proof. qring. Qed.
Lemma mmul_id_r a : mmul a mid =m= a. Proof. qring. Qed.
Lemma mtrans_mmul a b : mtrans (mmul a b) =m= mmul (mtrans b) (mtrans a). Proof. qring. Qed.
Lemma mtrans_involutive a : mtrans (mtrans a) =m= a. Proof. qring. Qed.
Lemma mtrans_id : mtrans mid =m= mid. Proof. qring. Qed.
Lemma mdet_mmul a b : mdet (mmul a b) == mdet a * mdet b. Proof. qring. Qed.
Lemma mdet_id : mdet mid == 1. Proof. qring. Qed.
Lemma mvmul_mmul a b v : mvmul (mmul a b) v =v= mvmul a (mvmul b v). Proof. qring. Qed.
Lemma mvmul_id v : mvmul mid v =v= v. Proof. qring. Qed.
Lemma mvmul_vadd a u v : mvmul a (vadd u v) =v= vadd (mvmul a u) (mvmul a v). Proof. qring. Qed.
Lemma mvmul_vsub a u v : mvmul a (vsub u v) =v= vsub (mvmul a u) (mvmul a v). Proof. qring. Qed.
Lemma mvmul_vneg a v : mvmul a (vneg v) =v= vneg (mvmul a v). Proof. qring. Qed.
Lemma mvmul_vscale a k v : mvmul a (vscale k v) =v= vscale k (mvmul a v). Proof. qring. Qed.
Lemma mvmul_vzero a : mvmul a vzero =v= vzero. Proof. qring. Qed.
(* <A u, v> = <u, A^T v> *)
Lemma vdot_mvmul a u v : vdot (mvmul a u) v == vdot u (mvmul (mtrans a) v). Proof. qring. Qed.

(* --- quaternions: ring part (no hypothesis) *)
Lemma qmul_assoc a b c : qmul (qmul a b) c =q= qmul a (qmul b c). Proof. qring. Qed.
Lemma qmul_one_l a : qmul qone a =q= a. Proof. qring. Qed.
Lemma qmul_one_r a : qmul a qone =q= a. Proof. qring. Qed.
Lemma qconj_mul a b : qconj (qmul a b) =q= qmul (qconj b) (qconj a). Proof. qring. Qed.
Lemma qconj_involutive a : qconj (qconj a) =q= a. Proof. qring. Qed.
Lemma qmul_conj_r a : qmul a (qconj a) =q= mkQ (n2 a) 0 0 0. Proof. qring. Qed.
Lemma qmul_conj_l a : qmul (qconj a) a =q= mkQ (n2 a) 0 0 0. Proof. qring. Qed.
Lemma qscale_mul_l k a b : qmul (qscale k a) b =q= qscale k (qmul a b). Proof. qring. Qed.
Lemma qscale_mul_r k a b : qmul a (qscale k b) =q= qscale k (qmul a b). Proof. qring. Qed.
Lemma qneg_scale a : qneg a =q= qscale (-1 # 1) a. Proof. qring. Qed.
Lemma qinv_conj a : qinv a =q= qscale (/ n2 a) (qconj a).
Proof. intros; dq; unf; conj; unfold Qdiv; ring. Qed.

Lemma n2_mul a b : n2 (qmul a b) == n2 a * n2 b. Proof. qring. Qed.
Lemma n2_conj a : n2 (qconj a) == n2 a. Proof. qring. Qed.
Lemma n2_neg a : n2 (qneg a) == n2 a. Proof. qring. Qed.
Lemma n2_scale k a : n2 (qscale k a) == k * k * n2 a. Proof. qring. Qed.
Lemma n2_one : n2 qone == 1. Proof. qring. Qed.
Lemma n2_zero : n2 qzero == 0. Proof. qring. Qed.

Lemma n2_nonneg a : 0 <= n2 a.
Proof. dq; unf. nra. Qed.

Lemma sq_sum4_zero (w x y z : Q) : w * w + x * x + y * y + z * z == 0 -> w == 0 /\ x == 0 /\ y == 0 /\ z == 0.
Proof. intros H. repeat split; nra. Qed.

Lemma n2_zero_iff a : n2 a == 0 <-> a =q= qzero.
Proof.
  split.
  - destruct a as [w x y z]; unf. apply sq_sum4_zero.
  - intros H. rewrite H. apply n2_zero.
Qed.

Lemma n2_mul_nonzero a b : ~ n2 a == 0 -> ~ n2 b == 0 -> ~ n2 (qmul a b) == 0.
Proof.
  intros Ha Hb H. rewrite n2_mul in H. apply Qmult_integral in H. tauto.
Qed.
Lemma n2_conj_nonzero a : ~ n2 a == 0 -> ~ n2 (qconj a) == 0.
Proof. rewrite n2_conj; auto. Qed.
Lemma n2_scale_nonzero k a : ~ k == 0 -> ~ n2 a == 0 -> ~ n2 (qscale k a) == 0.
Proof.
  intros Hk Ha H. rewrite n2_scale in H. apply Qmult_integral in H. destruct H as [H|H]; [|tauto].
  apply Qmult_integral in H; tauto.
Qed.
Lemma n2_one_nonzero : ~ n2 qone == 0.
Proof. rewrite n2_one. discriminate. Qed.

(* --- quaternions: field part *)
Lemma n2_inv a : ~ n2 a == 0 -> n2 (qinv a) == / n2 a. Proof. qfield. Qed.
Lemma n2_inv_nonzero a : ~ n2 a == 0 -> ~ n2 (qinv a) == 0.
Proof.
  intros Ha H. rewrite (n2_inv a Ha) in H. apply Ha.
  rewrite <- (Qinv_involutive (n2 a)), H. reflexivity.
Qed.
Lemma qmul_inv_r a : ~ n2 a == 0 -> qmul a (qinv a) =q= qone. Proof. qfield. Qed.
Lemma qmul_inv_l a : ~ n2 a == 0 -> qmul (qinv a) a =q= qone. Proof. qfield. Qed.
Lemma qinv_involutive a : ~ n2 a == 0 -> qinv (qinv a) =q= a.
Proof.
  intros Ha. pose proof (n2_inv_nonzero a Ha) as Hi. revert Ha Hi. dq; unf. intros Ha Hi.
  conj; field; conj; assumption.
Qed.
Lemma qinv_mul a b : ~ n2 a == 0 -> ~ n2 b == 0 -> qinv (qmul a b) =q= qmul (qinv b) (qinv a).
Proof.
  intros Ha Hb. pose proof (n2_mul_nonzero a b Ha Hb) as Hab. revert Ha Hb Hab. dq; unf. intros Ha Hb Hab.
  conj; field; conj; assumption.
Qed.
Lemma qinv_one : qinv qone =q= qone. Proof. unf. repeat split; reflexivity. Qed.

(* ------------------------------------------------------------------ rotations *)
Lemma rot_one : rot qone =m= mid.
Proof. unf. conj; reflexivity. Qed.

(* the homomorphism law: the matrix of a product is the product of the matrices *)
Lemma rot_mul a b : ~ n2 a == 0 -> ~ n2 b == 0 -> rot (qmul a b) =m= mmul (rot a) (rot b).
Proof.
  intros Ha Hb. pose proof (n2_mul_nonzero a b Ha Hb) as Hab. revert Ha Hb Hab. dq; unf. intros Ha Hb Hab.
  conj; field; conj; assumption.
Qed.

Lemma rot_orth_r q : ~ n2 q == 0 -> mmul (rot q) (mtrans (rot q)) =m= mid. Proof. qfield. Qed.
Lemma rot_orth_l q : ~ n2 q == 0 -> mmul (mtrans (rot q)) (rot q) =m= mid. Proof. qfield. Qed.
Lemma rot_det q : ~ n2 q == 0 -> mdet (rot q) == 1. Proof. qfield. Qed.

Lemma rot_conj q : rot (qconj q) =m= mtrans (rot q).
Proof.
  destruct (Qeq_dec (n2 q) 0) as [Z|NZ].
  - apply n2_zero_iff in Z. rewrite Z. unf. conj; reflexivity.
  - revert NZ. qfield.
Qed.
Lemma rot_neg q : rot (qneg q) =m= rot q.
Proof.
  destruct (Qeq_dec (n2 q) 0) as [Z|NZ].
  - apply n2_zero_iff in Z. rewrite Z. unf. conj; reflexivity.
  - revert NZ. qfield.
Qed.
(* scale invariance: a non-unit quaternion denotes the rotation of its normalisation *)
Lemma rot_scale k q : ~ k == 0 -> rot (qscale k q) =m= rot q.
Proof.
  intros Hk. destruct (Qeq_dec (n2 q) 0) as [Z|NZ].
  - apply n2_zero_iff in Z. rewrite Z. unf. unfold Qdiv. conj; ring.
  - pose proof (n2_scale_nonzero k q Hk NZ) as Hs. revert NZ Hs. dq; unf. intros NZ Hs.
    conj; field; conj; assumption.
Qed.
Lemma rot_inv q : ~ n2 q == 0 -> rot (qinv q) =m= mtrans (rot q).
Proof.
  intros NZ. rewrite qinv_conj, rot_scale, rot_conj; [reflexivity|].
  intros H. apply NZ. rewrite <- (Qinv_involutive (n2 q)), H. reflexivity.
Qed.

Lemma rot_isometry q v : ~ n2 q == 0 -> vn2 (mvmul (rot q) v) == vn2 v. Proof. qfield. Qed.
Lemma rot_dot q u v : ~ n2 q == 0 -> vdot (mvmul (rot q) u) (mvmul (rot q) v) == vdot u v. Proof. qfield. Qed.
Lemma rot_inv_cancel_l q v : ~ n2 q == 0 -> mvmul (rot (qinv q)) (mvmul (rot q) v) =v= v.
Proof. intros NZ. rewrite rot_inv, <- mvmul_mmul, rot_orth_l, mvmul_id by assumption. reflexivity. Qed.
Lemma rot_inv_cancel_r q v : ~ n2 q == 0 -> mvmul (rot q) (mvmul (rot (qinv q)) v) =v= v.
Proof. intros NZ. rewrite rot_inv, <- mvmul_mmul, rot_orth_r, mvmul_id by assumption. reflexivity. Qed.

(* ------------------------------------------------------------------ the two branches of the code *)
Lemma rot_unit_exact q : n2 q == 1 -> rot_unit q =m= rot q.
Proof.
  intros H. unfold rot, rot_unit. cbv zeta. rewrite H. dq; unf. conj; field.
Qed.

#[export] Instance Qlt_bool_proper : Proper (Qeq ==> Qeq ==> eq) Qlt_bool.
Proof. intros a b H c d G. unfold Qlt_bool. rewrite H, G. reflexivity. Qed.
#[export] Instance unit_band_proper : Proper (qeq ==> eq) unit_band.
Proof. intros a b H. unfold unit_band. rewrite H. reflexivity. Qed.
#[export] Instance rot_impl_proper : Proper (qeq ==> meq) rot_impl.
Proof. intros a b H. unfold rot_impl. rewrite (unit_band_proper a b H). destruct (unit_band b); rewrite H; reflexivity. Qed.

Lemma Qlt_bool_iff a b : Qlt_bool a b = true <-> a < b.
Proof.
  unfold Qlt_bool. rewrite negb_true_iff. split.
  - intros H. apply Qnot_le_lt. intros L. apply Qle_bool_iff in L. congruence.
  - intros H. destruct (Qle_bool b a) eqn:E; [|reflexivity]. apply Qle_bool_iff in E. exfalso. eapply Qlt_not_le; eassumption.
Qed.

Lemma unit_band_true q : unit_band q = true <-> Qabs (n2 q - 1) < band.
Proof. apply Qlt_bool_iff. Qed.

(* exactly-unit quaternions fall in the band, and there the two formulas agree *)
Lemma unit_band_unit q : n2 q == 1 -> unit_band q = true.
Proof. intros H. apply unit_band_true. rewrite H. reflexivity. Qed.

Lemma rot_impl_exact q : n2 q == 1 \/ unit_band q = false -> rot_impl q =m= rot q.
Proof.
  unfold rot_impl. intros [H|H].
  - rewrite (unit_band_unit q H). apply rot_unit_exact; assumption.
  - rewrite H. reflexivity.
Qed.
Lemma rot_impl_one : rot_impl qone =m= mid.
Proof. rewrite rot_impl_exact by (left; apply n2_one). apply rot_one. Qed.

(* In the band but not exactly unit, the code's matrix is not exactly a rotation; it differs from the
   rotation of q by at most 2*|n2 q - 1| < 2e-14 in every entry. *)
Definition mdist_le (e : Q) (a b : mat) : Prop :=
  Qabs (m00 a - m00 b) <= e /\ Qabs (m01 a - m01 b) <= e /\ Qabs (m02 a - m02 b) <= e /\
  Qabs (m10 a - m10 b) <= e /\ Qabs (m11 a - m11 b) <= e /\ Qabs (m12 a - m12 b) <= e /\
  Qabs (m20 a - m20 b) <= e /\ Qabs (m21 a - m21 b) <= e /\ Qabs (m22 a - m22 b) <= e.

Lemma band_entry (s n : Q) : 0 < n -> - (2 * n) <= s -> s <= 2 * n -> Qabs (s / n - s) <= 2 * Qabs (n - 1).
Proof.
  intros Hn Hl Hu.
  assert (Hd : 0 < / n) by (apply Qinv_lt_0_compat; assumption).
  set (d := / n) in *. assert (Hnd : n * d == 1) by (unfold d; field; intros Z; rewrite Z in Hn; discriminate).
  assert (E : s / n - s == (s * d) * (1 - n)) by (unfold Qdiv; fold d; transitivity (s * d - s * (n * d)); [rewrite Hnd; ring | ring]).
  rewrite E, Qabs_Qmult.
  assert (Hr : Qabs (s * d) <= 2).
  { apply Qabs_Qle_condition. split; nra. }
  assert (Qabs (1 - n) == Qabs (n - 1)) as ->.
  { rewrite <- Qabs_opp. apply Qabs_wd. ring. }
  pose proof (Qabs_nonneg (n - 1)). pose proof (Qabs_nonneg (s * d)). nra.
Qed.

Lemma rot_impl_error q : ~ n2 q == 0 -> mdist_le (2 * Qabs (n2 q - 1)) (rot_impl q) (rot q).
Proof.
  intros NZ. unfold rot_impl. destruct (unit_band q).
  2:{ pose proof (Qabs_nonneg (n2 q - 1)) as P. set (e := Qabs (n2 q - 1)) in *.
      assert (Z : forall x, Qabs (x - x) <= 2 * e).
      { intros x. assert (x - x == 0) as -> by ring. change (Qabs 0) with 0. nra. }
      unfold mdist_le. conj; apply Z. }
  assert (Hn : 0 < n2 q).
  { pose proof (n2_nonneg q). apply Qle_lteq in H. destruct H as [H|H]; [assumption|]. exfalso. apply NZ. symmetry; assumption. }
  unfold mdist_le, rot, rot_unit. cbv zeta. cbn [m00 m01 m02 m10 m11 m12 m20 m21 m22].
  set (n := n2 q) in *.
  assert (D : forall s, - (2 * n) <= s -> s <= 2 * n -> Qabs ((1 - s) - (1 - s / n)) <= 2 * Qabs (n - 1)).
  { intros s Hl Hu. assert ((1 - s) - (1 - s / n) == s / n - s) as -> by ring. apply band_entry; assumption. }
  assert (O : forall s, - (2 * n) <= s -> s <= 2 * n -> Qabs (s - s / n) <= 2 * Qabs (n - 1)).
  { intros s Hl Hu. assert (s - s / n == - (s / n - s)) as -> by ring. rewrite Qabs_opp. apply band_entry; assumption. }
  unfold n, n2 in *. destruct q as [w x y z]; cbn [qw qx qy qz] in *.
  assert (SQ : forall u : Q, 0 <= u * u) by (intros; nra).
  pose proof (SQ (x - y)); pose proof (SQ (x + y)); pose proof (SQ (z - w)); pose proof (SQ (z + w));
  pose proof (SQ (x - z)); pose proof (SQ (x + z)); pose proof (SQ (y - w)); pose proof (SQ (y + w));
  pose proof (SQ (y - z)); pose proof (SQ (y + z)); pose proof (SQ (x - w)); pose proof (SQ (x + w));
  pose proof (SQ x); pose proof (SQ y); pose proof (SQ z); pose proof (SQ w).
  conj; first [apply D | apply O]; lra.
Qed.

(* ------------------------------------------------------------------ reduced-fraction versions *)
Lemma radd_eq a b : radd a b == a + b. Proof. apply Qred_correct. Qed.
Lemma rsub_eq a b : rsub a b == a - b. Proof. apply Qred_correct. Qed.
Lemma rmul_eq a b : rmul a b == a * b. Proof. apply Qred_correct. Qed.
Lemma rdiv_eq a b : rdiv a b == a / b. Proof. apply Qred_correct. Qed.
#[export] Instance radd_proper : Proper (Qeq ==> Qeq ==> Qeq) radd.
Proof. intros a b H c d G. rewrite !radd_eq, H, G. reflexivity. Qed.
#[export] Instance rsub_proper : Proper (Qeq ==> Qeq ==> Qeq) rsub.
Proof. intros a b H c d G. rewrite !rsub_eq, H, G. reflexivity. Qed.
#[export] Instance rmul_proper : Proper (Qeq ==> Qeq ==> Qeq) rmul.
Proof. intros a b H c d G. rewrite !rmul_eq, H, G. reflexivity. Qed.
#[export] Instance rdiv_proper : Proper (Qeq ==> Qeq ==> Qeq) rdiv.
Proof. intros a b H c d G. rewrite !rdiv_eq, H, G. reflexivity. Qed.

Ltac unr := rewrite ?radd_eq, ?rsub_eq, ?rmul_eq, ?rdiv_eq.
Ltac unr_all := repeat (progress unr).

Lemma qred_eq q : qred q =q= q.
Proof. unfold qred, qeq; cbn. conj; apply Qred_correct. Qed.
Lemma vred_eq v : vred v =v= v.
Proof. unfold vred, veq; cbn. conj; apply Qred_correct. Qed.

Lemma n2_r_eq q : n2_r q == n2 q.
Proof. unfold n2_r, n2. unr_all. ring. Qed.

Lemma qmul_r_eq a b : qmul_r a b =q= qmul a b.
Proof. unfold qmul_r, qmul, qeq. cbn [qw qx qy qz]. conj; unr_all; ring. Qed.

Lemma qinv_r_eq q : qinv_r q =q= qinv q.
Proof. unfold qinv_r, qinv, qeq. cbv zeta. cbn [qw qx qy qz]. conj; unr_all; rewrite n2_r_eq; reflexivity. Qed.

Lemma rot_unit_r_eq q : rot_unit_r q =m= rot_unit q.
Proof.
  unfold rot_unit_r, rot_unit, meq. cbv zeta. cbn [m00 m01 m02 m10 m11 m12 m20 m21 m22].
  conj; unr_all; ring.
Qed.

Lemma rot_r_eq q : rot_r q =m= rot q.
Proof.
  unfold rot_r, rot, meq. cbv zeta. cbn [m00 m01 m02 m10 m11 m12 m20 m21 m22].
  conj; unr_all; rewrite n2_r_eq; unfold Qdiv; ring.
Qed.

Lemma unit_band_r_eq q : unit_band_r q = unit_band q.
Proof. unfold unit_band_r, unit_band. rewrite n2_r_eq. reflexivity. Qed.

Lemma rot_impl_r_eq q : rot_impl_r q =m= rot_impl q.
Proof.
  unfold rot_impl_r, rot_impl. rewrite unit_band_r_eq. destruct (unit_band q); [apply rot_unit_r_eq | apply rot_r_eq].
Qed.

Lemma vadd_r_eq a b : vadd_r a b =v= vadd a b.
Proof. unfold vadd_r, vadd, veq. cbn [vx vy vz]. conj; unr_all; reflexivity. Qed.
Lemma mvmul_r_eq a v : mvmul_r a v =v= mvmul a v.
Proof. unfold mvmul_r, mvmul, veq. cbn [vx vy vz]. conj; unr_all; reflexivity. Qed.

#[export] Instance qmul_r_proper : Proper (qeq ==> qeq ==> qeq) qmul_r.
Proof. intros a b H c d G. rewrite !qmul_r_eq, H, G. reflexivity. Qed.
#[export] Instance qinv_r_proper : Proper (qeq ==> qeq) qinv_r.
Proof. intros a b H. rewrite !qinv_r_eq, H. reflexivity. Qed.
#[export] Instance rot_impl_r_proper : Proper (qeq ==> meq) rot_impl_r.
Proof. intros a b H. rewrite !rot_impl_r_eq, H. reflexivity. Qed.
#[export] Instance vadd_r_proper : Proper (veq ==> veq ==> veq) vadd_r.
Proof. intros a b H c d G. rewrite !vadd_r_eq, H, G. reflexivity. Qed.
#[export] Instance mvmul_r_proper : Proper (meq ==> veq ==> veq) mvmul_r.
Proof. intros a b H c d G. rewrite !mvmul_r_eq, H, G. reflexivity. Qed.
#[export] Instance qred_proper : Proper (qeq ==> qeq) qred.
Proof. intros a b H. rewrite !qred_eq. assumption. Qed.
#[export] Instance vred_proper : Proper (veq ==> veq) vred.
Proof. intros a b H. rewrite !vred_eq. assumption. Qed.

(* ------------------------------------------------------------------ tolerance comparisons respect == *)
#[export] Instance close_abs_proper : Proper (Qeq ==> Qeq ==> Qeq ==> Qeq ==> eq) close_abs.
Proof. intros t t' Ht s s' Hs a a' Ha b b' Hb. unfold close_abs. rewrite Ht, Hs, Ha, Hb. reflexivity. Qed.
#[export] Instance vmaxabs_proper : Proper (veq ==> Qeq) vmaxabs.
Proof. intros a b (H1 & H2 & H3). unfold vmaxabs. rewrite H1, H2, H3. reflexivity. Qed.
#[export] Instance qmaxabs_proper : Proper (qeq ==> Qeq) qmaxabs.
Proof. intros a b (H1 & H2 & H3 & H4). unfold qmaxabs. rewrite H1, H2, H3, H4. reflexivity. Qed.
#[export] Instance close_vec_proper : Proper (Qeq ==> Qeq ==> veq ==> veq ==> eq) close_vec.
Proof.
  intros t t' Ht s s' Hs a a' (A1 & A2 & A3) b b' (B1 & B2 & B3). unfold close_vec.
  rewrite Ht, Hs, A1, A2, A3, B1, B2, B3. reflexivity.
Qed.
#[export] Instance close_quat_proper : Proper (Qeq ==> Qeq ==> qeq ==> qeq ==> eq) close_quat.
Proof.
  intros t t' Ht s s' Hs a a' (A1 & A2 & A3 & A4) b b' (B1 & B2 & B3 & B4). unfold close_quat.
  rewrite Ht, Hs, A1, A2, A3, A4, B1, B2, B3, B4. reflexivity.
Qed.
#[export] Instance close_mat_proper : Proper (Qeq ==> Qeq ==> meq ==> meq ==> eq) close_mat.
Proof.
  intros t t' Ht s s' Hs a a' A b b' B. unfold close_mat.
  rewrite Ht, Hs, A, B. reflexivity.
Qed.
Lemma close_abs_spec tol scale a b : close_abs tol scale a b = true <-> Qabs (a - b) <= tol * scale.
Proof. apply Qle_bool_iff. Qed.

(* ------------------------------------------------------------------ numerator / denominator form *)
#[export] Instance rotNd_proper : Proper (Qeq ==> qeq ==> meq) rotNd.
Proof.
  intros d d' Hd a b (H1 & H2 & H3 & H4). unfold rotNd, meq. cbv zeta. cbn [m00 m01 m02 m10 m11 m12 m20 m21 m22].
  rewrite Hd, H1, H2, H3, H4. conj; reflexivity.
Qed.
Lemma rotNd_r_eq d q : rotNd_r d q =m= rotNd d q.
Proof.
  unfold rotNd_r, rotNd, meq. cbv zeta. cbn [m00 m01 m02 m10 m11 m12 m20 m21 m22].
  conj; unr_all; ring.
Qed.
Lemma rot_unit_rotNd q : rot_unit q = rotNd 1 q.
Proof. reflexivity. Qed.
Lemma rot_rotNd q : ~ n2 q == 0 -> forall v,
  mvmul (rot q) v =v= mkV (vx (mvmul (rotNd (n2 q) q) v) / n2 q) (vy (mvmul (rotNd (n2 q) q) v) / n2 q) (vz (mvmul (rotNd (n2 q) q) v) / n2 q).
Proof.
  intros NZ v. unfold rot, rotNd. cbv zeta. set (n := n2 q) in *. clearbody n.
  destruct q as [w x y z], v as [a b c]. unfold mvmul, veq. cbn [qw qx qy qz vx vy vz m00 m01 m02 m10 m11 m12 m20 m21 m22].
  conj; field; assumption.
Qed.

Lemma qinv_n_eq q : qinv_n q =q= qinv q.
Proof. unfold qinv_n, qinv, qeq. cbv zeta. cbn [qw qx qy qz]. conj; rewrite n2_r_eq; reflexivity. Qed.

(* the integer representative *)
Lemma qint_scale q : exists k, 0 < k /\ qint q =q= qscale k q.
Proof.
  unfold qint. cbv zeta.
  set (k := Zpos (Pos.max (Pos.max (Qden (Qred (qw q))) (Qden (Qred (qx q)))) (Pos.max (Qden (Qred (qy q))) (Qden (Qred (qz q))))) # 1).
  exists k. split; [reflexivity|].
  unfold qscale, qeq. cbn [qw qx qy qz]. rewrite !Qred_correct. conj; reflexivity.
Qed.
Lemma qint_rot q : rot (qint q) =m= rot q.
Proof.
  destruct (qint_scale q) as (k & Hk & E). rewrite E. apply rot_scale.
  intros Z. rewrite Z in Hk. discriminate.
Qed.
Lemma qint_nonzero q : ~ n2 q == 0 -> ~ n2 (qint q) == 0.
Proof.
  intros NZ. destruct (qint_scale q) as (k & Hk & E). rewrite E. apply n2_scale_nonzero; [|assumption].
  intros Z. rewrite Z in Hk. discriminate.
Qed.

Lemma apply_rotNd q v : ~ n2 q == 0 ->
  apply_parts_r (rotNd_r (n2_r q) q, n2_r q) v =v= mvmul (rot q) v.
Proof.
  intros NZ. unfold apply_parts_r. cbn [fst snd].
  rewrite mvmul_r_eq, rotNd_r_eq, (rot_rotNd q NZ v), !n2_r_eq. reflexivity.
Qed.
Lemma apply_rotNd_conj q v : ~ n2 q == 0 ->
  apply_parts_r (rotNd_r (n2_r q) (qconj q), n2_r q) v =v= mvmul (rot (qconj q)) v.
Proof.
  intros NZ. unfold apply_parts_r. cbn [fst snd].
  rewrite mvmul_r_eq, rotNd_r_eq, !n2_r_eq.
  revert NZ. destruct q as [w x y z], v as [a b c]. unf. unfold rotNd. cbv zeta.
  cbn [qw qx qy qz vx vy vz m00 m01 m02 m10 m11 m12 m20 m21 m22]. intros NZ.
  conj; field; conj; first [assumption | intros Z; apply NZ; rewrite <- Z; ring].
Qed.

Lemma apply_parts_r_eq q v : ~ n2 q == 0 -> apply_parts_r (rot_parts_r q) v =v= mvmul (rot_impl q) v.
Proof.
  intros NZ. unfold rot_parts_r, rot_impl, unit_band. cbv zeta. rewrite n2_r_eq.
  destruct (Qlt_bool (Qabs (n2 q - 1)) band).
  - unfold apply_parts_r. cbn [fst snd]. rewrite mvmul_r_eq, rotNd_r_eq. change (rot_unit q) with (rotNd 1 q).
    unfold veq. cbn [vx vy vz]. conj; field.
  - rewrite (apply_rotNd _ v (qint_nonzero q NZ)), qint_rot. reflexivity.
Qed.

Lemma unit_band_inv q : ~ n2 q == 0 -> unit_band (qinv q) = Qlt_bool (Qabs (/ n2 q - 1)) band.
Proof. intros NZ. unfold unit_band. rewrite (n2_inv q NZ). reflexivity. Qed.

Lemma apply_parts_inv_r_eq q v : ~ n2 q == 0 -> apply_parts_r (rot_parts_inv_r q) v =v= mvmul (rot_impl (qinv q)) v.
Proof.
  intros NZ. unfold rot_parts_inv_r, rot_impl. cbv zeta. rewrite (unit_band_inv q NZ), n2_r_eq.
  destruct (Qlt_bool (Qabs (/ n2 q - 1)) band).
  - unfold apply_parts_r. cbn [fst snd].
    rewrite mvmul_r_eq, rotNd_r_eq, rmul_eq, !n2_r_eq.
    revert NZ. destruct q as [w x y z], v as [a b c]. unf. unfold rotNd. cbv zeta.
    cbn [qw qx qy qz vx vy vz m00 m01 m02 m10 m11 m12 m20 m21 m22]. intros NZ.
    conj; field; assumption.
  - rewrite (apply_rotNd_conj _ v (qint_nonzero q NZ)), rot_conj, qint_rot, (rot_inv q NZ). reflexivity.
Qed.

#[export] Instance apply_parts_r_proper : Proper (eq ==> veq ==> veq) apply_parts_r.
Proof.
  intros md md' <- a b H. unfold apply_parts_r. cbv zeta. rewrite !mvmul_r_eq, H. reflexivity.
Qed.

Lemma rot_n_eq q : ~ n2 q == 0 -> rot_n q =m= rot q.
Proof.
  intros NZ. unfold rot_n. cbv zeta. unfold meq. cbn [m00 m01 m02 m10 m11 m12 m20 m21 m22].
  pose proof (rotNd_r_eq (n2_r q) q) as H. unfold meq in H. decompose [and] H. clear H.
  repeat match goal with H : _ == _ |- _ => rewrite H; clear H end.
  rewrite !n2_r_eq. unfold rotNd, rot. cbv zeta. cbn [m00 m01 m02 m10 m11 m12 m20 m21 m22].
  set (n := n2 q) in *. clearbody n. conj; field; assumption.
Qed.

(* close_rot is a statement about the rotation matrices *)
Lemma Qle_bool_ext a b c d : (a <= b <-> c <= d) -> Qle_bool a b = Qle_bool c d.
Proof.
  intros H. destruct (Qle_bool a b) eqn:E1, (Qle_bool c d) eqn:E2; try reflexivity.
  - apply Qle_bool_iff in E1. apply H in E1. apply Qle_bool_iff in E1. congruence.
  - apply Qle_bool_iff in E2. apply H in E2. apply Qle_bool_iff in E2. congruence.
Qed.
Lemma quot_close x y d e t : 0 < d -> 0 < e ->
  Qle_bool (Qabs (x * e - y * d)) (t * (d * e)) = Qle_bool (Qabs (x / d - y / e)) (t * 1).
Proof.
  intros Hd He. apply Qle_bool_ext.
  assert (Hde : 0 < d * e) by nra.
  assert (Nd : ~ d == 0) by (intros Z; rewrite Z in Hd; discriminate).
  assert (Ne : ~ e == 0) by (intros Z; rewrite Z in He; discriminate).
  set (u := x / d - y / e).
  assert (E : x * e - y * d == u * (d * e)) by (unfold u; field; split; assumption).
  rewrite E, Qabs_Qmult, (Qabs_pos (d * e)) by (apply Qlt_le_weak; assumption).
  rewrite Qmult_1_r. apply Qmult_le_r. assumption.
Qed.
Lemma n2_pos q : ~ n2 q == 0 -> 0 < n2 q.
Proof.
  intros NZ. pose proof (n2_nonneg q) as H. apply Qle_lteq in H. destruct H as [H|H]; [assumption|].
  exfalso. apply NZ. symmetry. assumption.
Qed.
Lemma rot_entries q : ~ n2 q == 0 ->
  rot q =m= (let n := n2 q in let M := rotNd n q in
             mkM (m00 M / n) (m01 M / n) (m02 M / n) (m10 M / n) (m11 M / n) (m12 M / n) (m20 M / n) (m21 M / n) (m22 M / n)).
Proof.
  intros NZ. unfold rot, rotNd. cbv zeta. unfold meq. cbn [m00 m01 m02 m10 m11 m12 m20 m21 m22].
  set (n := n2 q) in *. clearbody n. conj; field; assumption.
Qed.
Lemma close_rot_core_spec tol a b : ~ n2 a == 0 -> ~ n2 b == 0 ->
  close_rot_core tol a b = close_mat tol 1 (rot a) (rot b).
Proof.
  intros Ha Hb. unfold close_rot_core. cbv zeta.
  assert (Za : Qeq_bool (n2_r a) 0 = false).
  { destruct (Qeq_bool (n2_r a) 0) eqn:E; [|reflexivity]. apply Qeq_bool_iff in E. rewrite n2_r_eq in E. contradiction. }
  assert (Zb : Qeq_bool (n2_r b) 0 = false).
  { destruct (Qeq_bool (n2_r b) 0) eqn:E; [|reflexivity]. apply Qeq_bool_iff in E. rewrite n2_r_eq in E. contradiction. }
  rewrite Za, Zb. cbn [negb andb].
  rewrite (close_mat_proper tol tol (Qeq_refl _) 1 1 (Qeq_refl _) _ _ (rot_entries a Ha) _ _ (rot_entries b Hb)).
  unfold close_mat, close_abs. cbv zeta. cbn [m00 m01 m02 m10 m11 m12 m20 m21 m22].
  pose proof (n2_pos a Ha) as Pa. pose proof (n2_pos b Hb) as Pb.
  pose proof (rotNd_r_eq (n2_r a) a) as EA. pose proof (rotNd_r_eq (n2_r b) b) as EB.
  unfold meq in EA, EB. decompose [and] EA. decompose [and] EB. clear EA EB.
  repeat match goal with H : _ == _ |- _ => rewrite H; clear H end.
  rewrite !rsub_eq, !rmul_eq, !n2_r_eq.
  rewrite !(quot_close _ _ (n2 a) (n2 b) tol Pa Pb). reflexivity.
Qed.
Lemma close_rot_spec tol a b : ~ n2 a == 0 -> ~ n2 b == 0 ->
  close_rot tol a b = close_mat tol 1 (rot a) (rot b).
Proof.
  intros Ha Hb. unfold close_rot.
  rewrite (close_rot_core_spec _ _ _ (qint_nonzero a Ha) (qint_nonzero b Hb)).
  apply close_mat_proper; try reflexivity; apply qint_rot.
Qed.
