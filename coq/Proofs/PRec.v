(* Proofs/PRec.v — the dict-of-dicts container (RecordsBase, and the map part of Trajectories)
   refines a plain map keyed by (timestamp, device), for every operation sequence. *)
From Coq Require Import List Bool ZArith Lia Permutation.
From KV Require Import Eqb AL.
From KV.Model Require Import MRec.
Import ListNotations.
Local Open Scope Z_scope.

(* ---------- generic facts on association lists *)
Section ALX.
  Context {K V : Type} `{EqDec K}.

  Lemma lookup_filter_key (f : K -> bool) k (m : al K V) :
    lookup k (List.filter (fun e => f (fst e)) m) = if f k then lookup k m else None.
  Proof.
    induction m as [|[k' v] m IH]; cbn; [destruct (f k); reflexivity|].
    destruct (f k') eqn:F; cbn; destruct (eqb_spec k k') as [->|N]; rewrite ?F; auto.
    rewrite IH, F; reflexivity.
  Qed.

  Lemma keys_filter_key (f : K -> bool) (m : al K V) :
    keys (List.filter (fun e => f (fst e)) m) = List.filter f (keys m).
  Proof.
    unfold keys; induction m as [|[k' v] m IH]; cbn; [reflexivity|].
    destruct (f k'); cbn; rewrite IH; reflexivity.
  Qed.

  Lemma wf_filter_key (f : K -> bool) (m : al K V) : wf m -> wf (List.filter (fun e => f (fst e)) m).
  Proof. unfold wf; rewrite keys_filter_key; apply NoDup_filter. Qed.

  Lemma lookup_Some_In k v (m : al K V) : lookup k m = Some v -> In (k, v) m.
  Proof.
    induction m as [|[k' v'] m IH]; cbn; [discriminate|].
    destruct (eqb_spec k k') as [->|N]; [intros [= ->]; auto | auto].
  Qed.

  Lemma insert_not_nil k v (m : al K V) : insert k v m <> [].
  Proof. destruct m as [|[k' v'] m]; cbn; [discriminate|]. destruct (eqb k k'); discriminate. Qed.

  Lemma wf_NoDup (m : al K V) : wf m -> NoDup m.
  Proof. apply NoDup_map_inv. Qed.

  Lemma mem_lookup k (m : al K V) : mem k m = match lookup k m with Some _ => true | None => false end.
  Proof. reflexivity. Qed.
End ALX.

Lemma NoDup_map_in {A B} (f : A -> B) (l : list A) :
  (forall x y, In x l -> In y l -> f x = f y -> x = y) -> NoDup l -> NoDup (map f l).
Proof.
  induction l as [|a l IH]; cbn; intros Inj ND; [constructor|].
  inversion ND as [|? ? NI ND']; subst. constructor.
  - rewrite in_map_iff. intros [y [E I]]. apply NI. rewrite (Inj a y); auto.
  - apply IH; auto.
Qed.

Lemma is_nil_true {A} (l : list A) : is_nil l = true <-> l = [].
Proof. destruct l; cbn; split; congruence. Qed.
Lemma is_nil_false {A} (l : list A) : is_nil l = false <-> l <> [].
Proof. destruct l; cbn; split; congruence. Qed.

Section Rec.
  Context {D P : Type} `{EqDec D} `{EqDec P}.
  Notation nested := (nested D P).
  Notation amap := (amap D P).
  Notation out := (out D P).
  Notation mop := (mop D P).

  (* every stored timestamp has a well-formed, non-empty inner dict *)
  Definition inv (x : nested) : Prop :=
    wf x /\ forall t m, lookup t x = Some m -> wf m /\ m <> [].
  (* same content *)
  Definition R (x : nested) (a : amap) : Prop := forall t d, lookup2 t d x = lookup (t, d) a.
  Definition Rel (x : nested) (a : amap) : Prop := inv x /\ wf a /\ R x a.

  (* equality of answers; the two set-valued answers are compared as sets *)
  Definition out_equiv (o1 o2 : out) : Prop :=
    match o1, o2 with
    | ODict m1, ODict m2 => Permutation m1 m2
    | OPairs l1, OPairs l2 => Permutation l1 l2
    | _, _ => o1 = o2
    end.

  Lemma out_equiv_refl o : out_equiv o o.
  Proof. destruct o; cbn; auto. Qed.
  Lemma out_equiv_sym o1 o2 : out_equiv o1 o2 -> out_equiv o2 o1.
  Proof. destruct o1, o2; cbn; intros E; try discriminate E; auto using Permutation_sym. Qed.
  Lemma out_equiv_trans o1 o2 o3 : out_equiv o1 o2 -> out_equiv o2 o3 -> out_equiv o1 o3.
  Proof.
    destruct o1, o2; cbn; intros E12; try discriminate E12; destruct o3; cbn; intros E23;
      try discriminate E23; try congruence; eauto using Permutation_trans.
  Qed.
  Lemma out_equiv_eq o1 o2 : o1 = o2 -> out_equiv o1 o2.
  Proof. intros ->; apply out_equiv_refl. Qed.

  Lemma Rel_nil : Rel [] [].
  Proof.
    split; [split; [constructor | cbn; discriminate]|]. split; [constructor | intros t d; reflexivity].
  Qed.

  (* ---------- lookup2 through the outer dict *)
  Lemma lookup2_insert t m (x : nested) t' d' :
    lookup2 t' d' (insert t m x) = if eqb t' t then lookup d' m else lookup2 t' d' x.
  Proof. unfold lookup2. rewrite lookup_insert. destruct (eqb t' t); reflexivity. Qed.

  Lemma lookup2_remove t (x : nested) t' d' :
    lookup2 t' d' (remove t x) = if eqb t' t then None else lookup2 t' d' x.
  Proof. unfold lookup2. rewrite lookup_remove. destruct (eqb t' t); reflexivity. Qed.

  Lemma lookup_drop_ts (a : amap) t t' d' :
    lookup (t', d') (drop_ts a t) = if eqb t' t then None else lookup (t', d') a.
  Proof.
    unfold drop_ts. rewrite (lookup_filter_key (fun k => negb (eqb (fst k) t))). cbn.
    destruct (eqb t' t); reflexivity.
  Qed.

  Lemma wf_drop_ts (a : amap) t : wf a -> wf (drop_ts a t).
  Proof. apply (wf_filter_key (fun k => negb (eqb (fst k) t))). Qed.

  Lemma pair_eqb_split (t t' : Z) (d d' : D) : eqb (t', d') (t, d) = eqb t' t && eqb d' d.
  Proof. reflexivity. Qed.

  (* ---------- the dict argument of  c[t] = {...}  *)
  Definition insD (acc : inner D P) (e : D * P) := insert (fst e) (snd e) acc.
  Definition insA (t : Z) (acc : amap) (e : D * P) := insert (t, fst e) (snd e) acc.

  Lemma fold_insD_wf l acc : wf acc -> wf (fold_left insD l acc).
  Proof. revert acc; induction l as [|e l IH]; cbn; intros acc W; [assumption|]. apply IH, wf_insert, W. Qed.

  Lemma fold_insA_wf t l acc : wf acc -> wf (fold_left (insA t) l acc).
  Proof. revert acc; induction l as [|e l IH]; cbn; intros acc W; [assumption|]. apply IH, wf_insert, W. Qed.

  Lemma fold_insD_not_nil l acc : acc <> [] -> fold_left insD l acc <> [].
  Proof. revert acc; induction l as [|e l IH]; cbn; intros acc N; [assumption|]. apply IH, insert_not_nil. Qed.

  Lemma of_list_nil (l : list (D * P)) : of_list l = [] -> l = [].
  Proof.
    destruct l as [|e l]; [reflexivity|]. unfold of_list; cbn. intros E. exfalso.
    revert E. apply (fold_insD_not_nil l). discriminate.
  Qed.

  Lemma fold_rel t (l : list (D * P)) : forall (acc : inner D P) (b : amap),
    (forall d, lookup d acc = lookup (t, d) b) ->
    (forall d, lookup d (fold_left insD l acc) = lookup (t, d) (fold_left (insA t) l b)) /\
    (forall t' d, t' <> t -> lookup (t', d) (fold_left (insA t) l b) = lookup (t', d) b).
  Proof.
    induction l as [|e l IH]; cbn; intros acc b E; [split; auto|].
    destruct (IH (insD acc e) (insA t b e)) as [I1 I2].
    - intros d. unfold insD, insA. rewrite !lookup_insert, pair_eqb_split, eqb_refl. cbn.
      destruct (eqb d (fst e)); auto.
    - split; [assumption|]. intros t' d N. rewrite I2 by assumption. unfold insA.
      rewrite lookup_insert, pair_eqb_split. apply neq_eqb in N. rewrite N. reflexivity.
  Qed.

  (* ---------- timestamps present on both sides *)
  Lemma has_ts_iff x a t : Rel x a -> (mem t x = true <-> ts_of a t <> []).
  Proof.
    intros [[Wx Hin] [Wa Rxa]]. rewrite mem_lookup. split.
    - destruct (lookup t x) as [m|] eqn:E; [intros _|discriminate].
      destruct (Hin t m E) as [Wm Nm]. destruct m as [|[d p] m]; [congruence|].
      assert (L : lookup2 t d x = Some p) by (unfold lookup2; rewrite E; cbn; rewrite eqb_refl; reflexivity).
      rewrite Rxa in L. apply lookup_Some_In in L.
      intros Z0. assert (I : In ((t, d), p) (ts_of a t)).
      { unfold ts_of. apply filter_In. split; [assumption|]. cbn. apply eqb_refl. }
      rewrite Z0 in I. destruct I.
    - intros N. destruct (ts_of a t) as [|[[t0 d] p] r] eqn:E; [congruence|].
      assert (I : In ((t0, d), p) (ts_of a t)) by (rewrite E; left; reflexivity).
      unfold ts_of in I. apply filter_In in I. destruct I as [I T]. cbn in T. apply eqb_true in T. subst t0.
      assert (L : lookup (t, d) a <> None).
      { apply lookup_In_keys. apply in_map_iff. exists ((t, d), p). auto. }
      rewrite <- Rxa in L. unfold lookup2 in L. destruct (lookup t x); [reflexivity|congruence].
  Qed.

  Lemma has_ts_eq x a t : Rel x a -> mem t x = negb (is_nil (ts_of a t)).
  Proof.
    intros Rl. pose proof (has_ts_iff x a t Rl) as E.
    destruct (mem t x); destruct (ts_of a t); cbn; auto.
    - exfalso. apply (proj1 E); reflexivity.
    - apply E. discriminate.
  Qed.

  Lemma ts_of_In_map (a : amap) t : In t (map (fun e => fst (fst e)) a) <-> ts_of a t <> [].
  Proof.
    split.
    - rewrite in_map_iff. intros [e [E I]] Z0.
      assert (I' : In e (ts_of a t)) by (apply filter_In; split; [assumption | rewrite E; apply eqb_refl]).
      rewrite Z0 in I'; destruct I'.
    - destruct (ts_of a t) as [|e r] eqn:E; [congruence|]. intros _.
      assert (I : In e (ts_of a t)) by (rewrite E; left; reflexivity).
      apply filter_In in I. destruct I as [I T]. apply eqb_true in T. apply in_map_iff. exists e; auto.
  Qed.

  Lemma keys_timestamps x a t : Rel x a -> (In t (keys x) <-> In t (timestamps a)).
  Proof.
    intros Rl. unfold timestamps. rewrite dedup_In, ts_of_In_map, <- (has_ts_iff x a t Rl), mem_In_keys. tauto.
  Qed.

  (* ---------- the listing answers *)
  Lemma flatten_In (x : nested) t d p :
    inv x -> (In (t, d, p) (flatten x) <-> lookup2 t d x = Some p).
  Proof.
    intros [Wx Hin]. unfold flatten. rewrite in_flat_map. split.
    - intros [[t0 m] [I J]]. cbn in J. apply in_map_iff in J. destruct J as [[d0 p0] [E J]].
      cbn in E. injection E as -> -> ->. apply (lookup_In _ _ _ Wx) in I.
      unfold lookup2. rewrite I. destruct (Hin t m I) as [Wm _]. apply (lookup_In _ _ _ Wm). assumption.
    - unfold lookup2. destruct (lookup t x) as [m|] eqn:E; [|discriminate]. intros L.
      destruct (Hin t m E) as [Wm _]. exists (t, m). split; [apply (lookup_In _ _ _ Wx); assumption|].
      cbn. apply in_map_iff. exists (d, p). split; [reflexivity|]. apply (lookup_In _ _ _ Wm). assumption.
  Qed.

  Lemma flatten_NoDup (x : nested) : inv x -> NoDup (flatten x).
  Proof.
    intros [Wx Hin]. unfold flatten. revert Wx Hin. induction x as [|[t m] x IH]; cbn; intros Wx Hin; [constructor|].
    unfold wf in Wx; cbn in Wx. inversion Wx as [|? ? NI Wx']; subst.
    assert (Wm : wf m).
    { apply (Hin t m). rewrite eqb_refl. reflexivity. }
    assert (IHx : NoDup (flat_map (fun tm => map (fun dp => (fst tm, fst dp, snd dp)) (snd tm)) x)).
    { apply IH; [exact Wx'|]. intros t' m' L. apply (Hin t' m'). destruct (eqb_spec t' t) as [->|N]; [|assumption].
      exfalso. apply NI. apply lookup_In_keys. congruence. }
    clear IH Hin. induction m as [|[d p] m IHm]; cbn; [assumption|].
    unfold wf in Wm; cbn in Wm. inversion Wm as [|? ? NId Wm']; subst. constructor.
    - rewrite in_app_iff. intros [I|I].
      + apply in_map_iff in I. destruct I as [[d0 p0] [E I]]. cbn in E. injection E as -> ->.
        apply NId. apply in_map_iff. exists (d, p). auto.
      + apply in_flat_map in I. destruct I as [[t0 m0] [I J]]. cbn in J. apply in_map_iff in J.
        destruct J as [dp [E J]]. injection E as -> _ _. apply NI. apply in_map_iff. exists (t, m0). auto.
    - apply IHm. exact Wm'.
  Qed.

  Lemma pairs_perm x a : Rel x a ->
    Permutation (flatten x) (map (fun e => (fst (fst e), snd (fst e), snd e)) a).
  Proof.
    intros [Ix [Wa Rxa]]. apply NoDup_Permutation.
    - apply flatten_NoDup; assumption.
    - apply NoDup_map_in; [|apply wf_NoDup; assumption].
      intros [[t d] p] [[t' d'] p'] _ _; cbn. congruence.
    - intros [[t d] p]. rewrite flatten_In by assumption. rewrite Rxa, (lookup_In _ _ _ Wa), in_map_iff. split.
      + intros I. exists ((t, d), p). auto.
      + intros [[[t' d'] p'] [E I]]. cbn in E. congruence.
  Qed.

  Lemma get_ts_perm x a t m : Rel x a -> lookup t x = Some m ->
    Permutation m (map (fun e => (snd (fst e), snd e)) (ts_of a t)).
  Proof.
    intros [[Wx Hin] [Wa Rxa]] E. destruct (Hin t m E) as [Wm _].
    assert (Wt : wf (ts_of a t)) by apply (wf_filter_key (fun k => eqb (fst k) t)), Wa.
    assert (Tt : forall e, In e (ts_of a t) -> fst (fst e) = t).
    { intros e I. apply filter_In in I. apply eqb_true, I. }
    apply NoDup_Permutation.
    - apply wf_NoDup; assumption.
    - apply NoDup_map_in; [|apply wf_NoDup; assumption].
      intros [[t1 d1] p1] [[t2 d2] p2] I1 I2; cbn. intros [= -> ->].
      apply Tt in I1. apply Tt in I2. cbn in *. congruence.
    - intros [d p]. rewrite <- (lookup_In _ _ _ Wm).
      assert (L : lookup d m = lookup2 t d x) by (unfold lookup2; rewrite E; reflexivity).
      rewrite L, Rxa, (lookup_In _ _ _ Wa), in_map_iff. split.
      + intros I. exists ((t, d), p). split; [reflexivity|]. apply filter_In. split; [assumption | apply eqb_refl].
      + intros [[[t' d'] p'] [Eq I]]. cbn in Eq. injection Eq as -> ->. pose proof (Tt _ I) as T. cbn in T. subst t'.
        apply filter_In in I. apply I.
  Qed.

  Lemma len_eq x a : Rel x a -> length x = length (timestamps a).
  Proof.
    intros Rl. rewrite <- (map_length fst x). change (map fst x) with (keys x).
    apply Permutation_length, NoDup_Permutation.
    - apply Rl.
    - apply dedup_NoDup.
    - intros t. apply keys_timestamps; assumption.
  Qed.

  (* ---------- one step *)
  Lemma inv_insert t m x : inv x -> wf m -> m <> [] -> inv (insert t m x).
  Proof.
    intros [Wx Hin] Wm Nm. split; [apply wf_insert; assumption|].
    intros t' m'. rewrite lookup_insert. destruct (eqb_spec t' t) as [->|N]; [intros [= <-]; auto | apply Hin].
  Qed.

  Lemma inv_remove t x : inv x -> inv (remove t x).
  Proof.
    intros [Wx Hin]. split; [apply wf_remove; assumption|].
    intros t' m'. rewrite lookup_remove. destruct (eqb t' t); [discriminate | apply Hin].
  Qed.

  Lemma step_refines x a o : Rel x a ->
    out_equiv (fst (m_step x o)) (fst (s_step a o)) /\ Rel (snd (m_step x o)) (snd (s_step a o)).
  Proof.
    intros Rl. pose proof Rl as [Ix [Wa Rxa]]. pose proof Ix as [Wx Hin].
    destruct o as [t d p|t l|t d|t|t|t d|t d|t| | |]; unfold m_step; cbn [m_step_gen s_step].
    - (* SetPair *)
      cbn. split; [reflexivity|].
      set (m0 := match lookup t x with Some m => m | None => [] end).
      assert (Wm0 : wf m0).
      { unfold m0. destruct (lookup t x) as [m|] eqn:E; [apply (Hin t m E) | apply wf_nil]. }
      assert (L0 : forall d', lookup d' m0 = lookup2 t d' x).
      { intros d'. unfold m0, lookup2. destruct (lookup t x); reflexivity. }
      split; [apply inv_insert; [assumption | apply wf_insert; assumption | apply insert_not_nil]|].
      split; [apply wf_insert; assumption|].
      intros t' d'. rewrite lookup2_insert, !lookup_insert, pair_eqb_split.
      destruct (eqb_spec t' t) as [->|N]; cbn; [|apply Rxa].
      destruct (eqb d' d); [reflexivity|]. rewrite L0. apply Rxa.
    - (* SetTs *)
      cbn [fst snd]. split; [reflexivity|]. rewrite andb_true_r.
      fold (insA t). change (fun acc e => insert (t, fst e) (snd e) acc) with (insA t).
      destruct (fold_rel t l [] (drop_ts a t)) as [F1 F2].
      { intros d'. rewrite lookup_drop_ts, eqb_refl. reflexivity. }
      assert (Wf : wf (fold_left (insA t) l (drop_ts a t))) by (apply fold_insA_wf, wf_drop_ts; assumption).
      destruct (is_nil (of_list l)) eqn:Z0.
      + apply is_nil_true in Z0. apply of_list_nil in Z0. subst l. cbn.
        split; [apply inv_remove; assumption|]. split; [apply wf_drop_ts; assumption|].
        intros t' d'. rewrite lookup2_remove, lookup_drop_ts. destruct (eqb t' t); [reflexivity | apply Rxa].
      + apply is_nil_false in Z0.
        split; [apply inv_insert; [assumption | apply fold_insD_wf, wf_nil | assumption]|].
        split; [assumption|].
        intros t' d'. rewrite lookup2_insert. destruct (eqb_spec t' t) as [->|N].
        * apply F1.
        * rewrite F2 by assumption. rewrite lookup_drop_ts. apply neq_eqb in N. rewrite N. apply Rxa.
    - (* DelPair *)
      rewrite mem_lookup, <- Rxa. unfold lookup2.
      destruct (lookup t x) as [m|] eqn:E; [|cbn; split; [reflexivity | assumption]].
      destruct (lookup d m) as [p|] eqn:Ed; [|cbn; split; [reflexivity | assumption]].
      cbn [fst snd]. split; [reflexivity|]. destruct (Hin t m E) as [Wm Nm].
      destruct (is_nil (remove d m)) eqn:Z0.
      + apply is_nil_true in Z0.
        split; [apply inv_remove; assumption|]. split; [apply wf_remove; assumption|].
        intros t' d'. rewrite lookup2_remove, lookup_remove, pair_eqb_split.
        destruct (eqb_spec t' t) as [->|N]; cbn; [|apply Rxa].
        destruct (eqb_spec d' d) as [->|Nd]; [reflexivity|].
        rewrite <- Rxa. unfold lookup2. rewrite E. rewrite <- (lookup_remove_neq d d' m Nd), Z0. reflexivity.
      + apply is_nil_false in Z0.
        split; [apply inv_insert; [assumption | apply wf_remove; assumption | assumption]|].
        split; [apply wf_remove; assumption|].
        intros t' d'. rewrite lookup2_insert, !lookup_remove, pair_eqb_split.
        destruct (eqb_spec t' t) as [->|N]; cbn; [|apply Rxa].
        destruct (eqb d' d); [reflexivity|]. rewrite <- Rxa. unfold lookup2. rewrite E. reflexivity.
    - (* DelTs *)
      rewrite (has_ts_eq x a t Rl). destruct (is_nil (ts_of a t)); cbn; [split; [reflexivity | assumption]|].
      split; [reflexivity|]. split; [apply inv_remove; assumption|]. split; [apply wf_drop_ts; assumption|].
      intros t' d'. rewrite lookup2_remove, lookup_drop_ts. destruct (eqb t' t); [reflexivity | apply Rxa].
    - (* HasTs *)
      cbn. rewrite (has_ts_eq x a t Rl). split; [reflexivity | assumption].
    - (* HasPair *)
      cbn. rewrite mem_lookup, Rxa. split; [reflexivity | assumption].
    - (* GetPair *)
      cbn [fst snd]. rewrite Rxa. split; [apply out_equiv_refl | assumption].
    - (* GetTs *)
      cbn [fst snd]. split; [|assumption]. pose proof (has_ts_eq x a t Rl) as Ht. rewrite mem_lookup in Ht.
      destruct (lookup t x) as [m|] eqn:E.
      + destruct (is_nil (ts_of a t)); [discriminate|]. cbn. apply (get_ts_perm x a t m Rl E).
      + destruct (is_nil (ts_of a t)); [reflexivity | discriminate].
    - (* Pairs *)
      cbn. split; [apply pairs_perm; assumption | assumption].
    - (* Len *)
      cbn. rewrite (len_eq x a Rl). split; [reflexivity | assumption].
    - (* Bad *)
      cbn. split; [reflexivity | assumption].
  Qed.

  (* ---------- every operation sequence *)
  Theorem rec_refines : forall ops x a, Rel x a ->
    Forall2 out_equiv (fst (m_run x ops)) (fst (s_run a ops)) /\ Rel (snd (m_run x ops)) (snd (s_run a ops)).
  Proof.
    induction ops as [|o ops IH]; intros x a Rl; unfold m_run in *; cbn; [split; [constructor | assumption]|].
    destruct (step_refines x a o Rl) as [E Rl']. unfold m_step in *.
    destruct (m_step_gen false x o) as [r x'], (s_step a o) as [r' a']. cbn in E, Rl'.
    specialize (IH x' a' Rl').
    destruct (m_run_gen false x' ops) as [rs x''], (s_run a' ops) as [rs' a'']. cbn in *.
    destruct IH as [F Rl'']. split; [constructor; assumption | assumption].
  Qed.

  (* answers depend on the content only: two containers holding the same entries answer alike *)
  Theorem rec_same_content : forall x1 x2 a, Rel x1 a -> inv x2 ->
    (forall t d, lookup2 t d x2 = lookup2 t d x1) ->
    forall o, out_equiv (fst (m_step x1 o)) (fst (m_step x2 o)).
  Proof.
    intros x1 x2 a Rl1 I2 Same o.
    assert (Rl2 : Rel x2 a).
    { split; [assumption|]. split; [apply Rl1|]. intros t d. rewrite Same. apply Rl1. }
    eapply out_equiv_trans; [apply (step_refines x1 a o Rl1)|].
    apply out_equiv_sym. apply (step_refines x2 a o Rl2).
  Qed.

  Lemma reachable_Rel (ops : list mop) : Rel (snd (m_run [] ops)) (snd (s_run [] ops)).
  Proof. apply rec_refines, Rel_nil. Qed.

  Theorem rec_history_independent (ops1 ops2 : list mop) :
    (forall t d, lookup2 t d (snd (m_run [] ops1)) = lookup2 t d (snd (m_run [] ops2))) ->
    forall o, out_equiv (fst (m_step (snd (m_run [] ops1)) o)) (fst (m_step (snd (m_run [] ops2)) o)).
  Proof.
    intros Same o. pose proof (reachable_Rel ops1) as R1. pose proof (reachable_Rel ops2) as [I2 _].
    apply (rec_same_content _ _ _ R1 I2). intros t d. symmetry. apply Same.
  Qed.
End Rec.

(* ---------- membership does not depend on the payloads: relabelling every payload of a history by any
   function (e.g. the constant one) leaves every membership answer unchanged *)
Section Relabel.
  Context {K V W : Type} `{EqDec K}.
  Variable g : V -> W.

  Definition vmap (m : al K V) : al K W := map (fun e => (fst e, g (snd e))) m.

  Lemma lookup_vmap k m : lookup k (vmap m) = option_map g (lookup k m).
  Proof. unfold vmap. induction m as [|[k' v] m IH]; cbn; [reflexivity|]. destruct (eqb k k'); [reflexivity | assumption]. Qed.

  Lemma mem_vmap k m : mem k (vmap m) = mem k m.
  Proof. unfold mem. rewrite lookup_vmap. destruct (lookup k m); reflexivity. Qed.

  Lemma insert_vmap k v m : insert k (g v) (vmap m) = vmap (insert k v m).
  Proof. unfold vmap. induction m as [|[k' v'] m IH]; cbn; [reflexivity|]. destruct (eqb k k'); cbn; [reflexivity | rewrite IH; reflexivity]. Qed.

  Lemma remove_vmap k m : remove k (vmap m) = vmap (remove k m).
  Proof. unfold vmap. induction m as [|[k' v'] m IH]; cbn; [reflexivity|]. destruct (eqb k k'); cbn; [assumption | rewrite IH; reflexivity]. Qed.

  Lemma filter_key_vmap (f : K -> bool) m :
    List.filter (fun e => f (fst e)) (vmap m) = vmap (List.filter (fun e => f (fst e)) m).
  Proof. unfold vmap. induction m as [|[k' v'] m IH]; cbn; [reflexivity|]. destruct (f k'); cbn; rewrite IH; reflexivity. Qed.

  Lemma is_nil_vmap m : is_nil (vmap m) = is_nil m.
  Proof. destruct m; reflexivity. Qed.
End Relabel.

Section RelabelRec.
  Context {D P Q : Type} `{EqDec D}.
  Variable f : P -> Q.

  Definition mop_map (o : mop D P) : mop D Q :=
    match o with
    | SetPair t d p => SetPair t d (f p)
    | SetTs t l => SetTs t (map (fun e => (fst e, f (snd e))) l)
    | DelPair t d => DelPair t d
    | DelTs t => DelTs t
    | HasTs t => HasTs t
    | HasPair t d => HasPair t d
    | GetPair t d => GetPair t d
    | GetTs t => GetTs t
    | Pairs => Pairs
    | Len => Len
    | Bad => Bad
    end.

  Lemma ts_of_vmap (a : amap D P) t : ts_of (vmap f a) t = vmap f (ts_of a t).
  Proof. apply (filter_key_vmap f (fun k => eqb (fst k) t)). Qed.
  Lemma drop_ts_vmap (a : amap D P) t : drop_ts (vmap f a) t = vmap f (drop_ts a t).
  Proof. apply (filter_key_vmap f (fun k => negb (eqb (fst k) t))). Qed.

  Lemma fold_insA_vmap t (l : list (D * P)) : forall (b : amap D P),
    fold_left (fun acc e => insert (t, fst e) (snd e) acc) (map (fun e => (fst e, f (snd e))) l) (vmap f b) =
    vmap f (fold_left (fun acc e => insert (t, fst e) (snd e) acc) l b).
  Proof.
    induction l as [|e l IH]; intros b; cbn; [reflexivity|]. rewrite insert_vmap. apply IH.
  Qed.

  Lemma s_step_vmap (a : amap D P) o : snd (s_step (vmap f a) (mop_map o)) = vmap f (snd (s_step a o)).
  Proof.
    destruct o as [t d p|t l|t d|t|t|t d|t d|t| | |]; cbn [mop_map s_step snd]; try reflexivity.
    - apply insert_vmap.
    - rewrite drop_ts_vmap. apply fold_insA_vmap.
    - rewrite mem_vmap. destruct (mem (t, d) a); cbn; [apply remove_vmap | reflexivity].
    - rewrite ts_of_vmap, is_nil_vmap. destruct (is_nil (ts_of a t)); cbn; [reflexivity | apply drop_ts_vmap].
  Qed.

  Lemma s_run_vmap ops : forall (a : amap D P),
    snd (s_run (vmap f a) (map mop_map ops)) = vmap f (snd (s_run a ops)).
  Proof.
    induction ops as [|o ops IH]; intros a; cbn [map s_run]; [reflexivity|].
    pose proof (s_step_vmap a o) as E.
    destruct (s_step (vmap f a) (mop_map o)) as [r1 a1], (s_step a o) as [r2 a2]. cbn [snd] in E. subst a1.
    specialize (IH a2). destruct (s_run (vmap f a2) (map mop_map ops)) as [rs1 b1], (s_run a2 ops) as [rs2 b2].
    cbn [snd] in *. exact IH.
  Qed.

  (* the two membership answers of the concrete machine *)
  Definition has_pair {X} (x : nested D X) (t : Z) (d : D) : bool := opt_true (lookup2 t d x).
  Definition has_ts {X} (x : nested D X) (t : Z) : bool := mem t x.

  Lemma has_pair_spec {X} (x : nested D X) a t d : Rel x a -> has_pair x t d = mem (t, d) a.
  Proof. intros [_ [_ Rxa]]. unfold has_pair. rewrite Rxa. reflexivity. Qed.

  Theorem rec_membership_ignores_payload (ops : list (mop D P)) t d :
    has_pair (snd (m_run [] (map mop_map ops))) t d = has_pair (snd (m_run [] ops)) t d /\
    has_ts (snd (m_run [] (map mop_map ops))) t = has_ts (snd (m_run [] ops)) t.
  Proof.
    pose proof (reachable_Rel ops) as R1. pose proof (reachable_Rel (map mop_map ops)) as R2.
    change (@nil (Z * D * Q)) with (vmap f (@nil (Z * D * P))) in R2. rewrite s_run_vmap in R2. split.
    - rewrite (has_pair_spec _ _ t d R1), (has_pair_spec _ _ t d R2). apply mem_vmap.
    - unfold has_ts. rewrite (has_ts_eq _ _ t R1), (has_ts_eq _ _ t R2), ts_of_vmap, is_nil_vmap. reflexivity.
  Qed.
End RelabelRec.
