(* Proofs/PRigs.v — lemmas about Model/MRigs.v (property C06).

   PLAN.  All lemmas about the job-list iterations are proved once, for an arbitrary pose type P with an
   equivalence ==, a validity predicate (for MPose: non-zero quaternion) and operations comp / inv that
   satisfy the laws of a group on valid poses (Section Algebra).  The section is closed and instantiated
   at the bottom with MPose.pose / compose2 / inverse, whose laws are C05's theorems (Proofs/PPose.v).

   rigs_remove
     job_effect          what one job does to every (timestamp, device) entry
     jobs_provenance     after one iteration an entry is either untouched or written by the job of its rig
     remove_no_rig_left  depth_le R n, n <= fuel  ->  no rig id is posed afterwards   (induction on fuel with the
                         invariant "a rig still posed after j iterations has j rigs above it")
     remove_chain        the pose of a leaf below a posed rig (induction on the path, invariant local to the path)
     remove_untouched / remove_only_from_above / remove_total (no KeyError) / remove_no_runtime_error
     remove_agrees       consistency with a world-pose assignment is preserved
   rigs_recover
     recover_agrees      consistency is preserved (this is where inv g o (g o w) == w is used)
     recover_reaches_root / recover_no_member_left / recover_master_top                      (key sets)
   fuel_needed           vm_compute witness in Props/C06.v *)
From Coq Require Import List Bool String ZArith Lia Setoid Morphisms.
From KV Require Import Eqb AL Str.
From KV.Model Require Import MQV MPose MRigs.
Import ListNotations.
Local Open Scope list_scope.

(* ------------------------------------------------------------------ association lists, two levels *)
Section TwoLemmas.
  Context {K1 K2 V : Type} `{EqDec K1} `{EqDec K2}.
  Implicit Types m : map2 K1 K2 V.

  Lemma lookup_Some_In {K W} `{EqDec K} (k : K) (v : W) (l : al K W) : lookup k l = Some v -> In (k, v) l.
  Proof.
    induction l as [|[k' v'] l IH]; cbn; [discriminate|].
    destruct (eqb_spec k k') as [->|N]; [intros [= ->]; auto | auto].
  Qed.

  Lemma lookup2_set2 a b v m a' b' :
    lookup2 a' b' (set2 a b v m) = if eqb a' a && eqb b' b then Some v else lookup2 a' b' m.
  Proof.
    unfold lookup2, set2. destruct (lookup a m) as [i|] eqn:E; rewrite lookup_insert;
      destruct (eqb_spec a' a) as [->|N]; cbn [andb]; try reflexivity.
    - rewrite lookup_insert, E. destruct (eqb b' b); reflexivity.
    - rewrite E. cbn. destruct (eqb b' b); reflexivity.
  Qed.

  Lemma lookup_set2 a b v m a' :
    lookup a' (set2 a b v m) <> None <-> a' = a \/ lookup a' m <> None.
  Proof.
    unfold set2. destruct (lookup a m) as [i|] eqn:E; rewrite lookup_insert;
      destruct (eqb_spec a' a) as [->|N]; split; intros; auto; try discriminate.
    - destruct H1; [congruence|assumption].
    - destruct H1; [congruence|assumption].
  Qed.

  Definition wf2' (m : map2 K1 K2 V) : Prop := wf m /\ forall a i, lookup a m = Some i -> wf i.

  Lemma wf2_insert a i m : wf2' m -> wf i -> wf2' (insert a i m).
  Proof.
    intros [W1 W2] Wi; split; [apply wf_insert; assumption|].
    intros a' i'. rewrite lookup_insert. destruct (eqb_spec a' a) as [->|N]; [intros [= <-]; assumption | apply W2].
  Qed.

  Lemma wf2_set2 a b v m : wf2' m -> wf2' (set2 a b v m).
  Proof.
    intros W. unfold set2. destruct (lookup a m) as [i|] eqn:E.
    - apply wf2_insert; [assumption|]. apply wf_insert. destruct W as [_ W2]; eapply W2; eassumption.
    - apply wf2_insert; [assumption|]. unfold wf; cbn. constructor; [tauto | constructor].
  Qed.

  Lemma flat2_In a b v m : In (a, b, v) (flat2 m) <-> exists i, In (a, i) m /\ In (b, v) i.
  Proof.
    unfold flat2. rewrite in_flat_map. split.
    - intros [[a' i] [I1 I2]]. cbn in I2. apply in_map_iff in I2. destruct I2 as [[b' v'] [E I2]].
      cbn in E. inversion E; subst. exists i; auto.
    - intros [i [I1 I2]]. exists (a, i). split; [assumption|]. cbn. apply in_map_iff. exists (b, v); auto.
  Qed.

  Lemma flat2_lookup2 a b v m : wf2' m -> (In (a, b, v) (flat2 m) <-> lookup2 a b m = Some v).
  Proof.
    intros [W1 W2]. rewrite flat2_In. unfold lookup2. split.
    - intros [i [I1 I2]]. apply (lookup_In a i m W1) in I1. rewrite I1. apply lookup_In; [eapply W2; eassumption | assumption].
    - destruct (lookup a m) as [i|] eqn:E; [|discriminate]. intros L. exists i. split; apply lookup_Some_In; assumption.
  Qed.

  (* the (key1, key2) pairs of the flattened map are pairwise distinct *)
  Definition key12 (x : K1 * K2 * V) : K1 * K2 := (fst (fst x), snd (fst x)).

  Lemma NoDup_app_intro {A} (l1 l2 : list A) :
    NoDup l1 -> NoDup l2 -> (forall x, In x l1 -> ~ In x l2) -> NoDup (l1 ++ l2).
  Proof.
    induction l1 as [|x l1 IH]; cbn; intros N1 N2 D; [assumption|].
    inversion N1; subst. constructor.
    - rewrite in_app_iff. intros [I|I]; [contradiction | apply (D x); auto].
    - apply IH; auto.
  Qed.

  Lemma wf2_tail a i m : wf2' ((a, i) :: m) -> wf i /\ wf2' m /\ ~ In a (keys m).
  Proof.
    intros [W1 W2]. unfold wf in W1; cbn in W1. inversion W1 as [|? ? NI W1']; subst.
    split; [apply (W2 a); cbn; rewrite eqb_refl; reflexivity|]. split; [|assumption].
    split; [assumption|]. intros a' i' L. apply (W2 a'). cbn. destruct (eqb_spec a' a) as [->|N]; [|assumption].
    exfalso; apply NI. apply lookup_In_keys. congruence.
  Qed.

  Lemma flat2_NoDup m : wf2' m -> NoDup (map key12 (flat2 m)).
  Proof.
    induction m as [|[a i] m IH]; intros W; cbn; [constructor|].
    apply wf2_tail in W. destruct W as (Wi & Wm & NI).
    rewrite map_app, map_map. apply NoDup_app_intro.
    - unfold key12; cbn [fst snd]. unfold wf, keys in Wi. clear - Wi.
      induction i as [|[b v] i IHi]; cbn; [constructor|].
      cbn in Wi. inversion Wi as [|? ? N W']; subst. constructor; [|auto].
      intros I. apply in_map_iff in I. destruct I as [[b' v'] [E I]]. cbn in E. inversion E; subst.
      apply N. apply in_map_iff. exists (b, v'); auto.
    - apply IH; assumption.
    - intros x I1 I2. apply in_map_iff in I1. destruct I1 as [[b v] [E _]]. unfold key12 in E; cbn in E. subst x.
      apply in_map_iff in I2. destruct I2 as [[[a' b'] v'] [E I2]]. unfold key12 in E; cbn in E. inversion E; subst.
      apply flat2_In in I2. destruct I2 as [i' [I2 _]]. apply NI. unfold keys. apply in_map_iff. exists (a, i'); auto.
  Qed.
End TwoLemmas.

Lemma ins_by_In {K V} (leb : K -> K -> bool) (x y : K * V) l : In x (ins_by leb y l) <-> x = y \/ In x l.
Proof.
  induction l as [|z l IH]; cbn; [intuition congruence|].
  destruct (leb (fst y) (fst z)); cbn; [intuition congruence|]. rewrite IH. intuition congruence.
Qed.

Lemma sort_by_In {K V} (leb : K -> K -> bool) (x : K * V) l : In x (sort_by leb l) <-> In x l.
Proof.
  induction l as [|y l IH]; cbn; [tauto|]. rewrite ins_by_In, IH. intuition congruence.
Qed.

Lemma ins_by_NoDup {K V} (leb : K -> K -> bool) (y : K * V) l :
  NoDup (map fst l) -> ~ In (fst y) (map fst l) -> NoDup (map fst (ins_by leb y l)).
Proof.
  induction l as [|z l IH]; cbn; intros N NI; [constructor; [tauto|constructor]|].
  destruct (leb (fst y) (fst z)); cbn; [constructor; assumption|].
  inversion N as [|? ? NZ N']; subst. constructor.
  - intros I. apply in_map_iff in I. destruct I as [u [E I]]. apply ins_by_In in I. destruct I as [->|I].
    + apply NI; auto.
    + apply NZ. rewrite <- E. apply in_map; assumption.
  - apply IH; [assumption | tauto].
Qed.

Lemma sort_by_NoDup {K V} (leb : K -> K -> bool) (l : list (K * V)) : NoDup (map fst l) -> NoDup (map fst (sort_by leb l)).
Proof.
  induction l as [|y l IH]; cbn; intros N; [constructor|]. inversion N as [|? ? NY N']; subst.
  apply ins_by_NoDup; [auto|].
  intros I. apply NY. apply in_map_iff in I. destruct I as [u [E I]]. apply sort_by_In in I.
  rewrite <- E. apply in_map; assumption.
Qed.

Lemma lookup_sort_by {K V} `{EqDec K} (leb : K -> K -> bool) (k : K) (l : al K V) :
  wf l -> lookup k (sort_by leb l) = lookup k l.
Proof.
  intros W. assert (W' : wf (sort_by leb l)) by (apply sort_by_NoDup; assumption).
  destruct (lookup k l) as [v|] eqn:E.
  - apply lookup_In; [assumption|]. apply sort_by_In. apply lookup_In; assumption.
  - destruct (lookup k (sort_by leb l)) as [v|] eqn:E2; [|reflexivity].
    apply lookup_In in E2; [|assumption]. apply sort_by_In in E2. apply lookup_In in E2; [congruence|assumption].
Qed.

(* ================================================================== the iterations, for any pose algebra *)
Section Algebra.
  Variable P : Type.
  Variable peq : P -> P -> Prop.
  Variable valid : P -> Prop.
  Variable comp : P -> P -> P.
  Variable inv : P -> P.
  Context {peq_equiv : Equivalence peq}.
  Context {comp_proper : Proper (peq ==> peq ==> peq) comp}.
  Context {valid_proper : Proper (peq ==> iff) valid}.
  Hypothesis comp_valid : forall a b, valid a -> valid b -> valid (comp a b).
  Hypothesis inv_valid : forall a, valid a -> valid (inv a).
  Hypothesis comp_assoc : forall a b c, valid a -> valid b -> valid c -> peq (comp (comp a b) c) (comp a (comp b c)).
  Hypothesis inv_cancel : forall a b, valid a -> valid b -> peq (comp (inv a) (comp a b)) b.
  Local Infix "==" := peq (at level 70, no associativity).

  Notation rigs := (MRigs.rigs P).
  Notation traj := (MRigs.traj P).
  Implicit Types (R : rigs) (T : traj) (t : Z) (d r s : string).
  Notation run_remove_job := (MRigs.run_remove_job P comp).
  Notation remove_iter := (MRigs.remove_iter P comp).
  Notation remove_jobs := (MRigs.remove_jobs P).

  Lemma wf2_eq {K1 K2} `{EqDec K1} `{EqDec K2} (m : map2 K1 K2 P) : wf2 m <-> wf2' m.
  Proof. reflexivity. Qed.

  (* ---------------------------------------------------------------- one job of rigs_remove *)
  Lemma fold_set_lookup t w (members : al string P) T t' d' :
    wf members ->
    lookup2 t' d' (fold_left (fun T dg => set2 t (fst dg) (comp (snd dg) w) T) members T) =
    if eqb t' t then match lookup d' members with Some g => Some (comp g w) | None => lookup2 t d' T end
    else lookup2 t' d' T.
  Proof.
    revert T; induction members as [|[d g] ms IH]; intros T W; cbn [fold_left fst snd].
    - cbn. destruct (eqb_spec t' t) as [->|N]; reflexivity.
    - unfold wf in W; cbn in W. inversion W as [|? ? NI W']; subst.
      rewrite IH by assumption. cbn [lookup]. rewrite !lookup2_set2.
      destruct (eqb_spec t' t) as [->|N]; cbn [andb].
      + rewrite eqb_refl. cbn [andb]. destruct (eqb_spec d' d) as [->|N'].
        * assert (E : lookup d ms = None) by (apply lookup_None_keys; assumption). rewrite E. reflexivity.
        * reflexivity.
      + reflexivity.
  Qed.

  Lemma fold_set_lookup1 t w (members : al string P) T t' :
    lookup t' (fold_left (fun T dg => set2 t (fst dg) (comp (snd dg) w) T) members T) <> None <->
    (t' = t /\ members <> []) \/ lookup t' T <> None.
  Proof.
    revert T; induction members as [|[d g] ms IH]; intros T; cbn [fold_left fst snd].
    - split; [auto | intros [[_ C]|]; [congruence | assumption]].
    - rewrite IH, lookup_set2. split.
      + intros [[-> _]|[->|L]]; [left | left | right]; try split; auto; discriminate.
      + intros [[-> _]|L]; [right; left; reflexivity | right; right; assumption].
  Qed.

  Lemma job_effect R t r w T T' t' d' :
    wf2 R -> run_remove_job R (t, r, w) T = Some T' ->
    lookup2 t' d' T' =
    if eqb t' t then
      if eqb d' r then None
      else match lookup2 r d' R with Some g => Some (comp g w) | None => lookup2 t d' T end
    else lookup2 t' d' T.
  Proof.
    intros [_ WR]. unfold MRigs.run_remove_job. destruct (lookup r R) as [members|] eqn:ER; [|discriminate].
    match goal with |- context [fold_left ?f members T] => set (T1 := fold_left f members T) end.
    destruct (lookup t T1) as [m|] eqn:ET; [|discriminate]. destruct (mem r m); [|discriminate].
    intros [= <-]. unfold lookup2 at 1. rewrite lookup_insert.
    destruct (eqb_spec t' t) as [->|N].
    - rewrite lookup_remove. destruct (eqb_spec d' r) as [->|N']; [reflexivity|].
      assert (E : lookup d' m = lookup2 t d' T1) by (unfold lookup2; rewrite ET; reflexivity).
      rewrite E. unfold T1. rewrite fold_set_lookup by (eapply WR; eassumption). rewrite eqb_refl.
      unfold lookup2 at 2. rewrite ER. reflexivity.
    - fold (lookup2 t' d' T1). unfold T1. rewrite fold_set_lookup by (eapply WR; eassumption).
      apply neq_eqb in N. rewrite N. reflexivity.
  Qed.


  (* job j writes or deletes the entry (t, d) *)
  Definition touches R (j : Z * string * P) t d : Prop :=
    fst (fst j) = t /\ (d = snd (fst j) \/ lookup2 (snd (fst j)) d R <> None).

  Lemma job_untouched R j T T' t d :
    wf2 R -> run_remove_job R j T = Some T' -> ~ touches R j t d -> lookup2 t d T' = lookup2 t d T.
  Proof.
    destruct j as [[t0 r0] w0]. intros WR E NT. rewrite (job_effect _ _ _ _ _ _ t d WR E).
    unfold touches in NT; cbn in NT.
    destruct (eqb_spec t t0) as [->|N]; [|reflexivity].
    destruct (eqb_spec d r0) as [->|N']; [exfalso; apply NT; auto|].
    destruct (lookup2 r0 d R) eqn:L; [exfalso; apply NT; split; [reflexivity|right; congruence] | reflexivity].
  Qed.

  Notation run_jobs := (MRigs.run_jobs P).

  (* after the jobs of one iteration, an entry is either an untouched old entry or was written by the job of
     a rig that carries the device *)
  Lemma jobs_provenance R js : wf2 R -> forall T T' t d p,
    run_jobs (run_remove_job R) js T = Some T' -> lookup2 t d T' = Some p ->
    (lookup2 t d T = Some p /\ forall j, In j js -> ~ touches R j t d) \/
    (exists r w g, In (t, r, w) js /\ lookup2 r d R = Some g /\ p = comp g w).
  Proof.
    intros WR. induction js as [|j js IH]; intros T T' t d p; cbn.
    - intros [= <-] L. left; split; [assumption | tauto].
    - destruct (run_remove_job R j T) as [T1|] eqn:E1; [|discriminate]. intros E L.
      destruct (IH _ _ _ _ _ E L) as [[L1 NT]|(r & w & g & I & Lg & ->)].
      + destruct j as [[t0 r0] w0]. pose proof (job_effect _ _ _ _ _ _ t d WR E1) as JE. rewrite L1 in JE.
        destruct (eqb_spec t t0) as [->|N].
        * destruct (eqb_spec d r0) as [->|N']; [discriminate|].
          destruct (lookup2 r0 d R) as [g|] eqn:Lg.
          -- right. exists r0, w0, g. split; [left; reflexivity|]. split; [assumption | congruence].
          -- left. split; [congruence|]. intros j [<-|I]; [|apply NT; assumption].
             unfold touches; cbn. intros [_ [C|C]]; congruence.
        * left. split; [congruence|]. intros j [<-|I]; [|apply NT; assumption].
          unfold touches; cbn. intros [C _]; congruence.
      + right. exists r, w, g. auto.
  Qed.

  Lemma jobs_untouched R js : wf2 R -> forall T T' t d,
    run_jobs (run_remove_job R) js T = Some T' -> (forall j, In j js -> ~ touches R j t d) ->
    lookup2 t d T' = lookup2 t d T.
  Proof.
    intros WR. induction js as [|j js IH]; intros T T' t d; cbn.
    - intros [= <-] _; reflexivity.
    - destruct (run_remove_job R j T) as [T1|] eqn:E1; [|discriminate]. intros E NT.
      rewrite (IH _ _ _ _ E) by (intros; apply NT; auto).
      apply (job_untouched _ _ _ _ _ _ WR E1). apply NT; auto.
  Qed.

  (* the entry written by the only job that touches it *)
  Lemma jobs_set R js : wf2 R -> forall T T' t d r w g,
    run_jobs (run_remove_job R) js T = Some T' ->
    lookup2 t d T = Some (comp g w) \/ In (t, r, w) js ->
    lookup2 r d R = Some g -> d <> r ->
    (forall j, In j js -> touches R j t d -> j = (t, r, w)) ->
    lookup2 t d T' = Some (comp g w).
  Proof.
    intros WR. induction js as [|j js IH]; intros T T' t d r w g; cbn.
    - intros [= <-] [L|[]] _ _ _; assumption.
    - destruct (run_remove_job R j T) as [T1|] eqn:E1; [|discriminate]. intros E D Lg ND U.
      apply (IH T1 T' t d r w g E); auto.
      destruct j as [[t0 r0] w0]. pose proof (job_effect _ _ _ _ _ _ t d WR E1) as JE.
      assert (TJ : touches R (t0, r0, w0) t d -> (t0, r0, w0) = (t, r, w)) by (apply U; auto).
      destruct (eqb_spec t t0) as [->|N].
      + destruct (eqb_spec d r0) as [->|N'].
        * assert (X : (t0, r0, w0) = (t0, r, w)) by (apply TJ; split; cbn; auto). inversion X; congruence.
        * destruct (lookup2 r0 d R) as [g0|] eqn:L0.
          -- assert (X : (t0, r0, w0) = (t0, r, w)) by (apply TJ; split; cbn; [reflexivity|right; congruence]).
             inversion X; subst. left. rewrite JE. congruence.
          -- destruct D as [L|[X|I]]; [left; congruence | | right; assumption].
             inversion X; subst. congruence.
      + destruct D as [L|[X|I]]; [left; congruence | | right; assumption]. inversion X; congruence.
  Qed.

  (* ---------------------------------------------------------------- job lists, well-formedness *)
  Lemma remove_jobs_In R T t r w : wf2 T ->
    (In (t, r, w) (remove_jobs R T) <-> lookup2 t r T = Some w /\ is_rig R r = true).
  Proof.
    intros W. unfold MRigs.remove_jobs. rewrite filter_In. cbn [fst snd].
    rewrite (flat2_lookup2 _ _ _ _ W). tauto.
  Qed.

  Lemma is_rig_lookup R r : is_rig R r = true <-> lookup r R <> None.
  Proof. unfold is_rig, mem. destruct (lookup r R); split; congruence. Qed.

  Lemma member_is_rig R r d g : member R r d g -> is_rig R r = true.
  Proof. unfold member, lookup2. intros L. apply is_rig_lookup. destruct (lookup r R); congruence. Qed.

  Lemma fold_set_wf2 t w (members : al string P) T :
    wf2 T -> wf2 (fold_left (fun T dg => set2 t (fst dg) (comp (snd dg) w) T) members T).
  Proof.
    revert T; induction members as [|[d g] ms IH]; intros T W; cbn [fold_left]; [assumption|].
    apply IH. apply wf2_set2. assumption.
  Qed.

  Lemma job_wf2 R j T T' : wf2 T -> run_remove_job R j T = Some T' -> wf2 T'.
  Proof.
    destruct j as [[t r] w]. intros W. unfold MRigs.run_remove_job.
    destruct (lookup r R) as [members|]; [|discriminate].
    match goal with |- context [fold_left ?f members T] => set (T1 := fold_left f members T) end.
    assert (W1 : wf2 T1) by (apply fold_set_wf2; assumption).
    destruct (lookup t T1) as [m|] eqn:ET; [|discriminate]. destruct (mem r m); [|discriminate].
    intros [= <-]. apply wf2_insert; [assumption|]. apply wf_remove. destruct W1 as [_ W1]. eapply W1; eassumption.
  Qed.

  Lemma jobs_wf2 R js : forall T T', wf2 T -> run_jobs (run_remove_job R) js T = Some T' -> wf2 T'.
  Proof.
    induction js as [|j js IH]; intros T T' W; cbn; [intros [= <-]; assumption|].
    destruct (run_remove_job R j T) as [T1|] eqn:E1; [|discriminate]. intros E.
    eapply IH; [|eassumption]. eapply job_wf2; eassumption.
  Qed.

  Lemma posed_iff T t d : posed T t d <-> exists p, lookup2 t d T = Some p.
  Proof. unfold posed. destruct (lookup2 t d T) as [p|]; split; [eauto | discriminate | congruence | intros [p C]; discriminate]. Qed.

  (* ---------------------------------------------------------------- (i) no rig identifier remains *)
  Definition above R (j : nat) T : Prop :=
    forall t d, posed T t d -> is_rig R d = true -> exists l top, path_up R d l top /\ (j <= List.length l)%nat.

  Lemma above_0 R T : above R 0 T.
  Proof. intros t d _ _. exists [], d. split; [constructor | cbn; lia]. Qed.

  Lemma step_above R j T T' :
    wf2 R -> wf2 T -> above R j T ->
    run_jobs (run_remove_job R) (remove_jobs R T) T = Some T' -> above R (S j) T'.
  Proof.
    intros WR WT A E t d Pd Rd. apply posed_iff in Pd. destruct Pd as [p L].
    destruct (jobs_provenance R _ WR _ _ _ _ _ E L) as [[L0 NT]|(r & w & g & I & Lg & _)].
    - exfalso. apply (NT (t, d, p)); [apply remove_jobs_In; auto|]. split; cbn; auto.
    - apply remove_jobs_In in I; [|assumption]. destruct I as [Lr Rr].
      destruct (A t r) as (l & top & PU & Len); [apply posed_iff; eauto | assumption|].
      exists ((r, g) :: l), top. split; [econstructor; eassumption | cbn; lia].
  Qed.

  Lemma remove_no_rig_left_gen R n : wf2 R -> depth_le R n -> forall fuel j T T',
    wf2 T -> above R j T -> (n <= j + fuel)%nat -> remove_iter fuel R T = Some T' ->
    forall t d, is_rig R d = true -> lookup2 t d T' = None.
  Proof.
    intros WR DL. induction fuel as [|fuel IH]; intros j T T' WT A Le; cbn [MRigs.remove_iter].
    - intros [= <-] t d Rd. destruct (lookup2 t d T) as [p|] eqn:L; [|reflexivity]. exfalso.
      destruct (A t d) as (l & top & PU & Len); [apply posed_iff; eauto | assumption|].
      specialize (DL d l top Rd PU). lia.
    - destruct (remove_jobs R T) as [|j0 js] eqn:EJ.
      + intros [= <-] t d Rd. destruct (lookup2 t d T) as [p|] eqn:L; [|reflexivity]. exfalso.
        assert (I : In (t, d, p) (remove_jobs R T)) by (apply remove_jobs_In; auto). rewrite EJ in I. exact I.
      + destruct (run_jobs (run_remove_job R) (j0 :: js) T) as [T1|] eqn:E1; [|discriminate]. intros E.
        rewrite <- EJ in E1. apply (IH (S j) T1 T'); auto.
        * eapply jobs_wf2; eassumption.
        * eapply step_above; eassumption.
        * lia.
  Qed.

  Theorem remove_no_rig_left R n fuel T T' :
    wf2 R -> wf2 T -> depth_le R n -> (n <= fuel)%nat -> remove_iter fuel R T = Some T' ->
    forall t d, is_rig R d = true -> lookup2 t d T' = None.
  Proof.
    intros WR WT DL Le E. apply (remove_no_rig_left_gen R n WR DL fuel 0%nat T T'); auto using above_0.
  Qed.

  (* ---------------------------------------------------------------- paths *)
  Lemma path_up_app R d l1 x l2 y : path_up R d l1 x -> path_up R x l2 y -> path_up R d (l1 ++ l2) y.
  Proof. induction 1; cbn; intros; [assumption | econstructor; eauto]. Qed.

  Lemma path_up_snoc R d l x top g : path_up R d l x -> member R top x g -> path_up R d (l ++ [(top, g)]) top.
  Proof. intros PU M. eapply path_up_app; [eassumption|]. econstructor; [eassumption | constructor]. Qed.

  Lemma path_up_snoc_inv R l : forall d top' g top,
    path_up R d (l ++ [(top', g)]) top -> top' = top /\ exists x, path_up R d l x /\ member R top x g.
  Proof.
    induction l as [|[r g0] l IH]; intros d top' g top PU; cbn in PU.
    - inversion PU as [|? ? ? ? ? M PU']; subst. inversion PU'; subst. split; [reflexivity|].
      exists d. split; [constructor | assumption].
    - inversion PU as [|? ? ? ? ? M PU']; subst. destruct (IH _ _ _ _ PU') as [-> (x & PX & MX)].
      split; [reflexivity|]. exists x. split; [econstructor; eassumption | assumption].
  Qed.

  Lemma anc_member R r d g : member R r d g -> anc R r d.
  Proof. intros M. exists [(r, g)]. split; [discriminate|]. econstructor; [eassumption | constructor]. Qed.

  Lemma anc_trans R a x d : anc R a x -> anc R x d -> anc R a d.
  Proof.
    intros (l1 & N1 & P1) (l2 & N2 & P2). exists (l2 ++ l1). split.
    - destruct l2; [congruence | discriminate].
    - eapply path_up_app; eassumption.
  Qed.

  Lemma anc_step R a r d g : member R r d g -> a = r \/ anc R a r -> anc R a d.
  Proof. intros M [->|A]; [eapply anc_member; eassumption | eapply anc_trans; [eassumption | eapply anc_member; eassumption]]. Qed.

  (* with one parent per device, the ancestors of x are its parent and the ancestors of the parent *)
  Lemma anc_inv R a r x g : one_parent R -> member R r x g -> anc R a x -> a = r \/ anc R a r.
  Proof.
    intros OP M (l & N & PU). inversion PU as [|? r' g' l' ? M' PU']; subst; [congruence|].
    assert (r' = r) by (eapply OP; eassumption). subst r'.
    destruct l' as [|e l']; [inversion PU'; subst; left; reflexivity|].
    right. exists (e :: l'). split; [discriminate | assumption].
  Qed.

  Definition nodes_below (d : string) (l : list (string * P)) : list string := removelast (d :: map fst l).

  Lemma nodes_below_snoc d l x : nodes_below d (l ++ [x]) = d :: map fst l.
  Proof.
    unfold nodes_below. rewrite map_app. cbn [map].
    change (d :: map fst l ++ [fst x]) with ((d :: map fst l) ++ [fst x]). apply removelast_last.
  Qed.

  Lemma In_removelast {A} (y : A) l : In y (removelast l) -> In y l.
  Proof.
    induction l as [|a l IH]; cbn; [tauto|]. destruct l as [|b l]; [tauto|].
    intros [->|I]; [auto | right; apply IH; assumption].
  Qed.

  (* every node of a path except the last has its parent on the path *)
  Lemma path_parent R d l top y :
    path_up R d l top -> In y (nodes_below d l) -> exists r g, member R r y g /\ In r (map fst l).
  Proof.
    unfold nodes_below. induction 1 as [d|d r g l top M PU IH]; [cbn; tauto|].
    cbn [map fst]. change (removelast (d :: r :: map fst l)) with (d :: removelast (r :: map fst l)).
    intros [<-|I].
    - exists r, g. split; [assumption | left; reflexivity].
    - destruct (IH I) as (r' & g' & M' & I'). exists r', g'. split; [assumption | right; assumption].
  Qed.

  (* every node of the path below the top has the top as a proper ancestor *)
  Lemma path_below_anc R d l top y : path_up R d l top -> In y (nodes_below d l) -> anc R top y.
  Proof.
    unfold nodes_below. induction 1 as [d|d r g l top M PU IH]; [cbn; tauto|].
    cbn [map fst]. change (removelast (d :: r :: map fst l)) with (d :: removelast (r :: map fst l)).
    intros [<-|I].
    - exists ((r, g) :: l). split; [discriminate | econstructor; eassumption].
    - apply IH; assumption.
  Qed.

  (* ---------------------------------------------------------------- one iteration, seen from a device *)
  Lemma step_anc_unposed R T T' t d :
    wf2 R -> wf2 T -> run_jobs (run_remove_job R) (remove_jobs R T) T = Some T' ->
    (forall a, anc R a d -> lookup2 t a T = None) -> (forall a, anc R a d -> lookup2 t a T' = None).
  Proof.
    intros WR WT E H a A. destruct (lookup2 t a T') as [p|] eqn:L; [|reflexivity]. exfalso.
    destruct (jobs_provenance R _ WR _ _ _ _ _ E L) as [[L0 _]|(r & w & g & I & Lg & _)].
    - rewrite (H a A) in L0. discriminate.
    - apply remove_jobs_In in I; [|assumption]. destruct I as [Lr _].
      assert (A' : anc R r d) by (eapply anc_trans; [eapply anc_member; eassumption | assumption]).
      rewrite (H r A') in Lr. discriminate.
  Qed.

  Lemma step_untouched R T T' t d :
    wf2 R -> wf2 T -> run_jobs (run_remove_job R) (remove_jobs R T) T = Some T' ->
    is_rig R d = false -> (forall a, anc R a d -> lookup2 t a T = None) -> lookup2 t d T' = lookup2 t d T.
  Proof.
    intros WR WT E NR H. apply (jobs_untouched R _ WR _ _ _ _ E).
    intros [[t0 r0] w0] I [Et [Ed|Ed]]; cbn in Et, Ed; subst.
    - apply remove_jobs_In in I; [|assumption]. destruct I as [_ C]. congruence.
    - apply remove_jobs_In in I; [|assumption]. destruct I as [Lr _].
      destruct (lookup2 r0 d R) as [g|] eqn:Lg; [|congruence].
      rewrite (H r0 (anc_member _ _ _ _ Lg)) in Lr. discriminate.
  Qed.

  (* (ii) the entry of a device that is not a rig, with nothing posed above it, is untouched *)
  Theorem remove_untouched R t d : wf2 R -> is_rig R d = false -> forall fuel T T',
    wf2 T -> (forall a, anc R a d -> lookup2 t a T = None) ->
    remove_iter fuel R T = Some T' -> lookup2 t d T' = lookup2 t d T.
  Proof.
    intros WR NR. induction fuel as [|fuel IH]; intros T T' WT H; cbn [MRigs.remove_iter]; [intros [= <-]; reflexivity|].
    destruct (remove_jobs R T) as [|j0 js] eqn:EJ; [intros [= <-]; reflexivity|].
    destruct (run_jobs (run_remove_job R) (j0 :: js) T) as [T1|] eqn:E1; [|discriminate]. intros E.
    rewrite <- EJ in E1. rewrite (IH T1 T'); auto.
    - eapply step_untouched; eassumption.
    - eapply jobs_wf2; eassumption.
    - eapply step_anc_unposed; eassumption.
  Qed.

  (* (iii) the pose of a device below a posed rig, when that rig is the only posed device on its root path *)
  Lemma remove_chain_gen R t : wf2 R -> one_parent R -> forall l d top T fuel w T',
    wf2 T -> path_up R d l top -> is_rig R d = false ->
    lookup2 t top T = Some w ->
    (forall y, In y (nodes_below d l) -> lookup2 t y T = None) ->
    (forall a, anc R a top -> lookup2 t a T = None) ->
    (List.length l <= fuel)%nat -> remove_iter fuel R T = Some T' ->
    lookup2 t d T' = Some (comp_path P comp l w).
  Proof.
    intros WR OP. induction l as [|[top' g] l IH] using rev_ind; intros d top T fuel w T' WT PU NR Lw Hb Ha Len E.
    - inversion PU; subst. cbn. rewrite <- Lw. eapply remove_untouched; eassumption.
    - apply path_up_snoc_inv in PU. destruct PU as [-> (x & PX & MX)].
      rewrite nodes_below_snoc in Hb. rewrite app_length in Len; cbn in Len.
      destruct fuel as [|fuel]; [lia|]. cbn [MRigs.remove_iter] in E.
      assert (Rtop : is_rig R top = true) by (eapply member_is_rig; eassumption).
      assert (Itop : In (t, top, w) (remove_jobs R T)) by (apply remove_jobs_In; auto).
      destruct (remove_jobs R T) as [|j0 js] eqn:EJ; [destruct Itop|].
      destruct (run_jobs (run_remove_job R) (j0 :: js) T) as [T1|] eqn:E1; [|discriminate].
      rewrite <- EJ in E1, Itop. clear EJ j0 js.
      assert (W1 : wf2 T1) by (eapply jobs_wf2; eassumption).
      assert (Xb : In x (d :: map fst l)).
      { clear - PX. induction PX; [left; reflexivity|]. cbn. destruct IHPX as [<-|I]; [right; left; reflexivity|right; right; assumption]. }
      assert (Xtop : x <> top).
      { intros ->. rewrite (Ha top (anc_member _ _ _ _ MX)) in Lw. discriminate. }
      (* the entry of x after this iteration *)
      assert (L1 : lookup2 t x T1 = Some (comp g w)).
      { apply (jobs_set R _ WR T T1 t x top w g E1); auto.
        intros [[t0 r0] w0] I [Et [Ed|Ed]]; cbn in Et, Ed; subst.
        - apply remove_jobs_In in I; [|assumption]. destruct I as [Lx _]. rewrite (Hb _ Xb) in Lx. discriminate.
        - apply remove_jobs_In in I; [|assumption]. destruct I as [Lr _].
          destruct (lookup2 r0 x R) as [g0|] eqn:Lg; [|congruence].
          assert (r0 = top) by (eapply OP; eassumption). subst r0. congruence. }
      unfold comp_path. rewrite map_app, fold_right_app. cbn [map snd fold_right].
      apply (IH d x T1 fuel (comp g w) T'); auto; try lia.
      + (* nodes below x stay unposed *)
        intros y Iy. destruct (lookup2 t y T1) as [p|] eqn:L; [|reflexivity]. exfalso.
        destruct (jobs_provenance R _ WR _ _ _ _ _ E1 L) as [[L0 _]|(r & w0 & g0 & I & Lg & _)].
        * rewrite (Hb y (In_removelast _ _ Iy)) in L0. discriminate.
        * apply remove_jobs_In in I; [|assumption]. destruct I as [Lr _].
          destruct (path_parent _ _ _ _ _ PX Iy) as (r' & g' & M' & I').
          assert (r' = r) by (eapply OP; eassumption). subst r'.
          rewrite (Hb r (or_intror I')) in Lr. discriminate.
      + (* ancestors of x stay unposed: top is deleted, what is above top was not posed *)
        intros a A. destruct (anc_inv _ _ _ _ _ OP MX A) as [->|A'].
        * destruct (lookup2 t top T1) as [p|] eqn:L; [|reflexivity]. exfalso.
          destruct (jobs_provenance R _ WR _ _ _ _ _ E1 L) as [[_ NT]|(r & w0 & g0 & I & Lg & _)].
          -- apply (NT _ Itop). split; cbn; auto.
          -- apply remove_jobs_In in I; [|assumption]. destruct I as [Lr _].
             rewrite (Ha r (anc_member _ _ _ _ Lg)) in Lr. discriminate.
        * exact (step_anc_unposed R T T1 t top WR WT E1 Ha a A').
  Qed.

  Theorem remove_chain R t l d top T fuel w T' :
    wf2 R -> one_parent R -> wf2 T -> path_up R d l top -> is_rig R d = false ->
    lookup2 t top T = Some w -> single_source R T ->
    (List.length l <= fuel)%nat -> remove_iter fuel R T = Some T' ->
    lookup2 t d T' = Some (comp_path P comp l w).
  Proof.
    intros WR OP WT PU NR Lw SS Len E.
    assert (Ptop : posed T t top) by (unfold posed; congruence).
    apply (remove_chain_gen R t WR OP l d top T fuel w T'); auto.
    - intros y Iy. destruct (lookup2 t y T) eqn:L; [|reflexivity]. exfalso.
      apply (SS t top y); [eapply path_below_anc; eassumption | assumption | unfold posed; congruence].
    - intros a A. destruct (lookup2 t a T) eqn:L; [|reflexivity]. exfalso.
      apply (SS t a top); [assumption | unfold posed; congruence | assumption].
  Qed.

  (* (iv) nothing appears from nowhere: a posed device afterwards was posed before or lies below a posed device *)
  Lemma step_from_above R T T' t d :
    wf2 R -> wf2 T -> run_jobs (run_remove_job R) (remove_jobs R T) T = Some T' ->
    posed T' t d -> posed T t d \/ exists r g, member R r d g /\ posed T t r.
  Proof.
    intros WR WT E Pd. apply posed_iff in Pd. destruct Pd as [p L].
    destruct (jobs_provenance R _ WR _ _ _ _ _ E L) as [[L0 _]|(r & w & g & I & Lg & _)].
    - left. apply posed_iff; eauto.
    - right. apply remove_jobs_In in I; [|assumption]. destruct I as [Lr _].
      exists r, g. split; [assumption | apply posed_iff; eauto].
  Qed.

  Theorem remove_only_from_above R : wf2 R -> forall fuel T T', wf2 T -> remove_iter fuel R T = Some T' ->
    forall t d, posed T' t d -> posed T t d \/ exists a, anc R a d /\ posed T t a.
  Proof.
    intros WR. induction fuel as [|fuel IH]; intros T T' WT; cbn [MRigs.remove_iter]; [intros [= <-]; auto|].
    destruct (remove_jobs R T) as [|j0 js] eqn:EJ; [intros [= <-]; auto|].
    destruct (run_jobs (run_remove_job R) (j0 :: js) T) as [T1|] eqn:E1; [|discriminate]. intros E t d Pd.
    rewrite <- EJ in E1. assert (W1 : wf2 T1) by (eapply jobs_wf2; eassumption).
    destruct (IH T1 T' W1 E t d Pd) as [P1|(a & A & P1)].
    - destruct (step_from_above R T T1 t d WR WT E1 P1) as [P0|(r & g & M & P0)]; [auto|].
      right. exists r. split; [eapply anc_member; eassumption | assumption].
    - destruct (step_from_above R T T1 t a WR WT E1 P1) as [P0|(r & g & M & P0)]; [right; eauto|].
      right. exists r. split; [eapply anc_trans; [eapply anc_member; eassumption | assumption] | assumption].
  Qed.

  (* ---------------------------------------------------------------- no KeyError on real dicts *)
  Lemma job_defined R t r w T :
    wf2 R -> is_rig R r = true -> posed T t r -> exists T', run_remove_job R (t, r, w) T = Some T'.
  Proof.
    intros WR Rr Pr. unfold MRigs.run_remove_job. apply is_rig_lookup in Rr.
    destruct (lookup r R) as [members|] eqn:ER; [|congruence].
    match goal with |- context [fold_left ?f members T] => set (T1 := fold_left f members T) end.
    assert (L : lookup2 t r T1 <> None).
    { unfold T1. rewrite fold_set_lookup by (destruct WR as [_ WR]; eapply WR; eassumption). rewrite eqb_refl.
      destruct (lookup r members); [discriminate | exact Pr]. }
    unfold lookup2 in L. destruct (lookup t T1) as [m|]; [|congruence].
    unfold mem. destruct (lookup r m); [eauto | congruence].
  Qed.

  Lemma run_jobs_defined R : wf2 R -> forall js T,
    NoDup (map key12 js) -> (forall t r w, In (t, r, w) js -> is_rig R r = true /\ posed T t r) ->
    exists T', run_jobs (run_remove_job R) js T = Some T'.
  Proof.
    intros WR. induction js as [|[[t0 r0] w0] js IH]; intros T ND H; cbn [MRigs.run_jobs]; [eauto|].
    destruct (H t0 r0 w0 (or_introl eq_refl)) as [R0 P0].
    destruct (job_defined R t0 r0 w0 T WR R0 P0) as [T1 E1]. rewrite E1.
    cbn in ND. inversion ND as [|? ? NI ND']; subst. apply IH; [assumption|].
    intros t r w I. destruct (H t r w (or_intror I)) as [Rr Pr]. split; [assumption|].
    unfold posed. rewrite (job_effect _ _ _ _ _ _ t r WR E1).
    destruct (eqb_spec t t0) as [->|N]; [|exact Pr].
    destruct (eqb_spec r r0) as [->|N'].
    - exfalso. apply NI. apply in_map_iff. exists (t0, r0, w). split; [reflexivity | assumption].
    - destruct (lookup2 r0 r R); [discriminate | exact Pr].
  Qed.

  Lemma NoDup_map_filter {A B} (f : A -> B) (g : A -> bool) l : NoDup (map f l) -> NoDup (map f (List.filter g l)).
  Proof.
    induction l as [|x l IH]; cbn; intros N; [constructor|]. inversion N as [|? ? NI N']; subst.
    destruct (g x); cbn; [constructor|]; auto.
    intros I. apply NI. apply in_map_iff in I. destruct I as [y [E I]]. apply filter_In in I.
    apply in_map_iff. exists y. tauto.
  Qed.

  Theorem remove_total R : wf2 R -> forall fuel T, wf2 T -> exists T', remove_iter fuel R T = Some T'.
  Proof.
    intros WR. induction fuel as [|fuel IH]; intros T WT; cbn [MRigs.remove_iter]; [eauto|].
    destruct (remove_jobs R T) as [|j0 js] eqn:EJ; [eauto|]. rewrite <- EJ.
    destruct (run_jobs_defined R WR (remove_jobs R T) T) as [T1 E1].
    - unfold MRigs.remove_jobs. apply NoDup_map_filter. apply flat2_NoDup. assumption.
    - intros t r w I. apply remove_jobs_In in I; [|assumption]. destruct I as [L Rr].
      split; [assumption | unfold posed; congruence].
    - rewrite E1. apply IH. eapply jobs_wf2; eassumption.
  Qed.

  (* ---------------------------------------------------------------- the final clean-up loop never fires *)
  Lemma depth_no_self R n : depth_le R n -> forall r g, ~ member R r r g.
  Proof.
    intros DL r g M.
    assert (A : forall k, path_up R r (repeat (r, g) k) r).
    { induction k; cbn; [constructor | econstructor; eassumption]. }
    specialize (DL r _ r (member_is_rig _ _ _ _ M) (A n)). rewrite repeat_length in DL. lia.
  Qed.

  Lemma first_empty_None T : wf T -> no_empty_timestamp T -> MRigs.first_empty P T = None.
  Proof.
    induction T as [|[t m] T IH]; intros W NE; cbn; [reflexivity|].
    unfold wf in W; cbn in W. inversion W as [|? ? NI W']; subst.
    assert (m <> []) by (apply (NE t); cbn; rewrite eqb_refl; reflexivity).
    destruct m; [congruence|]. cbn. apply IH; [assumption|].
    intros t' m' L. apply (NE t'). cbn. destruct (eqb_spec t' t) as [->|N]; [|assumption].
    exfalso. apply NI. apply lookup_In_keys. congruence.
  Qed.

  Lemma set2_no_empty t d p T : no_empty_timestamp T -> no_empty_timestamp (set2 t d p T).
  Proof.
    intros NE t' m'. unfold set2. destruct (lookup t T) as [m|] eqn:E; rewrite lookup_insert;
      destruct (eqb_spec t' t) as [->|N]; try apply NE.
    - intros [= <-]. destruct m as [|[k v] m]; cbn; [discriminate|]. destruct (eqb d k); discriminate.
    - intros [= <-]. discriminate.
  Qed.

  Lemma job_no_empty R t r w T T' :
    wf2 R -> rigs_nonempty R -> (forall r g, ~ member R r r g) ->
    no_empty_timestamp T -> run_remove_job R (t, r, w) T = Some T' -> no_empty_timestamp T'.
  Proof.
    intros WR RN NS NE E. pose proof (job_effect R t r w T T') as JE. revert E. unfold MRigs.run_remove_job.
    destruct (lookup r R) as [members|] eqn:ER; [|discriminate].
    match goal with |- context [fold_left ?f members T] => set (T1 := fold_left f members T) end.
    assert (NE1 : no_empty_timestamp T1).
    { unfold T1. clear - NE. revert T NE. induction members as [|[d g] ms IH]; intros T NE; cbn [fold_left]; [assumption|].
      apply IH. apply set2_no_empty. assumption. }
    destruct (lookup t T1) as [m|] eqn:ET; [|discriminate]. destruct (mem r m) eqn:EM; [|discriminate].
    intros [= <-] t' m'. rewrite lookup_insert. destruct (eqb_spec t' t) as [->|N]; [|apply NE1].
    intros [= <-].
    (* a member different from the rig itself has just been written *)
    destruct members as [|[d0 g0] ms] eqn:EMS; [exfalso; eapply RN; eauto|].
    assert (M0 : member R r d0 g0) by (unfold member, lookup2; rewrite ER; cbn; rewrite eqb_refl; reflexivity).
    assert (D0 : d0 <> r) by (intros ->; eapply NS; eassumption).
    assert (L : lookup d0 (AL.remove r m) <> None).
    { rewrite lookup_remove_neq by assumption.
      assert (L1 : lookup2 t d0 T1 <> None).
      { unfold T1. rewrite fold_set_lookup by (destruct WR as [_ WR]; eapply WR; eassumption).
        rewrite eqb_refl. cbn. rewrite eqb_refl. discriminate. }
      unfold lookup2 in L1. rewrite ET in L1. exact L1. }
    intros C. rewrite C in L. cbn in L. congruence.
  Qed.

  Lemma jobs_no_empty R js : wf2 R -> rigs_nonempty R -> (forall r g, ~ member R r r g) -> forall T T',
    no_empty_timestamp T -> run_jobs (run_remove_job R) js T = Some T' -> no_empty_timestamp T'.
  Proof.
    intros WR RN NS. induction js as [|j js IH]; intros T T' NE; cbn [MRigs.run_jobs]; [intros [= <-]; assumption|].
    destruct (run_remove_job R j T) as [T1|] eqn:E1; [|discriminate]. intros E.
    eapply IH; [|eassumption]. destruct j as [[t r] w]. eapply job_no_empty; eassumption.
  Qed.

  Theorem remove_no_empty R : wf2 R -> rigs_nonempty R -> (forall r g, ~ member R r r g) -> forall fuel T T',
    no_empty_timestamp T -> remove_iter fuel R T = Some T' -> no_empty_timestamp T'.
  Proof.
    intros WR RN NS. induction fuel as [|fuel IH]; intros T T' NE; cbn [MRigs.remove_iter]; [intros [= <-]; assumption|].
    destruct (remove_jobs R T) as [|j0 js] eqn:EJ; [intros [= <-]; assumption|].
    destruct (run_jobs (run_remove_job R) (j0 :: js) T) as [T1|] eqn:E1; [|discriminate]. intros E.
    eapply IH; [|eassumption]. eapply jobs_no_empty; eassumption.
  Qed.

  Lemma remove_iter_wf2 R : forall fuel T T', wf2 T -> remove_iter fuel R T = Some T' -> wf2 T'.
  Proof.
    induction fuel as [|fuel IH]; intros T T' WT; cbn [MRigs.remove_iter]; [intros [= <-]; assumption|].
    destruct (remove_jobs R T) as [|j0 js] eqn:EJ; [intros [= <-]; assumption|].
    destruct (run_jobs (run_remove_job R) (j0 :: js) T) as [T1|] eqn:E1; [|discriminate]. intros E.
    eapply IH; [|eassumption]. eapply jobs_wf2; eassumption.
  Qed.

  (* ---------------------------------------------------------------- consistency with a world-pose assignment
     [world t d] = the pose world -> d at timestamp t.  It respects the rig geometry when
     world t d == rigs[r][d] o world t r for every mounted device; a trajectories agrees with it when every
     entry is the world pose of its device.  Both rigs_remove and rigs_recover keep such an agreement: this is
     the precise sense in which they "never move a sensor". *)
  Definition geom R (world : Z -> string -> P) : Prop :=
    forall t r d g, member R r d g -> world t d == comp g (world t r).
  Definition agrees (world : Z -> string -> P) T : Prop :=
    forall t d p, lookup2 t d T = Some p -> p == world t d.

  Lemma jobs_agree R world js : wf2 R -> geom R world -> forall T T',
    agrees world T -> (forall t r w, In (t, r, w) js -> w == world t r) ->
    run_jobs (run_remove_job R) js T = Some T' -> agrees world T'.
  Proof.
    intros WR G T T' A HJ E t d p L.
    destruct (jobs_provenance R _ WR _ _ _ _ _ E L) as [[L0 _]|(r & w & g & I & Lg & ->)].
    - apply A; assumption.
    - rewrite (HJ _ _ _ I). symmetry. apply G. assumption.
  Qed.

  Theorem remove_agrees R world : wf2 R -> geom R world -> forall fuel T T',
    wf2 T -> agrees world T -> remove_iter fuel R T = Some T' -> agrees world T'.
  Proof.
    intros WR G. induction fuel as [|fuel IH]; intros T T' WT A; cbn [MRigs.remove_iter]; [intros [= <-]; assumption|].
    destruct (remove_jobs R T) as [|j0 js] eqn:EJ; [intros [= <-]; assumption|].
    destruct (run_jobs (run_remove_job R) (j0 :: js) T) as [T1|] eqn:E1; [|discriminate]. intros E.
    rewrite <- EJ in E1. apply (IH T1 T'); [eapply jobs_wf2; eassumption | | assumption].
    apply (jobs_agree R world (remove_jobs R T) WR G T T1 A); [|assumption].
    intros t r w I. apply remove_jobs_In in I; [|assumption]. apply A. tauto.
  Qed.

  (* ================================================================ rigs_recover *)
  Notation reverse_dict := (MRigs.reverse_dict P inv).
  Notation run_recover_job := (MRigs.run_recover_job P comp).
  Notation recover_iter := (MRigs.recover_iter P comp).
  Notation recover_jobs := (MRigs.recover_jobs P).
  Implicit Types (rev : al string (string * P)) (masters : option (list string)).

  (* ---------------------------------------------------------------- the reverse dictionary *)
  Lemma rev_fold_sound (l : list (string * string * P)) : forall acc s v,
    lookup s (fold_left (fun acc rdg => insert (snd (fst rdg)) (fst (fst rdg), inv (snd rdg)) acc) l acc) = Some v ->
    lookup s acc = Some v \/ exists r g, In (r, s, g) l /\ v = (r, inv g).
  Proof.
    induction l as [|[[r0 s0] g0] l IH]; intros acc s v; cbn [fold_left fst snd]; [auto|].
    intros L. destruct (IH _ _ _ L) as [L1|(r & g & I & ->)].
    - rewrite lookup_insert in L1. destruct (eqb_spec s s0) as [->|N]; [|auto].
      inversion L1; subst. right. exists r0, g0. split; [left; reflexivity | reflexivity].
    - right. exists r, g. split; [right; assumption | reflexivity].
  Qed.

  Lemma rev_fold_complete (l : list (string * string * P)) : forall acc s,
    lookup s acc <> None \/ (exists r g, In (r, s, g) l) ->
    lookup s (fold_left (fun acc rdg => insert (snd (fst rdg)) (fst (fst rdg), inv (snd rdg)) acc) l acc) <> None.
  Proof.
    induction l as [|[[r0 s0] g0] l IH]; intros acc s; cbn [fold_left fst snd].
    - intros [L|(r & g & [])]; assumption.
    - intros D. apply IH. rewrite lookup_insert. destruct (eqb_spec s s0) as [->|N]; [left; discriminate|].
      destruct D as [L|(r & g & [E|I])]; [left; assumption | inversion E; congruence | right; eauto].
  Qed.

  Lemma rev_sound R s r gi : wf2 R -> lookup s (reverse_dict R) = Some (r, gi) -> exists g, member R r s g /\ gi = inv g.
  Proof.
    intros WR L. unfold MRigs.reverse_dict in L. apply rev_fold_sound in L. destruct L as [L|(r' & g & I & E)]; [discriminate|].
    inversion E; subst. exists g. split; [|reflexivity]. apply (flat2_lookup2 _ _ _ _ WR). assumption.
  Qed.

  Lemma rev_complete R r s g : wf2 R -> member R r s g -> mem s (reverse_dict R) = true.
  Proof.
    intros WR M. apply mem_In_keys, lookup_In_keys. unfold MRigs.reverse_dict. apply rev_fold_complete.
    right. exists r, g. apply (flat2_lookup2 _ _ _ _ WR). assumption.
  Qed.

  Lemma mem_lookup {K W} `{EqDec K} (k : K) (m : al K W) : mem k m = true <-> lookup k m <> None.
  Proof. unfold mem. destruct (lookup k m); split; congruence. Qed.

  Lemma rev_mem R s : wf2 R -> (mem s (reverse_dict R) = true <-> exists r g, member R r s g).
  Proof.
    intros WR. split.
    - intros M. apply mem_lookup in M. destruct (lookup s (reverse_dict R)) as [[r gi]|] eqn:L; [|congruence].
      destruct (rev_sound R s r gi WR L) as (g & Mg & _). eauto.
    - intros (r & g & M). eapply rev_complete; eassumption.
  Qed.

  (* ---------------------------------------------------------------- one job of rigs_recover *)
  Definition popped t s T (t' : Z) (d' : string) : option P :=
    if eqb t' t && eqb d' s then None else lookup2 t' d' T.

  Lemma rjob_effect rev masters t s T T' :
    run_recover_job rev masters (t, s) T = Some T' ->
    exists r gi p, lookup s rev = Some (r, gi) /\ lookup2 t s T = Some p /\
      (((is_master masters s = false \/ popped t s T t r <> None) /\
        forall t' d', lookup2 t' d' T' = popped t s T t' d')
       \/ (is_master masters s = true /\ popped t s T t r = None /\
           forall t' d', lookup2 t' d' T' = if eqb t' t && eqb d' r then Some (comp gi p) else popped t s T t' d')).
  Proof.
    unfold MRigs.run_recover_job. destruct (lookup s rev) as [[r gi]|] eqn:ER; [|discriminate].
    destruct (lookup t T) as [m|] eqn:ET; [|discriminate]. destruct (lookup s m) as [p|] eqn:ES; [|discriminate].
    intros E. exists r, gi, p. split; [reflexivity|]. split; [unfold lookup2; rewrite ET; assumption|].
    set (T1 := insert t (AL.remove s m) T) in *.
    assert (L1 : forall t' d', lookup2 t' d' T1 = popped t s T t' d').
    { intros t' d'. unfold popped, T1. unfold lookup2. rewrite lookup_insert. destruct (eqb_spec t' t) as [E'|N]; cbn [andb].
      - subst t'. rewrite lookup_remove, ET. destruct (eqb d' s); reflexivity.
      - reflexivity. }
    assert (MR : mem r (AL.remove s m) = true <-> popped t s T t r <> None).
    { rewrite mem_lookup. rewrite <- L1. unfold lookup2, T1. rewrite lookup_insert, eqb_refl. tauto. }
    destruct (is_master masters s) eqn:EM; cbn [negb] in E.
    - destruct (mem r (AL.remove s m)) eqn:EMR.
      + inversion E; subst T'. left. split; [right; apply MR; reflexivity | exact L1].
      + inversion E; subst T'. right. split; [reflexivity|]. split.
        * destruct (popped t s T t r) eqn:PP; [|reflexivity]. assert (C : false = true) by (apply MR; congruence). discriminate.
        * intros t' d'. rewrite lookup2_set2, L1. reflexivity.
    - inversion E; subst T'. left. split; [left; reflexivity | exact L1].
  Qed.

  Lemma rjob_provenance rev masters t s T T' t' d' q :
    run_recover_job rev masters (t, s) T = Some T' -> lookup2 t' d' T' = Some q ->
    (lookup2 t' d' T = Some q /\ (t', d') <> (t, s)) \/
    (exists r gi p, lookup s rev = Some (r, gi) /\ lookup2 t s T = Some p /\ is_master masters s = true /\
                    t' = t /\ d' = r /\ q = comp gi p).
  Proof.
    intros E L. destruct (rjob_effect _ _ _ _ _ _ E) as (r & gi & p & ER & Lp & [[_ H]|(EM & _ & H)]); rewrite H in L.
    - left. unfold popped in L. destruct (eqb_spec t' t) as [->|N]; cbn [andb] in L.
      + destruct (eqb_spec d' s) as [->|N']; [discriminate|]. split; [assumption | congruence].
      + split; [assumption | congruence].
    - destruct (eqb_spec t' t) as [->|N]; cbn [andb] in L.
      + destruct (eqb_spec d' r) as [->|N'].
        * right. exists r, gi, p. inversion L. auto 10.
        * left. unfold popped in L. rewrite eqb_refl in L. cbn [andb] in L.
          destruct (eqb_spec d' s) as [->|N'']; [discriminate|]. split; [assumption | congruence].
      + left. unfold popped in L. apply neq_eqb in N. rewrite N in L. cbn [andb] in L. split; [assumption|].
        apply eqb_false in N. congruence.
  Qed.

  Lemma rjob_posed_other rev masters t s T T' t' d' :
    run_recover_job rev masters (t, s) T = Some T' -> (t', d') <> (t, s) -> posed T t' d' -> posed T' t' d'.
  Proof.
    intros E N Pd. unfold posed in *.
    assert (PP : popped t s T t' d' = lookup2 t' d' T).
    { unfold popped. destruct (eqb_spec t' t) as [->|]; [|reflexivity]. destruct (eqb_spec d' s) as [->|]; [congruence|reflexivity]. }
    destruct (rjob_effect _ _ _ _ _ _ E) as (r & gi & p & ER & Lp & [[_ H]|(EM & _ & H)]); rewrite H.
    - rewrite PP. assumption.
    - destruct (eqb t' t && eqb d' r); [discriminate | rewrite PP; assumption].
  Qed.

  Lemma rjob_wf2 rev masters j T T' : wf2 T -> run_recover_job rev masters j T = Some T' -> wf2 T'.
  Proof.
    destruct j as [t s]. intros W. unfold MRigs.run_recover_job.
    destruct (lookup s rev) as [[r gi]|]; [|discriminate].
    destruct (lookup t T) as [m|] eqn:ET; [|discriminate]. destruct (lookup s m) as [p|]; [|discriminate].
    assert (W1 : wf2 (insert t (AL.remove s m) T)).
    { apply wf2_insert; [assumption|]. apply wf_remove. destruct W as [_ W]. eapply W; eassumption. }
    destruct (negb (is_master masters s)); [intros [= <-]; assumption|].
    destruct (mem r (AL.remove s m)); intros [= <-]; [assumption | apply wf2_set2; assumption].
  Qed.

  Lemma rjobs_wf2 rev masters js : forall T T', wf2 T -> run_jobs (run_recover_job rev masters) js T = Some T' -> wf2 T'.
  Proof.
    induction js as [|j js IH]; intros T T' W; cbn [MRigs.run_jobs]; [intros [= <-]; assumption|].
    destruct (run_recover_job rev masters j T) as [T1|] eqn:E1; [|discriminate]. intros E.
    eapply IH; [|eassumption]. eapply rjob_wf2; eassumption.
  Qed.

  Lemma recover_iter_wf2 rev masters : forall fuel T T', wf2 T -> recover_iter fuel rev masters T = Some T' -> wf2 T'.
  Proof.
    induction fuel as [|fuel IH]; intros T T' WT; cbn [MRigs.recover_iter]; [intros [= <-]; assumption|].
    destruct (recover_jobs rev T) as [|j0 js] eqn:EJ; [intros [= <-]; assumption|].
    destruct (run_jobs (run_recover_job rev masters) (j0 :: js) T) as [T1|] eqn:E1; [|discriminate]. intros E.
    eapply IH; [|eassumption]. eapply rjobs_wf2; eassumption.
  Qed.

  (* ---------------------------------------------------------------- the job list of one iteration *)
  Lemma recover_jobs_In rev T t s : wf2 T ->
    (In (t, s) (recover_jobs rev T) <-> posed T t s /\ mem s rev = true).
  Proof.
    intros [W1 W2]. unfold MRigs.recover_jobs. rewrite in_flat_map. split.
    - intros [[t0 m] [I1 I2]]. cbn [fst snd] in I2. apply in_map_iff in I2. destruct I2 as [[s0 p] [E I2]].
      cbn in E. inversion E; subst. apply filter_In in I2. destruct I2 as [I2 M]. cbn in M.
      apply sort_by_In in I1, I2. apply (lookup_In _ _ _ W1) in I1.
      assert (Wm : wf m) by (eapply W2; eassumption). apply (lookup_In _ _ _ Wm) in I2.
      split; [|assumption]. unfold posed, lookup2. rewrite I1, I2. discriminate.
    - intros [Pd M]. unfold posed, lookup2 in Pd. destruct (lookup t T) as [m|] eqn:ET; [|congruence].
      destruct (lookup s m) as [p|] eqn:ES; [|congruence]. exists (t, m). split.
      + apply sort_by_In. apply lookup_Some_In. assumption.
      + cbn [fst snd]. apply in_map_iff. exists (s, p). split; [reflexivity|]. apply filter_In. split; [|assumption].
        apply sort_by_In. apply lookup_Some_In. assumption.
  Qed.

  Lemma NoDup_flat_pairs {A B C D} (h : B -> D) (f : C -> list B) (l : list (A * C)) :
    NoDup (map fst l) -> (forall a c, In (a, c) l -> NoDup (map h (f c))) ->
    NoDup (flat_map (fun ac : A * C => map (fun b => (fst ac, h b)) (f (snd ac))) l).
  Proof.
    induction l as [|[a c] l IH]; cbn [flat_map map fst snd]; intros N H; [constructor|].
    inversion N as [|? ? NI N']; subst. apply NoDup_app_intro.
    - specialize (H a c (or_introl eq_refl)). revert H. generalize (f c). intros l0 H.
      induction l0 as [|b l0 IHl]; cbn; [constructor|]. cbn in H. inversion H as [|? ? NB H']; subst.
      constructor; [|auto]. intros I. apply in_map_iff in I. destruct I as [b' [E I]]. inversion E.
      apply NB. rewrite <- H1. apply in_map. assumption.
    - apply IH; [assumption|]. intros; eapply H; right; eassumption.
    - intros [a' d] I1 I2. apply in_map_iff in I1. destruct I1 as [b [E _]]. injection E as Ea Ed. subst a' d.
      apply in_flat_map in I2. destruct I2 as [[a2 c2] [I2 I3]]. cbn [fst snd] in I3.
      apply in_map_iff in I3. destruct I3 as [b2 [E2 _]]. injection E2 as Ea2 _. subst a2.
      apply NI. apply in_map_iff. exists (a, c2). auto.
  Qed.

  Lemma recover_jobs_NoDup rev T : wf2 T -> NoDup (recover_jobs rev T).
  Proof.
    intros [W1 W2]. unfold MRigs.recover_jobs.
    apply (NoDup_flat_pairs (fun dp : string * P => fst dp)
             (fun m => List.filter (fun dp => mem (fst dp) rev) (sort_by sleb m)) (sort_by Z.leb T)).
    - apply sort_by_NoDup. exact W1.
    - intros t m I. apply sort_by_In in I. apply NoDup_map_filter. apply sort_by_NoDup.
      apply (W2 t). apply lookup_In; assumption.
  Qed.

  (* ---------------------------------------------------------------- no KeyError on real dicts *)
  Lemma rjob_defined rev masters t s T :
    lookup s rev <> None -> posed T t s -> exists T', run_recover_job rev masters (t, s) T = Some T'.
  Proof.
    intros LR Pd. unfold MRigs.run_recover_job. destruct (lookup s rev) as [[r gi]|]; [|congruence].
    unfold posed, lookup2 in Pd. destruct (lookup t T) as [m|]; [|congruence]. destruct (lookup s m) as [p|]; [|congruence].
    destruct (negb (is_master masters s)); [eauto|]. destruct (mem r (AL.remove s m)); eauto.
  Qed.

  Lemma rjobs_defined rev masters : forall js T,
    NoDup js -> (forall t s, In (t, s) js -> lookup s rev <> None /\ posed T t s) ->
    exists T', run_jobs (run_recover_job rev masters) js T = Some T'.
  Proof.
    induction js as [|[t0 s0] js IH]; intros T ND H; cbn [MRigs.run_jobs]; [eauto|].
    destruct (H t0 s0 (or_introl eq_refl)) as [R0 P0].
    destruct (rjob_defined rev masters t0 s0 T R0 P0) as [T1 E1]. rewrite E1.
    inversion ND as [|? ? NI ND']; subst. apply IH; [assumption|].
    intros t s I. destruct (H t s (or_intror I)) as [Rr Pr]. split; [assumption|].
    eapply rjob_posed_other; [eassumption | | assumption]. intros C. inversion C; subst. contradiction.
  Qed.

  Theorem recover_total rev masters : forall fuel T, wf2 T -> exists T', recover_iter fuel rev masters T = Some T'.
  Proof.
    induction fuel as [|fuel IH]; intros T WT; cbn [MRigs.recover_iter]; [eauto|].
    destruct (recover_jobs rev T) as [|j0 js] eqn:EJ; [eauto|]. rewrite <- EJ.
    destruct (rjobs_defined rev masters (recover_jobs rev T) T) as [T1 E1].
    - apply recover_jobs_NoDup; assumption.
    - intros t s I. apply recover_jobs_In in I; [|assumption]. destruct I as [Pd M]. split; [|assumption].
      apply mem_lookup. assumption.
    - rewrite E1. apply IH. eapply rjobs_wf2; eassumption.
  Qed.

  (* ---------------------------------------------------------------- recover keeps the agreement with a world *)
  Definition rigs_valid R : Prop := forall r d g, member R r d g -> valid g.
  Definition world_valid (world : Z -> string -> P) : Prop := forall t d, valid (world t d).

  Lemma rjobs_agree R world masters js :
    wf2 R -> geom R world -> world_valid world -> rigs_valid R -> forall T T',
    agrees world T -> run_jobs (run_recover_job (reverse_dict R) masters) js T = Some T' -> agrees world T'.
  Proof.
    intros WR G WV RV. induction js as [|[t0 s0] js IH]; intros T T' A; cbn [MRigs.run_jobs]; [intros [= <-]; assumption|].
    destruct (run_recover_job (reverse_dict R) masters (t0, s0) T) as [T1|] eqn:E1; [|discriminate]. intros E.
    apply (IH T1 T'); [|assumption]. intros t d q L.
    destruct (rjob_provenance _ _ _ _ _ _ _ _ _ E1 L) as [[L0 _]|(r & gi & p & ER & Lp & _ & -> & -> & ->)].
    - apply A; assumption.
    - destruct (rev_sound R s0 r gi WR ER) as (g & M & ->).
      rewrite (A _ _ _ Lp). rewrite (G t0 r s0 g M). apply inv_cancel; [eapply RV; eassumption | apply WV].
  Qed.

  Theorem recover_agrees R world masters :
    wf2 R -> geom R world -> world_valid world -> rigs_valid R -> forall fuel T T',
    agrees world T -> recover_iter fuel (reverse_dict R) masters T = Some T' -> agrees world T'.
  Proof.
    intros WR G WV RV. induction fuel as [|fuel IH]; intros T T' A; cbn [MRigs.recover_iter]; [intros [= <-]; assumption|].
    destruct (recover_jobs (reverse_dict R) T) as [|j0 js] eqn:EJ; [intros [= <-]; assumption|].
    destruct (run_jobs (run_recover_job (reverse_dict R) masters) (j0 :: js) T) as [T1|] eqn:E1; [|discriminate]. intros E.
    apply (IH T1 T'); [|assumption]. eapply rjobs_agree; eassumption.
  Qed.

  (* ---------------------------------------------------------------- key sets after recover *)
  Lemma rjobs_provenance rev masters js : forall T T' t y q,
    run_jobs (run_recover_job rev masters) js T = Some T' -> lookup2 t y T' = Some q ->
    (lookup2 t y T = Some q /\ ~ In (t, y) js) \/ (exists s gi, In (t, s) js /\ lookup s rev = Some (y, gi)).
  Proof.
    induction js as [|[t0 s0] js IH]; intros T T' t y q; cbn [MRigs.run_jobs].
    - intros [= <-] L. left. split; [assumption | tauto].
    - destruct (run_recover_job rev masters (t0, s0) T) as [T1|] eqn:E1; [|discriminate]. intros E L.
      destruct (IH _ _ _ _ _ E L) as [[L1 NI]|(s & gi & I & Ls)].
      + destruct (rjob_provenance _ _ _ _ _ _ _ _ _ E1 L1) as [[L0 N]|(r & gi & p & ER & _ & _ & -> & -> & _)].
        * left. split; [assumption|]. intros [C|C]; [congruence | contradiction].
        * right. exists s0, gi. split; [left; reflexivity | assumption].
      + right. exists s, gi. split; [right; assumption | assumption].
  Qed.

  (* a posed device that is not mounted on any rig keeps its entry *)
  Lemma rjobs_nonmember rev masters js : forall T T' t y,
    run_jobs (run_recover_job rev masters) js T = Some T' ->
    (forall t0 s0, In (t0, s0) js -> mem s0 rev = true) -> mem y rev = false -> posed T t y ->
    lookup2 t y T' = lookup2 t y T.
  Proof.
    induction js as [|[t0 s0] js IH]; intros T T' t y; cbn [MRigs.run_jobs]; [intros [= <-]; reflexivity|].
    destruct (run_recover_job rev masters (t0, s0) T) as [T1|] eqn:E1; [|discriminate]. intros E HJ NM Pd.
    assert (NE : (t, y) <> (t0, s0)).
    { intros C; inversion C; subst. rewrite (HJ t0 s0 (or_introl eq_refl)) in NM. discriminate. }
    assert (L1 : lookup2 t y T1 = lookup2 t y T).
    { assert (PP : popped t0 s0 T t y = lookup2 t y T).
      { unfold popped. destruct (eqb_spec t t0) as [->|]; [|reflexivity]. destruct (eqb_spec y s0) as [->|]; [congruence|reflexivity]. }
      destruct (rjob_effect _ _ _ _ _ _ E1) as (r & gi & p & ER & Lp & [[_ H]|(EM & PN & H)]); rewrite H; [assumption|].
      destruct (eqb_spec t t0) as [->|]; cbn [andb]; [|assumption].
      destruct (eqb_spec y r) as [->|]; [|assumption]. exfalso. apply Pd. rewrite <- PP. assumption. }
    rewrite <- L1. apply IH; auto.
    - intros t1 s1 I1. apply (HJ t1 s1). right; assumption.
    - unfold posed. rewrite L1. exact Pd.
  Qed.

  Lemma recover_nonmember_kept rev masters y t : mem y rev = false -> forall fuel T T',
    wf2 T -> posed T t y -> recover_iter fuel rev masters T = Some T' -> lookup2 t y T' = lookup2 t y T.
  Proof.
    intros NM. induction fuel as [|fuel IH]; intros T T' WT Pd; cbn [MRigs.recover_iter]; [intros [= <-]; reflexivity|].
    destruct (recover_jobs rev T) as [|j0 js] eqn:EJ; [intros [= <-]; reflexivity|].
    destruct (run_jobs (run_recover_job rev masters) (j0 :: js) T) as [T1|] eqn:E1; [|discriminate]. intros E.
    rewrite <- EJ in E1.
    assert (L1 : lookup2 t y T1 = lookup2 t y T).
    { apply (rjobs_nonmember rev masters _ T T1 t y E1); auto.
      intros t0 s0 I. apply recover_jobs_In in I; tauto. }
    rewrite <- L1. apply IH; [eapply rjobs_wf2; eassumption | unfold posed; rewrite L1; exact Pd | assumption].
  Qed.

  (* masters unspecified: after the jobs of one iteration, some proper ancestor of a posed mounted device is posed *)
  Lemma rjobs_cover R js : wf2 R -> forall T T' t s,
    run_jobs (run_recover_job (reverse_dict R) None) js T = Some T' ->
    (posed T t s /\ In (t, s) js) \/ (exists y, anc R y s /\ posed T t y) ->
    exists y, anc R y s /\ posed T' t y.
  Proof.
    intros WR. induction js as [|[t0 s0] js IH]; intros T T' t s; cbn [MRigs.run_jobs].
    - intros [= <-] [[_ []]|H]; assumption.
    - destruct (run_recover_job (reverse_dict R) None (t0, s0) T) as [T1|] eqn:E1; [|discriminate]. intros E D.
      apply (IH T1 T' t s E).
      destruct (rjob_effect _ _ _ _ _ _ E1) as (r0 & gi & p & ER & Lp & EFF).
      destruct (rev_sound R s0 r0 gi WR ER) as (g & M0 & _).
      assert (P0 : posed T1 t0 r0).
      { unfold posed. destruct EFF as [[[C|C] H]|(_ & _ & H)]; rewrite H.
        - cbn in C. discriminate.
        - assumption.
        - rewrite !eqb_refl. discriminate. }
      destruct D as [[Ps [X|I]]|(y & A & Py)].
      + inversion X; subst. right. exists r0. split; [eapply anc_member; eassumption | assumption].
      + destruct (eqb_spec (t, s) (t0, s0)) as [X|N].
        * inversion X; subst. right. exists r0. split; [eapply anc_member; eassumption | assumption].
        * left. split; [eapply rjob_posed_other; eassumption | assumption].
      + right. destruct (eqb_spec (t, y) (t0, s0)) as [X|N].
        * inversion X; subst. exists r0. split; [|assumption].
          eapply anc_trans; [eapply anc_member; eassumption | assumption].
        * exists y. split; [assumption | eapply rjob_posed_other; eassumption].
  Qed.

  Lemma depth_bound R n s l y r g : depth_le R n -> path_up R s l y -> member R r y g -> (List.length l < n)%nat.
  Proof.
    intros DL PU M. assert (Rr : is_rig R r = true) by (eapply member_is_rig; eassumption).
    inversion PU as [|? r1 g1 l' ? M1 PU']; subst.
    - cbn. apply (DL r [] r Rr). constructor.
    - cbn. assert (X := DL r1 (l' ++ [(r, g)]) r (member_is_rig _ _ _ _ M1) (path_up_snoc _ _ _ _ _ _ PU' M)).
      rewrite app_length in X. cbn in X. lia.
  Qed.

  Lemma recover_reaches_gen R n : wf2 R -> depth_le R n -> forall fuel j T T' t s,
    wf2 T -> recover_iter fuel (reverse_dict R) None T = Some T' ->
    (exists y l, path_up R s l y /\ posed T t y /\ (mem y (reverse_dict R) = false \/ (j <= List.length l)%nat)) ->
    (n <= j + fuel)%nat ->
    exists y l, path_up R s l y /\ posed T' t y /\ mem y (reverse_dict R) = false.
  Proof.
    intros WR DL. induction fuel as [|fuel IH]; intros j T T' t s WT; cbn [MRigs.recover_iter].
    - intros [= <-] (y & l & PU & Py & D) Le. exists y, l. split; [assumption|]. split; [assumption|].
      destruct (mem y (reverse_dict R)) eqn:EM; [|reflexivity]. exfalso.
      apply rev_mem in EM; [|assumption]. destruct EM as (r & g & M).
      pose proof (depth_bound R n s l y r g DL PU M). destruct D as [D|D]; [discriminate | lia].
    - destruct (recover_jobs (reverse_dict R) T) as [|j0 js] eqn:EJ.
      + intros [= <-] (y & l & PU & Py & D) Le. exists y, l. split; [assumption|]. split; [assumption|].
        destruct (mem y (reverse_dict R)) eqn:EM; [|reflexivity]. exfalso.
        assert (I : In (t, y) (recover_jobs (reverse_dict R) T)) by (apply recover_jobs_In; auto).
        rewrite EJ in I. exact I.
      + destruct (run_jobs (run_recover_job (reverse_dict R) None) (j0 :: js) T) as [T1|] eqn:E1; [|discriminate].
        intros E (y & l & PU & Py & D) Le. rewrite <- EJ in E1.
        assert (W1 : wf2 T1) by (eapply rjobs_wf2; eassumption).
        apply (IH (S j) T1 T' t s W1 E); [|lia].
        destruct (mem y (reverse_dict R)) eqn:EM.
        * destruct D as [D|D]; [discriminate|].
          destruct (rjobs_cover R _ WR T T1 t y E1) as (y' & (l' & NE & PU') & Py').
          { left. split; [assumption | apply recover_jobs_In; auto]. }
          exists y', (l ++ l'). split; [eapply path_up_app; eassumption|]. split; [assumption|].
          right. rewrite app_length. destruct l'; [congruence | cbn; lia].
        * exists y, l. split; [assumption|]. split; [|left; assumption].
          unfold posed. rewrite (rjobs_nonmember _ _ _ T T1 t y E1); auto.
          intros t0 s0 I. apply recover_jobs_In in I; tauto.
  Qed.

  (* every posed device ends below (or at) a posed device that is mounted on nothing *)
  Theorem recover_reaches_root R n fuel T T' t s :
    wf2 R -> wf2 T -> depth_le R n -> (n <= fuel)%nat ->
    recover_iter fuel (reverse_dict R) None T = Some T' -> posed T t s ->
    exists y l, path_up R s l y /\ posed T' t y /\ mem y (reverse_dict R) = false.
  Proof.
    intros WR WT DL Le E Ps. apply (recover_reaches_gen R n WR DL fuel 0%nat T T' t s WT E); [|lia].
    exists s, []. split; [constructor|]. split; [assumption | right; cbn; lia].
  Qed.

  (* no mounted device stays posed (any master list) *)
  Definition below R (j : nat) T : Prop :=
    forall t y, posed T t y -> mem y (reverse_dict R) = true -> exists s l, path_up R s l y /\ (j <= List.length l)%nat.

  Lemma rstep_below R masters j T T' :
    wf2 R -> wf2 T -> below R j T ->
    run_jobs (run_recover_job (reverse_dict R) masters) (recover_jobs (reverse_dict R) T) T = Some T' -> below R (S j) T'.
  Proof.
    intros WR WT B E t y Py My. apply posed_iff in Py. destruct Py as [q L].
    destruct (rjobs_provenance _ _ _ _ _ _ _ _ E L) as [[L0 NI]|(s & gi & I & Ls)].
    - exfalso. apply NI. apply recover_jobs_In; [assumption|]. split; [unfold posed; congruence | assumption].
    - apply recover_jobs_In in I; [|assumption]. destruct I as [Ps Ms].
      destruct (B t s Ps Ms) as (s0 & l & PU & Len). destruct (rev_sound R s y gi WR Ls) as (g & M & _).
      exists s0, (l ++ [(y, g)]). split; [eapply path_up_snoc; eassumption|]. rewrite app_length. cbn. lia.
  Qed.

  Theorem recover_no_member_left R n masters : wf2 R -> depth_le R n -> forall fuel j T T',
    wf2 T -> below R j T -> (n <= j + fuel)%nat -> recover_iter fuel (reverse_dict R) masters T = Some T' ->
    forall t y, mem y (reverse_dict R) = true -> lookup2 t y T' = None.
  Proof.
    intros WR DL. induction fuel as [|fuel IH]; intros j T T' WT B Le; cbn [MRigs.recover_iter].
    - intros [= <-] t y My. destruct (lookup2 t y T) as [q|] eqn:L; [|reflexivity]. exfalso.
      destruct (B t y) as (s & l & PU & Len); [unfold posed; congruence | assumption|].
      apply rev_mem in My; [|assumption]. destruct My as (r & g & M).
      pose proof (depth_bound R n s l y r g DL PU M). lia.
    - destruct (recover_jobs (reverse_dict R) T) as [|j0 js] eqn:EJ.
      + intros [= <-] t y My. destruct (lookup2 t y T) as [q|] eqn:L; [|reflexivity]. exfalso.
        assert (I : In (t, y) (recover_jobs (reverse_dict R) T)) by (apply recover_jobs_In; [assumption|]; split; [unfold posed; congruence | assumption]).
        rewrite EJ in I. exact I.
      + destruct (run_jobs (run_recover_job (reverse_dict R) masters) (j0 :: js) T) as [T1|] eqn:E1; [|discriminate].
        intros E. rewrite <- EJ in E1. apply (IH (S j) T1 T'); auto.
        * eapply rjobs_wf2; eassumption.
        * eapply rstep_below; eassumption.
        * lia.
  Qed.

  Lemma below_0 R T : below R 0 T.
  Proof. intros t y _ _. exists y, []. split; [constructor | cbn; lia]. Qed.

  (* a master list: a top-level rig with a posed master member gets posed by the first iteration *)
  Lemma rjobs_master rev masters js r m gi t : forall T T',
    run_jobs (run_recover_job rev masters) js T = Some T' ->
    (forall t0 s0, In (t0, s0) js -> mem s0 rev = true) -> mem r rev = false ->
    lookup m rev = Some (r, gi) -> is_master masters m = true ->
    (posed T t m /\ In (t, m) js) \/ posed T t r -> posed T' t r.
  Proof.
    induction js as [|[t0 s0] js IH]; intros T T'; cbn [MRigs.run_jobs].
    - intros [= <-] _ _ _ _ [[_ []]|H]; assumption.
    - destruct (run_recover_job rev masters (t0, s0) T) as [T1|] eqn:E1; [|discriminate]. intros E HJ NR Lm IM D.
      apply (IH T1 T' E); auto; [intros t1 s1 I1; apply (HJ t1 s1); right; assumption|].
      assert (KeepR : posed T t r -> posed T1 t r).
      { intros Pr. eapply rjob_posed_other; [eassumption | | assumption].
        intros C; inversion C; subst. rewrite (HJ t0 s0 (or_introl eq_refl)) in NR. discriminate. }
      destruct D as [[Pm I]|Pr]; [|right; auto].
      destruct (eqb_spec (t, m) (t0, s0)) as [X|N].
      + inversion X; subst. right.
        destruct (rjob_effect _ _ _ _ _ _ E1) as (r0 & gi0 & p & ER & Lp & EFF).
        assert (r0 = r) by congruence. subst r0. unfold posed.
        destruct EFF as [[[C|C] H]|(_ & _ & H)]; rewrite H; [congruence | assumption | rewrite !eqb_refl; discriminate].
      + destruct I as [X|I]; [congruence|]. left. split; [eapply rjob_posed_other; eassumption | assumption].
  Qed.

  Theorem recover_master_top R masters fuel T T' t r m g :
    wf2 R -> wf2 T -> one_parent R ->
    member R r m g -> mem r (reverse_dict R) = false -> is_master masters m = true -> posed T t m ->
    recover_iter (S fuel) (reverse_dict R) masters T = Some T' -> posed T' t r.
  Proof.
    intros WR WT OP M NR IM Pm. cbn [MRigs.recover_iter].
    assert (Mm : mem m (reverse_dict R) = true) by (eapply rev_complete; eassumption).
    assert (I : In (t, m) (recover_jobs (reverse_dict R) T)) by (apply recover_jobs_In; auto).
    destruct (recover_jobs (reverse_dict R) T) as [|j0 js] eqn:EJ; [destruct I|].
    destruct (run_jobs (run_recover_job (reverse_dict R) masters) (j0 :: js) T) as [T1|] eqn:E1; [|discriminate].
    rewrite <- EJ in *. intros E.
    assert (Lm : exists gi, lookup m (reverse_dict R) = Some (r, gi)).
    { apply mem_lookup in Mm. destruct (lookup m (reverse_dict R)) as [[r' gi]|] eqn:L; [|congruence].
      destruct (rev_sound R m r' gi WR L) as (g' & M' & _). assert (r' = r) by (eapply OP; eassumption). subst. eauto. }
    destruct Lm as [gi Lm].
    assert (P1 : posed T1 t r).
    { apply (rjobs_master (reverse_dict R) masters (recover_jobs (reverse_dict R) T) r m gi t T T1 E1); auto.
      intros t0 s0 I0. apply recover_jobs_In in I0; tauto. }
    unfold posed. rewrite (recover_nonmember_kept (reverse_dict R) masters r t NR fuel T1 T'); auto. eapply rjobs_wf2; eassumption.
  Qed.

  (* ---------------------------------------------------------------- remove: a posed rig leaves a posed leaf below it *)
  Lemma job_keeps R t0 r0 w0 T T' t z :
    wf2 R -> run_remove_job R (t0, r0, w0) T = Some T' -> (t, z) <> (t0, r0) -> posed T t z -> posed T' t z.
  Proof.
    intros WR E N Pz. unfold posed. rewrite (job_effect _ _ _ _ _ _ t z WR E).
    destruct (eqb_spec t t0) as [->|]; [|exact Pz]. destruct (eqb_spec z r0) as [->|]; [congruence|].
    destruct (lookup2 r0 z R); [discriminate | exact Pz].
  Qed.

  Lemma job_sets_member R t r w T T' :
    wf2 R -> rigs_nonempty R -> (forall r g, ~ member R r r g) -> is_rig R r = true ->
    run_remove_job R (t, r, w) T = Some T' -> exists z g, member R r z g /\ posed T' t z.
  Proof.
    intros WR RN NS Rr E. apply is_rig_lookup in Rr. destruct (lookup r R) as [[|[z g] ms]|] eqn:ER; [| |congruence].
    - exfalso. eapply RN; eauto.
    - assert (M : member R r z g) by (unfold member, lookup2; rewrite ER; cbn; rewrite eqb_refl; reflexivity).
      exists z, g. split; [assumption|]. unfold posed. rewrite (job_effect _ _ _ _ _ _ t z WR E), eqb_refl.
      destruct (eqb_spec z r) as [->|]; [exfalso; eapply NS; eassumption|]. rewrite M. discriminate.
  Qed.

  Lemma jobs_descend R js : wf2 R -> rigs_nonempty R -> (forall r g, ~ member R r r g) ->
    (forall t r w, In (t, r, w) js -> is_rig R r = true) -> forall T T' t y,
    run_jobs (run_remove_job R) js T = Some T' ->
    (posed T t y /\ exists w, In (t, y, w) js) \/ (exists z, anc R y z /\ posed T t z) ->
    exists z, anc R y z /\ posed T' t z.
  Proof.
    intros WR RN NS. induction js as [|[[t0 r0] w0] js IH]; intros HJ T T' t y; cbn [MRigs.run_jobs].
    - intros [= <-] [[_ [w []]]|H]; assumption.
    - destruct (run_remove_job R (t0, r0, w0) T) as [T1|] eqn:E1; [|discriminate]. intros E D.
      apply (IH (fun t r w I => HJ t r w (or_intror I)) T1 T' t y E).
      assert (R0 : is_rig R r0 = true) by (eapply HJ; left; reflexivity).
      destruct (job_sets_member R t0 r0 w0 T T1 WR RN NS R0 E1) as (z0 & g0 & M0 & P0).
      destruct D as [[Py [w I]]|(z & A & Pz)].
      + destruct (eqb_spec (t, y) (t0, r0)) as [X|N].
        * inversion X; subst. right. exists z0. split; [eapply anc_member; eassumption | assumption].
        * left. split; [eapply job_keeps; eassumption|]. destruct I as [X|I]; [inversion X; congruence | eauto].
      + right. destruct (eqb_spec (t, z) (t0, r0)) as [X|N].
        * inversion X; subst. exists z0. split; [|assumption].
          eapply anc_trans; [eassumption | eapply anc_member; eassumption].
        * exists z. split; [assumption | eapply job_keeps; eassumption].
  Qed.

  Lemma jobs_keep_nonrig R js : wf2 R -> (forall t r w, In (t, r, w) js -> is_rig R r = true) -> forall T T' t y,
    run_jobs (run_remove_job R) js T = Some T' -> is_rig R y = false -> posed T t y -> posed T' t y.
  Proof.
    intros WR. induction js as [|[[t0 r0] w0] js IH]; intros HJ T T' t y; cbn [MRigs.run_jobs]; [intros [= <-]; auto|].
    destruct (run_remove_job R (t0, r0, w0) T) as [T1|] eqn:E1; [|discriminate]. intros E NR Py.
    apply (IH (fun t r w I => HJ t r w (or_intror I)) T1 T' t y E NR).
    eapply job_keeps; [eassumption | eassumption | | assumption].
    intros C; inversion C; subst. rewrite (HJ t0 r0 w0 (or_introl eq_refl)) in NR. discriminate.
  Qed.

  Theorem remove_descend R : wf2 R -> rigs_nonempty R -> (forall r g, ~ member R r r g) -> forall fuel T T' t y,
    wf2 T -> remove_iter fuel R T = Some T' -> posed T t y -> exists z, (z = y \/ anc R y z) /\ posed T' t z.
  Proof.
    intros WR RN NS. induction fuel as [|fuel IH]; intros T T' t y WT; cbn [MRigs.remove_iter]; [intros [= <-]; eauto|].
    destruct (remove_jobs R T) as [|j0 js] eqn:EJ; [intros [= <-]; eauto|].
    destruct (run_jobs (run_remove_job R) (j0 :: js) T) as [T1|] eqn:E1; [|discriminate]. intros E Py.
    rewrite <- EJ in E1. assert (W1 : wf2 T1) by (eapply jobs_wf2; eassumption).
    assert (HJ : forall t r w, In (t, r, w) (remove_jobs R T) -> is_rig R r = true).
    { intros t0 r0 w0 I. apply remove_jobs_In in I; tauto. }
    destruct (is_rig R y) eqn:Ry.
    - apply posed_iff in Py. destruct Py as [w Lw].
      destruct (jobs_descend R _ WR RN NS HJ T T1 t y E1) as (z1 & A1 & P1).
      { left. split; [unfold posed; congruence|]. exists w. apply remove_jobs_In; auto. }
      destruct (IH T1 T' t z1 W1 E P1) as (z & [Ez|A] & Pz); exists z; (split; [right|assumption]).
      + subst z. assumption.
      + eapply anc_trans; eassumption.
    - apply (IH T1 T' t y W1 E). eapply jobs_keep_nonrig; eassumption.
  Qed.

  (* ---------------------------------------------------------------- paths and the algebra *)
  Lemma root_unique R : wf2 R -> one_parent R -> forall s l1 y1, path_up R s l1 y1 -> forall l2 y2,
    path_up R s l2 y2 -> mem y1 (reverse_dict R) = false -> mem y2 (reverse_dict R) = false -> y1 = y2 /\ l1 = l2.
  Proof.
    intros WR OP. induction 1 as [d|d r g l top M PU IH]; intros l2 y2 PU2 N1 N2.
    - inversion PU2 as [|? r' g' l' ? M' PU']; subst; [auto|].
      rewrite (rev_complete R r' d g' WR M') in N1. discriminate.
    - inversion PU2 as [|? r' g' l' ? M' PU']; subst.
      + rewrite (rev_complete R r y2 g WR M) in N2. discriminate.
      + assert (r' = r) by (eapply OP; eassumption). subst r'.
        assert (g' = g) by (unfold member in *; congruence). subst g'.
        destruct (IH l' y2 PU' N1 N2) as [-> ->]. auto.
  Qed.

  Lemma comp_path_proper l w w' : w == w' -> comp_path P comp l w == comp_path P comp l w'.
  Proof. intros E. unfold comp_path. induction (map snd l) as [|g gs IH]; cbn; [assumption | rewrite IH; reflexivity]. Qed.

  Lemma geom_path R world t : geom R world -> forall s l y, path_up R s l y -> world t s == comp_path P comp l (world t y).
  Proof.
    intros G. induction 1 as [d|d r g l top M PU IH]; cbn; [reflexivity|].
    rewrite (G t r d g M). change (comp g (world t r) == comp g (comp_path P comp l (world t top))). rewrite IH. reflexivity.
  Qed.

  Lemma path_valid R s l y : rigs_valid R -> path_up R s l y -> Forall valid (map snd l).
  Proof. intros RV. induction 1; cbn; constructor; [eapply RV; eassumption | assumption]. Qed.

  Lemma fold_right_valid gs w : Forall valid gs -> valid w -> valid (fold_right comp w gs).
  Proof. induction 1; cbn; auto. Qed.

  (* PoseTransform.compose folds from the left; the chain of the statement is nested to the right *)
  Definition compose_seq (ps : list P) (dflt : P) : P :=
    match ps with [] => dflt | p :: ps' => comp_list P comp p ps' end.

  Lemma fold_left_right ps : forall a w, valid a -> Forall valid ps -> valid w ->
    fold_left comp (ps ++ [w]) a == comp a (fold_right comp w ps).
  Proof.
    induction ps as [|b ps IH]; intros a w Va Vp Vw; cbn; [reflexivity|].
    inversion Vp as [|? ? Vb Vp']; subst. rewrite IH by auto.
    apply comp_assoc; auto. apply fold_right_valid; assumption.
  Qed.

  Lemma compose_seq_path l w dflt : Forall valid (map snd l) -> valid w ->
    compose_seq (map snd l ++ [w]) dflt == comp_path P comp l w.
  Proof.
    unfold compose_seq, comp_path, comp_list. destruct (map snd l) as [|g gs]; cbn; intros V Vw; [reflexivity|].
    inversion V; subst. apply fold_left_right; assumption.
  Qed.

  (* ================================================================ assembled statements *)
  Theorem remove_spec_gen R T n fuel :
    wf2 R -> wf2 T -> one_parent R -> depth_le R n -> (n <= fuel)%nat -> rigs_nonempty R ->
    no_empty_timestamp T -> single_source R T ->
    exists T', MRigs.remove_inplace P comp fuel R T = Done T' /\
      (* (i) no rig identifier remains *)
      (forall t r, is_rig R r = true -> lookup2 t r T' = None) /\
      (* (ii) entries of devices that are not rigs are untouched *)
      (forall t d, is_rig R d = false -> posed T t d -> lookup2 t d T' = lookup2 t d T) /\
      (* (iii) a device that is not a rig, below a posed rig, gets g0 o (g1 o (... o rig pose)) *)
      (forall t d l top w, is_rig R d = false -> path_up R d l top -> lookup2 t top T = Some w ->
                           lookup2 t d T' = Some (comp_path P comp l w)) /\
      (* (iv) nothing else appears *)
      (forall t d, posed T' t d -> is_rig R d = false /\ (posed T t d \/ exists a, anc R a d /\ posed T t a)) /\
      wf2 T' /\ no_empty_timestamp T'.
  Proof.
    intros WR WT OP DL Le RN NE SS. destruct (remove_total R WR fuel T WT) as [T' E].
    pose proof (depth_no_self R n DL) as NS.
    assert (W' : wf2 T') by exact (remove_iter_wf2 R fuel T T' WT E).
    assert (NE' : no_empty_timestamp T') by exact (remove_no_empty R WR RN NS fuel T T' NE E).
    assert (NR : forall t r, is_rig R r = true -> lookup2 t r T' = None) by exact (remove_no_rig_left R n fuel T T' WR WT DL Le E).
    exists T'. split; [|split; [exact NR|split; [|split; [|split; [|split; assumption]]]]].
    - unfold MRigs.remove_inplace. rewrite E. rewrite first_empty_None; [reflexivity | apply W' | assumption].
    - intros t d Nd Pd. apply (remove_untouched R t d WR Nd fuel T T' WT); [|assumption].
      intros a A. destruct (lookup2 t a T) eqn:L; [|reflexivity]. exfalso. apply (SS t a d A); [unfold posed; congruence | assumption].
    - intros t d l top w Nd PU Lw. apply (remove_chain R t l d top T fuel w T'); auto.
      inversion PU as [|? r1 g1 l' ? M1 PU']; subst; cbn; [lia|].
      pose proof (DL r1 l' top (member_is_rig _ _ _ _ M1) PU'). lia.
    - intros t d Pd. split.
      + destruct (is_rig R d) eqn:Rd; [|reflexivity]. exfalso. apply Pd. apply NR. assumption.
      + eapply remove_only_from_above; eassumption.
  Qed.

  (* recover after remove, masters unspecified, any nesting depth <= fuel *)
  Theorem recover_remove_gen R T n fuel fuel' world :
    wf2 R -> wf2 T -> one_parent R -> depth_le R n -> (n <= fuel)%nat -> (n <= fuel')%nat ->
    rigs_nonempty R -> rigs_valid R ->
    world_valid world -> geom R world -> agrees world T ->
    exists T1 T2,
      remove_iter fuel R T = Some T1 /\ recover_iter fuel' (reverse_dict R) None T1 = Some T2 /\
      (* every top-level rig that was replaced gets its pose back *)
      (forall t r p, is_rig R r = true -> mem r (reverse_dict R) = false -> lookup2 t r T = Some p ->
                     exists p2, lookup2 t r T2 = Some p2 /\ p2 == p) /\
      (* every posed sensor keeps its world pose: it lies below (or is) a posed unmounted device y, and the pose
         implied by y's entry and the rig geometry equals the sensor's pose *)
      (forall t s p1, lookup2 t s T1 = Some p1 ->
                      exists y l p2, path_up R s l y /\ mem y (reverse_dict R) = false /\
                                     lookup2 t y T2 = Some p2 /\ p1 == comp_path P comp l p2) /\
      (* no mounted device is posed any more, and every entry is the world pose of its device *)
      (forall t y, mem y (reverse_dict R) = true -> lookup2 t y T2 = None) /\
      agrees world T1 /\ agrees world T2.
  Proof.
    intros WR WT OP DL Le Le' RN RV WV G A.
    destruct (remove_total R WR fuel T WT) as [T1 E1].
    assert (W1 : wf2 T1) by exact (remove_iter_wf2 R fuel T T1 WT E1).
    destruct (recover_total (reverse_dict R) None fuel' T1 W1) as [T2 E2].
    assert (A1 : agrees world T1) by exact (remove_agrees R world WR G fuel T T1 WT A E1).
    assert (A2 : agrees world T2) by exact (recover_agrees R world None WR G WV RV fuel' T1 T2 A1 E2).
    pose proof (depth_no_self R n DL) as NS.
    assert (REACH : forall t s p1, lookup2 t s T1 = Some p1 ->
              exists y l p2, path_up R s l y /\ mem y (reverse_dict R) = false /\ lookup2 t y T2 = Some p2 /\ p1 == comp_path P comp l p2).
    { intros t s p1 L1.
      destruct (recover_reaches_root R n fuel' T1 T2 t s WR W1 DL Le' E2) as (y & l & PU & Py & Ny); [unfold posed; congruence|].
      apply posed_iff in Py. destruct Py as [p2 L2]. exists y, l, p2. repeat split; auto.
      rewrite (A1 _ _ _ L1). rewrite (geom_path R world t G s l y PU). apply comp_path_proper. symmetry. apply A2. assumption. }
    exists T1, T2. split; [assumption|]. split; [assumption|]. split; [|split; [exact REACH|split; [|split; assumption]]].
    - intros t r p Rr Nr Lp.
      destruct (remove_descend R WR RN NS fuel T T1 t r WT E1) as (z & Dz & Pz); [unfold posed; congruence|].
      apply posed_iff in Pz. destruct Pz as [pz Lz].
      assert (Az : anc R r z).
      { destruct Dz as [->|Az]; [|assumption]. exfalso.
        rewrite (remove_no_rig_left R n fuel T T1 WR WT DL Le E1 t r Rr) in Lz. discriminate. }
      destruct (REACH t z pz Lz) as (y & l & p2 & PU & Ny & L2 & _).
      destruct Az as (l0 & _ & PU0). destruct (root_unique R WR OP z l0 r PU0 l y PU Nr Ny) as [<- _].
      exists p2. split; [assumption|]. rewrite (A2 _ _ _ L2). symmetry. apply A. assumption.
    - apply (recover_no_member_left R n None WR DL fuel' 0%nat T1 T2 W1 (below_0 R T1)); [lia | assumption].
  Qed.

  (* recover with a master list: a top-level rig that has a posed master member gets the pose its members
     imply; with nesting depth 1 every rig is top-level and every posed member is a direct member *)
  Theorem recover_masters_gen R T fuel masters world :
    wf2 R -> wf2 T -> one_parent R -> rigs_valid R -> world_valid world -> geom R world -> agrees world T ->
    exists T2, recover_iter (S fuel) (reverse_dict R) masters T = Some T2 /\ agrees world T2 /\
      forall t r m g, member R r m g -> mem r (reverse_dict R) = false -> is_master masters m = true -> posed T t m ->
                      exists p2, lookup2 t r T2 = Some p2 /\ p2 == world t r.
  Proof.
    intros WR WT OP RV WV G A. destruct (recover_total (reverse_dict R) masters (S fuel) T WT) as [T2 E2].
    assert (A2 : agrees world T2) by exact (recover_agrees R world masters WR G WV RV (S fuel) T T2 A E2).
    exists T2. split; [assumption|]. split; [assumption|]. intros t r m g M Nr IM Pm.
    pose proof (recover_master_top R masters fuel T T2 t r m g WR WT OP M Nr IM Pm E2) as Pr.
    apply posed_iff in Pr. destruct Pr as [p2 L2]. exists p2. split; [assumption | apply A2; assumption].
  Qed.

  (* ---------------------------------------------------------------- recover with a master list, nested rigs:
     a chain of masters from a posed device up to a top-level rig gets that rig posed *)
  Lemma path_up_app_inv R l1 : forall s l2 top, path_up R s (l1 ++ l2) top -> exists y, path_up R s l1 y /\ path_up R y l2 top.
  Proof.
    induction l1 as [|[r g] l1 IH]; intros s l2 top PU; cbn in PU.
    - exists s. split; [constructor | assumption].
    - inversion PU as [|? ? ? ? ? M PU']; subst. destruct (IH _ _ _ PU') as (y & P1 & P2).
      exists y. split; [econstructor; eassumption | assumption].
  Qed.

  Lemma path_top_det R s l y : path_up R s l y -> forall y', path_up R s l y' -> y = y'.
  Proof. induction 1; intros y' PU'; inversion PU'; subst; auto. Qed.

  Lemma path_top_In R s l y : path_up R s l y -> In y (s :: map fst l).
  Proof. induction 1 as [d|d r g l top M PU IH]; [left; reflexivity|]. cbn. destruct IH as [<-|I]; [right; left; reflexivity | right; right; assumption]. Qed.

  Lemma path_split_below R s l1 y r g l2 : path_up R s l1 y -> In y (nodes_below s (l1 ++ (r, g) :: l2)).
  Proof.
    intros PU. unfold nodes_below. rewrite map_app. cbn [map fst].
    change (s :: map fst l1 ++ r :: map fst l2) with ((s :: map fst l1) ++ r :: map fst l2).
    rewrite removelast_app by discriminate. apply in_or_app. left. eapply path_top_In; eassumption.
  Qed.

  Definition moved_up R s (l : list (string * P)) T t : Prop :=
    exists l1 y l2, l = l1 ++ l2 /\ l1 <> [] /\ path_up R s l1 y /\ posed T t y.

  Lemma rjobs_master_chain R masters js : wf2 R -> one_parent R -> forall T T' t s l top,
    run_jobs (run_recover_job (reverse_dict R) masters) js T = Some T' ->
    (forall t0 s0, In (t0, s0) js -> mem s0 (reverse_dict R) = true) ->
    path_up R s l top -> mem top (reverse_dict R) = false ->
    (forall x, In x (nodes_below s l) -> is_master masters x = true) ->
    (posed T t s /\ In (t, s) js /\ l <> []) \/ moved_up R s l T t ->
    moved_up R s l T' t.
  Proof.
    intros WR OP. induction js as [|[t0 s0] js IH]; intros T T' t s l top; cbn [MRigs.run_jobs].
    - intros [= <-] _ _ _ _ [(_ & [] & _)|H]; assumption.
    - destruct (run_recover_job (reverse_dict R) masters (t0, s0) T) as [T1|] eqn:E1; [|discriminate].
      intros E HJ PU NT HM D.
      apply (IH T1 T' t s l top E); auto; [intros t1 s1 I1; apply (HJ t1 s1); right; assumption|].
      (* what the job of a chain node y (with the rest of the chain above it) does *)
      assert (UP : forall l1 y l2, l = l1 ++ l2 -> path_up R s l1 y -> (t, y) = (t0, s0) ->
                   exists r g l2', l2 = (r, g) :: l2' /\ posed T1 t r).
      { intros l1 y l2 El P1 X. inversion X; subst t0 s0. rewrite El in PU.
        destruct (path_up_app_inv R l1 s l2 top PU) as (y' & P1' & P2).
        assert (y' = y) by (symmetry; eapply path_top_det; eassumption). subst y'.
        destruct l2 as [|[r g] l2'].
        - inversion P2; subst. rewrite (HJ t top (or_introl eq_refl)) in NT. discriminate.
        - inversion P2 as [|? ? ? ? ? M P2']; subst. exists r, g, l2'. split; [reflexivity|].
          assert (IM : is_master masters y = true) by (apply HM; eapply path_split_below; eassumption).
          destruct (rjob_effect _ _ _ _ _ _ E1) as (r0 & gi & p & ER & Lp & EFF).
          destruct (rev_sound R y r0 gi WR ER) as (g0 & M0 & _).
          assert (r0 = r) by (eapply OP; eassumption). subst r0. unfold posed.
          destruct EFF as [[[C|C] H]|(_ & _ & H)]; rewrite H; [congruence | assumption | rewrite !eqb_refl; discriminate]. }
      destruct D as [(Ps & I & NE)|(l1 & y & l2 & El & NE & P1 & Py)].
      + destruct (eqb_spec (t, s) (t0, s0)) as [X|N].
        * destruct (UP [] s l eq_refl (path_nil P R s) X) as (r & g & l2' & El & Pr).
          right. exists [(r, g)], r, l2'. split; [assumption|]. split; [discriminate|]. split; [|assumption].
          rewrite El in PU. inversion PU as [|? ? ? ? ? M PU']; subst.
          econstructor; [eassumption | constructor].
        * left. split; [eapply rjob_posed_other; eassumption|]. split; [|assumption].
          destruct I as [X|I]; [congruence | assumption].
      + right. destruct (eqb_spec (t, y) (t0, s0)) as [X|N].
        * destruct (UP l1 y l2 El P1 X) as (r & g & l2' & El2 & Pr).
          exists (l1 ++ [(r, g)]), r, l2'. split; [rewrite El, El2, <- app_assoc; reflexivity|].
          split; [destruct l1; discriminate|]. split; [|assumption].
          rewrite El, El2 in PU. destruct (path_up_app_inv R l1 s _ top PU) as (y' & P1' & P2).
          assert (y' = y) by (symmetry; eapply path_top_det; eassumption). subst y'.
          inversion P2 as [|? ? ? ? ? M P2']; subst. eapply path_up_snoc; eassumption.
        * exists l1, y, l2. split; [assumption|]. split; [assumption|]. split; [assumption|].
          eapply rjob_posed_other; eassumption.
  Qed.

  (* a chain of masters from a posed device s up to an unmounted rig: the rig is posed after enough iterations *)
  Theorem recover_master_chain R masters : wf2 R -> one_parent R -> forall fuel T T' t s l top,
    wf2 T -> recover_iter fuel (reverse_dict R) masters T = Some T' ->
    path_up R s l top -> mem top (reverse_dict R) = false ->
    (forall x, In x (nodes_below s l) -> is_master masters x = true) ->
    posed T t s -> (List.length l <= fuel)%nat -> posed T' t top.
  Proof.
    intros WR OP. induction fuel as [|fuel IH]; intros T T' t s l top WT; cbn [MRigs.recover_iter].
    - intros [= <-] PU _ _ Ps Len. destruct l; [|cbn in Len; lia]. inversion PU; subst. assumption.
    - intros E PU NT HM Ps Len.
      destruct l as [|[r1 g1] l'] eqn:El.
      { inversion PU; subst. unfold posed.
        rewrite (recover_nonmember_kept (reverse_dict R) masters top t NT (S fuel) T T' WT Ps); [exact Ps|].
        cbn [MRigs.recover_iter]. exact E. }
      rewrite <- El in *. assert (NE : l <> []) by (rewrite El; discriminate).
      assert (Ms : mem s (reverse_dict R) = true).
      { rewrite El in PU. inversion PU as [|? ? ? ? ? M PU']; subst. eapply rev_complete; eassumption. }
      assert (I : In (t, s) (recover_jobs (reverse_dict R) T)) by (apply recover_jobs_In; auto).
      destruct (recover_jobs (reverse_dict R) T) as [|j0 js] eqn:EJ; [destruct I|].
      destruct (run_jobs (run_recover_job (reverse_dict R) masters) (j0 :: js) T) as [T1|] eqn:E1; [|discriminate].
      rewrite <- EJ in *.
      assert (W1 : wf2 T1) by (eapply rjobs_wf2; eassumption).
      destruct (rjobs_master_chain R masters _ WR OP T T1 t s l top E1) as (l1 & y & l2 & El12 & NE1 & P1 & Py); auto.
      { intros t0 s0 I0. apply recover_jobs_In in I0; tauto. }
      (* continue from y with the rest of the chain *)
      rewrite El12 in PU. destruct (path_up_app_inv R l1 s l2 top PU) as (y' & P1' & P2).
      assert (y' = y) by (symmetry; eapply path_top_det; eassumption). subst y'.
      apply (IH T1 T' t y l2 top W1 E P2 NT); auto.
      + intros x Ix. apply HM. rewrite El12. clear - P1 Ix.
        unfold nodes_below in *. rewrite map_app.
        change (s :: map fst l1 ++ map fst l2) with ((s :: map fst l1) ++ map fst l2).
        destruct l2 as [|e l2]; [cbn in Ix; destruct Ix|].
        rewrite removelast_app by discriminate. apply in_or_app.
        cbn [map] in Ix. change (removelast (y :: fst e :: map fst l2)) with (y :: removelast (fst e :: map fst l2)) in Ix.
        destruct Ix as [<-|Ix]; [left; eapply path_top_In; eassumption | right; exact Ix].
      + rewrite El12, app_length in Len. destruct l1; [congruence | cbn in Len; lia].
  Qed.
End Algebra.

(* ================================================================== the instance: rigid transforms over Q
   The group laws below are C05's theorems (Proofs/PPose.v); they are re-derived here from Proofs/PQV.v in the
   exact form the section needs (inverse-cancellation applied to a composite), so that this file depends only
   on the stable quaternion / matrix interface. *)
From Coq Require Import QArith.
From KV.Proofs Require Import PQV.

#[export] Instance rg_peq_equiv : Equivalence MPose.peq.
Proof.
  split.
  - intros a; split; reflexivity.
  - intros a b [H1 H2]; split; symmetry; assumption.
  - intros a b c [H1 H2] [G1 G2]; split; etransitivity; eassumption.
Qed.

#[export] Instance rg_pr_proper : Proper (MPose.peq ==> qeq) pr. Proof. intros a b H; apply H. Qed.
#[export] Instance rg_pt_proper : Proper (MPose.peq ==> veq) pt. Proof. intros a b H; apply H. Qed.

#[export] Instance rg_compose2_proper : Proper (MPose.peq ==> MPose.peq ==> MPose.peq) compose2.
Proof.
  intros a a' [Ha1 Ha2] b b' [Hb1 Hb2]. unfold compose2; split; cbn [pr pt].
  - rewrite Ha1, Hb1. reflexivity.
  - rewrite Ha1, Ha2, Hb2. reflexivity.
Qed.

#[export] Instance rg_valid_proper : Proper (MPose.peq ==> iff) MPose.valid.
Proof. intros a b [H _]. unfold MPose.valid. rewrite H. reflexivity. Qed.

Lemma rg_compose2_valid a b : MPose.valid a -> MPose.valid b -> MPose.valid (compose2 a b).
Proof. unfold MPose.valid, compose2; cbn [pr]. apply n2_mul_nonzero. Qed.

Lemma rg_inverse_valid a : MPose.valid a -> MPose.valid (inverse a).
Proof. unfold MPose.valid, inverse; cbn [pr]. apply n2_inv_nonzero. Qed.

Lemma rg_compose2_assoc a b c : MPose.valid a -> MPose.valid b -> MPose.valid c ->
  MPose.peq (compose2 (compose2 a b) c) (compose2 a (compose2 b c)).
Proof.
  unfold MPose.valid. intros Va Vb Vc. unfold compose2; split; cbn [pr pt].
  - apply qmul_assoc.
  - rewrite (rot_mul _ _ Va Vb), mvmul_mmul, mvmul_vadd, vadd_assoc. reflexivity.
Qed.

Lemma rg_inverse_cancel a b : MPose.valid a -> MPose.valid b ->
  MPose.peq (compose2 (inverse a) (compose2 a b)) b.
Proof.
  unfold MPose.valid. intros Va Vb. unfold compose2, inverse; split; cbn [pr pt].
  - rewrite <- qmul_assoc, (qmul_inv_l _ Va), qmul_one_l. reflexivity.
  - rewrite mvmul_vadd, (rot_inv_cancel_l _ _ Va), mvmul_vneg, vadd_assoc, vadd_vneg_r, vadd_zero_r. reflexivity.
Qed.

(* the executable operations of the shards are the code's operations (MPose layer 2), up to == *)
Lemma comp_x_impl a b : MPose.peq (comp_x a b) (compose2_impl a b).
Proof.
  unfold comp_x, compose2_impl; split; cbn [pr pt].
  - apply qmul_r_eq.
  - rewrite vadd_r_eq, mvmul_r_eq, rot_impl_r_eq. reflexivity.
Qed.
Lemma inv_x_impl a : MPose.peq (inv_x a) (inverse_impl a).
Proof.
  unfold inv_x, inverse_impl; cbv zeta; split; cbn [pr pt].
  - apply qinv_r_eq.
  - rewrite mvmul_r_eq, rot_impl_r_eq, qinv_r_eq. reflexivity.
Qed.

(* ------------------------------------------------------------------ the theorems of C06, for MPose *)
Notation rigsQ := (MRigs.rigs pose).
Notation trajQ := (MRigs.traj pose).
Definition rigs_validQ (R : rigsQ) : Prop := rigs_valid pose MPose.valid R.
Definition traj_validQ (T : trajQ) : Prop := forall t d p, lookup2 t d T = Some p -> MPose.valid p.
Definition reverseQ (R : rigsQ) := MRigs.reverse_dict pose inverse R.
(* mounted on some rig / top-level *)
Definition mounted (R : rigsQ) (d : string) : bool := mem d (reverseQ R).

Lemma mounted_iff (R : rigsQ) d : wf2 R -> (mounted R d = true <-> exists r g, member R r d g).
Proof. apply rev_mem. Qed.

Lemma compose_list_seq (l : list (string * pose)) (w : pose) :
  compose_list (map snd l ++ [w]) = Some (compose_seq pose compose2 (map snd l ++ [w]) w).
Proof. destruct (map snd l); reflexivity. Qed.

Theorem remove_spec_pose (R : rigsQ) (T : trajQ) n :
  wf2 R -> wf2 T -> one_parent R -> depth_le R n -> (n <= max_depth)%nat -> rigs_nonempty R ->
  no_empty_timestamp T -> single_source R T ->
  exists T', remove_spec_inplace max_depth R T = Done T' /\
    (forall t r, is_rig R r = true -> lookup2 t r T' = None) /\
    (forall t d, is_rig R d = false -> posed T t d -> lookup2 t d T' = lookup2 t d T) /\
    (forall t d l top w, is_rig R d = false -> path_up R d l top -> lookup2 t top T = Some w ->
       rigs_validQ R -> MPose.valid w ->
       exists p c, lookup2 t d T' = Some p /\ compose_list (map snd l ++ [w]) = Some c /\ MPose.peq p c) /\
    (forall t d, posed T' t d -> is_rig R d = false /\ (posed T t d \/ exists a, anc R a d /\ posed T t a)) /\
    wf2 T' /\ no_empty_timestamp T'.
Proof.
  intros WR WT OP DL Le RN NE SS.
  destruct (remove_spec_gen pose compose2 R T n max_depth WR WT OP DL Le RN NE SS)
    as (T' & E & H1 & H2 & H3 & H4 & H5 & H6).
  exists T'. split; [exact E|]. split; [exact H1|]. split; [exact H2|]. split; [|split; [exact H4|split; assumption]].
  intros t d l top w Nd PU Lw RV Vw. exists (comp_path pose compose2 l w), (compose_seq pose compose2 (map snd l ++ [w]) w).
  split; [eapply H3; eassumption|]. split; [apply compose_list_seq|]. symmetry.
  apply (compose_seq_path pose MPose.peq MPose.valid compose2 rg_compose2_valid rg_compose2_assoc l w w); [|assumption].
  eapply path_valid; eassumption.
Qed.

Definition consistent (R : rigsQ) (world : Z -> string -> pose) (T : trajQ) : Prop :=
  world_valid pose MPose.valid world /\ geom pose MPose.peq compose2 R world /\ agrees pose MPose.peq world T.

Theorem recover_remove_pose (R : rigsQ) (T : trajQ) n world :
  wf2 R -> wf2 T -> one_parent R -> depth_le R n -> (n <= max_depth)%nat -> rigs_nonempty R -> rigs_validQ R ->
  no_empty_timestamp T -> consistent R world T ->
  exists T1 T2,
    remove_spec_inplace max_depth R T = Done T1 /\ recover_spec_inplace max_depth R None T1 = Done T2 /\
    (forall t r p, is_rig R r = true -> mounted R r = false -> lookup2 t r T = Some p ->
                   exists p2, lookup2 t r T2 = Some p2 /\ MPose.peq p2 p) /\
    (forall t s p1, lookup2 t s T1 = Some p1 ->
                    exists y l p2 c, path_up R s l y /\ mounted R y = false /\ lookup2 t y T2 = Some p2 /\
                                     compose_list (map snd l ++ [p2]) = Some c /\ MPose.peq p1 c) /\
    (forall t y, mounted R y = true -> lookup2 t y T2 = None) /\
    consistent R world T1 /\ consistent R world T2.
Proof.
  intros WR WT OP DL Le RN RV NE (WV & G & A).
  destruct (@recover_remove_gen pose MPose.peq MPose.valid compose2 inverse _ _
              rg_inverse_cancel R T n max_depth max_depth world WR WT OP DL Le Le RN RV WV G A)
    as (T1 & T2 & E1 & E2 & H1 & H2 & H3 & A1 & A2).
  assert (V2 : forall t y p, lookup2 t y T2 = Some p -> MPose.valid p).
  { intros t y p L. rewrite (A2 _ _ _ L). apply WV. }
  exists T1, T2. split; [|split; [|split; [exact H1|split; [|split; [exact H3|split; [exact (conj WV (conj G A1)) | exact (conj WV (conj G A2))]]]]]].
  - unfold remove_spec_inplace, MRigs.remove_inplace. rewrite E1.
    assert (W1 : wf2 T1) by exact (remove_iter_wf2 pose compose2 R max_depth T T1 WT E1).
    rewrite first_empty_None; [reflexivity | apply W1|].
    exact (remove_no_empty pose compose2 R WR RN (depth_no_self pose R n DL) max_depth T T1 NE E1).
  - unfold recover_spec_inplace, MRigs.recover_inplace. rewrite E2. reflexivity.
  - intros t s p1 L1. destruct (H2 t s p1 L1) as (y & l & p2 & PU & Ny & L2 & Eq).
    exists y, l, p2, (compose_seq pose compose2 (map snd l ++ [p2]) p2).
    split; [exact PU|]. split; [exact Ny|]. split; [exact L2|]. split; [apply compose_list_seq|].
    rewrite Eq. symmetry.
    apply (compose_seq_path pose MPose.peq MPose.valid compose2 rg_compose2_valid rg_compose2_assoc l p2 p2);
      [eapply path_valid; eassumption | eapply V2; eassumption].
Qed.

Lemma remove_done_iter {P} comp fuel (R : MRigs.rigs P) T T1 :
  MRigs.remove_inplace P comp fuel R T = Done T1 -> MRigs.remove_iter P comp fuel R T = Some T1.
Proof.
  unfold MRigs.remove_inplace. destruct (MRigs.remove_iter P comp fuel R T) as [T'|]; [|discriminate].
  destruct (MRigs.first_empty P T'); [discriminate|]. congruence.
Qed.

Lemma recover_done_iter {P} comp inv fuel (R : MRigs.rigs P) masters T T2 :
  MRigs.recover_inplace P comp inv fuel R masters T = Done T2 ->
  MRigs.recover_iter P comp fuel (MRigs.reverse_dict P inv R) masters T = Some T2.
Proof.
  unfold MRigs.recover_inplace. destruct (MRigs.recover_iter P comp fuel _ masters T) as [T'|]; [|discriminate]. congruence.
Qed.

Theorem recover_masters_pose (R : rigsQ) (T : trajQ) masters world :
  wf2 R -> wf2 T -> one_parent R -> rigs_validQ R -> consistent R world T ->
  exists T2, recover_spec_inplace max_depth R masters T = Done T2 /\ consistent R world T2 /\
    forall t r m g, member R r m g -> mounted R r = false -> is_master masters m = true -> posed T t m ->
                    exists p2, lookup2 t r T2 = Some p2 /\ MPose.peq p2 (world t r).
Proof.
  intros WR WT OP RV (WV & G & A).
  destruct (@recover_masters_gen pose MPose.peq MPose.valid compose2 inverse _ _ rg_inverse_cancel
              R T 9 masters world WR WT OP RV WV G A) as (T2 & E2 & A2 & H).
  exists T2. split; [|split; [exact (conj WV (conj G A2)) | exact H]].
  unfold recover_spec_inplace, MRigs.recover_inplace. change max_depth with 10%nat. rewrite E2. reflexivity.
Qed.

Lemma depth1_unmounted (R : rigsQ) r : wf2 R -> depth_le R 1 -> is_rig R r = true -> mounted R r = false.
Proof.
  intros WR DL Rr. destruct (mounted R r) eqn:M; [|reflexivity]. exfalso.
  apply mounted_iff in M; [|assumption]. destruct M as (r' & g & M).
  assert (X := DL r [(r', g)] r' Rr (path_cons pose R r r' g [] r' M (path_nil pose R r'))). cbn in X. lia.
Qed.

(* nesting depth 1 (rigs of sensors only), any master list that names a posed member of the rig at that timestamp *)
Theorem recover_remove_masters_depth1 (R : rigsQ) (T : trajQ) masters world :
  wf2 R -> wf2 T -> one_parent R -> depth_le R 1 -> rigs_nonempty R -> rigs_validQ R ->
  no_empty_timestamp T -> consistent R world T ->
  exists T1 T2,
    remove_spec_inplace max_depth R T = Done T1 /\ recover_spec_inplace max_depth R masters T1 = Done T2 /\
    (forall t r p, is_rig R r = true -> lookup2 t r T = Some p ->
                   (exists m g, member R r m g /\ is_master masters m = true /\ posed T1 t m) ->
                   exists p2, lookup2 t r T2 = Some p2 /\ MPose.peq p2 p) /\
    (forall t y, mounted R y = true -> lookup2 t y T2 = None) /\
    consistent R world T1 /\ consistent R world T2.
Proof.
  intros WR WT OP DL RN RV NE C.
  assert (Le : (1 <= max_depth)%nat) by (unfold max_depth; lia).
  destruct (recover_remove_pose R T 1 world WR WT OP DL Le RN RV NE C) as (T1 & _ & E1 & _ & _ & _ & _ & C1 & _).
  pose proof (remove_done_iter _ _ _ _ _ E1) as I1.
  assert (W1 : wf2 T1) by exact (remove_iter_wf2 pose compose2 R max_depth T T1 WT I1).
  destruct (recover_masters_pose R T1 masters world WR W1 OP RV C1) as (T2 & E2 & C2 & H).
  pose proof (recover_done_iter _ _ _ _ _ _ _ E2) as I2.
  exists T1, T2. split; [exact E1|]. split; [exact E2|]. split; [|split; [|split; assumption]].
  - intros t r p Rr Lp (m & g & M & IM & Pm).
    destruct (H t r m g M (depth1_unmounted R r WR DL Rr) IM Pm) as (p2 & L2 & Eq).
    exists p2. split; [assumption|]. rewrite Eq. destruct C as (_ & _ & A). symmetry. apply A. assumption.
  - exact (recover_no_member_left pose compose2 inverse R 1 masters WR DL max_depth 0%nat T1 T2 W1
             (below_0 pose inverse R T1) Le I2).
Qed.

(* KeyError is unreachable on real dicts, whatever the rigs and trajectories *)
Theorem remove_never_keyerror (R : rigsQ) (T : trajQ) fuel : wf2 R -> wf2 T -> remove_spec_inplace fuel R T <> KeyErr.
Proof.
  intros WR WT. unfold remove_spec_inplace, MRigs.remove_inplace.
  destruct (remove_total pose compose2 R WR fuel T WT) as [T' E]. rewrite E.
  destruct (MRigs.first_empty pose T'); discriminate.
Qed.

Theorem recover_never_keyerror (R : rigsQ) (T : trajQ) masters fuel : wf2 T -> recover_spec_inplace fuel R masters T <> KeyErr.
Proof.
  intros WT. unfold recover_spec_inplace, MRigs.recover_inplace.
  destruct (recover_total pose compose2 (MRigs.reverse_dict pose inverse R) masters fuel T WT) as [T' E]. rewrite E. discriminate.
Qed.

(* ------------------------------------------------------------------ deciding the hypotheses on concrete data
   (used by the Examples of Props/C06.v to show that the hypotheses of the theorems are satisfiable) *)
Lemma nodupb_NoDup {A} `{EqDec A} (l : list A) : nodupb l = true -> NoDup l.
Proof.
  induction l as [|x l IH]; cbn; [constructor|]. rewrite andb_true_iff, negb_true_iff, memb_not_In.
  intros [N R]. constructor; auto.
Qed.

Lemma wf2b_sound {K1 K2} `{EqDec K1} `{EqDec K2} (m : map2 K1 K2 pose) : wf2b m = true -> wf2 m.
Proof.
  unfold wf2b. rewrite andb_true_iff, forallb_forall. intros [N F]. split; [apply nodupb_NoDup; assumption|].
  intros a i L. apply lookup_Some_In in L. apply nodupb_NoDup. exact (F (a, i) L).
Qed.

Lemma NoDup_map_inj {A B} (f : A -> B) l x y : NoDup (map f l) -> In x l -> In y l -> f x = f y -> x = y.
Proof.
  induction l as [|a l IH]; cbn; [tauto|]. intros N. inversion N as [|? ? NI N']; subst.
  intros [->|Ix] [->|Iy] E; auto.
  - exfalso. apply NI. rewrite E. apply in_map. assumption.
  - exfalso. apply NI. rewrite <- E. apply in_map. assumption.
Qed.

(* each device appears at most once as a member, over all rigs *)
Lemma one_parent_check (R : rigsQ) :
  wf2 R -> nodupb (map (fun x : string * string * pose => snd (fst x)) (flat2 R)) = true -> one_parent R.
Proof.
  intros WR N r r' d g g' M M'. apply nodupb_NoDup in N.
  apply (flat2_lookup2 _ _ _ _ WR) in M, M'.
  assert (E : (r, d, g) = (r', d, g')) by (eapply NoDup_map_inj; [exact N | assumption | assumption | reflexivity]).
  congruence.
Qed.

(* a rank that strictly decreases from a member to its rig bounds the nesting depth *)
Lemma depth_le_rank (R : rigsQ) (rank : string -> nat) n :
  wf2 R ->
  forallb (fun x : string * string * pose => Nat.ltb (rank (fst (fst x))) (rank (snd (fst x)))) (flat2 R) = true ->
  forallb (fun rm : string * al string pose => Nat.ltb (rank (fst rm)) n) R = true -> depth_le R n.
Proof.
  intros WR F1 F2. rewrite forallb_forall in F1, F2.
  assert (A : forall d l top, path_up R d l top -> (rank top + List.length l <= rank d)%nat).
  { induction 1 as [d|d r g l top M PU IH]; cbn; [lia|].
    apply (flat2_lookup2 _ _ _ _ WR) in M. specialize (F1 _ M). cbn in F1. apply Nat.ltb_lt in F1. lia. }
  intros d l top Rd PU. specialize (A d l top PU).
  unfold is_rig, mem in Rd. destruct (lookup d R) as [m|] eqn:L; [|discriminate].
  apply lookup_Some_In in L. specialize (F2 _ L). cbn in F2. apply Nat.ltb_lt in F2. lia.
Qed.

Lemma rigs_nonempty_check (R : rigsQ) :
  forallb (fun rm : string * al string pose => negb (MRigs.is_nil (snd rm))) R = true -> rigs_nonempty R.
Proof.
  rewrite forallb_forall. intros F r m L. apply lookup_Some_In in L. specialize (F _ L). cbn in F.
  destruct m; [discriminate | discriminate].
Qed.

Lemma no_empty_check (T : trajQ) :
  forallb (fun tm : Z * al string pose => negb (MRigs.is_nil (snd tm))) T = true -> no_empty_timestamp T.
Proof.
  rewrite forallb_forall. intros F t m L. apply lookup_Some_In in L. specialize (F _ L). cbn in F.
  destruct m; [discriminate | discriminate].
Qed.

(* trajectories that pose only unmounted devices (top-level rigs, free sensors) have a single source *)
Lemma single_source_unmounted (R : rigsQ) (T : trajQ) :
  wf2 R -> wf2 T ->
  forallb (fun x : Z * string * pose => negb (mounted R (snd (fst x)))) (flat2 T) = true -> single_source R T.
Proof.
  intros WR WT F t a d (l & NE & PU) _ Pd. rewrite forallb_forall in F.
  apply posed_iff in Pd. destruct Pd as [p L]. apply (flat2_lookup2 _ _ _ _ WT) in L. specialize (F _ L). cbn in F.
  inversion PU as [|? r g l' ? M PU']; subst; [congruence|].
  assert (X : mounted R d = true) by (apply mounted_iff; eauto). rewrite X in F. discriminate.
Qed.

Lemma rigs_valid_check (R : rigsQ) :
  wf2 R -> forallb (fun x : string * string * pose => nonzero (snd x)) (flat2 R) = true -> rigs_validQ R.
Proof.
  intros WR F r d g M. rewrite forallb_forall in F. apply (flat2_lookup2 _ _ _ _ WR) in M. specialize (F _ M).
  unfold nonzero in F. cbn [fst snd] in F. apply negb_true_iff in F. unfold MPose.valid. intros C.
  rewrite <- n2_r_eq in C. apply Qeq_bool_iff in C. congruence.
Qed.

(* ------------------------------------------------------------------ a consistent world always exists for the
   classic input: trajectories that pose only top-level rigs and free sensors.  world_f follows the parents
   upwards (n steps suffice for nesting depth n) and composes the mounting poses onto the entry of the root. *)
Definition parent (R : rigsQ) (d : string) : option (string * pose) :=
  match find (fun x : string * string * pose => Eqb.eqb (snd (fst x)) d) (flat2 R) with
  | Some x => Some (fst (fst x), snd x)
  | None => None
  end.
Definition base_pose (T : trajQ) (t : Z) (d : string) : pose :=
  match lookup2 t d T with Some p => p | None => pid end.
Fixpoint world_f (R : rigsQ) (T : trajQ) (n : nat) (t : Z) (d : string) : pose :=
  match n with
  | O => base_pose T t d
  | S k => match parent R d with
           | Some (r, g) => compose2 g (world_f R T k t r)
           | None => base_pose T t d
           end
  end.

Lemma parent_member (R : rigsQ) d r g : wf2 R -> parent R d = Some (r, g) -> member R r d g.
Proof.
  intros WR. unfold parent. destruct (find _ (flat2 R)) as [[[r' d'] g']|] eqn:F; [|discriminate].
  apply find_some in F. destruct F as [I E]. cbn in E. apply eqb_true in E. subst d'. cbn. intros [= <- <-].
  apply (flat2_lookup2 _ _ _ _ WR). assumption.
Qed.

Lemma member_parent (R : rigsQ) r d g : wf2 R -> one_parent R -> member R r d g -> parent R d = Some (r, g).
Proof.
  intros WR OP M. destruct (parent R d) as [[r' g']|] eqn:Pa.
  - pose proof (parent_member R d r' g' WR Pa) as M'. assert (r' = r) by (eapply OP; eassumption). subst r'.
    unfold member in *. congruence.
  - exfalso. unfold parent in Pa. destruct (find _ (flat2 R)) eqn:F; [discriminate|].
    apply (flat2_lookup2 _ _ _ _ WR) in M. pose proof (find_none _ _ F _ M) as C. cbn in C. rewrite Eqb.eqb_refl in C. discriminate.
Qed.

Lemma parent_unmounted (R : rigsQ) d : wf2 R -> mounted R d = false -> parent R d = None.
Proof.
  intros WR NM. destruct (parent R d) as [[r g]|] eqn:Pa; [|reflexivity]. exfalso.
  assert (X : mounted R d = true) by (apply mounted_iff; [assumption|]; exists r, g; eapply parent_member; eassumption).
  congruence.
Qed.

Lemma world_f_stable (R : rigsQ) T t : wf2 R -> forall k d,
  (forall l top, path_up R d l top -> (List.length l <= k)%nat) -> world_f R T k t d = world_f R T (S k) t d.
Proof.
  intros WR. induction k as [|k IH]; intros d B.
  - cbn. destruct (parent R d) as [[r g]|] eqn:Pa; [|reflexivity]. exfalso.
    pose proof (parent_member R d r g WR Pa) as M.
    specialize (B [(r, g)] r (path_cons pose R d r g [] r M (path_nil pose R r))). cbn in B. lia.
  - cbn [world_f]. destruct (parent R d) as [[r g]|] eqn:Pa; [|reflexivity]. f_equal.
    change (world_f R T k t r = world_f R T (S k) t r). apply IH. intros l top PU.
    pose proof (parent_member R d r g WR Pa) as M.
    specialize (B ((r, g) :: l) top (path_cons pose R d r g l top M PU)). cbn in B. lia.
Qed.

Theorem roots_consistent (R : rigsQ) (T : trajQ) n :
  wf2 R -> one_parent R -> depth_le R n -> rigs_validQ R -> traj_validQ T ->
  (forall t d, posed T t d -> mounted R d = false) -> consistent R (world_f R T n) T.
Proof.
  intros WR OP DL RV TV UM. split; [|split].
  - intros t. assert (Vb : forall d, MPose.valid (base_pose T t d)).
    { intros d. unfold base_pose. destruct (lookup2 t d T) as [p|] eqn:L; [eapply TV; eassumption|].
      unfold MPose.valid, pid; cbn [pr]. apply n2_one_nonzero. }
    clear DL. induction n as [|k IH]; intros d; cbn [world_f]; [apply Vb|].
    destruct (parent R d) as [[r g]|] eqn:Pa; [|apply Vb].
    apply rg_compose2_valid; [eapply RV; eapply parent_member; eassumption | apply IH].
  - intros t r d g M. pose proof (member_parent R r d g WR OP M) as Pa.
    destruct n as [|k].
    + exfalso. specialize (DL r [] r (member_is_rig pose R r d g M) (path_nil pose R r)). cbn in DL. lia.
    + assert (E1 : world_f R T (S k) t d = compose2 g (world_f R T k t r)) by (cbn [world_f]; rewrite Pa; reflexivity).
      rewrite E1. rewrite (world_f_stable R T t WR k r); [reflexivity|].
      intros l top PU. specialize (DL r l top (member_is_rig pose R r d g M) PU). lia.
  - intros t d p L. assert (Pa : parent R d = None) by (apply parent_unmounted; [assumption|]; apply (UM t); unfold posed; congruence).
    destruct n; cbn [world_f]; rewrite ?Pa; unfold base_pose; rewrite L; reflexivity.
Qed.

(* recover after remove for the classic input, no world hypothesis left *)
Theorem recover_remove_roots (R : rigsQ) (T : trajQ) n :
  wf2 R -> wf2 T -> one_parent R -> depth_le R n -> (n <= max_depth)%nat -> rigs_nonempty R -> rigs_validQ R ->
  no_empty_timestamp T -> traj_validQ T -> (forall t d, posed T t d -> mounted R d = false) ->
  exists T1 T2,
    remove_spec_inplace max_depth R T = Done T1 /\ recover_spec_inplace max_depth R None T1 = Done T2 /\
    (forall t r p, is_rig R r = true -> lookup2 t r T = Some p -> exists p2, lookup2 t r T2 = Some p2 /\ MPose.peq p2 p) /\
    (forall t d p, is_rig R d = false -> lookup2 t d T = Some p -> lookup2 t d T2 = Some p) /\
    (forall t s p1, lookup2 t s T1 = Some p1 ->
                    exists y l p2 c, path_up R s l y /\ mounted R y = false /\ lookup2 t y T2 = Some p2 /\
                                     compose_list (map snd l ++ [p2]) = Some c /\ MPose.peq p1 c) /\
    (forall t y, mounted R y = true -> lookup2 t y T2 = None).
Proof.
  intros WR WT OP DL Le RN RV NE TV UM.
  pose proof (roots_consistent R T n WR OP DL RV TV UM) as C.
  destruct (recover_remove_pose R T n _ WR WT OP DL Le RN RV NE C) as (T1 & T2 & E1 & E2 & H1 & H2 & H3 & _ & _).
  exists T1, T2. split; [exact E1|]. split; [exact E2|]. split; [|split; [|split; [exact H2 | exact H3]]].
  - intros t r p Rr Lp. apply (H1 t r p Rr); [|assumption]. apply (UM t). unfold posed; congruence.
  - (* a free sensor: untouched by remove (not a rig, nothing above it) and by recover (not mounted) *)
    intros t d p Nd Lp.
    assert (NM : mounted R d = false) by (apply (UM t); unfold posed; congruence).
    pose proof (remove_done_iter _ _ _ _ _ E1) as I1. pose proof (recover_done_iter _ _ _ _ _ _ _ E2) as I2.
    assert (L1 : lookup2 t d T1 = Some p).
    { rewrite (remove_untouched pose compose2 R t d WR Nd max_depth T T1 WT); [assumption | | assumption].
      intros a (l & NEl & PU). exfalso. inversion PU as [|? r g l' ? M PU']; subst; [congruence|].
      assert (X : mounted R d = true) by (apply mounted_iff; eauto). congruence. }
    assert (W1 : wf2 T1) by exact (remove_iter_wf2 pose compose2 R max_depth T T1 WT I1).
    rewrite (recover_nonmember_kept pose compose2 (reverseQ R) None d t NM max_depth T1 T2 W1); [assumption | | assumption].
    unfold posed; congruence.
Qed.

(* recover with a master list, any nesting depth: a chain of masters from a posed device s up to a top-level rig
   (s and every rig strictly between s and top is named in the master list) gets top recovered with its world
   pose, and every device of that tree that was posed keeps the world pose implied by top's entry *)
Theorem recover_masters_chain_pose (R : rigsQ) (T : trajQ) masters world t s l top :
  wf2 R -> wf2 T -> one_parent R -> rigs_validQ R -> consistent R world T ->
  path_up R s l top -> mounted R top = false -> (List.length l <= max_depth)%nat ->
  (forall x, In x (nodes_below pose s l) -> is_master masters x = true) -> posed T t s ->
  exists T2 p2, recover_spec_inplace max_depth R masters T = Done T2 /\ consistent R world T2 /\
    lookup2 t top T2 = Some p2 /\ MPose.peq p2 (world t top) /\
    (forall s' l' p1, path_up R s' l' top -> lookup2 t s' T = Some p1 ->
                      exists c, compose_list (map snd l' ++ [p2]) = Some c /\ MPose.peq p1 c).
Proof.
  intros WR WT OP RV (WV & G & A) PU NT Len HM Ps.
  destruct (recover_total pose compose2 (reverseQ R) masters max_depth T WT) as [T2 E2].
  assert (A2 : agrees pose MPose.peq world T2)
    by exact (@recover_agrees pose MPose.peq MPose.valid compose2 inverse _ _ rg_inverse_cancel R world masters
                WR G WV RV max_depth T T2 A E2).
  pose proof (recover_master_chain pose compose2 inverse R masters WR OP max_depth T T2 t s l top WT E2 PU NT HM Ps Len) as Pt.
  apply posed_iff in Pt. destruct Pt as [p2 L2].
  exists T2, p2. split; [unfold recover_spec_inplace, MRigs.recover_inplace; fold (reverseQ R); rewrite E2; reflexivity|].
  split; [exact (conj WV (conj G A2))|]. split; [exact L2|]. split; [apply A2; exact L2|].
  intros s' l' p1 PU' L1. exists (compose_seq pose compose2 (map snd l' ++ [p2]) p2). split; [apply compose_list_seq|].
  rewrite (compose_seq_path pose MPose.peq MPose.valid compose2 rg_compose2_valid rg_compose2_assoc l' p2 p2);
    [|eapply path_valid; eassumption | rewrite (A2 _ _ _ L2); apply WV].
  rewrite (A _ _ _ L1). rewrite (geom_path pose MPose.peq compose2 R world t G s' l' top PU').
  apply (@comp_path_proper pose MPose.peq compose2 _ _). symmetry. apply A2. exact L2.
Qed.

(* the copying variants: deepcopy is the identity on trajectories without empty timestamps *)
Lemma deepcopy_traj_id {P} (T : MRigs.traj P) : wf T -> no_empty_timestamp T -> deepcopy_traj T = T.
Proof.
  unfold deepcopy_traj. induction T as [|[t m] T IH]; intros W NE; cbn; [reflexivity|].
  unfold wf in W; cbn in W. inversion W as [|? ? NI W']; subst.
  assert (m <> []) by (apply (NE t); cbn; rewrite Eqb.eqb_refl; reflexivity).
  destruct m; [congruence|]. cbn. f_equal. apply IH; [assumption|].
  intros t' m' L. apply (NE t'). cbn. destruct (Eqb.eqb_spec t' t) as [->|N]; [|assumption].
  exfalso. apply NI. apply lookup_In_keys. congruence.
Qed.

(* ------------------------------------------------------------------ from "one live master member per rig and
   timestamp" to a chain of masters.  live = posed or above a posed device. *)
Definition live (R : rigsQ) (T : trajQ) (t : Z) (x : string) : Prop := posed T t x \/ exists d, anc R x d /\ posed T t d.
Definition masters_cover (R : rigsQ) (T : trajQ) (t : Z) masters : Prop :=
  forall r, (exists d, anc R r d /\ posed T t d) ->
            exists m g, member R r m g /\ is_master masters m = true /\ live R T t m.

Lemma anc_is_rig (R : rigsQ) x d : anc R x d -> is_rig R x = true.
Proof.
  intros (l & NE & PU). revert NE. induction PU as [d|d r g l top M PU IH]; [congruence|]. intros _.
  destruct l as [|e l]; [inversion PU; subst; eapply member_is_rig; eassumption | apply IH; discriminate].
Qed.

Lemma master_chain_exists (R : rigsQ) (T : trajQ) t masters n :
  depth_le R n -> masters_cover R T t masters -> forall fuel x l0 y,
  path_up R x l0 y -> (n <= List.length l0 + fuel)%nat -> (exists d, anc R x d /\ posed T t d) ->
  exists s l, path_up R s l x /\ l <> [] /\ posed T t s /\ (forall z, In z (nodes_below pose s l) -> is_master masters z = true).
Proof.
  intros DL MC. induction fuel as [|fuel IH]; intros x l0 y PU0 Le Lx.
  - exfalso. destruct Lx as (d & A & _). specialize (DL x l0 y (anc_is_rig R x d A) PU0). lia.
  - destruct (MC x Lx) as (m & g & M & IM & [Pm|Lm]).
    + exists m, [(x, g)]. split; [econstructor; [eassumption | constructor]|]. split; [discriminate|]. split; [assumption|].
      intros z [<- | []]. assumption.
    + destruct (IH m ((x, g) :: l0) y (path_cons pose R m x g l0 y M PU0)) as (s & l & PU & NE & Ps & HM); [cbn; lia | assumption|].
      exists s, (l ++ [(x, g)]). split; [eapply path_up_snoc; eassumption|]. split; [destruct l; discriminate|]. split; [assumption|].
      intros z Iz. rewrite nodes_below_snoc in Iz.
      assert (D : In z (nodes_below pose s l) \/ z = m).
      { clear - PU Iz NE. unfold nodes_below. revert NE Iz. induction PU as [d|d r g0 l top M0 PU IH]; [congruence|]. intros _ Iz.
        cbn [map fst] in *. change (removelast (d :: r :: map fst l)) with (d :: removelast (r :: map fst l)).
        destruct Iz as [<- | Iz]; [left; left; reflexivity|].
        destruct l as [|e l].
        - inversion PU; subst. cbn in Iz. destruct Iz as [<- | []]. right; reflexivity.
        - destruct (IH ltac:(discriminate) Iz) as [I|E]; [left; right; exact I | right; exact E]. }
      destruct D as [I | ->]; [apply HM; assumption | assumption].
Qed.

(* the quantifier's formulation: masters hit a live member of every rig that has something posed below it; then every
   top-level rig with something posed below it is recovered with its world pose *)
Theorem recover_masters_cover_pose (R : rigsQ) (T : trajQ) masters world t top n :
  wf2 R -> wf2 T -> one_parent R -> depth_le R n -> (n <= max_depth)%nat -> rigs_validQ R -> consistent R world T ->
  masters_cover R T t masters -> mounted R top = false -> (exists d, anc R top d /\ posed T t d) ->
  exists T2 p2, recover_spec_inplace max_depth R masters T = Done T2 /\ consistent R world T2 /\
    lookup2 t top T2 = Some p2 /\ MPose.peq p2 (world t top) /\
    (forall s' l' p1, path_up R s' l' top -> lookup2 t s' T = Some p1 ->
                      exists c, compose_list (map snd l' ++ [p2]) = Some c /\ MPose.peq p1 c).
Proof.
  intros WR WT OP DL Le RV C MC NT Lt.
  destruct (master_chain_exists R T t masters n DL MC n top [] top (path_nil pose R top)) as (s & l & PU & NE & Ps & HM); [cbn; lia | assumption|].
  apply (recover_masters_chain_pose R T masters world t s l top WR WT OP RV C PU NT); auto.
  (* the chain is no longer than the nesting depth *)
  inversion PU as [|? r1 g1 l' ? M1 PU']; subst; [congruence|]. cbn.
  pose proof (DL r1 l' top (member_is_rig pose R r1 s g1 M1) PU'). lia.
Qed.

(* ------------------------------------------------------------------ histories (ONE Rigs, ONE Trajectories object) *)
Section HistoryLemmas.
  Variable P : Type.
  Variable comp : P -> P -> P.
  Variable inv : P -> P.
  Variable fuel : nat.
  Notation hrunP := (MRigs.hrun P comp inv fuel).
  Notation hstateP := (MRigs.hstate P comp inv fuel).
  Notation callP := (MRigs.call P comp inv fuel).

  Lemma hstate_app h1 h2 st : hstateP (h1 ++ h2) st = hstateP h2 (hstateP h1 st).
  Proof. unfold MRigs.hstate. apply fold_left_app. Qed.

  Lemma hrun_app h1 h2 st : hrunP (h1 ++ h2) st = hrunP h1 st ++ hrunP h2 (hstateP h1 st).
  Proof.
    revert st. induction h1 as [|s h1 IH]; intros st; cbn; [reflexivity|].
    rewrite IH, app_assoc. reflexivity.
  Qed.

  (* whatever came before -- calls, edits of the rigs through any path, refills -- a call returns what the function
     returns on the rigs and the trajectories as they are now *)
  Lemma hrun_snoc_call h st k m :
    hrunP (h ++ [SCall k m]) st = hrunP h st ++ [callP k m (fst (hstateP h st)) (snd (hstateP h st))].
  Proof. rewrite hrun_app. cbn. reflexivity. Qed.

  Lemma hrun_same_state h1 h2 st1 st2 k m :
    hstateP h1 st1 = hstateP h2 st2 ->
    last (hrunP (h1 ++ [SCall k m]) st1) KeyErr = last (hrunP (h2 ++ [SCall k m]) st2) KeyErr.
  Proof. intros E. rewrite !hrun_snoc_call, !last_last, E. reflexivity. Qed.
End HistoryLemmas.

(* the inverse law at the end of any history: once the Rigs / Trajectories objects hold (R, T) satisfying the hypotheses
   of recover_remove_pose, `rigs_remove_inplace` followed by the copying `rigs_recover` return what the two functions
   return on (R, T) -- so every conclusion of recover_remove_pose holds for the current geometry R, whatever geometry
   earlier calls have seen *)
Theorem history_recover_remove (h : list (MRigs.step pose)) st (R : rigsQ) (T : trajQ) n world :
  hstate_spec h st = (R, T) ->
  wf2 R -> wf2 T -> one_parent R -> depth_le R n -> (n <= max_depth)%nat -> rigs_nonempty R -> rigs_validQ R ->
  no_empty_timestamp T -> consistent R world T ->
  exists T1 T2,
    hrun_spec (h ++ [SCall KRemoveIp None; SCall KRecover None]) st = hrun_spec h st ++ [Done T1; Done T2] /\
    hstate_spec (h ++ [SCall KRemoveIp None; SCall KRecover None]) st = (R, T1) /\
    remove_spec_inplace max_depth R T = Done T1 /\ recover_spec_inplace max_depth R None T1 = Done T2 /\
    (forall t r p, is_rig R r = true -> mounted R r = false -> lookup2 t r T = Some p ->
                   exists p2, lookup2 t r T2 = Some p2 /\ MPose.peq p2 p) /\
    (forall t s p1, lookup2 t s T1 = Some p1 ->
                    exists y l p2 c, path_up R s l y /\ mounted R y = false /\ lookup2 t y T2 = Some p2 /\
                                     compose_list (map snd l ++ [p2]) = Some c /\ MPose.peq p1 c).
Proof.
  intros ES WR WT OP DL Le RN RV NE C.
  destruct (recover_remove_pose R T n world WR WT OP DL Le RN RV NE C) as (T1 & T2 & E1 & E2 & H1 & H2 & _).
  assert (I1 : MRigs.remove_iter pose compose2 max_depth R T = Some T1) by exact (remove_done_iter _ _ _ _ _ E1).
  assert (W1 : wf2 T1) by exact (remove_iter_wf2 pose compose2 R max_depth T T1 WT I1).
  assert (NE1 : no_empty_timestamp T1)
    by exact (remove_no_empty pose compose2 R WR RN (depth_no_self pose R n DL) max_depth T T1 NE I1).
  assert (D1 : deepcopy_traj T1 = T1) by (apply deepcopy_traj_id; [apply W1 | exact NE1]).
  exists T1, T2.
  unfold hrun_spec, hstate_spec in *.
  rewrite hrun_app, hstate_app, ES. cbn.
  unfold remove_spec_inplace, recover_spec_inplace in E1, E2.
  rewrite E1. cbn. unfold deepcopy_traj in D1. rewrite D1, E2.
  repeat split; try reflexivity; assumption.
Qed.
