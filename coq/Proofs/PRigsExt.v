(* Proofs/PRigsExt.v — further lemmas about Model/MRigs.v (property C06), on top of Proofs/PRigs.v:
     * the max_depth argument (fuel) of rigs_remove_inplace / rigs_recover_inplace: iterations compose
       (remove_iter (a + b) = remove_iter b after remove_iter a) and, once the fuel is at least the nesting depth, the
       outcome does not depend on it (literal equality of outcomes);
     * what must NOT change: trajectories without a posed rig are returned literally unchanged by rigs_remove, trajectories
       without a posed mounted device literally unchanged by rigs_recover (any master list, any max_depth);
       hence both operations are idempotent;
     * the error branch: no posed rig but an empty timestamp -> RuntimeError, first empty timestamp deleted;
     * the other round trip: remove o recover o remove gives every sensor the pose the first remove gave it. *)
From Coq Require Import List Bool String ZArith QArith Lia Morphisms.
From KV Require Import Eqb AL Str.
From KV.Model Require Import MQV MPose MRigs.
From KV.Proofs Require Import PQV PRigs.
Import ListNotations.
Local Open Scope string_scope.
Local Open Scope list_scope.

Section Ext.
  Variable P : Type.
  Variable comp : P -> P -> P.
  Variable inv : P -> P.
  Notation rigs := (MRigs.rigs P).
  Notation traj := (MRigs.traj P).
  Implicit Types (R : rigs) (T : traj) (t : Z) (d r s : string).
  Notation remove_iter := (MRigs.remove_iter P comp).
  Notation recover_iter := (MRigs.recover_iter P comp).
  Notation remove_inplace := (MRigs.remove_inplace P comp).
  Notation recover_inplace := (MRigs.recover_inplace P comp inv).

  Definition no_rig_posed R T : Prop := forall t r, is_rig R r = true -> lookup2 t r T = None.
  Definition no_member_posed (rev : al string (string * P)) T : Prop := forall t y, mem y rev = true -> lookup2 t y T = None.

  (* ---------------------------------------------------------------- rigs_remove *)
  Lemma remove_jobs_nil R T : wf2 T -> no_rig_posed R T -> MRigs.remove_jobs P R T = [].
  Proof.
    intros WT N. destruct (MRigs.remove_jobs P R T) as [|[[t r] w] js] eqn:EJ; [reflexivity|]. exfalso.
    assert (I : In (t, r, w) (MRigs.remove_jobs P R T)) by (rewrite EJ; left; reflexivity).
    apply remove_jobs_In in I; [|assumption]. destruct I as [L Rr]. rewrite (N t r Rr) in L. discriminate.
  Qed.

  Lemma remove_iter_noop fuel R T : wf2 T -> no_rig_posed R T -> remove_iter fuel R T = Some T.
  Proof. intros WT N. destruct fuel; cbn [MRigs.remove_iter]; [reflexivity|]. rewrite remove_jobs_nil; auto. Qed.

  (* a + b iterations = a iterations, then b more (the early `break` included) *)
  Lemma remove_iter_add a : forall b R T,
    remove_iter (a + b) R T = match remove_iter a R T with Some T' => remove_iter b R T' | None => None end.
  Proof.
    induction a as [|a IH]; intros b R T; cbn [plus MRigs.remove_iter]; [reflexivity|].
    destruct (MRigs.remove_jobs P R T) as [|j0 js] eqn:EJ.
    - destruct b; cbn [MRigs.remove_iter]; [reflexivity | rewrite EJ; reflexivity].
    - destruct (run_jobs P (MRigs.run_remove_job P comp R) (j0 :: js) T); [apply IH | reflexivity].
  Qed.

  Theorem remove_iter_fuel_irrelevant R n fuel T :
    wf2 R -> wf2 T -> depth_le R n -> (n <= fuel)%nat -> remove_iter fuel R T = remove_iter n R T.
  Proof.
    intros WR WT DL Le. replace fuel with (n + (fuel - n))%nat by lia. rewrite remove_iter_add.
    destruct (remove_iter n R T) as [T1|] eqn:E; [|reflexivity]. apply remove_iter_noop.
    - eapply remove_iter_wf2; eassumption.
    - intros t r Rr. eapply (remove_no_rig_left P comp R n n T T1); eauto.
  Qed.

  Theorem remove_fuel_irrelevant R n fuel T :
    wf2 R -> wf2 T -> depth_le R n -> (n <= fuel)%nat -> remove_inplace fuel R T = remove_inplace n R T.
  Proof. intros. unfold MRigs.remove_inplace. rewrite (remove_iter_fuel_irrelevant R n fuel T); auto. Qed.

  Theorem remove_noop fuel R T :
    wf2 T -> no_empty_timestamp T -> no_rig_posed R T -> remove_inplace fuel R T = Done T.
  Proof.
    intros WT NE N. unfold MRigs.remove_inplace. rewrite remove_iter_noop; auto.
    rewrite first_empty_None; [reflexivity | apply WT | assumption].
  Qed.

  (* the error branch: nothing to replace, but some timestamp is empty *)
  Theorem remove_empty_timestamp_raises fuel R T t :
    wf2 T -> no_rig_posed R T -> MRigs.first_empty P T = Some t -> remove_inplace fuel R T = RuntimeErr (AL.remove t T).
  Proof. intros WT N F. unfold MRigs.remove_inplace. rewrite remove_iter_noop; auto. rewrite F. reflexivity. Qed.

  (* ---------------------------------------------------------------- rigs_recover *)
  Lemma recover_jobs_nil rev T : wf2 T -> no_member_posed rev T -> MRigs.recover_jobs P rev T = [].
  Proof.
    intros WT N. destruct (MRigs.recover_jobs P rev T) as [|[t s] js] eqn:EJ; [reflexivity|]. exfalso.
    assert (I : In (t, s) (MRigs.recover_jobs P rev T)) by (rewrite EJ; left; reflexivity).
    apply recover_jobs_In in I; [|assumption]. destruct I as [Ps M]. apply Ps. apply N. assumption.
  Qed.

  Lemma recover_iter_noop fuel rev masters T : wf2 T -> no_member_posed rev T -> recover_iter fuel rev masters T = Some T.
  Proof. intros WT N. destruct fuel; cbn [MRigs.recover_iter]; [reflexivity|]. rewrite recover_jobs_nil; auto. Qed.

  Lemma recover_iter_add a : forall b rev masters T,
    recover_iter (a + b) rev masters T =
    match recover_iter a rev masters T with Some T' => recover_iter b rev masters T' | None => None end.
  Proof.
    induction a as [|a IH]; intros b rev masters T; cbn [plus MRigs.recover_iter]; [reflexivity|].
    destruct (MRigs.recover_jobs P rev T) as [|j0 js] eqn:EJ.
    - destruct b; cbn [MRigs.recover_iter]; [reflexivity | rewrite EJ; reflexivity].
    - destruct (run_jobs P (MRigs.run_recover_job P comp rev masters) (j0 :: js) T); [apply IH | reflexivity].
  Qed.

  Theorem recover_iter_fuel_irrelevant R n fuel masters T :
    wf2 R -> wf2 T -> depth_le R n -> (n <= fuel)%nat ->
    recover_iter fuel (MRigs.reverse_dict P inv R) masters T = recover_iter n (MRigs.reverse_dict P inv R) masters T.
  Proof.
    intros WR WT DL Le. replace fuel with (n + (fuel - n))%nat by lia. rewrite recover_iter_add.
    destruct (recover_iter n (MRigs.reverse_dict P inv R) masters T) as [T1|] eqn:E; [|reflexivity]. apply recover_iter_noop.
    - eapply recover_iter_wf2; eassumption.
    - intros t y My.
      apply (recover_no_member_left P comp inv R n masters WR DL n 0%nat T T1 WT (below_0 P inv R T)); [lia | assumption | assumption].
  Qed.

  Theorem recover_fuel_irrelevant R n fuel masters T :
    wf2 R -> wf2 T -> depth_le R n -> (n <= fuel)%nat -> recover_inplace fuel R masters T = recover_inplace n R masters T.
  Proof. intros. unfold MRigs.recover_inplace. rewrite (recover_iter_fuel_irrelevant R n fuel masters T); auto. Qed.

  Theorem recover_noop fuel R masters T :
    wf2 T -> no_member_posed (MRigs.reverse_dict P inv R) T -> recover_inplace fuel R masters T = Done T.
  Proof. intros WT N. unfold MRigs.recover_inplace. rewrite recover_iter_noop; auto. Qed.

  (* ---------------------------------------------------------------- idempotence *)
  (* whenever rigs_remove_inplace returns normally with max_depth >= nesting depth, its result is a fixed point of
     rigs_remove_inplace for every max_depth: literally the same trajectories come back *)
  Theorem remove_idempotent R n fuel fuel' T T' :
    wf2 R -> wf2 T -> depth_le R n -> (n <= fuel)%nat ->
    remove_inplace fuel R T = Done T' -> remove_inplace fuel' R T' = Done T'.
  Proof.
    intros WR WT DL Le E. unfold MRigs.remove_inplace in E.
    destruct (remove_iter fuel R T) as [T0|] eqn:EI; [|discriminate].
    destruct (MRigs.first_empty P T0) eqn:F; [discriminate|]. injection E as <-.
    unfold MRigs.remove_inplace. rewrite remove_iter_noop; [rewrite F; reflexivity | eapply remove_iter_wf2; eassumption|].
    intros t r Rr. eapply (remove_no_rig_left P comp R n fuel T T0); eauto.
  Qed.

  (* the same for rigs_recover_inplace, whatever the two master lists and the second max_depth *)
  Theorem recover_idempotent R n fuel fuel' masters masters' T T2 :
    wf2 R -> wf2 T -> depth_le R n -> (n <= fuel)%nat ->
    recover_inplace fuel R masters T = Done T2 -> recover_inplace fuel' R masters' T2 = Done T2.
  Proof.
    intros WR WT DL Le E. apply recover_done_iter in E. apply recover_noop.
    - eapply recover_iter_wf2; eassumption.
    - intros t y My.
      apply (recover_no_member_left P comp inv R n masters WR DL fuel 0%nat T T2 WT (below_0 P inv R T)); [lia | assumption | assumption].
  Qed.

  (* ---------------------------------------------------------------- recover without a master list empties no timestamp *)
  Lemma insert_not_nil {K V} `{EqDec K} (k : K) (v : V) (m : al K V) : insert k v m <> [].
  Proof. intros E. pose proof (lookup_insert_eq k v m) as L. rewrite E in L. discriminate. Qed.

  Lemma rjob_no_empty rev j T T' :
    no_empty_timestamp T -> MRigs.run_recover_job P comp rev None j T = Some T' -> no_empty_timestamp T'.
  Proof.
    destruct j as [t s]. intros NE. unfold MRigs.run_recover_job.
    destruct (lookup s rev) as [[r gi]|]; [|discriminate].
    destruct (lookup t T) as [m|] eqn:ET; [|discriminate].
    destruct (lookup s m) as [p|]; [|discriminate]. cbn [is_master negb].
    destruct (mem r (AL.remove s m)) eqn:Mr; intros [= <-]; intros t' m' L.
    - destruct (Z.eq_dec t' t) as [->|Ne].
      + rewrite lookup_insert_eq in L. injection L as <-. intros E. rewrite E in Mr. discriminate.
      + rewrite lookup_insert_neq in L by assumption. eapply NE; eassumption.
    - unfold set2 in L. rewrite lookup_insert_eq in L. destruct (Z.eq_dec t' t) as [->|Ne].
      + rewrite lookup_insert_eq in L. injection L as <-. apply insert_not_nil.
      + rewrite !lookup_insert_neq in L by assumption. eapply NE; eassumption.
  Qed.

  Lemma rjobs_no_empty rev js : forall T T',
    no_empty_timestamp T -> run_jobs P (MRigs.run_recover_job P comp rev None) js T = Some T' -> no_empty_timestamp T'.
  Proof.
    induction js as [|j js IH]; cbn; intros T T' NE E; [injection E as <-; assumption|].
    destruct (MRigs.run_recover_job P comp rev None j T) as [T1|] eqn:E1; [|discriminate].
    eapply IH; [eapply rjob_no_empty; eassumption | eassumption].
  Qed.

  Theorem recover_no_empty rev : forall fuel T T',
    no_empty_timestamp T -> recover_iter fuel rev None T = Some T' -> no_empty_timestamp T'.
  Proof.
    induction fuel as [|fuel IH]; cbn [MRigs.recover_iter]; intros T T' NE E; [injection E as <-; assumption|].
    destruct (MRigs.recover_jobs P rev T) as [|j0 js]; [injection E as <-; assumption|].
    destruct (run_jobs P (MRigs.run_recover_job P comp rev None) (j0 :: js) T) as [T1|] eqn:E1; [|discriminate].
    eapply IH; [eapply rjobs_no_empty; eassumption | eassumption].
  Qed.
End Ext.

(* ------------------------------------------------------------------ the other round trip, for MPose:
   T1 = remove T, T2 = recover T1 (no master list), T3 = remove T2: every sensor posed in T1 is posed in T3 with the same
   pose (=p=), and T3 holds no rig.  (T3 may pose MORE sensors than T1: a rig recovered from one posed member is replaced
   by all its members.) *)
Theorem remove_recover_remove_pose (R : rigsQ) (T : trajQ) n world :
  wf2 R -> wf2 T -> one_parent R -> depth_le R n -> (n <= max_depth)%nat -> rigs_nonempty R -> rigs_validQ R ->
  no_empty_timestamp T -> consistent R world T ->
  exists T1 T2 T3,
    remove_spec_inplace max_depth R T = Done T1 /\ recover_spec_inplace max_depth R None T1 = Done T2 /\
    remove_spec_inplace max_depth R T2 = Done T3 /\
    (forall t s p1, lookup2 t s T1 = Some p1 -> exists p3, lookup2 t s T3 = Some p3 /\ MPose.peq p3 p1) /\
    (forall t r, is_rig R r = true -> lookup2 t r T3 = None) /\
    consistent R world T3.
Proof.
  intros WR WT OP DL Le RN RV NE (WV & G & A).
  destruct (@recover_remove_gen pose MPose.peq MPose.valid compose2 inverse _ _
              rg_inverse_cancel R T n max_depth max_depth world WR WT OP DL Le Le RN RV WV G A)
    as (T1 & T2 & E1 & E2 & _ & H2 & H3 & A1 & A2).
  pose proof (depth_no_self pose R n DL) as NS.
  assert (W1 : wf2 T1) by exact (remove_iter_wf2 pose compose2 R max_depth T T1 WT E1).
  assert (NE1 : no_empty_timestamp T1) by exact (remove_no_empty pose compose2 R WR RN NS max_depth T T1 NE E1).
  assert (W2 : wf2 T2) by exact (recover_iter_wf2 pose compose2 _ None max_depth T1 T2 W1 E2).
  assert (NE2 : no_empty_timestamp T2) by exact (recover_no_empty pose compose2 _ max_depth T1 T2 NE1 E2).
  assert (NR1 : forall t r, is_rig R r = true -> lookup2 t r T1 = None)
    by exact (remove_no_rig_left pose compose2 R n max_depth T T1 WR WT DL Le E1).
  assert (SS2 : single_source R T2).
  { intros t a d (l & Nl & PU) _ Pd. apply Pd. apply H3.
    inversion PU as [|? r g l' ? M PU']; subst; [congruence|].
    apply (rev_mem pose inverse R d WR). exists r, g. exact M. }
  destruct (remove_spec_gen pose compose2 R T2 n max_depth WR W2 OP DL Le RN NE2 SS2)
    as (T3 & E3 & K1 & _ & K3 & _ & W3 & _).
  exists T1, T2, T3. split; [|split; [|split; [exact E3|split; [|split; [exact K1|]]]]].
  - unfold remove_spec_inplace, MRigs.remove_inplace. rewrite E1. rewrite first_empty_None; [reflexivity | apply W1 | assumption].
  - unfold recover_spec_inplace, MRigs.recover_inplace. rewrite E2. reflexivity.
  - intros t s p1 L1. destruct (H2 t s p1 L1) as (y & l & p2 & PU & _ & L2 & Eq).
    exists (comp_path pose compose2 l p2). split; [|symmetry; exact Eq].
    apply (K3 t s l y p2); [|assumption|assumption].
    destruct (is_rig R s) eqn:Rs; [|reflexivity]. rewrite (NR1 t s Rs) in L1. discriminate.
  - split; [exact WV|]. split; [exact G|].
    apply remove_done_iter in E3. exact (remove_agrees pose MPose.peq compose2 R world WR G max_depth T2 T3 W2 A2 E3).
Qed.
