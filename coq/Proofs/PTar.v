(* Proofs/PTar.v — lemmas about Model/MTar.v (property C12). *)
From Coq Require Import List Bool String Ascii NArith Arith Permutation Lia.
From KV Require Import Eqb AL Str.
From KV.Model Require Import MTar.
Import ListNotations.
Local Open Scope string_scope.
Local Open Scope list_scope.

(* ------------------------------------------------------------------ small facts *)
Lemma option_ext {A} (x y : option A) : (forall b, x = Some b <-> y = Some b) -> x = y.
Proof.
  intros H. destruct x as [a|], y as [b|]; try reflexivity.
  - symmetry. exact (proj1 (H a) eq_refl).
  - discriminate (proj1 (H a) eq_refl).
  - discriminate (proj2 (H b) eq_refl).
Qed.

Lemma slength_app (a b : string) : String.length (a ++ b)%string = String.length a + String.length b.
Proof. induction a as [|c a IH]; cbn; [reflexivity | rewrite IH; reflexivity]. Qed.

Lemma substring_0_0 (s : string) : substring 0 0 s = EmptyString.
Proof. destruct s; reflexivity. Qed.

Lemma substring_prefix (a b : string) : substring 0 (String.length a) (a ++ b)%string = a.
Proof. induction a as [|c a IH]; cbn; [apply substring_0_0 | rewrite IH; reflexivity]. Qed.

Lemma substring_all (s : string) : substring 0 (String.length s) s = s.
Proof. induction s as [|c s IH]; cbn; [reflexivity | rewrite IH; reflexivity]. Qed.

(* n[:-len(ext)] gives the image name back *)
Lemma strip_ext_app (ext i : string) : strip_ext ext (i ++ ext)%string = i.
Proof.
  unfold strip_ext. rewrite slength_app.
  replace (String.length i + String.length ext - String.length ext) with (String.length i) by lia.
  apply substring_prefix.
Qed.

(* both decoders agree on a file that holds whole elements *)
Lemma decode_agree isz dsz b : N.modulo (blen b) isz = 0%N -> decode_tar isz dsz b = decode_dir isz dsz b.
Proof.
  intros M. unfold decode_tar, decode_dir.
  destruct (N.eqb isz 0 || N.eqb dsz 0) eqn:Z; [reflexivity|].
  apply orb_false_iff in Z. destruct Z as [Z1 _]. apply N.eqb_neq in Z1.
  rewrite M. cbn [N.eqb negb].
  destruct (N.eqb (N.modulo (N.div (blen b) isz) dsz) 0); [|reflexivity].
  f_equal.
  assert (E : (N.div (blen b) isz * isz = blen b)%N).
  { rewrite N.mul_comm. symmetry. apply N.div_exact; assumption. }
  rewrite E. unfold blen. rewrite Nnat.Nat2N.id. symmetry. apply substring_all.
Qed.

Lemma In_list_all ext (K1 K2 : list name) :
  (forall k, In k K1 <-> In k K2) -> forall i, In i (list_all ext K1) <-> In i (list_all ext K2).
Proof.
  intros H i. unfold list_all. rewrite !in_map_iff.
  split; intros [n [E I]]; exists n; (split; [assumption|]); apply filter_In in I; apply filter_In;
    destruct I as [I F]; (split; [apply H; assumption | assumption]).
Qed.

Lemma In_pairs_all ext sep (K1 K2 : list name) :
  (forall k, In k K1 <-> In k K2) -> forall p, In p (pairs_all ext sep K1) <-> In p (pairs_all ext sep K2).
Proof.
  intros H p. unfold pairs_all. rewrite !in_flat_map.
  split; intros [n [I P]]; exists n; (split; [|assumption]); apply filter_In in I; apply filter_In;
    destruct I as [I F]; (split; [apply H; assumption | assumption]).
Qed.

Section NormProofs.
  Variable norm : name -> name.
  Hypothesis norm_idem : forall n, norm (norm n) = norm n.

  Notation put := (MTar.put norm).
  Notation apply_ops := (MTar.apply_ops norm).
  Notation view := (MTar.view norm).
  Notation nentry := (MTar.nentry norm).
  Notation last_write := (MTar.last_write norm).
  Definition nkey (e : entry) : name := norm (fst e).

  (* ---------------------------------------------------------------- the member index *)
  Lemma apply_ops_app m a b : apply_ops m (a ++ b) = apply_ops (apply_ops m a) b.
  Proof. apply fold_left_app. Qed.

  Lemma view_app l l' : view (l ++ l') = apply_ops (view l) l'.
  Proof. apply apply_ops_app. Qed.

  Lemma lookup_put n m e : lookup n (put m e) = if eqb n (norm (fst e)) then Some (snd e) else lookup n m.
  Proof. apply lookup_insert. Qed.

  (* latest version wins, whatever the history *)
  Lemma lookup_apply_ops n ops : forall m,
    lookup n (apply_ops m ops) = match last_write n ops with Some b => Some b | None => lookup n m end.
  Proof.
    induction ops as [|e r IH]; intros m; [reflexivity|].
    change (apply_ops m (e :: r)) with (apply_ops (put m e) r). rewrite IH. cbn [MTar.last_write].
    destruct (last_write n r); [reflexivity|]. rewrite lookup_put. destruct (eqb n (norm (fst e))); reflexivity.
  Qed.

  Lemma lookup_view n l : lookup n (view l) = last_write n l.
  Proof. unfold MTar.view. rewrite lookup_apply_ops. destruct (last_write n l); reflexivity. Qed.

  Lemma put_nentry m e : put m (nentry e) = put m e.
  Proof. unfold MTar.put, MTar.nentry. cbn [fst snd]. rewrite norm_idem. reflexivity. Qed.

  Lemma apply_ops_nentry ops : forall m, apply_ops m (map nentry ops) = apply_ops m ops.
  Proof.
    induction ops as [|e r IH]; intros m; [reflexivity|].
    cbn [map]. change (apply_ops (put m (nentry e)) (map nentry r) = apply_ops (put m e) r).
    rewrite put_nentry. apply IH.
  Qed.

  Lemma wf_apply_ops ops : forall m, wf m -> wf (apply_ops m ops).
  Proof.
    induction ops as [|e r IH]; intros m W; [assumption|].
    change (apply_ops m (e :: r)) with (apply_ops (put m e) r). apply IH. apply wf_insert; assumption.
  Qed.

  Lemma wf_view l : wf (view l).
  Proof. apply wf_apply_ops. apply wf_nil. Qed.

  Lemma In_keys_apply_ops k ops : forall m,
    In k (keys (apply_ops m ops)) <-> In k (keys m) \/ In k (map nkey ops).
  Proof.
    induction ops as [|e r IH]; intros m; [cbn; tauto|].
    change (apply_ops m (e :: r)) with (apply_ops (put m e) r). rewrite IH. unfold MTar.put.
    rewrite In_keys_insert. cbn [map In]. unfold nkey. intuition congruence.
  Qed.

  Lemma In_keys_view k l : In k (keys (view l)) <-> In k (map nkey l).
  Proof. unfold MTar.view. rewrite In_keys_apply_ops. cbn. tauto. Qed.

  (* the index only grows, and in place: names keep their position, new names go last *)
  Lemma keys_apply_ops_prefix ops : forall m, exists t, keys (apply_ops m ops) = keys m ++ t.
  Proof.
    induction ops as [|e r IH]; intros m; [exists []; symmetry; apply app_nil_r|].
    change (apply_ops m (e :: r)) with (apply_ops (put m e) r).
    destruct (IH (put m e)) as [t E]. rewrite E. unfold MTar.put.
    destruct (in_dec string_dec (norm (fst e)) (keys m)) as [I|NI].
    - rewrite keys_insert_mem by assumption. exists t; reflexivity.
    - rewrite keys_insert_new by assumption. exists ([norm (fst e)] ++ t). rewrite app_assoc. reflexivity.
  Qed.

  (* ---------------------------------------------------------------- append *)
  Lemma append_visible l n b :
    lookup (norm n) (view (MTar.append norm l n b)) = Some b /\
    (forall m, m <> norm n -> lookup m (view (MTar.append norm l n b)) = lookup m (view l)).
  Proof.
    unfold MTar.append. rewrite view_app. split.
    - rewrite lookup_apply_ops. cbn. rewrite norm_idem, eqb_refl. reflexivity.
    - intros m N. rewrite lookup_apply_ops. cbn. rewrite norm_idem.
      apply neq_eqb in N. rewrite N. reflexivity.
  Qed.

  Lemma append_keeps_names l n b k : In k (keys (view l)) -> In k (keys (view (MTar.append norm l n b))).
  Proof. unfold MTar.append. rewrite view_app, In_keys_apply_ops. tauto. Qed.

  (* ---------------------------------------------------------------- members with header fields and links *)
  Notation flat1 := (MTar.flat1 norm).
  Notation flatten := (MTar.flatten norm).
  Definition inl' (e : entry) : name * (bytes + name) := (fst e, inl (snd e)).
  Definition rehdr (f : member -> hdr) (m : member) : member := (m_name m, f m, m_pay m).
  Arguments rehdr : simpl never.
  Definition nosym (ms : list member) : Prop := forallb (fun m => negb (is_sym m)) ms = true.
  Definition reg (e : entry) : member := (norm (fst e), hdr0, PBytes (snd e)).

  Lemma flat1_rehdr f ms : forall acc, flat1 acc (map (rehdr f) ms) = flat1 acc ms.
  Proof.
    induction ms as [|[[n h] p] r IH]; intros acc; [reflexivity|].
    cbn [map]. unfold rehdr at 1.
    destruct p as [b|t|t]; cbn; rewrite ?IH; try reflexivity.
    destruct (lookup (norm t) acc); rewrite ?IH; reflexivity.
  Qed.

  Lemma flatten_rehdr f ms : flatten (map (rehdr f) ms) = flatten ms.
  Proof. unfold MTar.flatten. rewrite flat1_rehdr. reflexivity. Qed.

  Lemma solid_inl lg : solid (map inl' lg) = lg.
  Proof. induction lg as [|[n b] r IH]; [reflexivity|]. cbn. unfold solid in IH. rewrite IH. reflexivity. Qed.

  Lemma flat2_inl lg : flat2 norm (map inl' lg) = lg.
  Proof.
    unfold flat2. generalize (MTar.view norm (solid (map inl' lg))). intro final.
    induction lg as [|[n b] r IH]; [reflexivity|]. cbn. rewrite IH. reflexivity.
  Qed.

  Lemma flat1_nosym ms : nosym ms -> forall acc, flat1 acc ms = map inl' (solid (flat1 acc ms)).
  Proof.
    unfold nosym. induction ms as [|[[n h] p] r IH]; intros NS acc; [reflexivity|].
    cbn [forallb] in NS. apply andb_true_iff in NS. destruct NS as [N1 NS].
    cbn [MTar.flat1 m_pay m_name fst snd]. destruct p as [b|t|t].
    - cbn. unfold solid in IH. rewrite <- IH by assumption. reflexivity.
    - destruct (lookup (norm t) acc); [|apply IH; assumption].
      cbn. unfold solid in IH. rewrite <- IH by assumption. reflexivity.
    - discriminate.
  Qed.

  Lemma flatten_nosym ms : nosym ms -> flatten ms = solid (flat1 [] ms).
  Proof. intros NS. unfold MTar.flatten. rewrite (flat1_nosym ms NS). rewrite flat2_inl, solid_inl. reflexivity. Qed.

  Fixpoint acc_after (acc : index) (ms : list member) : index :=
    match ms with
    | [] => acc
    | m :: r => match m_pay m with
                | PBytes b => acc_after (insert (norm (m_name m)) b acc) r
                | PHard t => match lookup (norm t) acc with
                             | Some b => acc_after (insert (norm (m_name m)) b acc) r
                             | None => acc_after acc r
                             end
                | PSym _ => acc_after acc r
                end
    end.

  Lemma flat1_app a b : forall acc, flat1 acc (a ++ b) = flat1 acc a ++ flat1 (acc_after acc a) b.
  Proof.
    induction a as [|[[n h] p] r IH]; intros acc; [reflexivity|].
    cbn [app MTar.flat1 acc_after m_pay m_name fst snd]. destruct p as [x|t|t].
    - rewrite IH. reflexivity.
    - destruct (lookup (norm t) acc); rewrite IH; reflexivity.
    - rewrite IH. reflexivity.
  Qed.

  Lemma flat1_regs ops : forall acc, flat1 acc (map reg ops) = map inl' (map nentry ops).
  Proof.
    induction ops as [|e r IH]; intros acc; [reflexivity|].
    cbn [map]. unfold reg at 1. cbn [MTar.flat1 m_pay m_name fst snd]. rewrite IH. reflexivity.
  Qed.

  Lemma nosym_app a b : nosym a -> nosym b -> nosym (a ++ b).
  Proof. unfold nosym. intros A B. rewrite forallb_app, A, B. reflexivity. Qed.

  Lemma nosym_regs ops : nosym (map reg ops).
  Proof. unfold nosym. induction ops as [|e r IH]; [reflexivity|]. cbn. exact IH. Qed.

  (* members appended by kapture simply extend what a reader gets (no symlink in the archive: a symlink would follow them) *)
  Lemma flatten_app_regular ms ops : nosym ms -> flatten (ms ++ map reg ops) = flatten ms ++ map nentry ops.
  Proof.
    intros NS. rewrite (flatten_nosym _ (nosym_app _ _ NS (nosym_regs ops))), (flatten_nosym _ NS).
    rewrite flat1_app, flat1_regs. unfold solid at 1. rewrite flat_map_app. fold (solid (flat1 [] ms)).
    f_equal. apply solid_inl.
  Qed.

  Lemma mappend_visible ms n b : nosym ms ->
    lookup (norm n) (MTar.mview norm (MTar.mappend norm ms n b)) = Some b /\
    (forall m, m <> norm n -> lookup m (MTar.mview norm (MTar.mappend norm ms n b)) = lookup m (MTar.mview norm ms)).
  Proof.
    intros NS. unfold MTar.mview, MTar.mappend.
    change [(norm n, hdr0, PBytes b)] with (map reg [(n, b)]). rewrite flatten_app_regular by assumption.
    apply (append_visible (flatten ms) n b).
  Qed.

  (* packing a folder with hard links: what a reader gets is the folder, path by path *)
  Lemma flat1_pack_hl ld : forall seen acc,
    (forall x, In x ld -> norm (fst (fst x)) = fst (fst x)) ->
    NoDup (map (fun x => fst (fst x)) ld) ->
    (forall x y, In x ld -> In y ld -> snd (fst x) = snd (fst y) -> snd x = snd y) ->
    (forall i t, lookup i seen = Some t ->
       norm t = t /\ ~ In t (map (fun x => fst (fst x)) ld) /\
       exists b, lookup t acc = Some b /\ forall x, In x ld -> snd (fst x) = i -> snd x = b) ->
    flat1 acc (pack_hl_go seen ld) = map inl' (ldir_entries ld).
  Proof.
    induction ld as [|[[n i] b] r IH]; intros seen acc NN ND IOK INV; [reflexivity|].
    cbn [map fst snd] in ND. inversion ND as [|? ? NI ND']; subst.
    assert (Nn : norm n = n) by (apply (NN (n, i, b)); left; reflexivity).
    assert (NNr : forall x, In x r -> norm (fst (fst x)) = fst (fst x)) by (intros x I; apply NN; right; exact I).
    assert (IOKr : forall x y, In x r -> In y r -> snd (fst x) = snd (fst y) -> snd x = snd y)
      by (intros x y Ix Iy; apply IOK; right; assumption).
    cbn [pack_hl_go]. destruct (lookup i seen) as [t|] eqn:L.
    - destruct (INV i t L) as [Nt [NIt [b0 [Lb Hb]]]].
      assert (E : b = b0) by (apply (Hb (n, i, b)); [left; reflexivity | reflexivity]). subst b0.
      cbn [MTar.flat1 m_pay m_name fst snd]. rewrite Nt, Lb, Nn. cbn [ldir_entries map fst snd]. unfold inl' at 1. cbn [fst snd].
      f_equal. apply IH; try assumption.
      intros i' t' L'. destruct (INV i' t' L') as [Nt' [NIt' [b' [Lb' Hb']]]].
      split; [assumption|]. split; [intro I; apply NIt'; right; exact I|].
      exists b'. split; [|intros x I; apply Hb'; right; exact I].
      rewrite lookup_insert_neq; [assumption|]. intros ->. apply NIt'. left. reflexivity.
    - cbn [MTar.flat1 m_pay m_name fst snd]. rewrite Nn. cbn [ldir_entries map fst snd]. unfold inl' at 1. cbn [fst snd].
      f_equal. apply IH; try assumption.
      intros i' t' L'. cbn [lookup] in L'. destruct (eqb_spec i' i) as [->|Ni].
      + injection L' as <-. split; [assumption|]. split; [assumption|].
        exists b. split; [apply lookup_insert_eq|].
        intros x I Ex. symmetry. apply (IOK (n, i, b) x); [left; reflexivity | right; exact I | symmetry; exact Ex].
      + destruct (INV i' t' L') as [Nt' [NIt' [b' [Lb' Hb']]]].
        split; [assumption|]. split; [intro I; apply NIt'; right; exact I|].
        exists b'. split; [|intros x I; apply Hb'; right; exact I].
        rewrite lookup_insert_neq; [assumption|]. intros ->. apply NIt'. left. reflexivity.
  Qed.

  Lemma flatten_pack_hl ld :
    (forall x, In x ld -> norm (fst (fst x)) = fst (fst x)) ->
    NoDup (map (fun x => fst (fst x)) ld) ->
    (forall x y, In x ld -> In y ld -> snd (fst x) = snd (fst y) -> snd x = snd y) ->
    flatten (pack_hl ld) = ldir_entries ld.
  Proof.
    intros NN ND IOK. unfold MTar.flatten, pack_hl.
    assert (H : flat1 [] (pack_hl_go [] ld) = map inl' (ldir_entries ld)).
    { apply flat1_pack_hl; try assumption. intros i t L. discriminate L. }
    rewrite H. apply flat2_inl.
  Qed.

  (* ---------------------------------------------------------------- packing a folder *)
  Lemma last_write_In n ops :
    NoDup (map nkey ops) -> forall b, (last_write n ops = Some b <-> In (n, b) (map nentry ops)).
  Proof.
    induction ops as [|e r IH]; intros ND b; [cbn; split; [discriminate | tauto]|].
    cbn [map] in ND. inversion ND as [|? ? NI ND']; subst. specialize (IH ND').
    cbn [MTar.last_write map In]. split.
    - destruct (last_write n r) as [b'|] eqn:L.
      + intros [= ->]. right. apply IH. reflexivity.
      + destruct (eqb_spec n (norm (fst e))) as [->|N]; [|discriminate].
        intros [= <-]. left. reflexivity.
    - intros [E|I].
      + unfold MTar.nentry in E. injection E as E1 E2. subst n b.
        destruct (last_write (norm (fst e)) r) as [b'|] eqn:L.
        * exfalso. apply NI. assert (I : In (norm (fst e), b') (map nentry r)) by (apply IH; reflexivity).
          apply in_map_iff in I. destruct I as [x [Ex Ix]]. apply in_map_iff. exists x. split; [|assumption].
          unfold MTar.nentry in Ex. injection Ex as E1 _. exact E1.
        * rewrite eqb_refl. reflexivity.
      + apply IH in I. rewrite I. reflexivity.
  Qed.

  Lemma map_fst_nentry l : map fst (map nentry l) = map nkey l.
  Proof. rewrite map_map. reflexivity. Qed.

  Section Packed.
    (* [dir]: the folder as a map  relative path -> bytes ; [members]: the archive made from it *)
    Variable dir : index.
    Variable members : log.
    Hypothesis dir_wf : wf dir.
    Hypothesis packed : Permutation (map nentry members) dir.

    Lemma packed_nodup : NoDup (map nkey members).
    Proof.
      rewrite <- map_fst_nentry. apply (Permutation_NoDup (l := keys dir)); [|exact dir_wf].
      apply Permutation_sym. unfold keys. apply Permutation_map. exact packed.
    Qed.

    Lemma packed_view n : lookup n (view members) = lookup n dir.
    Proof.
      rewrite lookup_view. apply option_ext. intros b.
      rewrite (last_write_In n members packed_nodup b), (lookup_In n b dir dir_wf).
      split; intros I; [apply (Permutation_in _ packed) | apply (Permutation_in _ (Permutation_sym packed))]; exact I.
    Qed.

    Lemma packed_keys_In k : In k (keys (view members)) <-> In k (keys dir).
    Proof.
      rewrite In_keys_view, <- map_fst_nentry. unfold keys.
      split; apply Permutation_in; [|apply Permutation_sym]; apply Permutation_map; exact packed.
    Qed.

    Lemma packed_keys_perm : Permutation (keys (view members)) (keys dir).
    Proof. apply NoDup_Permutation; [apply wf_view | exact dir_wf | exact packed_keys_In]. Qed.

    Variable rest : index.     (* whatever loose files are left next to the archive: they are shadowed *)
    Definition P : store := {| s_files := rest; s_tar := Some members |}.
    Definition D : store := {| s_files := dir; s_tar := None |}.

    Lemma packed_read n isz dsz :
      (forall b, lookup (norm n) dir = Some b -> N.modulo (blen b) isz = 0%N) ->
      read norm true P n isz dsz = read norm false D n isz dsz.
    Proof.
      intros WF. unfold read, content, uses_tar, P, D. cbn [s_tar s_files].
      rewrite packed_view. destruct (lookup (norm n) dir) as [b|]; [|reflexivity].
      apply decode_agree. apply WF. reflexivity.
    Qed.

    Lemma packed_images_all ext i :
      In i (images norm ext true None P) <-> In i (images norm ext false None D).
    Proof.
      unfold images, uses_tar, content, P, D. cbn [s_tar s_files].
      apply In_list_all. exact packed_keys_In.
    Qed.

    Lemma packed_images_known ext kn i :
      (forall n, In n (keys dir) -> norm n = n) ->
      (forall n, In n (keys dir) -> has_ext ext n = true -> n = (strip_ext ext n ++ ext)%string) ->
      (forall j, In j kn -> norm (j ++ ext)%string = (j ++ ext)%string /\ has_ext ext (j ++ ext)%string = true) ->
      In i (images norm ext true (Some kn) P) <-> In i (images norm ext false (Some kn) D).
    Proof.
      intros NK EX KN. unfold images, uses_tar, content, P, D. cbn [s_tar s_files].
      rewrite !filter_In, memb_In. unfold list_all. rewrite in_map_iff. split.
      - intros [[n [E I]] K]. split; [assumption|]. apply filter_In in I. destruct I as [I F].
        apply packed_keys_In in I. subst i. rewrite <- (EX n I F), (NK n I). apply mem_In_keys. exact I.
      - intros [K M]. split; [|assumption]. destruct (KN i K) as [N1 N2]. rewrite N1 in M.
        exists (i ++ ext)%string. split; [apply strip_ext_app|]. apply filter_In. split; [|assumption].
        apply packed_keys_In. apply mem_In_keys. exact M.
    Qed.

    Lemma packed_pairs ext sep known p :
      In p (match_pairs norm ext sep true known None P) <-> In p (match_pairs norm ext sep false known None D).
    Proof.
      unfold match_pairs, content, P, D. cbn [s_tar s_files].
      destruct known as [kn|]; [rewrite !filter_In|]; rewrite (In_pairs_all ext sep _ _ packed_keys_In p); reflexivity.
    Qed.

    (* restricted by a pairs file: the archive route filters the stored pairs, the directory route tests each line for a file *)
    Lemma packed_pairs_pairsfile ext sep known lines p :
      (forall n q, In n (keys dir) -> has_ext ext n = true -> In q (pair_of ext sep n) -> norm (pair_fname ext sep q) = n) ->
      (forall q, In q (map ordered lines) ->
         norm (pair_fname ext sep q) = pair_fname ext sep q /\ has_ext ext (pair_fname ext sep q) = true /\
         pair_of ext sep (pair_fname ext sep q) = [q]) ->
      In p (match_pairs norm ext sep true known (Some lines) P) <-> In p (match_pairs norm ext sep false known (Some lines) D).
    Proof.
      intros H1 H2.
      assert (E : In p (List.filter (fun q => memb q (map ordered lines)) (pairs_all ext sep (keys (view members)))) <->
                  In p (List.filter (fun q => mem (norm (pair_fname ext sep q)) dir) (map ordered lines))).
      { rewrite !filter_In, memb_In. unfold pairs_all. rewrite in_flat_map. split.
        - intros [[n [I Q]] V]. split; [assumption|]. apply filter_In in I. destruct I as [I F].
          apply packed_keys_In in I. rewrite (H1 n p I F Q). apply mem_In_keys. exact I.
        - intros [V M]. split; [|assumption]. destruct (H2 p V) as [N [F Q]]. rewrite N in M.
          exists (pair_fname ext sep p). split; [|rewrite Q; left; reflexivity].
          apply filter_In. split; [|assumption]. apply packed_keys_In. apply mem_In_keys. exact M. }
      unfold match_pairs, content, uses_tar, P, D. cbn [s_tar s_files]. cbv beta iota zeta.
      destruct known as [kn|]; [rewrite !(filter_In (fun q => memb (fst q) kn && memb (snd q) kn))|]; rewrite E; reflexivity.
    Qed.
  End Packed.

  (* ---------------------------------------------------------------- the appending writer *)
  Lemma run_appends_flush ops : forall w, w_buf w = [] ->
    run_appends norm true w ops =
    match ops with
    | [] => w
    | _ => {| w_disk := Some (odflt [] (w_disk w) ++ map nentry ops); w_buf := [] |}
    end.
  Proof.
    induction ops as [|e r IH]; intros w B; [reflexivity|].
    change (run_appends norm true w (e :: r)) with (run_appends norm true (w_add norm true w e) r).
    unfold w_add at 1. cbn [negb]. rewrite B. cbn [app].
    rewrite IH by reflexivity. cbn [w_disk odflt].
    destruct r as [|e' r']; [reflexivity|]. rewrite <- app_assoc. reflexivity.
  Qed.

  Lemma flush_leaves_no_buffer w ops : w_buf w = [] -> w_buf (run_appends norm true w ops) = [].
  Proof. intros B. rewrite run_appends_flush by assumption. destruct ops; [assumption | reflexivity]. Qed.

  (* what the OS holds after [ops] completed appends: all of them, in order, nothing else *)
  Lemma kill_after base ops :
    kill (run_appends norm true (open_append base) ops) =
    match base, ops with
    | None, [] => None
    | _, _ => Some (odflt [] base ++ map nentry ops)
    end.
  Proof.
    rewrite run_appends_flush by reflexivity. unfold kill, open_append.
    destruct ops as [|e r]; cbn [w_disk].
    - destruct base as [l|]; [cbn; rewrite app_nil_r; reflexivity | reflexivity].
    - destruct base; reflexivity.
  Qed.

  Lemma reader_after_kill base ops :
    reader norm (kill (run_appends norm true (open_append base) ops)) =
    match base, ops with
    | None, [] => OpenFails
    | _, _ => Opened (apply_ops (view (odflt [] base)) ops)
    end.
  Proof.
    rewrite kill_after.
    destruct base as [l|], ops as [|e r]; cbn [reader odflt]; try reflexivity;
      rewrite view_app, apply_ops_nentry; reflexivity.
  Qed.

  Lemma reader_after_kill_members (base : option (list member)) ops :
    nosym (odflt [] base) ->
    reader norm (kill (run_appends norm true (open_append (option_map flatten base)) ops)) =
    match disk_members norm base ops with None => OpenFails | Some ms => Opened (MTar.mview norm ms) end.
  Proof.
    intros NS. rewrite kill_after. unfold disk_members, MTar.mview.
    change (fun e : entry => (norm (fst e), hdr0, PBytes (snd e))) with reg.
    destruct base as [l|]; destruct ops as [|e r]; cbn [option_map odflt reader] in *.
    - cbn [map]. rewrite !app_nil_r. reflexivity.
    - rewrite flatten_app_regular by assumption. reflexivity.
    - reflexivity.
    - rewrite flatten_app_regular by reflexivity. reflexivity.
  Qed.

  Lemma close_adds_nothing base ops :
    (base <> None \/ ops <> []) ->
    close (run_appends norm true (open_append base) ops) = kill (run_appends norm true (open_append base) ops).
  Proof.
    intros H. unfold close, kill. rewrite run_appends_flush by reflexivity. unfold open_append.
    destruct base as [l|], ops as [|e r]; cbn [w_disk w_buf odflt]; rewrite ?app_nil_r; try reflexivity.
    destruct H as [H|H]; exfalso; apply H; reflexivity.
  Qed.

  Lemma close_view base ops :
    reader norm (close (run_appends norm true (open_append base) ops)) =
    Opened (apply_ops (view (odflt [] base)) ops).
  Proof.
    unfold close. rewrite flush_leaves_no_buffer by reflexivity. rewrite app_nil_r.
    rewrite run_appends_flush by reflexivity. unfold open_append.
    destruct ops as [|e r]; cbn [w_disk reader].
    - destruct base; reflexivity.
    - cbn [odflt]. rewrite view_app, apply_ops_nentry. reflexivity.
  Qed.

  (* prefixes *)
  Lemma firstn_le_app {A} (l : list A) k k' : k <= k' -> exists r, firstn k' l = firstn k l ++ r.
  Proof.
    intros L. exists (skipn k (firstn k' l)).
    rewrite <- (firstn_skipn k (firstn k' l)) at 1. rewrite firstn_firstn.
    replace (Nat.min k k') with k by lia. reflexivity.
  Qed.
End NormProofs.

(* ------------------------------------------------------------------ several writer handles on one archive *)
Section HandleProofs.
  Variable A : Type.

  Lemma step_false_disk (s s1 : hstate A) e : step false s e = Some s1 ->
    odflt [] (hs_disk s1) = odflt [] (hs_disk s) ++ appended [e] /\
    (hs_disk s <> None -> hs_disk s1 <> None) /\ (appended [e] <> [] -> hs_disk s1 <> None).
  Proof.
    destruct e as [id|id x|id|id|]; cbn [step appended]; intro H.
    - destruct (lookup id (hs_handles s)); [discriminate|]. inversion H; subst; cbn. rewrite app_nil_r.
      repeat split; auto; try (intro C; exfalso; apply C; reflexivity).
    - destruct (lookup id (hs_handles s)) as [p|]; [|discriminate].
      destruct (Nat.eqb p (dlen (hs_disk s))) eqn:E; [|discriminate]. inversion H; subst; cbn.
      repeat split; intros; discriminate.
    - destruct (lookup id (hs_handles s)) as [p|]; [|discriminate].
      destruct (Nat.eqb p (dlen (hs_disk s))) eqn:E; [|discriminate]. apply Nat.eqb_eq in E. inversion H; subst; cbn.
      unfold dlen. rewrite firstn_all, app_nil_r. repeat split; intros; discriminate.
    - destruct (lookup id (hs_handles s)) as [p|]; [|discriminate]. inversion H; subst; cbn. rewrite app_nil_r.
      repeat split; auto; try (intro C; exfalso; apply C; reflexivity).
    - inversion H; subst; cbn. rewrite app_nil_r. repeat split; auto; try (intro C; exfalso; apply C; reflexivity).
  Qed.

  Lemma appended_cons (e : event A) r : appended (e :: r) = appended [e] ++ appended r.
  Proof. destruct e; reflexivity. Qed.

  (* no finaliser: whatever handles are opened, left unclosed, reclaimed or killed, and whenever, the archive holds
     exactly the base followed by every completed append, in order *)
  Lemma run_false_disk : forall (evs : list (event A)) s s', run false s evs = Some s' ->
    odflt [] (hs_disk s') = odflt [] (hs_disk s) ++ appended evs /\
    (hs_disk s <> None -> hs_disk s' <> None) /\ (appended evs <> [] -> hs_disk s' <> None).
  Proof.
    induction evs as [|e r IH]; intros s s' H; cbn [run] in H.
    - inversion H; subst. cbn. rewrite app_nil_r. repeat split; auto; try (intro C; exfalso; apply C; reflexivity).
    - destruct (step false s e) as [s1|] eqn:E; [|discriminate].
      destruct (step_false_disk _ _ _ E) as (S1 & S2 & S3). destruct (IH _ _ H) as (I1 & I2 & I3).
      rewrite appended_cons. repeat split.
      + rewrite I1, S1, app_assoc. reflexivity.
      + auto.
      + intro N. destruct (appended [e]) as [|x l] eqn:AE.
        * apply I3. exact N.
        * apply I2, S3. discriminate.
  Qed.

  (* a finaliser that closes: harmless exactly when the reclaimed handle still stands at the end of the archive *)
  Lemma drop_closing_iff_current (s : hstate A) id p :
    lookup id (hs_handles s) = Some p -> p <= dlen (hs_disk s) ->
    exists s', step true s (EvDrop id) = Some s' /\
               (odflt [] (hs_disk s') = odflt [] (hs_disk s) <-> p = dlen (hs_disk s)).
  Proof.
    intros L LE. cbn [step]. rewrite L. eexists; split; [reflexivity|]. cbn. unfold dlen in *. split.
    - intro E. apply (f_equal (@List.length A)) in E. rewrite firstn_length in E. lia.
    - intros ->. apply firstn_all.
  Qed.

  (* every prefix of an accepted history is accepted *)
  Lemma run_prefix fin : forall (evs : list (event A)) s s' k, run fin s evs = Some s' -> exists s1, run fin s (firstn k evs) = Some s1.
  Proof.
    induction evs as [|e r IH]; intros s s' k H.
    - rewrite firstn_nil. exists s. reflexivity.
    - destruct k as [|k]; [exists s; reflexivity|]. cbn [run firstn] in *.
      destruct (step fin s e) as [s1|]; [|discriminate]. eapply IH; eauto.
  Qed.
End HandleProofs.

Lemma appended_hev nm (evs : list hev) :
  appended (map (hev_event nm) evs) = map (fun e => mk_member nm (fst e) (snd e)) (happended evs).
Proof. induction evs as [|e r IH]; [reflexivity|]. destruct e; cbn; rewrite ?IH; reflexivity. Qed.

Lemma history_reader nm base (evs : list hev) s :
  run false (hinit base) (map (hev_event nm) evs) = Some s ->
  (base <> None \/ happended evs <> []) ->
  hreader nm s = Opened (mview nm (odflt [] base ++ map (fun e => mk_member nm (fst e) (snd e)) (happended evs))).
Proof.
  intros R N. destruct (run_false_disk _ _ _ _ R) as (D1 & D2 & D3). cbn [hinit hs_disk] in *.
  rewrite appended_hev in D1, D3. unfold hreader. destruct (hs_disk s) as [ms|] eqn:E.
  - cbn in D1. rewrite D1. reflexivity.
  - exfalso. destruct N as [N|N]; [apply D2; [exact N|reflexivity]|].
    apply D3; [|reflexivity]. destruct (happended evs); [contradiction N; reflexivity|discriminate].
Qed.
