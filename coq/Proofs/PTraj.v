(* Proofs/PTraj.v — the Trajectories state machine (dict of dicts + cached sorted timestamps +
   cached bounds) refines a plain map keyed by (timestamp, device), for every operation sequence;
   intermediate_pose is characterised declaratively and never fails. *)
From Coq Require Import List Bool ZArith Lia Permutation Sorted.
From KV Require Import Eqb AL.
From KV.Model Require Import MRec MTraj.
From KV.Proofs Require Import PRec.
Import ListNotations.
Local Open Scope Z_scope.

(* ---------- sorting *)
Notation ssorted := (StronglySorted Z.lt).

Lemma zinsert_In z x l : In x (zinsert z l) <-> x = z \/ In x l.
Proof.
  induction l as [|y l IH]; cbn; [intuition|].
  destruct (z <=? y); cbn; [intuition|]. rewrite IH. intuition.
Qed.

Lemma zsort_In x l : In x (zsort l) <-> In x l.
Proof.
  induction l as [|y l IH]; cbn; [tauto|]. rewrite zinsert_In, IH. intuition.
Qed.

Lemma zinsert_sorted z l : ssorted l -> ~ In z l -> ssorted (zinsert z l).
Proof.
  induction l as [|y l IH]; cbn; intros S NI; [constructor; constructor|].
  inversion S as [|? ? S' F]; subst. rewrite Forall_forall in F.
  destruct (Z.leb_spec z y) as [L|L].
  - assert (z < y) by (assert (z <> y) by (intros ->; apply NI; left; reflexivity); lia).
    constructor; [assumption|]. apply Forall_forall. intros w [<-|I]; [assumption|]. specialize (F w I). lia.
  - constructor; [apply IH; tauto|]. apply Forall_forall. intros w I. apply zinsert_In in I.
    destruct I as [->|I]; [assumption | apply F; assumption].
Qed.

Lemma zsort_sorted l : NoDup l -> ssorted (zsort l).
Proof.
  induction l as [|y l IH]; cbn; intros ND; [constructor|]. inversion ND; subst.
  apply zinsert_sorted; [auto|]. rewrite zsort_In. assumption.
Qed.

Lemma ssorted_ext l1 : forall l2, ssorted l1 -> ssorted l2 -> (forall z, In z l1 <-> In z l2) -> l1 = l2.
Proof.
  induction l1 as [|x l1 IH]; intros [|y l2] S1 S2 E; [reflexivity | | |].
  - exfalso. apply (E y). left; reflexivity.
  - exfalso. apply (E x). left; reflexivity.
  - inversion S1 as [|? ? S1' F1]; inversion S2 as [|? ? S2' F2]; subst.
    rewrite Forall_forall in F1, F2.
    assert (x = y).
    { destruct (proj1 (E x) (or_introl eq_refl)) as [->|Ix]; [reflexivity|].
      destruct (proj2 (E y) (or_introl eq_refl)) as [->|Iy]; [reflexivity|].
      specialize (F1 y Iy). specialize (F2 x Ix). lia. }
    subst y. f_equal. apply IH; [assumption | assumption|]. intros z. split; intros I.
    + destruct (proj1 (E z) (or_intror I)) as [->|J]; [|assumption]. specialize (F1 z I). lia.
    + destruct (proj2 (E z) (or_intror I)) as [->|J]; [|assumption]. specialize (F2 z I). lia.
Qed.

Lemma zsort_ext l1 l2 : NoDup l1 -> NoDup l2 -> (forall z, In z l1 <-> In z l2) -> zsort l1 = zsort l2.
Proof.
  intros N1 N2 E. apply ssorted_ext; [apply zsort_sorted; assumption | apply zsort_sorted; assumption|].
  intros z. rewrite !zsort_In. apply E.
Qed.

Lemma ssorted_hd_min x r : ssorted (x :: r) -> forall z, In z (x :: r) -> x <= z.
Proof.
  intros S z [<-|I]; [lia|]. inversion S as [|? ? _ F]; subst. rewrite Forall_forall in F. specialize (F z I). lia.
Qed.

Lemma ssorted_last_max l : ssorted l -> forall d z, In z l -> z <= List.last l d.
Proof.
  induction l as [|x r IH]; intros S d z I; [destruct I|].
  inversion S as [|? ? S' F]; subst. rewrite Forall_forall in F.
  destruct r as [|y r']; [destruct I as [<-|[]]; cbn; lia|].
  change (List.last (x :: y :: r') d) with (List.last (y :: r') d).
  destruct I as [<-|I]; [|apply IH; assumption].
  assert (y <= List.last (y :: r') d) by (apply IH; [assumption | left; reflexivity]).
  specialize (F y (or_introl eq_refl)). lia.
Qed.

Lemma two_elements (l : list Z) a b : In a l -> In b l -> a <> b -> (2 <= length l)%nat.
Proof.
  destruct l as [|x [|y r]]; cbn; intros Ia Ib N; [tauto | | lia].
  destruct Ia as [<-|[]], Ib as [<-|[]]. congruence.
Qed.

(* ---------- StronglySorted through filter / rev / weaker relation *)
Lemma SS_filter {A} (Rr : A -> A -> Prop) f l : StronglySorted Rr l -> StronglySorted Rr (List.filter f l).
Proof.
  induction l as [|x l IH]; cbn; intros S; [constructor|]. inversion S as [|? ? S' F]; subst.
  destruct (f x); [|auto]. constructor; [auto|]. rewrite Forall_forall in *. intros y I.
  apply filter_In in I. apply F, I.
Qed.

Lemma SS_snoc {A} (Rr : A -> A -> Prop) l x :
  StronglySorted Rr l -> Forall (fun y => Rr y x) l -> StronglySorted Rr (l ++ [x]).
Proof.
  induction l as [|y l IH]; cbn; intros S F; [constructor; constructor|].
  inversion S as [|? ? S' F']; subst. inversion F as [|? ? Ryx Fl]; subst.
  constructor; [auto|]. apply Forall_app. split; [assumption | constructor; [assumption | constructor]].
Qed.

Lemma SS_rev {A} (Rr : A -> A -> Prop) l : StronglySorted Rr l -> StronglySorted (fun a b => Rr b a) (rev l).
Proof.
  induction l as [|x l IH]; cbn; intros S; [constructor|]. inversion S as [|? ? S' F]; subst.
  apply SS_snoc; [auto|]. rewrite Forall_forall in *. intros y I. apply in_rev in I. apply F, I.
Qed.

Lemma SS_impl {A} (R1 R2 : A -> A -> Prop) l :
  (forall a b, R1 a b -> R2 a b) -> StronglySorted R1 l -> StronglySorted R2 l.
Proof.
  intros Imp. induction l as [|x l IH]; intros S; [constructor|]. inversion S as [|? ? S' F]; subst.
  constructor; [auto|]. rewrite Forall_forall in *. intros y I. apply Imp, F, I.
Qed.

(* the first element of a sorted list that satisfies f precedes every other one that does *)
Lemma find_first {A} (Rr : A -> A -> Prop) (f : A -> bool) l : StronglySorted Rr l ->
  match find f l with
  | Some lo => In lo l /\ f lo = true /\ forall z, In z l -> f z = true -> z = lo \/ Rr lo z
  | None => forall z, In z l -> f z = false
  end.
Proof.
  induction l as [|x l IH]; cbn; intros S; [tauto|]. inversion S as [|? ? S' F]; subst.
  rewrite Forall_forall in F. destruct (f x) eqn:Fx.
  - split; [auto|]. split; [assumption|]. intros z [<-|I] _; [auto | right; apply F, I].
  - specialize (IH S'). destruct (find f l) as [lo|].
    + destruct IH as [I [Flo Hz]]. split; [auto|]. split; [assumption|].
      intros z [<-|Iz] Fz; [congruence | apply Hz; assumption].
    + intros z [<-|Iz]; [assumption | apply IH; assumption].
Qed.

(* ---------- nearest stored entry below / above *)
Lemma nearest_below_spec {P} t (l : list (Z * P)) :
  match nearest_below t l with
  | Some e => In e l /\ fst e < t /\ forall e', In e' l -> fst e' < t -> fst e' <= fst e
  | None => forall e', In e' l -> ~ fst e' < t
  end.
Proof.
  induction l as [|e l IH]; cbn; [tauto|].
  destruct (Z.ltb_spec (fst e) t) as [L|L].
  - destruct (nearest_below t l) as [b|].
    + destruct IH as [I [Lb Hb]]. destruct (Z.ltb_spec (fst b) (fst e)) as [L2|L2].
      * split; [auto|]. split; [assumption|]. intros e' [<-|I'] L'; [lia|]. specialize (Hb e' I' L'). lia.
      * split; [auto|]. split; [assumption|]. intros e' [<-|I'] L'; [lia | auto].
    + split; [auto|]. split; [assumption|]. intros e' [<-|I'] L'; [lia|]. exfalso. apply (IH e' I' L').
  - destruct (nearest_below t l) as [b|].
    + destruct IH as [I [Lb Hb]]. split; [auto|]. split; [assumption|]. intros e' [<-|I'] L'; [lia | auto].
    + intros e' [<-|I']; [lia | auto].
Qed.

Lemma nearest_above_spec {P} t (l : list (Z * P)) :
  match nearest_above t l with
  | Some e => In e l /\ t < fst e /\ forall e', In e' l -> t < fst e' -> fst e <= fst e'
  | None => forall e', In e' l -> ~ t < fst e'
  end.
Proof.
  induction l as [|e l IH]; cbn; [tauto|].
  destruct (Z.ltb_spec t (fst e)) as [L|L].
  - destruct (nearest_above t l) as [b|].
    + destruct IH as [I [Lb Hb]]. destruct (Z.ltb_spec (fst e) (fst b)) as [L2|L2].
      * split; [auto|]. split; [assumption|]. intros e' [<-|I'] L'; [lia|]. specialize (Hb e' I' L'). lia.
      * split; [auto|]. split; [assumption|]. intros e' [<-|I'] L'; [lia | auto].
    + split; [auto|]. split; [assumption|]. intros e' [<-|I'] L'; [lia|]. exfalso. apply (IH e' I' L').
  - destruct (nearest_above t l) as [b|].
    + destruct IH as [I [Lb Hb]]. split; [auto|]. split; [assumption|]. intros e' [<-|I'] L'; [lia | auto].
    + intros e' [<-|I']; [lia | auto].
Qed.

Lemma before_sorted t l : ssorted l -> StronglySorted (fun a b => b < a) (before_of t l).
Proof. intros S. unfold before_of. apply (SS_rev Z.lt). apply SS_filter. assumption. Qed.
Lemma after_sorted t l : ssorted l -> ssorted (after_of t l).
Proof. intros S. unfold after_of. apply SS_filter. assumption. Qed.

Lemma before_In t l z : In z (before_of t l) <-> In z l /\ z < t.
Proof.
  unfold before_of. rewrite <- in_rev, filter_In. destruct (Z.ltb_spec z t); intuition (try lia; discriminate).
Qed.
Lemma after_In t l z : In z (after_of t l) <-> In z l /\ t <= z.
Proof.
  unfold after_of. rewrite filter_In. destruct (Z.leb_spec t z); intuition (try lia; discriminate).
Qed.


Section Traj.
  Set Default Proof Using "Type".
  Context {D P : Type} `{EqDec D} `{EqDec P}.
  Variable interp : Z -> Z -> P -> Z -> P -> P.
  Variable nd : Z -> Z.
  Variable maxsize : Z.
  Notation nested := (nested D P).
  Notation amap := (amap D P).
  Notation out := (out D P).
  Notation cstate := (cstate D P).
  Notation top := (top D P).
  Notation rebuild := (rebuild_gen false).
  Notation t_step := (t_step interp nd).
  Notation t_run := (t_run interp nd).
  Notation s_tstep := (s_tstep interp nd).
  Notation s_trun := (s_trun interp nd).

  (* the device has a pose at timestamp z *)
  Definition has (x : nested) (d : D) (z : Z) : bool := opt_true (lookup2 z d x).

  Lemma has_keys (x : nested) (d : D) z : has x d z = true -> In z (keys x).
  Proof.
    unfold has, lookup2. intros E. apply lookup_In_keys. destruct (lookup z x); [discriminate | discriminate].
  Qed.

  (* ---------- the cache invariant *)
  Definition cache_inv (c : cstate) : Prop :=
    cache c = [] \/
    (cache c = zsort (keys (data c)) /\
     forall x r, cache c = x :: r -> first c = x /\ last c = List.last (x :: r) x).

  Definition TRel (c : cstate) (a : amap) : Prop := Rel (data c) a /\ cache_inv c.

  Lemma TRel_init : TRel (init maxsize) [].
  Proof. split; [apply Rel_nil | left; reflexivity]. Qed.

  Lemma rebuild_ok (c : cstate) : cache_inv c ->
    data (rebuild c) = data c /\ cache (rebuild c) = zsort (keys (data c)) /\ cache_inv (rebuild c) /\
    (forall x r, cache (rebuild c) = x :: r -> first (rebuild c) = x /\ last (rebuild c) = List.last (x :: r) x).
  Proof.
    intros CI. unfold rebuild_gen. destruct (cache c) as [|z l] eqn:Ec; cbn [is_nil].
    - destruct (zsort (keys (data c))) as [|x r] eqn:Ez; cbn [data cache first last andb].
      + split; [reflexivity|]. split; [reflexivity|]. split; [left; reflexivity|]. discriminate.
      + split; [reflexivity|]. split; [reflexivity|].
        assert (B : forall x0 r0, x :: r = x0 :: r0 -> x = x0 /\ List.last (x :: r) x = List.last (x0 :: r0) x0).
        { intros x0 r0 [= <- <-]. auto. }
        split; [right; split; [symmetry; assumption | exact B] | exact B].
    - destruct CI as [E|[E B]]; [congruence|].
      split; [reflexivity|]. split; [exact E|].
      split; [right; split; assumption | assumption].
  Qed.

  (* a map operation that leaves the cached list in place leaves the set of timestamps in place *)
  Lemma resets_false_keys (x : nested) o :
    resets o (fst (m_step x o)) (snd (m_step x o)) = false -> keys (snd (m_step x o)) = keys x.
  Proof.
    unfold m_step. destruct o as [t d p|t l|t d|t|t|t d|t d|t| | |]; cbn; try discriminate; try reflexivity.
    - destruct (lookup t x) as [m|] eqn:E; [|reflexivity].
      destruct (lookup d m) as [p|]; [|reflexivity]. cbn.
      destruct (is_nil (remove d m)).
      + unfold mem. rewrite lookup_remove_eq. discriminate.
      + intros _. apply keys_insert_mem. apply lookup_In_keys. congruence.
    - destruct (mem t x); cbn; [discriminate | reflexivity].
  Qed.

  (* ---------- sorted timestamps on both sides *)
  Lemma sorted_eq (x : nested) (a : amap) : Rel x a -> zsort (keys x) = s_sorted a.
  Proof.
    intros Rl. unfold s_sorted. apply zsort_ext; [apply Rl | apply dedup_NoDup|].
    intros z. apply keys_timestamps; assumption.
  Qed.

  Lemma keys_sorted (x : nested) : inv x -> ssorted (zsort (keys x)).
  Proof. intros [Wx _]. apply zsort_sorted, Wx. Qed.

  (* ---------- the bracket searches *)
  Lemma search_find (x : nested) (d : D) dist mi l :
    StronglySorted (fun z w => dist z <= dist w) l ->
    (forall z, In z l -> In z (keys x)) ->
    search x d dist mi l =
    match find (has x d) l with
    | Some lo => if dist lo <=? mi then SFound lo else SNone
    | None => SNone
    end.
  Proof.
    induction l as [|z r IH]; cbn [search find]; intros S K; [reflexivity|].
    inversion S as [|? ? S' F]; subst. rewrite Forall_forall in F.
    assert (Hz : has x d z = match lookup z x with Some m => mem d m | None => false end).
    { unfold has, lookup2. destruct (lookup z x); reflexivity. }
    destruct (Z.leb_spec (dist z) mi) as [Dz|Dz].
    - destruct (lookup z x) as [m|] eqn:E.
      + rewrite Hz. destruct (mem d m).
        * destruct (Z.leb_spec (dist z) mi); [reflexivity | lia].
        * apply IH; [assumption|]. intros w I. apply K. right; assumption.
      + exfalso. assert (I : In z (keys x)) by (apply K; left; reflexivity).
        apply lookup_In_keys in I. congruence.
    - destruct (has x d z).
      + destruct (Z.leb_spec (dist z) mi); [lia | reflexivity].
      + destruct (find (has x d) r) as [lo|] eqn:Ef; [|reflexivity].
        apply find_some in Ef. destruct Ef as [I _]. specialize (F lo I).
        destruct (Z.leb_spec (dist lo) mi); [lia | reflexivity].
  Qed.

  Definition is_lo (x : nested) t (d : D) lo : Prop :=
    lo < t /\ has x d lo = true /\ forall z, z < t -> has x d z = true -> z <= lo.
  Definition no_lo (x : nested) t (d : D) : Prop := forall z, z < t -> has x d z = false.
  Definition is_hi (x : nested) t (d : D) hi : Prop :=
    t < hi /\ has x d hi = true /\ forall z, t < z -> has x d z = true -> hi <= z.
  Definition no_hi (x : nested) t (d : D) : Prop := forall z, t < z -> has x d z = false.

  Lemma is_lo_unique (x : nested) t (d : D) lo lo' : is_lo x t d lo -> is_lo x t d lo' -> lo = lo'.
  Proof. intros [L1 [H1 M1]] [L2 [H2 M2]]. specialize (M1 lo' L2 H2). specialize (M2 lo L1 H1). lia. Qed.
  Lemma is_hi_unique (x : nested) t (d : D) hi hi' : is_hi x t d hi -> is_hi x t d hi' -> hi = hi'.
  Proof. intros [L1 [H1 M1]] [L2 [H2 M2]]. specialize (M1 hi' L2 H2). specialize (M2 hi L1 H1). lia. Qed.
  Lemma is_lo_no_lo (x : nested) t (d : D) lo : is_lo x t d lo -> no_lo x t d -> False.
  Proof. intros [L1 [H1 _]] N. rewrite (N lo L1) in H1. discriminate. Qed.
  Lemma is_hi_no_hi (x : nested) t (d : D) hi : is_hi x t d hi -> no_hi x t d -> False.
  Proof. intros [L1 [H1 _]] N. rewrite (N hi L1) in H1. discriminate. Qed.

  (* what the concrete searches find *)
  Lemma conc_lo (x : nested) t (d : D) : inv x ->
    match find (has x d) (before_of t (zsort (keys x))) with
    | Some lo => is_lo x t d lo
    | None => no_lo x t d
    end.
  Proof.
    intros Ix. pose proof (find_first _ (has x d) _ (before_sorted t _ (keys_sorted x Ix))) as F.
    destruct (find (has x d) (before_of t (zsort (keys x)))) as [lo|].
    - destruct F as [I [Hl Hz]]. apply before_In in I. split; [apply I|]. split; [assumption|].
      intros z Lz Hhz. assert (Iz : In z (before_of t (zsort (keys x)))).
      { apply before_In. split; [apply zsort_In, (has_keys x d); assumption | assumption]. }
      destruct (Hz z Iz Hhz); lia.
    - intros z Lz. destruct (has x d z) eqn:Hhz; [|reflexivity]. rewrite <- Hhz. apply F.
      apply before_In. split; [apply zsort_In, (has_keys x d); assumption | assumption].
  Qed.

  Lemma conc_hi (x : nested) t (d : D) : inv x -> lookup2 t d x = None ->
    match find (has x d) (after_of t (zsort (keys x))) with
    | Some hi => is_hi x t d hi
    | None => no_hi x t d
    end.
  Proof.
    intros Ix Nt. pose proof (find_first _ (has x d) _ (after_sorted t _ (keys_sorted x Ix))) as F.
    assert (Ht : has x d t = false) by (unfold has; rewrite Nt; reflexivity).
    destruct (find (has x d) (after_of t (zsort (keys x)))) as [hi|].
    - destruct F as [I [Hl Hz]]. apply after_In in I.
      assert (t <> hi) by (intros ->; congruence).
      split; [lia|]. split; [assumption|].
      intros z Lz Hhz. assert (Iz : In z (after_of t (zsort (keys x)))).
      { apply after_In. split; [apply zsort_In, (has_keys x d); assumption | lia]. }
      destruct (Hz z Iz Hhz); lia.
    - intros z Lz. destruct (has x d z) eqn:Hhz; [|reflexivity]. rewrite <- Hhz. apply F.
      apply after_In. split; [apply zsort_In, (has_keys x d); assumption | lia].
  Qed.

  (* what the plain map finds *)
  Lemma dev_entries_In (a : amap) d z p : wf a -> (In (z, p) (dev_entries a d) <-> lookup (z, d) a = Some p).
  Proof.
    intros Wa. unfold dev_entries. rewrite in_map_iff, (lookup_In _ _ _ Wa). split.
    - intros [[[z' d'] p'] [E I]]. cbn in E. injection E as -> ->. apply filter_In in I. destruct I as [I Ed].
      cbn in Ed. apply eqb_true in Ed. subst d'. assumption.
    - intros I. exists ((z, d), p). split; [reflexivity|]. apply filter_In. split; [assumption | apply eqb_refl].
  Qed.

  Lemma has_dev (x : nested) (a : amap) (d : D) z : Rel x a -> (has x d z = true <-> exists p, In (z, p) (dev_entries a d)).
  Proof.
    intros [_ [Wa Rxa]]. unfold has. rewrite Rxa. split.
    - destruct (lookup (z, d) a) as [p|] eqn:E; [|discriminate]. intros _. exists p. apply dev_entries_In; assumption.
    - intros [p I]. apply dev_entries_In in I; [|assumption]. rewrite I. reflexivity.
  Qed.

  Lemma spec_lo (x : nested) (a : amap) t (d : D) : Rel x a ->
    match nearest_below t (dev_entries a d) with
    | Some e => is_lo x t d (fst e) /\ lookup2 (fst e) d x = Some (snd e)
    | None => no_lo x t d
    end.
  Proof.
    intros Rl. pose proof (nearest_below_spec t (dev_entries a d)) as S.
    destruct (nearest_below t (dev_entries a d)) as [[lo pl]|].
    - destruct S as [I [L M]]. cbn [fst snd] in *. split.
      + split; [assumption|]. split; [apply (has_dev x a d lo Rl); eauto|].
        intros z Lz Hz. apply (has_dev x a d z Rl) in Hz. destruct Hz as [p Ip]. apply (M (z, p) Ip Lz).
      + destruct Rl as [_ [Wa Rxa]]. rewrite Rxa. apply dev_entries_In; assumption.
    - intros z Lz. destruct (has x d z) eqn:Hz; [|reflexivity]. apply (has_dev x a d z Rl) in Hz.
      destruct Hz as [p Ip]. exfalso. apply (S (z, p) Ip). assumption.
  Qed.

  Lemma spec_hi (x : nested) (a : amap) t (d : D) : Rel x a ->
    match nearest_above t (dev_entries a d) with
    | Some e => is_hi x t d (fst e) /\ lookup2 (fst e) d x = Some (snd e)
    | None => no_hi x t d
    end.
  Proof.
    intros Rl. pose proof (nearest_above_spec t (dev_entries a d)) as S.
    destruct (nearest_above t (dev_entries a d)) as [[hi ph]|].
    - destruct S as [I [L M]]. cbn [fst snd] in *. split.
      + split; [assumption|]. split; [apply (has_dev x a d hi Rl); eauto|].
        intros z Lz Hz. apply (has_dev x a d z Rl) in Hz. destruct Hz as [p Ip]. apply (M (z, p) Ip Lz).
      + destruct Rl as [_ [Wa Rxa]]. rewrite Rxa. apply dev_entries_In; assumption.
    - intros z Lz. destruct (has x d z) eqn:Hz; [|reflexivity]. apply (has_dev x a d z Rl) in Hz.
      destruct Hz as [p Ip]. exfalso. apply (S (z, p) Ip). assumption.
  Qed.

  (* ---------- intermediate_pose *)
  Lemma interp_search_spec (x : nested) (a : amap) t (d : D) mi : Rel x a -> lookup2 t d x = None ->
    interp_search interp x t d mi (before_of t (zsort (keys x))) (after_of t (zsort (keys x))) =
    match nearest_below t (dev_entries a d), nearest_above t (dev_entries a d) with
    | Some (lo, pl), Some (hi, ph) =>
        if (t - lo <=? mi) && (hi - t <=? mi) then OVal (interp t lo pl hi ph) else ONone
    | _, _ => ONone
    end.
  Proof.
    intros Rl Nt. pose proof Rl as [Ix _]. unfold interp_search.
    rewrite (search_find x d (fun z => t - z) mi).
    2:{ eapply SS_impl; [|apply before_sorted, keys_sorted; assumption]. cbn. intros; lia. }
    2:{ intros z I. apply before_In in I. apply zsort_In, I. }
    rewrite (search_find x d (fun z => z - t) mi).
    2:{ eapply SS_impl; [|apply after_sorted, keys_sorted; assumption]. cbn. intros; lia. }
    2:{ intros z I. apply after_In in I. apply zsort_In, I. }
    pose proof (conc_lo x t d Ix) as CL. pose proof (conc_hi x t d Ix Nt) as CH.
    pose proof (spec_lo x a t d Rl) as SL. pose proof (spec_hi x a t d Rl) as SH.
    destruct (nearest_below t (dev_entries a d)) as [[lo pl]|]; cbn [fst snd] in SL.
    - destruct SL as [SL Pl].
      destruct (find (has x d) (before_of t (zsort (keys x)))) as [lo'|];
        [|exfalso; eapply is_lo_no_lo; eassumption].
      assert (lo' = lo) by (eapply is_lo_unique; eassumption). subst lo'.
      destruct (Z.leb_spec (t - lo) mi) as [Dl|Dl]; cbn [andb].
      + destruct (nearest_above t (dev_entries a d)) as [[hi ph]|]; cbn [fst snd] in SH.
        * destruct SH as [SH Ph].
          destruct (find (has x d) (after_of t (zsort (keys x)))) as [hi'|];
            [|exfalso; eapply is_hi_no_hi; eassumption].
          assert (hi' = hi) by (eapply is_hi_unique; eassumption). subst hi'.
          destruct (hi - t <=? mi); [|reflexivity]. unfold interp_found. rewrite Pl, Ph. reflexivity.
        * destruct (find (has x d) (after_of t (zsort (keys x)))) as [hi'|]; [|reflexivity].
          exfalso; eapply is_hi_no_hi; eassumption.
      + destruct (nearest_above t (dev_entries a d)) as [[hi ph]|]; reflexivity.
    - destruct (find (has x d) (before_of t (zsort (keys x)))) as [lo'|]; [|reflexivity].
      exfalso; eapply is_lo_no_lo; eassumption.
  Qed.

  Lemma interp_refines (c : cstate) (a : amap) t (d : D) mi : TRel c a ->
    fst (interp_c interp c t d mi) = s_interp interp a t d mi /\ TRel (snd (interp_c interp c t d mi)) a.
  Proof.
    intros [Rl CI]. pose proof Rl as [Ix [Wa Rxa]]. unfold interp_c, s_interp. rewrite <- Rxa.
    destruct (lookup2 t d (data c)) as [p|] eqn:Nt; [split; [reflexivity | split; assumption]|].
    destruct (rebuild_ok c CI) as [Ed [Ec [CI' B]]].
    assert (TR' : TRel (rebuild c) a) by (split; [rewrite Ed; assumption | assumption]).
    pose proof (spec_lo (data c) a t d Rl) as SL. pose proof (spec_hi (data c) a t d Rl) as SH.
    pose proof (keys_sorted (data c) Ix) as SS.
    destruct (Nat.ltb_spec (length (cache (rebuild c))) 2) as [Len|Len]; cbn [fst snd].
    { split; [|assumption].
      destruct (nearest_below t (dev_entries a d)) as [[lo pl]|]; [|reflexivity].
      destruct (nearest_above t (dev_entries a d)) as [[hi ph]|]; [|reflexivity].
      exfalso. destruct SL as [[L1 [H1 _]] _], SH as [[L2 [H2 _]] _]. cbn [fst] in *.
      apply has_keys, (zsort_In lo) in H1. apply has_keys, (zsort_In hi) in H2. rewrite <- Ec in H1, H2.
      assert (lo <> hi) by lia. pose proof (two_elements _ lo hi H1 H2 H3). lia. }
    destruct (cache (rebuild c)) as [|x0 r0] eqn:Ecache; [cbn in Len; lia|].
    destruct (B x0 r0 eq_refl) as [Bf Bl].
    destruct ((t <=? first (rebuild c)) || (last (rebuild c) <=? t)) eqn:Bd; cbn [fst snd].
    { split; [|assumption].
      destruct (nearest_below t (dev_entries a d)) as [[lo pl]|]; [|reflexivity].
      destruct (nearest_above t (dev_entries a d)) as [[hi ph]|]; [|reflexivity].
      exfalso. destruct SL as [[L1 [H1 _]] _], SH as [[L2 [H2 _]] _]. cbn [fst] in *.
      apply has_keys, (zsort_In lo) in H1. apply has_keys, (zsort_In hi) in H2. rewrite <- Ec in H1, H2, SS.
      apply orb_true_iff in Bd. destruct Bd as [Bd|Bd]; apply Z.leb_le in Bd.
      - pose proof (ssorted_hd_min x0 r0 SS lo H1). lia.
      - pose proof (ssorted_last_max (x0 :: r0) SS x0 hi H2). lia. }
    split; [|assumption]. rewrite Ed, Ec. apply interp_search_spec; assumption.
  Qed.

  (* ---------- one step, every sequence *)
  Lemma tstep_refines (c : cstate) (a : amap) (o : top) : TRel c a ->
    out_equiv (fst (t_step c o)) (fst (s_tstep a o)) /\ TRel (snd (t_step c o)) (snd (s_tstep a o)).
  Proof.
    intros TR. pose proof TR as [Rl CI]. destruct o as [mo| | |t d mi]; unfold MTraj.t_step; cbn [t_step_gen MTraj.s_tstep].
    - pose proof (step_refines (data c) a mo Rl) as [E Rl'].
      pose proof (resets_false_keys (data c) mo) as K. unfold m_step in *.
      destruct (m_step_gen false (data c) mo) as [r x']. cbn [fst snd] in *.
      split; [assumption|]. split; [assumption|]. cbn [data cache first last].
      destruct (resets mo r x'); [left; reflexivity|]. specialize (K eq_refl).
      destruct CI as [E0|[E0 B]]; [left; assumption|]. right. cbn [data cache first last]. rewrite K. split; assumption.
    - destruct (rebuild_ok c CI) as [Ed [Ec [CI' B]]]. cbn [fst snd]. split.
      + rewrite Ec, (sorted_eq _ _ Rl). reflexivity.
      + split; [rewrite Ed; assumption | assumption].
    - destruct (rebuild_ok c CI) as [Ed [Ec [CI' B]]]. cbn [fst snd]. split.
      + rewrite Ec, (sorted_eq _ _ Rl). reflexivity.
      + split; [rewrite Ed; assumption | assumption].
    - destruct (interp_refines c a t d mi TR) as [E TR']. cbn [fst snd]. split; [|assumption].
      rewrite E. apply out_equiv_refl.
  Qed.

  Theorem traj_refines : forall (ops : list top) (c : cstate) (a : amap), TRel c a ->
    Forall2 out_equiv (fst (t_run c ops)) (fst (s_trun a ops)) /\ TRel (snd (t_run c ops)) (snd (s_trun a ops)).
  Proof.
    induction ops as [|o ops IH]; intros c a TR; unfold MTraj.t_run in *; cbn; [split; [constructor | assumption]|].
    destruct (tstep_refines c a o TR) as [E TR']. unfold MTraj.t_step in *.
    destruct (t_step_gen interp nd false c o) as [r c'], (s_tstep a o) as [r' a']. cbn [fst snd] in *.
    specialize (IH c' a' TR').
    destruct (t_run_gen interp nd false c' ops) as [rs c''], (s_trun a' ops) as [rs' a'']. cbn [fst snd] in *.
    destruct IH as [F TR'']. split; [constructor; assumption | assumption].
  Qed.

  (* two Trajectories holding the same entries answer every operation alike, whatever their caches *)
  Theorem traj_same_content : forall (c1 c2 : cstate) (a : amap), TRel c1 a -> inv (data c2) -> cache_inv c2 ->
    (forall t d, lookup2 t d (data c2) = lookup2 t d (data c1)) ->
    forall o, out_equiv (fst (t_step c1 o)) (fst (t_step c2 o)).
  Proof.
    intros c1 c2 a TR1 I2 CI2 Same o.
    assert (TR2 : TRel c2 a).
    { split; [|assumption]. split; [assumption|]. split; [apply TR1|]. intros t d. rewrite Same. apply TR1. }
    eapply out_equiv_trans; [apply (tstep_refines c1 a o TR1)|].
    apply out_equiv_sym. apply (tstep_refines c2 a o TR2).
  Qed.

  (* ---------- intermediate_pose, declaratively, on any state related to some plain map *)
  Theorem interp_total (c : cstate) (a : amap) t (d : D) mi : TRel c a ->
    fst (t_step c (Interp t d mi)) = ONone \/ exists p, fst (t_step c (Interp t d mi)) = OVal p.
  Proof.
    intros TR. unfold MTraj.t_step; cbn [t_step_gen]. rewrite (proj1 (interp_refines c a t d mi TR)).
    unfold s_interp. destruct (lookup (t, d) a); [eauto|].
    destruct (nearest_below t (dev_entries a d)) as [[lo pl]|]; [|auto].
    destruct (nearest_above t (dev_entries a d)) as [[hi ph]|]; [|auto].
    destruct ((t - lo <=? mi) && (hi - t <=? mi)); eauto.
  Qed.

  Theorem interp_stored (c : cstate) (a : amap) t (d : D) mi p : TRel c a -> lookup2 t d (data c) = Some p ->
    fst (t_step c (Interp t d mi)) = OVal p.
  Proof.
    intros TR L. unfold MTraj.t_step; cbn [t_step_gen]. unfold interp_c. rewrite L. reflexivity.
  Qed.

  Theorem interp_between (c : cstate) (a : amap) t (d : D) mi lo hi pl ph : TRel c a -> lookup2 t d (data c) = None ->
    is_lo (data c) t d lo -> is_hi (data c) t d hi ->
    lookup2 lo d (data c) = Some pl -> lookup2 hi d (data c) = Some ph ->
    fst (t_step c (Interp t d mi)) =
    if (t - lo <=? mi) && (hi - t <=? mi) then OVal (interp t lo pl hi ph) else ONone.
  Proof.
    intros TR Nt Lo Hi Pl Ph. pose proof TR as [Rl _]. pose proof Rl as [_ [_ Rxa]].
    unfold MTraj.t_step; cbn [t_step_gen]. rewrite (proj1 (interp_refines c a t d mi TR)).
    unfold s_interp. rewrite <- Rxa, Nt.
    pose proof (spec_lo (data c) a t d Rl) as SL. pose proof (spec_hi (data c) a t d Rl) as SH.
    destruct (nearest_below t (dev_entries a d)) as [[lo' pl']|]; [|exfalso; eapply is_lo_no_lo; eassumption].
    destruct (nearest_above t (dev_entries a d)) as [[hi' ph']|]; [|exfalso; eapply is_hi_no_hi; eassumption].
    cbn [fst snd] in *. destruct SL as [SL Pl'], SH as [SH Ph'].
    assert (lo' = lo) by (eapply is_lo_unique; eassumption).
    assert (hi' = hi) by (eapply is_hi_unique; eassumption). subst lo' hi'.
    rewrite Pl in Pl'. rewrite Ph in Ph'. injection Pl' as <-. injection Ph' as <-. reflexivity.
  Qed.

  Theorem interp_no_bracket (c : cstate) (a : amap) t (d : D) mi : TRel c a -> lookup2 t d (data c) = None ->
    no_lo (data c) t d \/ no_hi (data c) t d ->
    fst (t_step c (Interp t d mi)) = ONone.
  Proof.
    intros TR Nt No. pose proof TR as [Rl _]. pose proof Rl as [_ [_ Rxa]].
    unfold MTraj.t_step; cbn [t_step_gen]. rewrite (proj1 (interp_refines c a t d mi TR)).
    unfold s_interp. rewrite <- Rxa, Nt.
    pose proof (spec_lo (data c) a t d Rl) as SL. pose proof (spec_hi (data c) a t d Rl) as SH.
    destruct (nearest_below t (dev_entries a d)) as [[lo' pl']|]; [|reflexivity].
    destruct (nearest_above t (dev_entries a d)) as [[hi' ph']|]; [|reflexivity].
    exfalso. destruct No as [No|No]; [eapply is_lo_no_lo; [apply SL | exact No] | eapply is_hi_no_hi; [apply SH | exact No]].
  Qed.

  (* every state reached from the empty container is related to the plain map reached by the same operations *)
  Lemma reachable_TRel (ops : list top) : TRel (snd (t_run (init maxsize) ops)) (snd (s_trun [] ops)).
  Proof. apply traj_refines, TRel_init. Qed.

  (* two histories that end with the same entries answer every further operation alike *)
  Theorem traj_history_independent (ops1 ops2 : list top) :
    (forall t d, lookup2 t d (data (snd (t_run (init maxsize) ops1))) =
                 lookup2 t d (data (snd (t_run (init maxsize) ops2)))) ->
    forall o, out_equiv (fst (t_step (snd (t_run (init maxsize) ops1)) o))
                        (fst (t_step (snd (t_run (init maxsize) ops2)) o)).
  Proof.
    intros Same o. pose proof (reachable_TRel ops1) as TR1. pose proof (reachable_TRel ops2) as [[I2 _] CI2].
    apply (traj_same_content _ _ _ TR1 I2 CI2). intros t d. symmetry. apply Same.
  Qed.

  (* queries (everything but the four edits) never change the entries *)
  Definition is_query (o : top) : bool :=
    match o with
    | M (SetPair _ _ _) | M (SetTs _ _) | M (DelPair _ _) | M (DelTs _) => false
    | _ => true
    end.

  Lemma rebuild_data (c : cstate) : data (rebuild c) = data c.
  Proof.
    unfold rebuild_gen. destruct (is_nil (cache c)); [|reflexivity].
    destruct (zsort (keys (data c))); reflexivity.
  Qed.

  Theorem query_keeps_content (c : cstate) (o : top) : is_query o = true -> data (snd (t_step c o)) = data c.
  Proof.
    unfold MTraj.t_step. destruct o as [mo| | |t d mi]; cbn [t_step_gen is_query].
    - destruct mo; try discriminate; intros _; reflexivity.
    - intros _. apply rebuild_data.
    - intros _. apply rebuild_data.
    - intros _. unfold interp_c. destruct (lookup2 t d (data c)); [reflexivity|].
      destruct (Nat.ltb _ _); [apply rebuild_data|].
      destruct (_ || _); apply rebuild_data.
  Qed.
End Traj.

(* ---------- membership answers of Trajectories do not depend on the poses stored *)
Section RelabelTraj.
  Context {D P Q : Type} `{EqDec D}.
  Variable f : P -> Q.
  Variable interp : Z -> Z -> P -> Z -> P -> P.
  Variable interp' : Z -> Z -> Q -> Z -> Q -> Q.
  Variables nd nd' : Z -> Z.
  Variables maxsize maxsize' : Z.

  Definition top_map (o : top D P) : top D Q :=
    match o with
    | M mo => M (mop_map f mo)
    | Sorted => Sorted
    | TsLen => TsLen
    | Interp t d mi => Interp t d mi
    end.

  Lemma s_tstep_vmap (a : amap D P) o :
    snd (s_tstep interp' nd' (vmap f a) (top_map o)) = vmap f (snd (s_tstep interp nd a o)).
  Proof. destruct o; cbn [top_map s_tstep snd]; try reflexivity. apply s_step_vmap. Qed.

  Lemma s_trun_vmap ops : forall (a : amap D P),
    snd (s_trun interp' nd' (vmap f a) (map top_map ops)) = vmap f (snd (s_trun interp nd a ops)).
  Proof.
    induction ops as [|o ops IH]; intros a; cbn [map s_trun]; [reflexivity|].
    pose proof (s_tstep_vmap a o) as E.
    destruct (s_tstep interp' nd' (vmap f a) (top_map o)) as [r1 a1], (s_tstep interp nd a o) as [r2 a2].
    cbn [snd] in E. subst a1. specialize (IH a2).
    destruct (s_trun interp' nd' (vmap f a2) (map top_map ops)) as [rs1 b1], (s_trun interp nd a2 ops) as [rs2 b2].
    cbn [snd] in *. exact IH.
  Qed.

  Theorem traj_membership_ignores_payload (ops : list (top D P)) t d :
    has_pair (data (snd (t_run interp' nd' (init maxsize') (map top_map ops)))) t d =
    has_pair (data (snd (t_run interp nd (init maxsize) ops))) t d /\
    has_ts (data (snd (t_run interp' nd' (init maxsize') (map top_map ops)))) t =
    has_ts (data (snd (t_run interp nd (init maxsize) ops))) t.
  Proof.
    pose proof (reachable_TRel interp nd maxsize ops) as [R1 _].
    pose proof (reachable_TRel interp' nd' maxsize' (map top_map ops)) as [R2 _].
    change (@nil (Z * D * Q)) with (vmap f (@nil (Z * D * P))) in R2. rewrite (s_trun_vmap ops) in R2. split.
    - rewrite (has_pair_spec _ _ t d R1), (has_pair_spec _ _ t d R2). apply mem_vmap.
    - unfold has_ts. rewrite (has_ts_eq _ _ t R1), (has_ts_eq _ _ t R2), ts_of_vmap, is_nil_vmap. reflexivity.
  Qed.
End RelabelTraj.
