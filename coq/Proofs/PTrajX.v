(* Proofs/PTrajX.v — property C07, second batch of lemmas: Trajectories.inverse(), sensors_ids, data_list(),
   what an edit must NOT change (frame), failed operations change nothing, queries are idempotent. *)
From Coq Require Import List Bool ZArith Lia Permutation.
From KV Require Import Eqb AL.
From KV.Model Require Import MRec MTraj.
From KV.Proofs Require Import PRec PTraj.
Import ListNotations.
Local Open Scope Z_scope.

(* ---------- a fold of insertions over a list whose keys determine the values *)
Section FoldInsert.
  Context {K V E : Type} `{EqDec K}.
  Variable kf : E -> K.
  Variable vf : E -> V.
  Notation ins := (fun (acc : al K V) (e : E) => insert (kf e) (vf e) acc).

  Lemma fold_insert_other (l : list E) : forall (acc : al K V) k,
    (forall e, In e l -> kf e <> k) -> lookup k (fold_left ins l acc) = lookup k acc.
  Proof.
    induction l as [|e l IH]; intros acc k N; cbn; [reflexivity|].
    rewrite IH; [|intros e' I; apply N; right; assumption].
    apply lookup_insert_neq. intros ->. apply (N e); [left; reflexivity | reflexivity].
  Qed.

  Lemma fold_insert_in (l : list E) : forall (acc : al K V) e,
    (forall e1 e2, In e1 l -> In e2 l -> kf e1 = kf e2 -> vf e1 = vf e2) ->
    In e l -> lookup (kf e) (fold_left ins l acc) = Some (vf e).
  Proof.
    induction l as [|e0 l IH]; intros acc e F I; [destruct I|]. cbn [fold_left].
    destruct (find (fun e' => eqb (kf e') (kf e)) l) as [e'|] eqn:Ef.
    - apply find_some in Ef. destruct Ef as [I' E']. apply eqb_true in E'.
      rewrite <- E'. rewrite (IH _ e'); [|intros e1 e2 I1 I2; apply F; right; assumption | assumption].
      f_equal. apply F; [right; assumption | assumption | assumption].
    - rewrite fold_insert_other.
      + destruct I as [->|I]; [apply lookup_insert_eq|].
        pose proof (find_none _ _ Ef e I) as N. cbn in N. rewrite eqb_refl in N. discriminate.
      + intros e' I' E'. pose proof (find_none _ _ Ef e' I') as N. cbn in N.
        rewrite E', eqb_refl in N. discriminate.
  Qed.
End FoldInsert.

Lemma keys_vmap {K V W} (g : V -> W) (m : al K V) : keys (vmap g m) = keys m.
Proof. unfold keys, vmap. rewrite map_map. apply map_ext. reflexivity. Qed.

Section TrajX.
  Set Default Proof Using "Type".
  Context {D P : Type} `{EqDec D} `{EqDec P}.
  Variable interp : Z -> Z -> P -> Z -> P -> P.
  Variable nd : Z -> Z.
  Variable maxsize : Z.
  Variable pinv : P -> P.
  Notation nested := (nested D P).
  Notation amap := (amap D P).
  Notation cstate := (cstate D P).
  Notation top := (top D P).
  Notation t_step := (t_step interp nd).
  Notation t_run := (t_run interp nd).
  Notation s_trun := (s_trun interp nd).
  Notation inverse_c := (inverse_c interp nd maxsize pinv).
  Notation TRel := (TRel (D := D) (P := P)).

  (* ---------- inverse() *)
  Definition inv_key (e : Z * D * P) : Z * D := (fst (fst e), snd (fst e)).
  Definition inv_val (e : Z * D * P) : P := pinv (snd e).

  Lemma s_trun_setpairs (l : list (Z * D * P)) : forall (acc : amap),
    snd (s_trun acc (map (fun e => M (SetPair (fst (fst e)) (snd (fst e)) (pinv (snd e)))) l)) =
    fold_left (fun a e => insert (inv_key e) (inv_val e) a) l acc.
  Proof.
    induction l as [|e l IH]; intros acc; cbn [map MTraj.s_trun fold_left]; [reflexivity|].
    cbn [MTraj.s_tstep s_step]. specialize (IH (insert (inv_key e) (inv_val e) acc)).
    unfold inv_key, inv_val in *.
    destruct (s_trun _ (map _ l)) as [rs a'']. cbn [snd] in *. exact IH.
  Qed.

  Lemma inverse_content (x : nested) : PRec.inv x -> forall t d,
    lookup (t, d) (snd (s_trun [] (inverse_ops pinv x))) = option_map pinv (lookup2 t d x).
  Proof.
    intros Ix t d. unfold inverse_ops. rewrite s_trun_setpairs.
    assert (F : forall e1 e2 : Z * D * P, In e1 (flatten x) -> In e2 (flatten x) ->
                  inv_key e1 = inv_key e2 -> inv_val e1 = inv_val e2).
    { intros [[t1 d1] p1] [[t2 d2] p2] I1 I2 E. unfold inv_key, inv_val in *. cbn in *. injection E as -> ->.
      apply (flatten_In x _ _ _ Ix) in I1. apply (flatten_In x _ _ _ Ix) in I2. congruence. }
    destruct (lookup2 t d x) as [p|] eqn:L; cbn [option_map].
    - apply (flatten_In x _ _ _ Ix) in L.
      apply (fold_insert_in inv_key inv_val (flatten x) [] (t, d, p) F L).
    - rewrite fold_insert_other; [reflexivity|].
      intros [[t1 d1] p1] I E. unfold inv_key in E. cbn in E. injection E as -> ->.
      apply (flatten_In x _ _ _ Ix) in I. congruence.
  Qed.

  (* the inverted container is a well-formed container holding exactly the same keys with inverted poses,
     and its cache obeys the invariant: every theorem about reachable states applies to it *)
  Theorem inverse_TRel (c : cstate) (a : amap) : Rel (data c) a -> TRel (inverse_c c) (vmap pinv a).
  Proof.
    intros [Ix [Wa Rxa]]. unfold MTraj.inverse_c.
    pose proof (reachable_TRel interp nd maxsize (inverse_ops pinv (data c))) as [[I' [W' R']] CI].
    split; [|exact CI]. split; [exact I'|]. split.
    - unfold wf. rewrite keys_vmap. exact Wa.
    - intros t d. rewrite R', lookup_vmap, <- Rxa. apply inverse_content. exact Ix.
  Qed.

  Theorem inverse_lookup (c : cstate) (a : amap) : Rel (data c) a -> forall t d,
    lookup2 t d (data (inverse_c c)) = option_map pinv (lookup2 t d (data c)).
  Proof.
    intros Rl t d. destruct (inverse_TRel c a Rl) as [[_ [_ R']] _]. destruct Rl as [_ [_ Rxa]].
    rewrite R', lookup_vmap, Rxa. reflexivity.
  Qed.

  Lemma timestamps_vmap (a : amap) : timestamps (vmap pinv a) = timestamps a.
  Proof. unfold timestamps, vmap. rewrite map_map. reflexivity. Qed.

  (* inverse() keeps both membership answers, the sorted timestamp list and timestamp_length *)
  Theorem inverse_keeps_keys (c : cstate) (a : amap) : PTraj.TRel c a ->
    (forall t d, has_pair (data (inverse_c c)) t d = has_pair (data c) t d) /\
    (forall t, has_ts (data (inverse_c c)) t = has_ts (data c) t) /\
    fst (t_step (inverse_c c) Sorted) = fst (t_step c Sorted) /\
    fst (t_step (inverse_c c) TsLen) = fst (t_step c TsLen).
  Proof.
    intros TR. pose proof TR as [Rl CI]. pose proof (inverse_TRel c a Rl) as TR'. pose proof TR' as [Rl' _].
    split; [|split; [|split]].
    - intros t d. unfold has_pair. rewrite (inverse_lookup c a Rl). destruct (lookup2 t d (data c)); reflexivity.
    - intros t. unfold has_ts. rewrite (has_ts_eq _ _ t Rl), (has_ts_eq _ _ t Rl'), ts_of_vmap, is_nil_vmap. reflexivity.
    - pose proof (tstep_refines interp nd _ _ Sorted TR) as [E _].
      pose proof (tstep_refines interp nd _ _ Sorted TR') as [E' _].
      cbn [MTraj.s_tstep fst] in E, E'. unfold s_sorted in *. rewrite timestamps_vmap in E'.
      destruct (fst (t_step c Sorted)), (fst (t_step (inverse_c c) Sorted)); cbn in E, E'; congruence.
    - pose proof (tstep_refines interp nd _ _ TsLen TR) as [E _].
      pose proof (tstep_refines interp nd _ _ TsLen TR') as [E' _].
      cbn [MTraj.s_tstep fst] in E, E'. unfold s_sorted in *. rewrite timestamps_vmap in E'.
      destruct (fst (t_step c TsLen)), (fst (t_step (inverse_c c) TsLen)); cbn in E, E'; congruence.
  Qed.

  (* ---------- sensors_ids / data_list *)
  Theorem sensors_spec (x : nested) : PRec.inv x -> forall d,
    In d (sensors_of x) <-> exists t, has_pair x t d = true.
  Proof.
    intros Ix d. unfold sensors_of. rewrite dedup_In, in_map_iff. split.
    - intros [[[t d'] p] [E I]]. cbn in E. subst d'. exists t. unfold has_pair.
      apply (flatten_In x _ _ _ Ix) in I. rewrite I. reflexivity.
    - intros [t E]. unfold has_pair in E. destruct (lookup2 t d x) as [p|] eqn:L; [|discriminate].
      exists (t, d, p). split; [reflexivity|]. apply (flatten_In x _ _ _ Ix). assumption.
  Qed.

  Lemma sensors_NoDup (x : nested) : NoDup (sensors_of x).
  Proof. apply dedup_NoDup. Qed.

  (* data_list() holds one value per entry of the plain map *)
  Theorem data_list_perm (x : nested) (a : amap) : Rel x a -> Permutation (data_list_of x) (map snd a).
  Proof.
    intros Rl. unfold data_list_of. rewrite (Permutation_map snd (pairs_perm x a Rl)), map_map.
    cbn. apply Permutation_refl.
  Qed.

  (* ---------- what an edit must not change *)
  Definition other_ts (o : mop D P) (t' : Z) : Prop :=
    match o with
    | SetPair t _ _ | SetTs t _ | DelPair t _ | DelTs t => t' <> t
    | _ => True
    end.
  Definition other_pair (o : mop D P) (t' : Z) (d' : D) : Prop :=
    match o with
    | SetPair t d _ | DelPair t d => (t', d') <> (t, d)
    | SetTs t _ | DelTs t => t' <> t
    | _ => True
    end.

  Lemma lookup2_set_inner t m (x : nested) t' d' :
    lookup2 t' d' (insert t m x) = if eqb t' t then lookup d' m else lookup2 t' d' x.
  Proof. unfold lookup2. rewrite lookup_insert. destruct (eqb t' t); reflexivity. Qed.
  Lemma lookup2_del t (x : nested) t' d' :
    lookup2 t' d' (remove t x) = if eqb t' t then None else lookup2 t' d' x.
  Proof. unfold lookup2. rewrite lookup_remove. destruct (eqb t' t); reflexivity. Qed.

  Theorem edit_frame (x : nested) (o : mop D P) t' d' :
    other_pair o t' d' -> lookup2 t' d' (snd (m_step x o)) = lookup2 t' d' x.
  Proof.
    unfold m_step. destruct o as [t d p|t l|t d|t|t|t d|t d|t| | |]; cbn [other_pair m_step_gen snd]; intros N;
      try reflexivity.
    - rewrite lookup2_set_inner. destruct (eqb_spec t' t) as [->|Nt]; [|reflexivity].
      rewrite lookup_insert_neq; [|intros ->; apply N; reflexivity].
      unfold lookup2. destruct (lookup t x); reflexivity.
    - cbn [negb andb]. rewrite Bool.andb_true_r.
      destruct (is_nil (of_list l)); [rewrite lookup2_del | rewrite lookup2_set_inner];
        destruct (eqb_spec t' t); try contradiction; reflexivity.
    - destruct (lookup t x) as [m|] eqn:L; [|reflexivity].
      destruct (lookup d m) as [p|] eqn:Ld; [|reflexivity]. cbn [snd].
      assert (Q : t' = t -> lookup d' (remove d m) = lookup d' m).
      { intros ->. apply lookup_remove_neq. intros ->. apply N; reflexivity. }
      destruct (is_nil (remove d m)) eqn:En.
      + rewrite lookup2_del. destruct (eqb_spec t' t) as [E|Nt]; [|reflexivity]. specialize (Q E). subst t'.
        apply is_nil_true in En. rewrite En in Q. unfold lookup2. rewrite L. exact Q.
      + rewrite lookup2_set_inner. destruct (eqb_spec t' t) as [E|Nt]; [|reflexivity]. specialize (Q E). subst t'.
        unfold lookup2. rewrite L. exact Q.
    - destruct (mem t x); cbn [snd]; [|reflexivity]. rewrite lookup2_del.
      destruct (eqb_spec t' t); [contradiction | reflexivity].
  Qed.

  (* ---------- an operation that raises changes nothing, cache included *)
  Definition is_err (r : out D P) : bool :=
    match r with OKeyErr | OTypeErr | OIndexErr | OOtherErr => true | _ => false end.

  Theorem failed_map_op_changes_nothing (c : cstate) (mo : mop D P) :
    is_err (fst (t_step c (M mo))) = true -> snd (t_step c (M mo)) = c.
  Proof.
    unfold MTraj.t_step. cbn [t_step_gen]. destruct c as [x ca fi la]. cbn [data cache first last].
    destruct mo as [t d p|t l|t d|t|t|t d|t d|t| | |]; cbn; try discriminate; try reflexivity.
    - destruct (lookup t x) as [m|]; cbn; [|reflexivity]. destruct (lookup d m); cbn; [|reflexivity].
      destruct (is_nil (remove d m)); cbn; discriminate.
    - destruct (mem t x); cbn; [discriminate | reflexivity].
  Qed.

  (* ---------- queries are idempotent: asking again gives the same answer and changes nothing more *)
  Lemma rebuild_idem (c : cstate) : rebuild_gen false (rebuild_gen false c) = rebuild_gen false c.
  Proof.
    unfold rebuild_gen. destruct (is_nil (cache c)) eqn:En; [destruct (zsort (keys (data c))) as [|z l] eqn:Ez|];
      cbn [cache data is_nil first last]; rewrite ?En, ?Ez; reflexivity.
  Qed.

  Theorem sorted_idempotent (c : cstate) :
    let c1 := snd (t_step c Sorted) in
    fst (t_step c1 Sorted) = fst (t_step c Sorted) /\ snd (t_step c1 Sorted) = c1 /\
    fst (t_step c1 TsLen) = fst (t_step c TsLen) /\ snd (t_step c1 TsLen) = c1.
  Proof.
    unfold MTraj.t_step. cbn [t_step_gen fst snd]. rewrite rebuild_idem. repeat split; reflexivity.
  Qed.
End TrajX.

(* ---------- the algebra of pair edits, from ANY state: exact content after one edit; assignments to different
   pairs commute; the later assignment wins; assign-then-delete of an absent pair restores the content *)
Section EditAlgebra.
  Set Default Proof Using "Type".
  Context {D P : Type} `{EqDec D} `{EqDec P}.
  Notation nested := (nested D P).

  (* the content after one pair edit, from ANY state *)
  Theorem set_pair_spec (x : nested) t d p t' d' :
    lookup2 t' d' (snd (m_step x (SetPair t d p))) = if eqb t' t && eqb d' d then Some p else lookup2 t' d' x.
  Proof.
    unfold m_step. cbn [m_step_gen snd]. rewrite lookup2_set_inner.
    destruct (eqb_spec t' t) as [->|Nt]; cbn [andb]; [|reflexivity].
    rewrite lookup_insert. destruct (eqb_spec d' d); [reflexivity|].
    unfold lookup2. destruct (lookup t x); reflexivity.
  Qed.

  Theorem del_pair_spec (x : nested) t d t' d' :
    lookup2 t' d' (snd (m_step x (DelPair t d))) = if eqb t' t && eqb d' d then None else lookup2 t' d' x.
  Proof.
    destruct (eqb_spec t' t) as [->|Nt]; cbn [andb].
    - destruct (eqb_spec d' d) as [->|Nd].
      + unfold m_step. cbn [m_step_gen].
        destruct (lookup t x) as [m|] eqn:L; cbn [snd]; [|unfold lookup2; rewrite L; reflexivity].
        destruct (lookup d m) as [p|] eqn:Ld; cbn [snd]; [|unfold lookup2; rewrite L; assumption].
        destruct (is_nil (remove d m)); [rewrite lookup2_del, eqb_refl; reflexivity|].
        rewrite lookup2_set_inner, eqb_refl. apply lookup_remove_eq.
      + apply edit_frame. cbn. intros [= E]. contradiction.
    - apply edit_frame. cbn. intros [= E _]. contradiction.
  Qed.

  Notation content_eq x y := (forall t d, lookup2 t d x = lookup2 t d y).

  (* assignments to different pairs commute; the later assignment to the same pair wins; deleting a pair that
     was absent before it was assigned restores the content *)
  Theorem set_pairs_commute (x : nested) t1 d1 p1 t2 d2 p2 : (t1, d1) <> (t2, d2) ->
    content_eq (snd (m_step (snd (m_step x (SetPair t1 d1 p1))) (SetPair t2 d2 p2)))
               (snd (m_step (snd (m_step x (SetPair t2 d2 p2))) (SetPair t1 d1 p1))).
  Proof.
    intros N t d. rewrite !set_pair_spec.
    destruct (eqb_spec t t2) as [->|]; destruct (eqb_spec d d2) as [->|]; cbn [andb]; try reflexivity.
    destruct (eqb_spec t2 t1) as [->|]; destruct (eqb_spec d2 d1) as [->|]; cbn [andb]; try reflexivity.
    exfalso; apply N; reflexivity.
  Qed.

  Theorem set_pair_overwrites (x : nested) t d p1 p2 :
    content_eq (snd (m_step (snd (m_step x (SetPair t d p1))) (SetPair t d p2))) (snd (m_step x (SetPair t d p2))).
  Proof. intros t' d'. rewrite !set_pair_spec. destruct (eqb t' t && eqb d' d); reflexivity. Qed.

  Theorem set_then_delete_restores (x : nested) t d p : lookup2 t d x = None ->
    content_eq (snd (m_step (snd (m_step x (SetPair t d p))) (DelPair t d))) x.
  Proof.
    intros E t' d'. rewrite del_pair_spec, set_pair_spec.
    destruct (eqb_spec t' t) as [->|]; cbn [andb]; [|reflexivity].
    destruct (eqb_spec d' d) as [->|]; [symmetry; assumption | reflexivity].
  Qed.
End EditAlgebra.
