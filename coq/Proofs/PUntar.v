(* Proofs/PUntar.v — lemmas about Model/MUntar.v (property C18). *)
From Coq Require Import List Bool String Ascii Arith Lia.
From KV Require Import Eqb Str AL.
From KV.Model Require Import MUntar.
Import ListNotations.
Local Open Scope string_scope.
Local Open Scope list_scope.

(* ================================================================ paths *)
Definition under (R p : rpath) : Prop := exists q, p = q ++ R.

Lemma under_refl R : under R R.
Proof. exists []; reflexivity. Qed.

Lemma under_cons R p c : under R p -> under R (c :: p).
Proof. intros [q ->]. exists (c :: q); reflexivity. Qed.

Lemma under_app R q : under R (q ++ R).
Proof. exists q; reflexivity. Qed.

Lemma underb_under R p : underb R p = true -> under R p.
Proof.
  unfold underb. rewrite andb_true_iff. intros [E L]. apply eqb_true in E. apply Nat.leb_le in L.
  exists (firstn (List.length p - List.length R) p). rewrite <- E at 2. symmetry; apply firstn_skipn.
Qed.

Lemma under_underb R p : under R p -> underb R p = true.
Proof.
  intros [q ->]. unfold underb. rewrite app_length.
  replace (List.length q + List.length R - List.length R) with (List.length q) by lia.
  rewrite skipn_app, skipn_all, Nat.sub_diag. cbn. rewrite eqb_refl. cbn. apply Nat.leb_le. lia.
Qed.

Ltac clash H1 H2 := exfalso; let X := fresh in pose proof (eq_trans (eq_sym H1) H2) as X; discriminate X.

(* ================================================================ walk *)
Lemma walk_0 m s seen cur cs : walk m s 0 seen cur cs = WFuel.
Proof. reflexivity. Qed.

Lemma walk_nil m s f seen cur : walk m s (S f) seen cur [] = WOk cur.
Proof. reflexivity. Qed.

Lemma walk_cons m s f seen cur c rest :
  walk m s (S f) seen cur (c :: rest) =
  if negb (lenient m) && negb (is_dir s cur) then WErr
  else if is_dd c then walk m s f seen (tl cur) rest
  else match m, rest with
       | NoFollow, [] => walk m s f seen (c :: cur) rest
       | _, _ =>
         match node_at s (c :: cur) with
         | Some (NSym t) =>
             if memb (c :: cur) seen then (if lenient m then WLoop (c :: cur) rest else WErr)
             else match walk (sub_mode m rest) s f ((c :: cur) :: seen) (if is_abs t then [] else cur) (comps t) with
                  | WOk y => walk m s f seen y rest
                  | WLoop p r => WLoop p (r ++ rest)
                  | e => e
                  end
         | Some _ => walk m s f seen (c :: cur) rest
         | None => match m, rest with
                   | Lenient, _ | Create, [] => walk m s f seen (c :: cur) rest
                   | _, _ => WErr
                   end
         end
       end.
Proof. reflexivity. Qed.

Definition follows (m : mode) : Prop := m = Strict \/ m = Create.

Lemma sub_mode_follows m rest : m <> Lenient -> follows (sub_mode m rest).
Proof. unfold follows. destruct m, rest; cbn; intuition congruence. Qed.

Lemma sub_mode_lenient rest : sub_mode Lenient rest = Lenient.
Proof. destruct rest; reflexivity. Qed.

Definition nosym (s : state) (p : rpath) : Prop := forall t, node_at s p <> Some (NSym t).

(* whenever the kernel resolves a path, realpath computes the same location (for a path whose last
   component is not followed: provided that component is not a link) *)
Lemma walk_agree s f : forall m seen cur cs x,
  walk m s f seen cur cs = WOk x -> (follows m \/ (m = NoFollow /\ nosym s x)) ->
  walk Lenient s f seen cur cs = WOk x.
Proof.
  induction f as [|f IH]; intros m seen cur cs x W HM; [discriminate|].
  destruct cs as [|c rest]; [exact W|].
  rewrite walk_cons in *.
  assert (NL : m <> Lenient) by (unfold follows in HM; intuition congruence).
  assert (LM : lenient m = false) by (destruct m; cbn; congruence).
  rewrite LM in W. cbn [negb andb lenient] in *.
  destruct (negb (is_dir s cur)); [discriminate|]. cbn [andb] in W.
  destruct (is_dd c); [eapply IH; eauto|].
  assert (G : forall y, walk m s f seen y rest = WOk x -> walk Lenient s f seen y rest = WOk x)
    by (intros; eapply IH; eauto).
  assert (NFcase : m = NoFollow -> rest = [] -> walk m s f seen (c :: cur) rest = WOk x ->
          match node_at s (c :: cur) with
          | Some (NSym t) =>
              if memb (c :: cur) seen then WLoop (c :: cur) rest
              else match walk (sub_mode Lenient rest) s f ((c :: cur) :: seen) (if is_abs t then [] else cur) (comps t) with
                   | WOk y => walk Lenient s f seen y rest
                   | WLoop p r => WLoop p (r ++ rest)
                   | e => e
                   end
          | Some _ => walk Lenient s f seen (c :: cur) rest
          | None => walk Lenient s f seen (c :: cur) rest
          end = WOk x).
  { intros -> -> W'. destruct HM as [[?|?]|[_ NS]]; try discriminate.
    destruct f; [discriminate|]. cbn in W'. injection W' as <-.
    destruct (node_at s (c :: cur)) as [[| i | t |]|] eqn:N; try reflexivity. exfalso; eapply NS; eauto. }
  assert (Main : (m = NoFollow -> rest <> []) ->
          match node_at s (c :: cur) with
          | Some (NSym t) =>
              if memb (c :: cur) seen then WErr
              else match walk (sub_mode m rest) s f ((c :: cur) :: seen) (if is_abs t then [] else cur) (comps t) with
                   | WOk y => walk m s f seen y rest
                   | WLoop p r => WLoop p (r ++ rest)
                   | e => e
                   end
          | Some _ => walk m s f seen (c :: cur) rest
          | None => match m, rest with
                    | Lenient, _ | Create, [] => walk m s f seen (c :: cur) rest
                    | _, _ => WErr
                    end
          end = WOk x ->
          match node_at s (c :: cur) with
          | Some (NSym t) =>
              if memb (c :: cur) seen then WLoop (c :: cur) rest
              else match walk (sub_mode Lenient rest) s f ((c :: cur) :: seen) (if is_abs t then [] else cur) (comps t) with
                   | WOk y => walk Lenient s f seen y rest
                   | WLoop p r => WLoop p (r ++ rest)
                   | e => e
                   end
          | Some _ => walk Lenient s f seen (c :: cur) rest
          | None => walk Lenient s f seen (c :: cur) rest
          end = WOk x).
  { intros _ W'. destruct (node_at s (c :: cur)) as [[| i | t |]|] eqn:N; auto.
    - destruct (memb (c :: cur) seen); [discriminate|].
      destruct (walk (sub_mode m rest) s f ((c :: cur) :: seen) (if is_abs t then [] else cur) (comps t)) eqn:W1;
        try discriminate.
      rewrite sub_mode_lenient.
      erewrite IH; [| exact W1 | left; apply sub_mode_follows; assumption]. auto.
    - destruct m; try congruence; destruct rest; try discriminate; auto. }
  destruct m; try congruence.
  - apply Main; [congruence | exact W].
  - apply Main; [congruence | exact W].
  - destruct rest; [apply NFcase; auto | apply Main; [congruence | exact W]].
Qed.

(* realpath only looks at which paths are symbolic links, and at their texts *)
Definition sym_same (s s' : state) : Prop :=
  forall p t, node_at s p = Some (NSym t) <-> node_at s' p = Some (NSym t).

Lemma sym_same_refl s : sym_same s s.
Proof. intros p t; tauto. Qed.

Lemma sym_same_trans s1 s2 s3 : sym_same s1 s2 -> sym_same s2 s3 -> sym_same s1 s3.
Proof. intros A B p t. rewrite (A p t). apply B. Qed.

Lemma sym_same_sym s1 s2 : sym_same s1 s2 -> sym_same s2 s1.
Proof. intros A p t. symmetry. apply A. Qed.

Lemma walk_lenient_sym_same s s' : sym_same s s' ->
  forall f seen cur cs, walk Lenient s f seen cur cs = walk Lenient s' f seen cur cs.
Proof.
  intros SS. induction f as [|f IH]; intros seen cur cs; [reflexivity|].
  destruct cs as [|c rest]; [reflexivity|].
  rewrite !walk_cons. cbn [lenient negb andb].
  destruct (is_dd c); [apply IH|].
  destruct (node_at s (c :: cur)) as [n|] eqn:N.
  - destruct n as [| i | t |].
    + destruct (node_at s' (c :: cur)) as [[| i' | t' |]|] eqn:N'; try apply IH.
      apply (proj2 (SS _ _)) in N'. clash N N'.
    + destruct (node_at s' (c :: cur)) as [[| i' | t' |]|] eqn:N'; try apply IH.
      apply (proj2 (SS _ _)) in N'. clash N N'.
    + apply (proj1 (SS _ _)) in N. rewrite N. rewrite sub_mode_lenient.
      destruct (memb (c :: cur) seen); [reflexivity|]. rewrite IH.
      destruct (walk Lenient s' f ((c :: cur) :: seen) (if is_abs t then [] else cur) (comps t)); auto.
    + destruct (node_at s' (c :: cur)) as [[| i' | t' |]|] eqn:N'; try apply IH.
      apply (proj2 (SS _ _)) in N'. clash N N'.
  - destruct (node_at s' (c :: cur)) as [[| i' | t' |]|] eqn:N'; try apply IH.
    apply (proj2 (SS _ _)) in N'. clash N N'.
Qed.

(* walking down components none of which is ".." nor a symbolic link is the identity; the last
   component does not matter when it is not followed *)
Lemma walk_chain s : forall f m seen cs cur x,
  existsb is_dd cs = false ->
  (forall k, 0 < k <= List.length cs -> (m = NoFollow -> k < List.length cs) -> nosym s (rev (firstn k cs) ++ cur)) ->
  walk m s f seen cur cs = WOk x -> x = rev cs ++ cur.
Proof.
  induction f as [|f IH]; intros m seen cs cur x DD NS W; [discriminate|].
  destruct cs as [|c rest]; [cbn in *; congruence|].
  rewrite walk_cons in W. cbn in DD. apply orb_false_iff in DD. destruct DD as [Dc DD]. rewrite Dc in W.
  destruct (negb (lenient m) && negb (is_dir s cur)); [discriminate|].
  assert (NS' : forall k, 0 < k <= List.length rest -> (m = NoFollow -> k < List.length rest) ->
                nosym s (rev (firstn k rest) ++ c :: cur)).
  { intros k Hk Hm. specialize (NS (S k)). cbn [firstn rev] in NS. rewrite <- app_assoc in NS. apply NS; cbn; [lia|].
    intros E. specialize (Hm E). lia. }
  assert (G : walk m s f seen (c :: cur) rest = WOk x -> x = rev (c :: rest) ++ cur).
  { intros W'. cbn [rev]. rewrite <- app_assoc. cbn. eapply IH; eauto. }
  assert (Main : (m = NoFollow -> rest <> []) ->
     match node_at s (c :: cur) with
     | Some (NSym t) =>
         if memb (c :: cur) seen then (if lenient m then WLoop (c :: cur) rest else WErr)
         else match walk (sub_mode m rest) s f ((c :: cur) :: seen) (if is_abs t then [] else cur) (comps t) with
              | WOk y => walk m s f seen y rest
              | WLoop p r => WLoop p (r ++ rest)
              | e => e
              end
     | Some _ => walk m s f seen (c :: cur) rest
     | None => match m, rest with
               | Lenient, _ | Create, [] => walk m s f seen (c :: cur) rest
               | _, _ => WErr
               end
     end = WOk x -> x = rev (c :: rest) ++ cur).
  { intros NF W'.
    assert (N1 : nosym s (c :: cur)).
    { specialize (NS 1). cbn in NS. apply NS; [lia|]. intros E. specialize (NF E). destruct rest; [congruence | cbn; lia]. }
    destruct (node_at s (c :: cur)) as [[| i | t |]|] eqn:N; auto.
    - exfalso; eapply N1; eauto.
    - destruct m; try discriminate; auto. destruct rest; try discriminate; auto. }
  destruct m; try (apply Main; [congruence | exact W]).
  destruct rest; [apply G; exact W | apply Main; [congruence | exact W]].
Qed.

(* a path the kernel resolves is resolved alike in any file system that has at least the same nodes *)
Lemma walk_mono s2 s1 :
  (forall p n, node_at s2 p = Some n -> node_at s1 p = Some n) ->
  forall f m seen cur cs x, m = Strict \/ m = NoFollow ->
  walk m s2 f seen cur cs = WOk x -> walk m s1 f seen cur cs = WOk x.
Proof.
  intros SUB. induction f as [|f IH]; intros m seen cur cs x HM W; [discriminate|].
  destruct cs as [|c rest]; [exact W|].
  rewrite walk_cons in *.
  assert (LM : lenient m = false) by (destruct HM; subst; reflexivity).
  rewrite LM in *. cbn [negb andb] in *.
  destruct (is_dir s2 cur) eqn:D2; [|discriminate].
  assert (D1 : is_dir s1 cur = true).
  { unfold is_dir in *. destruct (node_at s2 cur) as [[| | |]|] eqn:N; try discriminate. rewrite (SUB _ _ N). reflexivity. }
  rewrite D1. cbn [negb] in *.
  destruct (is_dd c); [eapply IH; eauto|].
  assert (Main :
     match node_at s2 (c :: cur) with
     | Some (NSym t) =>
         if memb (c :: cur) seen then WErr
         else match walk (sub_mode m rest) s2 f ((c :: cur) :: seen) (if is_abs t then [] else cur) (comps t) with
              | WOk y => walk m s2 f seen y rest
              | WLoop p r => WLoop p (r ++ rest)
              | e => e
              end
     | Some _ => walk m s2 f seen (c :: cur) rest
     | None => match m, rest with
               | Lenient, _ | Create, [] => walk m s2 f seen (c :: cur) rest
               | _, _ => WErr
               end
     end = WOk x ->
     match node_at s1 (c :: cur) with
     | Some (NSym t) =>
         if memb (c :: cur) seen then WErr
         else match walk (sub_mode m rest) s1 f ((c :: cur) :: seen) (if is_abs t then [] else cur) (comps t) with
              | WOk y => walk m s1 f seen y rest
              | WLoop p r => WLoop p (r ++ rest)
              | e => e
              end
     | Some _ => walk m s1 f seen (c :: cur) rest
     | None => match m, rest with
               | Lenient, _ | Create, [] => walk m s1 f seen (c :: cur) rest
               | _, _ => WErr
               end
     end = WOk x).
  { intros W'. destruct (node_at s2 (c :: cur)) as [n|] eqn:N.
    - rewrite (SUB _ _ N). destruct n as [| i | t |]; try (eapply IH; eauto; fail).
      destruct (memb (c :: cur) seen); [discriminate|].
      destruct (walk (sub_mode m rest) s2 f ((c :: cur) :: seen) (if is_abs t then [] else cur) (comps t)) eqn:W1;
        try discriminate.
      erewrite IH; [| | exact W1]; [eapply IH; eauto|].
      destruct HM; subst; destruct rest; cbn; auto.
    - destruct HM; subst; destruct rest; discriminate. }
  destruct HM; subst; [apply Main; exact W|].
  destruct rest; [eapply IH; eauto | apply Main; exact W].
Qed.

(* ================================================================ the file system under updates *)
Lemma node_at_set_same s p n : p <> [] -> node_at (set_node s p n) p = Some n.
Proof. destruct p; [congruence|]. intros _. cbn. apply lookup_insert_eq. Qed.

Lemma node_at_set_other s p n q : q <> p -> node_at (set_node s p n) q = node_at s q.
Proof. destruct q; [reflexivity|]. intros N. cbn. apply lookup_insert_neq; assumption. Qed.

Lemma node_at_del_same s p : p <> [] -> node_at (del_node s p) p = None.
Proof. destruct p; [congruence|]. intros _. cbn. apply lookup_remove_eq. Qed.

Lemma node_at_del_other s p q : q <> p -> node_at (del_node s p) q = node_at s q.
Proof. destruct q; [reflexivity|]. intros N. cbn. apply lookup_remove_neq; assumption. Qed.

Lemma node_at_new_same s p d : p <> [] -> node_at (new_file s p d) p = Some (NFile (next s)).
Proof. destruct p; [congruence|]. intros _. cbn. apply lookup_insert_eq. Qed.

Lemma node_at_new_other s p d q : q <> p -> node_at (new_file s p d) q = node_at s q.
Proof. destruct q; [reflexivity|]. intros N. cbn. apply lookup_insert_neq; assumption. Qed.

Lemma node_at_write s i d q : node_at (write_file s i d) q = node_at s q.
Proof. reflexivity. Qed.

(* what the property is about: nothing outside R changes — neither a node nor the content (or the
   owner-rw flag) of a regular file *)
Definition outside_same (R : rpath) (s s' : state) : Prop :=
  forall p, ~ under R p ->
    node_at s' p = node_at s p /\
    forall i, node_at s p = Some (NFile i) -> lookup i (files s') = lookup i (files s).

(* no regular file inside R is a hard link of a file outside R *)
Definition HInv (R : rpath) (s : state) : Prop :=
  forall p q i, node_at s p = Some (NFile i) -> node_at s q = Some (NFile i) -> under R p -> under R q.
(* inode numbers in use are below the allocation counter *)
Definition InoOk (s : state) : Prop := forall p i, node_at s p = Some (NFile i) -> i < next s.
Definition Good (R : rpath) (s : state) : Prop := HInv R s /\ InoOk s.

Lemma outside_same_refl R s : outside_same R s s.
Proof. intros p _; split; auto. Qed.

Lemma outside_same_trans R s1 s2 s3 : outside_same R s1 s2 -> outside_same R s2 s3 -> outside_same R s1 s3.
Proof.
  intros A B p NU. destruct (A p NU) as [A1 A2], (B p NU) as [B1 B2]. split; [congruence|].
  intros i Hi. rewrite B2 by congruence. apply A2; assumption.
Qed.

(* the only effects the extraction has: each one at a location at or beneath R *)
Inductive prim (R : rpath) (s : state) : state -> Prop :=
| prim_set p n : p <> [] -> under R p ->
    (forall i, n = NFile i -> exists q, under R q /\ node_at s q = Some (NFile i)) ->
    prim R s (set_node s p n)
| prim_del p : p <> [] -> under R p -> prim R s (del_node s p)
| prim_new p d : p <> [] -> under R p -> prim R s (new_file s p d)
| prim_write x i d : under R x -> node_at s x = Some (NFile i) -> prim R s (write_file s i d).

Inductive steps (R : rpath) : state -> state -> Prop :=
| steps_refl s : steps R s s
| steps_cons s1 s2 s3 : prim R s1 s2 -> steps R s2 s3 -> steps R s1 s3.

Lemma steps_one R s s' : prim R s s' -> steps R s s'.
Proof. intros; eapply steps_cons; [eassumption | apply steps_refl]. Qed.

Lemma steps_trans R s1 s2 s3 : steps R s1 s2 -> steps R s2 s3 -> steps R s1 s3.
Proof. induction 1; intros; [assumption | eapply steps_cons; eauto]. Qed.

Lemma prim_safe R s s' : Good R s -> prim R s s' -> outside_same R s s' /\ Good R s'.
Proof.
  intros [HI IO] P. destruct P as [p n NE U SRC | p NE U | p d NE U | x i d U NX].
  - (* set *)
    assert (O : forall q, ~ under R q -> q <> p) by (intros q NU ->; auto).
    split; [|split].
    + intros q NU. rewrite node_at_set_other by auto. split; auto.
    + intros a b i Ha Hb Ua.
      destruct (eqb_spec b p) as [->|Nb]; [assumption|]. rewrite node_at_set_other in Hb by assumption.
      destruct (eqb_spec a p) as [->|Na].
      * rewrite node_at_set_same in Ha by assumption. injection Ha as ->.
        destruct (SRC i eq_refl) as [q [Uq Hq]]. eapply HI; eauto.
      * rewrite node_at_set_other in Ha by assumption. eapply HI; eauto.
    + intros a i Ha. cbn [next set_node]. destruct (eqb_spec a p) as [->|Na].
      * rewrite node_at_set_same in Ha by assumption. injection Ha as ->.
        destruct (SRC i eq_refl) as [q [Uq Hq]]. eapply IO; eauto.
      * rewrite node_at_set_other in Ha by assumption. eapply IO; eauto.
  - (* del *)
    assert (O : forall q, ~ under R q -> q <> p) by (intros q NU ->; auto).
    split; [|split].
    + intros q NU. rewrite node_at_del_other by auto. split; auto.
    + intros a b i Ha Hb Ua.
      destruct (eqb_spec b p) as [->|Nb]; [assumption|]. rewrite node_at_del_other in Hb by assumption.
      destruct (eqb_spec a p) as [->|Na]; [rewrite node_at_del_same in Ha by assumption; discriminate|].
      rewrite node_at_del_other in Ha by assumption. eapply HI; eauto.
    + intros a i Ha. cbn [next del_node]. destruct (eqb_spec a p) as [->|Na].
      * rewrite node_at_del_same in Ha by assumption; discriminate.
      * rewrite node_at_del_other in Ha by assumption. eapply IO; eauto.
  - (* new *)
    assert (O : forall q, ~ under R q -> q <> p) by (intros q NU ->; auto).
    split; [|split].
    + intros q NU. rewrite node_at_new_other by auto. split; auto.
      intros i Hi. cbn [files new_file]. apply lookup_insert_neq. apply IO in Hi. lia.
    + intros a b i Ha Hb Ua.
      destruct (eqb_spec b p) as [->|Nb]; [assumption|]. rewrite node_at_new_other in Hb by assumption.
      destruct (eqb_spec a p) as [->|Na].
      * rewrite node_at_new_same in Ha by assumption. injection Ha as <-. apply IO in Hb. lia.
      * rewrite node_at_new_other in Ha by assumption. eapply HI; eauto.
    + intros a i Ha. cbn [next new_file]. destruct (eqb_spec a p) as [->|Na].
      * rewrite node_at_new_same in Ha by assumption. injection Ha as <-. lia.
      * rewrite node_at_new_other in Ha by assumption. apply IO in Ha. lia.
  - (* write *)
    split; [|split].
    + intros q NU. rewrite node_at_write. split; auto.
      intros j Hj. cbn [files write_file]. apply lookup_insert_neq. intros ->. apply NU. eapply HI; eauto.
    + intros a b j Ha Hb Ua. rewrite node_at_write in *. eapply HI; eauto.
    + intros a j Ha. rewrite node_at_write in Ha. cbn [next write_file]. eapply IO; eauto.
Qed.

Lemma steps_safe R s s' : steps R s s' -> Good R s -> outside_same R s s' /\ Good R s'.
Proof.
  induction 1 as [s | s1 s2 s3 P S IH]; intros G; [split; [apply outside_same_refl | assumption]|].
  destruct (prim_safe R s1 s2 G P) as [O G2]. destruct (IH G2) as [O' G3].
  split; [eapply outside_same_trans; eauto | assumption].
Qed.

Global Opaque FUEL.
Arguments walk : simpl never.

(* ================================================================ one member, extracted at R/cs *)
Definition dirs_added (s s1 : state) : Prop :=
  forall p, node_at s1 p = node_at s p \/ (node_at s p = None /\ node_at s1 p = Some NDir).

Lemma dirs_added_refl s : dirs_added s s.
Proof. intros p; auto. Qed.

Lemma dirs_added_trans s1 s2 s3 : dirs_added s1 s2 -> dirs_added s2 s3 -> dirs_added s1 s3.
Proof.
  intros A B p. destruct (A p) as [A1|[A1 A2]], (B p) as [B1|[B1 B2]].
  - left; congruence.
  - right; split; congruence.
  - right; split; congruence.
  - congruence.
Qed.

Lemma dirs_added_sym_same s s1 : dirs_added s s1 -> sym_same s s1.
Proof.
  intros A p t. destruct (A p) as [E|[E1 E2]]; [rewrite E; tauto|]. rewrite E1, E2. split; discriminate.
Qed.

Lemma dirs_added_nosym s s1 p : dirs_added s s1 -> nosym s p -> nosym s1 p.
Proof. intros A N t E. apply (dirs_added_sym_same _ _ A) in E. eapply N; eauto. Qed.

Lemma dirs_added_set s x : node_at s x = None -> dirs_added s (set_node s x NDir).
Proof.
  intros N p. destruct (eqb_spec p x) as [->|NE].
  - right. split; [assumption|]. apply node_at_set_same. intros ->. discriminate.
  - left. apply node_at_set_other; assumption.
Qed.

Definition eres_state (r : eres) : state := match r with EOk s | EOs s | EOther s => s end.
Definition is_eos (r : eres) : Prop := match r with EOs _ => True | _ => False end.

Lemma existsb_removelast {A} (f : A -> bool) (l : list A) : existsb f l = false -> existsb f (removelast l) = false.
Proof.
  induction l as [|a l IH]; [auto|]. cbn [existsb]. intros E. apply orb_false_iff in E. destruct E as [Ea El].
  destruct l as [|b l]; [reflexivity|]. change (removelast (a :: b :: l)) with (a :: removelast (b :: l)).
  cbn [existsb]. rewrite Ea. cbn. apply IH. exact El.
Qed.

Lemma removelast_length {A} (l : list A) : List.length (removelast l) = List.length l - 1.
Proof.
  induction l as [|a l IH]; [reflexivity|]. destruct l as [|b l]; [reflexivity|].
  change (removelast (a :: b :: l)) with (a :: removelast (b :: l)). cbn [List.length] in *. lia.
Qed.

Section Member.
  Variable all : list member.
  Variable R : rpath.
  Variable s0 : state.

  Definition pchain (s : state) (pre : list string) : Prop :=
    forall k, 0 < k <= List.length pre -> nosym s (rev (firstn k pre) ++ R).
  Definition leneq (s : state) : Prop :=
    forall f seen cur cs', walk Lenient s f seen cur cs' = walk Lenient s0 f seen cur cs'.

  Lemma pchain_dirs_added s s1 pre : dirs_added s s1 -> pchain s pre -> pchain s1 pre.
  Proof. intros A P k Hk. eapply dirs_added_nosym; eauto. Qed.

  Lemma leneq_dirs_added s s1 : dirs_added s s1 -> leneq s -> leneq s1.
  Proof.
    intros A E f seen cur cs'. rewrite <- E. symmetry. apply walk_lenient_sym_same. apply dirs_added_sym_same; assumption.
  Qed.

  Lemma pchain_app s a b : pchain s (a ++ b) -> pchain s a.
  Proof.
    intros P k Hk. specialize (P k). rewrite firstn_app in P.
    replace (k - List.length a) with 0 in P by lia. cbn in P. rewrite app_nil_r in P. apply P. rewrite app_length; lia.
  Qed.

  (* the location of a path whose parent chain holds no link and no "..": literally R/cs' *)
  Lemma nofollow_loc s cs' x :
    existsb is_dd cs' = false -> pchain s (removelast cs') ->
    walk NoFollow s FUEL [] R cs' = WOk x -> x = rev cs' ++ R.
  Proof.
    intros DD P W. eapply walk_chain; [exact DD | | exact W].
    intros k Hk Hm. specialize (Hm eq_refl). specialize (P k).
    rewrite firstn_removelast in P by assumption. apply P. rewrite removelast_length. lia.
  Qed.

  Lemma makedirs_steps eok : forall rq s s1 st,
    existsb is_dd (rev rq) = false -> pchain s (rev rq) ->
    makedirs eok s R rq = (s1, st) -> steps R s s1 /\ dirs_added s s1.
  Proof.
    induction rq as [|c rhead IH]; intros s s1 st DD P M.
    - cbn in M. injection M as <- <-. split; [apply steps_refl | apply dirs_added_refl].
    - cbn [makedirs] in M.
      assert (DD' : existsb is_dd (rev rhead) = false).
      { cbn [rev] in DD. rewrite existsb_app in DD. apply orb_false_iff in DD. tauto. }
      assert (P' : pchain s (rev rhead)) by (cbn [rev] in P; eapply pchain_app; eauto).
      set (pre := if k_exists s R (rev rhead) then (s, MDone)
                  else match makedirs eok s R rhead with (s1, MFail) => (s1, MFail) | (s1, _) => (s1, MDone) end) in M.
      assert (PRE : steps R s (fst pre) /\ dirs_added s (fst pre)).
      { unfold pre. destruct (k_exists s R (rev rhead)); [split; [apply steps_refl | apply dirs_added_refl]|].
        destruct (makedirs eok s R rhead) as [sa sta] eqn:MA. destruct (IH s sa sta DD' P' MA).
        destruct sta; cbn; auto. }
      destruct pre as [sa sta]. cbn [fst] in PRE. destruct PRE as [SA DA].
      destruct sta; try (injection M as <- <-; auto; fail).
      + unfold k_mkdir, k_create in M.
        destruct (walk NoFollow sa FUEL [] R (rev (c :: rhead))) as [x| | |] eqn:W;
          try (injection M as <- <-; auto; fail).
        assert (X : x = rev (rev (c :: rhead)) ++ R).
        { eapply nofollow_loc; [exact DD | | exact W]. cbn [rev]. rewrite removelast_last.
          eapply pchain_dirs_added; eauto. }
        rewrite rev_involutive in X.
        destruct (node_at sa x) eqn:N; injection M as <- <-; auto.
        split.
        * eapply steps_trans; [exact SA|]. apply steps_one. apply prim_set.
          -- subst x; discriminate.
          -- subst x. apply under_app.
          -- intros i; discriminate.
        * eapply dirs_added_trans; [exact DA|]. apply dirs_added_set; assumption.
      + unfold k_mkdir, k_create in M.
        destruct (walk NoFollow sa FUEL [] R (rev (c :: rhead))) as [x| | |] eqn:W;
          try (injection M as <- <-; auto; fail).
        assert (X : x = rev (rev (c :: rhead)) ++ R).
        { eapply nofollow_loc; [exact DD | | exact W]. cbn [rev]. rewrite removelast_last.
          eapply pchain_dirs_added; eauto. }
        rewrite rev_involutive in X.
        destruct (node_at sa x) eqn:N; injection M as <- <-; auto.
        split.
        * eapply steps_trans; [exact SA|]. apply steps_one. apply prim_set.
          -- subst x; discriminate.
          -- subst x. apply under_app.
          -- intros i; discriminate.
        * eapply dirs_added_trans; [exact DA|]. apply dirs_added_set; assumption.
  Qed.
End Member.

Section Extract.
  Variable all : list member.
  Variable R : rpath.
  Variable s0 : state.
  Variable cs : list string.
  Hypothesis nodd : existsb is_dd cs = false.
  (* what the 'data' filter established on the state s0 it looked at *)
  Hypothesis OF0 : forall x, walk Lenient s0 FUEL [] R cs = WOk x -> under R x.

  Let L := rev cs ++ R.

  (* holds of every state in which a system call of this member is issued *)
  Definition J (s : state) : Prop :=
    pchain R s (removelast cs) /\ (forall t, node_at s L = Some (NSym t) -> leneq s0 s).

  Definition Hprim (s : state) (m : member) : Prop :=
    leneq s0 s /\
    forall n t, m = MHard n t ->
      is_abs t = false /\ forall x, walk Lenient s0 FUEL [] R (comps t) = WOk x -> under R x.

  Lemma L_not_chain k : 0 < k <= List.length (removelast cs) -> rev (firstn k (removelast cs)) ++ R <> L.
  Proof.
    intros Hk E. apply (f_equal (@List.length _)) in E. unfold L in E.
    rewrite !app_length, !rev_length, firstn_length, removelast_length in *.
    destruct cs; cbn in *; lia.
  Qed.

  Lemma J_dirs_added s s1 : dirs_added s s1 -> J s -> J s1.
  Proof.
    intros A [P Q]. split; [eapply pchain_dirs_added; eauto|].
    intros t E. eapply leneq_dirs_added; [exact A|]. apply (Q t). apply (dirs_added_sym_same _ _ A). exact E.
  Qed.

  Lemma loc s x : J s -> walk NoFollow s FUEL [] R cs = WOk x -> x = L.
  Proof. intros [P _] W. eapply nofollow_loc; eauto. Qed.

  Lemma L_nonempty_if s : node_at s L <> Some NDir -> L <> [].
  Proof. intros N E. rewrite E in N. apply N. reflexivity. Qed.

  (* changing the node at L keeps the parent chain free of links *)
  Lemma pchain_change_L s s' :
    (forall q, q <> L -> node_at s' q = node_at s q) -> pchain R s (removelast cs) -> pchain R s' (removelast cs).
  Proof.
    intros E P k Hk t. rewrite E by (apply L_not_chain; exact Hk). apply P. exact Hk.
  Qed.

  Lemma create_prim s n s' :
    J s -> (forall i, n = NFile i -> exists q, under R q /\ node_at s q = Some (NFile i)) ->
    k_create s R cs n = KOk s' -> prim R s s' /\ s' = set_node s L n /\ node_at s L = None.
  Proof.
    intros HJ SRC K. unfold k_create in K.
    destruct (walk NoFollow s FUEL [] R cs) as [x| | |] eqn:W; try discriminate.
    apply (loc s x HJ) in W. subst x.
    destruct (node_at s L) eqn:N; [discriminate|]. injection K as <-.
    split; [|auto]. apply prim_set; auto.
    - apply (L_nonempty_if s). rewrite N; discriminate.
    - apply under_app.
  Qed.

  Lemma create_prim1 s n s' :
    J s -> (forall i, n = NFile i -> exists q, under R q /\ node_at s q = Some (NFile i)) ->
    k_create s R cs n = KOk s' -> prim R s s'.
  Proof. intros A B C. destruct (create_prim s n s' A B C) as [P _]. exact P. Qed.

  Lemma create_J_not_sym s n s' :
    J s -> k_create s R cs n = KOk s' -> (forall t, n <> NSym t) ->
    (forall i, n = NFile i -> exists q, under R q /\ node_at s q = Some (NFile i)) -> J s'.
  Proof.
    intros HJ K NS SRC. destruct (create_prim s n s' HJ SRC K) as [_ [-> N]].
    assert (NE : L <> []) by (apply (L_nonempty_if s); rewrite N; discriminate).
    split.
    - eapply pchain_change_L; [|apply HJ]. intros q Hq. apply node_at_set_other; assumption.
    - intros t E. rewrite node_at_set_same in E by assumption. injection E as ->. exfalso; eapply NS; eauto.
  Qed.

  Lemma unlink_prim s s' :
    J s -> k_unlink s R cs = KOk s' -> prim R s s' /\ J s'.
  Proof.
    intros HJ K. unfold k_unlink in K.
    destruct (walk NoFollow s FUEL [] R cs) as [x| | |] eqn:W; try discriminate.
    apply (loc s x HJ) in W. subst x.
    assert (NE : L <> []) by (intros E; rewrite E in K; cbn in K; discriminate).
    assert (S' : s' = del_node s L) by (destruct (node_at s L) as [[| | |]|]; congruence).
    subst s'. split.
    - apply prim_del; [assumption | apply under_app].
    - split.
      + eapply pchain_change_L; [|apply HJ]. intros q Hq. apply node_at_del_other; assumption.
      + intros t E. rewrite node_at_del_same in E by assumption. discriminate.
  Qed.

  Lemma open_write_prim s d s' : J s -> k_open_write s R cs d = KOk s' -> prim R s s'.
  Proof.
    intros [P Q] K. unfold k_open_write in K.
    destruct (walk Create s FUEL [] R cs) as [x| | |] eqn:W; try discriminate.
    assert (U : under R x).
    { destruct (node_at s L) as [[| i | t |]|] eqn:N.
      2: { assert (X : x = L).
           { eapply walk_chain; [exact nodd | | exact W]. intros k Hk _.
             destruct (Nat.eq_dec k (List.length cs)) as [->|NE].
             - rewrite firstn_all. fold L. intros t E. clash N E.
             - specialize (P k). rewrite firstn_removelast in P by lia. apply P. rewrite removelast_length. lia. }
           subst x. apply under_app. }
      2: { apply OF0. rewrite <- (Q t eq_refl). eapply walk_agree; [exact W | left; right; reflexivity]. }
      all: assert (X : x = L);
        [ eapply walk_chain; [exact nodd | | exact W]; intros k Hk _;
          destruct (Nat.eq_dec k (List.length cs)) as [->|NE];
          [ rewrite firstn_all; fold L; intros t E; clash N E
          | specialize (P k); rewrite firstn_removelast in P by lia; apply P; rewrite removelast_length; lia ]
        | subst x; apply under_app ]. }
    destruct (node_at s x) as [[| i | t |]|] eqn:N; try discriminate; injection K as <-.
    - eapply prim_write; eauto.
    - apply prim_new; [|assumption]. intros ->. discriminate.
  Qed.

  Lemma link_prim s t s' :
    J s -> leneq s0 s -> (forall x, walk Lenient s0 FUEL [] R (comps t) = WOk x -> under R x) ->
    k_link s R (comps t) R cs = KOk s' -> prim R s s'.
  Proof.
    intros HJ LE LF K. unfold k_link in K.
    destruct (walk NoFollow s FUEL [] R (comps t)) as [x| | |] eqn:W; try discriminate.
    destruct (node_at s x) as [n|] eqn:N; [|discriminate].
    assert (K' : k_create s R cs n = KOk s') by (destruct n; auto; discriminate).
    eapply create_prim1; [exact HJ | | exact K'].
    intros i ->. exists x. split; [|assumption].
    apply LF. rewrite <- LE. eapply walk_agree; [exact W|]. right. split; [reflexivity|].
    intros t' E. clash N E.
  Qed.

  Lemma link_prim_sf s t s' :
    J s ->
    (forall x i, walk NoFollow s FUEL [] R (comps t) = WOk x -> node_at s x = Some (NFile i) -> under R x) ->
    k_link s R (comps t) R cs = KOk s' -> prim R s s'.
  Proof.
    intros HJ SF K. unfold k_link in K.
    destruct (walk NoFollow s FUEL [] R (comps t)) as [x| | |] eqn:W; try discriminate.
    destruct (node_at s x) as [n|] eqn:N; [|discriminate].
    assert (K' : k_create s R cs n = KOk s') by (destruct n; auto; discriminate).
    eapply create_prim1; [exact HJ | | exact K'].
    intros i ->. exists x. split; [eapply SF; eauto | assumption].
  Qed.

  Lemma source_fact s t :
    leneq s0 s -> (forall x, walk Lenient s0 FUEL [] R (comps t) = WOk x -> under R x) ->
    forall x i, walk NoFollow s FUEL [] R (comps t) = WOk x -> node_at s x = Some (NFile i) -> under R x.
  Proof.
    intros LE LF x i W N. apply LF. rewrite <- LE. eapply walk_agree; [exact W|]. right. split; [reflexivity|].
    intros t' E. clash N E.
  Qed.

  Lemma source_fact_sub s s2 t :
    (forall p n, node_at s2 p = Some n -> node_at s p = Some n) ->
    (forall x i, walk NoFollow s FUEL [] R (comps t) = WOk x -> node_at s x = Some (NFile i) -> under R x) ->
    forall x i, walk NoFollow s2 FUEL [] R (comps t) = WOk x -> node_at s2 x = Some (NFile i) -> under R x.
  Proof.
    intros SUB SF x i W N. eapply SF; [|apply SUB; exact N]. eapply walk_mono; eauto.
  Qed.

  (* kapture's own creation of a link member *)
  Lemma own_link_steps s m :
    J s -> leneq s0 s ->
    (forall n t, m = MHard n t -> forall x, walk Lenient s0 FUEL [] R (comps t) = WOk x -> under R x) ->
    steps R s (eres_state (own_link R s cs m)).
  Proof.
    intros HJ LE LF. unfold own_link.
    destruct (makedirs true s R (rev (removelast cs))) as [s1 st] eqn:MA.
    assert (PRE : steps R s s1 /\ dirs_added s s1).
    { eapply makedirs_steps; [| | exact MA]; rewrite rev_involutive; [apply existsb_removelast; exact nodd | apply HJ]. }
    destruct PRE as [S1 D1].
    assert (J1 : J s1) by (eapply J_dirs_added; eauto).
    assert (LE1 : leneq s0 s1) by (eapply leneq_dirs_added; eauto).
    destruct st; try exact S1.
    set (cleared := if k_lexists s1 R cs then match k_unlink s1 R cs with KOk s2 => Some s2 | _ => None end else Some s1).
    assert (CL : match cleared with
                 | Some s2 => steps R s1 s2 /\ J s2 /\ (forall p n, node_at s2 p = Some n -> node_at s1 p = Some n)
                 | None => True end).
    { unfold cleared. destruct (k_lexists s1 R cs); [|split; [apply steps_refl | split; [exact J1 | auto]]].
      destruct (k_unlink s1 R cs) as [s2| |] eqn:KU; auto.
      destruct (unlink_prim s1 s2 J1 KU) as [PU J2]. split; [apply steps_one; exact PU | split; [exact J2|]].
      unfold k_unlink in KU. destruct (walk NoFollow s1 FUEL [] R cs) as [x| | |]; try discriminate.
      assert (S2 : s2 = del_node s1 x) by (destruct (node_at s1 x) as [[| | |]|]; congruence).
      subst s2. intros p n Hp. destruct (eqb_spec p x) as [->|NE].
      - destruct x; [cbn in Hp; exact Hp|]. rewrite node_at_del_same in Hp by discriminate. discriminate.
      - rewrite node_at_del_other in Hp by assumption. exact Hp. }
    destruct cleared as [s2|]; [|exact S1]. destruct CL as [S2 [J2 SUB]].
    destruct m as [n d | n | n t | n t | n]; cbn [eres_state]; try (eapply steps_trans; eauto; fail).
    - unfold k_symlink. destruct (k_create s2 R cs (NSym t)) as [s3| |] eqn:K; cbn [eres_state];
        try (eapply steps_trans; eauto; fail).
      eapply steps_trans; [exact S1|]. eapply steps_trans; [exact S2|]. apply steps_one.
      eapply create_prim1; [exact J2 | | exact K]. intros ? E; discriminate E.
    - destruct (k_link s2 R (comps t) R cs) as [s3| |] eqn:K; cbn [eres_state]; try (eapply steps_trans; eauto; fail).
      eapply steps_trans; [exact S1|]. eapply steps_trans; [exact S2|]. apply steps_one.
      eapply link_prim_sf; [exact J2 | | exact K].
      eapply source_fact_sub; [exact SUB|]. eapply source_fact; [exact LE1 | eapply LF; reflexivity].
  Qed.

  Lemma extract_at_steps : forall fuel s m i primary,
    J s -> (primary = true -> Hprim s m) ->
    let r := extract_at fuel all R s R cs m i primary in
    steps R s (eres_state r) /\ (is_eos r -> J (eres_state r)).
  Proof.
    induction fuel as [|fuel IH]; intros s m i primary HJ HP; [cbn; split; [apply steps_refl | tauto]|].
    cbn [extract_at].
    set (pre := if k_exists s R (removelast cs) then (s, MDone) else makedirs false s R (rev (removelast cs))).
    assert (PRE : steps R s (fst pre) /\ dirs_added s (fst pre)).
    { unfold pre. destruct (k_exists s R (removelast cs)); [split; [apply steps_refl | apply dirs_added_refl]|].
      destruct (makedirs false s R (rev (removelast cs))) as [sa sta] eqn:MA. cbn [fst].
      eapply makedirs_steps; [| | exact MA]; rewrite rev_involutive; [apply existsb_removelast; exact nodd | apply HJ]. }
    destruct pre as [s1 st]. cbn [fst] in PRE. destruct PRE as [S1 D1].
    assert (J1 : J s1) by (eapply J_dirs_added; eauto).
    destruct st; try (cbn; split; [exact S1 | intros _; exact J1]).
    (* the fallback: a copy of the member the link points to *)
    assert (FB : forall sx, J sx ->
      let r := match find_target all m i with
               | None => EOk sx
               | Some (m', i') => extract_at fuel all R sx R cs m' i' false
               end in
      steps R sx (eres_state r) /\ (is_eos r -> J (eres_state r))).
    { intros sx Jx. destruct (find_target all m i) as [[m' i']|]; [apply IH; [exact Jx | discriminate]|].
      cbn. split; [apply steps_refl | tauto]. }
    assert (TR : forall sa (r : eres), steps R s1 sa -> (steps R sa (eres_state r) /\ (is_eos r -> J (eres_state r))) ->
                 steps R s (eres_state r) /\ (is_eos r -> J (eres_state r))).
    { intros sa r Sa [Sb Jb]. split; [|exact Jb]. eapply steps_trans; [exact S1|]. eapply steps_trans; eauto. }
    assert (DONE : forall s2, prim R s1 s2 -> steps R s (eres_state (EOk s2)) /\ (is_eos (EOk s2) -> J (eres_state (EOk s2)))).
    { intros s2 P2. cbn. split; [|tauto]. eapply steps_trans; [exact S1 | apply steps_one; exact P2]. }
    assert (STAY : steps R s (eres_state (EOs s1)) /\ (is_eos (EOs s1) -> J (eres_state (EOs s1)))).
    { cbn. split; [exact S1 | intros _; exact J1]. }
    destruct m as [n d | n | n t | n t | n].
    - (* regular *)
      destruct (k_open_write s1 R cs d) as [s2| |] eqn:K; try exact STAY.
      apply DONE. eapply open_write_prim; eauto.
    - (* directory *)
      unfold k_mkdir. destruct (k_create s1 R cs NDir) as [s2| |] eqn:K; try exact STAY.
      + apply DONE. eapply create_prim1; [exact J1 | | exact K]; intros ? E; discriminate E.
      + cbn. split; [exact S1 | tauto].
    - (* symbolic link *)
      destruct (k_lexists s1 R cs).
      + destruct (k_unlink s1 R cs) as [s2| |] eqn:KU; try (apply (TR s1); [apply steps_refl | apply FB; exact J1]).
        destruct (unlink_prim s1 s2 J1 KU) as [PU J2].
        unfold k_symlink. destruct (k_create s2 R cs (NSym t)) as [s3| |] eqn:KS;
          try (apply (TR s2); [apply steps_one; exact PU | apply FB; exact J2]).
        cbn. split; [|tauto]. eapply steps_trans; [exact S1|]. eapply steps_cons; [exact PU|]. apply steps_one.
        eapply create_prim1; [exact J2 | | exact KS]; intros ? E; discriminate E.
      + unfold k_symlink. destruct (k_create s1 R cs (NSym t)) as [s3| |] eqn:KS;
          try (apply (TR s1); [apply steps_refl | apply FB; exact J1]).
        apply DONE. eapply create_prim1; [exact J1 | | exact KS]; intros ? E; discriminate E.
    - (* hard link *)
      destruct primary; [|apply (TR s1); [apply steps_refl | apply FB; exact J1]].
      destruct (HP eq_refl) as [LE HT]. destruct (HT n t eq_refl) as [AB LF]. rewrite AB.
      destruct (k_exists s1 R (comps t)).
      + destruct (k_link s1 R (comps t) R cs) as [s2| |] eqn:KL;
          try (apply (TR s1); [apply steps_refl | apply FB; exact J1]).
        apply DONE. eapply link_prim; [exact J1 | eapply leneq_dirs_added; eauto | exact LF | exact KL].
      + destruct (find_target all (MHard n t) i) as [[m' i']|] eqn:FT; [|cbn; split; [exact S1 | tauto]].
        destruct (IH s1 m' i' false J1 ltac:(discriminate)) as [S2 J2].
        destruct (extract_at fuel all R s1 R cs m' i' false) as [s2|s2|s2] eqn:EX; cbn [eres_state is_eos] in *.
        * split; [eapply steps_trans; eauto | tauto].
        * apply (TR s2); [exact S2|]. specialize (FB s2 (J2 I)). exact FB.
        * split; [eapply steps_trans; eauto | tauto].
    - (* special *)
      unfold k_mkfifo. destruct (k_create s1 R cs NSpecial) as [s2| |] eqn:K; try exact STAY.
      apply DONE. eapply create_prim1; [exact J1 | | exact K]; intros ? E; discriminate E.
  Qed.
End Extract.

(* ================================================================ the repaired filter, the member loop *)
Lemma no_sym_prefix_chain s : forall cs cur,
  no_sym_prefix s cur cs = true ->
  forall k, 0 < k <= List.length (removelast cs) -> nosym s (rev (firstn k (removelast cs)) ++ cur).
Proof.
  induction cs as [|c cs IH]; intros cur NS k Hk; [cbn in Hk; lia|].
  destruct cs as [|c2 rest]; [cbn in Hk; lia|].
  change (removelast (c :: c2 :: rest)) with (c :: removelast (c2 :: rest)) in *.
  cbn [no_sym_prefix] in NS.
  destruct k as [|k]; [lia|]. cbn [firstn rev]. rewrite <- app_assoc. cbn [app].
  destruct k as [|k].
  - cbn. intros t E. rewrite E in NS. discriminate.
  - apply IH; [|cbn [List.length] in Hk; lia].
    destruct (node_at s (c :: cur)) as [[| | |]|]; try exact NS. discriminate.
Qed.

Lemma realpath_ok s cur cs x : walk Lenient s FUEL [] cur cs = WOk x -> realpath s cur cs = Some x.
Proof. unfold realpath. intros ->. reflexivity. Qed.

Lemma data_filter_facts s R m :
  data_filter s R m = FAcc ->
  (forall x, walk Lenient s FUEL [] R (comps (m_name m)) = WOk x -> under R x) /\
  (forall n t, m = MHard n t ->
     is_abs t = false /\ forall x, walk Lenient s FUEL [] R (comps t) = WOk x -> under R x).
Proof.
  unfold data_filter. intros D.
  destruct (realpath s R (comps (m_name m))) as [tp|] eqn:RP; [|discriminate].
  destruct (underb R tp) eqn:U; [|discriminate]. cbn [negb] in D.
  split.
  - intros x W. apply realpath_ok in W. rewrite W in RP. injection RP as ->. apply underb_under; assumption.
  - intros n t ->. destruct (is_abs t); [discriminate|]. split; [reflexivity|].
    cbn [app] in D. destruct (realpath s R (comps t)) as [lp|] eqn:RL; [|discriminate].
    destruct (underb R lp) eqn:UL; [|discriminate].
    intros x W. apply realpath_ok in W. rewrite W in RL. injection RL as ->. apply underb_under; assumption.
Qed.

Lemma step_repaired_steps all R s m i :
  steps R s (snd (step Repaired all R s m i)).
Proof.
  unfold step. destruct (check Repaired s R m) eqn:C; try apply steps_refl.
  unfold check in C.
  destruct (existsb is_dd (comps (m_name m))) eqn:DD; [discriminate|].
  destruct (no_sym_prefix s R (comps (m_name m))) eqn:NS; [|discriminate]. cbn [negb] in C.
  destruct (data_filter_facts s R m C) as [OF LF].
  assert (HJ : J R s (comps (m_name m)) s).
  { split; [intros k Hk; eapply no_sym_prefix_chain; eauto | intros t _ f seen cur cs'; reflexivity]. }
  assert (LE : leneq s s) by (intros f seen cur cs'; reflexivity).
  assert (G : steps R s (eres_state (if is_link m then own_link R s (comps (m_name m)) (with_name m (lstrip_slash (m_name m)))
                                     else extract_at EFUEL all R s R (comps (m_name m))
                                            (with_name m (lstrip_slash (m_name m))) i true))).
  { destruct (is_link m).
    - eapply own_link_steps; [exact DD | exact OF | exact HJ | exact LE |].
      intros n t E. destruct m; cbn in E; try discriminate. injection E as <- <-. eapply LF; reflexivity.
    - pose proof (extract_at_steps all R s (comps (m_name m)) DD OF EFUEL s
                    (with_name m (lstrip_slash (m_name m))) i true) as EX.
      assert (HP : true = true -> Hprim R s s (with_name m (lstrip_slash (m_name m)))).
      { intros _. split; [exact LE|]. intros n t E.
        destruct m; cbn in E; try discriminate. injection E as <- <-. eapply LF; reflexivity. }
      destruct (EX HJ HP) as [S _]. exact S. }
  destruct (if is_link m then own_link R s (comps (m_name m)) (with_name m (lstrip_slash (m_name m)))
            else extract_at EFUEL all R s R (comps (m_name m)) (with_name m (lstrip_slash (m_name m))) i true);
    exact G.
Qed.

Lemma untar_from_repaired_steps all R : forall ms s i,
  steps R s (snd (untar_from Repaired all R s ms i)).
Proof.
  induction ms as [|m ms IH]; intros s i; [apply steps_refl|].
  cbn [untar_from]. pose proof (step_repaired_steps all R s m i) as S.
  destruct (step Repaired all R s m i) as [o s']. cbn [snd] in S.
  destruct o; try exact S. eapply steps_trans; [exact S | apply IH].
Qed.

(* C18, safety: whatever the archive and whatever the outcome, nothing outside R changes *)
Theorem untar_confined R ms s :
  Good R s ->
  outside_same R s (snd (untar R ms s)) /\ Good R (snd (untar R ms s)).
Proof.
  intros G. apply steps_safe; [|exact G]. apply untar_from_repaired_steps.
Qed.

(* every effect is located at or beneath R (a stronger, structural form of confinement) *)
Theorem untar_effects_inside R ms s : steps R s (snd (untar R ms s)).
Proof. apply untar_from_repaired_steps. Qed.

(* ================================================================ a decision procedure for [Good] on concrete states *)
Definition goodb (R : rpath) (s : state) : bool :=
  forallb (fun e1 =>
    match snd e1 with
    | NFile i =>
        (i <? next s)%nat &&
        forallb (fun e2 => match snd e2 with
                           | NFile j => negb (Nat.eqb i j) || negb (underb R (fst e1)) || underb R (fst e2)
                           | _ => true
                           end) (nodes s)
    | _ => true
    end) (nodes s).

Lemma lookup_Some_In {K V} `{EqDec K} (k : K) (v : V) (m : al K V) : lookup k m = Some v -> In (k, v) m.
Proof.
  induction m as [|[k' v'] m IH]; cbn; [discriminate|].
  destruct (eqb_spec k k') as [->|N]; [intros [= ->]; auto | auto].
Qed.

Lemma node_at_file_In s p i : node_at s p = Some (NFile i) -> In (p, NFile i) (nodes s).
Proof. destruct p; [discriminate|]. cbn. apply lookup_Some_In. Qed.

Lemma goodb_Good R s : goodb R s = true -> Good R s.
Proof.
  unfold goodb. rewrite forallb_forall. intros H. split.
  - intros p q i Hp Hq U. apply node_at_file_In in Hp, Hq.
    specialize (H _ Hp). cbn [snd fst] in H. apply andb_true_iff in H. destruct H as [_ H].
    rewrite forallb_forall in H. specialize (H _ Hq). cbn [snd fst] in H.
    rewrite Nat.eqb_refl, (under_underb _ _ U) in H. cbn in H. apply underb_under; assumption.
  - intros p i Hp. apply node_at_file_In in Hp. specialize (H _ Hp). cbn [snd] in H.
    apply andb_true_iff in H. destruct H as [H _]. apply Nat.ltb_lt; assumption.
Qed.
