(* Proofs/PUntar.v — lemmas about Model/MUntar.v (property C18). *)
From Coq Require Import List Bool String Ascii Arith Lia.
From KV Require Import Eqb Str AL.
From KV.Model Require Import MUntar.
Import ListNotations.
Local Open Scope string_scope.
Local Open Scope list_scope.

(* ================================================================ paths *)
Definition under (R p : rpath) : Prop := exists q, p = q ++ R.

Lemma under_refl R : under R R.
Proof. exists []; reflexivity. Qed.

Lemma under_cons R p c : under R p -> under R (c :: p).
Proof. intros [q ->]. exists (c :: q); reflexivity. Qed.

Lemma under_app R q : under R (q ++ R).
Proof. exists q; reflexivity. Qed.

Lemma underb_under R p : underb R p = true -> under R p.
Proof.
  unfold underb. rewrite andb_true_iff. intros [E L]. apply eqb_true in E. apply Nat.leb_le in L.
  exists (firstn (List.length p - List.length R) p). rewrite <- E at 2. symmetry; apply firstn_skipn.
Qed.

Lemma under_underb R p : under R p -> underb R p = true.
Proof.
  intros [q ->]. unfold underb. rewrite app_length.
  replace (List.length q + List.length R - List.length R) with (List.length q) by lia.
  rewrite skipn_app, skipn_all, Nat.sub_diag. cbn. rewrite eqb_refl. cbn. apply Nat.leb_le. lia.
Qed.

Ltac clash H1 H2 := exfalso; let X := fresh in pose proof (eq_trans (eq_sym H1) H2) as X; discriminate X.

(* ================================================================ walk *)
Lemma walk_0 m s seen cur cs : walk m s 0 seen cur cs = WFuel.
Proof. reflexivity. Qed.

Lemma walk_nil m s f seen cur : walk m s (S f) seen cur [] = WOk cur.
Proof. reflexivity. Qed.

Lemma walk_cons m s f seen cur c rest :
  walk m s (S f) seen cur (c :: rest) =
  if negb (lenient m) && negb (is_dir s cur) then WErr
  else if is_dd c then walk m s f seen (tl cur) rest
  else match m, rest with
       | NoFollow, [] => walk m s f seen (c :: cur) rest
       | _, _ =>
         match node_at s (c :: cur) with
         | Some (NSym t) =>
             if memb (c :: cur) seen then (if lenient m then WLoop (c :: cur) rest else WErr)
             else match walk (sub_mode m rest) s f ((c :: cur) :: seen) (if is_abs t then [] else cur) (comps t) with
                  | WOk y => walk m s f seen y rest
                  | WLoop p r => WLoop p (r ++ rest)
                  | e => e
                  end
         | Some _ => walk m s f seen (c :: cur) rest
         | None => match m, rest with
                   | Lenient, _ | Create, [] => walk m s f seen (c :: cur) rest
                   | _, _ => WErr
                   end
         end
       end.
Proof. reflexivity. Qed.

Definition follows (m : mode) : Prop := m = Strict \/ m = Create.

Lemma sub_mode_follows m rest : m <> Lenient -> follows (sub_mode m rest).
Proof. unfold follows. destruct m, rest; cbn; intuition congruence. Qed.

Lemma sub_mode_lenient rest : sub_mode Lenient rest = Lenient.
Proof. destruct rest; reflexivity. Qed.

Definition nosym (s : state) (p : rpath) : Prop := forall t, node_at s p <> Some (NSym t).

(* whenever the kernel resolves a path, realpath computes the same location (for a path whose last
   component is not followed: provided that component is not a link) *)
Lemma walk_agree s f : forall m seen cur cs x,
  walk m s f seen cur cs = WOk x -> (follows m \/ (m = NoFollow /\ nosym s x)) ->
  walk Lenient s f seen cur cs = WOk x.
Proof.
  induction f as [|f IH]; intros m seen cur cs x W HM; [discriminate|].
  destruct cs as [|c rest]; [exact W|].
  rewrite walk_cons in *.
  assert (NL : m <> Lenient) by (unfold follows in HM; intuition congruence).
  assert (LM : lenient m = false) by (destruct m; cbn; congruence).
  rewrite LM in W. cbn [negb andb lenient] in *.
  destruct (negb (is_dir s cur)); [discriminate|]. cbn [andb] in W.
  destruct (is_dd c); [eapply IH; eauto|].
  assert (G : forall y, walk m s f seen y rest = WOk x -> walk Lenient s f seen y rest = WOk x)
    by (intros; eapply IH; eauto).
  assert (NFcase : m = NoFollow -> rest = [] -> walk m s f seen (c :: cur) rest = WOk x ->
          match node_at s (c :: cur) with
          | Some (NSym t) =>
              if memb (c :: cur) seen then WLoop (c :: cur) rest
              else match walk (sub_mode Lenient rest) s f ((c :: cur) :: seen) (if is_abs t then [] else cur) (comps t) with
                   | WOk y => walk Lenient s f seen y rest
                   | WLoop p r => WLoop p (r ++ rest)
                   | e => e
                   end
          | Some _ => walk Lenient s f seen (c :: cur) rest
          | None => walk Lenient s f seen (c :: cur) rest
          end = WOk x).
  { intros -> -> W'. destruct HM as [[?|?]|[_ NS]]; try discriminate.
    destruct f; [discriminate|]. cbn in W'. injection W' as <-.
    destruct (node_at s (c :: cur)) as [[| i | t |]|] eqn:N; try reflexivity. exfalso; eapply NS; eauto. }
  assert (Main : (m = NoFollow -> rest <> []) ->
          match node_at s (c :: cur) with
          | Some (NSym t) =>
              if memb (c :: cur) seen then WErr
              else match walk (sub_mode m rest) s f ((c :: cur) :: seen) (if is_abs t then [] else cur) (comps t) with
                   | WOk y => walk m s f seen y rest
                   | WLoop p r => WLoop p (r ++ rest)
                   | e => e
                   end
          | Some _ => walk m s f seen (c :: cur) rest
          | None => match m, rest with
                    | Lenient, _ | Create, [] => walk m s f seen (c :: cur) rest
                    | _, _ => WErr
                    end
          end = WOk x ->
          match node_at s (c :: cur) with
          | Some (NSym t) =>
              if memb (c :: cur) seen then WLoop (c :: cur) rest
              else match walk (sub_mode Lenient rest) s f ((c :: cur) :: seen) (if is_abs t then [] else cur) (comps t) with
                   | WOk y => walk Lenient s f seen y rest
                   | WLoop p r => WLoop p (r ++ rest)
                   | e => e
                   end
          | Some _ => walk Lenient s f seen (c :: cur) rest
          | None => walk Lenient s f seen (c :: cur) rest
          end = WOk x).
  { intros _ W'. destruct (node_at s (c :: cur)) as [[| i | t |]|] eqn:N; auto.
    - destruct (memb (c :: cur) seen); [discriminate|].
      destruct (walk (sub_mode m rest) s f ((c :: cur) :: seen) (if is_abs t then [] else cur) (comps t)) eqn:W1;
        try discriminate.
      rewrite sub_mode_lenient.
      erewrite IH; [| exact W1 | left; apply sub_mode_follows; assumption]. auto.
    - destruct m; try congruence; destruct rest; try discriminate; auto. }
  destruct m; try congruence.
  - apply Main; [congruence | exact W].
  - apply Main; [congruence | exact W].
  - destruct rest; [apply NFcase; auto | apply Main; [congruence | exact W]].
Qed.

(* realpath only looks at which paths are symbolic links, and at their texts *)
Definition sym_same (s s' : state) : Prop :=
  forall p t, node_at s p = Some (NSym t) <-> node_at s' p = Some (NSym t).

Lemma sym_same_refl s : sym_same s s.
Proof. intros p t; tauto. Qed.

Lemma sym_same_trans s1 s2 s3 : sym_same s1 s2 -> sym_same s2 s3 -> sym_same s1 s3.
Proof. intros A B p t. rewrite (A p t). apply B. Qed.

Lemma sym_same_sym s1 s2 : sym_same s1 s2 -> sym_same s2 s1.
Proof. intros A p t. symmetry. apply A. Qed.

Lemma walk_lenient_sym_same s s' : sym_same s s' ->
  forall f seen cur cs, walk Lenient s f seen cur cs = walk Lenient s' f seen cur cs.
Proof.
  intros SS. induction f as [|f IH]; intros seen cur cs; [reflexivity|].
  destruct cs as [|c rest]; [reflexivity|].
  rewrite !walk_cons. cbn [lenient negb andb].
  destruct (is_dd c); [apply IH|].
  destruct (node_at s (c :: cur)) as [n|] eqn:N.
  - destruct n as [| i | t |].
    + destruct (node_at s' (c :: cur)) as [[| i' | t' |]|] eqn:N'; try apply IH.
      apply (proj2 (SS _ _)) in N'. clash N N'.
    + destruct (node_at s' (c :: cur)) as [[| i' | t' |]|] eqn:N'; try apply IH.
      apply (proj2 (SS _ _)) in N'. clash N N'.
    + apply (proj1 (SS _ _)) in N. rewrite N. rewrite sub_mode_lenient.
      destruct (memb (c :: cur) seen); [reflexivity|]. rewrite IH.
      destruct (walk Lenient s' f ((c :: cur) :: seen) (if is_abs t then [] else cur) (comps t)); auto.
    + destruct (node_at s' (c :: cur)) as [[| i' | t' |]|] eqn:N'; try apply IH.
      apply (proj2 (SS _ _)) in N'. clash N N'.
  - destruct (node_at s' (c :: cur)) as [[| i' | t' |]|] eqn:N'; try apply IH.
    apply (proj2 (SS _ _)) in N'. clash N N'.
Qed.

(* walking down components none of which is ".." nor a symbolic link is the identity; the last
   component does not matter when it is not followed *)
Lemma walk_chain s : forall f m seen cs cur x,
  existsb is_dd cs = false ->
  (forall k, 0 < k <= List.length cs -> (m = NoFollow -> k < List.length cs) -> nosym s (rev (firstn k cs) ++ cur)) ->
  walk m s f seen cur cs = WOk x -> x = rev cs ++ cur.
Proof.
  induction f as [|f IH]; intros m seen cs cur x DD NS W; [discriminate|].
  destruct cs as [|c rest]; [cbn in *; congruence|].
  rewrite walk_cons in W. cbn in DD. apply orb_false_iff in DD. destruct DD as [Dc DD]. rewrite Dc in W.
  destruct (negb (lenient m) && negb (is_dir s cur)); [discriminate|].
  assert (NS' : forall k, 0 < k <= List.length rest -> (m = NoFollow -> k < List.length rest) ->
                nosym s (rev (firstn k rest) ++ c :: cur)).
  { intros k Hk Hm. specialize (NS (S k)). cbn [firstn rev] in NS. rewrite <- app_assoc in NS. apply NS; cbn; [lia|].
    intros E. specialize (Hm E). lia. }
  assert (G : walk m s f seen (c :: cur) rest = WOk x -> x = rev (c :: rest) ++ cur).
  { intros W'. cbn [rev]. rewrite <- app_assoc. cbn. eapply IH; eauto. }
  assert (Main : (m = NoFollow -> rest <> []) ->
     match node_at s (c :: cur) with
     | Some (NSym t) =>
         if memb (c :: cur) seen then (if lenient m then WLoop (c :: cur) rest else WErr)
         else match walk (sub_mode m rest) s f ((c :: cur) :: seen) (if is_abs t then [] else cur) (comps t) with
              | WOk y => walk m s f seen y rest
              | WLoop p r => WLoop p (r ++ rest)
              | e => e
              end
     | Some _ => walk m s f seen (c :: cur) rest
     | None => match m, rest with
               | Lenient, _ | Create, [] => walk m s f seen (c :: cur) rest
               | _, _ => WErr
               end
     end = WOk x -> x = rev (c :: rest) ++ cur).
  { intros NF W'.
    assert (N1 : nosym s (c :: cur)).
    { specialize (NS 1). cbn in NS. apply NS; [lia|]. intros E. specialize (NF E). destruct rest; [congruence | cbn; lia]. }
    destruct (node_at s (c :: cur)) as [[| i | t |]|] eqn:N; auto.
    - exfalso; eapply N1; eauto.
    - destruct m; try discriminate; auto. destruct rest; try discriminate; auto. }
  destruct m; try (apply Main; [congruence | exact W]).
  destruct rest; [apply G; exact W | apply Main; [congruence | exact W]].
Qed.

(* a path the kernel resolves is resolved alike in any file system that has at least the same nodes *)
Lemma walk_mono s2 s1 :
  (forall p n, node_at s2 p = Some n -> node_at s1 p = Some n) ->
  forall f m seen cur cs x, m = Strict \/ m = NoFollow ->
  walk m s2 f seen cur cs = WOk x -> walk m s1 f seen cur cs = WOk x.
Proof.
  intros SUB. induction f as [|f IH]; intros m seen cur cs x HM W; [discriminate|].
  destruct cs as [|c rest]; [exact W|].
  rewrite walk_cons in *.
  assert (LM : lenient m = false) by (destruct HM; subst; reflexivity).
  rewrite LM in *. cbn [negb andb] in *.
  destruct (is_dir s2 cur) eqn:D2; [|discriminate].
  assert (D1 : is_dir s1 cur = true).
  { unfold is_dir in *. destruct (node_at s2 cur) as [[| | |]|] eqn:N; try discriminate. rewrite (SUB _ _ N). reflexivity. }
  rewrite D1. cbn [negb] in *.
  destruct (is_dd c); [eapply IH; eauto|].
  assert (Main :
     match node_at s2 (c :: cur) with
     | Some (NSym t) =>
         if memb (c :: cur) seen then WErr
         else match walk (sub_mode m rest) s2 f ((c :: cur) :: seen) (if is_abs t then [] else cur) (comps t) with
              | WOk y => walk m s2 f seen y rest
              | WLoop p r => WLoop p (r ++ rest)
              | e => e
              end
     | Some _ => walk m s2 f seen (c :: cur) rest
     | None => match m, rest with
               | Lenient, _ | Create, [] => walk m s2 f seen (c :: cur) rest
               | _, _ => WErr
               end
     end = WOk x ->
     match node_at s1 (c :: cur) with
     | Some (NSym t) =>
         if memb (c :: cur) seen then WErr
         else match walk (sub_mode m rest) s1 f ((c :: cur) :: seen) (if is_abs t then [] else cur) (comps t) with
              | WOk y => walk m s1 f seen y rest
              | WLoop p r => WLoop p (r ++ rest)
              | e => e
              end
     | Some _ => walk m s1 f seen (c :: cur) rest
     | None => match m, rest with
               | Lenient, _ | Create, [] => walk m s1 f seen (c :: cur) rest
               | _, _ => WErr
               end
     end = WOk x).
  { intros W'. destruct (node_at s2 (c :: cur)) as [n|] eqn:N.
    - rewrite (SUB _ _ N). destruct n as [| i | t |]; try (eapply IH; eauto; fail).
      destruct (memb (c :: cur) seen); [discriminate|].
      destruct (walk (sub_mode m rest) s2 f ((c :: cur) :: seen) (if is_abs t then [] else cur) (comps t)) eqn:W1;
        try discriminate.
      erewrite IH; [| | exact W1]; [eapply IH; eauto|].
      destruct HM; subst; destruct rest; cbn; auto.
    - destruct HM; subst; destruct rest; discriminate. }
  destruct HM; subst; [apply Main; exact W|].
  destruct rest; [eapply IH; eauto | apply Main; exact W].
Qed.

(* ================================================================ the file system under updates *)
Lemma node_at_set_same s p n : p <> [] -> node_at (set_node s p n) p = Some n.
Proof. destruct p; [congruence|]. intros _. cbn. apply lookup_insert_eq. Qed.

Lemma node_at_set_other s p n q : q <> p -> node_at (set_node s p n) q = node_at s q.
Proof. destruct q; [reflexivity|]. intros N. cbn. apply lookup_insert_neq; assumption. Qed.

Lemma node_at_del_same s p : p <> [] -> node_at (del_node s p) p = None.
Proof. destruct p; [congruence|]. intros _. cbn. apply lookup_remove_eq. Qed.

Lemma node_at_del_other s p q : q <> p -> node_at (del_node s p) q = node_at s q.
Proof. destruct q; [reflexivity|]. intros N. cbn. apply lookup_remove_neq; assumption. Qed.

Lemma node_at_new_same s p d : p <> [] -> node_at (new_file s p d) p = Some (NFile (next s)).
Proof. destruct p; [congruence|]. intros _. cbn. apply lookup_insert_eq. Qed.

Lemma node_at_new_other s p d q : q <> p -> node_at (new_file s p d) q = node_at s q.
Proof. destruct q; [reflexivity|]. intros N. cbn. apply lookup_insert_neq; assumption. Qed.

Lemma node_at_write s i d q : node_at (write_file s i d) q = node_at s q.
Proof. reflexivity. Qed.

(* what the property is about: nothing outside R changes — neither a node nor the content (or the
   owner-rw flag) of a regular file *)
Definition outside_same (R : rpath) (s s' : state) : Prop :=
  forall p, ~ under R p ->
    node_at s' p = node_at s p /\
    forall i, node_at s p = Some (NFile i) -> lookup i (files s') = lookup i (files s).

(* no regular file inside R is a hard link of a file outside R *)
Definition HInv (R : rpath) (s : state) : Prop :=
  forall p q i, node_at s p = Some (NFile i) -> node_at s q = Some (NFile i) -> under R p -> under R q.
(* inode numbers in use are below the allocation counter *)
Definition InoOk (s : state) : Prop := forall p i, node_at s p = Some (NFile i) -> i < next s.
Definition Good (R : rpath) (s : state) : Prop := HInv R s /\ InoOk s.

Lemma outside_same_refl R s : outside_same R s s.
Proof. intros p _; split; auto. Qed.

Lemma outside_same_trans R s1 s2 s3 : outside_same R s1 s2 -> outside_same R s2 s3 -> outside_same R s1 s3.
Proof.
  intros A B p NU. destruct (A p NU) as [A1 A2], (B p NU) as [B1 B2]. split; [congruence|].
  intros i Hi. rewrite B2 by congruence. apply A2; assumption.
Qed.

(* the only effects the extraction has: each one at a location at or beneath R *)
Inductive prim (R : rpath) (s : state) : state -> Prop :=
| prim_set p n : p <> [] -> under R p ->
    (forall i, n = NFile i -> exists q, under R q /\ node_at s q = Some (NFile i)) ->
    prim R s (set_node s p n)
| prim_del p : p <> [] -> under R p -> prim R s (del_node s p)
| prim_new p d : p <> [] -> under R p -> prim R s (new_file s p d)
| prim_write x i d : under R x -> node_at s x = Some (NFile i) -> prim R s (write_file s i d).

Inductive steps (R : rpath) : state -> state -> Prop :=
| steps_refl s : steps R s s
| steps_cons s1 s2 s3 : prim R s1 s2 -> steps R s2 s3 -> steps R s1 s3.

Lemma steps_one R s s' : prim R s s' -> steps R s s'.
Proof. intros; eapply steps_cons; [eassumption | apply steps_refl]. Qed.

Lemma steps_trans R s1 s2 s3 : steps R s1 s2 -> steps R s2 s3 -> steps R s1 s3.
Proof. induction 1; intros; [assumption | eapply steps_cons; eauto]. Qed.

Lemma prim_safe R s s' : Good R s -> prim R s s' -> outside_same R s s' /\ Good R s'.
Proof.
  intros [HI IO] P. destruct P as [p n NE U SRC | p NE U | p d NE U | x i d U NX].
  - (* set *)
    assert (O : forall q, ~ under R q -> q <> p) by (intros q NU ->; auto).
    split; [|split].
    + intros q NU. rewrite node_at_set_other by auto. split; auto.
    + intros a b i Ha Hb Ua.
      destruct (eqb_spec b p) as [->|Nb]; [assumption|]. rewrite node_at_set_other in Hb by assumption.
      destruct (eqb_spec a p) as [->|Na].
      * rewrite node_at_set_same in Ha by assumption. injection Ha as ->.
        destruct (SRC i eq_refl) as [q [Uq Hq]]. eapply HI; eauto.
      * rewrite node_at_set_other in Ha by assumption. eapply HI; eauto.
    + intros a i Ha. cbn [next set_node]. destruct (eqb_spec a p) as [->|Na].
      * rewrite node_at_set_same in Ha by assumption. injection Ha as ->.
        destruct (SRC i eq_refl) as [q [Uq Hq]]. eapply IO; eauto.
      * rewrite node_at_set_other in Ha by assumption. eapply IO; eauto.
  - (* del *)
    assert (O : forall q, ~ under R q -> q <> p) by (intros q NU ->; auto).
    split; [|split].
    + intros q NU. rewrite node_at_del_other by auto. split; auto.
    + intros a b i Ha Hb Ua.
      destruct (eqb_spec b p) as [->|Nb]; [assumption|]. rewrite node_at_del_other in Hb by assumption.
      destruct (eqb_spec a p) as [->|Na]; [rewrite node_at_del_same in Ha by assumption; discriminate|].
      rewrite node_at_del_other in Ha by assumption. eapply HI; eauto.
    + intros a i Ha. cbn [next del_node]. destruct (eqb_spec a p) as [->|Na].
      * rewrite node_at_del_same in Ha by assumption; discriminate.
      * rewrite node_at_del_other in Ha by assumption. eapply IO; eauto.
  - (* new *)
    assert (O : forall q, ~ under R q -> q <> p) by (intros q NU ->; auto).
    split; [|split].
    + intros q NU. rewrite node_at_new_other by auto. split; auto.
      intros i Hi. cbn [files new_file]. apply lookup_insert_neq. apply IO in Hi. lia.
    + intros a b i Ha Hb Ua.
      destruct (eqb_spec b p) as [->|Nb]; [assumption|]. rewrite node_at_new_other in Hb by assumption.
      destruct (eqb_spec a p) as [->|Na].
      * rewrite node_at_new_same in Ha by assumption. injection Ha as <-. apply IO in Hb. lia.
      * rewrite node_at_new_other in Ha by assumption. eapply HI; eauto.
    + intros a i Ha. cbn [next new_file]. destruct (eqb_spec a p) as [->|Na].
      * rewrite node_at_new_same in Ha by assumption. injection Ha as <-. lia.
      * rewrite node_at_new_other in Ha by assumption. apply IO in Ha. lia.
  - (* write *)
    split; [|split].
    + intros q NU. rewrite node_at_write. split; auto.
      intros j Hj. cbn [files write_file]. apply lookup_insert_neq. intros ->. apply NU. eapply HI; eauto.
    + intros a b j Ha Hb Ua. rewrite node_at_write in *. eapply HI; eauto.
    + intros a j Ha. rewrite node_at_write in Ha. cbn [next write_file]. eapply IO; eauto.
Qed.

Lemma steps_safe R s s' : steps R s s' -> Good R s -> outside_same R s s' /\ Good R s'.
Proof.
  induction 1 as [s | s1 s2 s3 P S IH]; intros G; [split; [apply outside_same_refl | assumption]|].
  destruct (prim_safe R s1 s2 G P) as [O G2]. destruct (IH G2) as [O' G3].
  split; [eapply outside_same_trans; eauto | assumption].
Qed.

Global Opaque FUEL.
Arguments walk : simpl never.

(* ================================================================ one member, extracted at R/cs *)
Definition dirs_added (s s1 : state) : Prop :=
  forall p, node_at s1 p = node_at s p \/ (node_at s p = None /\ node_at s1 p = Some NDir).

Lemma dirs_added_refl s : dirs_added s s.
Proof. intros p; auto. Qed.

Lemma dirs_added_trans s1 s2 s3 : dirs_added s1 s2 -> dirs_added s2 s3 -> dirs_added s1 s3.
Proof.
  intros A B p. destruct (A p) as [A1|[A1 A2]], (B p) as [B1|[B1 B2]].
  - left; congruence.
  - right; split; congruence.
  - right; split; congruence.
  - congruence.
Qed.

Lemma dirs_added_sym_same s s1 : dirs_added s s1 -> sym_same s s1.
Proof.
  intros A p t. destruct (A p) as [E|[E1 E2]]; [rewrite E; tauto|]. rewrite E1, E2. split; discriminate.
Qed.

Lemma dirs_added_nosym s s1 p : dirs_added s s1 -> nosym s p -> nosym s1 p.
Proof. intros A N t E. apply (dirs_added_sym_same _ _ A) in E. eapply N; eauto. Qed.

Lemma dirs_added_set s x : node_at s x = None -> dirs_added s (set_node s x NDir).
Proof.
  intros N p. destruct (eqb_spec p x) as [->|NE].
  - right. split; [assumption|]. apply node_at_set_same. intros ->. discriminate.
  - left. apply node_at_set_other; assumption.
Qed.

Definition eres_state (r : eres) : state := match r with EOk s | EOs s | EOther s => s end.
Definition is_eos (r : eres) : Prop := match r with EOs _ => True | _ => False end.

Lemma existsb_removelast {A} (f : A -> bool) (l : list A) : existsb f l = false -> existsb f (removelast l) = false.
Proof.
  induction l as [|a l IH]; [auto|]. cbn [existsb]. intros E. apply orb_false_iff in E. destruct E as [Ea El].
  destruct l as [|b l]; [reflexivity|]. change (removelast (a :: b :: l)) with (a :: removelast (b :: l)).
  cbn [existsb]. rewrite Ea. cbn. apply IH. exact El.
Qed.

Lemma removelast_length {A} (l : list A) : List.length (removelast l) = List.length l - 1.
Proof.
  induction l as [|a l IH]; [reflexivity|]. destruct l as [|b l]; [reflexivity|].
  change (removelast (a :: b :: l)) with (a :: removelast (b :: l)). cbn [List.length] in *. lia.
Qed.

Section Member.
  Variable all : list member.
  Variable R : rpath.
  Variable s0 : state.

  Definition pchain (s : state) (pre : list string) : Prop :=
    forall k, 0 < k <= List.length pre -> nosym s (rev (firstn k pre) ++ R).
  Definition leneq (s : state) : Prop :=
    forall f seen cur cs', walk Lenient s f seen cur cs' = walk Lenient s0 f seen cur cs'.

  Lemma pchain_dirs_added s s1 pre : dirs_added s s1 -> pchain s pre -> pchain s1 pre.
  Proof. intros A P k Hk. eapply dirs_added_nosym; eauto. Qed.

  Lemma leneq_dirs_added s s1 : dirs_added s s1 -> leneq s -> leneq s1.
  Proof.
    intros A E f seen cur cs'. rewrite <- E. symmetry. apply walk_lenient_sym_same. apply dirs_added_sym_same; assumption.
  Qed.

  Lemma pchain_app s a b : pchain s (a ++ b) -> pchain s a.
  Proof.
    intros P k Hk. specialize (P k). rewrite firstn_app in P.
    replace (k - List.length a) with 0 in P by lia. cbn in P. rewrite app_nil_r in P. apply P. rewrite app_length; lia.
  Qed.

  (* the location of a path whose parent chain holds no link and no "..": literally R/cs' *)
  Lemma nofollow_loc s cs' x :
    existsb is_dd cs' = false -> pchain s (removelast cs') ->
    walk NoFollow s FUEL [] R cs' = WOk x -> x = rev cs' ++ R.
  Proof.
    intros DD P W. eapply walk_chain; [exact DD | | exact W].
    intros k Hk Hm. specialize (Hm eq_refl). specialize (P k).
    rewrite firstn_removelast in P by assumption. apply P. rewrite removelast_length. lia.
  Qed.

  Lemma makedirs_steps eok : forall rq s s1 st,
    existsb is_dd (rev rq) = false -> pchain s (rev rq) ->
    makedirs eok s R rq = (s1, st) -> steps R s s1 /\ dirs_added s s1.
  Proof.
    induction rq as [|c rhead IH]; intros s s1 st DD P M.
    - cbn in M. injection M as <- <-. split; [apply steps_refl | apply dirs_added_refl].
    - cbn [makedirs] in M.
      assert (DD' : existsb is_dd (rev rhead) = false).
      { cbn [rev] in DD. rewrite existsb_app in DD. apply orb_false_iff in DD. tauto. }
      assert (P' : pchain s (rev rhead)) by (cbn [rev] in P; eapply pchain_app; eauto).
      set (pre := if k_exists s R (rev rhead) then (s, MDone)
                  else match makedirs eok s R rhead with (s1, MFail) => (s1, MFail) | (s1, _) => (s1, MDone) end) in M.
      assert (PRE : steps R s (fst pre) /\ dirs_added s (fst pre)).
      { unfold pre. destruct (k_exists s R (rev rhead)); [split; [apply steps_refl | apply dirs_added_refl]|].
        destruct (makedirs eok s R rhead) as [sa sta] eqn:MA. destruct (IH s sa sta DD' P' MA).
        destruct sta; cbn; auto. }
      destruct pre as [sa sta]. cbn [fst] in PRE. destruct PRE as [SA DA].
      destruct sta; try (injection M as <- <-; auto; fail).
      + unfold k_mkdir, k_create in M.
        destruct (walk NoFollow sa FUEL [] R (rev (c :: rhead))) as [x| | |] eqn:W;
          try (injection M as <- <-; auto; fail).
        assert (X : x = rev (rev (c :: rhead)) ++ R).
        { eapply nofollow_loc; [exact DD | | exact W]. cbn [rev]. rewrite removelast_last.
          eapply pchain_dirs_added; eauto. }
        rewrite rev_involutive in X.
        destruct (node_at sa x) eqn:N; injection M as <- <-; auto.
        split.
        * eapply steps_trans; [exact SA|]. apply steps_one. apply prim_set.
          -- subst x; discriminate.
          -- subst x. apply under_app.
          -- intros i; discriminate.
        * eapply dirs_added_trans; [exact DA|]. apply dirs_added_set; assumption.
      + unfold k_mkdir, k_create in M.
        destruct (walk NoFollow sa FUEL [] R (rev (c :: rhead))) as [x| | |] eqn:W;
          try (injection M as <- <-; auto; fail).
        assert (X : x = rev (rev (c :: rhead)) ++ R).
        { eapply nofollow_loc; [exact DD | | exact W]. cbn [rev]. rewrite removelast_last.
          eapply pchain_dirs_added; eauto. }
        rewrite rev_involutive in X.
        destruct (node_at sa x) eqn:N; injection M as <- <-; auto.
        split.
        * eapply steps_trans; [exact SA|]. apply steps_one. apply prim_set.
          -- subst x; discriminate.
          -- subst x. apply under_app.
          -- intros i; discriminate.
        * eapply dirs_added_trans; [exact DA|]. apply dirs_added_set; assumption.
  Qed.
End Member.

Section Extract.
  Variable all : list member.
  Variable R : rpath.
  Variable s0 : state.
  Variable cs : list string.
  Hypothesis nodd : existsb is_dd cs = false.
  (* what the 'data' filter established on the state s0 it looked at *)
  Hypothesis OF0 : forall x, walk Lenient s0 FUEL [] R cs = WOk x -> under R x.

  Let L := rev cs ++ R.

  (* holds of every state in which a system call of this member is issued *)
  Definition J (s : state) : Prop :=
    pchain R s (removelast cs) /\ (forall t, node_at s L = Some (NSym t) -> leneq s0 s).

  Definition Hprim (s : state) (m : member) : Prop :=
    leneq s0 s /\
    forall n t, m = MHard n t ->
      is_abs t = false /\ forall x, walk Lenient s0 FUEL [] R (comps t) = WOk x -> under R x.

  Lemma L_not_chain k : 0 < k <= List.length (removelast cs) -> rev (firstn k (removelast cs)) ++ R <> L.
  Proof.
    intros Hk E. apply (f_equal (@List.length _)) in E. unfold L in E.
    rewrite !app_length, !rev_length, firstn_length, removelast_length in *.
    destruct cs; cbn in *; lia.
  Qed.

  Lemma J_dirs_added s s1 : dirs_added s s1 -> J s -> J s1.
  Proof.
    intros A [P Q]. split; [eapply pchain_dirs_added; eauto|].
    intros t E. eapply leneq_dirs_added; [exact A|]. apply (Q t). apply (dirs_added_sym_same _ _ A). exact E.
  Qed.

  Lemma loc s x : J s -> walk NoFollow s FUEL [] R cs = WOk x -> x = L.
  Proof. intros [P _] W. eapply nofollow_loc; eauto. Qed.

  Lemma L_nonempty_if s : node_at s L <> Some NDir -> L <> [].
  Proof. intros N E. rewrite E in N. apply N. reflexivity. Qed.

  (* changing the node at L keeps the parent chain free of links *)
  Lemma pchain_change_L s s' :
    (forall q, q <> L -> node_at s' q = node_at s q) -> pchain R s (removelast cs) -> pchain R s' (removelast cs).
  Proof.
    intros E P k Hk t. rewrite E by (apply L_not_chain; exact Hk). apply P. exact Hk.
  Qed.

  Lemma create_prim s n s' :
    J s -> (forall i, n = NFile i -> exists q, under R q /\ node_at s q = Some (NFile i)) ->
    k_create s R cs n = KOk s' -> prim R s s' /\ s' = set_node s L n /\ node_at s L = None.
  Proof.
    intros HJ SRC K. unfold k_create in K.
    destruct (walk NoFollow s FUEL [] R cs) as [x| | |] eqn:W; try discriminate.
    apply (loc s x HJ) in W. subst x.
    destruct (node_at s L) eqn:N; [discriminate|]. injection K as <-.
    split; [|auto]. apply prim_set; auto.
    - apply (L_nonempty_if s). rewrite N; discriminate.
    - apply under_app.
  Qed.

  Lemma create_prim1 s n s' :
    J s -> (forall i, n = NFile i -> exists q, under R q /\ node_at s q = Some (NFile i)) ->
    k_create s R cs n = KOk s' -> prim R s s'.
  Proof. intros A B C. destruct (create_prim s n s' A B C) as [P _]. exact P. Qed.

  Lemma create_J_not_sym s n s' :
    J s -> k_create s R cs n = KOk s' -> (forall t, n <> NSym t) ->
    (forall i, n = NFile i -> exists q, under R q /\ node_at s q = Some (NFile i)) -> J s'.
  Proof.
    intros HJ K NS SRC. destruct (create_prim s n s' HJ SRC K) as [_ [-> N]].
    assert (NE : L <> []) by (apply (L_nonempty_if s); rewrite N; discriminate).
    split.
    - eapply pchain_change_L; [|apply HJ]. intros q Hq. apply node_at_set_other; assumption.
    - intros t E. rewrite node_at_set_same in E by assumption. injection E as ->. exfalso; eapply NS; eauto.
  Qed.

  Lemma unlink_prim s s' :
    J s -> k_unlink s R cs = KOk s' -> prim R s s' /\ J s'.
  Proof.
    intros HJ K. unfold k_unlink in K.
    destruct (walk NoFollow s FUEL [] R cs) as [x| | |] eqn:W; try discriminate.
    apply (loc s x HJ) in W. subst x.
    assert (NE : L <> []) by (intros E; rewrite E in K; cbn in K; discriminate).
    assert (S' : s' = del_node s L) by (destruct (node_at s L) as [[| | |]|]; congruence).
    subst s'. split.
    - apply prim_del; [assumption | apply under_app].
    - split.
      + eapply pchain_change_L; [|apply HJ]. intros q Hq. apply node_at_del_other; assumption.
      + intros t E. rewrite node_at_del_same in E by assumption. discriminate.
  Qed.

  Lemma open_write_prim s d s' : J s -> k_open_write s R cs d = KOk s' -> prim R s s'.
  Proof.
    intros [P Q] K. unfold k_open_write in K.
    destruct (walk Create s FUEL [] R cs) as [x| | |] eqn:W; try discriminate.
    assert (U : under R x).
    { destruct (node_at s L) as [[| i | t |]|] eqn:N.
      2: { assert (X : x = L).
           { eapply walk_chain; [exact nodd | | exact W]. intros k Hk _.
             destruct (Nat.eq_dec k (List.length cs)) as [->|NE].
             - rewrite firstn_all. fold L. intros t E. clash N E.
             - specialize (P k). rewrite firstn_removelast in P by lia. apply P. rewrite removelast_length. lia. }
           subst x. apply under_app. }
      2: { apply OF0. rewrite <- (Q t eq_refl). eapply walk_agree; [exact W | left; right; reflexivity]. }
      all: assert (X : x = L);
        [ eapply walk_chain; [exact nodd | | exact W]; intros k Hk _;
          destruct (Nat.eq_dec k (List.length cs)) as [->|NE];
          [ rewrite firstn_all; fold L; intros t E; clash N E
          | specialize (P k); rewrite firstn_removelast in P by lia; apply P; rewrite removelast_length; lia ]
        | subst x; apply under_app ]. }
    destruct (node_at s x) as [[| i | t |]|] eqn:N; try discriminate; injection K as <-.
    - eapply prim_write; eauto.
    - apply prim_new; [|assumption]. intros ->. discriminate.
  Qed.

  Lemma link_prim s t s' :
    J s -> leneq s0 s -> (forall x, walk Lenient s0 FUEL [] R (comps t) = WOk x -> under R x) ->
    k_link s R (comps t) R cs = KOk s' -> prim R s s'.
  Proof.
    intros HJ LE LF K. unfold k_link in K.
    destruct (walk NoFollow s FUEL [] R (comps t)) as [x| | |] eqn:W; try discriminate.
    destruct (node_at s x) as [n|] eqn:N; [|discriminate].
    assert (K' : k_create s R cs n = KOk s') by (destruct n; auto; discriminate).
    eapply create_prim1; [exact HJ | | exact K'].
    intros i ->. exists x. split; [|assumption].
    apply LF. rewrite <- LE. eapply walk_agree; [exact W|]. right. split; [reflexivity|].
    intros t' E. clash N E.
  Qed.

  Lemma link_prim_sf s t s' :
    J s ->
    (forall x i, walk NoFollow s FUEL [] R (comps t) = WOk x -> node_at s x = Some (NFile i) -> under R x) ->
    k_link s R (comps t) R cs = KOk s' -> prim R s s'.
  Proof.
    intros HJ SF K. unfold k_link in K.
    destruct (walk NoFollow s FUEL [] R (comps t)) as [x| | |] eqn:W; try discriminate.
    destruct (node_at s x) as [n|] eqn:N; [|discriminate].
    assert (K' : k_create s R cs n = KOk s') by (destruct n; auto; discriminate).
    eapply create_prim1; [exact HJ | | exact K'].
    intros i ->. exists x. split; [eapply SF; eauto | assumption].
  Qed.

  Lemma source_fact s t :
    leneq s0 s -> (forall x, walk Lenient s0 FUEL [] R (comps t) = WOk x -> under R x) ->
    forall x i, walk NoFollow s FUEL [] R (comps t) = WOk x -> node_at s x = Some (NFile i) -> under R x.
  Proof.
    intros LE LF x i W N. apply LF. rewrite <- LE. eapply walk_agree; [exact W|]. right. split; [reflexivity|].
    intros t' E. clash N E.
  Qed.

  Lemma source_fact_sub s s2 t :
    (forall p n, node_at s2 p = Some n -> node_at s p = Some n) ->
    (forall x i, walk NoFollow s FUEL [] R (comps t) = WOk x -> node_at s x = Some (NFile i) -> under R x) ->
    forall x i, walk NoFollow s2 FUEL [] R (comps t) = WOk x -> node_at s2 x = Some (NFile i) -> under R x.
  Proof.
    intros SUB SF x i W N. eapply SF; [|apply SUB; exact N]. eapply walk_mono; eauto.
  Qed.

  (* kapture's own creation of a link member *)
  Lemma own_link_steps s m :
    J s -> leneq s0 s ->
    (forall n t, m = MHard n t -> forall x, walk Lenient s0 FUEL [] R (comps t) = WOk x -> under R x) ->
    steps R s (eres_state (own_link R s cs m)).
  Proof.
    intros HJ LE LF. unfold own_link.
    destruct (makedirs true s R (rev (removelast cs))) as [s1 st] eqn:MA.
    assert (PRE : steps R s s1 /\ dirs_added s s1).
    { eapply makedirs_steps; [| | exact MA]; rewrite rev_involutive; [apply existsb_removelast; exact nodd | apply HJ]. }
    destruct PRE as [S1 D1].
    assert (J1 : J s1) by (eapply J_dirs_added; eauto).
    assert (LE1 : leneq s0 s1) by (eapply leneq_dirs_added; eauto).
    destruct st; try exact S1.
    set (cleared := if k_lexists s1 R cs then match k_unlink s1 R cs with KOk s2 => Some s2 | _ => None end else Some s1).
    assert (CL : match cleared with
                 | Some s2 => steps R s1 s2 /\ J s2 /\ (forall p n, node_at s2 p = Some n -> node_at s1 p = Some n)
                 | None => True end).
    { unfold cleared. destruct (k_lexists s1 R cs); [|split; [apply steps_refl | split; [exact J1 | auto]]].
      destruct (k_unlink s1 R cs) as [s2| |] eqn:KU; auto.
      destruct (unlink_prim s1 s2 J1 KU) as [PU J2]. split; [apply steps_one; exact PU | split; [exact J2|]].
      unfold k_unlink in KU. destruct (walk NoFollow s1 FUEL [] R cs) as [x| | |]; try discriminate.
      assert (S2 : s2 = del_node s1 x) by (destruct (node_at s1 x) as [[| | |]|]; congruence).
      subst s2. intros p n Hp. destruct (eqb_spec p x) as [->|NE].
      - destruct x; [cbn in Hp; exact Hp|]. rewrite node_at_del_same in Hp by discriminate. discriminate.
      - rewrite node_at_del_other in Hp by assumption. exact Hp. }
    destruct cleared as [s2|]; [|exact S1]. destruct CL as [S2 [J2 SUB]].
    destruct m as [n d | n | n t | n t | n]; cbn [eres_state]; try (eapply steps_trans; eauto; fail).
    - unfold k_symlink. destruct (k_create s2 R cs (NSym t)) as [s3| |] eqn:K; cbn [eres_state];
        try (eapply steps_trans; eauto; fail).
      eapply steps_trans; [exact S1|]. eapply steps_trans; [exact S2|]. apply steps_one.
      eapply create_prim1; [exact J2 | | exact K]. intros ? E; discriminate E.
    - destruct (k_link s2 R (comps t) R cs) as [s3| |] eqn:K; cbn [eres_state]; try (eapply steps_trans; eauto; fail).
      eapply steps_trans; [exact S1|]. eapply steps_trans; [exact S2|]. apply steps_one.
      eapply link_prim_sf; [exact J2 | | exact K].
      eapply source_fact_sub; [exact SUB|]. eapply source_fact; [exact LE1 | eapply LF; reflexivity].
  Qed.

  Lemma extract_at_steps : forall fuel s m i primary,
    J s -> (primary = true -> Hprim s m) ->
    let r := extract_at fuel all R s R cs m i primary in
    steps R s (eres_state r) /\ (is_eos r -> J (eres_state r)).
  Proof.
    induction fuel as [|fuel IH]; intros s m i primary HJ HP; [cbn; split; [apply steps_refl | tauto]|].
    cbn [extract_at].
    set (pre := if k_exists s R (removelast cs) then (s, MDone) else makedirs false s R (rev (removelast cs))).
    assert (PRE : steps R s (fst pre) /\ dirs_added s (fst pre)).
    { unfold pre. destruct (k_exists s R (removelast cs)); [split; [apply steps_refl | apply dirs_added_refl]|].
      destruct (makedirs false s R (rev (removelast cs))) as [sa sta] eqn:MA. cbn [fst].
      eapply makedirs_steps; [| | exact MA]; rewrite rev_involutive; [apply existsb_removelast; exact nodd | apply HJ]. }
    destruct pre as [s1 st]. cbn [fst] in PRE. destruct PRE as [S1 D1].
    assert (J1 : J s1) by (eapply J_dirs_added; eauto).
    destruct st; try (cbn; split; [exact S1 | intros _; exact J1]).
    (* the fallback: a copy of the member the link points to *)
    assert (FB : forall sx, J sx ->
      let r := match find_target all m i with
               | None => EOk sx
               | Some (m', i') => extract_at fuel all R sx R cs m' i' false
               end in
      steps R sx (eres_state r) /\ (is_eos r -> J (eres_state r))).
    { intros sx Jx. destruct (find_target all m i) as [[m' i']|]; [apply IH; [exact Jx | discriminate]|].
      cbn. split; [apply steps_refl | tauto]. }
    assert (TR : forall sa (r : eres), steps R s1 sa -> (steps R sa (eres_state r) /\ (is_eos r -> J (eres_state r))) ->
                 steps R s (eres_state r) /\ (is_eos r -> J (eres_state r))).
    { intros sa r Sa [Sb Jb]. split; [|exact Jb]. eapply steps_trans; [exact S1|]. eapply steps_trans; eauto. }
    assert (DONE : forall s2, prim R s1 s2 -> steps R s (eres_state (EOk s2)) /\ (is_eos (EOk s2) -> J (eres_state (EOk s2)))).
    { intros s2 P2. cbn. split; [|tauto]. eapply steps_trans; [exact S1 | apply steps_one; exact P2]. }
    assert (STAY : steps R s (eres_state (EOs s1)) /\ (is_eos (EOs s1) -> J (eres_state (EOs s1)))).
    { cbn. split; [exact S1 | intros _; exact J1]. }
    destruct m as [n d | n | n t | n t | n].
    - (* regular *)
      destruct (k_open_write s1 R cs d) as [s2| |] eqn:K; try exact STAY.
      apply DONE. eapply open_write_prim; eauto.
    - (* directory *)
      unfold k_mkdir. destruct (k_create s1 R cs NDir) as [s2| |] eqn:K; try exact STAY.
      + apply DONE. eapply create_prim1; [exact J1 | | exact K]; intros ? E; discriminate E.
      + cbn. split; [exact S1 | tauto].
    - (* symbolic link *)
      destruct (k_lexists s1 R cs).
      + destruct (k_unlink s1 R cs) as [s2| |] eqn:KU; try (apply (TR s1); [apply steps_refl | apply FB; exact J1]).
        destruct (unlink_prim s1 s2 J1 KU) as [PU J2].
        unfold k_symlink. destruct (k_create s2 R cs (NSym t)) as [s3| |] eqn:KS;
          try (apply (TR s2); [apply steps_one; exact PU | apply FB; exact J2]).
        cbn. split; [|tauto]. eapply steps_trans; [exact S1|]. eapply steps_cons; [exact PU|]. apply steps_one.
        eapply create_prim1; [exact J2 | | exact KS]; intros ? E; discriminate E.
      + unfold k_symlink. destruct (k_create s1 R cs (NSym t)) as [s3| |] eqn:KS;
          try (apply (TR s1); [apply steps_refl | apply FB; exact J1]).
        apply DONE. eapply create_prim1; [exact J1 | | exact KS]; intros ? E; discriminate E.
    - (* hard link *)
      destruct primary; [|apply (TR s1); [apply steps_refl | apply FB; exact J1]].
      destruct (HP eq_refl) as [LE HT]. destruct (HT n t eq_refl) as [AB LF]. rewrite AB.
      destruct (k_exists s1 R (comps t)).
      + destruct (k_link s1 R (comps t) R cs) as [s2| |] eqn:KL;
          try (apply (TR s1); [apply steps_refl | apply FB; exact J1]).
        apply DONE. eapply link_prim; [exact J1 | eapply leneq_dirs_added; eauto | exact LF | exact KL].
      + destruct (find_target all (MHard n t) i) as [[m' i']|] eqn:FT; [|cbn; split; [exact S1 | tauto]].
        destruct (IH s1 m' i' false J1 ltac:(discriminate)) as [S2 J2].
        destruct (extract_at fuel all R s1 R cs m' i' false) as [s2|s2|s2] eqn:EX; cbn [eres_state is_eos] in *.
        * split; [eapply steps_trans; eauto | tauto].
        * apply (TR s2); [exact S2|]. specialize (FB s2 (J2 I)). exact FB.
        * split; [eapply steps_trans; eauto | tauto].
    - (* special *)
      unfold k_mkfifo. destruct (k_create s1 R cs NSpecial) as [s2| |] eqn:K; try exact STAY.
      apply DONE. eapply create_prim1; [exact J1 | | exact K]; intros ? E; discriminate E.
  Qed.
End Extract.

(* ================================================================ the repaired filter, the member loop *)
Lemma no_sym_prefix_chain s : forall cs cur,
  no_sym_prefix s cur cs = true ->
  forall k, 0 < k <= List.length (removelast cs) -> nosym s (rev (firstn k (removelast cs)) ++ cur).
Proof.
  induction cs as [|c cs IH]; intros cur NS k Hk; [cbn in Hk; lia|].
  destruct cs as [|c2 rest]; [cbn in Hk; lia|].
  change (removelast (c :: c2 :: rest)) with (c :: removelast (c2 :: rest)) in *.
  cbn [no_sym_prefix] in NS.
  destruct k as [|k]; [lia|]. cbn [firstn rev]. rewrite <- app_assoc. cbn [app].
  destruct k as [|k].
  - cbn. intros t E. rewrite E in NS. discriminate.
  - apply IH; [|cbn [List.length] in Hk; lia].
    destruct (node_at s (c :: cur)) as [[| | |]|]; try exact NS. discriminate.
Qed.

Lemma realpath_ok s cur cs x : walk Lenient s FUEL [] cur cs = WOk x -> realpath s cur cs = Some x.
Proof. unfold realpath. intros ->. reflexivity. Qed.

Lemma data_filter_facts s R m :
  data_filter s R m = FAcc ->
  (forall x, walk Lenient s FUEL [] R (comps (m_name m)) = WOk x -> under R x) /\
  (forall n t, m = MHard n t ->
     is_abs t = false /\ forall x, walk Lenient s FUEL [] R (comps t) = WOk x -> under R x).
Proof.
  unfold data_filter. intros D.
  destruct (realpath s R (comps (m_name m))) as [tp|] eqn:RP; [|discriminate].
  destruct (underb R tp) eqn:U; [|discriminate]. cbn [negb] in D.
  split.
  - intros x W. apply realpath_ok in W. rewrite W in RP. injection RP as ->. apply underb_under; assumption.
  - intros n t ->. destruct (is_abs t); [discriminate|]. split; [reflexivity|].
    cbn [app] in D. destruct (realpath s R (comps t)) as [lp|] eqn:RL; [|discriminate].
    destruct (underb R lp) eqn:UL; [|discriminate].
    intros x W. apply realpath_ok in W. rewrite W in RL. injection RL as ->. apply underb_under; assumption.
Qed.

Lemma step_repaired_steps all R s m i :
  steps R s (snd (step Repaired all R s m i)).
Proof.
  unfold step. destruct (check Repaired s R m) eqn:C; try apply steps_refl.
  unfold check in C.
  destruct (existsb is_dd (comps (m_name m))) eqn:DD; [discriminate|].
  destruct (no_sym_prefix s R (comps (m_name m))) eqn:NS; [|discriminate]. cbn [negb] in C.
  destruct (data_filter_facts s R m C) as [OF LF].
  assert (HJ : J R s (comps (m_name m)) s).
  { split; [intros k Hk; eapply no_sym_prefix_chain; eauto | intros t _ f seen cur cs'; reflexivity]. }
  assert (LE : leneq s s) by (intros f seen cur cs'; reflexivity).
  assert (G : steps R s (eres_state (if is_link m then own_link R s (comps (m_name m)) (with_name m (lstrip_slash (m_name m)))
                                     else extract_at EFUEL all R s R (comps (m_name m))
                                            (with_name m (lstrip_slash (m_name m))) i true))).
  { destruct (is_link m).
    - eapply own_link_steps; [exact DD | exact OF | exact HJ | exact LE |].
      intros n t E. destruct m; cbn in E; try discriminate. injection E as <- <-. eapply LF; reflexivity.
    - pose proof (extract_at_steps all R s (comps (m_name m)) DD OF EFUEL s
                    (with_name m (lstrip_slash (m_name m))) i true) as EX.
      assert (HP : true = true -> Hprim R s s (with_name m (lstrip_slash (m_name m)))).
      { intros _. split; [exact LE|]. intros n t E.
        destruct m; cbn in E; try discriminate. injection E as <- <-. eapply LF; reflexivity. }
      destruct (EX HJ HP) as [S _]. exact S. }
  destruct (if is_link m then own_link R s (comps (m_name m)) (with_name m (lstrip_slash (m_name m)))
            else extract_at EFUEL all R s R (comps (m_name m)) (with_name m (lstrip_slash (m_name m))) i true);
    exact G.
Qed.

Lemma untar_from_repaired_steps all R : forall ms s i,
  steps R s (snd (untar_from Repaired all R s ms i)).
Proof.
  induction ms as [|m ms IH]; intros s i; [apply steps_refl|].
  cbn [untar_from]. pose proof (step_repaired_steps all R s m i) as S.
  destruct (step Repaired all R s m i) as [o s']. cbn [snd] in S.
  destruct o; try exact S. eapply steps_trans; [exact S | apply IH].
Qed.

(* ---------------------------------------------------------------- the final revalidation of links *)
Lemma in_link_cands s R p t : In (p, t) (link_cands s R) -> underb R p = true /\ p <> [] /\ In (p, NSym t) (nodes s).
Proof.
  unfold link_cands. rewrite in_flat_map. intros [[q n] [I H]]. cbn [fst snd] in H.
  destruct n as [| i | t' |]; try contradiction.
  destruct (underb R q) eqn:U; [|contradiction]. destruct (eqb_spec q R) as [E|NE]; [contradiction|].
  cbn in H. destruct H as [[= <- <-]|[]]. split; [exact U|]. split; [|exact I].
  intros ->. apply underb_under in U. destruct U as [x E]. destruct x; destruct R; try discriminate. congruence.
Qed.

Lemma remove_all_steps R : forall l s,
  (forall e, In e l -> underb R (fst e) = true /\ fst e <> []) -> steps R s (remove_all s l).
Proof.
  induction l as [|e l IH]; intros s H; [apply steps_refl|]. unfold remove_all. cbn [fold_left].
  destruct (H e (or_introl eq_refl)) as [U NE].
  eapply steps_cons; [apply prim_del; [exact NE | apply underb_under; exact U]|].
  apply IH. intros e' I. apply H. right. exact I.
Qed.

Lemma leaving_in_cands s R l e : leaving s R = Some l -> In e l -> In e (link_cands s R).
Proof.
  unfold leaving. destruct (forallb _ _); [|discriminate]. intros [= <-] I. apply filter_In in I. tauto.
Qed.

Lemma cleanup_spec R before : forall fuel s removed s2 b,
  cleanup fuel s R before removed = Some (s2, b) ->
  steps R s s2 /\ exists after, leaving s2 R = Some after /\ forall e, In e after -> In e before.
Proof.
  induction fuel as [|fuel IH]; intros s removed s2 b C; [discriminate|]. cbn [cleanup] in C.
  destruct (leaving s R) as [l|] eqn:L; [|discriminate].
  destruct (List.filter (fun e => negb (memb e before)) l) as [|e0 fresh] eqn:F.
  - injection C as <- <-. split; [apply steps_refl|]. exists l. split; [exact L|].
    intros e I. destruct (memb e before) eqn:M; [apply memb_In; exact M|].
    assert (In e (List.filter (fun e => negb (memb e before)) l)) by (apply filter_In; split; [exact I | rewrite M; reflexivity]).
    rewrite F in H. contradiction.
  - destruct (IH _ _ _ _ C) as [S2 P]. split; [|exact P].
    eapply steps_trans; [|exact S2]. apply remove_all_steps. intros e I.
    assert (I' : In e l) by (rewrite <- F in I; apply filter_In in I; tauto).
    destruct e as [q t]. destruct (in_link_cands s R q t (leaving_in_cands s R l _ L I')) as [U [NE _]]. auto.
Qed.

Theorem untar_effects_inside R ms s : steps R s (snd (untar R ms s)).
Proof.
  unfold untar. destruct (leaving s R) as [before|]; [|apply steps_refl].
  pose proof (untar_from_repaired_steps ms R ms s 0) as S1. unfold untar_gen.
  destruct (untar_from Repaired ms R s ms 0) as [o s1]. cbn [snd] in S1.
  destruct (cleanup (S (List.length (nodes s1))) s1 R before false) as [[s2 b]|] eqn:C; cbn [snd]; [|exact S1].
  eapply steps_trans; [exact S1|]. eapply cleanup_spec; eauto.
Qed.

(* C18, safety: whatever the archive and whatever the outcome, nothing outside R changes *)
Theorem untar_confined R ms s :
  Good R s ->
  outside_same R s (snd (untar R ms s)) /\ Good R (snd (untar R ms s)).
Proof. intros G. apply steps_safe; [apply untar_effects_inside | exact G]. Qed.

(* C18, links: after untar_file — extracted, refused or failed alike — every symbolic link below R that
   resolves outside R was there before, with the same text, and already resolved outside R *)
Theorem untar_links_stay R ms s before :
  leaving s R = Some before ->
  fst (untar R ms s) <> OFuel ->
  exists after, leaving (snd (untar R ms s)) R = Some after /\ forall e, In e after -> In e before.
Proof.
  unfold untar. intros -> NF. unfold untar_gen in *.
  destruct (untar_from Repaired ms R s ms 0) as [o s1].
  destruct (cleanup (S (List.length (nodes s1))) s1 R before false) as [[s2 b]|] eqn:C; cbn [fst snd] in *; [|congruence].
  eapply cleanup_spec; eauto.
Qed.

(* ================================================================ a decision procedure for [Good] on concrete states *)
Definition goodb (R : rpath) (s : state) : bool :=
  forallb (fun e1 =>
    match snd e1 with
    | NFile i =>
        (i <? next s)%nat &&
        forallb (fun e2 => match snd e2 with
                           | NFile j => negb (Nat.eqb i j) || negb (underb R (fst e1)) || underb R (fst e2)
                           | _ => true
                           end) (nodes s)
    | _ => true
    end) (nodes s).

Lemma lookup_Some_In {K V} `{EqDec K} (k : K) (v : V) (m : al K V) : lookup k m = Some v -> In (k, v) m.
Proof.
  induction m as [|[k' v'] m IH]; cbn; [discriminate|].
  destruct (eqb_spec k k') as [->|N]; [intros [= ->]; auto | auto].
Qed.

Lemma node_at_file_In s p i : node_at s p = Some (NFile i) -> In (p, NFile i) (nodes s).
Proof. destruct p; [discriminate|]. cbn. apply lookup_Some_In. Qed.

Lemma goodb_Good R s : goodb R s = true -> Good R s.
Proof.
  unfold goodb. rewrite forallb_forall. intros H. split.
  - intros p q i Hp Hq U. apply node_at_file_In in Hp, Hq.
    specialize (H _ Hp). cbn [snd fst] in H. apply andb_true_iff in H. destruct H as [_ H].
    rewrite forallb_forall in H. specialize (H _ Hq). cbn [snd fst] in H.
    rewrite Nat.eqb_refl, (under_underb _ _ U) in H. cbn in H. apply underb_under; assumption.
  - intros p i Hp. apply node_at_file_In in Hp. specialize (H _ Hp). cbn [snd] in H.
    apply andb_true_iff in H. destruct H as [H _]. apply Nat.ltb_lt; assumption.
Qed.

(* ================================================================ benign archives *)
(* a file system is tree shaped: whatever exists sits in a directory *)
Definition WF (s : state) : Prop := forall c p, node_at s (c :: p) <> None -> node_at s p = Some NDir.

Lemma is_dir_iff s p : is_dir s p = true <-> node_at s p = Some NDir.
Proof. unfold is_dir. destruct (node_at s p) as [[| | |]|]; split; congruence. Qed.

(* resolving plain components through real directories: the kernel succeeds, at the literal location *)
Lemma walk_forward s : forall f m seen cs cur,
  m <> Lenient ->
  existsb is_dd cs = false -> List.length cs < f ->
  node_at s cur = Some NDir ->
  (forall k, 0 < k < List.length cs -> node_at s (rev (firstn k cs) ++ cur) = Some NDir) ->
  (m = NoFollow \/ (nosym s (rev cs ++ cur) /\ (m = Strict -> node_at s (rev cs ++ cur) <> None))) ->
  walk m s f seen cur cs = WOk (rev cs ++ cur).
Proof.
  induction f as [|f IH]; intros m seen cs cur NL DD LF DC CH LAST; [lia|].
  destruct cs as [|c rest]; [reflexivity|].
  rewrite walk_cons. cbn in DD. apply orb_false_iff in DD. destruct DD as [Dc DD]. rewrite Dc.
  assert (LM : lenient m = false) by (destruct m; cbn; congruence). rewrite LM.
  rewrite (proj2 (is_dir_iff s cur) DC). cbn [negb andb].
  cbn [List.length] in LF.
  assert (STEP : node_at s (c :: cur) = Some NDir -> rest <> [] -> walk m s f seen (c :: cur) rest = WOk (rev (c :: rest) ++ cur)).
  { intros DC' NE. cbn [rev]. rewrite <- app_assoc. cbn [app]. apply IH; auto; try lia.
    - intros k Hk. specialize (CH (S k)). cbn [firstn rev] in CH. rewrite <- app_assoc in CH. apply CH. cbn [List.length]. lia.
    - cbn [rev] in LAST. rewrite <- app_assoc in LAST. exact LAST. }
  destruct rest as [|c2 rest].
  - (* last component *)
    assert (W0 : forall y, walk m s f seen y [] = WOk y) by (intros y; destruct f; [lia | reflexivity]).
    cbn [rev app] in *.
    destruct m; try congruence.
    + destruct LAST as [?|[NS NN]]; [discriminate|]. specialize (NN eq_refl).
      destruct (node_at s (c :: cur)) as [[| i | t |]|] eqn:N; try apply W0; [exfalso; eapply NS; eauto | congruence].
    + destruct LAST as [?|[NS _]]; [discriminate|].
      destruct (node_at s (c :: cur)) as [[| i | t |]|] eqn:N; try apply W0. exfalso; eapply NS; eauto.
  - assert (D1 : node_at s (c :: cur) = Some NDir).
    { specialize (CH 1). cbn in CH. apply CH. lia. }
    assert (G := STEP D1 ltac:(discriminate)).
    destruct m; try congruence; rewrite D1; exact G.
Qed.

Lemma walk_forward_lenient s : forall f seen cs cur,
  existsb is_dd cs = false -> List.length cs < f ->
  (forall k, 0 < k <= List.length cs -> nosym s (rev (firstn k cs) ++ cur)) ->
  walk Lenient s f seen cur cs = WOk (rev cs ++ cur).
Proof.
  induction f as [|f IH]; intros seen cs cur DD LF CH; [lia|].
  destruct cs as [|c rest]; [reflexivity|].
  rewrite walk_cons. cbn in DD. apply orb_false_iff in DD. destruct DD as [Dc DD]. rewrite Dc.
  cbn [lenient negb andb]. cbn [List.length] in LF.
  assert (G : walk Lenient s f seen (c :: cur) rest = WOk (rev (c :: rest) ++ cur)).
  { cbn [rev]. rewrite <- app_assoc. cbn [app]. apply IH; auto; try lia.
    intros k Hk. specialize (CH (S k)). cbn [firstn rev] in CH. rewrite <- app_assoc in CH. apply CH. cbn [List.length]. lia. }
  assert (N1 : nosym s (c :: cur)) by (specialize (CH 1); cbn in CH; apply CH; lia).
  destruct (node_at s (c :: cur)) as [[| i | t |]|] eqn:N; auto. exfalso; eapply N1; eauto.
Qed.

Definition suffix (suf l : list string) : Prop := exists pre, l = pre ++ suf.

Lemma suffix_refl l : suffix l l.
Proof. exists []; reflexivity. Qed.
Lemma suffix_cons c suf l : suffix suf l -> suffix suf (c :: l).
Proof. intros [pre ->]. exists (c :: pre); reflexivity. Qed.
Lemma suffix_nil l : suffix [] l.
Proof. exists l. rewrite app_nil_r; reflexivity. Qed.
Lemma suffix_cons_inv suf c l : suffix suf (c :: l) -> suf = c :: l \/ suffix suf l.
Proof.
  intros [pre E]. destruct pre as [|a pre]; cbn in E; [left; congruence|]. right. exists pre. congruence.
Qed.
Lemma suffix_length suf l : suffix suf l -> List.length suf <= List.length l.
Proof. intros [pre ->]. rewrite app_length; lia. Qed.

(* the position reached after k components of [rev rq] is a suffix of rq *)
Lemma pos_suffix (rq : list string) k : k <= List.length rq ->
  rev (firstn k (rev rq)) = skipn (List.length rq - k) rq.
Proof. intros _. rewrite firstn_rev, rev_involutive. reflexivity. Qed.

Lemma skipn_suffix (n : nat) (rq : list string) : suffix (skipn n rq) rq.
Proof. exists (firstn n rq). symmetry; apply firstn_skipn. Qed.

Lemma wf_down s pre p : WF s -> node_at s (pre ++ p) <> None -> pre <> [] -> node_at s p = Some NDir.
Proof.
  intros W. induction pre as [|a pre IH]; [congruence|]. intros N _. cbn in N.
  specialize (W a (pre ++ p) N). destruct pre as [|b pre]; [exact W|]. apply IH; [rewrite W; discriminate | discriminate].
Qed.

Section Benign.
  Variable R : rpath.

  (* every strict-or-full prefix position of the (reversed) name rq is free or a real directory *)
  Definition chain_free (s : state) (rq : list string) : Prop :=
    forall suf, suffix suf rq -> suf <> [] -> node_at s (suf ++ R) = None \/ node_at s (suf ++ R) = Some NDir.

  Lemma chain_free_tl s c rq : chain_free s (c :: rq) -> chain_free s rq.
  Proof. intros C suf S N. apply C; [apply suffix_cons; exact S | exact N]. Qed.

  (* mkdir -p R/(rev rq) *)
  Fixpoint mkdirp (s : state) (rq : list string) : state :=
    match rq with
    | [] => s
    | c :: rhead =>
        let s1 := mkdirp s rhead in
        match node_at s1 (rq ++ R) with None => set_node s1 (rq ++ R) NDir | Some _ => s1 end
    end.

  Lemma mkdirp_dirs_added s rq : dirs_added s (mkdirp s rq).
  Proof.
    induction rq as [|c rhead IH]; [apply dirs_added_refl|]. cbn [mkdirp].
    destruct (node_at (mkdirp s rhead) ((c :: rhead) ++ R)) eqn:N; [exact IH|].
    eapply dirs_added_trans; [exact IH|]. apply dirs_added_set. exact N.
  Qed.

  Lemma mkdirp_files s rq : files (mkdirp s rq) = files s /\ next (mkdirp s rq) = next s.
  Proof.
    induction rq as [|c rhead IH]; [auto|]. cbn [mkdirp].
    destruct (node_at (mkdirp s rhead) ((c :: rhead) ++ R)); [exact IH|]. cbn. exact IH.
  Qed.

  Lemma app_neq_length (a b : list string) : List.length a <> List.length b -> a ++ R <> b ++ R.
  Proof. intros N E. apply app_inv_tail in E. congruence. Qed.

  Lemma mkdirp_other s rq p : (forall suf, suffix suf rq -> suf <> [] -> p <> suf ++ R) -> node_at (mkdirp s rq) p = node_at s p.
  Proof.
    induction rq as [|c rhead IH]; intros H; [reflexivity|]. cbn [mkdirp].
    assert (E : node_at (mkdirp s rhead) p = node_at s p).
    { apply IH. intros suf S N. apply H; [apply suffix_cons; exact S | exact N]. }
    destruct (node_at (mkdirp s rhead) ((c :: rhead) ++ R)); [exact E|].
    rewrite node_at_set_other; [exact E|]. apply H; [apply suffix_refl | discriminate].
  Qed.

  Lemma mkdirp_dir s rq :
    node_at s R = Some NDir -> chain_free s rq ->
    forall suf, suffix suf rq -> node_at (mkdirp s rq) (suf ++ R) = Some NDir.
  Proof.
    intros DR. induction rq as [|c rhead IH]; intros C suf S.
    - destruct S as [pre E]. destruct pre; [|discriminate]. cbn in E. subst suf. exact DR.
    - cbn [mkdirp]. specialize (IH (chain_free_tl _ _ _ C)).
      destruct (suffix_cons_inv _ _ _ S) as [->|S'].
      + destruct (node_at (mkdirp s rhead) ((c :: rhead) ++ R)) as [n|] eqn:N.
        * rewrite N. destruct (mkdirp_dirs_added s rhead ((c :: rhead) ++ R)) as [E|[_ E]]; [|congruence].
          rewrite N in E. destruct (C (c :: rhead) (suffix_refl _) ltac:(discriminate)) as [C1|C1]; congruence.
        * apply node_at_set_same. discriminate.
      + assert (NE : suf ++ R <> (c :: rhead) ++ R).
        { apply app_neq_length. apply suffix_length in S'. cbn [List.length]. lia. }
        destruct (node_at (mkdirp s rhead) ((c :: rhead) ++ R)); [apply IH; exact S'|].
        rewrite node_at_set_other by exact NE. apply IH; exact S'.
  Qed.

  Lemma mkdirp_id s rq : (forall suf, suffix suf rq -> suf <> [] -> node_at s (suf ++ R) <> None) -> mkdirp s rq = s.
  Proof.
    induction rq as [|c rhead IH]; intros H; [reflexivity|]. cbn [mkdirp].
    rewrite IH by (intros suf S N; apply H; [apply suffix_cons; exact S | exact N]).
    destruct (node_at s ((c :: rhead) ++ R)) eqn:N; [reflexivity|].
    exfalso. apply (H (c :: rhead) (suffix_refl _)); [discriminate | exact N].
  Qed.

  Lemma mkdirp_WF s rq : WF s -> node_at s R = Some NDir -> chain_free s rq -> WF (mkdirp s rq).
  Proof.
    intros W DR. induction rq as [|c rhead IH]; intros C; [exact W|]. cbn [mkdirp].
    specialize (IH (chain_free_tl _ _ _ C)).
    destruct (node_at (mkdirp s rhead) ((c :: rhead) ++ R)) eqn:N; [exact IH|].
    intros a p NN. destruct (eqb_spec (a :: p) ((c :: rhead) ++ R)) as [E|NE].
    - cbn in E. injection E as -> ->.
      assert (NP : rhead ++ R <> (c :: rhead) ++ R) by (apply app_neq_length; cbn; lia).
      rewrite node_at_set_other by exact NP.
      apply (mkdirp_dir s rhead DR (chain_free_tl _ _ _ C) rhead (suffix_refl _)).
    - rewrite node_at_set_other in NN by exact NE.
      destruct (eqb_spec p ((c :: rhead) ++ R)) as [->|NP].
      + apply node_at_set_same. discriminate.
      + rewrite node_at_set_other by exact NP. apply (IH a p). exact NN.
  Qed.
End Benign.

Lemma walk_strict_last_exists s : forall f seen cs cur x,
  existsb is_dd cs = false -> cs <> [] ->
  (forall k, 0 < k <= List.length cs -> nosym s (rev (firstn k cs) ++ cur)) ->
  walk Strict s f seen cur cs = WOk x -> node_at s x <> None.
Proof.
  induction f as [|f IH]; intros seen cs cur x DD NE CH W; [discriminate|].
  destruct cs as [|c rest]; [congruence|].
  rewrite walk_cons in W. cbn in DD. apply orb_false_iff in DD. destruct DD as [Dc DD]. rewrite Dc in W.
  cbn [lenient negb andb] in W. destruct (negb (is_dir s cur)); [discriminate|].
  assert (N1 : nosym s (c :: cur)) by (specialize (CH 1); cbn in CH; apply CH; cbn; lia).
  destruct (node_at s (c :: cur)) as [n|] eqn:N; [|destruct rest; discriminate].
  assert (G : walk Strict s f seen (c :: cur) rest = WOk x -> node_at s x <> None).
  { intros W'. destruct rest as [|c2 rest].
    - destruct f; [discriminate|]. cbn in W'. injection W' as <-. rewrite N. discriminate.
    - eapply IH; [exact DD | discriminate | | exact W'].
      intros k Hk. specialize (CH (S k)). cbn [firstn rev] in CH. rewrite <- app_assoc in CH. apply CH. cbn [List.length] in *. lia. }
  destruct n as [| i | t |]; auto. exfalso; eapply N1; eauto.
Qed.

Section Benign2.
  Variable R : rpath.

  Lemma pos_eq (rq : list string) k : rev (firstn k (rev rq)) ++ R = skipn (List.length rq - k) rq ++ R.
  Proof. rewrite firstn_rev, rev_involutive. reflexivity. Qed.

  (* all proper prefixes of the name are real directories *)
  Definition below_dirs (s : state) (rq : list string) : Prop :=
    forall suf, suffix suf rq -> suf <> rq -> node_at s (suf ++ R) = Some NDir.

  Lemma skipn_proper (rq : list string) n : 0 < n -> n <= List.length rq -> skipn n rq <> rq.
  Proof.
    intros Hn Hl E. apply (f_equal (@List.length _)) in E. rewrite skipn_length in E. lia.
  Qed.

  Lemma walk_fw s m rq :
    m <> Lenient -> existsb is_dd (rev rq) = false -> List.length rq < FUEL ->
    node_at s R = Some NDir -> below_dirs s rq ->
    (m = NoFollow \/ (nosym s (rq ++ R) /\ (m = Strict -> node_at s (rq ++ R) <> None))) ->
    walk m s FUEL [] R (rev rq) = WOk (rq ++ R).
  Proof.
    intros NL DD LF DR BD LAST.
    rewrite <- (rev_involutive rq) at 2.
    apply walk_forward; auto.
    - rewrite rev_length; exact LF.
    - intros k Hk. rewrite rev_length in Hk. rewrite pos_eq. apply BD; [apply skipn_suffix|].
      apply skipn_proper; lia.
    - rewrite rev_involutive. exact LAST.
  Qed.

  Lemma dir_nosym s p : node_at s p = Some NDir -> nosym s p.
  Proof. intros E t. rewrite E. discriminate. Qed.
  Lemma none_nosym s p : node_at s p = None -> nosym s p.
  Proof. intros E t. rewrite E. discriminate. Qed.

  Lemma chain_free_nosym s rq suf : chain_free R s rq -> suffix suf rq -> suf <> [] -> nosym s (suf ++ R).
  Proof. intros C S N. destruct (C suf S N); [apply none_nosym | apply dir_nosym]; assumption. Qed.

  Lemma k_exists_missing s rq :
    existsb is_dd (rev rq) = false -> chain_free R s rq -> rq <> [] -> node_at s (rq ++ R) = None ->
    k_exists s R (rev rq) = false.
  Proof.
    intros DD C NE N. unfold k_exists. destruct (walk Strict s FUEL [] R (rev rq)) as [x| | |] eqn:W; auto.
    exfalso.
    assert (CH : forall k, 0 < k <= List.length (rev rq) -> nosym s (rev (firstn k (rev rq)) ++ R)).
    { intros k Hk. rewrite rev_length in Hk. rewrite pos_eq. eapply chain_free_nosym; [exact C | apply skipn_suffix|].
      intros E. apply (f_equal (@List.length _)) in E. rewrite skipn_length in E. cbn in E. lia. }
    assert (X : x = rev (rev rq) ++ R) by (eapply walk_chain; [exact DD | | exact W]; intros; apply CH; assumption).
    rewrite rev_involutive in X. subst x.
    eapply walk_strict_last_exists; [exact DD | | exact CH | exact W | exact N].
    intros E. apply (f_equal (@rev _)) in E. rewrite rev_involutive in E. cbn in E. congruence.
  Qed.

  Lemma chain_free_below s rq : WF s -> chain_free R s rq -> node_at s R = Some NDir ->
    node_at s (rq ++ R) <> None -> forall suf, suffix suf rq -> node_at s (suf ++ R) = Some NDir.
  Proof.
    intros W C DR N suf [pre E]. subst rq. destruct pre as [|a pre].
    - cbn in N. destruct suf as [|b suf]; [exact DR|].
      destruct (C (b :: suf) (suffix_refl _) ltac:(discriminate)); [congruence | assumption].
    - eapply (wf_down s (a :: pre)); [exact W | rewrite <- app_assoc in N; exact N | discriminate].
  Qed.

  Lemma makedirs_forward s : forall rq,
    WF s -> node_at s R = Some NDir -> chain_free R s rq ->
    existsb is_dd (rev rq) = false -> List.length rq < FUEL ->
    rq <> [] -> node_at s (rq ++ R) = None ->
    makedirs false s R rq = (mkdirp R s rq, MDone).
  Proof.
    intros rq W DR. induction rq as [|c rhead IH]; intros C DD LF NE N; [congruence|].
    cbn [makedirs].
    assert (DD' : existsb is_dd (rev rhead) = false).
    { cbn [rev] in DD. rewrite existsb_app in DD. apply orb_false_iff in DD. tauto. }
    assert (C' := chain_free_tl R s c rhead C).
    cbn [List.length] in LF.
    assert (PRE : (if k_exists s R (rev rhead) then (s, MDone)
                   else match makedirs false s R rhead with (s1, MFail) => (s1, MFail) | (s1, _) => (s1, MDone) end)
                  = (mkdirp R s rhead, MDone)).
    { destruct (node_at s (rhead ++ R)) as [n|] eqn:NH.
      - assert (ALL : forall suf, suffix suf rhead -> node_at s (suf ++ R) = Some NDir).
        { apply chain_free_below; auto. rewrite NH; discriminate. }
        assert (EX : k_exists s R (rev rhead) = true).
        { unfold k_exists. rewrite (walk_fw s Strict rhead); auto; try discriminate; try lia.
          - intros suf S _. apply ALL; exact S.
          - right. split; [apply dir_nosym; apply ALL; apply suffix_refl | intros _; rewrite NH; discriminate]. }
        rewrite EX. rewrite mkdirp_id; [reflexivity|]. intros suf S _. rewrite ALL by exact S. discriminate.
      - destruct rhead as [|c2 rhead2]; [cbn in NH; congruence|].
        rewrite k_exists_missing; auto; try discriminate.
        rewrite IH; auto; try discriminate; lia. }
    rewrite PRE. unfold k_mkdir, k_create.
    assert (D1 : forall suf, suffix suf rhead -> node_at (mkdirp R s rhead) (suf ++ R) = Some NDir)
      by (apply mkdirp_dir; assumption).
    rewrite (walk_fw (mkdirp R s rhead) NoFollow (c :: rhead)); auto; try discriminate.
    - cbn [mkdirp]. assert (N1 : node_at (mkdirp R s rhead) ((c :: rhead) ++ R) = None).
      { rewrite mkdirp_other; [exact N|]. intros suf S _. apply app_neq_length. apply suffix_length in S. cbn; lia. }
      rewrite N1. reflexivity.
    - apply (D1 [] (suffix_nil _)).
    - intros suf S NEQ. destruct (suffix_cons_inv _ _ _ S) as [->|S']; [congruence | apply D1; exact S'].
  Qed.
End Benign2.

Lemma no_sym_prefix_true s : forall cs cur,
  (forall k, 0 < k < List.length cs -> nosym s (rev (firstn k cs) ++ cur)) -> no_sym_prefix s cur cs = true.
Proof.
  induction cs as [|c cs IH]; intros cur H; [reflexivity|].
  destruct cs as [|c2 rest]; [reflexivity|]. cbn [no_sym_prefix].
  assert (N1 : nosym s (c :: cur)) by (specialize (H 1); cbn in H; apply H; cbn; lia).
  assert (G : no_sym_prefix s (c :: cur) (c2 :: rest) = true).
  { apply IH. intros k Hk. specialize (H (S k)). cbn [firstn rev] in H. rewrite <- app_assoc in H. apply H. cbn [List.length] in *. lia. }
  destruct (node_at s (c :: cur)) as [[| i | t |]|] eqn:N; auto. exfalso; eapply N1; eauto.
Qed.

Section Benign3.
  Variable all : list member.
  Variable R : rpath.

  Lemma upper_dirs s rhead :
    WF s -> node_at s R = Some NDir -> chain_free R s rhead ->
    existsb is_dd (rev rhead) = false -> List.length rhead < FUEL ->
    (if k_exists s R (rev rhead) then (s, MDone) else makedirs false s R rhead) = (mkdirp R s rhead, MDone).
  Proof.
    intros W DR C DD LF. destruct (node_at s (rhead ++ R)) as [n|] eqn:NH.
    - assert (ALL : forall suf, suffix suf rhead -> node_at s (suf ++ R) = Some NDir).
      { apply chain_free_below; auto. rewrite NH; discriminate. }
      assert (EX : k_exists s R (rev rhead) = true).
      { unfold k_exists. rewrite (walk_fw R s Strict rhead); auto; try discriminate.
        - intros suf S _. apply ALL; exact S.
        - right. split; [apply dir_nosym; apply ALL; apply suffix_refl | intros _; rewrite NH; discriminate]. }
      rewrite EX. rewrite mkdirp_id; [reflexivity|]. intros suf S _. rewrite ALL by exact S. discriminate.
    - destruct rhead as [|c2 rhead2]; [cbn in NH; congruence|].
      rewrite k_exists_missing; auto; try discriminate.
      apply makedirs_forward; auto; discriminate.
  Qed.

  (* the facts that make a member benign for a given state; rq = the reversed components of its name *)
  Definition plain (cs : list string) : Prop := existsb is_dd cs = false /\ List.length cs < FUEL.

  Lemma rev_removelast (rq : list string) c : removelast (rev (c :: rq)) = rev rq.
  Proof. cbn [rev]. apply removelast_last. Qed.

  Lemma chain_positions_nosym s rq :
    chain_free R s rq -> forall k, 0 < k <= List.length rq -> nosym s (rev (firstn k (rev rq)) ++ R).
  Proof.
    intros C k Hk. rewrite pos_eq. eapply chain_free_nosym; [exact C | apply skipn_suffix|].
    intros E. apply (f_equal (@List.length _)) in E. rewrite skipn_length in E. cbn in E. lia.
  Qed.

  Lemma check_benign s m rq :
    comps (m_name m) = rev rq -> plain (rev rq) ->
    (match m with MReg _ _ | MDir _ => True | _ => False end) ->
    (forall k, 0 < k <= List.length rq -> nosym s (rev (firstn k (rev rq)) ++ R)) ->
    check Repaired s R m = FAcc.
  Proof.
    intros E [DD LF] K NS. unfold check. rewrite E, DD.
    rewrite no_sym_prefix_true by (intros k Hk; apply NS; rewrite rev_length in Hk; lia). cbn [negb].
    unfold data_filter. rewrite E. unfold realpath.
    rewrite walk_forward_lenient; [| exact DD | exact LF | intros k Hk; apply NS; rewrite rev_length in Hk; lia].
    rewrite under_underb by apply under_app. cbn [negb]. destruct m; try contradiction; reflexivity.
  Qed.

  Lemma step_reg s n d i c rhead :
    comps n = rev (c :: rhead) -> plain (rev (c :: rhead)) ->
    WF s -> node_at s R = Some NDir -> chain_free R s rhead -> node_at s ((c :: rhead) ++ R) = None ->
    step Repaired all R s (MReg n d) i = (OOk, new_file (mkdirp R s rhead) ((c :: rhead) ++ R) d).
  Proof.
    intros E PL W DR C N. destruct PL as [DD LF].
    assert (DD' : existsb is_dd (rev rhead) = false).
    { cbn [rev] in DD. rewrite existsb_app in DD. apply orb_false_iff in DD. tauto. }
    assert (LF' : List.length rhead < FUEL) by (rewrite rev_length in LF; cbn in LF; lia).
    unfold step. rewrite (check_benign s (MReg n d) (c :: rhead)); auto; try (split; assumption).
    2: { intros k Hk. destruct (Nat.eq_dec k (List.length (c :: rhead))) as [->|NEk].
         - rewrite <- rev_length, firstn_all, rev_involutive. apply none_nosym. exact N.
         - rewrite pos_eq. cbn [List.length] in *.
           replace (S (List.length rhead) - k) with (S (List.length rhead - k)) by lia. cbn [skipn].
           eapply chain_free_nosym; [exact C | apply skipn_suffix|].
           intros E'. apply (f_equal (@List.length _)) in E'. rewrite skipn_length in E'. cbn in E'. lia. }
    cbn [is_link m_name with_name]. unfold EFUEL. cbn [extract_at]. rewrite E, rev_removelast.
    rewrite rev_involutive, (upper_dirs s rhead W DR C DD' LF').
    unfold k_open_write.
    assert (D1 : forall suf, suffix suf rhead -> node_at (mkdirp R s rhead) (suf ++ R) = Some NDir)
      by (apply mkdirp_dir; assumption).
    assert (N1 : node_at (mkdirp R s rhead) ((c :: rhead) ++ R) = None).
    { rewrite mkdirp_other; [exact N|]. intros suf S _. apply app_neq_length. apply suffix_length in S. cbn; lia. }
    rewrite (walk_fw R (mkdirp R s rhead) Create (c :: rhead)); auto; try discriminate.
    - rewrite N1. reflexivity.
    - rewrite rev_length in LF. exact LF.
    - apply (D1 [] (suffix_nil _)).
    - intros suf S NEQ. destruct (suffix_cons_inv _ _ _ S) as [->|S']; [congruence | apply D1; exact S'].
    - right. split; [apply none_nosym; exact N1 | discriminate].
  Qed.

  (* a regular member whose name is an existing regular file: the content is replaced in place (mode kept) *)
  Lemma step_reg_overwrite s n d i c rhead ino :
    comps n = rev (c :: rhead) -> plain (rev (c :: rhead)) ->
    WF s -> node_at s R = Some NDir -> node_at s ((c :: rhead) ++ R) = Some (NFile ino) ->
    step Repaired all R s (MReg n d) i = (OOk, write_file s ino d).
  Proof.
    intros E PL W DR N. destruct PL as [DD LF].
    assert (DD' : existsb is_dd (rev rhead) = false).
    { cbn [rev] in DD. rewrite existsb_app in DD. apply orb_false_iff in DD. tauto. }
    assert (LF' : List.length rhead < FUEL) by (rewrite rev_length in LF; cbn in LF; lia).
    assert (ALL : forall suf, suffix suf rhead -> node_at s (suf ++ R) = Some NDir).
    { intros suf [pre ->]. destruct suf as [|b suf'] eqn:ES.
      - exact DR.
      - apply (wf_down s (c :: pre)); [exact W | | discriminate].
        assert (EQ : (c :: pre) ++ (b :: suf') ++ R = (c :: pre ++ b :: suf') ++ R)
          by (cbn [app]; rewrite <- app_assoc; reflexivity).
        rewrite EQ, N. discriminate. }
    assert (C : chain_free R s rhead) by (intros suf S _; right; apply ALL; exact S).
    unfold step. rewrite (check_benign s (MReg n d) (c :: rhead)); auto; try (split; assumption).
    2: { intros k Hk. destruct (Nat.eq_dec k (List.length (c :: rhead))) as [->|NEk].
         - rewrite <- rev_length, firstn_all, rev_involutive. intros t E'. rewrite N in E'. discriminate.
         - rewrite pos_eq. cbn [List.length] in *.
           replace (S (List.length rhead) - k) with (S (List.length rhead - k)) by lia. cbn [skipn].
           apply dir_nosym. apply ALL. apply skipn_suffix. }
    cbn [is_link m_name with_name]. unfold EFUEL. cbn [extract_at]. rewrite E, rev_removelast.
    rewrite rev_involutive, (upper_dirs s rhead W DR C DD' LF').
    rewrite mkdirp_id by (intros suf S _; rewrite ALL by exact S; discriminate).
    unfold k_open_write.
    rewrite (walk_fw R s Create (c :: rhead)); auto; try discriminate.
    - rewrite N. reflexivity.
    - rewrite rev_length in LF. exact LF.
    - intros suf S NEQ. destruct (suffix_cons_inv _ _ _ S) as [->|S']; [congruence | apply ALL; exact S'].
    - right. split; [intros t E'; rewrite N in E'; discriminate | discriminate].
  Qed.

  Lemma step_dir s n i rq :
    comps n = rev rq -> plain (rev rq) ->
    WF s -> node_at s R = Some NDir -> chain_free R s rq ->
    step Repaired all R s (MDir n) i = (OOk, mkdirp R s rq).
  Proof.
    intros E PL W DR C. destruct PL as [DD LF]. rewrite rev_length in LF.
    unfold step. rewrite (check_benign s (MDir n) rq); auto.
    2: { split; [exact DD | rewrite rev_length; exact LF]. }
    2: { apply chain_positions_nosym; exact C. }
    cbn [is_link m_name with_name]. unfold EFUEL. cbn [extract_at]. rewrite E.
    destruct rq as [|c rhead].
    - cbn [rev removelast]. unfold k_exists, k_mkdir, k_create.
      assert (W0 : forall m, walk m s FUEL [] R [] = WOk R).
      { intros m. destruct FUEL eqn:F; [lia | reflexivity]. }
      rewrite !W0, DR. reflexivity.
    - assert (DD' : existsb is_dd (rev rhead) = false).
      { cbn [rev] in DD. rewrite existsb_app in DD. apply orb_false_iff in DD. tauto. }
      cbn [List.length] in LF.
      rewrite rev_removelast, rev_involutive, (upper_dirs s rhead W DR (chain_free_tl R s c rhead C) DD' ltac:(lia)).
      unfold k_mkdir, k_create.
      assert (D1 : forall suf, suffix suf rhead -> node_at (mkdirp R s rhead) (suf ++ R) = Some NDir)
        by (apply mkdirp_dir; [assumption | eapply chain_free_tl; eauto]).
      rewrite (walk_fw R (mkdirp R s rhead) NoFollow (c :: rhead)); auto; try discriminate.
      + cbn [mkdirp]. destruct (node_at (mkdirp R s rhead) ((c :: rhead) ++ R)); reflexivity.
      + apply (D1 [] (suffix_nil _)).
      + intros suf S NEQ. destruct (suffix_cons_inv _ _ _ S) as [->|S']; [congruence | apply D1; exact S'].
  Qed.
End Benign3.

(* ---------------------------------------------------------------- benign members leave the links alone *)
Lemma insert_absent {K V} `{EqDec K} (k : K) (v : V) (m : al K V) : lookup k m = None -> insert k v m = m ++ [(k, v)].
Proof.
  induction m as [|[k' v'] m IH]; cbn; [reflexivity|].
  destruct (eqb k k'); [discriminate|]. intros E. rewrite IH by exact E. reflexivity.
Qed.

Lemma filter_known_nil {A} `{EqDec A} (l l0 : list A) :
  (forall e, In e l -> In e l0) -> List.filter (fun e => negb (memb e l0)) l = [].
Proof.
  induction l as [|e l IH]; intros Hl; [reflexivity|]. cbn [List.filter].
  rewrite (proj2 (memb_In e l0) (Hl e (or_introl eq_refl))). cbn [negb]. apply IH. intros e' I. apply Hl. right. exact I.
Qed.

Definition Lk (R : rpath) (s s1 : state) : Prop := link_cands s1 R = link_cands s R /\ sym_same s s1.

Lemma Lk_refl R s : Lk R s s.
Proof. split; [reflexivity | apply sym_same_refl]. Qed.
Lemma Lk_trans R s1 s2 s3 : Lk R s1 s2 -> Lk R s2 s3 -> Lk R s1 s3.
Proof. intros [A1 A2] [B1 B2]. split; [congruence | eapply sym_same_trans; eauto]. Qed.

Lemma link_cands_insert_absent R s p n nodes' :
  node_at s p = None -> p <> [] -> (forall t, n <> NSym t) -> nodes' = insert p n (nodes s) ->
  flat_map (fun e => match snd e with
                     | NSym t => if underb R (fst e) && negb (eqb (fst e) R) then [(fst e, t)] else []
                     | _ => [] end) nodes' = link_cands s R.
Proof.
  intros N NE NS ->. destruct p as [|c p]; [congruence|]. cbn in N. rewrite (insert_absent _ _ _ N).
  rewrite flat_map_app. cbn [flat_map snd fst]. unfold link_cands.
  destruct n as [| i | t |]; try (rewrite !app_nil_r; reflexivity). exfalso; eapply NS; eauto.
Qed.

Lemma Lk_set_dir R s p : node_at s p = None -> p <> [] -> Lk R s (set_node s p NDir).
Proof.
  intros N NE. split.
  - unfold link_cands at 1. cbn [nodes set_node]. eapply link_cands_insert_absent; eauto. intros t; discriminate.
  - apply dirs_added_sym_same. apply dirs_added_set. exact N.
Qed.

Lemma Lk_new_file R s p d : node_at s p = None -> p <> [] -> Lk R s (new_file s p d).
Proof.
  intros N NE. split.
  - unfold link_cands at 1. cbn [nodes new_file]. eapply link_cands_insert_absent; eauto. intros t; discriminate.
  - intros q t. destruct (eqb_spec q p) as [->|NQ].
    + rewrite node_at_new_same by exact NE. rewrite N. split; discriminate.
    + rewrite node_at_new_other by exact NQ. tauto.
Qed.

Lemma Lk_mkdirp R s rq : Lk R s (mkdirp R s rq).
Proof.
  induction rq as [|c rhead IH]; [apply Lk_refl|]. cbn [mkdirp].
  destruct (node_at (mkdirp R s rhead) ((c :: rhead) ++ R)) eqn:N; [exact IH|].
  eapply Lk_trans; [exact IH|]. apply Lk_set_dir; [exact N | discriminate].
Qed.

Lemma forallb_ext' {A} (f g : A -> bool) l : (forall a, f a = g a) -> forallb f l = forallb g l.
Proof. intros E. induction l as [|a l IH]; cbn; [reflexivity | rewrite E, IH; reflexivity]. Qed.
Lemma filter_ext' {A} (f g : A -> bool) l : (forall a, f a = g a) -> List.filter f l = List.filter g l.
Proof. intros E. induction l as [|a l IH]; cbn; [reflexivity | rewrite E, IH; reflexivity]. Qed.

Lemma leaving_Lk R s s1 : Lk R s s1 -> leaving s1 R = leaving s R.
Proof.
  intros [C SS]. unfold leaving, leaves_b. rewrite C.
  assert (E : forall p, link_leaves s1 R p = link_leaves s R p).
  { intros [|c d]; [reflexivity|]. unfold link_leaves, realpath.
    rewrite (walk_lenient_sym_same s1 s (sym_same_sym _ _ SS)). reflexivity. }
  rewrite (forallb_ext' _ (fun e => match link_leaves s R (fst e) with None => false | _ => true end)) by (intros e; rewrite E; reflexivity).
  rewrite (filter_ext' _ (fun e => match link_leaves s R (fst e) with Some true => true | _ => false end)) by (intros e; rewrite E; reflexivity).
  reflexivity.
Qed.

Section Benign4.
  Variable R : rpath.

  Definition rq_of (m : member) : list string := rev (comps (m_name m)).
  Definition is_reg (m : member) : Prop := match m with MReg _ _ => True | _ => False end.

  (* the member fits the state: what lies on its way is free or a real directory, and (for a regular
     member) nothing exists yet under its name *)
  Definition fits (s : state) (m : member) : Prop :=
    match m with
    | MDir _ => chain_free R s (rq_of m)
    | MReg _ _ => rq_of m <> [] /\ chain_free R s (tl (rq_of m)) /\ node_at s (rq_of m ++ R) = None
    | _ => False
    end.

  (* no regular member's name is a prefix of (or equal to) the name of another member *)
  Fixpoint consistent (ms : list member) : Prop :=
    match ms with
    | [] => True
    | m :: ms' =>
        (forall m2, In m2 ms' ->
           (is_reg m -> ~ suffix (rq_of m) (rq_of m2)) /\ (is_reg m2 -> ~ suffix (rq_of m2) (rq_of m)))
        /\ consistent ms'
    end.

  Definition has_file (s : state) (p : rpath) (d : string) : Prop :=
    exists i, node_at s p = Some (NFile i) /\ lookup i (files s) = Some {| f_data := d; f_orw := true |}.

  Definition off_path (p : rpath) (m : member) : Prop :=
    forall suf, suffix suf (rq_of m) -> suf <> [] -> p <> suf ++ R.

  Lemma new_file_WF s c p d :
    WF s -> node_at s p = Some NDir -> node_at s (c :: p) = None -> WF (new_file s (c :: p) d).
  Proof.
    intros W DP FR a q NN. destruct (eqb_spec (a :: q) (c :: p)) as [E|NE].
    - injection E as -> ->. destruct (eqb_spec p (c :: p)) as [E2|NE2].
      + exfalso. apply (f_equal (@List.length _)) in E2. cbn in E2. lia.
      + rewrite node_at_new_other by exact NE2. exact DP.
    - rewrite node_at_new_other in NN by exact NE.
      destruct (eqb_spec q (c :: p)) as [->|NQ].
      + exfalso. specialize (W a (c :: p) NN). congruence.
      + rewrite node_at_new_other by exact NQ. apply (W a q). exact NN.
  Qed.

  Lemma InoOk_dirs_added s s1 : dirs_added s s1 -> next s1 = next s -> InoOk s -> InoOk s1.
  Proof.
    intros D E I p i H. rewrite E. destruct (D p) as [E1|[_ E1]]; [|congruence]. apply (I p). congruence.
  Qed.

  Lemma InoOk_new_file s p d : p <> [] -> InoOk s -> InoOk (new_file s p d).
  Proof.
    intros NE I q i H. cbn [next new_file]. destruct (eqb_spec q p) as [->|N].
    - rewrite node_at_new_same in H by exact NE. injection H as <-. lia.
    - rewrite node_at_new_other in H by exact N. apply I in H. lia.
  Qed.

  Lemma has_file_new s p d : p <> [] -> has_file (new_file s p d) p d.
  Proof.
    intros NE. exists (next s). split; [apply node_at_new_same; exact NE|]. cbn [files new_file]. apply lookup_insert_eq.
  Qed.

  Lemma has_file_keep_new s p d q e : InoOk s -> q <> p -> has_file s q e -> has_file (new_file s p d) q e.
  Proof.
    intros I N [i [H1 H2]]. exists i. split; [rewrite node_at_new_other by exact N; exact H1|].
    cbn [files new_file]. rewrite lookup_insert_neq; [exact H2|]. apply I in H1. lia.
  Qed.

  Lemma has_file_keep_mkdirp s rq q e :
    (forall suf, suffix suf rq -> suf <> [] -> q <> suf ++ R) -> has_file s q e -> has_file (mkdirp R s rq) q e.
  Proof.
    intros OFF [i [H1 H2]]. exists i. split; [rewrite mkdirp_other by exact OFF; exact H1|].
    rewrite (proj1 (mkdirp_files R s rq)). exact H2.
  Qed.

  Lemma chain_free_mkdirp s rq rq2 : chain_free R s rq2 -> chain_free R (mkdirp R s rq) rq2.
  Proof.
    intros C suf S N. destruct (mkdirp_dirs_added R s rq (suf ++ R)) as [E|[_ E]]; [rewrite E; apply C; assumption | right; exact E].
  Qed.

  Lemma suffix_app_eq (a b : list string) : a ++ R = b ++ R -> a = b.
  Proof. apply app_inv_tail. Qed.

  Lemma suffix_trans (a b c : list string) : suffix a b -> suffix b c -> suffix a c.
  Proof. intros [p ->] [q ->]. exists (q ++ p). rewrite app_assoc. reflexivity. Qed.

  Lemma suffix_tl (l : list string) : suffix (tl l) l.
  Proof. destruct l as [|a l]; [apply suffix_refl | exists [a]; reflexivity]. Qed.

  (* one benign member: the state it leaves, and what it preserves *)
  Lemma benign_step all s m i :
    WF s -> node_at s R = Some NDir -> InoOk s ->
    plain (comps (m_name m)) -> fits s m ->
    exists s1,
      step Repaired all R s m i = (OOk, s1) /\ Lk R s s1 /\ WF s1 /\ node_at s1 R = Some NDir /\ InoOk s1 /\
      (forall n d, m = MReg n d -> has_file s1 (rq_of m ++ R) d) /\
      (forall q e, off_path q m -> has_file s q e -> has_file s1 q e) /\
      (forall m2, (is_reg m -> ~ suffix (rq_of m) (rq_of m2)) -> (is_reg m2 -> ~ suffix (rq_of m2) (rq_of m)) ->
                  fits s m2 -> fits s1 m2).
  Proof.
    intros W DR IO PL F. unfold off_path. destruct m as [n d | n | n t | n t | n]; try contradiction.
    - (* regular *)
      cbn [fits] in F. destruct F as [NE [C N]]. cbn [m_name] in PL.
      remember (rq_of (MReg n d)) as rq eqn:RQ. destruct rq as [|c rhead]; [congruence|]. cbn [tl] in C.
      assert (E' : comps n = rev (c :: rhead)) by (rewrite RQ; unfold rq_of; cbn [m_name]; rewrite rev_involutive; reflexivity).
      rewrite E' in PL.
      exists (new_file (mkdirp R s rhead) ((c :: rhead) ++ R) d).
      assert (D1 : forall suf, suffix suf rhead -> node_at (mkdirp R s rhead) (suf ++ R) = Some NDir)
        by (apply mkdirp_dir; assumption).
      assert (OFFL : forall suf, suffix suf rhead -> suf <> [] -> (c :: rhead) ++ R <> suf ++ R).
      { intros suf S _. apply app_neq_length. apply suffix_length in S. cbn; lia. }
      assert (N1 : node_at (mkdirp R s rhead) ((c :: rhead) ++ R) = None) by (rewrite mkdirp_other; assumption).
      assert (I1 : InoOk (mkdirp R s rhead)).
      { eapply InoOk_dirs_added; [apply mkdirp_dirs_added | apply mkdirp_files | exact IO]. }
      split; [apply step_reg; assumption|].
      split; [eapply Lk_trans; [apply Lk_mkdirp | apply Lk_new_file; [exact N1 | discriminate]]|].
      split; [|split; [|split; [|split; [|split]]]].
      + cbn [app]. apply new_file_WF; [apply mkdirp_WF; assumption | apply (D1 rhead (suffix_refl _)) | exact N1].
      + rewrite node_at_new_other; [apply (D1 [] (suffix_nil _))|].
        intros E2. apply (f_equal (@List.length _)) in E2. rewrite app_length in E2. cbn in E2. lia.
      + apply InoOk_new_file; [discriminate | exact I1].
      + intros n0 d0 [= <- <-]. apply has_file_new. discriminate.
      + intros q e OFF HF. apply has_file_keep_new; [exact I1 | |].
        * apply (OFF (c :: rhead) (suffix_refl _)). discriminate.
        * apply has_file_keep_mkdirp; [|exact HF]. intros suf S NN. apply OFF; [apply suffix_cons; exact S | exact NN].
      + intros m2 K1 K2 F2. specialize (K1 I).
        assert (CF : forall rq2, suffix rq2 (rq_of m2) -> chain_free R s rq2 ->
                     chain_free R (new_file (mkdirp R s rhead) ((c :: rhead) ++ R) d) rq2).
        { intros rq2 S2 C2 suf S NN.
          assert (NEQ : suf ++ R <> (c :: rhead) ++ R).
          { intros E2. apply suffix_app_eq in E2. subst suf. apply K1. eapply suffix_trans; eauto. }
          rewrite node_at_new_other by exact NEQ. exact (chain_free_mkdirp s rhead rq2 C2 suf S NN). }
        destruct m2 as [n2 d2 | n2 | n2 t2 | n2 t2 | n2]; try contradiction; cbn [fits] in *.
        * destruct F2 as [NE2 [C2 N2]]. split; [exact NE2|]. split; [apply CF; [apply suffix_tl | exact C2]|].
          specialize (K2 I).
          rewrite node_at_new_other by (intros E2; apply suffix_app_eq in E2; apply K1; rewrite E2; apply suffix_refl).
          rewrite mkdirp_other; [exact N2|]. intros suf S NN E2. apply suffix_app_eq in E2.
          apply K2. rewrite E2. apply suffix_cons. exact S.
        * apply CF; [apply suffix_refl | exact F2].
    - (* directory *)
      cbn [fits] in F. cbn [m_name] in PL.
      remember (rq_of (MDir n)) as rq eqn:RQ.
      assert (E' : comps n = rev rq) by (rewrite RQ; unfold rq_of; cbn [m_name]; rewrite rev_involutive; reflexivity).
      rewrite E' in PL.
      exists (mkdirp R s rq).
      split; [apply step_dir; assumption|]. split; [apply Lk_mkdirp|]. split; [|split; [|split; [|split; [|split]]]].
      + apply mkdirp_WF; assumption.
      + apply (mkdirp_dir R s _ DR F [] (suffix_nil _)).
      + eapply InoOk_dirs_added; [apply mkdirp_dirs_added | apply mkdirp_files | exact IO].
      + intros n0 d0 E0; discriminate.
      + intros q e OFF HF. apply has_file_keep_mkdirp; [exact OFF | exact HF].
      + intros m2 _ K2 F2.
        destruct m2 as [n2 d2 | n2 | n2 t2 | n2 t2 | n2]; try contradiction; cbn [fits] in *.
        * destruct F2 as [NE2 [C2 N2]]. split; [exact NE2|]. split; [apply chain_free_mkdirp; exact C2|].
          specialize (K2 I). rewrite mkdirp_other; [exact N2|]. intros suf S NN E2. apply suffix_app_eq in E2.
          apply K2. rewrite E2. exact S.
        * apply chain_free_mkdirp; exact F2.
  Qed.

  Lemma benign_run all : forall ms s i (D : list (rpath * string)),
    WF s -> node_at s R = Some NDir -> InoOk s ->
    (forall m, In m ms -> plain (comps (m_name m)) /\ fits s m) ->
    consistent ms ->
    (forall q e, In (q, e) D -> has_file s q e /\ forall m, In m ms -> off_path q m) ->
    exists s', untar_from Repaired all R s ms i = (OOk, s') /\ Lk R s s' /\
      (forall q e, In (q, e) D -> has_file s' q e) /\
      (forall n d, In (MReg n d) ms -> has_file s' (rev (comps n) ++ R) d).
  Proof.
    induction ms as [|m ms IH]; intros s i D W DR IO HM CO HD.
    - exists s. split; [reflexivity|]. split; [apply Lk_refl|]. split; [intros q e H; apply HD; exact H | intros n d []].
    - destruct (HM m (or_introl eq_refl)) as [PL F]. destruct CO as [CP CO].
      destruct (benign_step all s m i W DR IO PL F) as [s1 [ST [LK1 [W1 [DR1 [IO1 [NEW [KEEP FITS]]]]]]]].
      set (D1 := match m with MReg n d => [(rq_of m ++ R, d)] | _ => [] end ++ D).
      destruct (IH s1 (S i) D1 W1 DR1 IO1) as [s' [RUN [LK' [HD' HR']]]].
      + intros m2 I2. destruct (HM m2 (or_intror I2)) as [PL2 F2]. split; [exact PL2|].
        destruct (CP m2 I2) as [K1 K2]. apply FITS; assumption.
      + exact CO.
      + intros q e I1. unfold D1 in I1. apply in_app_or in I1. destruct I1 as [I1|I1].
        * destruct m as [n d | n | n t | n t | n]; try contradiction. destruct I1 as [[= <- <-]|[]].
          split; [apply (NEW n d eq_refl)|].
          intros m2 I2 suf S NN E. apply suffix_app_eq in E. destruct (CP m2 I2) as [K1 _].
          apply (K1 Logic.I). rewrite E. exact S.
        * destruct (HD q e I1) as [HF OFF]. split; [apply KEEP; [apply OFF; left; reflexivity | exact HF]|].
          intros m2 I2. apply OFF. right. exact I2.
      + exists s'. split; [cbn [untar_from]; rewrite ST; exact RUN|]. split; [eapply Lk_trans; eauto|]. split.
        * intros q e I1. apply HD'. unfold D1. apply in_or_app. right. exact I1.
        * intros n d [->|I1]; [|apply HR'; exact I1].
          apply HD'. unfold D1. apply in_or_app. left. left. unfold rq_of. reflexivity.
  Qed.

  (* C18, second clause: a benign archive is extracted completely; every regular member ends up under its
     name with its content, owner-readable and -writable *)
  Theorem benign_extracted ms s :
    WF s -> node_at s R = Some NDir -> InoOk s -> leaving s R <> None ->
    (forall m, In m ms -> plain (comps (m_name m)) /\ fits s m) ->
    consistent ms ->
    exists s', untar R ms s = (OOk, s') /\
      forall n d, In (MReg n d) ms -> has_file s' (rev (comps n) ++ R) d.
  Proof.
    intros W DR IO LV HM CO.
    destruct (benign_run ms ms s 0 [] W DR IO HM CO) as [s' [RUN [LK [_ HR]]]]; [intros q e []|].
    exists s'. split; [|exact HR].
    unfold untar, untar_gen. destruct (leaving s R) as [before|] eqn:L; [|congruence]. rewrite RUN.
    cbn [cleanup]. rewrite (leaving_Lk R s s' LK), L.
    rewrite filter_known_nil by (intros e I; exact I). reflexivity.
  Qed.
End Benign4.

(* ================================================================ deciders, to exhibit concrete instances of the hypotheses *)
Fixpoint tails (l : list string) : list (list string) :=
  match l with [] => [[]] | _ :: l' => l :: tails l' end.

Lemma suffix_tails suf l : suffix suf l -> In suf (tails l).
Proof.
  induction l as [|a l IH]; intros S.
  - destruct S as [pre E]. destruct pre; [|discriminate]. cbn in E. subst. left; reflexivity.
  - destruct (suffix_cons_inv _ _ _ S) as [->|S']; [left; reflexivity | right; apply IH; exact S'].
Qed.

Lemma tails_suffix suf l : In suf (tails l) -> suffix suf l.
Proof.
  induction l as [|a l IH]; cbn; intros [<-|I]; try contradiction; try apply suffix_refl.
  apply suffix_cons. apply IH. exact I.
Qed.

Definition wfb (s : state) : bool :=
  forallb (fun e => match fst e with [] => true | _ :: p => is_dir s p end) (nodes s).

Lemma lookup_In_any {K V} `{EqDec K} (k : K) (m : al K V) : lookup k m <> None -> exists v, In (k, v) m.
Proof.
  intros N. destruct (lookup k m) as [v|] eqn:E; [|congruence]. exists v. apply lookup_Some_In; exact E.
Qed.

Lemma wfb_WF s : wfb s = true -> WF s.
Proof.
  unfold wfb. rewrite forallb_forall. intros H c p N. cbn in N. destruct (lookup_In_any _ _ N) as [v I].
  specialize (H _ I). cbn in H. apply is_dir_iff. exact H.
Qed.

Definition inookb (s : state) : bool :=
  forallb (fun e => match snd e with NFile i => (i <? next s)%nat | _ => true end) (nodes s).

Lemma inookb_InoOk s : inookb s = true -> InoOk s.
Proof.
  unfold inookb. rewrite forallb_forall. intros H p i N. apply node_at_file_In in N.
  specialize (H _ N). cbn in H. apply Nat.ltb_lt. exact H.
Qed.

Definition free_or_dirb (s : state) (p : rpath) : bool :=
  match node_at s p with None | Some NDir => true | _ => false end.

Definition chain_freeb (R : rpath) (s : state) (rq : list string) : bool :=
  forallb (fun suf => match suf with [] => true | _ => free_or_dirb s (suf ++ R) end) (tails rq).

Lemma chain_freeb_ok R s rq : chain_freeb R s rq = true -> chain_free R s rq.
Proof.
  unfold chain_freeb. rewrite forallb_forall. intros H suf S N. specialize (H suf (suffix_tails _ _ S)).
  destruct suf; [congruence|]. unfold free_or_dirb in H.
  destruct (node_at s ((s0 :: suf) ++ R)) as [[| | |]|]; auto; discriminate.
Qed.

Definition plainb (cs : list string) : bool := negb (existsb is_dd cs) && (List.length cs <? FUEL)%nat.
Lemma plainb_ok cs : plainb cs = true -> plain cs.
Proof.
  unfold plainb, plain. rewrite andb_true_iff, negb_true_iff, Nat.ltb_lt. tauto.
Qed.

Definition fitsb (R : rpath) (s : state) (m : member) : bool :=
  match m with
  | MDir _ => chain_freeb R s (rq_of m)
  | MReg _ _ => match rq_of m with
                | [] => false
                | _ :: t => chain_freeb R s t && match node_at s (rq_of m ++ R) with None => true | _ => false end
                end
  | _ => false
  end.

Lemma fitsb_ok R s m : fitsb R s m = true -> fits R s m.
Proof.
  destruct m; cbn [fitsb fits]; try discriminate.
  - destruct (rq_of (MReg name data)) as [|c t] eqn:E; [discriminate|]. rewrite andb_true_iff. intros [C N].
    split; [discriminate|]. split; [apply chain_freeb_ok; exact C|].
    destruct (node_at s ((c :: t) ++ R)); [discriminate | reflexivity].
  - apply chain_freeb_ok.
Qed.

Definition suffixb (a b : list string) : bool := existsb (eqb a) (tails b).
Lemma suffixb_false a b : suffixb a b = false -> ~ suffix a b.
Proof.
  unfold suffixb. intros H S. apply suffix_tails in S.
  assert (existsb (eqb a) (tails b) = true) by (apply existsb_exists; exists a; split; [exact S | apply eqb_refl]).
  congruence.
Qed.

Definition is_regb (m : member) : bool := match m with MReg _ _ => true | _ => false end.

Fixpoint consistentb (ms : list member) : bool :=
  match ms with
  | [] => true
  | m :: ms' =>
      forallb (fun m2 => (negb (is_regb m) || negb (suffixb (rq_of m) (rq_of m2)))
                         && (negb (is_regb m2) || negb (suffixb (rq_of m2) (rq_of m)))) ms'
      && consistentb ms'
  end.

Lemma consistentb_ok ms : consistentb ms = true -> consistent ms.
Proof.
  induction ms as [|m ms IH]; [constructor|]. cbn [consistentb consistent]. rewrite andb_true_iff. intros [A B].
  split; [|apply IH; exact B]. rewrite forallb_forall in A. intros m2 I2. specialize (A m2 I2).
  rewrite andb_true_iff, !orb_true_iff, !negb_true_iff in A. destruct A as [A1 A2]. split.
  - intros RG. destruct A1 as [A1|A1]; [destruct m; cbn in *; try contradiction; discriminate | apply suffixb_false; exact A1].
  - intros RG. destruct A2 as [A2|A2]; [destruct m2; cbn in *; try contradiction; discriminate | apply suffixb_false; exact A2].
Qed.
