(* Proofs/PUntarSpell.v — the install directory as the caller spells it, and processes that call untar_file
   several times (property C18).  Lemmas about [install_dir], [untar_spelled], [run_calls] of Model/MUntar.v. *)
From Coq Require Import List Bool String Ascii Arith Lia.
From KV Require Import Eqb Str AL.
From KV.Model Require Import MUntar.
From KV.Proofs Require Import PUntar.
Import ListNotations.
Local Open Scope string_scope.
Local Open Scope list_scope.

Lemma install_dir_walk s cwd text R :
  install_dir s cwd text = Some R ->
  walk Strict s FUEL [] (spelled_start cwd text) (comps text) = WOk R /\ is_dir s R = true.
Proof.
  unfold install_dir. destruct (walk Strict s FUEL [] (spelled_start cwd text) (comps text)); try discriminate.
  destruct (is_dir s p) eqn:D; [|discriminate]. intros E. inversion E; subst. auto.
Qed.

(* the directory the checks are made against (os.path.realpath of the text) is the directory the kernel writes
   into (the text resolved by the system calls), whatever the text and the working directory *)
Lemma spelled_realpath_agrees s cwd text R :
  install_dir s cwd text = Some R -> install_realpath s cwd text = Some R.
Proof.
  intros H. destruct (install_dir_walk _ _ _ _ H) as [W _]. unfold install_realpath, realpath.
  rewrite (walk_agree s FUEL Strict [] _ _ R W); [reflexivity|]. left. left. reflexivity.
Qed.

Lemma untar_spelled_some cwd text ms s r :
  untar_spelled cwd text ms s = Some r -> exists R, install_dir s cwd text = Some R /\ r = untar R ms s.
Proof.
  unfold untar_spelled. destruct (install_dir s cwd text) as [R|]; [|discriminate].
  intros E. inversion E. exists R. auto.
Qed.

(* confinement, for the directory the text denotes at the time of the call *)
Theorem untar_spelled_confined cwd text ms s R o s' :
  install_dir s cwd text = Some R -> Good R s ->
  untar_spelled cwd text ms s = Some (o, s') ->
  outside_same R s s' /\ Good R s'.
Proof.
  intros I G U. destruct (untar_spelled_some _ _ _ _ _ U) as [R' [I' E]].
  rewrite I in I'. inversion I'; subst R'. pose proof (untar_confined R ms s G) as C. rewrite <- E in C. exact C.
Qed.

(* [history_ok p calls s]: in the run of [calls] from [s], each call is made on a state that is Good for the
   directory its text denotes THEN, and [p] is outside that directory *)
Fixpoint history_ok (p : rpath) (calls : list call) (s : state) : Prop :=
  match calls with
  | [] => True
  | (cwd, text, ms) :: rest =>
      match install_dir s cwd text with
      | Some R => Good R s /\ ~ under R p /\ history_ok p rest (snd (untar R ms s))
      | None => history_ok p rest s
      end
  end.

Theorem run_calls_confined : forall calls s p,
  history_ok p calls s ->
  node_at (run_calls calls s) p = node_at s p /\
  forall i, node_at s p = Some (NFile i) -> lookup i (files (run_calls calls s)) = lookup i (files s).
Proof.
  induction calls as [|[[cwd text] ms] rest IH]; intros s p H; cbn [run_calls]; [split; auto|].
  cbn [history_ok] in H. unfold untar_spelled. destruct (install_dir s cwd text) as [R|]; [|apply IH; exact H].
  destruct H as [G [NU H]]. destruct (untar R ms s) as [o s'] eqn:E. cbn [snd] in H.
  destruct (untar_confined R ms s G) as [OS _]. rewrite E in OS. cbn [snd] in OS.
  destruct (OS p NU) as [N1 N2]. destruct (IH s' p H) as [A B]. split; [congruence|].
  intros i Hi. rewrite B by congruence. apply N2. exact Hi.
Qed.

(* the same TEXT from two working directories denotes two directories: each call is judged against its own *)
Lemma install_dir_depends_on_cwd_witness :
  let s := {| nodes := [(["p"], NDir); (["w1"; "p"], NDir); (["install"; "w1"; "p"], NDir);
                        (["w2"; "p"], NDir); (["install"; "w2"; "p"], NDir)]; files := []; next := 1 |} in
  install_dir s ["w1"; "p"] "install" = Some ["install"; "w1"; "p"] /\
  install_dir s ["w2"; "p"] "install" = Some ["install"; "w2"; "p"] /\
  install_dir s ["w2"; "p"] "./install/." = Some ["install"; "w2"; "p"] /\
  install_dir s ["install"; "w2"; "p"] "." = Some ["install"; "w2"; "p"] /\
  install_dir s ["w1"; "p"] "../w2/install/" = Some ["install"; "w2"; "p"] /\
  install_dir s ["w1"; "p"] "/p/w2/install" = Some ["install"; "w2"; "p"] /\
  install_dir s ["w1"; "p"] "nowhere" = None.
Proof. vm_compute. repeat split. Qed.
