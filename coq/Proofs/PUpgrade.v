(* Proofs/PUpgrade.v — lemmas about Model/MUpgrade.v (property C20). *)
From Coq Require Import List Bool String Ascii ZArith NArith Lia DecimalString DecimalZ DecimalPos.
From KV Require Import Eqb Str AL.
From KV.Gen Require Import Tupgrade.
From KV.Model Require Import MUpgrade.
Import ListNotations.
Local Open Scope string_scope.
Local Open Scope list_scope.

(* ================================================================== 0. strings *)
Lemma app_nil_r_s s : s +++ EmptyString = s.
Proof. induction s as [|c s IH]; cbn; [reflexivity | rewrite IH; reflexivity]. Qed.

Lemma app_assoc_s a b c : (a +++ b) +++ c = a +++ (b +++ c).
Proof. induction a as [|x a IH]; cbn; [reflexivity | rewrite IH; reflexivity]. Qed.

Lemma app_inv_head_s a b c : a +++ b = a +++ c -> b = c.
Proof. induction a as [|x a IH]; cbn; [auto | intros [= E]; auto]. Qed.

Lemma prefixb_app p s : prefixb p (p +++ s) = true.
Proof. induction p as [|c p IH]; cbn; [reflexivity | rewrite Ascii.eqb_refl, IH; reflexivity]. Qed.

Definition no_char (c : ascii) (s : string) : Prop := forall t u, s <> t +++ String c u.

Fixpoint has_char (c : ascii) (s : string) : bool :=
  match s with EmptyString => false | String x s' => Ascii.eqb x c || has_char c s' end.

Lemma split_char_nonempty c s : split_char c s <> [].
Proof.
  induction s as [|x s IH]; cbn; [discriminate|].
  destruct (Ascii.eqb x c); [discriminate|]. destruct (split_char c s); [contradiction | discriminate].
Qed.

Lemma split_char_app c a b : split_char c (a +++ String c b) = split_char c a ++ split_char c b.
Proof.
  induction a as [|x a IH]; cbn.
  - rewrite Ascii.eqb_refl. reflexivity.
  - destruct (Ascii.eqb x c); [rewrite IH; reflexivity|].
    rewrite IH. destruct (split_char c a) eqn:E; [exfalso; eapply split_char_nonempty; eauto|]. reflexivity.
Qed.

Lemma split_char_no c s : has_char c s = false -> split_char c s = [s].
Proof.
  induction s as [|x s IH]; cbn; [reflexivity|]. intros H. apply orb_false_iff in H as [H1 H2].
  rewrite H1, (IH H2). reflexivity.
Qed.

Lemma last_app_nonempty {A} (l m : list A) d : m <> [] -> last (l ++ m) d = last m d.
Proof.
  intros N. induction l as [|x l IH]; [reflexivity|]. cbn [app].
  destruct (l ++ m) eqn:E; [destruct l, m; cbn in E; congruence|]. rewrite <- IH. reflexivity.
Qed.

Lemma basename_under ty p : basename (under ty p) = basename p.
Proof.
  unfold basename, under. change ("/" +++ p) with (String "/" p). rewrite split_char_app.
  apply last_app_nonempty. apply split_char_nonempty.
Qed.

Lemma has_ext_under e ty p : has_ext e (under ty p) = has_ext e p.
Proof. unfold has_ext. rewrite basename_under. reflexivity. Qed.

Lemma under_inj ty p q : under ty p = under ty q -> p = q.
Proof. unfold under. intros H. apply app_inv_head_s in H. cbn in H. congruence. Qed.

Lemma cut_slash_under ty r : has_char "/" ty = false -> cut_slash (under ty r) = Some (ty, r).
Proof.
  unfold under. induction ty as [|x ty IH]; cbn; [reflexivity|]. intros H. apply orb_false_iff in H as [H1 H2].
  rewrite H1. cbn in IH. rewrite (IH H2). reflexivity.
Qed.

Lemma cut_slash_spec p c r : cut_slash p = Some (c, r) -> p = under c r /\ has_char "/" c = false.
Proof.
  revert c. induction p as [|x p IH]; cbn; [discriminate|]. intros c.
  destruct (Ascii.eqb x "/") eqn:E.
  - intros [= <- <-]. apply Ascii.eqb_eq in E; subst. split; reflexivity.
  - destruct (cut_slash p) as [[a b]|]; [|discriminate]. intros [= <- <-].
    destruct (IH a eq_refl) as [-> H]. split; [reflexivity|]. cbn. rewrite E, H. reflexivity.
Qed.

Lemma cut_slash_has_ext e p c r : cut_slash p = Some (c, r) -> has_ext e r = has_ext e p.
Proof. intros H. apply cut_slash_spec in H as [-> _]. symmetry. apply has_ext_under. Qed.

Lemma cut_slash_none p : has_char "/" p = false -> cut_slash p = None.
Proof.
  induction p as [|x p IH]; cbn; [reflexivity|]. intros H. apply orb_false_iff in H as [H1 H2].
  rewrite H1, (IH H2). reflexivity.
Qed.

(* ================================================================== 1. folders *)
Section Folders.
  Context {V : Type}.
  Notation fold := (list (string * V)).

  Lemma lookup_map_inj (f : string -> string) (F : fold) k :
    (forall p, In p (keys F) -> f p = f k -> p = k) ->
    lookup (f k) (map (fun pc => (f (fst pc), snd pc)) F) = lookup k F.
  Proof.
    induction F as [|[p c] F IH]; cbn; [reflexivity|]. intros Inj.
    destruct (eqb_spec k p) as [->|N].
    - rewrite eqb_refl. reflexivity.
    - destruct (eqb_spec (f k) (f p)) as [E|_].
      + exfalso. apply N. symmetry. apply Inj; auto.
      + apply IH. intros q Hq. apply Inj. auto.
  Qed.

  Lemma lookup_map_none (f : string -> string) (F : fold) k :
    (forall p, In p (keys F) -> f p <> k) ->
    lookup k (map (fun pc => (f (fst pc), snd pc)) F) = None.
  Proof.
    induction F as [|[p c] F IH]; cbn; [reflexivity|]. intros H.
    destruct (eqb_spec k (f p)) as [E|_]; [exfalso; eapply H; eauto|]. apply IH. intros q Hq. apply H. auto.
  Qed.

  Lemma keys_map (f : string -> string) (F : fold) :
    keys (map (fun pc => (f (fst pc), snd pc)) F) = map f (keys F).
  Proof. unfold keys. rewrite !map_map. reflexivity. Qed.

  Lemma NoDup_map_inj {A B} (f : A -> B) (l : list A) :
    (forall x y, In x l -> In y l -> f x = f y -> x = y) -> NoDup l -> NoDup (map f l).
  Proof.
    induction l as [|x l IH]; cbn; [constructor|]. intros Inj ND. inversion ND; subst.
    constructor.
    - rewrite in_map_iff. intros [y [E Hy]]. assert (y = x) by (apply Inj; auto). subst. contradiction.
    - apply IH; auto.
  Qed.

  Lemma lookup_app (F G : fold) k :
    lookup k (F ++ G) = match lookup k F with Some v => Some v | None => lookup k G end.
  Proof. induction F as [|[p c] F IH]; cbn; [reflexivity|]. destruct (eqb k p); auto. Qed.

  Lemma lookup_filter_keys (P : string -> bool) (F : fold) k :
    lookup k (List.filter (fun pc => P (fst pc)) F) = if P k then lookup k F else None.
  Proof.
    induction F as [|[p c] F IH]; cbn; [destruct (P k); reflexivity|].
    destruct (P p) eqn:E; cbn.
    - destruct (eqb_spec k p) as [->|N]; [rewrite E; reflexivity | exact IH].
    - rewrite IH. destruct (eqb_spec k p) as [->|N]; [rewrite E; reflexivity | reflexivity].
  Qed.

  Lemma keys_filter (P : string -> bool) (F : fold) :
    keys (List.filter (fun pc => P (fst pc)) F) = List.filter P (keys F).
  Proof.
    unfold keys. induction F as [|[p c] F IH]; cbn; [reflexivity|]. destruct (P p); cbn; rewrite IH; reflexivity.
  Qed.

  Lemma NoDup_filter {A} (P : A -> bool) (l : list A) : NoDup l -> NoDup (List.filter P l).
  Proof.
    induction 1 as [|x l N ND IH]; cbn; [constructor|]. destruct (P x); [|assumption].
    constructor; [|assumption]. rewrite filter_In. tauto.
  Qed.
End Folders.

(* ---- move_key *)
Lemma lookup_move_key src dst (F : folder) k :
  src <> dst ->
  lookup k (move_key src dst F) =
  match lookup src F with
  | Some c => if eqb k dst then Some c else if eqb k src then None else lookup k F
  | None => lookup k F
  end.
Proof.
  intros N. unfold move_key. destruct (lookup src F) as [c|] eqn:E; [|reflexivity].
  rewrite lookup_insert. destruct (eqb_spec k dst) as [->|N1]; [reflexivity|].
  rewrite lookup_remove. reflexivity.
Qed.

Lemma wf_move_key src dst (F : folder) : wf F -> wf (move_key src dst F).
Proof. intros W. unfold move_key. destruct (lookup src F); [|assumption]. apply wf_insert, wf_remove, W. Qed.

Lemma In_keys_move_key src dst (F : folder) k :
  In k (keys (move_key src dst F)) ->
  k = dst \/ (k <> src /\ In k (keys F)) \/ (lookup src F = None /\ In k (keys F)).
Proof.
  unfold move_key. destruct (lookup src F) eqn:E.
  - rewrite In_keys_insert, In_keys_remove. tauto.
  - auto.
Qed.

(* ================================================================== 2. the parallel rename used by the repaired in-place loop *)
Section Rename.
  Variable ty e : string.

  Definition rn (p : string) : string := if has_ext e p then under ty p else p.

  Lemma rename_feat_eq F : rename_feat ty e F = map (fun pc => (rn (fst pc), snd pc)) F.
  Proof. reflexivity. Qed.

  Lemma has_ext_rn p : has_ext e (rn p) = has_ext e p.
  Proof. unfold rn. destruct (has_ext e p) eqn:E; [rewrite has_ext_under|]; assumption. Qed.

  Lemma rn_inj p q : rn p = rn q -> p = q.
  Proof.
    intros H. assert (E : has_ext e p = has_ext e q) by (rewrite <- (has_ext_rn p), <- (has_ext_rn q), H; reflexivity).
    unfold rn in H. rewrite E in H. destruct (has_ext e q); [apply under_inj in H|]; assumption.
  Qed.

  (* nothing is lost and nothing is overwritten: an entry is found at its new name with its content *)
  Lemma lookup_rename_feat F p : lookup (rn p) (rename_feat ty e F) = lookup p F.
  Proof. rewrite rename_feat_eq. apply lookup_map_inj. intros q _ H. apply rn_inj. assumption. Qed.

  Lemma lookup_rename_feat_feature F p :
    has_ext e p = true -> lookup (under ty p) (rename_feat ty e F) = lookup p F.
  Proof. intros H. rewrite <- (lookup_rename_feat F p). unfold rn. rewrite H. reflexivity. Qed.

  Lemma lookup_rename_feat_other F p :
    has_ext e p = false -> lookup p (rename_feat ty e F) = lookup p F.
  Proof. intros H. rewrite <- (lookup_rename_feat F p). unfold rn. rewrite H. reflexivity. Qed.

  Lemma wf_rename_feat F : wf F -> wf (rename_feat ty e F).
  Proof.
    unfold wf. rewrite rename_feat_eq, keys_map. apply NoDup_map_inj. intros x y _ _. apply rn_inj.
  Qed.

  Lemma keys_rename_feat F : keys (rename_feat ty e F) = map rn (keys F).
  Proof. rewrite rename_feat_eq. apply keys_map. Qed.

  Lemma length_rename_feat F : List.length (rename_feat ty e F) = List.length F.
  Proof. apply map_length. Qed.
End Rename.

(* ================================================================== 3. characters, stripping, the row codec *)
Fixpoint all_chars (P : ascii -> bool) (s : string) : bool :=
  match s with EmptyString => true | String c s' => P c && all_chars P s' end.

Lemma all_chars_app P a b : all_chars P (a +++ b) = all_chars P a && all_chars P b.
Proof. induction a as [|c a IH]; cbn; [reflexivity | rewrite IH, andb_assoc; reflexivity]. Qed.

Lemma has_char_app c a b : has_char c (a +++ b) = has_char c a || has_char c b.
Proof. induction a as [|x a IH]; cbn; [reflexivity | rewrite IH, orb_assoc; reflexivity]. Qed.

Lemma has_char_under ty p : has_char "/" (under ty p) = true.
Proof. unfold under. rewrite has_char_app. cbn. apply orb_true_r. Qed.

Lemma drop_while_ws_space s : drop_while is_ws (String " " s) = drop_while is_ws s.
Proof. reflexivity. Qed.

(* a field as kapture writes and reads it back: no comma, no line break, no blank at either end *)
Definition last_ok (s : string) : bool :=       (* the last character, if any, is not white space *)
  eqb (rstrip_by is_ws s) s.
Definition first_ok (s : string) : bool := match s with String c _ => negb (is_ws c) | EmptyString => true end.
Definition clean (s : string) : bool :=
  negb (has_char "," s) && negb (has_char "010" s) && negb (has_char "013" s) && first_ok s && last_ok s.

Lemma drop_while_first_ok s : first_ok s = true -> drop_while is_ws s = s.
Proof. destruct s as [|c s]; cbn; [reflexivity|]. intros H. apply negb_true_iff in H. rewrite H. reflexivity. Qed.

Lemma strip_clean s : clean s = true -> strip s = s.
Proof.
  unfold clean. rewrite !andb_true_iff. intros [[_ F] L]. unfold strip. rewrite (drop_while_first_ok _ F).
  apply eqb_true in L. exact L.
Qed.

Lemma strip_space s : strip (String " " s) = strip s.
Proof. reflexivity. Qed.

(* rstrip_by leaves a string alone when its last character does not satisfy p *)
Lemma rstrip_by_fix p s : rstrip_by p (rstrip_by p s) = rstrip_by p s.
Proof.
  induction s as [|c s IH]; cbn; [reflexivity|].
  destruct (rstrip_by p s) as [|d r] eqn:E.
  - destruct (p c) eqn:Pc; cbn; [reflexivity | rewrite Pc; reflexivity].
  - cbn. cbn in IH. rewrite IH. reflexivity.
Qed.

Lemma rstrip_by_nocrlf s :
  has_char "010" s = false -> has_char "013" s = false -> rstrip_by is_crlf s = s.
Proof.
  induction s as [|c s IH]; cbn; [reflexivity|]. intros H1 H2.
  apply orb_false_iff in H1 as [A1 B1]. apply orb_false_iff in H2 as [A2 B2].
  rewrite (IH B1 B2). destruct s; [|reflexivity].
  assert (is_crlf c = false) as ->; [|reflexivity].
  unfold is_crlf, code. apply orb_false_iff. split; apply N.eqb_neq; intros E.
  - apply Ascii.eqb_neq in A1. apply A1. rewrite <- (ascii_N_embedding c), E. reflexivity.
  - apply Ascii.eqb_neq in A2. apply A2. rewrite <- (ascii_N_embedding c), E. reflexivity.
Qed.

(* join ", " and split on "," *)
Lemma join_cons sep x y l : join sep (x :: y :: l) = x +++ sep +++ join sep (y :: l).
Proof. reflexivity. Qed.

Lemma split_join_aux (l : list string) :
  forallb clean l = true -> l <> [] ->
  map strip (split_char "," (join ", " l)) = l /\
  map strip (split_char "," (String " " (join ", " l))) = l.
Proof.
  induction l as [|x l IH]; [intros _ N; contradiction|]. intros C _. cbn [forallb] in C.
  apply andb_true_iff in C as [Cx Cl].
  assert (NC : has_char "," x = false).
  { unfold clean in Cx. rewrite !andb_true_iff in Cx. destruct Cx as [[[[A _] _] _] _]. apply negb_true_iff in A. exact A. }
  destruct l as [|y l].
  - cbn [join]. rewrite (split_char_no _ _ NC). cbn [map].
    assert (NC' : has_char "," (String " " x) = false) by (cbn; exact NC).
    rewrite (split_char_no _ _ NC'). cbn [map]. rewrite strip_space, (strip_clean _ Cx). auto.
  - rewrite join_cons. destruct (IH Cl ltac:(discriminate)) as [_ IH2].
    change (", " +++ join ", " (y :: l)) with (String "," (String " " (join ", " (y :: l)))).
    split.
    + rewrite split_char_app, (split_char_no _ _ NC), map_app. cbn [map app]. rewrite IH2, (strip_clean _ Cx). reflexivity.
    + change (String " " (x +++ String "," (String " " (join ", " (y :: l)))))
        with ((String " " x) +++ String "," (String " " (join ", " (y :: l)))).
      assert (NC' : has_char "," (String " " x) = false) by (cbn; exact NC).
      rewrite split_char_app, (split_char_no _ _ NC'), map_app. cbn [map app].
      rewrite IH2, strip_space, (strip_clean _ Cx). reflexivity.
Qed.

Lemma split_join l : forallb clean l = true -> l <> [] -> map strip (split_char "," (join ", " l)) = l.
Proof. intros C N. apply (split_join_aux l C N). Qed.

(* ---- str(int) and int(str) *)
Definition dec_char (c : ascii) : bool := is_digit c || Ascii.eqb c "-".

Lemma dec_chars_uint u : all_chars dec_char (NilEmpty.string_of_uint u) = true.
Proof. induction u; cbn; try rewrite IHu; reflexivity. Qed.

Lemma dec_chars_show z : all_chars dec_char (show_Z z) = true.
Proof.
  unfold show_Z, NilZero.string_of_int, NilZero.string_of_uint.
  destruct (Z.to_int z) as [u|u]; destruct u; cbn; try rewrite dec_chars_uint; reflexivity.
Qed.

Lemma show_nonempty z : show_Z z <> EmptyString.
Proof.
  unfold show_Z. destruct z as [|p|p]; cbn; try discriminate;
    unfold NilZero.string_of_uint; pose proof (Unsigned.to_uint_nonnil p) as N;
    destruct (Pos.to_uint p); try contradiction; cbn; discriminate.
Qed.

Lemma all_chars_has P c s : all_chars P s = true -> P c = false -> has_char c s = false.
Proof.
  induction s as [|x s IH]; cbn; [reflexivity|]. intros H Pc. apply andb_true_iff in H as [Hx Hs].
  rewrite (IH Hs Pc), orb_false_r. destruct (Ascii.eqb_spec x c) as [->|]; [congruence | reflexivity].
Qed.

Lemma dec_char_not_ws c : dec_char c = true -> is_ws c = false.
Proof.
  unfold dec_char, is_digit, is_ws, code. intros H. apply orb_true_iff in H as [H|H].
  - apply andb_true_iff in H as [A B]. apply N.leb_le in A, B.
    apply orb_false_iff; split; apply andb_false_iff; right; apply N.leb_gt; lia.
  - apply Ascii.eqb_eq in H. subst. reflexivity.
Qed.

Lemma rstrip_by_none p s : all_chars (fun c => negb (p c)) s = true -> rstrip_by p s = s.
Proof.
  induction s as [|c s IH]; cbn; [reflexivity|]. intros H. apply andb_true_iff in H as [Hc Hs].
  rewrite (IH Hs). destruct s; [|reflexivity]. apply negb_true_iff in Hc. rewrite Hc. reflexivity.
Qed.

Lemma all_chars_impl (P Q : ascii -> bool) s :
  (forall c, P c = true -> Q c = true) -> all_chars P s = true -> all_chars Q s = true.
Proof.
  intros I. induction s as [|c s IH]; cbn; [reflexivity|]. intros H. apply andb_true_iff in H as [Hc Hs].
  rewrite (I _ Hc), (IH Hs). reflexivity.
Qed.

Lemma clean_dec s : all_chars dec_char s = true -> clean s = true.
Proof.
  intros H. unfold clean.
  rewrite (all_chars_has dec_char "," s H eq_refl), (all_chars_has dec_char "010" s H eq_refl),
          (all_chars_has dec_char "013" s H eq_refl). cbn [negb andb].
  apply andb_true_iff. split.
  - destruct s as [|c s]; [reflexivity|]. cbn in *. apply andb_true_iff in H as [Hc _].
    rewrite (dec_char_not_ws _ Hc). reflexivity.
  - unfold last_ok. rewrite rstrip_by_none; [apply eqb_refl|].
    eapply all_chars_impl; [|exact H]. intros c Hc. rewrite (dec_char_not_ws _ Hc). reflexivity.
Qed.

Lemma clean_show z : clean (show_Z z) = true.
Proof. apply clean_dec, dec_chars_show. Qed.

Lemma to_int_ok z : Z.to_int z <> Decimal.Pos Decimal.Nil /\ Z.to_int z <> Decimal.Neg Decimal.Nil.
Proof.
  destruct z as [|p|p]; cbn; split; try discriminate; intros [= E]; exact (Unsigned.to_uint_nonnil p E).
Qed.

Lemma parse_show z : parse_int (show_Z z) = Some z.
Proof.
  unfold parse_int. rewrite (strip_clean _ (clean_show z)).
  assert (E : option_map Z.of_int (NilZero.int_of_string (show_Z z)) = Some z).
  { unfold show_Z. destruct (to_int_ok z) as [A B]. rewrite (NilZero.isi _ A B). cbn. rewrite DecimalZ.of_to. reflexivity. }
  pose proof (dec_chars_show z) as D. destruct (show_Z z) as [|c r] eqn:S; [exact E|].
  destruct (Ascii.eqb_spec c "+") as [->|N]; [cbn in D; discriminate|].
  destruct c as [[] [] [] [] [] [] [] []]; try exact E. exfalso; apply N; reflexivity.
Qed.

(* ---- a written row reads back as itself *)
Lemma has_char_join c sep l :
  has_char c sep = false -> forallb (fun f => negb (has_char c f)) l = true -> has_char c (join sep l) = false.
Proof.
  intros Hs. induction l as [|x l IH]; [reflexivity|]. cbn [forallb]. intros H. apply andb_true_iff in H as [Hx Hl].
  apply negb_true_iff in Hx. destruct l as [|y l]; [exact Hx|].
  rewrite join_cons, !has_char_app, Hx, Hs, (IH Hl). reflexivity.
Qed.

Lemma clean_no c l : (c = "010" \/ c = "013")%char -> forallb clean l = true -> forallb (fun f => negb (has_char c f)) l = true.
Proof.
  intros Hc. induction l as [|x l IH]; [reflexivity|]. cbn [forallb]. intros H. apply andb_true_iff in H as [Hx Hl].
  rewrite (IH Hl), andb_true_r. unfold clean in Hx. rewrite !andb_true_iff in Hx.
  destruct Hx as [[[[_ A] B] _] _]. destruct Hc as [-> | ->]; assumption.
Qed.

Lemma has_char_drop_while c s : is_ws c = false -> has_char c s = true -> has_char c (drop_while is_ws s) = true.
Proof.
  intros W. induction s as [|x s IH]; cbn; [auto|]. intros H.
  destruct (is_ws x) eqn:Wx; [|exact H]. apply IH.
  apply orb_true_iff in H as [H|H]; [|exact H]. apply Ascii.eqb_eq in H. subst. congruence.
Qed.

Lemma has_char_rstrip c s : is_ws c = false -> has_char c s = true -> has_char c (rstrip_by is_ws s) = true.
Proof.
  intros W. induction s as [|x s IH]; cbn; [auto|]. intros H.
  apply orb_true_iff in H as [H|H].
  - apply Ascii.eqb_eq in H. subst x. destruct (rstrip_by is_ws s); [rewrite W|]; cbn; rewrite Ascii.eqb_refl; reflexivity.
  - specialize (IH H). destruct (rstrip_by is_ws s); [discriminate|]. cbn. cbn in IH. rewrite IH. apply orb_true_r.
Qed.

Lemma strip_nonempty c s : is_ws c = false -> has_char c s = true -> strip s <> EmptyString.
Proof.
  intros W H E. unfold strip in E.
  pose proof (has_char_rstrip c _ W (has_char_drop_while c s W H)) as K. rewrite E in K. discriminate.
Qed.

Definition not_hash (s : string) : bool := negb (prefixb "#" s).

Lemma prefixb_hash_cons c s : prefixb "#" (String c s) = Ascii.eqb "#" c.
Proof. cbn [prefixb]. apply andb_true_r. Qed.

Lemma row_of_line_join l :
  forallb clean l = true -> (2 <= List.length l)%nat -> not_hash (hd EmptyString l) = true ->
  row_of_line (join ", " l) = Some l.
Proof.
  intros C L H. unfold row_of_line.
  assert (N10 : has_char "010" (join ", " l) = false) by (apply has_char_join; [reflexivity | apply clean_no; auto]).
  assert (N13 : has_char "013" (join ", " l) = false) by (apply has_char_join; [reflexivity | apply clean_no; auto]).
  rewrite (rstrip_by_nocrlf _ N10 N13).
  destruct l as [|x [|y l]]; cbn in L; try lia.
  assert (Comma : has_char "," (join ", " (x :: y :: l)) = true).
  { rewrite join_cons, !has_char_app. cbn. rewrite orb_true_r. reflexivity. }
  destruct (eqb_spec (strip (join ", " (x :: y :: l))) EmptyString) as [E|_].
  { exfalso. revert E. apply (strip_nonempty ","); [reflexivity | exact Comma]. }
  assert (P : prefixb "#" (join ", " (x :: y :: l)) = false).
  { rewrite join_cons. cbn [hd] in H. unfold not_hash in H. apply negb_true_iff in H. destruct x as [|c x]; [reflexivity|].
    change ((String c x) +++ ", " +++ join ", " (y :: l)) with (String c (x +++ ", " +++ join ", " (y :: l))).
    rewrite prefixb_hash_cons in *. exact H. }
  rewrite P. cbn [orb]. rewrite split_join; [reflexivity | exact C | discriminate].
Qed.

Lemma rows_app a b : rows (a ++ b) = rows a ++ rows b.
Proof. unfold rows. apply flat_map_app. Qed.

Lemma rows_cons_none s l : row_of_line s = None -> rows (s :: l) = rows l.
Proof. intros H. unfold rows. cbn. rewrite H. reflexivity. Qed.

Lemma rows_cons_some s r l : row_of_line s = Some r -> rows (s :: l) = r :: rows l.
Proof. intros H. unfold rows. cbn. rewrite H. reflexivity. Qed.

Lemma row_of_line_hash s : prefixb "#" s = true -> row_of_line s = None.
Proof.
  intros H. unfold row_of_line.
  assert (prefixb "#" (rstrip_by is_crlf s) = true) as ->; [|rewrite orb_true_r; reflexivity].
  destruct s as [|c s]; [discriminate|]. rewrite prefixb_hash_cons in H. apply Ascii.eqb_eq in H. subst c.
  cbn [rstrip_by]. destruct (rstrip_by is_crlf s); reflexivity.
Qed.

Lemma row_format_11 : row_of_line format_11 = None.
Proof. vm_compute. reflexivity. Qed.

Lemma row_empty : row_of_line EmptyString = None.
Proof. reflexivity. Qed.

Lemma row_fhdr k : row_of_line (fhdr k) = None.
Proof. destruct k; vm_compute; reflexivity. Qed.

Lemma row_obs_hdr : row_of_line obs_hdr = None.
Proof. vm_compute. reflexivity. Qed.

(* the version line: found in what is written, and the data rows do not depend on it *)
Lemma version_format_11 : find_version format_11 = Some version_11.
Proof. vm_compute. reflexivity. Qed.

Lemma version_rewrite_header segs : version_of_file (rewrite_header segs) = Some version_11.
Proof. unfold rewrite_header. destruct (version_of_file segs); exact version_format_11. Qed.

(* hypothesis on a 1.0 text file: when its first line carries a version, that line is a comment *)
Definition header_is_comment (segs : list string) : bool :=
  match version_of_file segs with
  | Some _ => prefixb "#" (hd EmptyString segs)
  | None => true
  end.

Lemma rows_rewrite_header segs : header_is_comment segs = true -> rows (rewrite_header segs) = rows segs.
Proof.
  unfold header_is_comment, rewrite_header. destruct (version_of_file segs) as [v|].
  - intros H. rewrite (rows_cons_none _ _ row_format_11).
    destruct segs as [|h [|x r]]; cbn [tl hd] in *.
    + reflexivity.
    + rewrite (rows_cons_none _ _ (row_of_line_hash _ H)). reflexivity.
    + rewrite (rows_cons_none _ _ (row_of_line_hash _ H)). reflexivity.
  - intros _. apply (rows_cons_none _ _ row_format_11).
Qed.

(* ================================================================== 4. the unchanged text tables *)
Definition rewritten (names : list string) (top : folder) (k : string) : option content :=
  if memb k names then
    match lookup k top with Some (Txt segs) => Some (Txt (rewrite_header segs)) | o => o end
  else lookup k top.

Definition versions_lenient (names : list string) (top : folder) : Prop :=
  forall n segs, In n names -> lookup n top = Some (Txt segs) -> version_ok_lenient (version_of_file segs) = true.

Lemma csv_step_in_done names : forall top,
  NoDup names -> versions_lenient names top ->
  exists top', csv_step_in names top = Done top' /\ (forall k, lookup k top' = rewritten names top k)
               /\ keys top' = keys top.
Proof.
  induction names as [|n ns IH]; intros top ND V.
  - exists top. repeat split; reflexivity.
  - inversion ND as [|? ? Nn NDs]; subst. cbn [csv_step_in].
    assert (Vs : versions_lenient ns top) by (intros m s Hm; apply V; right; exact Hm).
    destruct (lookup n top) as [[segs|tok]|] eqn:E.
    + rewrite (V n segs (or_introl eq_refl) E).
      set (top1 := insert n (Txt (rewrite_header segs)) top).
      assert (V1 : versions_lenient ns top1).
      { intros m s Hm. unfold top1. rewrite lookup_insert_neq; [apply Vs; exact Hm | intros ->; contradiction]. }
      destruct (IH top1 NDs V1) as [top' [D [L K]]]. exists top'. split; [exact D|]. split.
      * intros k. rewrite L. unfold rewritten. cbn [memb].
        destruct (eqb_spec k n) as [->|Nk].
        -- apply memb_not_In in Nn. rewrite Nn. cbn [orb]. unfold top1. rewrite lookup_insert_eq, E. reflexivity.
        -- cbn [orb]. unfold top1. rewrite lookup_insert_neq by exact Nk. reflexivity.
      * rewrite K. unfold top1. apply keys_insert_mem. apply lookup_In_keys. rewrite E. discriminate.
    + destruct (IH top NDs Vs) as [top' [D [L K]]]. exists top'. split; [exact D|]. split; [|exact K].
      intros k. rewrite L. unfold rewritten. cbn [memb]. destruct (eqb_spec k n) as [->|Nk]; [|reflexivity].
      apply memb_not_In in Nn. rewrite Nn, E. reflexivity.
    + destruct (IH top NDs Vs) as [top' [D [L K]]]. exists top'. split; [exact D|]. split; [|exact K].
      intros k. rewrite L. unfold rewritten. cbn [memb]. destruct (eqb_spec k n) as [->|Nk]; [|reflexivity].
      apply memb_not_In in Nn. rewrite Nn, E. reflexivity.
Qed.

(* a tree whose text tables all carry another version is refused before anything is written *)
Lemma csv_step_in_refuses names : forall top,
  (forall n segs, In n names -> lookup n top = Some (Txt segs) -> version_ok_lenient (version_of_file segs) = false) ->
  (exists n segs, In n names /\ lookup n top = Some (Txt segs)) ->
  csv_step_in names top = Failed Refused top.
Proof.
  induction names as [|n ns IH]; intros top B [m [s [Hm Hs]]]; [contradiction|]. cbn [csv_step_in].
  destruct (lookup n top) as [[segs|tok]|] eqn:E.
  - rewrite (B n segs (or_introl eq_refl) E). reflexivity.
  - apply IH; [intros x y Hx; apply B; right; exact Hx|]. destruct Hm as [->|Hm]; [congruence|]. exists m, s; auto.
  - apply IH; [intros x y Hx; apply B; right; exact Hx|]. destruct Hm as [->|Hm]; [congruence|]. exists m, s; auto.
Qed.

Lemma tables_view_ext top top' :
  (forall n, n <> obs_file -> table_rows top' n = table_rows top n) -> tables_view top' = tables_view top.
Proof.
  intros H. unfold tables_view. induction csv_11 as [|n l IH]; [reflexivity|]. cbn [List.filter].
  destruct (eqb_spec n obs_file) as [->|N]; cbn [negb]; [exact IH|]. cbn [flat_map]. rewrite IH, (H n N). reflexivity.
Qed.

Definition headers_are_comments (names : list string) (top : folder) : Prop :=
  forall n segs, In n names -> lookup n top = Some (Txt segs) -> header_is_comment segs = true.

Lemma table_rows_rewritten names top top' n :
  headers_are_comments names top -> (forall k, lookup k top' = rewritten names top k) ->
  table_rows top' n = table_rows top n.
Proof.
  intros HC L. unfold table_rows. rewrite L. unfold rewritten. destruct (memb n names) eqn:M; [|reflexivity].
  apply memb_In in M. destruct (lookup n top) as [[segs|tok]|] eqn:E; try reflexivity.
  rewrite (rows_rewrite_header _ (HC n segs M E)). reflexivity.
Qed.

(* facts about the file names of the tree under test, by computation *)
Lemma csv_1_0_nodup : NoDup csv_1_0.
Proof.
  assert (H : forall l : list string, (fix nd (l : list string) := match l with [] => true | x :: r => negb (memb x r) && nd r end) l = true -> NoDup l).
  { induction l as [|x r IH]; [constructor|]. intros H. apply andb_true_iff in H as [A B]. constructor; [|auto].
    apply negb_true_iff, memb_not_In in A. exact A. }
  apply H. vm_compute. reflexivity.
Qed.
Lemma obs_not_csv : memb obs_file csv_1_0 = false. Proof. vm_compute. reflexivity. Qed.
Lemma sensors_in_csv : memb sensors_file csv_1_0 = true. Proof. vm_compute. reflexivity. Qed.
Lemma records_camera_not_obs : records_camera_file <> obs_file. Proof. intros E; vm_compute in E; discriminate. Qed.
Lemma points3d_not_obs : points3d_file <> obs_file. Proof. intros E; vm_compute in E; discriminate. Qed.
Lemma sensors_not_obs : sensors_file <> obs_file. Proof. intros E; vm_compute in E; discriminate. Qed.

(* ================================================================== 5. one feature folder *)
Definition in_folder (k : fkind) (ty : string) (row : list string) (F : folder) : folder :=
  let F1 := remove (descname k) F in
  let F2 := insert (under ty (descname k)) (desc11 k row) F1 in
  let F3 := match fjson k with Some j => move_key j (under ty j) F2 | None => F2 end in
  rename_feat ty (fext k) F3.
Definition cp_folder (k : fkind) (ty : string) (row : list string) (F : folder) : folder :=
  (under ty (descname k), desc11 k row) :: feat_files_cp ty (fext k) F.

(* facts about the names of the tree under test *)
Lemma desc_not_feature k : has_ext (fext k) (descname k) = false.
Proof. destruct k; vm_compute; reflexivity. Qed.
Lemma json_not_feature k j : fjson k = Some j -> has_ext (fext k) j = false.
Proof. destruct k; intros [= <-]; vm_compute; reflexivity. Qed.
Lemma desc_no_slash k : has_char "/" (descname k) = false.
Proof. destruct k; vm_compute; reflexivity. Qed.
Lemma json_no_slash k j : fjson k = Some j -> has_char "/" j = false.
Proof. destruct k; intros [= <-]; vm_compute; reflexivity. Qed.
Lemma json_not_desc k j : fjson k = Some j -> j <> descname k.
Proof. destruct k; intros [= <-] E; vm_compute in E; discriminate. Qed.
Lemma mt_json_not_feature : has_ext mt_ext mt_json = false.
Proof. vm_compute. reflexivity. Qed.
Lemma mt_json_no_slash : has_char "/" mt_json = false.
Proof. vm_compute. reflexivity. Qed.

Lemma under_neq_noslash ty p q : has_char "/" q = false -> under ty p <> q.
Proof. intros H E. rewrite <- E, has_char_under in H. discriminate. Qed.

Lemma ext_neq e p q : has_ext e p = true -> has_ext e q = false -> p <> q.
Proof. intros A B ->. congruence. Qed.

Section OneFolder.
  Variable k : fkind.
  Variable ty : string.
  Variable row : list string.
  Variable F : folder.
  Notation e := (fext k).
  Notation dn := (descname k).

  Definition F1 := remove dn F.
  Definition F2 := insert (under ty dn) (desc11 k row) F1.
  Definition F3 := match fjson k with Some j => move_key j (under ty j) F2 | None => F2 end.

  Lemma in_folder_eq : in_folder k ty row F = rename_feat ty e F3.
  Proof. reflexivity. Qed.

  (* a data file *)
  Lemma lookup_F3_feature x : has_ext e x = true -> lookup x F3 = lookup x F.
  Proof.
    intros H. assert (L2 : lookup x F2 = lookup x F).
    { unfold F2, F1. rewrite lookup_insert_neq, lookup_remove_neq; [reflexivity| |].
      - apply (ext_neq e); [exact H | apply desc_not_feature].
      - apply (ext_neq e); [exact H | rewrite has_ext_under; apply desc_not_feature]. }
    unfold F3. destruct (fjson k) as [j|] eqn:J; [|exact L2].
    rewrite lookup_move_key.
    - assert (x <> under ty j) by (apply (ext_neq e); [exact H | rewrite has_ext_under; apply (json_not_feature k j J)]).
      assert (x <> j) by (apply (ext_neq e); [exact H | apply (json_not_feature k j J)]).
      destruct (lookup j F2); [|exact L2].
      rewrite (neq_eqb _ _ H0), (neq_eqb _ _ H1). exact L2.
    - intros E. symmetry in E. revert E. apply under_neq_noslash. apply (json_no_slash k j J).
  Qed.

  Lemma lookup_in_folder_data x : has_ext e x = true -> lookup (under ty x) (in_folder k ty row F) = lookup x F.
  Proof. intros H. rewrite in_folder_eq, lookup_rename_feat_feature by exact H. apply lookup_F3_feature, H. Qed.

  (* the new descriptor *)
  Lemma lookup_F3_desc : lookup (under ty dn) F3 = Some (desc11 k row).
  Proof.
    assert (L2 : lookup (under ty dn) F2 = Some (desc11 k row)) by (unfold F2; apply lookup_insert_eq).
    unfold F3. destruct (fjson k) as [j|] eqn:J; [|exact L2].
    rewrite lookup_move_key.
    - destruct (lookup j F2); [|exact L2].
      assert (N1 : under ty dn <> under ty j).
      { intros E. apply under_inj in E. symmetry in E. revert E. apply (json_not_desc k j J). }
      assert (N2 : under ty dn <> j) by (apply under_neq_noslash, (json_no_slash k j J)).
      rewrite (neq_eqb _ _ N1), (neq_eqb _ _ N2). exact L2.
    - intros E. symmetry in E. revert E. apply under_neq_noslash. apply (json_no_slash k j J).
  Qed.

  Lemma lookup_in_folder_desc : lookup (under ty dn) (in_folder k ty row F) = Some (desc11 k row).
  Proof.
    rewrite in_folder_eq, lookup_rename_feat_other; [apply lookup_F3_desc|].
    rewrite has_ext_under. apply desc_not_feature.
  Qed.

  (* files that are neither data files nor the descriptor nor the side file stay where they are *)
  Lemma lookup_in_folder_other x :
    has_ext e x = false -> x <> dn -> x <> under ty dn ->
    (forall j, fjson k = Some j -> x <> j /\ x <> under ty j) ->
    lookup x (in_folder k ty row F) = lookup x F.
  Proof.
    intros H N1 N2 NJ. rewrite in_folder_eq, lookup_rename_feat_other by exact H.
    assert (L2 : lookup x F2 = lookup x F).
    { unfold F2, F1. rewrite lookup_insert_neq, lookup_remove_neq; auto. }
    unfold F3. destruct (fjson k) as [j|] eqn:J; [|exact L2].
    destruct (NJ j eq_refl) as [A B].
    rewrite lookup_move_key.
    - destruct (lookup j F2); [|exact L2]. rewrite (neq_eqb _ _ A), (neq_eqb _ _ B). exact L2.
    - intros E. symmetry in E. revert E. apply under_neq_noslash. apply (json_no_slash k j J).
  Qed.

  (* the side json file follows *)
  Lemma lookup_in_folder_json j c :
    fjson k = Some j -> lookup j F = Some c -> lookup (under ty j) (in_folder k ty row F) = Some c.
  Proof.
    intros J E. rewrite in_folder_eq, lookup_rename_feat_other.
    2:{ rewrite has_ext_under. apply (json_not_feature k j J). }
    unfold F3. rewrite J.
    assert (NE : j <> under ty j) by (intros E'; symmetry in E'; revert E'; apply under_neq_noslash, (json_no_slash k j J)).
    rewrite lookup_move_key by exact NE.
    assert (L2 : lookup j F2 = lookup j F).
    { unfold F2, F1. rewrite lookup_insert_neq, lookup_remove_neq; [reflexivity | apply (json_not_desc k j J)|].
      intros E'. symmetry in E'. revert E'. apply under_neq_noslash, (json_no_slash k j J). }
    rewrite L2, E, eqb_refl. reflexivity.
  Qed.
End OneFolder.

(* ---- the types found in an upgraded folder *)
Lemma dedup_const (t : string) (l : list string) : (forall x, In x l -> x = t) -> l <> [] -> dedup l = [t].
Proof.
  intros A N. pose proof (dedup_NoDup l) as ND. pose proof (dedup_In l) as DI.
  destruct (dedup l) as [|a [|b r]] eqn:E.
  - destruct l as [|x l]; [contradiction|]. exfalso. apply (proj2 (DI x)). left; reflexivity.
  - f_equal. apply A, DI. left; reflexivity.
  - exfalso. assert (a = t) by (apply A, DI; left; reflexivity). assert (b = t) by (apply A, DI; right; left; reflexivity).
    subst. inversion ND; subst. apply H1. left; reflexivity.
Qed.

Definition tsel (k : fkind) (pc : string * content) : list string :=
  match cut_slash (fst pc) with
  | Some (c, r) => if eqb r (descname k) then [c] else []
  | None => []
  end.

Lemma ftypes_eq k G : ftypes k G = dedup (flat_map (tsel k) G).
Proof. reflexivity. Qed.

Lemma ftypes_single k ty (G : folder) :
  (forall q c, In q (keys G) -> cut_slash q = Some (c, descname k) -> c = ty) ->
  In (under ty (descname k)) (keys G) -> has_char "/" ty = false ->
  ftypes k G = [ty].
Proof.
  intros A I S. rewrite ftypes_eq. apply dedup_const.
  - intros x Hx. apply in_flat_map in Hx as [[q c] [Hq Hs]]. unfold tsel in Hs. cbn [fst] in Hs.
    destruct (cut_slash q) as [[c' r]|] eqn:E; [|contradiction].
    destruct (eqb_spec r (descname k)) as [->|]; [|contradiction]. destruct Hs as [<-|[]].
    apply (A q c'); [|exact E]. unfold keys. apply in_map_iff. exists (q, c). auto.
  - intros E. unfold keys in I. apply in_map_iff in I as [[q c] [Hq Hin]]. cbn in Hq. subst q.
    assert (In ty (flat_map (tsel k) G)).
    { apply in_flat_map. exists (under ty (descname k), c). split; [exact Hin|]. unfold tsel. cbn [fst].
      rewrite (cut_slash_under _ _ S), eqb_refl. left; reflexivity. }
    rewrite E in H. contradiction.
Qed.

(* hypothesis on a 1.0 feature folder: no file sits where a 1.1 descriptor file would be looked for *)
Definition no_descriptor_below (k : fkind) (F : folder) : Prop :=
  forall p c, In p (keys F) -> cut_slash p <> Some (c, descname k).

Lemma keys_in_folder k ty row F q :
  In q (keys (in_folder k ty row F)) ->
  exists p, q = rn ty (fext k) p /\
            (In p (keys F) \/ p = under ty (descname k) \/ exists j, fjson k = Some j /\ p = under ty j).
Proof.
  rewrite in_folder_eq, keys_rename_feat, in_map_iff. intros [p [<- Hp]]. exists p. split; [reflexivity|].
  assert (K2 : forall x, In x (keys (F2 k ty row F)) -> In x (keys F) \/ x = under ty (descname k)).
  { intros x Hx. unfold F2 in Hx. apply In_keys_insert in Hx as [->|Hx]; [auto|]. unfold F1 in Hx.
    apply In_keys_remove in Hx as [_ Hx]. auto. }
  unfold F3 in Hp. destruct (fjson k) as [j|] eqn:J.
  - apply In_keys_move_key in Hp as [->|[[_ Hp]|[_ Hp]]].
    + right; right. exists j. auto.
    + destruct (K2 _ Hp); auto.
    + destruct (K2 _ Hp); auto.
  - destruct (K2 _ Hp); auto.
Qed.

Lemma ftypes_in_folder k ty row F :
  no_descriptor_below k F -> has_char "/" ty = false -> ftypes k (in_folder k ty row F) = [ty].
Proof.
  intros ND S. apply ftypes_single; [|apply lookup_In_keys; rewrite lookup_in_folder_desc; discriminate|exact S].
  intros q c Hq Hc. apply keys_in_folder in Hq as [p [-> Hp]]. unfold rn in Hc.
  destruct (has_ext (fext k) p) eqn:X.
  - rewrite (cut_slash_under _ _ S) in Hc. congruence.
  - destruct Hp as [Hp|[->|[j [J ->]]]].
    + exfalso. exact (ND p c Hp Hc).
    + rewrite (cut_slash_under _ _ S) in Hc. congruence.
    + rewrite (cut_slash_under _ _ S) in Hc. congruence.
Qed.

Lemma keys_cp_folder k ty row F :
  keys (cp_folder k ty row F) = under ty (descname k) :: map (under ty) (List.filter (has_ext (fext k)) (keys F)).
Proof.
  unfold cp_folder, feat_files_cp. cbn [keys map fst]. f_equal.
  change (map fst (map (fun pc => (under ty (fst pc), snd pc)) (List.filter (fun pc => has_ext (fext k) (fst pc)) F)))
    with (keys (map (fun pc => (under ty (fst pc), snd pc)) (List.filter (fun pc => has_ext (fext k) (fst pc)) F))).
  rewrite keys_map, keys_filter. reflexivity.
Qed.

Lemma ftypes_cp_folder k ty row F : has_char "/" ty = false -> ftypes k (cp_folder k ty row F) = [ty].
Proof.
  intros S. apply ftypes_single; [|rewrite keys_cp_folder; left; reflexivity|exact S].
  intros q c Hq Hc. rewrite keys_cp_folder in Hq. destruct Hq as [<-|Hq].
  - rewrite (cut_slash_under _ _ S) in Hc. congruence.
  - apply in_map_iff in Hq as [p [<- _]]. rewrite (cut_slash_under _ _ S) in Hc. congruence.
Qed.

Lemma lookup_cp_folder_desc k ty row F : lookup (under ty (descname k)) (cp_folder k ty row F) = Some (desc11 k row).
Proof. unfold cp_folder. cbn [lookup]. rewrite eqb_refl. reflexivity. Qed.

Lemma lookup_cp_folder_data k ty row F x :
  has_ext (fext k) x = true -> lookup (under ty x) (cp_folder k ty row F) = lookup x F.
Proof.
  intros H. unfold cp_folder. cbn [lookup].
  assert (N : under ty x <> under ty (descname k)).
  { intros E. apply under_inj in E. subst x. rewrite desc_not_feature in H. discriminate. }
  rewrite (neq_eqb _ _ N). unfold feat_files_cp.
  rewrite (lookup_map_inj (under ty)); [|intros p _ E; apply under_inj in E; exact E].
  rewrite lookup_filter_keys, H. reflexivity.
Qed.

(* nothing but data files and the descriptor lands in the copy *)
Lemma lookup_cp_folder_only k ty row F q c :
  lookup q (cp_folder k ty row F) = Some c ->
  (q = under ty (descname k) /\ c = desc11 k row) \/
  (exists x, q = under ty x /\ has_ext (fext k) x = true /\ lookup x F = Some c).
Proof.
  unfold cp_folder. cbn [lookup]. destruct (eqb_spec q (under ty (descname k))) as [->|N].
  - intros [= <-]. left; auto.
  - intros H. right. assert (I : In q (keys (feat_files_cp ty (fext k) F))) by (apply lookup_In_keys; rewrite H; discriminate).
    unfold feat_files_cp in I. rewrite keys_map, keys_filter in I. apply in_map_iff in I as [x [<- Hx]].
    apply filter_In in Hx as [_ Hx]. exists x. split; [reflexivity|]. split; [exact Hx|].
    unfold feat_files_cp in H. rewrite (lookup_map_inj (under ty)) in H; [|intros p _ E; apply under_inj in E; exact E].
    rewrite lookup_filter_keys, Hx in H. exact H.
Qed.

(* ---- the written descriptor reads back as the row that was written *)
Lemma dtype_norm_fix d : memb d dtype_names = true -> dtype_norm d = Some d.
Proof.
  intros M. apply memb_In in M. cbn in M.
  repeat (destruct M as [<-|M]; [vm_compute; reflexivity|]). contradiction.
Qed.

Lemma dtype_norm_in s d : dtype_norm s = Some d -> memb d dtype_names = true.
Proof.
  unfold dtype_norm. set (b := if prefixb "np." s then drop 3 s else if prefixb "numpy." s then drop 6 s else s).
  destruct (memb b dtype_names) eqn:M; [intros [= <-]; exact M | discriminate].
Qed.

Lemma clean_dtype d : memb d dtype_names = true -> clean d = true.
Proof.
  intros M. apply memb_In in M. cbn in M.
  repeat (destruct M as [<-|M]; [vm_compute; reflexivity|]). contradiction.
Qed.

Definition good_row (k : fkind) (d : desc10) (kt : string) (a : args) : Prop :=
  clean (d_name d) = true /\ not_hash (d_name d) = true /\ memb (d_dtype d) dtype_names = true /\
  match k with KP => True | DS => clean kt = true /\ clean (a_dm a) = true | GF => clean (a_gm a) = true end.

Lemma config11_written k d kt a :
  good_row k d kt a ->
  match desc11 k (new_row k d kt a) with Txt segs => config11 k segs | Bin _ => None end = Some (new_row k d kt a).
Proof.
  intros [Cn [Hn [Md Cx]]]. unfold desc11.
  assert (R : rows [format_11; fhdr k; join ", " (new_row k d kt a); EmptyString] = [new_row k d kt a]).
  { rewrite (rows_cons_none _ _ row_format_11), (rows_cons_none _ _ (row_fhdr k)).
    rewrite (rows_cons_some _ (new_row k d kt a)); [rewrite (rows_cons_none _ _ row_empty); reflexivity|].
    apply row_of_line_join.
    - destruct k; cbn [new_row forallb]; rewrite Cn, (clean_dtype _ Md), clean_show; cbn [andb]; try reflexivity.
      + destruct Cx as [A B]. rewrite A, B. reflexivity.
      + rewrite Cx. reflexivity.
    - destruct k; cbn; lia.
    - destruct k; exact Hn. }
  unfold config11. rewrite R.
  destruct k; cbn [new_row List.length ncols Nat.eqb nth skipn]; rewrite parse_show, (dtype_norm_fix _ Md); reflexivity.
Qed.

(* the images whose data file is found under a prefix *)
Lemma data_of_ext imgs pfx pfx' e (G G' : folder) :
  (forall i, In i imgs -> lookup (pfx +++ i +++ e) G = lookup (pfx' +++ i +++ e) G') ->
  data_of imgs pfx e G = data_of imgs pfx' e G'.
Proof.
  intros H. unfold data_of. induction imgs as [|i l IH]; [reflexivity|]. cbn [flat_map].
  rewrite (H i (or_introl eq_refl)), IH; [reflexivity|]. intros j Hj. apply H. right; exact Hj.
Qed.

Definition images_ok (e : string) (imgs : list string) : Prop :=
  forall i, In i imgs -> has_ext e (i +++ e) = true.

Lemma feat_view11_upgraded k ty d kt a imgs F (G : folder) :
  good_row k d kt a -> images_ok (fext k) imgs -> has_char "/" ty = false ->
  ftypes k G = [ty] ->
  lookup (under ty (descname k)) G = Some (desc11 k (new_row k d kt a)) ->
  (forall x, has_ext (fext k) x = true -> lookup (under ty x) G = lookup x F) ->
  feat_view11 k imgs G = Some [(ty, new_row k d kt a, data_of imgs EmptyString (fext k) F)].
Proof.
  intros GR IO S FT LD LX. unfold feat_view11. rewrite FT. cbn [map_opt]. rewrite LD.
  pose proof (config11_written k d kt a GR) as C. unfold desc11 in *. rewrite C.
  do 3 f_equal. apply data_of_ext. intros i Hi. rewrite app_assoc_s.
  change (ty +++ "/" +++ i +++ fext k) with (under ty (i +++ fext k)). rewrite LX by (apply IO, Hi). reflexivity.
Qed.

(* ================================================================== 6. matches *)
Lemma flat_map_remove {B} (g : string * content -> list B) src (G : folder) :
  (forall c, g (src, c) = []) -> flat_map g (remove src G) = flat_map g G.
Proof.
  intros H. induction G as [|[p c] G IH]; [reflexivity|]. cbn [remove flat_map].
  destruct (eqb_spec src p) as [<-|N]; [rewrite H; exact IH | cbn [flat_map]; rewrite IH; reflexivity].
Qed.

Lemma flat_map_insert {B} (g : string * content -> list B) dst c (G : folder) :
  (forall c, g (dst, c) = []) -> flat_map g (insert dst c G) = flat_map g G.
Proof.
  intros H. induction G as [|[p c'] G IH]; cbn [insert flat_map]; [rewrite H; reflexivity|].
  destruct (eqb_spec dst p) as [<-|N]; cbn [flat_map]; [rewrite !H; reflexivity | rewrite IH; reflexivity].
Qed.

Lemma flat_map_move_key {B} (g : string * content -> list B) src dst (G : folder) :
  (forall c, g (src, c) = []) -> (forall c, g (dst, c) = []) -> flat_map g (move_key src dst G) = flat_map g G.
Proof.
  intros A Bq. unfold move_key. destruct (lookup src G); [|reflexivity].
  rewrite flat_map_insert, flat_map_remove; auto.
Qed.

Lemma pair_of_not_feature rel : has_ext mt_ext rel = false -> pair_of rel = None.
Proof. intros H. unfold pair_of. rewrite H. reflexivity. Qed.

Lemma match_entry_not_feature imgs ty rel c : has_ext mt_ext rel = false -> match_entry imgs ty rel c = [].
Proof. intros H. unfold match_entry. rewrite (pair_of_not_feature _ H). reflexivity. Qed.

Definition g10 (imgs : list string) (ty : string) (pc : string * content) := match_entry imgs ty (fst pc) (snd pc).
Definition g11 (imgs : list string) (pc : string * content) :=
  match cut_slash (fst pc) with Some (ty, rel) => match_entry imgs ty rel (snd pc) | None => [] end.

Lemma mt_view11_eq imgs G : mt_view11 imgs G = flat_map (g11 imgs) G. Proof. reflexivity. Qed.
Lemma mt_view10_eq ty imgs G : mt_view10 ty imgs G = flat_map (g10 imgs ty) G. Proof. reflexivity. Qed.

Lemma g11_not_feature imgs p c : has_ext mt_ext p = false -> g11 imgs (p, c) = [].
Proof.
  intros H. unfold g11. cbn [fst snd]. destruct (cut_slash p) as [[t r]|] eqn:E; [|reflexivity].
  apply match_entry_not_feature. rewrite (cut_slash_has_ext _ _ _ _ E). exact H.
Qed.

Lemma g11_rename imgs ty (G : folder) :
  has_char "/" ty = false ->
  flat_map (g11 imgs) (rename_feat ty mt_ext G) = flat_map (g10 imgs ty) G.
Proof.
  intros S. induction G as [|[p c] G IH]; [reflexivity|]. cbn [rename_feat map flat_map fst snd]. f_equal; [|exact IH].
  destruct (has_ext mt_ext p) eqn:X.
  - unfold g11. cbn [fst snd]. rewrite (cut_slash_under _ _ S). reflexivity.
  - rewrite (g11_not_feature _ _ _ X). unfold g10. cbn [fst snd]. symmetry. apply match_entry_not_feature, X.
Qed.

Lemma mt_view_inplace imgs ty (G : folder) :
  has_char "/" ty = false ->
  mt_view11 imgs (rename_feat ty mt_ext (move_key mt_json (under ty mt_json) G)) = mt_view10 ty imgs G.
Proof.
  intros S. rewrite mt_view11_eq, (g11_rename _ _ _ S), mt_view10_eq. apply flat_map_move_key.
  - intros c. apply match_entry_not_feature, mt_json_not_feature.
  - intros c. apply match_entry_not_feature. unfold g10. cbn [fst]. rewrite has_ext_under. apply mt_json_not_feature.
Qed.

Lemma mt_view_copy imgs ty (G : folder) :
  has_char "/" ty = false ->
  mt_view11 imgs (feat_files_cp ty mt_ext G) = mt_view10 ty imgs G.
Proof.
  intros S. rewrite mt_view11_eq, mt_view10_eq. unfold feat_files_cp.
  induction G as [|[p c] G IH]; [reflexivity|]. cbn [List.filter fst].
  destruct (has_ext mt_ext p) eqn:X; cbn [map flat_map fst snd].
  - rewrite IH. f_equal. unfold g11. cbn [fst snd]. rewrite (cut_slash_under _ _ S). reflexivity.
  - rewrite IH. unfold g10 at 2. cbn [fst snd]. rewrite (match_entry_not_feature _ _ _ _ X). reflexivity.
Qed.

(* ================================================================== 7. observations *)
Definition flat_pairs (ps : list (string * Z)) : list string := flat_map (fun ik => [fst ik; show_Z (snd ik)]) ps.
Definition obs_row11 (ty : string) (e : Z * list (string * Z)) : list string := show_Z (fst e) :: ty :: flat_pairs (snd e).

Lemma obs_line_eq ty e : obs_line ty e = join ", " (obs_row11 ty e).
Proof. reflexivity. Qed.

Definition images_clean (L : obs_map) : Prop := forall e ik, In e L -> In ik (snd e) -> clean (fst ik) = true.

Lemma not_hash_show z : not_hash (show_Z z) = true.
Proof.
  pose proof (dec_chars_show z) as D. pose proof (show_nonempty z) as N. unfold not_hash.
  destruct (show_Z z) as [|c r]; [contradiction|]. rewrite prefixb_hash_cons. cbn in D. apply andb_true_iff in D as [D _].
  destruct (Ascii.eqb_spec "#" c) as [<-|]; [discriminate | reflexivity].
Qed.

Lemma clean_flat_pairs ps : (forall ik, In ik ps -> clean (fst ik) = true) -> forallb clean (flat_pairs ps) = true.
Proof.
  induction ps as [|[i z] ps IH]; [reflexivity|]. intros H. cbn [flat_pairs flat_map app forallb fst snd].
  pose proof (H (i, z) (or_introl eq_refl)) as Hi. cbn [fst] in Hi. rewrite Hi, clean_show. cbn [andb]. apply IH. intros x Hx. apply H. right; exact Hx.
Qed.

Lemma row_of_obs_line ty e :
  clean ty = true -> (forall ik, In ik (snd e) -> clean (fst ik) = true) ->
  row_of_line (obs_line ty e) = Some (obs_row11 ty e).
Proof.
  intros Ct Ci. rewrite obs_line_eq. apply row_of_line_join.
  - unfold obs_row11. cbn [forallb]. rewrite clean_show, Ct. cbn [andb]. apply clean_flat_pairs, Ci.
  - cbn. lia.
  - apply not_hash_show.
Qed.

Lemma rows_obs_lines ty L :
  clean ty = true -> images_clean L -> rows (map (obs_line ty) L) = map (obs_row11 ty) L.
Proof.
  intros Ct Ci. induction L as [|e L IH]; [reflexivity|]. cbn [map].
  rewrite (rows_cons_some _ (obs_row11 ty e)).
  - rewrite IH; [reflexivity|]. intros x ik Hx. apply Ci. right; exact Hx.
  - apply row_of_obs_line; [exact Ct|]. intros ik. apply Ci. left; reflexivity.
Qed.

Lemma rows_obs_file11 ty m :
  clean ty = true -> images_clean (sortZ m) ->
  match obs_file11 ty m with Txt segs => rows segs | Bin _ => [] end = map (obs_row11 ty) (sortZ m).
Proof.
  intros Ct Ci. unfold obs_file11. cbn [app].
  rewrite (rows_cons_none _ _ row_format_11), (rows_cons_none _ _ row_obs_hdr), rows_app, (rows_obs_lines _ _ Ct Ci).
  rewrite (rows_cons_none _ _ row_empty). cbn. apply app_nil_r.
Qed.

Lemma version_obs_file11 ty m :
  match obs_file11 ty m with Txt segs => version_of_file segs | Bin _ => None end = Some version_11.
Proof. exact version_format_11. Qed.

Lemma pair_up_f_flat keep ps : pair_up_f keep (flat_pairs ps) = Some (List.filter (fun ik => keep (fst ik)) ps).
Proof.
  induction ps as [|[i z] ps IH]; [reflexivity|]. cbn [flat_pairs flat_map app fst snd pair_up_f List.filter].
  fold (flat_pairs ps). destruct (keep i); [rewrite parse_show, IH; reflexivity | exact IH].
Qed.

Lemma length_flat_pairs ps : ps <> [] -> (1 <? List.length (flat_pairs ps))%nat = true.
Proof. destruct ps as [|[i z] ps]; [contradiction|]. intros _. reflexivity. Qed.

Lemma insert_fresh {K V} `{EqDec K} (k : K) (v : V) (m : list (K * V)) : lookup k m = None -> insert k v m = m ++ [(k, v)].
Proof.
  induction m as [|[k' v'] m IH]; cbn; [reflexivity|]. destruct (eqb k k'); [discriminate|]. intros E. rewrite IH; auto.
Qed.

Definition obs_sel (ty : string) (keep : string -> bool) (e : Z * list (string * Z)) : list (obs_key * list (string * Z)) :=
  match List.filter (fun ik => keep (fst ik)) (snd e) with
  | [] => []
  | ps => [((fst e, ty), ps)]
  end.

Lemma lookup_app_none {K V} `{EqDec K} (k : K) (a b : list (K * V)) :
  lookup k a = None -> lookup k b = None -> lookup k (a ++ b) = None.
Proof. induction a as [|[k' v'] a IH]; cbn; [auto|]. destruct (eqb k k'); [discriminate | auto]. Qed.

Lemma obs_collect11_written imgs_of ty i0 ims (L : obs_map) :
  imgs_of ty = i0 :: ims ->
  (forall e, In e L -> snd e <> []) -> NoDup (map fst L) ->
  forall acc, (forall e, In e L -> lookup (fst e, ty) acc = None) ->
  obs_collect11 imgs_of (map (obs_row11 ty) L) acc
  = Some (acc ++ flat_map (obs_sel ty (fun i => memb i (i0 :: ims))) L).
Proof.
  intros I NE. induction L as [|e L IH]; intros ND acc Fr.
  - cbn. rewrite app_nil_r. reflexivity.
  - inversion ND as [|? ? Nn NDL]; subst. cbn [map obs_collect11 obs_row11]. rewrite I, parse_show.
    rewrite (length_flat_pairs _ (NE e (or_introl eq_refl))), pair_up_f_flat.
    cbn [flat_map]. unfold obs_sel at 1.
    assert (NE' : forall x, In x L -> snd x <> []) by (intros x Hx; apply NE; right; exact Hx).
    destruct (List.filter (fun ik => memb (fst ik) (i0 :: ims)) (snd e)) as [|q ps] eqn:Fl.
    + cbn [app]. apply IH; [exact NE' | exact NDL|]. intros x Hx. apply Fr. right; exact Hx.
    + unfold append_at. rewrite (Fr e (or_introl eq_refl)), (insert_fresh _ _ _ (Fr e (or_introl eq_refl))).
      rewrite IH; [rewrite <- app_assoc; reflexivity | exact NE' | exact NDL |].
      intros x Hx. apply lookup_app_none; [apply Fr; right; exact Hx|]. cbn [lookup].
      assert (Nx : (fst x, ty) <> (fst e, ty)).
      { intros [= E]. apply Nn. rewrite <- E. apply in_map. exact Hx. }
      rewrite (neq_eqb _ _ Nx). reflexivity.
Qed.

Lemma obs_collect11_written_empty imgs_of ty (L : obs_map) acc :
  imgs_of ty = [] -> obs_collect11 imgs_of (map (obs_row11 ty) L) acc = Some acc.
Proof.
  intros I. induction L as [|e L IH]; [reflexivity|]. cbn [map obs_collect11 obs_row11]. rewrite I. exact IH.
Qed.

(* invariants of the collected observations *)
Definition obs_inv (m : obs_map) : Prop := NoDup (map fst m) /\ forall e, In e m -> snd e <> [].

Lemma lookup_In_some {V} (k : Z) (v : V) (m : list (Z * V)) : lookup k m = Some v -> In (k, v) m.
Proof.
  induction m as [|[k' v'] m IH]; cbn; [discriminate|]. destruct (eqb_spec k k') as [->|N]; [intros [= ->]; auto | auto].
Qed.

Lemma In_insert {V} (k : Z) (v : V) (m : list (Z * V)) e : In e (insert k v m) -> e = (k, v) \/ In e m.
Proof.
  induction m as [|[k' v'] m IH]; cbn; [intros [<-|[]]; auto|].
  destruct (eqb_spec k k') as [->|N]; cbn; intros [<-|H]; auto. destruct (IH H); auto.
Qed.

Lemma obs_inv_append z ps m : obs_inv m -> ps <> [] -> obs_inv (append_at z ps m).
Proof.
  intros [ND NE] P. unfold append_at. split.
  - destruct (lookup z m); apply (wf_insert (V := list (string * Z))); exact ND.
  - intros e He. destruct (lookup z m) as [l|] eqn:E; apply In_insert in He as [->|He]; cbn; auto.
    destruct l; cbn; [exact P | discriminate].
Qed.

Lemma obs_collect_inv rs : forall m m', obs_inv m -> obs_collect rs m = Some m' -> obs_inv m'.
Proof.
  induction rs as [|r rs IH]; intros m m' I; cbn [obs_collect]; [intros [= <-]; exact I|].
  destruct (obs_row10 r) as [[z ps]|]; [|discriminate]. apply IH.
  destruct ps; [exact I | apply obs_inv_append; [exact I | discriminate]].
Qed.

Lemma In_insZ {V} (e x : Z * V) l : In x (insZ e l) <-> x = e \/ In x l.
Proof.
  induction l as [|y l IH]; cbn; [intuition congruence|]. destruct (fst e <=? fst y)%Z; cbn; [intuition congruence|].
  rewrite IH. intuition congruence.
Qed.

Lemma In_sortZ {V} (x : Z * V) l : In x (sortZ l) <-> In x l.
Proof. induction l as [|e l IH]; cbn; [tauto|]. rewrite In_insZ, IH. intuition congruence. Qed.

Lemma NoDup_insZ {V} (e : Z * V) l : NoDup (map fst l) -> ~ In (fst e) (map fst l) -> NoDup (map fst (insZ e l)).
Proof.
  induction l as [|y l IH]; cbn; intros ND N; [constructor; [tauto | constructor]|].
  destruct (fst e <=? fst y)%Z; cbn; [constructor; assumption|].
  inversion ND; subst. constructor.
  - rewrite in_map_iff. intros [x [Ex Hx]]. apply In_insZ in Hx as [->|Hx]; [apply N; left; congruence|].
    apply H1. rewrite <- Ex. apply in_map. exact Hx.
  - apply IH; [assumption|]. intros H. apply N. right; exact H.
Qed.

Lemma obs_inv_sortZ m : obs_inv m -> obs_inv (sortZ m).
Proof.
  intros [ND NE]. split; [|intros e He; apply NE, (proj1 (In_sortZ e m)), He].
  clear NE. induction m as [|e m IH]; [constructor|]. cbn [sortZ]. cbn in ND. inversion ND; subst.
  apply NoDup_insZ; [apply IH; assumption|]. rewrite in_map_iff. intros [x [Ex Hx]]. apply (proj1 (In_sortZ x m)) in Hx.
  apply H1. rewrite <- Ex. apply in_map. exact Hx.
Qed.

Lemma map_flat_map {A B C} (f : B -> C) (g : A -> list B) l : map f (flat_map g l) = flat_map (fun x => map f (g x)) l.
Proof. induction l as [|x l IH]; [reflexivity|]. cbn. rewrite map_app, IH. reflexivity. Qed.

(* what the loader reads from the written observations = the 1.0 observations, merged, filtered, labelled *)
Lemma obs_roundtrip ty kpims rs m :
  clean ty = true -> obs_collect rs [] = Some m -> images_clean (sortZ m) ->
  forall imgs_of, imgs_of ty = kpims ->
  option_map flat_obs
    (obs_collect11 imgs_of (match obs_file11 ty m with Txt segs => rows segs | Bin _ => [] end) [])
  = obs_view10 ty kpims rs.
Proof.
  intros Ct C Ci imgs_of I. rewrite (rows_obs_file11 _ _ Ct Ci). unfold obs_view10. rewrite C.
  assert (Inv : obs_inv (sortZ m)).
  { apply obs_inv_sortZ. apply (obs_collect_inv rs [] m); [split; [constructor | intros e []] | exact C]. }
  destruct kpims as [|i0 ims].
  - rewrite (obs_collect11_written_empty _ _ _ _ I). cbn [option_map flat_obs map]. f_equal.
    assert (Z0 : forall l : list (string * Z), List.filter (fun ik => memb (fst ik) []) l = []).
    { induction l as [|x l IHl]; [reflexivity | exact IHl]. }
    generalize (sortZ m). intros L0. induction L0 as [|e L0 IH0]; [reflexivity|]. cbn [flat_map]. rewrite <- IH0, Z0. reflexivity.
  - destruct Inv as [ND NE].
    pose proof (obs_collect11_written imgs_of ty i0 ims (sortZ m) I NE ND [] (fun _ _ => eq_refl)) as Q.
    cbn [app] in Q. unfold obs_key in *. rewrite Q. cbn [option_map]. f_equal. unfold flat_obs. rewrite map_flat_map. apply flat_map_ext. intros e.
    unfold obs_sel. destruct (List.filter (fun ik => memb (fst ik) (i0 :: ims)) (snd e)); reflexivity.
Qed.

(* ================================================================== 8. the steps of the in-place route *)
Lemma set_get_folder k t : set_folder k (get_folder k t) t = t.
Proof. destruct t, k; reflexivity. Qed.
Lemma get_set_folder k F t : get_folder k (set_folder k F t) = F.
Proof. destruct k; reflexivity. Qed.
Lemma get_set_folder_other k k' F t : k <> k' -> get_folder k' (set_folder k F t) = get_folder k' t.
Proof. destruct k, k'; try reflexivity; intros N; contradiction. Qed.

Definition tidy_folder (k : fkind) (a : args) (kt : option string) (imgs : option (list string)) (oF : option folder) : Prop :=
  match oF with
  | None => True
  | Some F =>
    no_descriptor_below k F /\
    match lookup (descname k) F with
    | Some (Txt segs) =>
      version_ok_lenient (version_of_file segs) = true /\
      forall d ty, read_old segs = inl d -> resolve_type (explicit k a) (d_name d) = Some ty ->
                   good_row k d (str_or_empty kt) a /\ has_char "/" ty = false /\
                   (forall im, imgs = Some im -> images_ok (fext k) im)
    | _ => True
    end
  end.

Lemma ftypes_none k F : no_descriptor_below k F -> ftypes k F = [].
Proof.
  intros ND. rewrite ftypes_eq. assert (E : flat_map (tsel k) F = []); [|rewrite E; reflexivity].
  assert (H : forall G : folder, (forall p, In p (keys G) -> In p (keys F)) -> flat_map (tsel k) G = []).
  { induction G as [|[p c] G IH]; [reflexivity|]. intros Sub. cbn [flat_map]. rewrite IH by (intros q Hq; apply Sub; right; exact Hq).
    unfold tsel. cbn [fst]. destruct (cut_slash p) as [[c' r]|] eqn:E; [|reflexivity].
    destruct (eqb_spec r (descname k)) as [->|]; [|reflexivity]. exfalso. apply (ND p c'); [apply Sub; left; reflexivity | exact E]. }
  apply H. auto.
Qed.

(* the keypoints type in force after a folder has been handled *)
Definition kt_after (k : fkind) (a : args) (kt : option string) (oF : option folder) : option string :=
  match k with
  | KP => match oF with
          | Some F => match lookup (descname KP) F with
                      | Some (Txt segs) => match read_old segs with
                                           | inl d => resolve_type (a_kt a) (d_name d)
                                           | inr _ => kt
                                           end
                      | _ => kt
                      end
          | None => kt
          end
  | _ => kt
  end.

(* what the in-place route may do to a feature folder: nothing, or the rewrite [in_folder] *)
Definition folder_shape (k : fkind) (oF oF' : option folder) : Prop :=
  oF' = oF \/ exists F ty row, oF = Some F /\ oF' = Some (in_folder k ty row F).
Definition mt_shape (oF oF' : option folder) : Prop :=
  oF' = oF \/ exists F ty, oF = Some F /\ oF' = Some (rename_feat ty mt_ext (move_key mt_json (under ty mt_json) F)).

Lemma feat_step_sound k a t kt imgs fv :
  tidy_folder k a kt imgs (get_folder k t) ->
  opt_folder_view (get_folder k t) imgs (feat_view10 k a kt) = Some fv ->
  exists oF', feat_step_in false a k (t, kt) = Done (set_folder k oF' t, kt_after k a kt (get_folder k t))
              /\ opt_folder_view oF' imgs (feat_view11 k) = Some fv
              /\ folder_shape k (get_folder k t) oF'.
Proof.
  unfold feat_step_in, tidy_folder. destruct (get_folder k t) as [F|] eqn:GF.
  2:{ intros _ H. exists None. rewrite <- GF at 1. rewrite set_get_folder. split; [destruct k; reflexivity|]. split; [exact H | left; reflexivity]. }
  intros [ND T] V. destruct imgs as [im|]; [|discriminate]. cbn [opt_folder_view] in V. unfold feat_view10 in V.
  destruct (lookup (descname k) F) as [[segs|tok]|] eqn:LD.
  - destruct T as [VL T]. rewrite VL. cbn [negb].
    assert (NK : needs_kt false k && is_none kt = false).
    { destruct k; try reflexivity. cbn. destruct kt; [reflexivity | discriminate]. }
    rewrite NK.
    assert (V' : match read_old segs with
                 | inl d => match resolve_type (explicit k a) (d_name d) with
                            | Some ty => Some [(ty, new_row k d (str_or_empty kt) a, data_of im EmptyString (fext k) F)]
                            | None => None
                            end
                 | inr _ => None
                 end = Some fv).
    { destruct k; try exact V. destruct kt; [exact V | discriminate]. }
    clear V. destruct (read_old segs) as [d|err] eqn:RO; [|discriminate].
    destruct (resolve_type (explicit k a) (d_name d)) as [ty|] eqn:RT; [|discriminate].
    injection V' as <-. destruct (T d ty eq_refl RT) as [GR [S IO]].
    exists (Some (in_folder k ty (new_row k d (str_or_empty kt) a) F)). split; [|split; [|right; eauto]].
    + assert (KA : kt_after k a kt (Some F) = match k with KP => Some ty | _ => kt end).
      { destruct k; cbn [kt_after]; try reflexivity. rewrite LD, RO. exact RT. }
      rewrite KA. reflexivity.
    + cbn [opt_folder_view]. apply (feat_view11_upgraded k ty d (str_or_empty kt) a im F); auto.
      * apply ftypes_in_folder; assumption.
      * apply lookup_in_folder_desc.
      * intros x Hx. apply lookup_in_folder_data, Hx.
  - injection V as <-. exists (Some F). rewrite <- GF at 1. rewrite set_get_folder. split; [|split; [|left; reflexivity]].
    + assert (KA : kt_after k a kt (Some F) = kt).
      { destruct k; cbn [kt_after]; try reflexivity. rewrite LD. reflexivity. }
      rewrite KA. reflexivity.
    + cbn [opt_folder_view]. unfold feat_view11. rewrite (ftypes_none _ _ ND). reflexivity.
  - injection V as <-. exists (Some F). rewrite <- GF at 1. rewrite set_get_folder. split; [|split; [|left; reflexivity]].
    + assert (KA : kt_after k a kt (Some F) = kt).
      { destruct k; cbn [kt_after]; try reflexivity. rewrite LD. reflexivity. }
      rewrite KA. reflexivity.
    + cbn [opt_folder_view]. unfold feat_view11. rewrite (ftypes_none _ _ ND). reflexivity.
Qed.

Lemma mt_step_sound t kt imgs mv :
  (forall ty, kt = Some ty -> has_char "/" ty = false) ->
  opt_folder_view (t_mt t) imgs (fun im F => match kt with Some ty => Some (mt_view10 ty im F) | None => None end) = Some mv ->
  exists oF', mt_step_in false (t, kt) = Done (set_mt oF' t, kt)
              /\ opt_folder_view oF' imgs (fun im F => Some (mt_view11 im F)) = Some mv
              /\ mt_shape (t_mt t) oF'.
Proof.
  intros S V. unfold mt_step_in. destruct (t_mt t) as [F|] eqn:M.
  - destruct imgs as [im|]; [|discriminate]. cbn [opt_folder_view] in V. destruct kt as [ty|]; [|discriminate].
    injection V as <-. eexists. split; [reflexivity|]. split; [|right; exists F, ty; split; reflexivity].
    cbn [opt_folder_view]. unfold mover. f_equal.
    apply mt_view_inplace. apply (S ty eq_refl).
  - exists None. split; [|split; [exact V | left; reflexivity]]. f_equal. f_equal. destruct t; cbn in *. subst. reflexivity.
Qed.

Lemma kt_after_kp a t imgs kpv :
  opt_folder_view (t_kp t) imgs (feat_view10 KP a (a_kt a)) = Some kpv ->
  kt_after KP a (a_kt a) (t_kp t) = kt_for a t.
Proof.
  unfold kt_for, kt_after, type_for. destruct (t_kp t) as [F|]; [|reflexivity].
  destruct imgs as [im|]; [|discriminate]. cbn [opt_folder_view]. unfold feat_view10.
  destruct (lookup (descname KP) F) as [[segs|tok]|]; try reflexivity.
  destruct (read_old segs); [reflexivity | discriminate].
Qed.

(* what the in-place route needs from a 1.0 tree beyond being loadable *)
Record tidy10 (a : args) (t : tree) : Prop := {
  td_versions : versions_lenient csv_1_0 (t_top t);
  td_headers : headers_are_comments csv_1_0 (t_top t);
  td_kp : tidy_folder KP a (a_kt a) (images_of (t_top t)) (t_kp t);
  td_ds : tidy_folder DS a (kt_for a t) (images_of (t_top t)) (t_ds t);
  td_gf : tidy_folder GF a (kt_for a t) (images_of (t_top t)) (t_gf t);
  td_kt : forall ty, kt_for a t = Some ty -> has_char "/" ty = false /\ clean ty = true;
  td_obs : forall segs, lookup obs_file (t_top t) = Some (Txt segs) ->
           version_ok_lenient (version_of_file segs) = true /\
           forall m, obs_collect (rows segs) [] = Some m -> images_clean (sortZ m)
}.

Lemma kp_images_single ty cfg data : kp_images [(ty, cfg, data)] ty = map fst data.
Proof. unfold kp_images. cbn. rewrite eqb_refl. reflexivity. Qed.

Lemma images_of_ext top top' :
  table_rows top' records_camera_file = table_rows top records_camera_file -> images_of top' = images_of top.
Proof. unfold images_of. intros ->. reflexivity. Qed.

Theorem inplace_preserves a t v :
  tidy10 a t -> load10 a t = Some v ->
  exists st, upgrade_inplace a t = Done st /\ load11 (fst st) = Some v /\
    (* frame *)
    t_rd (fst st) = t_rd t /\
    (forall n, memb n csv_1_0 = false -> n <> obs_file -> lookup n (t_top (fst st)) = lookup n (t_top t)) /\
    (forall k, folder_shape k (get_folder k t) (get_folder k (fst st))) /\
    mt_shape (t_mt t) (t_mt (fst st)) /\
    (* the text tables: same lines, new version line *)
    (forall n, memb n csv_1_0 = true -> lookup n (t_top (fst st)) = rewritten csv_1_0 (t_top t) n).
Proof.
  intros [TV TH TK TD TG TKT TO] L10. unfold load10 in L10.
  destruct (lookup sensors_file (t_top t)) as [[ssegs|?]|] eqn:LS; try discriminate.
  destruct (version_ok_lenient (version_of_file ssegs)) eqn:VS; [|discriminate]. cbn [negb] in L10.
  set (imgs := images_of (t_top t)) in *. set (kt := kt_for a t) in *.
  destruct (opt_folder_view (t_kp t) imgs (feat_view10 KP a (a_kt a))) as [kpv|] eqn:VK; [|discriminate].
  destruct (opt_folder_view (t_ds t) imgs (feat_view10 DS a kt)) as [dsv|] eqn:VD; [|discriminate].
  destruct (opt_folder_view (t_gf t) imgs (feat_view10 GF a kt)) as [gfv|] eqn:VG; [|discriminate].
  destruct (opt_folder_view (t_mt t) imgs (fun im F => match kt with Some ty => Some (mt_view10 ty im F) | None => None end))
    as [mtv|] eqn:VM; [|discriminate].
  (* text tables *)
  destruct (csv_step_in_done csv_1_0 (t_top t) csv_1_0_nodup TV) as [top' [CS [LT KT]]].
  assert (TR : forall n, table_rows top' n = table_rows (t_top t) n) by (intro n; apply (table_rows_rewritten csv_1_0); assumption).
  assert (LO : lookup obs_file top' = lookup obs_file (t_top t)) by (rewrite LT; unfold rewritten; rewrite obs_not_csv; reflexivity).
  assert (LS' : lookup sensors_file top' = Some (Txt (rewrite_header ssegs))) by (rewrite LT; unfold rewritten; rewrite sensors_in_csv, LS; reflexivity).
  (* the folders, one after the other *)
  set (t0 := set_top top' t).
  destruct (feat_step_sound KP a t0 (a_kt a) imgs kpv TK VK) as [kp' [SK [VK' HK]]].
  change (get_folder KP t0) with (t_kp t) in SK. rewrite (kt_after_kp a t imgs kpv VK) in SK. fold kt in SK.
  set (t1 := set_folder KP kp' t0) in *.
  destruct (feat_step_sound DS a t1 kt imgs dsv TD VD) as [ds' [SD [VD' HD]]].
  change (kt_after DS a kt (get_folder DS t1)) with kt in SD.
  set (t2 := set_folder DS ds' t1) in *.
  destruct (mt_step_sound t2 kt imgs mtv (fun ty E => proj1 (TKT ty E)) VM) as [mt' [SM [VM' HM]]].
  set (t3 := set_mt mt' t2) in *.
  destruct (feat_step_sound GF a t3 kt imgs gfv TG VG) as [gf' [SG [VG' HG]]].
  change (kt_after GF a kt (get_folder GF t3)) with kt in SG.
  set (t4 := set_folder GF gf' t3) in *.
  assert (Steps : upgrade_inplace a t = obs_step_in (t4, kt)).
  { unfold upgrade_inplace, upgrade_inplace_gen. rewrite CS. fold t0. rewrite SK. cbn [bind]. rewrite SD. cbn [bind].
    rewrite SM. cbn [bind]. rewrite SG. cbn [bind]. reflexivity. }
  assert (TOP4 : t_top t4 = top') by reflexivity.
  assert (IM : forall topf, (forall n, n <> obs_file -> lookup n topf = lookup n top') -> images_of topf = imgs).
  { intros topf E. apply images_of_ext. unfold table_rows at 1. rewrite (E _ records_camera_not_obs). apply TR. }
  assert (TB : forall topf, (forall n, n <> obs_file -> lookup n topf = lookup n top') -> tables_view topf = tables_view (t_top t)).
  { intros topf E. apply tables_view_ext. intros n N. unfold table_rows at 1. rewrite (E n N). apply TR. }
  assert (FRT : forall n, memb n csv_1_0 = false -> lookup n top' = lookup n (t_top t)).
  { intros n M. rewrite LT. unfold rewritten. rewrite M. reflexivity. }
  assert (FRF : forall k, folder_shape k (get_folder k t) (get_folder k t4)).
  { intros k. destruct k; [exact HK | exact HD | exact HG]. }
  assert (FRM : mt_shape (t_mt t) (t_mt t4)) by exact HM.
  rewrite Steps. unfold obs_step_in. rewrite TOP4, LO.
  destruct (lookup obs_file (t_top t)) as [[osegs|?]|] eqn:LOB.
  - (* observations present *)
    destruct kpv as [|kpe kpr]; [discriminate|]. destruct (lookup points3d_file (t_top t)) eqn:LP; [|discriminate].
    destruct kt as [ty|] eqn:KTE; [|discriminate]. fold kt in KTE.
    destruct (obs_view10 ty (kp_images (kpe :: kpr) ty) (rows osegs)) as [ov|] eqn:OV; [|discriminate].
    injection L10 as <-.
    destruct (TO osegs eq_refl) as [VO CI]. rewrite VO. cbn [negb].
    unfold obs_view10 in OV. destruct (obs_collect (rows osegs) []) as [m|] eqn:OC; [|discriminate].
    destruct (TKT ty eq_refl) as [Sty Cty].
    eexists. split; [reflexivity|]. cbn [fst].
    set (topf := insert obs_file (obs_file11 ty m) top').
    split; [|split; [reflexivity|split; [|split; [exact FRF | split; [exact FRM|]]]]].
    2:{ intros n M N. change (t_top (set_top topf t4)) with topf. unfold topf. rewrite lookup_insert_neq by exact N. apply FRT, M. }
    2:{ intros n M. change (t_top (set_top topf t4)) with topf. unfold topf. rewrite lookup_insert_neq; [apply LT|].
        intros ->. rewrite obs_not_csv in M. discriminate. }
    assert (E : forall n, n <> obs_file -> lookup n topf = lookup n top') by (intros n N; unfold topf; apply lookup_insert_neq; exact N).
    unfold load11. change (t_top (set_top topf t4)) with topf.
    rewrite (E _ sensors_not_obs), LS', version_rewrite_header, eqb_refl. cbn [negb].
    rewrite (IM topf E).
    change (t_kp (set_top topf t4)) with kp'. change (t_ds (set_top topf t4)) with ds'.
    change (t_gf (set_top topf t4)) with gf'. change (t_mt (set_top topf t4)) with mt'.
    rewrite VK', VD', VG', VM'.
    assert (LOF : lookup obs_file topf = Some (obs_file11 ty m)) by (unfold topf; apply lookup_insert_eq).
    rewrite LOF. unfold obs_file11 at 1.
    rewrite (E _ points3d_not_obs). unfold table_rows in TR.
    assert (LP' : lookup points3d_file top' <> None).
    { rewrite LT. unfold rewritten. destruct (memb points3d_file csv_1_0); rewrite LP; [destruct c|]; discriminate. }
    destruct (lookup points3d_file top'); [|contradiction].
    pose proof (obs_roundtrip ty (kp_images (kpe :: kpr) ty) (rows osegs) m Cty OC (CI m eq_refl) (kp_images (kpe :: kpr)) eq_refl) as RT.
    unfold obs_file11 in RT. unfold obs_view10 in RT. rewrite OC in RT.
    destruct (obs_collect11 (kp_images (kpe :: kpr)) (rows ([format_11; obs_hdr] ++ map (obs_line ty) (sortZ m) ++ [EmptyString])) [])
      as [m11|]; [|discriminate].
    cbn [option_map] in RT. injection RT as RT. rewrite RT, (TB topf E). injection OV as <-. reflexivity.
  - (* a binary file under the name of the observations: left alone by both *)
    injection L10 as <-. eexists. split; [reflexivity|]. cbn [fst].
    split; [|split; [reflexivity|split; [|split; [exact FRF | split; [exact FRM|]]]]].
    2:{ intros n M N. rewrite TOP4. apply FRT, M. }
    2:{ intros n M. rewrite TOP4. apply LT. }
    unfold load11. rewrite TOP4, LS', version_rewrite_header, eqb_refl. cbn [negb].
    rewrite (IM top' (fun n _ => eq_refl)).
    change (t_kp t4) with kp'. change (t_ds t4) with ds'. change (t_gf t4) with gf'. change (t_mt t4) with mt'.
    rewrite VK', VD', VG', VM', LO, (TB top' (fun n _ => eq_refl)). reflexivity.
  - injection L10 as <-. eexists. split; [reflexivity|]. cbn [fst].
    split; [|split; [reflexivity|split; [|split; [exact FRF | split; [exact FRM|]]]]].
    2:{ intros n M N. rewrite TOP4. apply FRT, M. }
    2:{ intros n M. rewrite TOP4. apply LT. }
    unfold load11. rewrite TOP4, LS', version_rewrite_header, eqb_refl. cbn [negb].
    rewrite (IM top' (fun n _ => eq_refl)).
    change (t_kp t4) with kp'. change (t_ds t4) with ds'. change (t_gf t4) with gf'. change (t_mt t4) with mt'.
    rewrite VK', VD', VG', VM', LO, (TB top' (fun n _ => eq_refl)). reflexivity.
Qed.

(* ================================================================== 9. the copy route *)
Definition versions_strict (names : list string) (top : folder) : Prop :=
  forall n segs, In n names -> lookup n top = Some (Txt segs) ->
    (if contains "points3d" n then version_ok_lenient (version_of_file segs) else version_ok_strict (version_of_file segs)) = true.

Definition copied (names : list string) (top : folder) (k : string) : option content :=
  if memb k names then
    match lookup k top with Some (Txt segs) => Some (Txt (rewrite_header segs)) | _ => None end
  else None.

Lemma csv_step_cp_done names top :
  NoDup names -> versions_strict names top ->
  exists topc, csv_step_cp names top = Some topc /\ forall k, lookup k topc = copied names top k.
Proof.
  induction names as [|n ns IH]; intros ND V.
  - exists []. split; reflexivity.
  - inversion ND as [|? ? Nn NDs]; subst. cbn [csv_step_cp].
    assert (Vs : versions_strict ns top) by (intros m s Hm; apply V; right; exact Hm).
    destruct (IH NDs Vs) as [topc [C L]].
    destruct (lookup n top) as [[segs|tok]|] eqn:E.
    + rewrite (V n segs (or_introl eq_refl) E), C. cbn [option_map]. eexists. split; [reflexivity|].
      intros k. cbn [lookup]. unfold copied. cbn [memb]. destruct (eqb_spec k n) as [->|Nk].
      * rewrite E. reflexivity.
      * cbn [orb]. apply L.
    + exists topc. split; [exact C|]. intros k. rewrite L. unfold copied. cbn [memb].
      destruct (eqb_spec k n) as [->|Nk]; [|reflexivity]. apply memb_not_In in Nn. rewrite Nn, E. reflexivity.
    + exists topc. split; [exact C|]. intros k. rewrite L. unfold copied. cbn [memb].
      destruct (eqb_spec k n) as [->|Nk]; [|reflexivity]. apply memb_not_In in Nn. rewrite Nn, E. reflexivity.
Qed.

Lemma tables_view_ext_in top top' :
  (forall n, In n csv_11 -> n <> obs_file -> table_rows top' n = table_rows top n) -> tables_view top' = tables_view top.
Proof.
  intros H. unfold tables_view. induction csv_11 as [|n l IH]; [reflexivity|]. cbn [List.filter].
  destruct (eqb_spec n obs_file) as [->|N]; cbn [negb].
  - apply IH. intros m Hm. apply H. right; exact Hm.
  - cbn [flat_map]. rewrite IH, (H n (or_introl eq_refl) N); [reflexivity|]. intros m Hm. apply H. right; exact Hm.
Qed.

Lemma csv_11_in_1_0 n : In n csv_11 -> n <> obs_file -> memb n csv_1_0 = true.
Proof.
  assert (H : forallb (fun n => eqb n obs_file || memb n csv_1_0) csv_11 = true) by (vm_compute; reflexivity).
  intros I N. rewrite forallb_forall in H. specialize (H n I). rewrite (neq_eqb _ _ N) in H. exact H.
Qed.

Lemma table_rows_copied top topc n :
  headers_are_comments csv_1_0 top -> (forall k, lookup k topc = copied csv_1_0 top k) ->
  memb n csv_1_0 = true -> table_rows topc n = table_rows top n.
Proof.
  intros HC L M. unfold table_rows. rewrite L. unfold copied. rewrite M.
  destruct (lookup n top) as [[segs|tok]|] eqn:E; try reflexivity.
  apply memb_In in M. rewrite (rows_rewrite_header _ (HC n segs M E)). reflexivity.
Qed.

Definition strict_folder (k : fkind) (oF : option folder) : Prop :=
  forall F segs, oF = Some F -> lookup (descname k) F = Some (Txt segs) -> version_ok_strict (version_of_file segs) = true.

Lemma feat_step_cp_sound k a oF kt imgs fv :
  tidy_folder k a kt imgs oF -> strict_folder k oF ->
  opt_folder_view oF imgs (feat_view10 k a kt) = Some fv ->
  exists oF', feat_step_cp false a k oF kt = inl (oF', kt_after k a kt oF)
              /\ opt_folder_view oF' imgs (feat_view11 k) = Some fv.
Proof.
  unfold feat_step_cp, tidy_folder. destruct oF as [F|].
  2:{ intros _ _ H. exists None. split; [destruct k; reflexivity | exact H]. }
  intros [ND T] ST V. destruct imgs as [im|]; [|discriminate]. cbn [opt_folder_view] in V. unfold feat_view10 in V.
  destruct (lookup (descname k) F) as [[segs|tok]|] eqn:LD.
  - destruct T as [_ T]. rewrite (ST F segs eq_refl LD). cbn [negb].
    assert (NK : needs_kt false k && is_none kt = false).
    { destruct k; try reflexivity. cbn. destruct kt; [reflexivity | discriminate]. }
    rewrite NK.
    assert (V' : match read_old segs with
                 | inl d => match resolve_type (explicit k a) (d_name d) with
                            | Some ty => Some [(ty, new_row k d (str_or_empty kt) a, data_of im EmptyString (fext k) F)]
                            | None => None
                            end
                 | inr _ => None
                 end = Some fv).
    { destruct k; try exact V. destruct kt; [exact V | discriminate]. }
    clear V. destruct (read_old segs) as [d|err] eqn:RO; [|discriminate].
    destruct (resolve_type (explicit k a) (d_name d)) as [ty|] eqn:RT; [|discriminate].
    injection V' as <-. destruct (T d ty eq_refl RT) as [GR [S IO]].
    exists (Some (cp_folder k ty (new_row k d (str_or_empty kt) a) F)). split.
    + assert (KA : kt_after k a kt (Some F) = match k with KP => Some ty | _ => kt end).
      { destruct k; cbn [kt_after]; try reflexivity. rewrite LD, RO. exact RT. }
      rewrite KA. reflexivity.
    + cbn [opt_folder_view]. apply (feat_view11_upgraded k ty d (str_or_empty kt) a im F); auto.
      * apply ftypes_cp_folder; assumption.
      * apply lookup_cp_folder_desc.
      * intros x Hx. apply lookup_cp_folder_data, Hx.
  - injection V as <-. exists None. split; [|reflexivity].
    assert (KA : kt_after k a kt (Some F) = kt) by (destruct k; cbn [kt_after]; try reflexivity; rewrite LD; reflexivity).
    rewrite KA. reflexivity.
  - injection V as <-. exists None. split; [|reflexivity].
    assert (KA : kt_after k a kt (Some F) = kt) by (destruct k; cbn [kt_after]; try reflexivity; rewrite LD; reflexivity).
    rewrite KA. reflexivity.
Qed.

Record tidy10_strict (a : args) (t : tree) : Prop := {
  ts_versions : versions_strict csv_1_0 (t_top t);
  ts_kp : strict_folder KP (t_kp t);
  ts_ds : strict_folder DS (t_ds t);
  ts_gf : strict_folder GF (t_gf t);
  ts_obs : forall segs, lookup obs_file (t_top t) = Some (Txt segs) -> version_ok_strict (version_of_file segs) = true;
  (* the files under the names of the text tables are text files (the routes only look at the name) *)
  ts_text : forall n c, In n csv_1_0 -> lookup n (t_top t) = Some c -> exists segs, c = Txt segs
}.

Lemma mt_view_copy_opt imgs ty (F : folder) im :
  has_char "/" ty = false -> imgs = Some im ->
  opt_folder_view (nonempty_folder (feat_files_cp ty mt_ext F)) imgs (fun im F => Some (mt_view11 im F))
  = Some (mt_view10 ty im F).
Proof.
  intros S ->. rewrite <- (mt_view_copy im ty F S). destruct (feat_files_cp ty mt_ext F); reflexivity.
Qed.

Theorem copy_preserves a s t v :
  tidy10 a t -> tidy10_strict a t -> load10 a t = Some v ->
  exists r, upgrade_copy a s t = CDone r /\ load11 (c_out r) = Some v.
Proof.
  intros [TV TH TK TD TG TKT TO] [SV SK SD SG SO STX] L10. unfold load10 in L10.
  destruct (lookup sensors_file (t_top t)) as [[ssegs|?]|] eqn:LS; try discriminate.
  destruct (version_ok_lenient (version_of_file ssegs)) eqn:VS; [|discriminate]. cbn [negb] in L10.
  set (imgs := images_of (t_top t)) in *. set (kt := kt_for a t) in *.
  destruct (opt_folder_view (t_kp t) imgs (feat_view10 KP a (a_kt a))) as [kpv|] eqn:VK; [|discriminate].
  destruct (opt_folder_view (t_ds t) imgs (feat_view10 DS a kt)) as [dsv|] eqn:VD; [|discriminate].
  destruct (opt_folder_view (t_gf t) imgs (feat_view10 GF a kt)) as [gfv|] eqn:VG; [|discriminate].
  destruct (opt_folder_view (t_mt t) imgs (fun im F => match kt with Some ty => Some (mt_view10 ty im F) | None => None end))
    as [mtv|] eqn:VM; [|discriminate].
  destruct (csv_step_cp_done csv_1_0 (t_top t) csv_1_0_nodup SV) as [topc [CS LT]].
  assert (TR : forall n, In n csv_11 -> n <> obs_file -> table_rows topc n = table_rows (t_top t) n).
  { intros n I N. apply table_rows_copied; [exact TH | exact LT | apply csv_11_in_1_0; assumption]. }
  assert (LO : lookup obs_file topc = None) by (rewrite LT; unfold copied; rewrite obs_not_csv; reflexivity).
  assert (LS' : lookup sensors_file topc = Some (Txt (rewrite_header ssegs))) by (rewrite LT; unfold copied; rewrite sensors_in_csv, LS; reflexivity).
  destruct (feat_step_cp_sound KP a (t_kp t) (a_kt a) imgs kpv TK SK VK) as [kp' [EK VK']].
  rewrite (kt_after_kp a t imgs kpv VK) in EK. fold kt in EK.
  destruct (feat_step_cp_sound DS a (t_ds t) kt imgs dsv TD SD VD) as [ds' [ED VD']].
  change (kt_after DS a kt (t_ds t)) with kt in ED.
  destruct (feat_step_cp_sound GF a (t_gf t) kt imgs gfv TG SG VG) as [gf' [EG VG']].
  change (kt_after GF a kt (t_gf t)) with kt in EG.
  (* matches *)
  assert (MT : exists mt', (match t_mt t with
                            | None => inl None
                            | Some F => match kt with None => inr Refused | Some ty => inl (nonempty_folder (feat_files_cp ty mt_ext F)) end
                            end) = inl mt'
                           /\ opt_folder_view mt' imgs (fun im F => Some (mt_view11 im F)) = Some mtv).
  { destruct (t_mt t) as [F|]; [|exists None; split; [reflexivity | exact VM]].
    destruct imgs as [im|] eqn:IE; [|discriminate]. cbn [opt_folder_view] in VM. destruct kt as [ty|] eqn:KE; [|discriminate].
    injection VM as <-. eexists. split; [reflexivity|]. apply mt_view_copy_opt; [apply (TKT ty eq_refl) | reflexivity]. }
  destruct MT as [mt' [EM VM']].
  assert (RD : exists rdo srd, rd_step_cp false s (t_rd t) = inl (rdo, srd)).
  { unfold rd_step_cp. destruct (t_rd t); destruct s; eauto. }
  destruct RD as [rdo [srd ER]].
  assert (IM : forall topf, (forall n, n <> obs_file -> lookup n topf = lookup n topc) -> images_of topf = imgs).
  { intros topf E. apply images_of_ext. unfold table_rows at 1. rewrite (E _ records_camera_not_obs).
    apply (TR records_camera_file); [vm_compute; tauto | apply records_camera_not_obs]. }
  assert (TB : forall topf, (forall n, n <> obs_file -> lookup n topf = lookup n topc) -> tables_view topf = tables_view (t_top t)).
  { intros topf E. apply tables_view_ext_in. intros n I N. unfold table_rows at 1. rewrite (E n N). apply TR; assumption. }
  unfold upgrade_copy, upgrade_copy_gen. rewrite CS, EK, ED, EM, EG.
  destruct (lookup obs_file (t_top t)) as [[osegs|?]|] eqn:LOB.
  - destruct kpv as [|kpe kpr]; [discriminate|]. destruct (lookup points3d_file (t_top t)) eqn:LP; [|discriminate].
    destruct kt as [ty|] eqn:KTE; [|discriminate].
    destruct (obs_view10 ty (kp_images (kpe :: kpr) ty) (rows osegs)) as [ov|] eqn:OV; [|discriminate].
    injection L10 as <-. rewrite (SO osegs eq_refl). cbn [negb].
    destruct (TO osegs eq_refl) as [_ CI].
    unfold obs_view10 in OV. destruct (obs_collect (rows osegs) []) as [m|] eqn:OC; [|discriminate].
    destruct (TKT ty eq_refl) as [Sty Cty]. rewrite ER. eexists. split; [reflexivity|]. cbn [c_out].
    set (topf := topc ++ [(obs_file, obs_file11 ty m)]).
    assert (E : forall n, n <> obs_file -> lookup n topf = lookup n topc).
    { intros n N. unfold topf. rewrite lookup_app. destruct (lookup n topc); [reflexivity|]. cbn [lookup]. rewrite (neq_eqb _ _ N). reflexivity. }
    unfold load11. cbn [t_top t_kp t_ds t_gf t_mt].
    rewrite (E _ sensors_not_obs), LS', version_rewrite_header, eqb_refl. cbn [negb].
    rewrite (IM topf E), VK', VD', VG', VM'.
    assert (LOF : lookup obs_file topf = Some (obs_file11 ty m)).
    { unfold topf. rewrite lookup_app, LO. cbn [lookup]. rewrite eqb_refl. reflexivity. }
    rewrite LOF. unfold obs_file11 at 1. rewrite (E _ points3d_not_obs).
    assert (LP' : lookup points3d_file topc <> None).
    { rewrite LT. unfold copied. assert (memb points3d_file csv_1_0 = true) as -> by (vm_compute; reflexivity).
      rewrite LP. assert (I3 : In points3d_file csv_1_0) by (vm_compute; tauto).
      destruct (STX _ _ I3 LP) as [psegs ->]. discriminate. }
    destruct (lookup points3d_file topc); [|contradiction].
    pose proof (obs_roundtrip ty (kp_images (kpe :: kpr) ty) (rows osegs) m Cty OC (CI m eq_refl) (kp_images (kpe :: kpr)) eq_refl) as RT.
    unfold obs_file11 in RT. unfold obs_view10 in RT. rewrite OC in RT.
    destruct (obs_collect11 (kp_images (kpe :: kpr)) (rows ([format_11; obs_hdr] ++ map (obs_line ty) (sortZ m) ++ [EmptyString])) [])
      as [m11|]; [|discriminate].
    cbn [option_map] in RT. injection RT as RT. rewrite RT, (TB topf E). injection OV as <-. reflexivity.
  - injection L10 as <-. rewrite ER. eexists. split; [reflexivity|]. cbn [c_out].
    unfold load11. cbn [t_top t_kp t_ds t_gf t_mt]. rewrite LS', version_rewrite_header, eqb_refl. cbn [negb].
    rewrite (IM topc (fun n _ => eq_refl)), VK', VD', VG', VM', LO, (TB topc (fun n _ => eq_refl)). reflexivity.
  - injection L10 as <-. rewrite ER. eexists. split; [reflexivity|]. cbn [c_out].
    unfold load11. cbn [t_top t_kp t_ds t_gf t_mt]. rewrite LS', version_rewrite_header, eqb_refl. cbn [negb].
    rewrite (IM topc (fun n _ => eq_refl)), VK', VD', VG', VM', LO, (TB topc (fun n _ => eq_refl)). reflexivity.
Qed.

(* ================================================================== 10. both routes give the same dataset, file by file where it matters *)
Theorem routes_agree a s t v :
  tidy10 a t -> tidy10_strict a t -> load10 a t = Some v ->
  exists st r, upgrade_inplace a t = Done st /\ upgrade_copy a s t = CDone r /\
               load11 (fst st) = Some v /\ load11 (c_out r) = Some v.
Proof.
  intros T S L. destruct (inplace_preserves a t v T L) as [st [E1 [L1 _]]].
  destruct (copy_preserves a s t v T S L) as [r [E2 L2]]. exists st, r. auto.
Qed.

(* every file of the copied folder is in the folder upgraded in place, with the same content *)
Lemma copy_within_inplace k ty row F q c :
  lookup q (cp_folder k ty row F) = Some c -> lookup q (in_folder k ty row F) = Some c.
Proof.
  intros H. apply lookup_cp_folder_only in H as [[-> ->]|[x [-> [X L]]]].
  - apply lookup_in_folder_desc.
  - rewrite lookup_in_folder_data by exact X. exact L.
Qed.

(* ================================================================== 11. the version every written file declares *)
Lemma declares_11_table names top top' n segs :
  (forall k, lookup k top' = rewritten names top k) -> In n names -> lookup n top = Some (Txt segs) ->
  exists segs', lookup n top' = Some (Txt segs') /\ version_of_file segs' = Some version_11.
Proof.
  intros L I E. exists (rewrite_header segs). split; [|apply version_rewrite_header].
  rewrite L. unfold rewritten. apply memb_In in I. rewrite I, E. reflexivity.
Qed.

Lemma declares_11_descriptor k row :
  match desc11 k row with Txt segs => version_of_file segs | Bin _ => None end = Some version_11.
Proof. exact version_format_11. Qed.

(* ================================================================== 12. a tree that is already upgraded is refused untouched *)
Definition all_other_version (top : folder) : Prop :=
  forall n segs, In n csv_1_0 -> lookup n top = Some (Txt segs) -> version_ok_lenient (version_of_file segs) = false.

Theorem inplace_refuses_other_version a t ssegs :
  all_other_version (t_top t) -> lookup sensors_file (t_top t) = Some (Txt ssegs) ->
  upgrade_inplace a t = Failed Refused (t, a_kt a).
Proof.
  intros A S. unfold upgrade_inplace, upgrade_inplace_gen.
  rewrite (csv_step_in_refuses csv_1_0 (t_top t) A).
  - destruct t; reflexivity.
  - exists sensors_file, ssegs. split; [|exact S]. apply memb_In, sensors_in_csv.
Qed.

Lemma csv_step_cp_refuses names top n segs :
  In n names -> lookup n top = Some (Txt segs) ->
  (if contains "points3d" n then version_ok_lenient (version_of_file segs) else version_ok_strict (version_of_file segs)) = false ->
  csv_step_cp names top = None.
Proof.
  induction names as [|m ns IH]; [contradiction|]. intros [->|I] E B; cbn [csv_step_cp].
  - rewrite E, B. reflexivity.
  - destruct (lookup m top) as [[s|?]|]; try (apply IH; assumption).
    destruct (if contains "points3d" m then _ else _); [|reflexivity]. rewrite (IH I E B). reflexivity.
Qed.

Theorem copy_refuses_other_version a s t ssegs :
  lookup sensors_file (t_top t) = Some (Txt ssegs) -> version_ok_strict (version_of_file ssegs) = false ->
  upgrade_copy a s t = CFailed Refused.
Proof.
  intros S B. unfold upgrade_copy, upgrade_copy_gen.
  rewrite (csv_step_cp_refuses csv_1_0 (t_top t) sensors_file ssegs); [reflexivity | apply memb_In, sensors_in_csv | exact S|].
  assert (contains "points3d" sensors_file = false) as -> by (vm_compute; reflexivity). exact B.
Qed.

(* upgrading twice: the second run is refused and leaves the upgraded tree as it is *)
Lemma version_11_not_lenient : version_ok_lenient (Some version_11) = false.
Proof. vm_compute. reflexivity. Qed.

(* ================================================================== 13. decidable versions of the hypotheses *)
Definition versions_lenient_b (names : list string) (top : folder) : bool :=
  forallb (fun n => match lookup n top with Some (Txt segs) => version_ok_lenient (version_of_file segs) | _ => true end) names.
Definition versions_strict_b (names : list string) (top : folder) : bool :=
  forallb (fun n => match lookup n top with
                    | Some (Txt segs) => if contains "points3d" n then version_ok_lenient (version_of_file segs)
                                         else version_ok_strict (version_of_file segs)
                    | _ => true end) names.
Definition headers_b (names : list string) (top : folder) : bool :=
  forallb (fun n => match lookup n top with Some (Txt segs) => header_is_comment segs | _ => true end) names.
Definition text_b (names : list string) (top : folder) : bool :=
  forallb (fun n => match lookup n top with Some (Bin _) => false | _ => true end) names.
Definition no_descriptor_below_b (k : fkind) (F : folder) : bool :=
  forallb (fun p => match cut_slash p with Some (_, r) => negb (eqb r (descname k)) | None => true end) (keys F).
Definition good_row_b (k : fkind) (d : desc10) (kt : string) (a : args) : bool :=
  clean (d_name d) && not_hash (d_name d) && memb (d_dtype d) dtype_names &&
  match k with KP => true | DS => clean kt && clean (a_dm a) | GF => clean (a_gm a) end.
Definition images_ok_b (e : string) (imgs : list string) : bool := forallb (fun i => has_ext e (i +++ e)) imgs.
Definition tidy_folder_b (k : fkind) (a : args) (kt : option string) (imgs : option (list string)) (oF : option folder) : bool :=
  match oF with
  | None => true
  | Some F =>
    no_descriptor_below_b k F &&
    match lookup (descname k) F with
    | Some (Txt segs) =>
      version_ok_lenient (version_of_file segs) &&
      match read_old segs with
      | inl d => match resolve_type (explicit k a) (d_name d) with
                 | Some ty => good_row_b k d (str_or_empty kt) a && negb (has_char "/" ty) &&
                              match imgs with Some im => images_ok_b (fext k) im | None => true end
                 | None => true
                 end
      | inr _ => true
      end
    | _ => true
    end
  end.
Definition strict_folder_b (k : fkind) (oF : option folder) : bool :=
  match oF with
  | Some F => match lookup (descname k) F with Some (Txt segs) => version_ok_strict (version_of_file segs) | _ => true end
  | None => true
  end.
Definition images_clean_b (L : obs_map) : bool := forallb (fun e => forallb (fun ik => clean (fst ik)) (snd e)) L.
Definition tidy10_b (a : args) (t : tree) : bool :=
  versions_lenient_b csv_1_0 (t_top t) && headers_b csv_1_0 (t_top t) &&
  tidy_folder_b KP a (a_kt a) (images_of (t_top t)) (t_kp t) &&
  tidy_folder_b DS a (kt_for a t) (images_of (t_top t)) (t_ds t) &&
  tidy_folder_b GF a (kt_for a t) (images_of (t_top t)) (t_gf t) &&
  match kt_for a t with Some ty => negb (has_char "/" ty) && clean ty | None => true end &&
  match lookup obs_file (t_top t) with
  | Some (Txt segs) => version_ok_lenient (version_of_file segs) &&
                       match obs_collect (rows segs) [] with Some m => images_clean_b (sortZ m) | None => true end
  | _ => true
  end.
Definition tidy10_strict_b (a : args) (t : tree) : bool :=
  versions_strict_b csv_1_0 (t_top t) && strict_folder_b KP (t_kp t) && strict_folder_b DS (t_ds t) &&
  strict_folder_b GF (t_gf t) &&
  match lookup obs_file (t_top t) with Some (Txt segs) => version_ok_strict (version_of_file segs) | _ => true end &&
  text_b csv_1_0 (t_top t).

Lemma tidy_folder_b_sound k a kt imgs oF : tidy_folder_b k a kt imgs oF = true -> tidy_folder k a kt imgs oF.
Proof.
  unfold tidy_folder_b, tidy_folder. destruct oF as [F|]; [|auto]. rewrite andb_true_iff. intros [ND T]. split.
  - intros p c I E. unfold no_descriptor_below_b in ND. rewrite forallb_forall in ND. specialize (ND p I).
    rewrite E, eqb_refl in ND. discriminate.
  - destruct (lookup (descname k) F) as [[segs|?]|]; auto. apply andb_true_iff in T as [V T]. split; [exact V|].
    intros d ty RO RT. rewrite RO, RT in T. rewrite !andb_true_iff in T. destruct T as [[G S] I].
    split; [|split].
    + unfold good_row_b in G. rewrite !andb_true_iff in G. destruct G as [[[A B] C] D]. repeat split; auto.
      destruct k; auto. apply andb_true_iff in D. exact D.
    + apply negb_true_iff in S. exact S.
    + intros im ->. unfold images_ok_b in I. rewrite forallb_forall in I. exact I.
Qed.

Lemma tidy10_b_sound a t : tidy10_b a t = true -> tidy10 a t.
Proof.
  unfold tidy10_b. rewrite !andb_true_iff. intros [[[[[[V H] K] D] G] KT] O]. constructor.
  - intros n segs I L. unfold versions_lenient_b in V. rewrite forallb_forall in V. specialize (V n I). rewrite L in V. exact V.
  - intros n segs I L. unfold headers_b in H. rewrite forallb_forall in H. specialize (H n I). rewrite L in H. exact H.
  - apply tidy_folder_b_sound, K.
  - apply tidy_folder_b_sound, D.
  - apply tidy_folder_b_sound, G.
  - intros ty E. rewrite E in KT. apply andb_true_iff in KT as [A B]. apply negb_true_iff in A. auto.
  - intros segs L. rewrite L in O. apply andb_true_iff in O as [A B]. split; [exact A|].
    intros m C. rewrite C in B. intros e ik He Hik. unfold images_clean_b in B. rewrite forallb_forall in B.
    specialize (B e He). rewrite forallb_forall in B. exact (B ik Hik).
Qed.

Lemma tidy10_strict_b_sound a t : tidy10_strict_b a t = true -> tidy10_strict a t.
Proof.
  unfold tidy10_strict_b. rewrite !andb_true_iff. intros [[[[[V K] D] G] O] X].
  assert (SF : forall k oF, strict_folder_b k oF = true -> strict_folder k oF).
  { intros k oF B F segs -> L. unfold strict_folder_b in B. rewrite L in B. exact B. }
  constructor; auto.
  - intros n segs I L. unfold versions_strict_b in V. rewrite forallb_forall in V. specialize (V n I). rewrite L in V. exact V.
  - intros segs L. rewrite L in O. exact O.
  - intros n c I L. unfold text_b in X. rewrite forallb_forall in X. specialize (X n I). rewrite L in X.
    destruct c; [eauto | discriminate].
Qed.

(* running the in-place route a second time: refused, and the upgraded tree is left as it is *)
Theorem second_run_refused a a' t v st :
  tidy10 a t -> load10 a t = Some v -> upgrade_inplace a t = Done st ->
  upgrade_inplace a' (fst st) = Failed Refused (fst st, a_kt a').
Proof.
  intros T L E. destruct (inplace_preserves a t v T L) as [st' [E' [_ [_ [_ [_ [_ RW]]]]]]].
  rewrite E in E'. injection E' as <-.
  assert (LS : exists ssegs, lookup sensors_file (t_top t) = Some (Txt ssegs)).
  { unfold load10 in L. destruct (lookup sensors_file (t_top t)) as [[ssegs|?]|]; try discriminate. eauto. }
  destruct LS as [ssegs LS].
  apply (inplace_refuses_other_version a' (fst st) (rewrite_header ssegs)).
  - intros n segs I Ln. apply memb_In in I. rewrite (RW n I) in Ln. unfold rewritten in Ln. rewrite I in Ln.
    destruct (lookup n (t_top t)) as [[s0|?]|]; try discriminate. injection Ln as <-.
    rewrite version_rewrite_header. apply version_11_not_lenient.
  - rewrite (RW _ sensors_in_csv). unfold rewritten. rewrite sensors_in_csv, LS. reflexivity.
Qed.

(* ================================================================== 14. the repaired loop: one move after the other, longest path first,
   is the parallel rename of the model; in any other order it may not be *)
From Coq Require Import Sorting.Sorted.

Lemma length_app_s a b : String.length (a +++ b) = (String.length a + String.length b)%nat.
Proof. induction a as [|c a IH]; cbn; [reflexivity | rewrite IH; reflexivity]. Qed.

Lemma length_under ty q : (String.length q < String.length (under ty q))%nat.
Proof. unfold under. rewrite !length_app_s. cbn. lia. Qed.

Section Sequential.
  Variable ty e : string.
  Variable F : folder.
  (* the measure the files are sorted by: any one that grows when a path is put under the type folder
     (number of bytes, number of characters, ...) *)
  Variable len : string -> nat.
  Hypothesis len_under : forall q, (len q < len (under ty q))%nat.

  Definition mstep (M : folder) (p : string) : folder := move_key p (under ty p) M.
  Definition move_in_order (order : list string) (M : folder) : folder := fold_left mstep order M.

  Lemma move_seq_eq : move_seq ty e F = move_in_order (List.filter (has_ext e) (keys F)) F.
  Proof. reflexivity. Qed.

  (* where the key k is read from once the files of [done] have been moved *)
  Definition spec (done : list string) (k : string) : option content :=
    match find (fun q => eqb k (under ty q)) done with
    | Some q => lookup q F
    | None => if memb k done then None else lookup k F
    end.

  Definition longest_first (L : list string) : Prop :=
    StronglySorted (fun p q => (len q <= len p)%nat) L.

  Lemma move_in_order_spec L : forall done M,
    (forall k, lookup k M = spec done k) ->
    NoDup L -> (forall p, In p L -> In p (keys F) /\ ~ In p done) ->
    longest_first L -> (forall p q, In p L -> In q done -> (len p <= len q)%nat) ->
    forall k, lookup k (move_in_order L M) = spec (rev L ++ done) k.
  Proof.
    induction L as [|p L IH]; intros done M Inv ND Sub Srt Len k; [apply Inv|].
    cbn [move_in_order fold_left rev]. rewrite <- app_assoc. cbn [app].
    inversion ND as [|? ? Np NDL]; subst. inversion Srt as [|? ? SrtL Hd]; subst.
    destruct (Sub p (or_introl eq_refl)) as [PK PD].
    assert (NF : forall done' q, (forall x, In x done' -> (len p <= len x)%nat) ->
                                 find (fun q => eqb p (under ty q)) done' = Some q -> False).
    { intros done' q Hl Hf. apply find_some in Hf as [Hq He]. apply eqb_true in He.
      pose proof (Hl q Hq). pose proof (len_under q). rewrite <- He in H0. lia. }
    assert (LP : lookup p M = lookup p F).
    { rewrite Inv. unfold spec. destruct (find (fun q => eqb p (under ty q)) done) eqn:Fd.
      - exfalso. apply (NF done s); [intros x Hx; apply (Len p x); [left; reflexivity | exact Hx] | exact Fd].
      - apply memb_not_In in PD. rewrite PD. reflexivity. }
    destruct (lookup p F) as [c|] eqn:LF.
    2:{ exfalso. apply lookup_In_keys in PK. apply PK. exact LF. }
    apply (IH (p :: done) (mstep M p)).
    - intros x. unfold mstep. rewrite lookup_move_key.
      2:{ intros E. pose proof (len_under p). rewrite <- E in H. lia. }
      rewrite LP. unfold spec. cbn [find memb].
      destruct (eqb_spec x (under ty p)) as [->|N1]; [exact (eq_sym LF) |].
      destruct (eqb_spec x p) as [->|N2].
      + destruct (find (fun q => eqb p (under ty q)) done) eqn:Fd; [|reflexivity].
        exfalso. apply (NF done s); [intros y Hy; apply (Len p y); [left; reflexivity | exact Hy] | exact Fd].
      + cbn [orb]. rewrite Inv. reflexivity.
    - exact NDL.
    - intros q Hq. destruct (Sub q (or_intror Hq)) as [A B]. split; [exact A|]. intros [<-|H]; [contradiction | contradiction].
    - exact SrtL.
    - intros x q Hx [<-|Hq].
      + rewrite Forall_forall in Hd. apply Hd, Hx.
      + apply (Len x q); [right; exact Hx | exact Hq].
  Qed.

  (* once every file with the extension has been moved, the folder is the renamed one *)
  Lemma spec_all done k :
    (forall q, In q done <-> In q (keys F) /\ has_ext e q = true) ->
    spec done k = lookup k (rename_feat ty e F).
  Proof.
    intros D. unfold spec. destruct (find (fun q => eqb k (under ty q)) done) as [q|] eqn:Fd.
    - apply find_some in Fd as [Hq He]. apply eqb_true in He. subst k. apply D in Hq as [_ X].
      symmetry. apply lookup_rename_feat_feature, X.
    - assert (NoSrc : forall p, In p (keys F) -> has_ext e p = true -> under ty p <> k).
      { intros p Hp X E. pose proof (find_none _ _ Fd p (proj2 (D p) (conj Hp X))) as Nf. cbn in Nf.
        rewrite <- E, eqb_refl in Nf. discriminate. }
      assert (RN : has_ext e k = true -> lookup k (rename_feat ty e F) = None).
      { intros X. rewrite rename_feat_eq. apply lookup_map_none. intros p Hp. fold (rn ty e p). unfold rn.
        destruct (has_ext e p) eqn:Xp; [apply NoSrc; assumption | intros ->; congruence]. }
      destruct (memb k done) eqn:Mk.
      + apply memb_In in Mk. apply D in Mk as [_ X]. symmetry. apply RN, X.
      + destruct (has_ext e k) eqn:X.
        * rewrite (RN eq_refl). apply lookup_None_keys. intros Hk. apply memb_not_In in Mk. apply Mk, D. auto.
        * symmetry. apply lookup_rename_feat_other, X.
  Qed.

  Theorem longest_first_is_rename L :
    NoDup L -> (forall q, In q L <-> In q (keys F) /\ has_ext e q = true) -> longest_first L ->
    forall k, lookup k (move_in_order L F) = lookup k (rename_feat ty e F).
  Proof.
    intros ND D Srt k. rewrite (move_in_order_spec L [] F); auto.
    - rewrite app_nil_r. apply spec_all. intros q. rewrite <- in_rev. apply D.
    - intros p Hp. split; [apply D, Hp | intros []].
    - intros p q _ [].
  Qed.
End Sequential.

(* the two measures of interest *)
Lemma bytes_grow ty q : (String.length q < String.length (under ty q))%nat.
Proof. apply length_under. Qed.

(* Python's len(str): the number of characters = bytes that are not UTF-8 continuation bytes *)
Definition is_cont (c : ascii) : bool := let n := code c in ((128 <=? n) && (n <? 192))%N.
Fixpoint nchars (s : string) : nat :=
  match s with EmptyString => O | String c s' => if is_cont c then nchars s' else S (nchars s') end.
Lemma nchars_app a b : nchars (a +++ b) = (nchars a + nchars b)%nat.
Proof. induction a as [|c a IH]; cbn; [reflexivity|]. destruct (is_cont c); rewrite IH; reflexivity. Qed.
Lemma chars_grow ty q : (nchars q < nchars (under ty q))%nat.
Proof. unfold under. rewrite !nchars_app. cbn. lia. Qed.

(* ================================================================== 16. record files in the copy route *)
Lemma copy_rd_step a s t r :
  upgrade_copy a s t = CDone r -> rd_step_cp false s (t_rd t) = inl (c_rd r, c_src_rd r).
Proof.
  unfold upgrade_copy, upgrade_copy_gen. intros H.
  repeat match type of H with
         | context [match ?x with _ => _ end] => destruct x eqn:?; try discriminate
         end.
  injection H as <-. reflexivity.
Qed.

Definition files_or_none (mk : folder -> rdout) (R : folder) : rdout := match R with [] => RNone | _ => mk R end.

Theorem record_files_per_strategy a s t r :
  upgrade_copy a s t = CDone r ->
  match t_rd t with
  | None => c_rd r = RNone /\ c_src_rd r = None
  | Some R =>
    c_src_rd r = match s with Move => Some [] | _ => Some R end /\
    c_rd r = match s with
             | Skip => RNone
             | RootLink => RRootLink
             | Copy | Move => files_or_none RFiles R
             | LinkAbs | LinkRel => files_or_none RLinks R
             end
  end.
Proof.
  intros H. apply copy_rd_step in H. unfold rd_step_cp in H.
  destruct (t_rd t) as [R|]; destruct s; injection H as <- <-; auto.
Qed.

(* ================================================================== 15. image names and extensions *)
Lemma removelast_cons_ne {A} (x : A) l : l <> [] -> removelast (x :: l) = x :: removelast l.
Proof. destruct l; [contradiction | reflexivity]. Qed.

Lemma split_char_app_nosep c i e :
  has_char c e = false ->
  split_char c (i +++ e) = removelast (split_char c i) ++ [last (split_char c i) EmptyString +++ e].
Proof.
  intros H. induction i as [|x i IH]; cbn [append split_char].
  - rewrite (split_char_no _ _ H). reflexivity.
  - destruct (Ascii.eqb x c).
    + rewrite IH, removelast_cons_ne by apply split_char_nonempty.
      destruct (split_char c i) eqn:E; [exfalso; eapply split_char_nonempty; eauto|]. reflexivity.
    + rewrite IH. destruct (split_char c i) as [|h t] eqn:E; [exfalso; eapply split_char_nonempty; eauto|].
      destruct t as [|h2 t]; reflexivity.
Qed.

Lemma basename_app i e : has_char "/" e = false -> basename (i +++ e) = basename i +++ e.
Proof.
  intros H. unfold basename. rewrite (split_char_app_nosep _ _ _ H). rewrite last_app_nonempty by discriminate. reflexivity.
Qed.

(* the base name of an image has at least one character other than a dot *)
Definition good_base (i : string) : bool := existsb nonempty_str (split_char "." (basename i)).

Lemma existsb_rev {A} (f : A -> bool) l : existsb f (rev l) = existsb f l.
Proof.
  induction l as [|x l IH]; [reflexivity|]. cbn. rewrite existsb_app, IH. cbn. rewrite orb_false_r. apply orb_comm.
Qed.

Lemma has_ext_image x i :
  has_char "/" x = false -> has_char "." x = false -> lower x = x -> good_base i = true ->
  has_ext (String "." x) (i +++ String "." x) = true.
Proof.
  intros S D Lw G. unfold has_ext. rewrite basename_app by (cbn; exact S).
  unfold ext_of. rewrite split_char_app, (split_char_no _ _ D), rev_app_distr. cbn [rev app].
  rewrite existsb_rev. unfold good_base in G. rewrite G. cbn [append lower]. rewrite Lw.
  assert (lower_ascii "." = "."%char) as -> by reflexivity. apply eqb_refl.
Qed.

Theorem images_ok_good k imgs : forallb good_base imgs = true -> images_ok (fext k) imgs.
Proof.
  intros G i Hi. rewrite forallb_forall in G. specialize (G i Hi).
  destruct k; [change (fext KP) with kp_ext | change (fext DS) with ds_ext | change (fext GF) with gf_ext];
    apply (has_ext_image _ i); try (vm_compute; reflexivity); exact G.
Qed.
